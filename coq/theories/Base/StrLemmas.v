(** Characterising lemmas for Base/StrOps.v. *)
From Coq Require Import List NArith Bool Arith Lia.
Import ListNotations.
From LI Require Import Base.StrOps.
Open Scope N_scope.

Lemma len_utf8_pos c : (1 <= len_utf8 c)%nat.
Proof. unfold len_utf8. destruct (c <? 128); [lia|]. destruct (c <? 2048); [lia|]. destruct (c <? 65536); lia. Qed.

Lemma blen_app a b : blen (a ++ b) = (blen a + blen b)%nat.
Proof. induction a as [|c a IH]; cbn [blen app]; [reflexivity|]. rewrite IH. lia. Qed.

Lemma blen_ge_length s : (length s <= blen s)%nat.
Proof. induction s as [|c s IH]; cbn [blen length]; [lia|]. pose proof (len_utf8_pos c). lia. Qed.

Lemma str_eqb_refl s : str_eqb s s = true.
Proof. induction s as [|c s IH]; cbn [str_eqb]; [reflexivity|]. rewrite N.eqb_refl, IH. reflexivity. Qed.
Lemma str_eqb_eq a b : str_eqb a b = true <-> a = b.
Proof.
  revert b; induction a as [|x a IH]; destruct b as [|y b]; cbn [str_eqb]; split; intros H; try discriminate; try reflexivity.
  - apply andb_prop in H. destruct H as [H1 H2]. apply N.eqb_eq in H1. apply IH in H2. subst. reflexivity.
  - inversion H; subst. rewrite N.eqb_refl. cbn [andb]. apply IH. reflexivity.
Qed.

(** slicing at a boundary never fails *)
Lemma take_bytes_app a b : take_bytes (a ++ b) (blen a) = Some a.
Proof.
  induction a as [|c a IH]; cbn [app blen].
  - destruct b; reflexivity.
  - pose proof (len_utf8_pos c) as Hp.
    destruct (len_utf8 c + blen a)%nat as [|n] eqn:E; [lia|].
    cbn [take_bytes]. assert (L : (len_utf8 c <=? S n)%nat = true) by (apply Nat.leb_le; lia). rewrite L.
    replace (S n - len_utf8 c)%nat with (blen a) by lia. rewrite IH. reflexivity.
Qed.
Lemma drop_bytes_app a b : drop_bytes (a ++ b) (blen a) = Some b.
Proof.
  induction a as [|c a IH]; cbn [app blen].
  - destruct b; reflexivity.
  - pose proof (len_utf8_pos c) as Hp.
    destruct (len_utf8 c + blen a)%nat as [|n] eqn:E; [lia|].
    cbn [drop_bytes]. assert (L : (len_utf8 c <=? S n)%nat = true) by (apply Nat.leb_le; lia). rewrite L.
    replace (S n - len_utf8 c)%nat with (blen a) by lia. exact IH.
Qed.
(** and conversely a successful slice is a split at that byte offset *)
Lemma drop_bytes_spec s n r : drop_bytes s n = Some r -> exists a, s = a ++ r /\ blen a = n.
Proof.
  revert n r; induction s as [|c s IH]; intros n r H.
  - destruct n; cbn in H; [inversion H; exists []; split; reflexivity | discriminate].
  - destruct n as [|n]; cbn [drop_bytes] in H; [inversion H; exists []; split; reflexivity|].
    destruct (len_utf8 c <=? S n)%nat eqn:L; [|discriminate]. apply Nat.leb_le in L.
    apply IH in H as [a [-> Ha]]. exists (c :: a). split; [reflexivity|]. cbn [blen]. lia.
Qed.
Lemma take_bytes_spec s n a : take_bytes s n = Some a -> exists r, s = a ++ r /\ blen a = n.
Proof.
  revert n a; induction s as [|c s IH]; intros n a H.
  - destruct n; cbn in H; [inversion H; exists []; split; reflexivity | discriminate].
  - destruct n as [|n]; cbn [take_bytes] in H; [inversion H; exists (c :: s); split; reflexivity|].
    destruct (len_utf8 c <=? S n)%nat eqn:L; [|discriminate]. apply Nat.leb_le in L.
    destruct (take_bytes s (S n - len_utf8 c)) as [t|] eqn:T; [|discriminate]. inversion H; subst.
    apply IH in T as [r [-> Hb]]. exists r. split; [reflexivity|]. cbn [blen]. lia.
Qed.

Lemma strip_prefix_spec p s r : strip_prefix p s = Some r -> s = p ++ r.
Proof.
  revert s r; induction p as [|x p IH]; intros s r H; cbn [strip_prefix] in H.
  - inversion H; reflexivity.
  - destruct s as [|y s]; [discriminate|]. destruct (x =? y) eqn:E; [|discriminate].
    apply N.eqb_eq in E. subst. apply IH in H. subst. reflexivity.
Qed.
Lemma strip_prefix_app p r : strip_prefix p (p ++ r) = Some r.
Proof. induction p as [|x p IH]; cbn [strip_prefix app]; [reflexivity|]. rewrite N.eqb_refl. exact IH. Qed.

(** split_once: the string is cut around the pattern *)
Lemma split_once_spec p s a b : split_once p s = Some (a, b) -> s = a ++ p ++ b.
Proof.
  revert a b; induction s as [|c s IH]; intros a b H; cbn [split_once] in H.
  - destruct (strip_prefix p []) as [r|] eqn:E; [|discriminate]. inversion H; subst.
    apply strip_prefix_spec in E. exact E.
  - destruct (strip_prefix p (c :: s)) as [r|] eqn:E.
    + inversion H; subst. apply strip_prefix_spec in E. exact E.
    + destruct (split_once p s) as [[a' b']|] eqn:S; [|discriminate]. inversion H; subst.
      rewrite (IH a' b eq_refl). reflexivity.
Qed.
Lemma split_once_c_spec c s a b : split_once_c c s = Some (a, b) -> s = a ++ c :: b.
Proof. unfold split_once_c. intros H. apply split_once_spec in H. exact H. Qed.

Definition no_char (c : char) (s : str) : Prop := Forall (fun x => x <> c) s.
Lemma split_once_c_first c a b : no_char c a -> split_once_c c (a ++ c :: b) = Some (a, b).
Proof.
  unfold split_once_c. induction a as [|x a IH]; intros H; cbn [app split_once strip_prefix].
  - rewrite N.eqb_refl. reflexivity.
  - inversion H; subst. destruct (c =? x) eqn:E; [apply N.eqb_eq in E; symmetry in E; contradiction|].
    rewrite (IH H3). reflexivity.
Qed.
Lemma split_once_c_no_char c s a b : split_once_c c s = Some (a, b) -> no_char c a.
Proof.
  unfold split_once_c. revert a b; induction s as [|x s IH]; intros a b H; cbn [split_once strip_prefix] in H.
  - discriminate.
  - destruct (c =? x) eqn:E.
    + inversion H; subst. constructor.
    + destruct (split_once [c] s) as [[a' b']|] eqn:S; [|discriminate]. inversion H; subst.
      constructor; [intros ->; rewrite N.eqb_refl in E; discriminate | eapply IH; reflexivity].
Qed.
Lemma split_once_none_c c s : split_once_c c s = None -> no_char c s.
Proof.
  unfold split_once_c. induction s as [|x s IH]; intros H; [constructor|]. cbn [split_once strip_prefix] in H.
  destruct (c =? x) eqn:E; [discriminate|].
  destruct (split_once [c] s) as [[a' b']|] eqn:S; [discriminate|].
  constructor; [intros ->; rewrite N.eqb_refl in E; discriminate | apply IH; reflexivity].
Qed.

Lemma rsplit_once_spec p s a b : rsplit_once p s = Some (a, b) -> s = a ++ p ++ b.
Proof.
  revert a b; induction s as [|c s IH]; intros a b H; cbn [rsplit_once] in H.
  - destruct p; [inversion H; reflexivity | discriminate].
  - destruct (rsplit_once p s) as [[a' b']|] eqn:S.
    + inversion H; subst. rewrite (IH a' b eq_refl). reflexivity.
    + destruct (strip_prefix p (c :: s)) as [r|] eqn:E; [|discriminate]. inversion H; subst.
      apply strip_prefix_spec in E. exact E.
Qed.

(** find_idx: the offset is a boundary in front of the first matching character *)
Lemma find_idx_spec f s n : find_idx f s = Some n ->
  exists a c b, s = a ++ c :: b /\ blen a = n /\ f c = true /\ Forall (fun x => f x = false) a.
Proof.
  revert n; induction s as [|x s IH]; intros n H; cbn [find_idx] in H; [discriminate|].
  destruct (f x) eqn:E.
  - inversion H; subst. exists [], x, s. repeat split; [exact E | constructor].
  - destruct (find_idx f s) as [m|] eqn:F; [|discriminate]. inversion H; subst.
    destruct (IH m eq_refl) as (a & c & b & -> & Hb & Hc & Ha).
    exists (x :: a), c, b. repeat split; [cbn [blen]; lia | exact Hc | constructor; assumption].
Qed.

(** trimming *)
Definition all_ws (w : str) : Prop := Forall (fun c => is_ws c = true) w.
Lemma trim_start_ws_app w s : all_ws w -> trim_start (w ++ s) = trim_start s.
Proof. induction w as [|c w IH]; intros H; cbn [app trim_start]; [reflexivity|]. inversion H; subst. rewrite H2. apply IH; assumption. Qed.
Lemma trim_start_nonws c s : is_ws c = false -> trim_start (c :: s) = c :: s.
Proof. intros H; cbn [trim_start]; rewrite H; reflexivity. Qed.
Lemma all_ws_rev w : all_ws w -> all_ws (rev w).
Proof. unfold all_ws. intros H. apply Forall_rev. exact H. Qed.
Lemma trim_end_app_ws s w : all_ws w -> trim_end (s ++ w) = trim_end s.
Proof. intros H. unfold trim_end. rewrite rev_app_distr. rewrite trim_start_ws_app by (apply all_ws_rev; exact H). reflexivity. Qed.
Lemma trim_end_last_nonws s c : is_ws c = false -> trim_end (s ++ [c]) = s ++ [c].
Proof. intros H. unfold trim_end. rewrite rev_app_distr. cbn [rev app trim_start]. rewrite H. cbn [rev]. rewrite rev_involutive. reflexivity. Qed.

Lemma trim_start_suffix s : exists w, s = w ++ trim_start s /\ all_ws w.
Proof.
  induction s as [|c s [w [E H]]]; [exists []; split; [reflexivity | constructor]|].
  cbn [trim_start]. destruct (is_ws c) eqn:W.
  - exists (c :: w). split; [cbn [app]; f_equal; exact E | constructor; assumption].
  - exists []. split; [reflexivity | constructor].
Qed.
Lemma trim_start_length s : (length (trim_start s) <= length s)%nat.
Proof. destruct (trim_start_suffix s) as [w [E _]]. rewrite E at 2. rewrite app_length. lia. Qed.
Lemma trim_end_length s : (length (trim_end s) <= length s)%nat.
Proof. unfold trim_end. rewrite rev_length. pose proof (trim_start_length (rev s)). rewrite rev_length in H. exact H. Qed.
Lemma trim_length s : (length (trim s) <= length s)%nat.
Proof. unfold trim. pose proof (trim_end_length (trim_start s)). pose proof (trim_start_length s). lia. Qed.
