(** Lemmas about the model Parser/Ranges.v (property C04). *)
From Coq Require Import List NArith ZArith Bool Lia DecimalN DecimalPos.
Import ListNotations.
From LI Require Import Base.StrOps Parser.Ranges.
Open Scope Z_scope.

(* ================================================================== induction on ranges *)

Section RangeInd.
  Variable P : range -> Prop.
  Hypothesis HE : forall v, P (Exact v).
  Hypothesis HB : forall s e, P (Bounds s e).
  Hypothesis HM : forall l, Forall P l -> P (Multiple l).
  Hypothesis HF : P Fallback.
  Fixpoint range_ind' (r : range) : P r :=
    match r with
    | Exact v => HE v
    | Bounds s e => HB s e
    | Multiple l => HM l ((fix go (l : list range) : Forall P l :=
                             match l with
                             | [] => Forall_nil P
                             | x :: t => Forall_cons x (range_ind' x) (go t)
                             end) l)
    | Fallback => HF
    end.
End RangeInd.

Lemma existsb_ext_Forall {A} (f g : A -> bool) l :
  Forall (fun x => f x = g x) l -> existsb f l = existsb g l.
Proof.
  induction 1 as [|x l Hx _ IH]; cbn [existsb]; [reflexivity|]. now rewrite Hx, IH.
Qed.

(* ================================================================== numbers *)

Definition not_nan (x : num) : Prop := x <> None.

Lemma num_gtb_false_leb a b : a <> None -> b <> None -> num_gtb a b = negb (num_leb a b).
Proof.
  destruct a as [a|], b as [b|]; try congruence; intros _ _.
  unfold num_gtb, num_ltb, num_leb. destruct (Z.ltb_spec b a), (Z.leb_spec a b); cbn; try reflexivity; lia.
Qed.
Lemma num_geb_leb a b : num_geb a b = num_leb b a.
Proof. reflexivity. Qed.
Lemma num_eqb_sym a b : num_eqb a b = num_eqb b a.
Proof. destruct a, b; cbn; try reflexivity. apply Z.eqb_sym. Qed.

(** no NaN among the numbers of a range *)
Definition range_no_nan (r : range) : bool := forallb (fun v => negb (num_is_nan v)) (range_nums r).

Lemma range_no_nan_Multiple l :
  range_no_nan (Multiple l) = forallb range_no_nan l.
Proof.
  unfold range_no_nan. cbn [range_nums]. induction l as [|x l IH]; cbn [flat_map forallb]; [reflexivity|].
  now rewrite forallb_app, IH.
Qed.

(** do_match computes the Rust meaning of the pattern / of RangeBounds::contains on non-NaN data *)
Lemma do_match_pat_match r : forall x, x <> None -> range_no_nan r = true -> do_match r x = pat_match r x.
Proof.
  induction r as [v|s e|l IH|] using range_ind'; intros x Hx Hn.
  - cbn. apply num_eqb_sym.
  - unfold range_no_nan in Hn. cbn [range_nums] in Hn. rewrite forallb_app in Hn.
    apply andb_true_iff in Hn as [Hs He].
    cbn [do_match pat_match].
    assert (Hstart : (match s with Some s0 => num_gtb s0 x | None => false end) = negb (start_le s x)).
    { destruct s as [s0|]; cbn [start_le]; [|reflexivity].
      cbn in Hs. rewrite andb_true_r in Hs. apply num_gtb_false_leb; [|assumption].
      destruct s0; cbn in Hs; congruence. }
    rewrite Hstart.
    destruct e as [e|e|]; cbn in He; try rewrite andb_true_r in He.
    + destruct (start_le s x); cbn; reflexivity.
    + destruct (start_le s x); cbn; reflexivity.
    + destruct (start_le s x); reflexivity.
  - cbn [do_match pat_match]. rewrite range_no_nan_Multiple in Hn.
    apply existsb_ext_Forall. rewrite Forall_forall in *. intros y Hy.
    apply IH; try assumption. rewrite forallb_forall in Hn. now apply Hn.
  - reflexivity.
Qed.

(** on ranges without any fallback inside, the float condition is the pattern meaning *)
Lemma gen_cond_pat_match r : forall x, has_fallback r = false -> gen_cond r x = Some (pat_match r x).
Proof.
  induction r as [v|s e|l IH|] using range_ind'; intros x Hf.
  - reflexivity.
  - destruct e; reflexivity.
  - cbn [gen_cond pat_match]. f_equal. cbn [has_fallback] in Hf.
    apply existsb_ext_Forall. rewrite Forall_forall in *. intros y Hy.
    rewrite IH; [reflexivity|assumption|].
    destruct (has_fallback y) eqn:E; [|reflexivity].
    assert (existsb has_fallback l = true) by (apply existsb_exists; eauto). congruence.
  - discriminate.
Qed.

(* ================================================================== first match *)

(** the generic "index of the first element satisfying p" *)
Fixpoint first_index {A} (p : A -> bool) (l : list A) : option nat :=
  match l with
  | [] => None
  | a :: t => if p a then Some O else match first_index p t with Some i => Some (S i) | None => None end
  end.

Lemma find_index_first bs x : find_index bs x = first_index (fun b => do_match (fst b) x) bs.
Proof. induction bs as [|[r v] t IH]; cbn; [reflexivity|]. now rewrite IH. Qed.
Lemma gen_match_first bs x : gen_match bs x = first_index (fun b => pat_match (fst b) x) bs.
Proof. induction bs as [|[r v] t IH]; cbn; [reflexivity|]. now rewrite IH. Qed.
Lemma gen_if_chain_first bs x :
  gen_if_chain bs x = first_index (fun b => match gen_cond (fst b) x with Some c => c | None => true end) bs.
Proof.
  induction bs as [|[r v] t IH]; cbn [gen_if_chain first_index fst]; [reflexivity|].
  rewrite IH. destruct (gen_cond r x) as [[|]|]; reflexivity.
Qed.

Lemma first_index_ext {A} (p q : A -> bool) l :
  (forall a, In a l -> p a = q a) -> first_index p l = first_index q l.
Proof.
  induction l as [|a t IH]; intros H; cbn; [reflexivity|].
  rewrite (H a (or_introl eq_refl)), IH; [reflexivity|]. intros; apply H; now right.
Qed.

Lemma first_index_spec {A} (p : A -> bool) l i :
  first_index p l = Some i <->
  (exists a, nth_error l i = Some a /\ p a = true) /\ (forall j b, (j < i)%nat -> nth_error l j = Some b -> p b = false).
Proof.
  revert i; induction l as [|a t IH]; intros i; cbn [first_index].
  - split; [discriminate|]. intros [[b [Hb _]] _]. destruct i; discriminate.
  - destruct (p a) eqn:Ea.
    + split.
      * intros [= <-]. split; [exists a; auto|]. intros j b Hj; lia.
      * intros [[b [Hb Hp]] Hlt]. destruct i; [reflexivity|].
        specialize (Hlt O a ltac:(lia) eq_refl). congruence.
    + destruct (first_index p t) as [k|].
      * split.
        -- intros [= <-]. destruct (proj1 (IH k) eq_refl) as [[b [Hb Hp]] Hlt]. split; [exists b; auto|].
           intros [|j] c Hj Hc; cbn in Hc; [congruence|]. apply (Hlt j); [lia|assumption].
        -- intros [[b [Hb Hp]] Hlt]. destruct i as [|i]; [cbn in Hb; congruence|].
           assert (Some k = Some i) as E.
           { apply IH. split; [exists b; auto|]. intros j c Hj Hc. apply (Hlt (S j)); [lia|exact Hc]. }
           congruence.
      * split; [discriminate|]. intros [[b [Hb Hp]] Hlt]. destruct i as [|i]; [cbn in Hb; congruence|].
        assert (@None nat = Some i) as E.
        { apply IH. split; [exists b; auto|]. intros j c Hj Hc. apply (Hlt (S j)); [lia|exact Hc]. }
        discriminate.
Qed.

Lemma first_index_none {A} (p : A -> bool) l :
  first_index p l = None <-> forall a, In a l -> p a = false.
Proof.
  induction l as [|a t IH]; cbn [first_index].
  - split; [intros _ a []|reflexivity].
  - destruct (p a) eqn:Ea.
    + split; [discriminate|]. intros H. specialize (H a (or_introl eq_refl)). congruence.
    + destruct (first_index p t); split; try discriminate.
      * intros H. assert (@None nat = None) as _ by reflexivity.
        exfalso. assert (Some n = None) as X; [|discriminate]. apply IH. intros; apply H; now right.
      * intros _ b [<-|Hb]; [assumption|]. now apply IH.
      * reflexivity.
Qed.

(** find_value returns the populated value of the branch find_index designates *)
Lemma find_value_index bs x disp :
  find_value bs x disp =
  match find_index bs x with
  | Some i => match nth_error bs i with Some b => Ok (populate disp (snd b)) | None => Err CountArgNoMatch end
  | None => Err CountArgNoMatch
  end.
Proof.
  induction bs as [|[r v] t IH]; cbn [find_value find_index]; [reflexivity|].
  destruct (do_match r x); [reflexivity|]. rewrite IH. destruct (find_index t x); reflexivity.
Qed.
Lemma find_value_old_index bs x disp :
  find_value_old bs x disp =
  match find_index bs x with
  | Some i => match nth_error bs i with Some b => Ok (populate disp (snd b)) | None => Panic SiteFindValue end
  | None => Panic SiteFindValue
  end.
Proof.
  induction bs as [|[r v] t IH]; cbn [find_value_old find_index]; [reflexivity|].
  destruct (do_match r x); [reflexivity|]. rewrite IH. destruct (find_index t x); reflexivity.
Qed.

(* ================================================================== validation *)

Definition branches_no_nan (bs : branches) : bool := forallb (fun b => range_no_nan (fst b)) bs.

(** the shape check_deserialization accepts *)
Definition valid_shape (t : rtype) (bs : branches) : Prop :=
  bs = [] /\ ty_is_float t = false \/
  exists init last, bs = init ++ [last]
    /\ (forall b, In b init -> has_fallback (fst b) = false)
    /\ (ty_is_float t = true -> fst last = Fallback).

Lemma filter_nil_iff {A} (f : A -> bool) l : filter f l = [] <-> forall a, In a l -> f a = false.
Proof.
  induction l as [|a t IH]; cbn; [split; [intros _ a []|reflexivity]|].
  destruct (f a) eqn:E; split.
  - discriminate.
  - intros H. specialize (H a (or_introl eq_refl)). congruence.
  - intros H b [<-|Hb]; [assumption|]. now apply IH.
  - intros H. apply IH. intros; apply H; now right.
Qed.

Lemma is_fallback_has r : is_fallback r = true -> has_fallback r = true.
Proof. destruct r; cbn; congruence. Qed.

Lemma check_deserialization_ok t bs :
  check_deserialization t bs = Ok tt <-> valid_shape t bs.
Proof.
  unfold check_deserialization, check_de, valid_shape.
  destruct (rev bs) as [|last rinit] eqn:Er.
  - assert (bs = []) as -> by (apply (f_equal (@rev _)) in Er; now rewrite rev_involutive in Er).
    cbn. destruct (ty_is_float t) eqn:Ef; cbn.
    + split; [discriminate|]. intros [[_ H]|[init [last [H _]]]]; [discriminate|destruct init; discriminate].
    + split; [intros _; left; auto|reflexivity].
  - assert (bs = rev rinit ++ [last]) as Hbs
        by (apply (f_equal (@rev _)) in Er; now rewrite rev_involutive in Er).
    cbn [tl].
    destruct (existsb (fun b => has_fallback (fst b)) rinit) eqn:Einv.
    + split; [discriminate|]. intros [[H _]|[init [l2 [H [Hno _]]]]].
      * rewrite H in Hbs. destruct (rev rinit); discriminate.
      * rewrite Hbs in H. apply app_inj_tail in H as [H1 H2]. subst init.
        apply existsb_exists in Einv as [b [Hb1 Hb2]]. rewrite (Hno b) in Hb2; [discriminate|].
        rewrite <- in_rev. exact Hb1.
    + assert (Hno : forall b, In b (rev rinit) -> has_fallback (fst b) = false).
      { intros b Hb. rewrite <- in_rev in Hb. destruct (has_fallback (fst b)) eqn:E; [|reflexivity].
        assert (existsb (fun b => has_fallback (fst b)) rinit = true) by (apply existsb_exists; eauto). congruence. }
      assert (Hfil : filter (fun b => is_fallback (fst b)) (rev rinit) = []).
      { apply filter_nil_iff. intros b Hb. specialize (Hno b Hb).
        destruct (is_fallback (fst b)) eqn:E; [|reflexivity]. apply is_fallback_has in E. congruence. }
      rewrite Hbs, filter_app, Hfil. cbn [app filter].
      destruct (is_fallback (fst last)) eqn:El; cbn [length Nat.ltb Nat.leb Nat.eqb andb].
      * split; [intros _|reflexivity]. right. exists (rev rinit), last. repeat split; try assumption.
        intros _. destruct (fst last); cbn in El; congruence.
      * destruct (ty_is_float t) eqn:Ef; split; try discriminate.
        -- intros [[H _]|[init [l2 [H [_ Hl]]]]]; [now destruct (rev rinit)|].
           apply app_inj_tail in H as [_ <-]. rewrite (Hl eq_refl) in El. discriminate.
        -- intros _. right. exists (rev rinit), last. repeat split; try assumption. discriminate.
        -- reflexivity.
Qed.

(** MultipleFallbacks cannot be produced: a second pure fallback is always reported as misplaced *)
Lemma check_deserialization_never_multiple t bs : check_deserialization t bs <> Err MultipleFallbacks.
Proof.
  unfold check_deserialization, check_de.
  destruct (existsb (fun b => has_fallback (fst b)) (tl (rev bs))) eqn:Einv; [discriminate|].
  destruct (rev bs) as [|last rinit] eqn:Er.
  - assert (bs = []) as -> by (apply (f_equal (@rev _)) in Er; now rewrite rev_involutive in Er).
    cbn. destruct (ty_is_float t); discriminate.
  - assert (bs = rev rinit ++ [last]) as Hbs
        by (apply (f_equal (@rev _)) in Er; now rewrite rev_involutive in Er).
    cbn [tl] in Einv.
    assert (Hfil : filter (fun b => is_fallback (fst b)) (rev rinit) = []).
    { apply filter_nil_iff. intros b Hb. rewrite <- in_rev in Hb.
      destruct (is_fallback (fst b)) eqn:E; [|reflexivity]. apply is_fallback_has in E.
      assert (existsb (fun b => has_fallback (fst b)) rinit = true) by (apply existsb_exists; eauto). congruence. }
    rewrite Hbs, filter_app, Hfil. cbn [app filter].
    destruct (is_fallback (fst last)); cbn [length Nat.ltb Nat.leb Nat.eqb andb]; [discriminate|].
    destruct (ty_is_float t); discriminate.
Qed.

(* ================================================================== static = dynamic *)

Lemma first_index_app_last {A} (p q : A -> bool) init last :
  (forall a, In a init -> p a = q a) -> p last = q last ->
  first_index p (init ++ [last]) = first_index q (init ++ [last]).
Proof.
  intros H1 H2. apply first_index_ext. intros a Ha. apply in_app_or in Ha as [Ha|[<-|[]]]; auto.
Qed.

(** the branch selected at parse time for a literal count is the branch the generated code selects at
    run time with the same count (count and bounds not NaN; declaration accepted by the validation) *)
Lemma static_dynamic t bs x :
  check_deserialization t bs = Ok tt -> branches_no_nan bs = true -> x <> None ->
  find_index bs x = gen_select t bs x.
Proof.
  intros Hv Hn Hx. rewrite find_index_first. unfold gen_select.
  assert (Hpat : forall b, In b bs -> do_match (fst b) x = pat_match (fst b) x).
  { intros b Hb. apply do_match_pat_match; [assumption|].
    unfold branches_no_nan in Hn. rewrite forallb_forall in Hn. now apply Hn. }
  destruct (ty_is_float t) eqn:Ef.
  - rewrite gen_if_chain_first.
    apply check_deserialization_ok in Hv as [[-> _]|[init [last [-> [Hno Hl]]]]]; [reflexivity|].
    apply first_index_app_last.
    + intros b Hb. rewrite gen_cond_pat_match by now apply Hno.
      apply Hpat. apply in_or_app; now left.
    + rewrite (Hl Ef). reflexivity.
  - rewrite gen_match_first. now apply first_index_ext.
Qed.

(** integer types need no validation hypothesis: the patterns mean what do_match computes *)
Lemma static_dynamic_int t bs x :
  ty_is_float t = false -> branches_no_nan bs = true -> x <> None ->
  find_index bs x = gen_select t bs x.
Proof.
  intros Ef Hn Hx. unfold gen_select. rewrite Ef, find_index_first, gen_match_first.
  apply first_index_ext. intros b Hb. apply do_match_pat_match; [assumption|].
  unfold branches_no_nan in Hn. rewrite forallb_forall in Hn. now apply Hn.
Qed.

(** witness for the validation before the repair: a fallback hidden two levels deep in a float
    declaration is accepted, matches every literal count at parse time, and is dropped from the
    generated condition: static and dynamic selection differ *)
Definition w_old_bs : branches :=
  [ (Multiple [Exact (Some 20); Multiple [Exact (Some 10); Fallback]], [PLit [97%N]]);
    (Fallback, [PLit [98%N]]) ].
Lemma old_validation_refuted :
  check_deserialization_old F64 w_old_bs = Ok tt
  /\ find_index w_old_bs (Some 50) = Some 0%nat
  /\ gen_select F64 w_old_bs (Some 50) = Some 1%nat
  /\ check_deserialization F64 w_old_bs = Err InvalidFallback.
Proof. repeat split; vm_compute; reflexivity. Qed.

(** C09 sighting: find_value as written panics when no branch matches *)
Lemma find_value_old_panics :
  find_value_old [(Exact (Some 0), [PLit [122%N]]); (Exact (Some 1), [PLit [111%N]])] (Some 5) [53%N]
  = Panic SiteFindValue.
Proof. reflexivity. Qed.
Lemma find_value_never_panics bs x disp : forall s, find_value bs x disp <> Panic s.
Proof.
  intros s. induction bs as [|[r v] t IH]; cbn; [discriminate|]. destruct (do_match r x); [discriminate|assumption].
Qed.
