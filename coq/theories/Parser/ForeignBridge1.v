(** Bridge between the project files of a correspondence case and the model's [values] (property C06),
    part 1: lookups.  [jget]: lookup of a (locale, key path) in the JSON files, with the rules of
    LocalesOrNamespaces::get_value_at; [build_values] turns every such lookup into the lookup in the
    built values ([build_values_lookup]). *)
From Coq Require Import List NArith ZArith Bool Arith Lia.
Import ListNotations.
From LI Require Import Base.StrOps Base.StrLemmas Parser.Parse Parser.Json Parser.Reduce Parser.Source Parser.ParseCheck
  Parser.Foreign Parser.ForeignCheck.
Open Scope N_scope.

(** * equality tests *)
Lemma opt_str_eqb_eq a b : opt_str_eqb a b = true <-> a = b.
Proof.
  destruct a as [x|], b as [y|]; cbn [opt_str_eqb]; split; intros H; try discriminate; try reflexivity.
  - apply str_eqb_eq in H. subst. reflexivity.
  - inversion H; subst. apply str_eqb_refl.
Qed.
Lemma strs_eqb_eq a b : strs_eqb a b = true <-> a = b.
Proof.
  revert b; induction a as [|x a IH]; destruct b as [|y b]; cbn [strs_eqb]; split; intros H; try discriminate; try reflexivity.
  - apply andb_true_iff in H as [H1 H2]. apply str_eqb_eq in H1. apply IH in H2. subst. reflexivity.
  - inversion H; subst. rewrite str_eqb_refl. apply IH. reflexivity.
Qed.
Lemma entry_key_eqb_eq a b : entry_key_eqb a b = true <-> a = b.
Proof.
  destruct a as [[n1 l1] p1], b as [[n2 l2] p2]. cbn [entry_key_eqb]. split; intros H.
  - apply andb_true_iff in H as [H H3]. apply andb_true_iff in H as [H1 H2].
    apply opt_str_eqb_eq in H1. apply str_eqb_eq in H2. apply strs_eqb_eq in H3. subst. reflexivity.
  - inversion H; subst. apply andb_true_iff. split; [apply andb_true_iff; split|].
    + apply opt_str_eqb_eq. reflexivity.
    + apply str_eqb_refl.
    + apply strs_eqb_eq. reflexivity.
Qed.
Lemma str_eqb_false a b : a <> b -> str_eqb a b = false.
Proof. intros H. destruct (str_eqb a b) eqn:E; [apply str_eqb_eq in E; contradiction | reflexivity]. Qed.

(** * association lists *)
Lemma assoc_app {V} k (a b : list (str * V)) :
  assoc k (a ++ b) = match assoc k a with Some v => Some v | None => assoc k b end.
Proof.
  induction a as [|[k' v] r IH]; [reflexivity|]. cbn [app assoc]. destruct (str_eqb k k'); [reflexivity | exact IH].
Qed.
Lemma assoc_in {V} k (m : list (str * V)) v : assoc k m = Some v -> exists k', In (k', v) m /\ k' = k.
Proof.
  induction m as [|[k' v'] r IH]; [discriminate|]. cbn [assoc]. destruct (str_eqb k k') eqn:E; intros H.
  - inversion H; subst. apply str_eqb_eq in E. subst. exists k'. split; [left; reflexivity | reflexivity].
  - destruct (IH H) as (k2 & Hi & E2). exists k2. split; [right; exact Hi | exact E2].
Qed.
(** a lookup after an insertion, whatever the map *)
Lemma assoc_map_insert {V} k' k (v : V) m :
  assoc k' (map_insert k v m) = if str_eqb k' k then Some v else assoc k' m.
Proof.
  induction m as [|[k2 v2] t IH]; cbn [map_insert assoc].
  - reflexivity.
  - destruct (str_eqb k k2) eqn:E2.
    + apply str_eqb_eq in E2. subst k2. cbn [assoc]. destruct (str_eqb k' k); reflexivity.
    + destruct (str_ltb k k2).
      * cbn [assoc]. reflexivity.
      * cbn [assoc]. rewrite IH. destruct (str_eqb k' k2) eqn:E3; [|reflexivity].
        destruct (str_eqb k' k) eqn:E1; [|reflexivity].
        apply str_eqb_eq in E3. apply str_eqb_eq in E1. subst. rewrite str_eqb_refl in E2. discriminate.
Qed.

(** * lookups in the JSON files *)
Fixpoint jlocale_get (ms : list (str * jnode)) (path : list str) : option jnode :=
  match path with
  | [] => None
  | k :: rest =>
      match rest with
      | [] => assoc k ms
      | _ => match assoc k ms with Some (JObj sub) => jlocale_get sub rest | _ => None end
      end
  end.
Definition jfile := (option str * str * list (str * jnode))%type.
Definition file_is (ns : option str) (L : str) (f : jfile) : bool :=
  let '(ns', l', _) := f in opt_str_eqb ns ns' && str_eqb L l'.
(** the members of the first file of (namespace, locale) *)
Definition jfile_of (files : list jfile) (ns : option str) (L : str) : option (list (str * jnode)) :=
  match find (file_is ns L) files with Some (_, _, ms) => Some ms | None => None end.
Definition jget (files : list jfile) (L : str) (p : keypath) : option jnode :=
  match jfile_of files (fst p) L with Some ms => jlocale_get ms (snd p) | None => None end.

(** * one file: build_kmap commutes with lookups *)
Section Build.
Variable parsef : str -> res pv.

Fixpoint build_members (ms : list (str * jnode)) : res kmap :=
  match ms with
  | [] => Ok []
  | (k, j') :: r => bind (build_node parsef j') (fun n => bind (build_members r) (fun m => Ok (map_insert k n m)))
  end.
Lemma build_node_obj ms : build_node parsef (JObj ms) = bind (build_members ms) (fun m => Ok (NSub m)).
Proof. reflexivity. Qed.
Lemma build_kmap_members ms : build_kmap parsef ms = build_members ms.
Proof. unfold build_kmap. rewrite build_node_obj. destruct (build_members ms); reflexivity. Qed.

(** what a JSON lookup result becomes in the built values *)
Definition node_rel (oj : option jnode) (on : option node) : Prop :=
  match oj with
  | Some j => exists n, on = Some n /\ build_node parsef j = Ok n
  | None => on = None
  end.

Lemma build_members_assoc ms m k : build_members ms = Ok m -> node_rel (assoc k ms) (assoc k m).
Proof.
  revert m. induction ms as [|[k' j'] r IH]; intros m H; cbn [build_members] in H.
  - inversion H; subst. reflexivity.
  - destruct (build_node parsef j') as [n| | | |] eqn:En; cbn [bind] in H; try discriminate.
    destruct (build_members r) as [m'| | | |] eqn:Er; cbn [bind] in H; try discriminate.
    inversion H; subst. rewrite assoc_map_insert. cbn [assoc]. destruct (str_eqb k k').
    + exists n. auto.
    + apply IH. reflexivity.
Qed.

Lemma build_members_get : forall path ms m, build_members ms = Ok m -> node_rel (jlocale_get ms path) (locale_get m path).
Proof.
  induction path as [|k rest IH]; intros ms m H; [reflexivity|].
  cbn [jlocale_get locale_get]. pose proof (build_members_assoc ms m k H) as Ha.
  destruct rest as [|k2 rest'].
  - exact Ha.
  - destruct (assoc k ms) as [j|]; cbn [node_rel] in Ha.
    + destruct Ha as (n & E1 & E2). rewrite E1. destruct j as [s| |l|sub].
      * cbn [build_node] in E2. destruct (parsef s); cbn [bind] in E2; try discriminate. inversion E2; subst. reflexivity.
      * inversion E2; subst. reflexivity.
      * inversion E2; subst. reflexivity.
      * rewrite build_node_obj in E2. destruct (build_members sub) as [sm| | | |] eqn:Es; cbn [bind] in E2; try discriminate.
        inversion E2; subst. apply IH. exact Es.
    + rewrite Ha. reflexivity.
Qed.
End Build.

(** * all files: build_values commutes with lookups *)
(** the key map of (namespace, locale) in the built values *)
Definition vkmap (v : values) (ns : option str) (L : str) : option kmap :=
  match ns, v with
  | None, VLocales ls => assoc L ls
  | Some n, VNamespaces nss => match assoc n nss with Some ls => assoc L ls | None => None end
  | _, _ => None
  end.
Lemma get_value_at_vkmap v L p :
  get_value_at v L p = match vkmap v (fst p) L with Some m => locale_get m (snd p) | None => None end.
Proof.
  unfold get_value_at, vkmap. destruct (fst p) as [n|], v as [ls|nss]; try reflexivity.
  destruct (assoc n nss) as [ls|]; reflexivity.
Qed.

Definition kmap_rel (oms : option (list (str * jnode))) (om : option kmap) : Prop :=
  match oms, om with
  | Some ms, Some m => build_members model_parse ms = Ok m
  | None, None => True
  | _, _ => False
  end.
Definition files_rel (files : list jfile) (v : values) : Prop :=
  forall ns L, kmap_rel (jfile_of files ns L) (vkmap v ns L).

Lemma jfile_of_app a b ns L :
  jfile_of (a ++ b) ns L = match jfile_of a ns L with Some ms => Some ms | None => jfile_of b ns L end.
Proof.
  unfold jfile_of. induction a as [|f r IH]; [cbn [app find]; destruct (find (file_is ns L) b) as [[[? ?] ?]|]; reflexivity|].
  cbn [app find]. destruct (file_is ns L f); [destruct f as [[? ?] ?]; reflexivity | exact IH].
Qed.
Lemma jfile_of_one nsf l ms ns L :
  jfile_of [(nsf, l, ms)] ns L = if opt_str_eqb ns nsf && str_eqb L l then Some ms else None.
Proof. unfold jfile_of. cbn [find file_is]. destruct (opt_str_eqb ns nsf && str_eqb L l); reflexivity. Qed.

Lemma assoc_add_ns n' n l m nss :
  assoc n' (add_ns n l m nss) =
  if str_eqb n' n then Some (match assoc n nss with Some ls => ls ++ [(l, m)] | None => [(l, m)] end) else assoc n' nss.
Proof.
  induction nss as [|[n0 ls] r IH]; cbn [add_ns assoc].
  - destruct (str_eqb n' n); reflexivity.
  - destruct (str_eqb n0 n) eqn:E0.
    + apply str_eqb_eq in E0. subst n0. cbn [assoc]. rewrite str_eqb_refl. destruct (str_eqb n' n); reflexivity.
    + cbn [assoc]. rewrite IH. destruct (str_eqb n' n0) eqn:E1.
      * apply str_eqb_eq in E1. subst n0. rewrite E0. reflexivity.
      * destruct (str_eqb n' n) eqn:E2; [|reflexivity].
        assert (E3 : str_eqb n n0 = false).
        { apply str_eqb_false. intros ->. rewrite str_eqb_refl in E0. discriminate. }
        rewrite E3. reflexivity.
Qed.

Definition step_values (acc : res values) (f : jfile) : res values :=
  let '(ns, l, ms) := f in
  bind acc (fun v =>
  bind (build_kmap model_parse ms) (fun m =>
  match ns, v with
  | None, VLocales ls => Ok (VLocales (ls ++ [(l, m)]))
  | Some n, VNamespaces nss => Ok (VNamespaces (add_ns n l m nss))
  | Some n, VLocales [] => Ok (VNamespaces [(n, [(l, m)])])
  | _, _ => Unmodelled
  end)).
Lemma build_values_fold files : build_values files = fold_left step_values files (Ok (VLocales [])).
Proof.
  unfold build_values. f_equal.
Qed.

Lemma fold_step_not_ok files acc : (forall v, acc <> Ok v) -> forall v, fold_left step_values files acc <> Ok v.
Proof.
  revert acc. induction files as [|[[ns l] ms] r IH]; intros acc H v; [apply H|].
  cbn [fold_left]. apply IH. intros v'. unfold step_values. destruct acc as [a| | | |]; cbn [bind]; try discriminate.
  exfalso. exact (H a eq_refl).
Qed.

Lemma kmap_rel_ext oms om ms m (c : bool) : kmap_rel oms om -> build_members model_parse ms = Ok m ->
  kmap_rel (match oms with Some x => Some x | None => if c then Some ms else None end)
           (match om with Some v => Some v | None => if c then Some m else None end).
Proof. intros H E. destruct oms, om; cbn [kmap_rel] in *; try tauto. destruct c; [exact E | exact I]. Qed.
Lemma assoc_one {V} k l (m : V) : assoc k [(l, m)] = if str_eqb k l then Some m else None.
Proof. reflexivity. Qed.

(** the invariant of the fold *)
Lemma step_rel fs v0 f v1 : files_rel fs v0 -> step_values (Ok v0) f = Ok v1 -> files_rel (fs ++ [f]) v1.
Proof.
  intros Hr Hs. destruct f as [[nsf l] ms]. unfold step_values in Hs. cbn [bind] in Hs.
  rewrite build_kmap_members in Hs. destruct (build_members model_parse ms) as [m| | | |] eqn:Em; cbn [bind] in Hs; try discriminate.
  intros ns L. rewrite jfile_of_app, jfile_of_one. pose proof (Hr ns L) as H0.
  destruct nsf as [n|], v0 as [ls|nss]; try discriminate.
  - (* first namespaced file *)
    destruct ls as [|x ls']; [|discriminate]. inversion Hs; subst v1.
    assert (Hnone : forall ns0 L0, jfile_of fs ns0 L0 = None).
    { intros ns0 L0. pose proof (Hr ns0 L0) as H1. unfold vkmap in H1. destruct (jfile_of fs ns0 L0); [|reflexivity].
      destruct ns0; cbn [assoc kmap_rel] in H1; destruct H1. }
    rewrite Hnone. unfold vkmap. destruct ns as [n'|]; cbn [opt_str_eqb andb].
    + cbn [assoc]. destruct (str_eqb n' n); cbn [andb].
      * rewrite assoc_one. destruct (str_eqb L l); [exact Em | exact I].
      * exact I.
    + exact I.
  - (* one more namespaced file *)
    inversion Hs; subst v1. unfold vkmap in *. destruct ns as [n'|]; cbn [opt_str_eqb andb].
    + rewrite assoc_add_ns. destruct (str_eqb n' n) eqn:En.
      * apply str_eqb_eq in En. subst n'. cbn [andb].
        destruct (assoc n nss) as [ls|].
        -- rewrite assoc_app, assoc_one. apply kmap_rel_ext; assumption.
        -- rewrite assoc_one. apply (kmap_rel_ext _ None); assumption.
      * cbn [andb]. destruct (jfile_of fs (Some n') L); exact H0.
    + destruct (jfile_of fs None L); exact H0.
  - (* one more plain file *)
    inversion Hs; subst v1. unfold vkmap in *. destruct ns as [n'|]; cbn [opt_str_eqb andb].
    + destruct (jfile_of fs (Some n') L); exact H0.
    + rewrite assoc_app, assoc_one. apply kmap_rel_ext; assumption.
Qed.

Lemma fold_rel : forall files fs v0 v, files_rel fs v0 -> fold_left step_values files (Ok v0) = Ok v -> files_rel (fs ++ files) v.
Proof.
  induction files as [|f r IH]; intros fs v0 v Hr H.
  - cbn [fold_left] in H. inversion H; subst. rewrite app_nil_r. exact Hr.
  - cbn [fold_left] in H. destruct (step_values (Ok v0) f) as [v1| | | |] eqn:Es;
      try (exfalso; eapply fold_step_not_ok; [|exact H]; intros; discriminate).
    replace (fs ++ f :: r) with ((fs ++ [f]) ++ r) by (rewrite <- app_assoc; reflexivity).
    eapply IH; [eapply step_rel; eassumption | exact H].
Qed.

Theorem build_values_rel files vals : build_values files = Ok vals -> files_rel files vals.
Proof.
  intros H. rewrite build_values_fold in H. apply (fold_rel files [] (VLocales []) vals); [|exact H].
  intros ns L. unfold jfile_of, vkmap. cbn [find]. destruct ns; exact I.
Qed.

(** every lookup in the files is the lookup in the built values *)
Theorem build_values_lookup files vals L p : build_values files = Ok vals ->
  node_rel model_parse (jget files L p) (get_value_at vals L p).
Proof.
  intros H. pose proof (build_values_rel files vals H (fst p) L) as Hr.
  rewrite get_value_at_vkmap. unfold jget.
  destruct (jfile_of files (fst p) L) as [ms|], (vkmap vals (fst p) L) as [m|]; cbn [kmap_rel] in Hr.
  - apply build_members_get. exact Hr.
  - destruct Hr.
  - destruct Hr.
  - reflexivity.
Qed.
