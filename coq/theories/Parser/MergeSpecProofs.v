(** Bridge between the theorems about Parser/Merge.v and the executable predicates
    [spec_C03] / [spec_C07] of Parser/MergeCheck.v (what the correspondence evaluates). *)
From Coq Require Import List NArith Bool Arith Lia Sorted Permutation.
Import ListNotations.
From LI Require Import Parser.Merge Parser.MergeCheck Parser.MergeWf Parser.MergeProofs.
Open Scope N_scope.

(** * boolean / Prop bridges *)
Lemma list_eqb_eq : forall a b, list_eqb a b = true <-> a = b.
Proof.
  induction a as [|x xs IH]; intros [|y ys]; cbn [list_eqb]; split; intros H; try discriminate; try reflexivity.
  - apply andb_true_iff in H. destruct H as [H1 H2]. apply N.eqb_eq in H1. apply IH in H2. now subst.
  - injection H as -> ->. rewrite N.eqb_refl. cbn [andb]. now apply IH.
Qed.
Lemma list_eqb_refl : forall a, list_eqb a a = true.
Proof. intros a. now apply list_eqb_eq. Qed.
Lemma opt_eqb_eq : forall a b, opt_eqb a b = true <-> a = b.
Proof.
  intros [x|] [y|]; cbn [opt_eqb]; split; intros H; try discriminate; try reflexivity.
  - apply N.eqb_eq in H. now subst.
  - injection H as ->. apply N.eqb_refl.
Qed.
Lemma opt_eqb_refl : forall a, opt_eqb a a = true.
Proof. intros a. now apply opt_eqb_eq. Qed.

Lemma nodupb_NoDup : forall l, nodupb l = true <-> NoDup l.
Proof.
  induction l as [|x r IH]; cbn [nodupb].
  - split; [constructor | reflexivity].
  - rewrite andb_true_iff, negb_true_iff, mem_false, IH. split.
    + intros [H1 H2]. now constructor.
    + intros H. inversion H; subst. now split.
Qed.

Lemma find_app : forall A (f : A -> bool) a b,
  find f (a ++ b) = match find f a with Some x => Some x | None => find f b end.
Proof.
  intros A f. induction a as [|x r IH]; intros b; cbn [app find]; [reflexivity|].
  destruct (f x); [reflexivity | apply IH].
Qed.
Lemma find_none_all : forall A (f : A -> bool) l, (forall x, In x l -> f x = false) -> find f l = None.
Proof.
  intros A f. induction l as [|x r IH]; intros H; cbn [find]; [reflexivity|].
  rewrite (H x (or_introl eq_refl)). apply IH. intros y Hy. apply H. now right.
Qed.

Lemma forallb_In : forall A (f : A -> bool) l, forallb f l = true <-> forall x, In x l -> f x = true.
Proof. intros A f l. apply forallb_forall. Qed.

(** * strictly ascending key lists *)
Definition asc (l : list N) : Prop := StronglySorted N.lt l.

Lemma asc_NoDup : forall l, asc l -> NoDup l.
Proof.
  induction l as [|x r IH]; intros H; [constructor|].
  inversion H as [|? ? Hs Hf]; subst. constructor; [|now apply IH].
  intros Hin. rewrite Forall_forall in Hf. specialize (Hf x Hin). lia.
Qed.

Lemma map_insert_keys : forall m k v x, In x (map fst (map_insert k v m)) <-> x = k \/ In x (map fst m).
Proof.
  induction m as [|[k0 v0] r IH]; intros k v x; cbn [map_insert map fst In].
  - intuition.
  - destruct (k <? k0); [cbn [map fst In]; intuition|].
    destruct (k =? k0) eqn:He.
    + apply N.eqb_eq in He. subst k0. cbn [map fst In]. intuition.
    + cbn [map fst In]. rewrite IH. intuition.
Qed.

Lemma map_insert_asc : forall m k v, asc (map fst m) -> asc (map fst (map_insert k v m)).
Proof.
  unfold asc. induction m as [|[k0 v0] r IH]; intros k v H; cbn [map_insert map fst].
  - repeat constructor.
  - cbn [map fst] in H. inversion H as [|? ? Hs Hf]; subst.
    destruct (k <? k0) eqn:Hlt.
    + apply N.ltb_lt in Hlt. cbn [map fst]. constructor; [assumption|].
      constructor; [assumption|]. rewrite Forall_forall in *. intros y Hy. specialize (Hf y Hy). lia.
    + destruct (k =? k0) eqn:He.
      * apply N.eqb_eq in He. subst k0. cbn [map fst]. now constructor.
      * apply N.ltb_ge in Hlt. apply N.eqb_neq in He. cbn [map fst]. constructor; [now apply IH|].
        rewrite Forall_forall in *. intros y Hy. apply map_insert_keys in Hy.
        destruct Hy as [->|Hy]; [lia | auto].
Qed.

Lemma group_insert_asc : forall g t x, asc (map fst g) -> asc (map fst (group_insert t x g)).
Proof.
  unfold asc. induction g as [|[t0 s0] r IH]; intros t x H; cbn [group_insert map fst].
  - repeat constructor.
  - cbn [map fst] in H. inversion H as [|? ? Hs Hf]; subst.
    destruct (t <? t0) eqn:Hlt.
    + apply N.ltb_lt in Hlt. cbn [map fst]. constructor; [assumption|].
      constructor; [assumption|]. rewrite Forall_forall in *. intros y Hy. specialize (Hf y Hy). lia.
    + destruct (t =? t0) eqn:He.
      * cbn [map fst]. now constructor.
      * apply N.ltb_ge in Hlt. apply N.eqb_neq in He. cbn [map fst]. constructor; [now apply IH|].
        rewrite Forall_forall in *. intros y Hy. apply group_insert_keys in Hy.
        destruct Hy as [->|Hy]; [lia | auto].
Qed.

Lemma compute_keys_asc : forall d, asc (map fst (compute d)).
Proof.
  intros d. unfold compute.
  assert (H : forall (l : list (loc * loc)) g0, asc (map fst g0) ->
            asc (map fst (fold_left (fun g (kv : loc * loc) => group_insert (default_of d (fst kv)) (fst kv) g) l g0))).
  { induction l as [|kv r IH]; intros g0 Hg; cbn [fold_left]; [assumption|]. apply IH. now apply group_insert_asc. }
  apply H. constructor.
Qed.

(** * counting a locale in the sets of compute() *)
Definition cnt (x : loc) (l : list loc) : nat := length (filter (N.eqb x) l).

Lemma cnt_app : forall x a b, cnt x (a ++ b) = (cnt x a + cnt x b)%nat.
Proof. intros x a b. unfold cnt. now rewrite filter_app, app_length. Qed.

Lemma set_insert_cnt : forall s x y, ~ In y s ->
  cnt x (set_insert y s) = (cnt x s + (if (x =? y)%N then 1 else 0))%nat.
Proof.
  induction s as [|z r IH]; intros x y Hn; cbn [set_insert].
  - unfold cnt. cbn [filter]. destruct (x =? y); reflexivity.
  - destruct (y <? z).
    + unfold cnt. cbn [filter]. destruct (x =? y); cbn [length]; destruct (x =? z); cbn [length]; lia.
    + destruct (y =? z) eqn:He; [apply N.eqb_eq in He; subst; exfalso; apply Hn; now left|].
      unfold cnt in *. cbn [filter]. destruct (x =? z); cbn [length]; rewrite IH; try lia; intros H; apply Hn; now right.
Qed.

Lemma count_in_sets_cons : forall x t s g,
  count_in_sets x ((t, s) :: g) = (cnt x s + count_in_sets x g)%nat.
Proof. intros. unfold count_in_sets. cbn [map snd concat]. fold (cnt x (s ++ concat (map snd g))). now rewrite cnt_app. Qed.

Lemma group_insert_count : forall g t x y,
  (forall t' s, In (t', s) g -> ~ In y s) ->
  count_in_sets x (group_insert t y g) = (count_in_sets x g + (if (x =? y)%N then 1 else 0))%nat.
Proof.
  induction g as [|[t0 s0] r IH]; intros t x y Hn; cbn [group_insert].
  - unfold count_in_sets. cbn [map snd concat app filter]. destruct (x =? y); reflexivity.
  - destruct (t <? t0).
    + rewrite count_in_sets_cons. unfold cnt. cbn [filter]. destruct (x =? y); cbn [length]; lia.
    + destruct (t =? t0).
      * rewrite !count_in_sets_cons, set_insert_cnt; [lia|]. apply (Hn t0 s0). now left.
      * rewrite !count_in_sets_cons, IH; [lia|]. intros t' s Hin. apply (Hn t' s). now right.
Qed.

Lemma compute_count : forall d x,
  NoDup (map fst (dl_map d)) ->
  count_in_sets x (compute d) = if mem x (map fst (dl_map d)) then 1%nat else 0%nat.
Proof.
  intros d x Hnd. unfold compute.
  assert (H : forall (l : list (loc * loc)) g0, NoDup (map fst l) ->
            (forall t s y, In (t, s) g0 -> In y s -> ~ In y (map fst l)) ->
            count_in_sets x (fold_left (fun g (kv : loc * loc) => group_insert (default_of d (fst kv)) (fst kv) g) l g0)
            = (count_in_sets x g0 + (if mem x (map fst l) then 1 else 0))%nat).
  { induction l as [|[k v] r IH]; intros g0 Hn Hdis; cbn [fold_left map fst].
    - cbn [mem existsb]. lia.
    - cbn [map fst] in Hn. inversion Hn as [|? ? Hk Hn']; subst. cbn [fst]. rewrite IH; [| assumption |].
      + rewrite group_insert_count.
        * unfold mem. cbn [existsb]. fold (mem x (map fst r)).
          destruct (x =? k) eqn:He; cbn [orb].
          -- apply N.eqb_eq in He. subst x. rewrite (proj2 (mem_false k (map fst r)) Hk). lia.
          -- destruct (mem x (map fst r)); lia.
        * intros t' s Hin Hy. apply (Hdis t' s k Hin Hy). now left.
      + intros t s y Hin Hy Hyr.
        assert (Hg : gmem (group_insert (default_of d k) k g0) t y) by (exists s; now split).
        apply group_insert_gmem in Hg. destruct Hg as [[_ ->]|[s' [Hs' Hy']]]; [contradiction|].
        apply (Hdis t s' y Hs' Hy'). now right. }
  rewrite H; [| assumption | intros t s y []].
  unfold count_in_sets. cbn [map snd concat filter length]. lia.
Qed.

(** * the DefaultedLocales of a value path, in closed form *)
Lemma inner_leaf_form : forall ext suppress ns dflt df rest ks ws,
  check_locales_inner ext suppress ns ((dflt, df) :: rest) = Ok (ks, ws) ->
  forall q, bks_leaf ks q =
            option_map (fun pay => (pay, fold_left (push_if_undefined ext suppress dflt q) rest (dl_new dflt)))
                       (payload_at df q).
Proof.
  intros ext suppress ns dflt df rest ks ws H q. cbn [check_locales_inner] in H.
  destruct (mk_keys dflt ns [] df) as [ks0| | |] eqn:Hk; try discriminate.
  rewrite (merge_all_leaf _ _ _ _ _ _ _ _ H q), (proj2 (mk_leaf_mut dflt ns) _ _ _ Hk q).
  destruct (payload_at df q); reflexivity.
Qed.

Lemma fold_push_asc : forall ext suppress dflt q locs d,
  asc (map fst (dl_map d)) -> asc (map fst (dl_map (fold_left (push_if_undefined ext suppress dflt q) locs d))).
Proof.
  intros ext suppress dflt q. induction locs as [|lf rest IH]; intros d H; cbn [fold_left]; [assumption|].
  apply IH. unfold push_if_undefined. destruct (defines (snd lf) q); [assumption|].
  cbn [dl_push dl_map]. now apply map_insert_asc.
Qed.

(** * looking an entry up in the flattened dump *)
Definition matcher (ns : option key) (p : list key) (e : entry) : bool :=
  onskey_eqb (e_ns e) ns && list_eqb (e_path e) p.
Definition leaf_entry (locs : list (loc * forest)) (ns : option key) (p : list key) (d : dl) : entry :=
  mk_entry ns p false (compute d) (map (fun lf => (fst lf, default_of d (fst lf))) locs) (own_of locs p).

Lemma entries_prefix_mut : forall locs ns,
  (forall b pfx e, In e (bk_entries locs ns b pfx) -> e_ns e = ns /\ exists s, e_path e = pfx ++ s)
  /\ (forall ks pfx e, In e (bks_entries locs ns ks pfx) -> e_ns e = ns /\ exists s, e_path e = pfx ++ s /\ s <> []).
Proof.
  intros locs ns. apply bk_bks_mutind.
  - intros p d pfx e [<-|[]]. split; [reflexivity|]. exists []. cbn [e_path]. now rewrite app_nil_r.
  - intros fk ks IH pfx e [<-|Hin].
    + split; [reflexivity|]. exists []. cbn [e_path]. now rewrite app_nil_r.
    + destruct (IH _ _ Hin) as [H1 [s [H2 _]]]. split; [assumption|]. eauto.
  - intros pfx e [].
  - intros k b IHb r IHr pfx e Hin. cbn [bks_entries] in Hin. apply in_app_or in Hin. destruct Hin as [Hin|Hin].
    + destruct (IHb _ _ Hin) as [H1 [s H2]]. split; [assumption|]. exists (k :: s).
      rewrite H2, <- app_assoc. split; [reflexivity | discriminate].
    + now apply IHr.
Qed.

Lemma list_eqb_app_false : forall pfx k s k0 q, k <> k0 -> list_eqb (pfx ++ k :: s) (pfx ++ k0 :: q) = false.
Proof.
  intros pfx k s k0 q Hne. destruct (list_eqb (pfx ++ k :: s) (pfx ++ k0 :: q)) eqn:He; [|reflexivity].
  apply list_eqb_eq in He. apply app_inv_head in He. congruence.
Qed.
Lemma list_eqb_prefix_false : forall pfx k q, list_eqb pfx (pfx ++ k :: q) = false.
Proof.
  intros pfx k q. destruct (list_eqb pfx (pfx ++ k :: q)) eqn:He; [|reflexivity].
  apply list_eqb_eq in He. rewrite <- (app_nil_r pfx) in He at 1. apply app_inv_head in He. discriminate.
Qed.

Lemma find_leaf_mut : forall locs ns,
  (forall b pfx q pay d, bk_leaf b q = Some (pay, d) ->
     find (matcher ns (pfx ++ q)) (bk_entries locs ns b pfx) = Some (leaf_entry locs ns (pfx ++ q) d))
  /\ (forall ks pfx q pay d, bks_leaf ks q = Some (pay, d) ->
     find (matcher ns (pfx ++ q)) (bks_entries locs ns ks pfx) = Some (leaf_entry locs ns (pfx ++ q) d)).
Proof.
  intros locs ns. apply bk_bks_mutind.
  - intros p d0 pfx q pay d H. destruct q as [|k q]; [|discriminate]. cbn [bk_leaf leaf_of] in H.
    injection H as <- <-. rewrite app_nil_r. cbn [bk_entries find]. unfold matcher. cbn [e_ns e_path].
    unfold onskey_eqb. rewrite opt_eqb_refl, list_eqb_refl. reflexivity.
  - intros fk ks IH pfx q pay d H. destruct q as [|k q]; [discriminate|]. cbn [bk_leaf] in H.
    cbn [bk_entries find]. unfold matcher at 1. cbn [e_ns e_path]. rewrite list_eqb_prefix_false, andb_false_r.
    now apply (IH pfx (k :: q) pay d).
  - intros pfx q pay d H. destruct q; discriminate.
  - intros k b IHb r IHr pfx q pay d H. destruct q as [|k0 q]; [now rewrite bks_leaf_nil in H|].
    rewrite bks_leaf_cons in H. cbn [bks_entries]. rewrite find_app. destruct (k0 =? k) eqn:He.
    + apply N.eqb_eq in He. subst k0. specialize (IHb (pfx ++ [k]) q pay d H).
      rewrite <- app_assoc in IHb. cbn [app] in IHb. now rewrite IHb.
    + apply N.eqb_neq in He. rewrite find_none_all; [exact (IHr pfx (k0 :: q) pay d H)|].
      intros e Hin. destruct (proj1 (entries_prefix_mut locs ns) _ _ _ Hin) as [_ [s Hs]].
      unfold matcher. rewrite Hs, <- app_assoc. cbn [app]. rewrite list_eqb_app_false; [apply andb_false_r | congruence].
Qed.

(** * spec_C03_leaf holds of the model's entry *)
Lemma assoc_map_key : forall (locs : list (loc * forest)) (g : loc -> loc) l,
  In l (map fst locs) -> assoc (map (fun lf => (fst lf, g (fst lf))) locs) l = Some (g l).
Proof.
  induction locs as [|[l0 f0] r IH]; intros g l H; cbn [map fst In] in H; [contradiction|].
  cbn [map assoc fst]. destruct (l =? l0) eqn:He; [apply N.eqb_eq in He; now subst|].
  destruct H as [H|H]; [subst; now rewrite N.eqb_refl in He | now apply IH].
Qed.

Lemma assoc_own : forall locs p t,
  In t (map fst locs) -> assoc (own_of locs p) t = Some (payload_at (files_get locs t) p).
Proof.
  unfold own_of, files_get. induction locs as [|[l0 f0] r IH]; intros p t H; cbn [map fst In] in H; [contradiction|].
  cbn [map assoc find fst snd]. rewrite (N.eqb_sym l0 t). destruct (t =? l0) eqn:He; [reflexivity|].
  destruct H as [H|H]; [subst; now rewrite N.eqb_refl in He | now apply IH].
Qed.

Lemma defines_payload : forall f p, defines f p = true -> exists v, payload_at f p = Some v.
Proof.
  intros f p. unfold defines, payload_at. destruct (forest_at f p) as [[x| |g]|]; try discriminate. eauto.
Qed.

Lemma leaf_spec : forall ext suppress ns dflt df rest ks ws p pay,
  check_locales_inner ext suppress ns ((dflt, df) :: rest) = Ok (ks, ws) ->
  NoDup (dflt :: map fst rest) ->
  (forall x y, map_get ext x = Some y -> In x (map fst rest) /\ (y = dflt \/ In y (map fst rest))) ->
  payload_at df p = Some pay ->
  spec_C03_leaf ext ((dflt, df) :: rest) dflt p
    (leaf_entry ((dflt, df) :: rest) ns p (fold_left (push_if_undefined ext suppress dflt p) rest (dl_new dflt))) = true.
Proof.
  intros ext suppress ns dflt df rest ks ws p pay H Hnd Hext Hpay.
  set (locs := (dflt, df) :: rest). set (d := fold_left (push_if_undefined ext suppress dflt p) rest (dl_new dflt)).
  assert (Hleaf : bks_leaf ks p = Some (pay, d)).
  { rewrite (inner_leaf_form _ _ _ _ _ _ _ _ H p), Hpay. reflexivity. }
  destruct (check_locales_inner_resolution _ _ _ _ _ _ _ _ H Hnd Hext p pay d Hleaf) as [_ [Hdd [Hget Hres]]].
  pose proof (check_locales_inner_targets _ _ _ _ _ _ _ _ H Hnd Hext p pay d Hleaf) as Htargets.
  pose proof (proj1 (NoDup_cons_iff _ _) Hnd) as [Hdnin Hnd'].
  assert (Hnames : forall l, In l (map fst locs) <-> l = dflt \/ In l (map fst rest)).
  { intros l. unfold locs. cbn [map fst In]. intuition. }
  assert (Hresolve : forall l, In l (map fst locs) -> default_of d l = resolve ext locs dflt p l).
  { intros l Hl. apply Hres. now apply Hnames. }
  assert (Hdef_d : defines (files_get locs dflt) p = true).
  { unfold files_get, locs. cbn [find fst]. rewrite N.eqb_refl. cbn [snd]. eapply payload_defines; eauto. }
  assert (Hdom : forall l, In l (map fst locs) ->
             mem l (map fst (dl_map d)) = negb (defines (files_get locs l) p)).
  { intros l Hl. specialize (Hget l). fold locs in Hget.
    destruct (defines (files_get locs l) p) eqn:Hdf; cbn [negb].
    - rewrite andb_false_r in Hget. apply mem_false. intros Hin.
      destruct (In_map_get_Some _ _ Hin) as [v Hv]. congruence.
    - apply Hnames in Hl. destruct Hl as [->|Hl]; [congruence|].
      rewrite (proj2 (mem_In _ _) Hl) in Hget. cbn [andb negb] in Hget.
      apply mem_In. eapply map_get_Some_In; eauto. }
  unfold spec_C03_leaf, leaf_entry. cbn [e_group e_default_of e_own e_compute]. fold locs.
  apply andb_true_iff; split; [apply andb_true_iff; split; [apply andb_true_iff; split;
    [apply andb_true_iff; split; [apply andb_true_iff; split; [reflexivity|] |] |] |] |].
  - (* every locale *)
    apply forallb_forall. intros l Hl. rewrite (assoc_map_key locs (default_of d) l Hl), (Hresolve l Hl).
    rewrite opt_eqb_refl. cbn [andb].
    set (t := resolve ext locs dflt p l).
    assert (Ht : In t (map fst locs)).
    { unfold t, resolve. apply first_defined_closed with (S := fun y => In y (map fst locs)).
      - apply Hnames. now left.
      - intros a b Hab. apply Hnames. exact (proj2 (Hext _ _ Hab)).
      - assumption. }
    rewrite (assoc_own locs p t Ht).
    assert (Hdt : defines (files_get locs t) p = true).
    { unfold t, resolve.
      match goal with |- defines (files_get _ (first_defined ?i ?pr ?dd ?F ?ll)) _ = true =>
        destruct (first_defined_cases i pr dd F ll) as [Hc|Hc] end; [exact Hc | rewrite Hc; exact Hdef_d]. }
    destruct (defines_payload _ _ Hdt) as [v Hv]. rewrite Hv. apply opt_eqb_refl.
  - (* the default *)
    rewrite (assoc_map_key locs (default_of d) dflt); [|apply Hnames; now left].
    rewrite default_of_unmapped; [apply opt_eqb_refl|].
    rewrite Hget. now rewrite (proj2 (mem_false _ _) Hdnin).
  - apply nodupb_NoDup. apply asc_NoDup. apply compute_keys_asc.
  - (* the arms *)
    apply forallb_forall. intros [t s] Hin. cbn [fst snd].
    assert (Htk : In t (map fst (compute d))) by (apply in_map_iff; exists (t, s); now split).
    destruct (Htargets t Htk) as [Ht1 Ht2]. fold locs in Ht2.
    rewrite (proj2 (mem_In _ _) (proj2 (Hnames t) Ht1)), Ht2. cbn [andb].
    apply forallb_forall. intros x Hx.
    assert (Hg : gmem (compute d) t x) by (exists s; now split).
    apply compute_gmem in Hg. destruct Hg as [Hxd Hxt].
    destruct (In_map_get_Some _ _ Hxd) as [v Hv]. rewrite Hget in Hv. fold locs in Hv.
    destruct (mem x (map fst rest)) eqn:Hmx; [|discriminate]. cbn [andb] in Hv.
    destruct (defines (files_get locs x) p) eqn:Hdx; [discriminate|]. cbn [negb].
    apply mem_In in Hmx. rewrite (proj2 (mem_In _ _) (proj2 (Hnames x) (or_intror Hmx))). cbn [andb].
    rewrite <- (Hresolve x (proj2 (Hnames x) (or_intror Hmx))), Hxt. apply N.eqb_refl.
  - (* each locale in exactly one / no set *)
    apply forallb_forall. intros l Hl.
    rewrite compute_count.
    + rewrite (Hdom l Hl). destruct (defines (files_get locs l) p); reflexivity.
    + apply asc_NoDup. unfold d. apply fold_push_asc. cbn [dl_new dl_map map]. constructor.
Qed.

(** * paths of a duplicate-free file *)
Definition is_leaf_tree (t : tree) : bool := match t with Group _ => false | _ => true end.

Lemma forest_at_get : forall f k q t, forest_at f (k :: q) = Some t -> exists t0, forest_get f k = Some t0.
Proof. intros f k q t H. cbn [forest_at] in H. destruct (forest_get f k); [eauto | discriminate]. Qed.

Lemma paths_at_mut :
  (forall t pfx p b, In (p, b) (tree_paths t pfx) -> tree_nodup t = true ->
     exists q t', p = pfx ++ q /\ tree_at t q = Some t' /\ b = is_leaf_tree t')
  /\ (forall f pfx p b, In (p, b) (forest_paths f pfx) -> forest_nodup f = true ->
     exists q t', p = pfx ++ q /\ forest_at f q = Some t' /\ b = is_leaf_tree t').
Proof.
  apply tree_forest_mutind.
  - intros x pfx p b [H|[]] _. injection H as <- <-. exists [], (Leaf x). now rewrite app_nil_r.
  - intros pfx p b [H|[]] _. injection H as <- <-. exists [], Null. now rewrite app_nil_r.
  - intros g IH pfx p b [H|H] Hn.
    + injection H as <- <-. exists [], (Group g). now rewrite app_nil_r.
    + destruct (IH _ _ _ H Hn) as [q [t' [Hp [Hat Hb]]]]. exists q, t'. split; [assumption|]. split; [|assumption].
      destruct q as [|k q]; [destruct g; discriminate|]. exact Hat.
  - intros pfx p b [].
  - intros k t IHt r IHr pfx p b H Hn. cbn [forest_paths] in H. cbn [forest_nodup] in Hn.
    apply andb_true_iff in Hn. destruct Hn as [Hn Hnr]. apply andb_true_iff in Hn. destruct Hn as [Hk Hnt].
    apply in_app_or in H. destruct H as [H|H].
    + destruct (IHt _ _ _ H Hnt) as [q [t' [Hp [Hat Hb]]]]. exists (k :: q), t'.
      split; [rewrite Hp, <- app_assoc; reflexivity|]. split; [|assumption].
      rewrite forest_at_cons. cbn [forest_get]. now rewrite N.eqb_refl.
    + destruct (IHr _ _ _ H Hnr) as [q [t' [Hp [Hat Hb]]]]. exists q, t'. split; [assumption|]. split; [|assumption].
      destruct q as [|k0 q]; [destruct r; discriminate|].
      destruct (forest_at_get _ _ _ _ Hat) as [t0 Ht0].
      assert (Hne : (k0 =? k) = false).
      { destruct (k0 =? k) eqn:He; [|reflexivity]. apply N.eqb_eq in He. subst k0. rewrite Ht0 in Hk. discriminate. }
      rewrite forest_at_cons in *. cbn [forest_get]. now rewrite Hne.
Qed.

Lemma no_null_at_mut :
  (forall t q t', has_null t = false -> tree_at t q = Some t' -> t' <> Null)
  /\ (forall f q t', forest_has_null f = false -> forest_at f q = Some t' -> t' <> Null).
Proof.
  apply tree_forest_mutind.
  - intros x q t' _ H. destruct q; [injection H as <-; discriminate | discriminate].
  - intros q t' H. discriminate.
  - intros g IH q t' Hn H. destruct q as [|k q]; [injection H as <-; discriminate|]. exact (IH _ _ Hn H).
  - intros q t' _ H. destruct q; discriminate.
  - intros k t IHt r IHr q t' Hn H. cbn [forest_has_null] in Hn. apply orb_false_iff in Hn. destruct Hn as [Hnt Hnr].
    destruct q as [|k0 q]; [discriminate|]. rewrite forest_at_cons in H. cbn [forest_get] in H.
    destruct (k0 =? k); [exact (IHt _ _ Hnt H)|]. rewrite <- forest_at_cons in H. exact (IHr _ _ Hnr H).
Qed.

Lemma default_leaf_payload : forall df p,
  forest_nodup df = true -> forest_has_null df = false -> In (p, true) (forest_paths df []) ->
  exists pay, payload_at df p = Some pay.
Proof.
  intros df p Hn Hnull Hin. destruct (proj2 paths_at_mut _ _ _ _ Hin Hn) as [q [t' [Hp [Hat Hb]]]].
  cbn [app] in Hp. subst q. pose proof (proj2 no_null_at_mut _ _ _ Hnull Hat) as Hnn.
  unfold payload_at. rewrite Hat. destruct t' as [x| |g]; [eauto | congruence | discriminate].
Qed.

(** * totality: merging never panics *)
Lemma merge_total_mut : forall suppress top dt ns,
  (forall b v path, match merge_value suppress top dt ns b v path with Ok _ | Err _ => True | _ => False end)
  /\ (forall ks f path, match merge_keys suppress top dt ns ks f path with Ok _ | Err _ => True | _ => False end).
Proof.
  intros suppress top dt ns. apply bk_bks_mutind.
  - intros p d v path. cbn [merge_value]. destruct v; exact I.
  - intros fk ks IH v path. cbn [merge_value]. destruct v as [x| |g]; [exact I| |]; unfold finish_locale.
    + specialize (IH (dummy_forest fk) path). destruct (merge_keys suppress top dt ns ks (dummy_forest fk) path) as [[? ?]| | |]; tauto.
    + specialize (IH g path). destruct (merge_keys suppress top dt ns ks g path) as [[? ?]| | |]; tauto.
  - intros f path. exact I.
  - intros k b IHb r IHr f path. cbn [merge_keys].
    match goal with |- context [merge_value ?s ?t ?d ?n b ?v ?pp] => specialize (IHb v pp);
      destruct (merge_value s t d n b v pp) as [[b1 w1]| | |] end; try tauto.
    specialize (IHr f path). destruct (merge_keys suppress top dt ns r f path) as [[? ?]| | |]; tauto.
Qed.

Lemma inner_total : forall ext suppress ns dflt df rest,
  match check_locales_inner ext suppress ns ((dflt, df) :: rest) with Ok _ | Err _ => True | _ => False end.
Proof.
  intros ext suppress ns dflt df rest. cbn [check_locales_inner].
  pose proof (proj2 (mk_null_mut dflt ns) df []) as Hm.
  destruct (mk_keys dflt ns [] df) as [ks|[l n p|n p]| |]; try contradiction; try exact I.
  clear Hm. revert ks. induction rest as [|[l f] rest IH]; intros ks; cbn [merge_all]; [exact I|].
  unfold merge_locale, finish_locale.
  pose proof (proj2 (merge_total_mut suppress l (choose_default_to ext suppress dflt l) ns) ks f []) as Hk.
  destruct (merge_keys suppress l (choose_default_to ext suppress dflt l) ns ks f []) as [[ks1 w1]| | |]; try tauto.
  specialize (IH ks1). destruct (merge_all ext suppress dflt ns ks1 rest) as [[? ?]| | |]; tauto.
Qed.
