(** Bridge between the theorems about Parser/Merge.v and the executable predicates
    [spec_C03] / [spec_C07] of Parser/MergeCheck.v (what the correspondence evaluates). *)
From Coq Require Import List NArith Bool Arith Lia Sorted Permutation.
Import ListNotations.
From LI Require Import Parser.Merge Parser.MergeCheck Parser.MergeWf Parser.MergeProofs.
Open Scope N_scope.

(** * boolean / Prop bridges *)
Lemma list_eqb_eq : forall a b, list_eqb a b = true <-> a = b.
Proof.
  induction a as [|x xs IH]; intros [|y ys]; cbn [list_eqb]; split; intros H; try discriminate; try reflexivity.
  - apply andb_true_iff in H. destruct H as [H1 H2]. apply N.eqb_eq in H1. apply IH in H2. now subst.
  - injection H as -> ->. rewrite N.eqb_refl. cbn [andb]. now apply IH.
Qed.
Lemma list_eqb_refl : forall a, list_eqb a a = true.
Proof. intros a. now apply list_eqb_eq. Qed.
Lemma opt_eqb_eq : forall a b, opt_eqb a b = true <-> a = b.
Proof.
  intros [x|] [y|]; cbn [opt_eqb]; split; intros H; try discriminate; try reflexivity.
  - apply N.eqb_eq in H. now subst.
  - injection H as ->. apply N.eqb_refl.
Qed.
Lemma opt_eqb_refl : forall a, opt_eqb a a = true.
Proof. intros a. now apply opt_eqb_eq. Qed.

Lemma nodupb_NoDup : forall l, nodupb l = true <-> NoDup l.
Proof.
  induction l as [|x r IH]; cbn [nodupb].
  - split; [constructor | reflexivity].
  - rewrite andb_true_iff, negb_true_iff, mem_false, IH. split.
    + intros [H1 H2]. now constructor.
    + intros H. inversion H; subst. now split.
Qed.

Lemma find_app : forall A (f : A -> bool) a b,
  find f (a ++ b) = match find f a with Some x => Some x | None => find f b end.
Proof.
  intros A f. induction a as [|x r IH]; intros b; cbn [app find]; [reflexivity|].
  destruct (f x); [reflexivity | apply IH].
Qed.
Lemma find_none_all : forall A (f : A -> bool) l, (forall x, In x l -> f x = false) -> find f l = None.
Proof.
  intros A f. induction l as [|x r IH]; intros H; cbn [find]; [reflexivity|].
  rewrite (H x (or_introl eq_refl)). apply IH. intros y Hy. apply H. now right.
Qed.

Lemma forallb_In : forall A (f : A -> bool) l, forallb f l = true <-> forall x, In x l -> f x = true.
Proof. intros A f l. apply forallb_forall. Qed.

(** * strictly ascending key lists *)
Definition asc (l : list N) : Prop := StronglySorted N.lt l.

Lemma asc_NoDup : forall l, asc l -> NoDup l.
Proof.
  induction l as [|x r IH]; intros H; [constructor|].
  inversion H as [|? ? Hs Hf]; subst. constructor; [|now apply IH].
  intros Hin. rewrite Forall_forall in Hf. specialize (Hf x Hin). lia.
Qed.

Lemma map_insert_keys : forall m k v x, In x (map fst (map_insert k v m)) <-> x = k \/ In x (map fst m).
Proof.
  induction m as [|[k0 v0] r IH]; intros k v x; cbn [map_insert map fst In].
  - intuition.
  - destruct (k <? k0); [cbn [map fst In]; intuition|].
    destruct (k =? k0) eqn:He.
    + apply N.eqb_eq in He. subst k0. cbn [map fst In]. intuition.
    + cbn [map fst In]. rewrite IH. intuition.
Qed.

Lemma map_insert_asc : forall m k v, asc (map fst m) -> asc (map fst (map_insert k v m)).
Proof.
  unfold asc. induction m as [|[k0 v0] r IH]; intros k v H; cbn [map_insert map fst].
  - repeat constructor.
  - cbn [map fst] in H. inversion H as [|? ? Hs Hf]; subst.
    destruct (k <? k0) eqn:Hlt.
    + apply N.ltb_lt in Hlt. cbn [map fst]. constructor; [assumption|].
      constructor; [assumption|]. rewrite Forall_forall in *. intros y Hy. specialize (Hf y Hy). lia.
    + destruct (k =? k0) eqn:He.
      * apply N.eqb_eq in He. subst k0. cbn [map fst]. now constructor.
      * apply N.ltb_ge in Hlt. apply N.eqb_neq in He. cbn [map fst]. constructor; [now apply IH|].
        rewrite Forall_forall in *. intros y Hy. apply map_insert_keys in Hy.
        destruct Hy as [->|Hy]; [lia | auto].
Qed.

Lemma group_insert_asc : forall g t x, asc (map fst g) -> asc (map fst (group_insert t x g)).
Proof.
  unfold asc. induction g as [|[t0 s0] r IH]; intros t x H; cbn [group_insert map fst].
  - repeat constructor.
  - cbn [map fst] in H. inversion H as [|? ? Hs Hf]; subst.
    destruct (t <? t0) eqn:Hlt.
    + apply N.ltb_lt in Hlt. cbn [map fst]. constructor; [assumption|].
      constructor; [assumption|]. rewrite Forall_forall in *. intros y Hy. specialize (Hf y Hy). lia.
    + destruct (t =? t0) eqn:He.
      * cbn [map fst]. now constructor.
      * apply N.ltb_ge in Hlt. apply N.eqb_neq in He. cbn [map fst]. constructor; [now apply IH|].
        rewrite Forall_forall in *. intros y Hy. apply group_insert_keys in Hy.
        destruct Hy as [->|Hy]; [lia | auto].
Qed.

Lemma compute_keys_asc : forall d, asc (map fst (compute d)).
Proof.
  intros d. unfold compute.
  assert (H : forall (l : list (loc * loc)) g0, asc (map fst g0) ->
            asc (map fst (fold_left (fun g (kv : loc * loc) => group_insert (default_of d (fst kv)) (fst kv) g) l g0))).
  { induction l as [|kv r IH]; intros g0 Hg; cbn [fold_left]; [assumption|]. apply IH. now apply group_insert_asc. }
  apply H. constructor.
Qed.

(** * counting a locale in the sets of compute() *)
Definition cnt (x : loc) (l : list loc) : nat := length (filter (N.eqb x) l).

Lemma cnt_app : forall x a b, cnt x (a ++ b) = (cnt x a + cnt x b)%nat.
Proof. intros x a b. unfold cnt. now rewrite filter_app, app_length. Qed.

Lemma set_insert_cnt : forall s x y, ~ In y s ->
  cnt x (set_insert y s) = (cnt x s + (if (x =? y)%N then 1 else 0))%nat.
Proof.
  induction s as [|z r IH]; intros x y Hn; cbn [set_insert].
  - unfold cnt. cbn [filter]. destruct (x =? y); reflexivity.
  - destruct (y <? z).
    + unfold cnt. cbn [filter]. destruct (x =? y); cbn [length]; destruct (x =? z); cbn [length]; lia.
    + destruct (y =? z) eqn:He; [apply N.eqb_eq in He; subst; exfalso; apply Hn; now left|].
      unfold cnt in *. cbn [filter]. destruct (x =? z); cbn [length]; rewrite IH; try lia; intros H; apply Hn; now right.
Qed.

Lemma count_in_sets_cons : forall x t s g,
  count_in_sets x ((t, s) :: g) = (cnt x s + count_in_sets x g)%nat.
Proof. intros. unfold count_in_sets. cbn [map snd concat]. fold (cnt x (s ++ concat (map snd g))). now rewrite cnt_app. Qed.

Lemma group_insert_count : forall g t x y,
  (forall t' s, In (t', s) g -> ~ In y s) ->
  count_in_sets x (group_insert t y g) = (count_in_sets x g + (if (x =? y)%N then 1 else 0))%nat.
Proof.
  induction g as [|[t0 s0] r IH]; intros t x y Hn; cbn [group_insert].
  - unfold count_in_sets. cbn [map snd concat app filter]. destruct (x =? y); reflexivity.
  - destruct (t <? t0).
    + rewrite count_in_sets_cons. unfold cnt. cbn [filter]. destruct (x =? y); cbn [length]; lia.
    + destruct (t =? t0).
      * rewrite !count_in_sets_cons, set_insert_cnt; [lia|]. apply (Hn t0 s0). now left.
      * rewrite !count_in_sets_cons, IH; [lia|]. intros t' s Hin. apply (Hn t' s). now right.
Qed.

Lemma compute_count : forall d x,
  NoDup (map fst (dl_map d)) ->
  count_in_sets x (compute d) = if mem x (map fst (dl_map d)) then 1%nat else 0%nat.
Proof.
  intros d x Hnd. unfold compute.
  assert (H : forall (l : list (loc * loc)) g0, NoDup (map fst l) ->
            (forall t s y, In (t, s) g0 -> In y s -> ~ In y (map fst l)) ->
            count_in_sets x (fold_left (fun g (kv : loc * loc) => group_insert (default_of d (fst kv)) (fst kv) g) l g0)
            = (count_in_sets x g0 + (if mem x (map fst l) then 1 else 0))%nat).
  { induction l as [|[k v] r IH]; intros g0 Hn Hdis; cbn [fold_left map fst].
    - cbn [mem existsb]. lia.
    - cbn [map fst] in Hn. inversion Hn as [|? ? Hk Hn']; subst. cbn [fst]. rewrite IH; [| assumption |].
      + rewrite group_insert_count.
        * unfold mem. cbn [existsb]. fold (mem x (map fst r)).
          destruct (x =? k) eqn:He; cbn [orb].
          -- apply N.eqb_eq in He. subst x. rewrite (proj2 (mem_false k (map fst r)) Hk). lia.
          -- destruct (mem x (map fst r)); lia.
        * intros t' s Hin Hy. apply (Hdis t' s k Hin Hy). now left.
      + intros t s y Hin Hy Hyr.
        assert (Hg : gmem (group_insert (default_of d k) k g0) t y) by (exists s; now split).
        apply group_insert_gmem in Hg. destruct Hg as [[_ ->]|[s' [Hs' Hy']]]; [contradiction|].
        apply (Hdis t s' y Hs' Hy'). now right. }
  rewrite H; [| assumption | intros t s y []].
  unfold count_in_sets. cbn [map snd concat filter length]. lia.
Qed.

(** * the DefaultedLocales of a value path, in closed form *)
Lemma inner_leaf_form : forall ext suppress ns dflt df rest ks ws,
  check_locales_inner ext suppress ns ((dflt, df) :: rest) = Ok (ks, ws) ->
  forall q, bks_leaf ks q =
            option_map (fun pay => (pay, fold_left (push_if_undefined ext suppress dflt q) rest (dl_new dflt)))
                       (payload_at df q).
Proof.
  intros ext suppress ns dflt df rest ks ws H q. cbn [check_locales_inner] in H.
  destruct (mk_keys dflt ns [] df) as [ks0| | |] eqn:Hk; try discriminate.
  rewrite (merge_all_leaf _ _ _ _ _ _ _ _ H q), (proj2 (mk_leaf_mut dflt ns) _ _ _ Hk q).
  destruct (payload_at df q); reflexivity.
Qed.

Lemma fold_push_asc : forall ext suppress dflt q locs d,
  asc (map fst (dl_map d)) -> asc (map fst (dl_map (fold_left (push_if_undefined ext suppress dflt q) locs d))).
Proof.
  intros ext suppress dflt q. induction locs as [|lf rest IH]; intros d H; cbn [fold_left]; [assumption|].
  apply IH. unfold push_if_undefined. destruct (defines (snd lf) q); [assumption|].
  cbn [dl_push dl_map]. now apply map_insert_asc.
Qed.

(** * looking an entry up in the flattened dump *)
Definition matcher (ns : option key) (p : list key) (e : entry) : bool :=
  onskey_eqb (e_ns e) ns && list_eqb (e_path e) p.
Definition leaf_entry (locs : list (loc * forest)) (ns : option key) (p : list key) (d : dl) : entry :=
  mk_entry ns p false (compute d) (map (fun lf => (fst lf, default_of d (fst lf))) locs) (own_of locs p).

Lemma entries_prefix_mut : forall locs ns,
  (forall b pfx e, In e (bk_entries locs ns b pfx) -> e_ns e = ns /\ exists s, e_path e = pfx ++ s)
  /\ (forall ks pfx e, In e (bks_entries locs ns ks pfx) -> e_ns e = ns /\ exists s, e_path e = pfx ++ s /\ s <> []).
Proof.
  intros locs ns. apply bk_bks_mutind.
  - intros p d pfx e [<-|[]]. split; [reflexivity|]. exists []. cbn [e_path]. now rewrite app_nil_r.
  - intros fk ks IH pfx e [<-|Hin].
    + split; [reflexivity|]. exists []. cbn [e_path]. now rewrite app_nil_r.
    + destruct (IH _ _ Hin) as [H1 [s [H2 _]]]. split; [assumption|]. eauto.
  - intros pfx e [].
  - intros k b IHb r IHr pfx e Hin. cbn [bks_entries] in Hin. apply in_app_or in Hin. destruct Hin as [Hin|Hin].
    + destruct (IHb _ _ Hin) as [H1 [s H2]]. split; [assumption|]. exists (k :: s).
      rewrite H2, <- app_assoc. split; [reflexivity | discriminate].
    + now apply IHr.
Qed.

Lemma list_eqb_app_false : forall pfx k s k0 q, k <> k0 -> list_eqb (pfx ++ k :: s) (pfx ++ k0 :: q) = false.
Proof.
  intros pfx k s k0 q Hne. destruct (list_eqb (pfx ++ k :: s) (pfx ++ k0 :: q)) eqn:He; [|reflexivity].
  apply list_eqb_eq in He. apply app_inv_head in He. congruence.
Qed.
Lemma list_eqb_prefix_false : forall pfx k q, list_eqb pfx (pfx ++ k :: q) = false.
Proof.
  intros pfx k q. destruct (list_eqb pfx (pfx ++ k :: q)) eqn:He; [|reflexivity].
  apply list_eqb_eq in He. rewrite <- (app_nil_r pfx) in He at 1. apply app_inv_head in He. discriminate.
Qed.

Lemma find_leaf_mut : forall locs ns,
  (forall b pfx q pay d, bk_leaf b q = Some (pay, d) ->
     find (matcher ns (pfx ++ q)) (bk_entries locs ns b pfx) = Some (leaf_entry locs ns (pfx ++ q) d))
  /\ (forall ks pfx q pay d, bks_leaf ks q = Some (pay, d) ->
     find (matcher ns (pfx ++ q)) (bks_entries locs ns ks pfx) = Some (leaf_entry locs ns (pfx ++ q) d)).
Proof.
  intros locs ns. apply bk_bks_mutind.
  - intros p d0 pfx q pay d H. destruct q as [|k q]; [|discriminate]. cbn [bk_leaf leaf_of] in H.
    injection H as <- <-. rewrite app_nil_r. cbn [bk_entries find]. unfold matcher. cbn [e_ns e_path].
    unfold onskey_eqb. rewrite opt_eqb_refl, list_eqb_refl. reflexivity.
  - intros fk ks IH pfx q pay d H. destruct q as [|k q]; [discriminate|]. cbn [bk_leaf] in H.
    cbn [bk_entries find]. unfold matcher at 1. cbn [e_ns e_path]. rewrite list_eqb_prefix_false, andb_false_r.
    now apply (IH pfx (k :: q) pay d).
  - intros pfx q pay d H. destruct q; discriminate.
  - intros k b IHb r IHr pfx q pay d H. destruct q as [|k0 q]; [now rewrite bks_leaf_nil in H|].
    rewrite bks_leaf_cons in H. cbn [bks_entries]. rewrite find_app. destruct (k0 =? k) eqn:He.
    + apply N.eqb_eq in He. subst k0. specialize (IHb (pfx ++ [k]) q pay d H).
      rewrite <- app_assoc in IHb. cbn [app] in IHb. now rewrite IHb.
    + apply N.eqb_neq in He. rewrite find_none_all; [exact (IHr pfx (k0 :: q) pay d H)|].
      intros e Hin. destruct (proj1 (entries_prefix_mut locs ns) _ _ _ Hin) as [_ [s Hs]].
      unfold matcher. rewrite Hs, <- app_assoc. cbn [app]. rewrite list_eqb_app_false; [apply andb_false_r | congruence].
Qed.

(** * spec_C03_leaf holds of the model's entry *)
Lemma assoc_map_key : forall (locs : list (loc * forest)) (g : loc -> loc) l,
  In l (map fst locs) -> assoc (map (fun lf => (fst lf, g (fst lf))) locs) l = Some (g l).
Proof.
  induction locs as [|[l0 f0] r IH]; intros g l H; cbn [map fst In] in H; [contradiction|].
  cbn [map assoc fst]. destruct (l =? l0) eqn:He; [apply N.eqb_eq in He; now subst|].
  destruct H as [H|H]; [subst; now rewrite N.eqb_refl in He | now apply IH].
Qed.

Lemma assoc_own : forall locs p t,
  In t (map fst locs) -> assoc (own_of locs p) t = Some (payload_at (files_get locs t) p).
Proof.
  unfold own_of, files_get. induction locs as [|[l0 f0] r IH]; intros p t H; cbn [map fst In] in H; [contradiction|].
  cbn [map assoc find fst snd]. rewrite (N.eqb_sym l0 t). destruct (t =? l0) eqn:He; [reflexivity|].
  destruct H as [H|H]; [subst; now rewrite N.eqb_refl in He | now apply IH].
Qed.

Lemma defines_payload : forall f p, defines f p = true -> exists v, payload_at f p = Some v.
Proof.
  intros f p. unfold defines, payload_at. destruct (forest_at f p) as [[x| |g]|]; try discriminate. eauto.
Qed.

Lemma leaf_spec : forall ext suppress ns dflt df rest ks ws p pay,
  check_locales_inner ext suppress ns ((dflt, df) :: rest) = Ok (ks, ws) ->
  NoDup (dflt :: map fst rest) ->
  (forall x y, map_get ext x = Some y -> In x (map fst rest) /\ (y = dflt \/ In y (map fst rest))) ->
  payload_at df p = Some pay ->
  spec_C03_leaf ext ((dflt, df) :: rest) dflt p
    (leaf_entry ((dflt, df) :: rest) ns p (fold_left (push_if_undefined ext suppress dflt p) rest (dl_new dflt))) = true.
Proof.
  intros ext suppress ns dflt df rest ks ws p pay H Hnd Hext Hpay.
  set (locs := (dflt, df) :: rest). set (d := fold_left (push_if_undefined ext suppress dflt p) rest (dl_new dflt)).
  assert (Hleaf : bks_leaf ks p = Some (pay, d)).
  { rewrite (inner_leaf_form _ _ _ _ _ _ _ _ H p), Hpay. reflexivity. }
  destruct (check_locales_inner_resolution _ _ _ _ _ _ _ _ H Hnd Hext p pay d Hleaf) as [_ [Hdd [Hget Hres]]].
  pose proof (check_locales_inner_targets _ _ _ _ _ _ _ _ H Hnd Hext p pay d Hleaf) as Htargets.
  pose proof (proj1 (NoDup_cons_iff _ _) Hnd) as [Hdnin Hnd'].
  assert (Hnames : forall l, In l (map fst locs) <-> l = dflt \/ In l (map fst rest)).
  { intros l. unfold locs. cbn [map fst In]. intuition. }
  assert (Hresolve : forall l, In l (map fst locs) -> default_of d l = resolve ext locs dflt p l).
  { intros l Hl. apply Hres. now apply Hnames. }
  assert (Hdef_d : defines (files_get locs dflt) p = true).
  { unfold files_get, locs. cbn [find fst]. rewrite N.eqb_refl. cbn [snd]. eapply payload_defines; eauto. }
  assert (Hdom : forall l, In l (map fst locs) ->
             mem l (map fst (dl_map d)) = negb (defines (files_get locs l) p)).
  { intros l Hl. specialize (Hget l). fold locs in Hget.
    destruct (defines (files_get locs l) p) eqn:Hdf; cbn [negb].
    - rewrite andb_false_r in Hget. apply mem_false. intros Hin.
      destruct (In_map_get_Some _ _ Hin) as [v Hv]. congruence.
    - apply Hnames in Hl. destruct Hl as [->|Hl]; [congruence|].
      rewrite (proj2 (mem_In _ _) Hl) in Hget. cbn [andb negb] in Hget.
      apply mem_In. eapply map_get_Some_In; eauto. }
  unfold spec_C03_leaf, leaf_entry. cbn [e_group e_default_of e_own e_compute]. fold locs.
  apply andb_true_iff; split; [apply andb_true_iff; split; [apply andb_true_iff; split;
    [apply andb_true_iff; split; [apply andb_true_iff; split; [reflexivity|] |] |] |] |].
  - (* every locale *)
    apply forallb_forall. intros l Hl. rewrite (assoc_map_key locs (default_of d) l Hl), (Hresolve l Hl).
    rewrite opt_eqb_refl. cbn [andb].
    set (t := resolve ext locs dflt p l).
    assert (Ht : In t (map fst locs)).
    { unfold t, resolve. apply first_defined_closed with (S := fun y => In y (map fst locs)).
      - apply Hnames. now left.
      - intros a b Hab. apply Hnames. exact (proj2 (Hext _ _ Hab)).
      - assumption. }
    rewrite (assoc_own locs p t Ht).
    assert (Hdt : defines (files_get locs t) p = true).
    { unfold t, resolve.
      match goal with |- defines (files_get _ (first_defined ?i ?pr ?dd ?F ?ll)) _ = true =>
        destruct (first_defined_cases i pr dd F ll) as [Hc|Hc] end; [exact Hc | rewrite Hc; exact Hdef_d]. }
    destruct (defines_payload _ _ Hdt) as [v Hv]. rewrite Hv. apply opt_eqb_refl.
  - (* the default *)
    rewrite (assoc_map_key locs (default_of d) dflt); [|apply Hnames; now left].
    rewrite default_of_unmapped; [apply opt_eqb_refl|].
    rewrite Hget. now rewrite (proj2 (mem_false _ _) Hdnin).
  - apply nodupb_NoDup. apply asc_NoDup. apply compute_keys_asc.
  - (* the arms *)
    apply forallb_forall. intros [t s] Hin. cbn [fst snd].
    assert (Htk : In t (map fst (compute d))) by (apply in_map_iff; exists (t, s); now split).
    destruct (Htargets t Htk) as [Ht1 Ht2]. fold locs in Ht2.
    rewrite (proj2 (mem_In _ _) (proj2 (Hnames t) Ht1)), Ht2. cbn [andb].
    apply forallb_forall. intros x Hx.
    assert (Hg : gmem (compute d) t x) by (exists s; now split).
    apply compute_gmem in Hg. destruct Hg as [Hxd Hxt].
    destruct (In_map_get_Some _ _ Hxd) as [v Hv]. rewrite Hget in Hv. fold locs in Hv.
    destruct (mem x (map fst rest)) eqn:Hmx; [|discriminate]. cbn [andb] in Hv.
    destruct (defines (files_get locs x) p) eqn:Hdx; [discriminate|]. cbn [negb].
    apply mem_In in Hmx. rewrite (proj2 (mem_In _ _) (proj2 (Hnames x) (or_intror Hmx))). cbn [andb].
    rewrite <- (Hresolve x (proj2 (Hnames x) (or_intror Hmx))), Hxt. apply N.eqb_refl.
  - (* each locale in exactly one / no set *)
    apply forallb_forall. intros l Hl.
    rewrite compute_count.
    + rewrite (Hdom l Hl). destruct (defines (files_get locs l) p); reflexivity.
    + apply asc_NoDup. unfold d. apply fold_push_asc. cbn [dl_new dl_map map]. constructor.
Qed.

(** * paths of a duplicate-free file *)
Definition is_leaf_tree (t : tree) : bool := match t with Group _ => false | _ => true end.

Lemma forest_at_get : forall f k q t, forest_at f (k :: q) = Some t -> exists t0, forest_get f k = Some t0.
Proof. intros f k q t H. cbn [forest_at] in H. destruct (forest_get f k); [eauto | discriminate]. Qed.

Lemma paths_at_mut :
  (forall t pfx p b, In (p, b) (tree_paths t pfx) -> tree_nodup t = true ->
     exists q t', p = pfx ++ q /\ tree_at t q = Some t' /\ b = is_leaf_tree t')
  /\ (forall f pfx p b, In (p, b) (forest_paths f pfx) -> forest_nodup f = true ->
     exists q t', p = pfx ++ q /\ forest_at f q = Some t' /\ b = is_leaf_tree t').
Proof.
  apply tree_forest_mutind.
  - intros x pfx p b [H|[]] _. injection H as <- <-. exists [], (Leaf x). now rewrite app_nil_r.
  - intros pfx p b [H|[]] _. injection H as <- <-. exists [], Null. now rewrite app_nil_r.
  - intros g IH pfx p b [H|H] Hn.
    + injection H as <- <-. exists [], (Group g). now rewrite app_nil_r.
    + destruct (IH _ _ _ H Hn) as [q [t' [Hp [Hat Hb]]]]. exists q, t'. split; [assumption|]. split; [|assumption].
      destruct q as [|k q]; [destruct g; discriminate|]. exact Hat.
  - intros pfx p b [].
  - intros k t IHt r IHr pfx p b H Hn. cbn [forest_paths] in H. cbn [forest_nodup] in Hn.
    apply andb_true_iff in Hn. destruct Hn as [Hn Hnr]. apply andb_true_iff in Hn. destruct Hn as [Hk Hnt].
    apply in_app_or in H. destruct H as [H|H].
    + destruct (IHt _ _ _ H Hnt) as [q [t' [Hp [Hat Hb]]]]. exists (k :: q), t'.
      split; [rewrite Hp, <- app_assoc; reflexivity|]. split; [|assumption].
      rewrite forest_at_cons. cbn [forest_get]. now rewrite N.eqb_refl.
    + destruct (IHr _ _ _ H Hnr) as [q [t' [Hp [Hat Hb]]]]. exists q, t'. split; [assumption|]. split; [|assumption].
      destruct q as [|k0 q]; [destruct r; discriminate|].
      destruct (forest_at_get _ _ _ _ Hat) as [t0 Ht0].
      assert (Hne : (k0 =? k) = false).
      { destruct (k0 =? k) eqn:He; [|reflexivity]. apply N.eqb_eq in He. subst k0. rewrite Ht0 in Hk. discriminate. }
      rewrite forest_at_cons in *. cbn [forest_get]. now rewrite Hne.
Qed.

Lemma no_null_at_mut :
  (forall t q t', has_null t = false -> tree_at t q = Some t' -> t' <> Null)
  /\ (forall f q t', forest_has_null f = false -> forest_at f q = Some t' -> t' <> Null).
Proof.
  apply tree_forest_mutind.
  - intros x q t' _ H. destruct q; [injection H as <-; discriminate | discriminate].
  - intros q t' H. discriminate.
  - intros g IH q t' Hn H. destruct q as [|k q]; [injection H as <-; discriminate|]. exact (IH _ _ Hn H).
  - intros q t' _ H. destruct q; discriminate.
  - intros k t IHt r IHr q t' Hn H. cbn [forest_has_null] in Hn. apply orb_false_iff in Hn. destruct Hn as [Hnt Hnr].
    destruct q as [|k0 q]; [discriminate|]. rewrite forest_at_cons in H. cbn [forest_get] in H.
    destruct (k0 =? k); [exact (IHt _ _ Hnt H)|]. rewrite <- forest_at_cons in H. exact (IHr _ _ Hnr H).
Qed.

Lemma default_leaf_payload : forall df p,
  forest_nodup df = true -> forest_has_null df = false -> In (p, true) (forest_paths df []) ->
  exists pay, payload_at df p = Some pay.
Proof.
  intros df p Hn Hnull Hin. destruct (proj2 paths_at_mut _ _ _ _ Hin Hn) as [q [t' [Hp [Hat Hb]]]].
  cbn [app] in Hp. subst q. pose proof (proj2 no_null_at_mut _ _ _ Hnull Hat) as Hnn.
  unfold payload_at. rewrite Hat. destruct t' as [x| |g]; [eauto | congruence | discriminate].
Qed.

(** * totality: merging never panics *)
Lemma merge_total_mut : forall suppress top dt ns,
  (forall b v path, match merge_value suppress top dt ns b v path with Ok _ | Err _ => True | _ => False end)
  /\ (forall ks f path, match merge_keys suppress top dt ns ks f path with Ok _ | Err _ => True | _ => False end).
Proof.
  intros suppress top dt ns. apply bk_bks_mutind.
  - intros p d v path. cbn [merge_value]. destruct v; exact I.
  - intros fk ks IH v path. cbn [merge_value]. destruct v as [x| |g]; [exact I| |]; unfold finish_locale.
    + specialize (IH (dummy_forest fk) path). destruct (merge_keys suppress top dt ns ks (dummy_forest fk) path) as [[? ?]| | |]; tauto.
    + specialize (IH g path). destruct (merge_keys suppress top dt ns ks g path) as [[? ?]| | |]; tauto.
  - intros f path. exact I.
  - intros k b IHb r IHr f path. cbn [merge_keys].
    match goal with |- context [merge_value ?s ?t ?d ?n b ?v ?pp] => specialize (IHb v pp);
      destruct (merge_value s t d n b v pp) as [[b1 w1]| | |] end; try tauto.
    specialize (IHr f path). destruct (merge_keys suppress top dt ns r f path) as [[? ?]| | |]; tauto.
Qed.

Lemma inner_total : forall ext suppress ns dflt df rest,
  match check_locales_inner ext suppress ns ((dflt, df) :: rest) with Ok _ | Err _ => True | _ => False end.
Proof.
  intros ext suppress ns dflt df rest. cbn [check_locales_inner].
  pose proof (proj2 (mk_null_mut dflt ns) df []) as Hm.
  destruct (mk_keys dflt ns [] df) as [ks|[l n p|n p]| |]; try contradiction; try exact I.
  clear Hm. revert ks. induction rest as [|[l f] rest IH]; intros ks; cbn [merge_all]; [exact I|].
  unfold merge_locale, finish_locale.
  pose proof (proj2 (merge_total_mut suppress l (choose_default_to ext suppress dflt l) ns) ks f []) as Hk.
  destruct (merge_keys suppress l (choose_default_to ext suppress dflt l) ns ks f []) as [[ks1 w1]| | |]; try tauto.
  specialize (IH ks1). destruct (merge_all ext suppress dflt ns ks1 rest) as [[? ?]| | |]; tauto.
Qed.

(** * builder keys made from a duplicate-free file hold no key twice *)
Fixpoint bk_nodup (b : bk) : bool :=
  match b with BValue _ _ => true | BSub _ ks => bks_nodup ks end
with bks_nodup (ks : bks) : bool :=
  match ks with
  | BNil => true
  | BCons k b r => match bks_get r k with None => true | Some _ => false end && bk_nodup b && bks_nodup r
  end.

Lemma mk_nodup_mut : forall dflt ns,
  (forall t path b, mk_value dflt ns path t = Ok b -> tree_nodup t = true -> bk_nodup b = true)
  /\ (forall f path ks, mk_keys dflt ns path f = Ok ks -> forest_nodup f = true ->
        bks_nodup ks = true /\ forall k, forest_get f k = None -> bks_get ks k = None).
Proof.
  intros dflt ns. apply tree_forest_mutind.
  - intros p path b H _. cbn [mk_value] in H. now injection H as <-.
  - intros path b H. discriminate.
  - intros g IH path b H Hn. cbn [mk_value] in H.
    destruct (mk_keys dflt ns path g) as [ks| | |] eqn:Hk; try discriminate. injection H as <-.
    cbn [bk_nodup]. exact (proj1 (IH _ _ Hk Hn)).
  - intros path ks H _. cbn [mk_keys] in H. injection H as <-. split; reflexivity.
  - intros k t IHt r IHr path ks H Hn. cbn [mk_keys] in H. cbn [forest_nodup] in Hn.
    apply andb_true_iff in Hn. destruct Hn as [Hn Hnr]. apply andb_true_iff in Hn. destruct Hn as [Hk Hnt].
    destruct (mk_value dflt ns (path ++ [k]) t) as [b| | |] eqn:Hv; try discriminate.
    destruct (mk_keys dflt ns path r) as [bs| | |] eqn:Hr; try discriminate. injection H as <-.
    destruct (IHr _ _ Hr Hnr) as [Hbs Hget]. split.
    + cbn [bks_nodup]. rewrite (IHt _ _ Hv Hnt), Hbs.
      destruct (forest_get r k) eqn:Hg; [discriminate|]. now rewrite (Hget k Hg).
    + intros k0 Hk0. cbn [forest_get] in Hk0. cbn [bks_get]. destruct (k0 =? k); [discriminate | auto].
Qed.

Definition is_some {A} (o : option A) : bool := match o with Some _ => true | None => false end.

Lemma merge_nodup_mut : forall suppress top dt ns,
  (forall b v path b' ws, merge_value suppress top dt ns b v path = Ok (b', ws) -> bk_nodup b' = bk_nodup b)
  /\ (forall ks f path ks' ws, merge_keys suppress top dt ns ks f path = Ok (ks', ws) ->
        bks_nodup ks' = bks_nodup ks /\ forall k, is_some (bks_get ks' k) = is_some (bks_get ks k)).
Proof.
  intros suppress top dt ns. apply bk_bks_mutind.
  - intros p d v path b' ws H. cbn [merge_value] in H.
    destruct v as [x| |g]; [| |discriminate]; now injection H as <- <-.
  - intros fk ks IH v path b' ws H. cbn [merge_value] in H.
    destruct v as [x| |g]; [discriminate| |]; unfold finish_locale in H.
    + destruct (merge_keys suppress top dt ns ks (dummy_forest fk) path) as [[ks' w]| | |] eqn:Hm; try discriminate.
      injection H as <- <-. cbn [bk_nodup]. exact (proj1 (IH _ _ _ _ Hm)).
    + destruct (merge_keys suppress top dt ns ks g path) as [[ks' w]| | |] eqn:Hm; try discriminate.
      injection H as <- <-. cbn [bk_nodup]. exact (proj1 (IH _ _ _ _ Hm)).
  - intros f path ks' ws H. cbn [merge_keys] in H. injection H as <- <-. split; reflexivity.
  - intros k b IHb r IHr f path ks' ws H. cbn [merge_keys] in H.
    destruct (merge_value suppress top dt ns b
                (fst match forest_get f k with
                     | Some v => (v, [])
                     | None => (Null, if is_implicit dt then [WMissing top ns (path ++ [k])] else [])
                     end) (path ++ [k])) as [[b1 w1]| | |] eqn:Hv; try discriminate.
    destruct (merge_keys suppress top dt ns r f path) as [[r1 w2]| | |] eqn:Hr; try discriminate.
    injection H as <- <-. destruct (IHr _ _ _ _ Hr) as [Hnr Hget]. split.
    + cbn [bks_nodup]. rewrite (IHb _ _ _ _ Hv), Hnr. specialize (Hget k).
      destruct (bks_get r1 k), (bks_get r k); try discriminate; reflexivity.
    + intros k0. cbn [bks_get]. destruct (k0 =? k); [reflexivity | apply Hget].
Qed.

(** * a merge error names a genuine group/value mismatch *)
Lemma dummy_forest_at : forall fk q t, forest_at (dummy_forest fk) q = Some t -> t = Null.
Proof.
  intros fk q t H. destruct q as [|k q]; [discriminate|]. rewrite forest_at_cons in H.
  destruct (dummy_forest_get fk k) as [Hg|Hg]; rewrite Hg in H; [discriminate|].
  destruct q; [now injection H as <- | discriminate].
Qed.

Lemma bks_at_get : forall ks k q b, bks_at ks (k :: q) = Some b -> exists b0, bks_get ks k = Some b0.
Proof. intros ks k q b H. cbn [bks_at] in H. destruct (bks_get ks k); [eauto | discriminate]. Qed.

Lemma merge_err_mut : forall suppress top dt ns,
  (forall b v path e, merge_value suppress top dt ns b v path = Err e -> bk_nodup b = true ->
     exists q b0 t, e = ESubKeyMissmatch top ns (path ++ q)
                    /\ bk_at b q = Some b0 /\ tree_at v q = Some t /\ kind_ok b0 t = false)
  /\ (forall ks f path e, merge_keys suppress top dt ns ks f path = Err e -> bks_nodup ks = true ->
     exists q b0 t, e = ESubKeyMissmatch top ns (path ++ q)
                    /\ bks_at ks q = Some b0 /\ forest_at f q = Some t /\ kind_ok b0 t = false).
Proof.
  intros suppress top dt ns. apply bk_bks_mutind.
  - intros p d v path e H _. cbn [merge_value] in H. destruct v as [x| |g]; try discriminate.
    injection H as <-. exists [], (BValue p d), (Group g). rewrite app_nil_r. repeat split.
  - intros fk ks IH v path e H Hn. cbn [merge_value] in H. cbn [bk_nodup] in Hn.
    destruct v as [x| |g]; unfold finish_locale in H.
    + injection H as <-. exists [], (BSub fk ks), (Leaf x). rewrite app_nil_r. repeat split.
    + destruct (merge_keys suppress top dt ns ks (dummy_forest fk) path) as [[ks' w]|e'| |] eqn:Hm; try discriminate.
      injection H as <-. destruct (IH _ _ _ Hm Hn) as [q [b0 [t [_ [_ [Hat Hk]]]]]].
      apply dummy_forest_at in Hat. subst t. discriminate.
    + destruct (merge_keys suppress top dt ns ks g path) as [[ks' w]|e'| |] eqn:Hm; try discriminate.
      injection H as <-. destruct (IH _ _ _ Hm Hn) as [q [b0 [t [He [Hb [Hat Hk]]]]]].
      exists q, b0, t. split; [assumption|]. destruct q as [|k q]; [destruct ks; discriminate|]. repeat split; assumption.
  - intros f path e H. discriminate.
  - intros k b IHb r IHr f path e H Hn. cbn [merge_keys] in H. cbn [bks_nodup] in Hn.
    apply andb_true_iff in Hn. destruct Hn as [Hn Hnr]. apply andb_true_iff in Hn. destruct Hn as [Hk Hnb].
    destruct (merge_value suppress top dt ns b
                (fst match forest_get f k with
                     | Some v => (v, [])
                     | None => (Null, if is_implicit dt then [WMissing top ns (path ++ [k])] else [])
                     end) (path ++ [k])) as [[b1 w1]|e'| |] eqn:Hv; try discriminate.
    + destruct (merge_keys suppress top dt ns r f path) as [[r1 w2]|e'| |] eqn:Hr; try discriminate.
      injection H as <-. destruct (IHr _ _ _ Hr Hnr) as [q [b0 [t [He [Hb [Hat Hko]]]]]].
      exists q, b0, t. split; [assumption|]. split; [|split; assumption].
      destruct q as [|k0 q]; [destruct r; discriminate|].
      destruct (bks_at_get _ _ _ _ Hb) as [b00 Hb00].
      rewrite bks_at_cons. destruct (k0 =? k) eqn:Hek; [|assumption].
      apply N.eqb_eq in Hek. subst k0. rewrite Hb00 in Hk. discriminate.
    + injection H as <-. destruct (IHb _ _ _ Hv Hnb) as [q [b0 [t [He [Hb [Hat Hko]]]]]].
      exists (k :: q), b0, t. split; [rewrite He, <- app_assoc; reflexivity|].
      split; [rewrite bks_at_cons, N.eqb_refl; assumption|]. split; [|assumption].
      rewrite forest_at_cons. destruct (forest_get f k) as [t0|]; cbn [fst] in Hat; [assumption|].
      destruct q; [injection Hat as <-; discriminate | discriminate].
Qed.

Lemma mk_err_mut : forall dflt ns,
  (forall t path e, mk_value dflt ns path t = Err e -> tree_nodup t = true ->
     exists q, e = EExplicitDefaultInDefault ns (path ++ q) /\ tree_at t q = Some Null)
  /\ (forall f path e, mk_keys dflt ns path f = Err e -> forest_nodup f = true ->
     exists q, e = EExplicitDefaultInDefault ns (path ++ q) /\ forest_at f q = Some Null).
Proof.
  intros dflt ns. apply tree_forest_mutind.
  - intros p path e H. discriminate.
  - intros path e H _. cbn [mk_value] in H. injection H as <-. exists []. now rewrite app_nil_r.
  - intros g IH path e H Hn. cbn [mk_value] in H.
    destruct (mk_keys dflt ns path g) as [ks|e'| |] eqn:Hk; try discriminate. injection H as <-.
    destruct (IH _ _ Hk Hn) as [q [He Hat]]. exists q. split; [assumption|].
    destruct q as [|k q]; [destruct g; discriminate | exact Hat].
  - intros path e H. discriminate.
  - intros k t IHt r IHr path e H Hn. cbn [mk_keys] in H. cbn [forest_nodup] in Hn.
    apply andb_true_iff in Hn. destruct Hn as [Hn Hnr]. apply andb_true_iff in Hn. destruct Hn as [Hk Hnt].
    destruct (mk_value dflt ns (path ++ [k]) t) as [b|e'| |] eqn:Hv; try discriminate.
    + destruct (mk_keys dflt ns path r) as [bs|e'| |] eqn:Hr; try discriminate. injection H as <-.
      destruct (IHr _ _ Hr Hnr) as [q [He Hat]]. exists q. split; [assumption|].
      destruct q as [|k0 q]; [destruct r; discriminate|].
      destruct (forest_at_get _ _ _ _ Hat) as [t0 Ht0].
      rewrite forest_at_cons in *. cbn [forest_get]. destruct (k0 =? k) eqn:Hek; [|assumption].
      apply N.eqb_eq in Hek. subst k0. rewrite Ht0 in Hk. discriminate.
    + injection H as <-. destruct (IHt _ _ Hv Hnt) as [q [He Hat]]. exists (k :: q).
      split; [rewrite He, <- app_assoc; reflexivity|]. rewrite forest_at_cons. cbn [forest_get]. now rewrite N.eqb_refl.
Qed.

Lemma at_in_paths_mut :
  (forall t q t' pfx, tree_at t q = Some t' -> In (pfx ++ q, is_leaf_tree t') (tree_paths t pfx))
  /\ (forall f q t' pfx, forest_at f q = Some t' -> In (pfx ++ q, is_leaf_tree t') (forest_paths f pfx)).
Proof.
  apply tree_forest_mutind.
  - intros x q t' pfx H. destruct q; [|discriminate]. injection H as <-. rewrite app_nil_r. now left.
  - intros q t' pfx H. destruct q; [|discriminate]. injection H as <-. rewrite app_nil_r. now left.
  - intros g IH q t' pfx H. destruct q as [|k q].
    + injection H as <-. rewrite app_nil_r. now left.
    + right. exact (IH _ _ pfx H).
  - intros q t' pfx H. destruct q; discriminate.
  - intros k t IHt r IHr q t' pfx H. destruct q as [|k0 q]; [discriminate|].
    rewrite forest_at_cons in H. cbn [forest_get] in H. cbn [forest_paths]. apply in_or_app.
    destruct (k0 =? k) eqn:He.
    + apply N.eqb_eq in He. subst k0. left. specialize (IHt _ _ (pfx ++ [k]) H). now rewrite <- app_assoc in IHt.
    + right. rewrite <- forest_at_cons in H. exact (IHr _ _ pfx H).
Qed.

Lemma has_null_at : forall f q, forest_at f q = Some Null -> forest_has_null f = true.
Proof.
  intros f q H. destruct (forest_has_null f) eqn:Hn; [reflexivity|].
  exfalso. exact (proj2 no_null_at_mut _ _ _ Hn H eq_refl).
Qed.

Lemma mismatch_file : forall df f q, mismatch_at df f q = true -> file_mismatch df f = true.
Proof.
  intros df f q H. unfold file_mismatch. apply existsb_exists. unfold mismatch_at in H.
  destruct (forest_at df q) as [d0|] eqn:Hd; [|discriminate]. destruct (forest_at f q) as [t|] eqn:Hat; [|discriminate].
  exists (q, is_leaf_tree t). split; [exact (proj2 at_in_paths_mut _ _ _ [] Hat)|].
  unfold mismatch_at. cbn [fst]. now rewrite Hat, Hd.
Qed.

(** what a failing check_locales_inner names *)
Definition inner_err_ok (ns : option key) (dflt : loc) (df : forest) (rest : list (loc * forest)) (e : err) : Prop :=
  match e with
  | EExplicitDefaultInDefault ns' p => ns' = ns /\ forest_at df p = Some Null
  | ESubKeyMissmatch l ns' p => ns' = ns /\ exists f, In (l, f) rest /\ mismatch_at df f p = true
  end.

Lemma merge_all_err : forall ext suppress dflt ns df rest ks e,
  merge_all ext suppress dflt ns ks rest = Err e ->
  bks_nodup ks = true -> forest_has_null df = false ->
  (forall q, option_map bk_is_group (bks_at ks q)
             = option_map (fun x => match x with Group _ => true | _ => false end) (forest_at df q)) ->
  inner_err_ok ns dflt df rest e.
Proof.
  intros ext suppress dflt ns df. induction rest as [|[l f] rest IH]; intros ks e H Hn Hnull Hkind; cbn [merge_all] in H; [discriminate|].
  unfold merge_locale, finish_locale in H.
  destruct (merge_keys suppress l (choose_default_to ext suppress dflt l) ns ks f []) as [[ks1 w1]|e'| |] eqn:Hk; try discriminate.
  - destruct (merge_all ext suppress dflt ns ks1 rest) as [[ks2 w2]|e'| |] eqn:Hr; try discriminate. injection H as <-.
    destruct (proj2 (merge_nodup_mut _ _ _ _) _ _ _ _ _ Hk) as [Hn1 _].
    assert (Hgoal : inner_err_ok ns dflt df rest e').
    { apply (IH ks1 e' Hr); [congruence | assumption|].
      intros q. rewrite (proj2 (merge_kind_mut _ _ _ _) _ _ _ _ _ Hk q). apply Hkind. }
    destruct e' as [l' ns' p|ns' p]; cbn [inner_err_ok] in *; [|assumption].
    destruct Hgoal as [Hns [f' [Hin Hm]]]. split; [assumption|]. exists f'. split; [now right | assumption].
  - injection H as <-. destruct (proj2 (merge_err_mut _ _ _ _) _ _ _ _ Hk Hn) as [q [b0 [t [-> [Hb [Hat Hko]]]]]].
    cbn [app inner_err_ok]. split; [reflexivity|]. exists f. split; [now left|].
    specialize (Hkind q). rewrite Hb in Hkind. cbn [option_map] in Hkind.
    destruct (forest_at df q) as [d0|] eqn:Hd; [|discriminate]. cbn [option_map] in Hkind. injection Hkind as Hg.
    pose proof (proj2 no_null_at_mut _ _ _ Hnull Hd) as Hnn.
    unfold mismatch_at. rewrite Hd, Hat. unfold kind_ok in Hko.
    destruct t as [x| |g]; [| discriminate |].
    + apply negb_false_iff in Hko. rewrite Hko in Hg. destruct d0; try discriminate. reflexivity.
    + rewrite Hko in Hg. destruct d0 as [y| |h]; [reflexivity | congruence | discriminate].
Qed.

Theorem inner_err_genuine : forall ext suppress ns dflt df rest e,
  check_locales_inner ext suppress ns ((dflt, df) :: rest) = Err e -> forest_nodup df = true ->
  inner_err_ok ns dflt df rest e.
Proof.
  intros ext suppress ns dflt df rest e H Hn. cbn [check_locales_inner] in H.
  destruct (mk_keys dflt ns [] df) as [ks|e'| |] eqn:Hk; try discriminate.
  - apply (merge_all_err _ _ _ _ _ _ _ _ H).
    + exact (proj1 (proj2 (mk_nodup_mut dflt ns) _ _ _ Hk Hn)).
    + pose proof (proj2 (mk_null_mut dflt ns) df []) as Hm. now rewrite Hk in Hm.
    + exact (proj2 (mk_kind_mut dflt ns) _ _ _ Hk).
  - injection H as <-. destruct (proj2 (mk_err_mut dflt ns) _ _ _ Hk Hn) as [q [-> Hat]].
    cbn [app inner_err_ok]. now split.
Qed.

(** * namespaces *)
Definition encns (o : option key) : N := match o with Some n => n + 1 | None => 0 end.
Lemma encns_inj : forall a b, encns a = encns b -> a = b.
Proof. intros [a|] [b|] H; cbn [encns] in H; try reflexivity; try lia. f_equal. lia. Qed.
Lemma onskey_neq : forall a b, a <> b -> onskey_eqb a b = false.
Proof.
  intros a b H. unfold onskey_eqb. destruct (opt_eqb a b) eqn:He; [|reflexivity]. apply opt_eqb_eq in He. contradiction.
Qed.

Lemma map_get_In : forall m k v, map_get m k = Some v -> In (k, v) m.
Proof.
  induction m as [|[k0 v0] r IH]; intros k v H; cbn [map_get] in H; [discriminate|].
  destruct (k =? k0) eqn:He; [apply N.eqb_eq in He; injection H as ->; subst; now left | right; auto].
Qed.

Definition ns_ok (ext : list (loc * loc)) (nf : nsfiles) : Prop :=
  exists dflt df rest, snd nf = (dflt, df) :: rest
    /\ NoDup (dflt :: map fst rest)
    /\ (forall x y, map_get ext x = Some y -> In x (map fst rest) /\ (y = dflt \/ In y (map fst rest)))
    /\ (forall lf, In lf (snd nf) -> forest_nodup (snd lf) = true).

Lemma wf_ns : forall c nf, wf_strict c = true -> In nf (c_nss c) -> ns_ok (c_ext c) nf.
Proof.
  intros c nf Hwf Hin. unfold wf_strict, wf_case in Hwf.
  apply andb_true_iff in Hwf. destruct Hwf as [Hwf Hnd]. apply andb_true_iff in Hwf. destruct Hwf as [Hwf _].
  rewrite forallb_forall in Hwf, Hnd. specialize (Hwf nf Hin). specialize (Hnd nf Hin).
  destruct (snd nf) as [|[dflt df] rest] eqn:Hs; [discriminate|].
  apply andb_true_iff in Hwf. destruct Hwf as [H1 H2].
  exists dflt, df, rest. split; [assumption || reflexivity|]. split; [now apply nodupb_NoDup|]. split.
  - intros x y Hxy. apply map_get_In in Hxy. rewrite forallb_forall in H2. specialize (H2 _ Hxy). cbn [fst snd] in H2.
    apply andb_true_iff in H2. destruct H2 as [Hx Hy]. apply mem_In in Hx, Hy. split; [assumption|].
    destruct Hy as [Hy|Hy]; [left; now symmetry | now right].
  - intros lf Hlf. rewrite Hs in Hlf. rewrite forallb_forall in Hnd. now apply Hnd.
Qed.

Lemma wf_ns_nodup : forall c, wf_strict c = true -> NoDup (map (fun nf : nsfiles => encns (fst nf)) (c_nss c)).
Proof.
  intros c Hwf. unfold wf_strict, wf_case in Hwf.
  apply andb_true_iff in Hwf. destruct Hwf as [Hwf _]. apply andb_true_iff in Hwf. destruct Hwf as [_ Hn].
  now apply nodupb_NoDup in Hn.
Qed.

Lemma ns_files_of_In : forall c nf,
  NoDup (map (fun nf : nsfiles => encns (fst nf)) (c_nss c)) -> In nf (c_nss c) -> ns_files_of c (fst nf) = snd nf.
Proof.
  intros c nf. unfold ns_files_of. induction (c_nss c) as [|nf0 r IH]; intros Hnd Hin; [contradiction|].
  cbn [map] in Hnd. apply NoDup_cons_iff in Hnd. destruct Hnd as [Hn0 Hnd]. cbn [find].
  destruct Hin as [->|Hin].
  - unfold onskey_eqb. now rewrite opt_eqb_refl.
  - rewrite onskey_neq; [now apply IH|]. intros Heq. apply Hn0.
    apply in_map_iff. exists nf. split; [now rewrite Heq | assumption].
Qed.

Definition entries_of (G : option key -> list (loc * forest)) (nk : option key * bks) : list entry :=
  bks_entries (G (fst nk)) (fst nk) (snd nk) [].

Lemma check_locales_ok_ns : forall ext suppress G nss out ws,
  check_locales ext suppress nss = Ok (out, ws) ->
  NoDup (map (fun nf : nsfiles => encns (fst nf)) nss) ->
  forall nf, In nf nss ->
  exists ks w, check_locales_inner ext suppress (fst nf) (snd nf) = Ok (ks, w)
    /\ forall p pay d, bks_leaf ks p = Some (pay, d) ->
         find (matcher (fst nf) p) (flat_map (entries_of G) out) = Some (leaf_entry (G (fst nf)) (fst nf) p d).
Proof.
  intros ext suppress G. induction nss as [|[ns0 locs0] r IH]; intros out ws H Hnd nf Hin; [contradiction|].
  cbn [check_locales] in H.
  destruct (check_locales_inner ext suppress ns0 locs0) as [[ks0 w1]| | |] eqn:Hi; try discriminate.
  destruct (check_locales ext suppress r) as [[out' w2]| | |] eqn:Hr; try discriminate. injection H as <- <-.
  cbn [map] in Hnd. apply NoDup_cons_iff in Hnd. destruct Hnd as [Hn0 Hnd]. cbn [flat_map].
  destruct Hin as [<-|Hin].
  - exists ks0, w1. cbn [fst snd]. split; [assumption|]. intros p pay d Hl. rewrite find_app.
    unfold entries_of at 1. cbn [fst snd].
    pose proof (proj2 (find_leaf_mut (G ns0) ns0) ks0 [] p pay d Hl) as Hf. cbn [app] in Hf. now rewrite Hf.
  - destruct (IH _ _ eq_refl Hnd nf Hin) as [ks [w [Hk Hfind]]]. exists ks, w. split; [assumption|].
    intros p pay d Hl. rewrite find_app, find_none_all; [exact (Hfind p pay d Hl)|].
    intros e He. unfold entries_of in He. cbn [fst snd] in He.
    destruct (proj2 (entries_prefix_mut (G ns0) ns0) _ _ _ He) as [Hens _].
    unfold matcher. rewrite Hens, onskey_neq; [reflexivity|].
    intros Heq. apply Hn0. apply in_map_iff. exists nf. cbn [fst]. split; [now rewrite Heq | assumption].
Qed.

Lemma check_locales_ok_inner : forall ext suppress nss out ws,
  check_locales ext suppress nss = Ok (out, ws) ->
  forall nf, In nf nss -> exists ks w, check_locales_inner ext suppress (fst nf) (snd nf) = Ok (ks, w).
Proof.
  intros ext suppress. induction nss as [|[ns0 locs0] r IH]; intros out ws H nf Hin; [contradiction|].
  cbn [check_locales] in H.
  destruct (check_locales_inner ext suppress ns0 locs0) as [[ks0 w1]| | |] eqn:Hi; try discriminate.
  destruct (check_locales ext suppress r) as [[out' w2]| | |] eqn:Hr; try discriminate.
  destruct Hin as [<-|Hin]; [eauto | eapply IH; eauto].
Qed.

Lemma check_locales_err : forall ext suppress nss e,
  check_locales ext suppress nss = Err e ->
  exists nf, In nf nss /\ check_locales_inner ext suppress (fst nf) (snd nf) = Err e.
Proof.
  intros ext suppress. induction nss as [|[ns0 locs0] r IH]; intros e H; cbn [check_locales] in H; [discriminate|].
  destruct (check_locales_inner ext suppress ns0 locs0) as [[ks0 w1]|e0| |] eqn:Hi; try discriminate.
  - destruct (check_locales ext suppress r) as [[out' w2]|e1| |] eqn:Hr; try discriminate. injection H as <-.
    destruct (IH _ eq_refl) as [nf [Hin Hnf]]. exists nf. split; [now right | assumption].
  - injection H as <-. exists (ns0, locs0). split; [now left | assumption].
Qed.

Lemma check_locales_total : forall ext suppress nss,
  (forall nf, In nf nss -> snd nf <> []) ->
  match check_locales ext suppress nss with Ok _ | Err _ => True | _ => False end.
Proof.
  intros ext suppress. induction nss as [|[ns0 locs0] r IH]; intros Hne; cbn [check_locales]; [exact I|].
  assert (H0 : locs0 <> []) by (apply (Hne (ns0, locs0)); now left).
  destruct locs0 as [|[dflt df] rest]; [congruence|].
  pose proof (inner_total ext suppress ns0 dflt df rest) as Ht.
  destruct (check_locales_inner ext suppress ns0 ((dflt, df) :: rest)) as [[ks0 w1]| | |]; try tauto.
  assert (Hr : forall nf, In nf r -> snd nf <> []) by (intros nf Hin; apply Hne; now right).
  specialize (IH Hr). destruct (check_locales ext suppress r) as [[? ?]| | |]; tauto.
Qed.

Lemma existsb_false_all : forall A (f : A -> bool) l, existsb f l = false <-> forall x, In x l -> f x = false.
Proof.
  intros A f. induction l as [|a r IH]; cbn [existsb].
  - split; [intros _ x [] | reflexivity].
  - rewrite orb_false_iff, IH. split.
    + intros [H1 H2] x [<-|Hx]; auto.
    + intros H. split; [apply H; now left | intros x Hx; apply H; now right].
Qed.

(** a namespace that merges calls for no error; one that fails does *)
Lemma inner_ok_no_error : forall ext suppress ns dflt df rest ks ws,
  check_locales_inner ext suppress ns ((dflt, df) :: rest) = Ok (ks, ws) ->
  ns_calls_for_error (ns, (dflt, df) :: rest) = false.
Proof.
  intros ext suppress ns dflt df rest ks ws H. unfold ns_calls_for_error. cbn [snd].
  assert (Hnull : forest_has_null df = false).
  { cbn [check_locales_inner] in H. pose proof (proj2 (mk_null_mut dflt ns) df []) as Hm.
    destruct (mk_keys dflt ns [] df); try discriminate. exact Hm. }
  rewrite Hnull. cbn [orb]. apply existsb_false_all. intros [l f] Hin. cbn [snd].
  unfold file_mismatch. apply existsb_false_all. intros [q b] Hq. cbn [fst]. unfold mismatch_at.
  destruct (forest_at df q) as [d0|] eqn:Hd; [|reflexivity]. destruct (forest_at f q) as [t|] eqn:Ht; [|reflexivity].
  pose proof (ok_no_mismatch _ _ _ _ _ _ _ _ H l f q d0 t Hin Hd Ht) as Hm.
  destruct d0, t; try reflexivity; contradiction.
Qed.

Lemma inner_err_calls : forall ns dflt df rest e,
  inner_err_ok ns dflt df rest e -> ns_calls_for_error (ns, (dflt, df) :: rest) = true.
Proof.
  intros ns dflt df rest e H. unfold ns_calls_for_error. cbn [snd]. destruct e as [l ns' p|ns' p]; cbn [inner_err_ok] in H.
  - destruct H as [_ [f [Hin Hm]]]. apply orb_true_iff. right. apply existsb_exists. exists (l, f).
    split; [assumption|]. cbn [snd]. eapply mismatch_file; eauto.
  - destruct H as [_ Hat]. now rewrite (has_null_at _ _ Hat).
Qed.

(** * C03: the bridge *)
Theorem spec_C03_holds : forall c, wf_strict c = true -> spec_C03 c (model_result c) = true.
Proof.
  intros c Hwf. unfold model_result.
  pose proof (wf_ns_nodup c Hwf) as Hnsnd.
  assert (Hne : forall nf, In nf (c_nss c) -> snd nf <> []).
  { intros nf Hin. destruct (wf_ns c nf Hwf Hin) as [dflt [df [rest [Hs _]]]]. rewrite Hs. discriminate. }
  pose proof (check_locales_total (c_ext c) (c_suppress c) (c_nss c) Hne) as Htot.
  destruct (check_locales (c_ext c) (c_suppress c) (c_nss c)) as [[out ws]|e| |] eqn:Hc; try contradiction.
  - cbn [spec_C03]. apply andb_true_iff. split.
    + apply negb_true_iff. unfold calls_for_error. apply existsb_false_all. intros [ns locs] Hin.
      destruct (check_locales_ok_inner _ _ _ _ _ Hc _ Hin) as [ks [w Hk]].
      destruct (wf_ns c _ Hwf Hin) as [dflt [df [rest [Hs _]]]]. cbn [fst snd] in *. subst locs.
      eapply inner_ok_no_error; eauto.
    + apply forallb_forall. intros nf Hin.
      destruct (check_locales_ok_ns _ _ (ns_files_of c) _ _ _ Hc Hnsnd nf Hin) as [ks [w [Hk Hfind]]].
      destruct (wf_ns c nf Hwf Hin) as [dflt [df [rest [Hs [Hnd [Hext Hfn]]]]]].
      unfold spec_C03_ns. rewrite Hs. rewrite Hs in Hk.
      assert (Hnull : forest_has_null df = false).
      { pose proof (inner_ok_no_error _ _ _ _ _ _ _ _ Hk) as Hno. unfold ns_calls_for_error in Hno. cbn [snd] in Hno.
        now apply orb_false_iff in Hno. }
      rewrite Hnull. cbn [negb andb]. apply forallb_forall. intros [p b] Hp. cbn [fst snd].
      destruct b; [|reflexivity].
      assert (Hdfn : forest_nodup df = true) by (apply (Hfn (dflt, df)); rewrite Hs; now left).
      destruct (default_leaf_payload df p Hdfn Hnull Hp) as [pay Hpay].
      pose proof (inner_leaf_form _ _ _ _ _ _ _ _ Hk p) as Hleaf. rewrite Hpay in Hleaf. cbn [option_map] in Hleaf.
      unfold find_entry. change (fun e : entry => onskey_eqb (e_ns e) (fst nf) && list_eqb (e_path e) p) with (matcher (fst nf) p).
      change (model_entries c out) with (flat_map (entries_of (ns_files_of c)) out).
      rewrite (Hfind p pay _ Hleaf), (ns_files_of_In c nf Hnsnd Hin), Hs.
      eapply leaf_spec; eauto.
  - cbn [spec_C03]. destruct (check_locales_err _ _ _ _ Hc) as [[ns locs] [Hin Hk]].
    destruct (wf_ns c _ Hwf Hin) as [dflt [df [rest [Hs [Hnd [Hext Hfn]]]]]]. cbn [fst snd] in *. subst locs.
    unfold calls_for_error. apply existsb_exists. exists (ns, (dflt, df) :: rest). split; [assumption|].
    eapply inner_err_calls. eapply inner_err_genuine; eauto. apply (Hfn (dflt, df)). now left.
Qed.
