(** Proofs about the order model (property C10): folding the members of an object into the sorted key map does not
    depend on the order of the members, at any nesting depth; every observable is computed from the sorted maps. *)
From Coq Require Import List NArith Bool Arith Lia Permutation.
Import ListNotations.
From LI Require Import Base.StrOps.
From LI Require Import Base.StrLemmas.
From LI Require Import Parser.Parse.
From LI Require Import Parser.Order.
From LI Require Import Parser.OrderCheck.
Open Scope N_scope.

(** ** [str_ltb] is a strict total order (byte-wise = code-point order of key names) *)
Lemma str_ltb_irrefl a : str_ltb a a = false.
Proof. induction a as [|x r IH]; cbn [str_ltb]; [reflexivity|]. rewrite N.ltb_irrefl. exact IH. Qed.

Lemma str_ltb_asym a b : str_ltb a b = true -> str_ltb b a = false.
Proof.
  revert b; induction a as [|x r IH]; intros [|y t]; cbn [str_ltb]; try discriminate; try reflexivity.
  destruct (N.ltb_spec x y) as [L|L].
  - intros _. destruct (N.ltb_spec y x); [lia | reflexivity].
  - destruct (N.ltb_spec y x) as [L'|L']; [discriminate|]. apply IH.
Qed.

Lemma str_ltb_trans a b c : str_ltb a b = true -> str_ltb b c = true -> str_ltb a c = true.
Proof.
  revert b c; induction a as [|x r IH]; intros [|y t] [|z u]; cbn [str_ltb]; try discriminate; try reflexivity.
  destruct (N.ltb_spec x y) as [L1|L1].
  - intros _. destruct (N.ltb_spec y z) as [L2|L2].
    + intros _. destruct (N.ltb_spec x z); [reflexivity | lia].
    + destruct (N.ltb_spec z y); [discriminate|]. intros _. destruct (N.ltb_spec x z); [reflexivity | lia].
  - destruct (N.ltb_spec y x) as [L1'|L1']; [discriminate|]. assert (x = y) by lia. subst y.
    intros H1. destruct (N.ltb_spec x z) as [L2|L2]; [reflexivity|].
    destruct (N.ltb_spec z x); [discriminate|]. intros H2. eapply IH; eauto.
Qed.

Lemma str_ltb_total a b : str_eqb a b = false -> str_ltb a b = false -> str_ltb b a = true.
Proof.
  revert b; induction a as [|x r IH]; intros [|y t]; cbn [str_ltb str_eqb]; try discriminate; try reflexivity.
  destruct (N.eqb_spec x y) as [->|Hne]; cbn [andb].
  - rewrite N.ltb_irrefl. apply IH.
  - intros _. destruct (N.ltb_spec x y) as [L|L]; [discriminate|]. intros _.
    destruct (N.ltb_spec y x); [reflexivity | lia].
Qed.

Lemma str_eqb_sym a b : str_eqb a b = str_eqb b a.
Proof.
  destruct (str_eqb a b) eqn:E.
  - apply str_eqb_eq in E. subst. symmetry. apply str_eqb_refl.
  - destruct (str_eqb b a) eqn:E'; [|reflexivity]. apply str_eqb_eq in E'. subst. rewrite str_eqb_refl in E. discriminate.
Qed.

Lemma str_eqb_ltb a b : str_eqb a b = true -> str_ltb a b = false.
Proof. intros E. apply str_eqb_eq in E. subst. apply str_ltb_irrefl. Qed.

(** ** BTreeMap::insert for two different keys commutes (no assumption on the list) *)
Lemma map_insert_comm {V} (k1 k2 : str) (v1 v2 : V) m :
  str_eqb k1 k2 = false ->
  map_insert k1 v1 (map_insert k2 v2 m) = map_insert k2 v2 (map_insert k1 v1 m).
Proof.
  intros Hne. assert (Hne' : str_eqb k2 k1 = false) by (rewrite str_eqb_sym; exact Hne).
  induction m as [|[k v] t IH]; cbn [map_insert].
  - rewrite Hne, Hne'. destruct (str_ltb k1 k2) eqn:L.
    + rewrite (str_ltb_asym _ _ L). reflexivity.
    + rewrite (str_ltb_total _ _ Hne L). reflexivity.
  - destruct (str_eqb k2 k) eqn:E2; destruct (str_eqb k1 k) eqn:E1.
    + apply str_eqb_eq in E1, E2. subst. rewrite str_eqb_refl in Hne. discriminate.
    + (* k2 = k *) apply str_eqb_eq in E2. subst k. cbn [map_insert]. rewrite Hne.
      destruct (str_ltb k1 k2) eqn:L; cbn [map_insert].
      * rewrite Hne', (str_ltb_asym _ _ L), str_eqb_refl. reflexivity.
      * rewrite str_eqb_refl. reflexivity.
    + (* k1 = k *) apply str_eqb_eq in E1. subst k. cbn [map_insert]. rewrite Hne'.
      destruct (str_ltb k2 k1) eqn:L; cbn [map_insert].
      * rewrite Hne, (str_ltb_asym _ _ L), str_eqb_refl. reflexivity.
      * rewrite str_eqb_refl. reflexivity.
    + destruct (str_ltb k2 k) eqn:L2; destruct (str_ltb k1 k) eqn:L1; cbn [map_insert].
      * rewrite Hne, Hne'. destruct (str_ltb k1 k2) eqn:L.
        -- rewrite (str_ltb_asym _ _ L). cbn [map_insert]. rewrite E2, L2. reflexivity.
        -- rewrite (str_ltb_total _ _ Hne L). rewrite E1, L1. reflexivity.
      * (* k2 < k <= k1 *) rewrite Hne.
        assert (L : str_ltb k2 k1 = true) by (apply (str_ltb_trans k2 k k1); [exact L2 | apply str_ltb_total; [exact E1 | exact L1]]).
        rewrite (str_ltb_asym _ _ L), E1, L1, E2, L2. reflexivity.
      * (* k1 < k <= k2 *) rewrite Hne'.
        assert (L : str_ltb k1 k2 = true) by (apply (str_ltb_trans k1 k k2); [exact L1 | apply str_ltb_total; [exact E2 | exact L2]]).
        rewrite (str_ltb_asym _ _ L), E2, L2, E1, L1. reflexivity.
      * rewrite E1, L1, E2, L2. rewrite IH. reflexivity.
Qed.

Lemma has_key_insert {V} (k k' : str) (v : V) m :
  has_key k (map_insert k' v m) = str_eqb k k' || has_key k m.
Proof.
  unfold has_key. induction m as [|[k0 v0] t IH]; cbn [map_insert existsb fst].
  - reflexivity.
  - destruct (str_eqb k' k0) eqn:E.
    + apply str_eqb_eq in E. subst k0. cbn [existsb fst]. destruct (str_eqb k k'); reflexivity.
    + destruct (str_ltb k' k0); cbn [existsb fst]; [reflexivity|]. rewrite IH.
      destruct (str_eqb k k0), (str_eqb k k'); reflexivity.
Qed.

(** ** the member loop: swapping two adjacent members changes nothing *)
Lemma insert_all_swap x y l acc : insert_all (x :: y :: l) acc = insert_all (y :: x :: l) acc.
Proof.
  destruct x as [k1 [t1|]], y as [k2 [t2|]]; cbn [insert_all]; try reflexivity.
  - destruct (has_key k1 acc) eqn:H1; destruct (has_key k2 acc) eqn:H2; try reflexivity.
    + rewrite has_key_insert, H1, orb_true_r. reflexivity.
    + rewrite has_key_insert, H2, orb_true_r. reflexivity.
    + rewrite !has_key_insert, H1, H2, !orb_false_r. rewrite (str_eqb_sym k1 k2).
      destruct (str_eqb k2 k1) eqn:E; [reflexivity|]. rewrite (map_insert_comm k2 k1); [reflexivity | exact E].
  - destruct (has_key k1 acc); reflexivity.
  - destruct (has_key k2 acc); reflexivity.
Qed.

Lemma insert_all_perm l l' : Permutation l l' -> forall acc, insert_all l acc = insert_all l' acc.
Proof.
  induction 1 as [|x l l' _ IH|x y l|l1 l2 l3 _ IH1 _ IH2]; intros acc.
  - reflexivity.
  - destruct x as [k [t|]]; cbn [insert_all]; [|reflexivity]. destruct (has_key k acc); [reflexivity | apply IH].
  - apply insert_all_swap.
  - rewrite IH1. apply IH2.
Qed.

Definition built (kv : str * jv) : str * option tree := (key_of (fst kv), build_val (snd kv)).

(** C10_order: the sorted map of an object does not depend on the order of its members *)
Theorem build_perm ms ms' : Permutation ms ms' -> build ms = build ms'.
Proof. intros P. unfold build. apply insert_all_perm. apply Permutation_map. exact P. Qed.

(** ** the same content in another member order, at every nesting level *)
Inductive tperm : jv -> jv -> Prop :=
| tp_leaf i ps rs : tperm (JLeaf i ps rs) (JLeaf i ps rs)
| tp_null : tperm JNull JNull
| tp_obj ms ms' ms'' : mrel ms ms' -> Permutation ms' ms'' -> tperm (JObj ms) (JObj ms'')
with mrel : list (str * jv) -> list (str * jv) -> Prop :=
| mr_nil : mrel [] []
| mr_cons k v v' r r' : tperm v v' -> mrel r r' -> mrel ((k, v) :: r) ((k, v') :: r').
Scheme tperm_mut := Minimality for tperm Sort Prop
  with mrel_mut := Minimality for mrel Sort Prop.

Lemma build_val_obj ms : build_val (JObj ms) = match build ms with Some m => Some (TSub m) | None => None end.
Proof. reflexivity. Qed.

Theorem build_val_tperm t t' : tperm t t' -> build_val t = build_val t'.
Proof.
  apply (tperm_mut (fun t t' => build_val t = build_val t') (fun ms ms' => map built ms = map built ms')).
  - reflexivity.
  - reflexivity.
  - intros ms ms' ms'' _ E P. rewrite !build_val_obj. unfold build. fold built. rewrite E.
    rewrite (insert_all_perm _ _ (Permutation_map built P)). reflexivity.
  - reflexivity.
  - intros k v v' r r' _ Ev _ Er. cbn [map]. unfold built at 1 3. cbn [fst snd]. rewrite Ev, Er. reflexivity.
Qed.

Definition files_perm (a b : list (list (str * jv))) : Prop := Forall2 (fun x y => tperm (JObj x) (JObj y)) a b.

Lemma build_tperm x y : tperm (JObj x) (JObj y) -> build x = build y.
Proof.
  intros H. apply build_val_tperm in H. rewrite !build_val_obj in H.
  destruct (build x), (build y); try discriminate; [inversion H; reflexivity | reflexivity].
Qed.

Lemma build_all_perm a b : files_perm a b -> build_all a = build_all b.
Proof.
  induction 1 as [|x y a b H _ IH]; cbn [build_all]; [reflexivity|]. rewrite (build_tperm _ _ H), IH. reflexivity.
Qed.

(** every observable - including which key a foreign-key error names - is computed from the sorted maps only *)
Theorem run_unit_factors names files : run_unit names files = from_sorted names (build_all files).
Proof. reflexivity. Qed.

Theorem run_unit_perm names a b : files_perm a b -> run_unit names a = run_unit names b.
Proof. intros H. rewrite !run_unit_factors, (build_all_perm _ _ H). reflexivity. Qed.

Theorem tables_perm names a b : files_perm a b ->
  match run_unit names a, run_unit names b with
  | inl oa, inl ob => o_tables oa = o_tables ob /\ o_lists oa = o_lists ob /\ o_warnings oa = o_warnings ob
  | inr ea, inr eb => ea = eb
  | _, _ => False
  end.
Proof. intros H. rewrite (run_unit_perm names _ _ H). destruct (run_unit names b); auto. Qed.

(** ** the executable predicate holds of the model *)
Lemma list_eqb_refl {A} (eqb : A -> A -> bool) : (forall x, eqb x x = true) -> forall l, list_eqb eqb l l = true.
Proof. intros H l. induction l as [|x r IH]; cbn [list_eqb]; [reflexivity|]. rewrite H, IH. reflexivity. Qed.
Lemma path_eqb_refl p : path_eqb p p = true.
Proof. unfold path_eqb. induction p as [|x r IH]; [reflexivity|]. rewrite str_eqb_refl. exact IH. Qed.
Lemma out_eqb_refl o : out_eqb o o = true.
Proof.
  unfold out_eqb. rewrite !andb_true_iff. repeat split.
  - apply list_eqb_refl. intros l. apply list_eqb_refl. intros [p i]. unfold entry_eqb. cbn. rewrite path_eqb_refl, N.eqb_refl. reflexivity.
  - apply list_eqb_refl. intros l. apply list_eqb_refl. apply str_eqb_refl.
  - apply list_eqb_refl. intros [i p|i p]; cbn; rewrite N.eqb_refl, path_eqb_refl; reflexivity.
Qed.
Lemma result_eqb_refl r : result_eqb r r = true.
Proof.
  destruct r as [o|[[[c l] p] t]]; cbn; [apply out_eqb_refl|]. rewrite !N.eqb_refl, !path_eqb_refl. reflexivity.
Qed.

Theorem spec_C10_model names a b : files_perm a b -> spec_C10 a b (model_result names a) (model_result names b) = true.
Proof.
  intros H. unfold spec_C10, model_result. rewrite (run_unit_perm names _ _ H), result_eqb_refl. apply orb_true_r.
Qed.

(** which key a foreign-key diagnostic names does not depend on the order of the members: the cycle a -> b -> a is reported
    at "a" whichever member comes first, two references to a missing key at the smaller referring key *)
Definition k_a : str := [97]. Definition k_b : str := [98]. Definition k_n : str := [110].
Example fk_cycle_named_key :
  run_unit [[101; 110]] [[(k_a, JLeaf 1 [] [[k_b]]); (k_b, JLeaf 2 [] [[k_a]])]] = inr (ERecursiveFK 0 [k_a]) /\
  run_unit [[101; 110]] [[(k_b, JLeaf 2 [] [[k_a]]); (k_a, JLeaf 1 [] [[k_b]])]] = inr (ERecursiveFK 0 [k_a]).
Proof. split; vm_compute; reflexivity. Qed.
Example fk_missing_named_key :
  run_unit [[101; 110]] [[(k_b, JLeaf 2 [] [[k_n]]); (k_a, JLeaf 1 [] [[k_n]])]] = inr (EMissingFK 0 [k_a] [k_n]).
Proof. vm_compute. reflexivity. Qed.
(** the registered set is walked by locale NAME: with locales [fr (default); en] the error is reported for "en" *)
Example fk_locale_order :
  run_unit [[102; 114]; [101; 110]] [[(k_a, JLeaf 1 [] [[k_a]])]; [(k_a, JLeaf 1 [] [[k_a]])]] = inr (ERecursiveFK 1 [k_a]).
Proof. vm_compute. reflexivity. Qed.

(** ** the code before the repair: two members whose names differ only by surrounding whitespace collapse into one key and
    the later one wins, so the result depends on the member order although no name is duplicated *)
Definition w_a : str := [97].            (* "a" *)
Definition w_sp_a : str := [32; 97].     (* " a" *)
Definition w_members : list (str * jv) := [(w_a, JLeaf 1 [[102]] []); (w_sp_a, JLeaf 2 [[115]] [])].

Lemma old_model_refuted :
  NoDup (map fst w_members) /\ Permutation w_members (rev w_members) /\ build_old w_members <> build_old (rev w_members).
Proof.
  split; [|split].
  - repeat constructor; cbn; intuition discriminate.
  - apply Permutation_rev.
  - vm_compute. discriminate.
Qed.
Lemma repaired_model_rejects : build w_members = None /\ build (rev w_members) = None.
Proof. split; vm_compute; reflexivity. Qed.

(** ** non-vacuity: a nested example *)
Definition ex_A : list (str * jv) :=
  [([98], JLeaf 1 [[120]; [121]] []); ([97], JObj [([107], JLeaf 2 [[121]] []); ([106], JNull)]); ([99], JLeaf 3 [] [])].
Definition ex_B : list (str * jv) :=
  [([97], JObj [([106], JNull); ([107], JLeaf 2 [[121]] [])]); ([99], JLeaf 3 [] []); ([98], JLeaf 1 [[120]; [121]] [])].
Example ex_perm : tperm (JObj ex_A) (JObj ex_B).
Proof.
  eapply (tp_obj _ [([98], JLeaf 1 [[120]; [121]] []); ([97], JObj [([106], JNull); ([107], JLeaf 2 [[121]] [])]); ([99], JLeaf 3 [] [])]).
  - repeat constructor. eapply tp_obj; [repeat constructor | apply perm_swap].
  - apply Permutation_cons_append.
Qed.
Example ex_build : build ex_A = Some [([97], TSub [([106], TNull); ([107], TLeaf 2 [[121]] [])]); ([98], TLeaf 1 [[120]; [121]] []); ([99], TLeaf 3 [] [])].
Proof. vm_compute. reflexivity. Qed.
Example ex_run :
  run_unit [[101; 110]; [102; 114]] [ex_B; [([97], JObj [([107], JLeaf 4 [[120]] [])]); ([100], JLeaf 5 [] [])]] =
  inr EExplicitDefaultInDefault.
Proof. vm_compute. reflexivity. Qed.
Example ex_run2 :
  match run_unit [[101; 110]; [102; 114]] [[([98], JLeaf 1 [[120]; [121]] []); ([97], JObj [([107], JLeaf 2 [[121]] [])])];
                  [([100], JLeaf 5 [[122]] []); ([97], JObj [([122], JLeaf 6 [] [])])]] with
  | inl o => o_tables o = [[[121]; [120]]; []] /\
             o_warnings o = [WMissing 1 [[97]; [107]]; WSurplus 1 [[97]; [122]]; WMissing 1 [[98]]; WSurplus 1 [[100]]]
  | inr _ => False
  end.
Proof. vm_compute. split; reflexivity. Qed.
