(** Executable correspondence predicates for C04, evaluated on harness-generated case files.
    A case holds the source description of the input and the implementation's observed outputs;
    [check_*] returns 0 agree + spec, 1 outside the modelled domain, 2 implementation differs from the
    model (spec holds on its output), 3 the spec is false on the implementation's output, 5 the implementation
    shows the pre-repair behaviour on a non-finite float bound (a C09 sighting, not a C04 verdict). *)
From Coq Require Import List NArith ZArith Bool.
Import ListNotations.
From LI Require Import Base.StrOps Parser.Ranges.
Open Scope Z_scope.

(* ---------------------------------------------------------------- equality on observations *)

Definition opt_eqb {A} (f : A -> A -> bool) (a b : option A) : bool :=
  match a, b with Some x, Some y => f x y | None, None => true | _, _ => false end.
Fixpoint list_eqb {A} (f : A -> A -> bool) (a b : list A) : bool :=
  match a, b with
  | [], [] => true
  | x :: xs, y :: ys => f x y && list_eqb f xs ys
  | _, _ => false
  end.
Definition bound_eqb (a b : bound) : bool :=
  match a, b with
  | Included x, Included y | Excluded x, Excluded y => num_same x y
  | Unbounded, Unbounded => true
  | _, _ => false
  end.
Fixpoint range_eqb (a b : range) : bool :=
  match a, b with
  | Exact x, Exact y => num_same x y
  | Bounds s e, Bounds s' e' => opt_eqb num_same s s' && bound_eqb e e'
  | Multiple l, Multiple l' =>
      (fix go (l l' : list range) : bool :=
         match l, l' with
         | [], [] => true
         | x :: xs, y :: ys => range_eqb x y && go xs ys
         | _, _ => false
         end) l l'
  | Fallback, Fallback => true
  | _, _ => false
  end.

(** error kinds; [strict] also compares the strings carried by the three Range::new errors *)
Definition err_eqb (strict : bool) (a b : err) : bool :=
  match a, b with
  | RangeParse s, RangeParse s' | InvalidBoundEnd s, InvalidBoundEnd s' | ImpossibleRange s, ImpossibleRange s' =>
      negb strict || str_eqb s s'
  | RangeNumberType, RangeNumberType | EmptyRange, EmptyRange | InvalidRangeType, InvalidRangeType
  | NestedRanges, NestedRanges | RangeSubkeys, RangeSubkeys | InvalidFallback, InvalidFallback
  | MultipleFallbacks, MultipleFallbacks | MissingFallback, MissingFallback
  | SerdeMissingField, SerdeMissingField | SerdeDuplicateField, SerdeDuplicateField
  | SerdeUnknownField, SerdeUnknownField | SerdeInvalidLength, SerdeInvalidLength
  | SerdeInvalidType, SerdeInvalidType | InvalidCountArg, InvalidCountArg
  | CountArgOutsideRange, CountArgOutsideRange | CountArgNoMatch, CountArgNoMatch => true
  | InvalidCountArgType f e, InvalidCountArgType f' e' => rtype_eqb f f' && rtype_eqb e e'
  | _, _ => false
  end.

Definition res_eqb {A} (strict : bool) (f : A -> A -> bool) (a b : res A) : bool :=
  match a, b with
  | Ok x, Ok y => f x y
  | Err e, Err e' => err_eqb strict e e'
  | Panic _, Panic _ => true
  | _, _ => false
  end.
Definition is_unmodelled {A} (r : res A) : bool := match r with Unmodelled => true | _ => false end.
Definition is_ok {A} (r : res A) : bool := match r with Ok _ => true | _ => false end.
Definition is_err {A} (r : res A) : bool := match r with Err _ => true | _ => false end.

(* ---------------------------------------------------------------- Range::new cases *)

Inductive nsrc := NAst (atoms : list atom) | NRaw (s : str).

Record ncase := mk_ncase {
  n_ty : rtype;
  n_tbl : ftable;                (* float numeral oracle *)
  n_src : nsrc;
  n_counts : list num;           (* counts of the type *)
  n_impl : res range;            (* Range::<T>::new *)
  n_native : list bool;          (* meaning of the parsed structure under Rust's == / RangeBounds::contains *)
  n_domatch : list bool }.       (* Range::do_match observed through populate_with_count_arg *)

Definition nsrc_string (s : nsrc) : str := match s with NAst a => print_spec a | NRaw s => s end.

Definition atoms_have_nan (atoms : list atom) : bool :=
  existsb (fun a => existsb (fun n => num_is_nan (numeral_val n)) (atom_numerals a)) atoms.

(** spec_C04, parsing part: a well-formed specification whose alternatives are all satisfiable in the
    type is accepted and the parsed structure means (natively, and for do_match) what the source
    means in Rust; one with an alternative that is empty by construction or a numeral outside the type
    is rejected with an error. do_match is compared on non-NaN inputs only. *)
Definition spec_C04_parse (t : rtype) (atoms : list atom) (counts : list num)
  (impl : res range) (native domatch : list bool) : bool :=
  if forallb (atom_ok t) atoms then
    is_ok impl
    && list_eqb Bool.eqb native (map (rsem atoms) counts)
    && (atoms_have_nan atoms
        || list_eqb Bool.eqb
             (map snd (filter (fun p => negb (num_is_nan (fst p))) (combine counts domatch)))
             (map (rsem atoms) (filter (fun x => negb (num_is_nan x)) counts)))
  else is_err impl.

Definition check_new (c : ncase) : N :=
  let t := n_ty c in
  let m := range_new t (n_tbl c) (nsrc_string (n_src c)) in
  if is_unmodelled m then 1%N else
  let wf := match n_src c with
            | NAst atoms => negb (match atoms with [] => true | _ => false end) && forallb (atom_wf t (n_tbl c)) atoms
            | NRaw _ => true
            end in
  if negb wf then 1%N else
  let spec_ok := match n_src c with
                 | NAst atoms => spec_C04_parse t atoms (n_counts c) (n_impl c) (n_native c) (n_domatch c)
                 | NRaw _ => match n_impl c with Panic _ => false | _ => true end
                 end in
  (* the implementation behaves exactly like the model before the non-finite repair, where that differs
     from the repaired model: a NaN / infinite float bound was accepted (C09, counted, not a C04 verdict) *)
  let m_old := range_new_nonfinite_old t (n_tbl c) (nsrc_string (n_src c)) in
  if negb (res_eqb true range_eqb m (n_impl c)) && res_eqb true range_eqb m_old (n_impl c) then 5%N else
  let agree := res_eqb true range_eqb m (n_impl c)
               && match m with
                  | Ok r => list_eqb Bool.eqb (n_native c) (map (pat_match r) (n_counts c))
                            && list_eqb Bool.eqb (n_domatch c) (map (do_match r) (n_counts c))
                  | _ => true
                  end in
  if negb spec_ok then 3%N else if negb agree then 2%N else 0%N.

(* ---------------------------------------------------------------- declaration cases *)

Definition ibranches := list (range * str).    (* parsed range, rendered value *)

Record dcase := mk_dcase {
  dc_decl : sdecl;
  dc_tbl : ftable;
  dc_counts : list count_arg;                       (* literal counts, in JSON *)
  dc_impl_parse : res (rtype * ibranches);          (* ParsedValueSeed on the JSON text *)
  dc_impl_static : list (res str);                  (* populate_with_count_arg + reduce, rendered *)
  dc_impl_native : list (option (option nat));      (* first branch natively containing the count; None: literal not of the type *)
  dc_impl_dyn : option (list (option (str * str))) }.
    (* generated code: (td_string!(.., count = n), Display of n in the declared type - oracle); inner None: not probed *)

(** the value of the literal in the declared type (the TryFrom / `as` guard) *)
Definition lit_value (t : rtype) (l : clit) : option num :=
  match count_of_lit t l with Ok v => Some v | _ => None end.

Definition ibranches_of (bs : branches) : ibranches := map (fun b => (fst b, render (snd b))) bs.
Definition ibranch_eqb (a b : range * str) : bool := range_eqb (fst a) (fst b) && str_eqb (snd a) (snd b).
Definition iparse_eqb (a b : rtype * ibranches) : bool :=
  rtype_eqb (fst a) (fst b) && list_eqb ibranch_eqb (snd a) (snd b).

(** integers are shown in decimal; for floats Display is an oracle *)
Definition disp_ok (a : count_arg) : bool :=
  match ca_lit a with
  | LU z | LI z => str_eqb (ca_disp a) (print_Z z)
  | _ => true
  end.

(** spec_C04 for one literal count [a] of a declaration with source branches [bs]:
    [static] what populate_with_count_arg produced, [native] the first branch natively containing
    the count, [dyn] what the generated code rendered at run time with the same count. *)
Definition spec_C04_count (t : rtype) (bs : list sbranch) (a : count_arg)
  (static : res str) (native : option (option nat)) (dyn : option (str * str)) : bool :=
  match lit_value t (ca_lit a) with
  | Some (Some k) =>
      let x := Some k in
      match first_matching t bs x with
      | Some (Some i) =>
          match nth_error bs i with
          | Some b =>
              let txt := render (populate (ca_disp a) (sb_value b)) in
              disp_ok a
              && res_eqb false str_eqb static (Ok txt)
              && opt_eqb (opt_eqb Nat.eqb) native (Some (Some i))
              && match dyn with
                 | Some (d, disp) => str_eqb d (render (populate disp (sb_value b)))
                 | None => true
                 end
          | None => false
          end
      | Some None => opt_eqb (opt_eqb Nat.eqb) native (Some None)
                     && match static with Ok _ => false | _ => true end
                     && match dyn with Some _ => false | None => true end
      | None => true
      end
  | _ => true
  end.

Fixpoint zip4 {A B C D} (a : list A) (b : list B) (c : list C) (d : list D) : list (A * B * C * D) :=
  match a, b, c, d with
  | x :: a, y :: b, z :: c, w :: d => (x, y, z, w) :: zip4 a b c d
  | _, _, _, _ => []
  end.

Definition spec_C04 (d : sdecl) (counts : list count_arg) (parse : res (rtype * ibranches))
  (static : list (res str)) (native : list (option (option nat))) (dyn : list (option (str * str))) : bool :=
  match parse with
  | Ok (t, _) =>
      rtype_eqb t (sdecl_type d)
      && forallb (fun q => match q with (a, s, n, y) => spec_C04_count t (sd_branches d) a s n y end)
           (zip4 counts static native dyn)
  | Panic _ => false
  | _ => true
  end.

Definition static_eqb (m : res static_result) (i : res str) : bool :=
  match m, i with
  | Ok (SValue v), Ok s => str_eqb (render v) s
  | Ok (SRanges _ _), Ok _ => true          (* variable count: compared by the caller only for presence *)
  | Err e, Err e' => err_eqb false e e'
  (* no branch matches a literal count: `unreachable!` before the repair (C09), an error after it *)
  | Err CountArgNoMatch, Panic _ => true
  | _, _ => false
  end.

Fixpoint sdecl_wf_count (t : rtype) (tbl : ftable) (c : csrc) : bool :=
  match c with
  | SStr atoms => negb (match atoms with [] => true | _ => false end) && forallb (atom_wf t tbl) atoms
  | SRaw _ => true
  | SNum _ => true
  | SArr l => forallb (sdecl_wf_count t tbl) l
  end.
Definition sdecl_wf (tbl : ftable) (d : sdecl) : bool :=
  match sd_type d with Some (l, _, r) => all_ws l && all_ws r | None => true end
  && forallb (fun b => match sb_count b with Some c => sdecl_wf_count (sdecl_type d) tbl c | None => true end)
       (sd_branches d).

Definition check_decl (c : dcase) : N :=
  let d := dc_decl c in
  let m := parse_decl (dc_tbl c) (sdecl_json d) in
  if is_unmodelled m || negb (sdecl_wf (dc_tbl c) d) then 1%N else
  (* pre-repair behaviour on non-finite float bounds (accepted, code generation would panic): C09, counted *)
  let m_old := parse_decl_nonfinite_old (dc_tbl c) (sdecl_json d) in
  let obs := fun (m : res (rtype * branches)) => rmap (fun p => (fst p, ibranches_of (snd p))) m in
  if negb (res_eqb false iparse_eqb (obs m) (dc_impl_parse c)) && res_eqb false iparse_eqb (obs m_old) (dc_impl_parse c)
  then 5%N else
  let dyn := match dc_impl_dyn c with Some l => l | None => map (fun _ => None) (dc_counts c) end in
  let spec_ok := spec_C04 d (dc_counts c) (dc_impl_parse c) (dc_impl_static c) (dc_impl_native c) dyn in
  let agree_parse := res_eqb false iparse_eqb (rmap (fun p => (fst p, ibranches_of (snd p))) m) (dc_impl_parse c) in
  let agree_counts :=
    match m with
    | Ok (t, bs) =>
        (length (dc_impl_static c) =? length (dc_counts c))%nat
        && (length (dc_impl_native c) =? length (dc_counts c))%nat
        && (length dyn =? length (dc_counts c))%nat
        && forallb (fun q => match q with (a, s, n, y) =>
             let ms := populate_with_count_arg t bs a in
             is_unmodelled ms
             || (static_eqb ms s
                 && match lit_value t (ca_lit a) with
                    | Some x => opt_eqb (opt_eqb Nat.eqb) n (Some (gen_match bs x))   (* structure meaning *)
                                && match y, gen_select t bs x with
                                   | Some (txt, disp), Some i => match nth_error bs i with
                                                         | Some b => str_eqb txt (render (populate disp (snd b)))
                                                         | None => false
                                                         end
                                   | Some _, None => false
                                   | None, _ => true
                                   end
                    | None => true
                    end) end)
             (zip4 (dc_counts c) (dc_impl_static c) (dc_impl_native c) dyn)
    | _ => true
    end in
  if negb spec_ok then 3%N else if negb (agree_parse && agree_counts) then 2%N else 0%N.

(** counts for exhaustive 8-bit sweeps, as JSON would type them (non-negative -> Unsigned) *)
Definition lit_of_Z (z : Z) : count_arg := mk_count_arg (if z <? 0 then LI z else LU z) (print_Z z).
Definition all_counts (lo : Z) (n : nat) : list count_arg := map (fun i => lit_of_Z (lo + Z.of_nat i)) (seq 0 n).
