(** Executable correspondence predicate for foreign-key resolution (property C06). *)
From Coq Require Import List NArith ZArith Bool Arith.
Import ListNotations.
From LI Require Import Base.StrOps Parser.Parse Parser.Json Parser.Reduce Parser.Source Parser.ParseCheck Parser.Foreign.
Open Scope N_scope.

Definition entry := (option str * str * list str * option pv)%type.   (* namespace, locale, key path, final value (None = explicit default) *)

Record fcase := mk_fcase {
  f_default : str;
  f_inherits : list (str * str);
  f_files : list (option str * str * list (str * jnode));          (* (namespace, locale, members in file order) *)
  f_src : list (option str * str * list str * option (list xitem)); (* source AST written at (ns, locale, path); None = null *)
  f_expect : option N;                                              (* None: must load; Some k: must be rejected with error kind k *)
  f_impl : res (list entry) }.

(** group the files into LocalesOrNamespaces (namespaces in first-appearance order) *)
Fixpoint add_ns (ns : str) (l : str) (m : kmap) (acc : list (str * list (str * kmap))) : list (str * list (str * kmap)) :=
  match acc with
  | [] => [(ns, [(l, m)])]
  | (n, ls) :: r => if str_eqb n ns then (n, ls ++ [(l, m)]) :: r else (n, ls) :: add_ns ns l m r
  end.
Definition build_values (files : list (option str * str * list (str * jnode))) : res values :=
  fold_left (fun acc '(ns, l, ms) =>
    bind acc (fun v =>
    bind (build_kmap model_parse ms) (fun m =>
    match ns, v with
    | None, VLocales ls => Ok (VLocales (ls ++ [(l, m)]))
    | Some n, VNamespaces nss => Ok (VNamespaces (add_ns n l m nss))
    | Some n, VLocales [] => Ok (VNamespaces [(n, [(l, m)])])
    | _, _ => Unmodelled
    end))) files (Ok (VLocales [])).

Definition all_leaves (v : values) : list (option str * str * list str * node) :=
  match v with
  | VLocales ls => flat_map (fun '(l, m) => map (fun '(p, n) => (None, l, p, n)) (leaves m)) ls
  | VNamespaces nss =>
      flat_map (fun '(ns, ls) => flat_map (fun '(l, m) => map (fun '(p, n) => (Some ns, l, p, n)) (leaves m)) ls) nss
  end.

(** order of the BTreeSet<(Key, KeyPath)> driving the resolution: locale, then namespace (None first), then path *)
Fixpoint strs_ltb (a b : list str) : bool :=
  match a, b with
  | _, [] => false
  | [], _ :: _ => true
  | x :: xs, y :: ys => if str_ltb x y then true else if str_ltb y x then false else strs_ltb xs ys
  end.
Definition reg_ltb (a b : option str * str * list str * node) : bool :=
  let '(ns1, l1, p1, _) := a in let '(ns2, l2, p2, _) := b in
  if str_ltb l1 l2 then true else if str_ltb l2 l1 then false
  else match ns1, ns2 with
       | None, Some _ => true
       | Some _, None => false
       | Some x, Some y => if str_ltb x y then true else if str_ltb y x then false else strs_ltb p1 p2
       | None, None => strs_ltb p1 p2
       end.
Fixpoint ins_sorted (x : option str * str * list str * node) (l : list (option str * str * list str * node)) :=
  match l with [] => [x] | y :: r => if reg_ltb x y then x :: l else y :: ins_sorted x r end.
Definition sort_reg l := fold_right ins_sorted [] l.

Definition node_has_foreign (n : node) : bool := match n with NVal v => has_foreign v | _ => false end.

(** the model of the whole step: Err = the first error in the driver's order *)
Definition model_project (c : fcase) : res (list entry) :=
  bind (build_values (f_files c)) (fun vals =>
  let lv := all_leaves vals in
  let reg := sort_reg (filter (fun '(_, _, _, n) => node_has_foreign n) lv) in
  let run := fun '(ns, l, p, n) => final_value vals (f_default c) (f_inherits c) ns l p n in
  (* errors in driver order first *)
  bind (fold_left (fun acc e => bind acc (fun _ => bind (run e) (fun _ => Ok tt))) reg (Ok tt)) (fun _ =>
  fold_right (fun '(ns, l, p, n) acc => bind (run (ns, l, p, n)) (fun v => bind acc (fun r => Ok ((ns, l, p, v) :: r)))) (Ok []) lv)).

Definition entry_key_eqb (a b : option str * str * list str) : bool :=
  let '(n1, l1, p1) := a in let '(n2, l2, p2) := b in opt_str_eqb n1 n2 && str_eqb l1 l2 && strs_eqb p1 p2.
Fixpoint find_entry (k : option str * str * list str) (l : list entry) : option (option pv) :=
  match l with
  | [] => None
  | (n, lo, p, v) :: r => if entry_key_eqb k (n, lo, p) then Some v else find_entry k r
  end.
Definition optpv_eqb (a b : option pv) : bool :=
  match a, b with Some x, Some y => pv_eqb x y | None, None => true | _, _ => false end.

Definition src_lookup (srcs : list (option str * str * list str * option (list xitem))) (L : str) (p : keypath) : option (option (list xitem)) :=
  let fix go l := match l with
    | [] => None
    | (n, lo, pa, s) :: r => if entry_key_eqb (fst p, L, snd p) (n, lo, pa) then Some s else go r
    end in go srcs.

(** the property evaluated on the implementation's final values *)
Definition spec_C06 (c : fcase) : bool :=
  match f_expect c, f_impl c with
  | Some k, Err k' => k =? k'
  | Some _, _ => false
  | None, Ok impl =>
      forallb (fun '(ns, l, p, s) =>
        match s with
        | None => true
        | Some items =>
            match xdenote (src_lookup (f_src c)) (f_default c) (f_inherits c) 40 l items, find_entry (ns, l, p) impl with
            | Some d, Some (Some v) => pieces_eqb (pieces v) (pc_norm d)
            | None, _ => true          (* the source semantics is undefined (cannot happen for generated valid projects) *)
            | _, _ => false
            end
        end) (f_src c)
  | None, _ => false
  end.

Definition agree (c : fcase) (m : res (list entry)) : bool :=
  match m, f_impl c with
  | Ok ml, Ok il =>
      (* explicit defaults are C03's business (a null group is expanded per leaf by the merge): compare defined values *)
      let defined (l : list entry) := filter (fun '(_, _, _, v) => match v with Some _ => true | None => false end) l in
      Nat.eqb (length (defined ml)) (length (defined il))
      && forallb (fun '(n, l, p, v) => match find_entry (n, l, p) ml with Some v' => optpv_eqb v v' | None => false end) (defined il)
  | Err a, Err b => a =? b
  | _, _ => false
  end.

Definition check_C06 (c : fcase) : N :=
  if negb (spec_C06 c) then 3
  else match model_project c with
       | Unmodelled | OutOfFuel => 1
       | m => if agree c m then 0 else 2
       end.
