(** Declaration level (serde entry): every range the repaired parser accepts has finite bounds, so code
    generation cannot panic on it (C09), and the parsed branches mean what the source declaration means,
    which gives the bridge theorem for RangesCheck.spec_C04 (C04). *)
From Coq Require Import List NArith ZArith Bool Lia.
Import ListNotations.
From LI Require Import Base.StrOps Parser.Ranges Parser.RangesProofs Parser.RangesParseProofs Parser.RangesCheck.
Open Scope Z_scope.

(* ================================================================== induction principles *)

Section JcountInd.
  Variable P : jcount -> Prop.
  Hypothesis HS : forall s, P (CStr s).
  Hypothesis HN : forall n, P (CNum n).
  Hypothesis HA : forall l, Forall P l -> P (CArr l).
  Hypothesis HO : P COther.
  Fixpoint jcount_ind' (c : jcount) : P c :=
    match c with
    | CStr s => HS s
    | CNum n => HN n
    | CArr l => HA l ((fix go (l : list jcount) : Forall P l :=
                         match l with
                         | [] => Forall_nil P
                         | x :: t => Forall_cons x (jcount_ind' x) (go t)
                         end) l)
    | COther => HO
    end.
End JcountInd.

Section CsrcInd.
  Variable P : csrc -> Prop.
  Hypothesis HS : forall a, P (SStr a).
  Hypothesis HR : forall s, P (SRaw s).
  Hypothesis HN : forall n, P (SNum n).
  Hypothesis HA : forall l, Forall P l -> P (SArr l).
  Fixpoint csrc_ind' (c : csrc) : P c :=
    match c with
    | SStr a => HS a
    | SRaw s => HR s
    | SNum n => HN n
    | SArr l => HA l ((fix go (l : list csrc) : Forall P l :=
                         match l with
                         | [] => Forall_nil P
                         | x :: t => Forall_cons x (csrc_ind' x) (go t)
                         end) l)
    end.
End CsrcInd.

(* ================================================================== unfolding parse_count *)

Lemma parse_count_arr t tbl first rest :
  parse_count t tbl (CArr (first :: rest)) =
  bind (parse_count t tbl first) (fun f =>
  bind (collect (parse_count t tbl) rest) (fun rs =>
  match rs with [] => Ok f | _ => Ok (Multiple (rs ++ [f])) end)).
Proof.
  unfold parse_count. cbn [parse_count_g].
  destruct (parse_count_g true t tbl first) as [f| | |]; cbn [bind]; try reflexivity.
  match goal with |- bind ?G _ = _ => assert (G = collect (parse_count_g true t tbl) rest) as -> end; [|reflexivity].
  induction rest as [|c r IH]; [reflexivity|]. cbn [collect]. now rewrite IH.
Qed.
Lemma parse_count_nil t tbl : parse_count t tbl (CArr []) = Ok Fallback.
Proof. reflexivity. Qed.
Lemma parse_count_str t tbl s : parse_count t tbl (CStr s) = range_new t tbl s.
Proof. reflexivity. Qed.
Lemma parse_count_num t tbl n : parse_count t tbl (CNum n) = from_jnum t n.
Proof. reflexivity. Qed.

Lemma collect_Forall2 {A B} (f : A -> res B) l rs : collect f l = Ok rs -> Forall2 (fun a r => f a = Ok r) l rs.
Proof.
  revert rs; induction l as [|a l IH]; intros rs H; cbn [collect] in H.
  - injection H as <-. constructor.
  - destruct (f a) as [b| | |] eqn:E; cbn [bind] in H; try discriminate.
    destruct (collect f l) as [bs| | |]; cbn [bind] in H; try discriminate.
    injection H as <-. constructor; [assumption|]. now apply IH.
Qed.

(* ================================================================== finiteness of accepted bounds *)

Definition range_finite (t : rtype) (r : range) : bool := forallb (num_finite t) (range_nums r).

Lemma range_finite_Multiple t l : range_finite t (Multiple l) = forallb (range_finite t) l.
Proof.
  unfold range_finite. cbn [range_nums]. induction l as [|x l IH]; cbn [flat_map forallb]; [reflexivity|].
  now rewrite forallb_app, IH.
Qed.
Lemma range_finite_flatten t l : forallb (range_finite t) l = true -> range_finite t (flatten (Multiple l)) = true.
Proof. intros H. cbn [flatten]. destruct (existsb is_fallback l); [reflexivity|]. now rewrite range_finite_Multiple. Qed.

Lemma num_finite_nonan t v : num_finite t v = true -> num_is_nan v = false.
Proof. destruct v; [reflexivity|discriminate]. Qed.
Lemma range_finite_nonan t r : range_finite t r = true -> range_no_nan r = true.
Proof.
  unfold range_finite, range_no_nan. induction (range_nums r) as [|v l IH]; [reflexivity|]. cbn [forallb].
  intros H. apply andb_true_iff in H as [H1 H2]. now rewrite (num_finite_nonan t v H1), (IH H2).
Qed.

Lemma parse_num_finite t tbl s v : parse_num t tbl s = Ok v -> num_finite t v = true.
Proof.
  unfold parse_num, parse_num_g. destruct (ty_is_float t) eqn:Ef.
  - destruct (flookup tbl s) as [[w|]|]; try discriminate. cbn [negb orb].
    destruct (num_finite t w) eqn:E; [|discriminate]. now intros [= <-].
  - destruct (parse_int t s); [|discriminate]. intros [= <-]. unfold num_finite. now rewrite Ef.
Qed.

Lemma range_end_bound_finite t v b : num_finite t v = true -> range_end_bound t v = Some b ->
  match b with Included e | Excluded e => num_finite t e = true | Unbounded => True end.
Proof.
  unfold range_end_bound. destruct (ty_is_float t) eqn:Ef.
  - intros H [= <-]. exact H.
  - destruct v as [z|]; [|discriminate]. destruct (ty_min t <=? z - 1); [|discriminate].
    intros _ [= <-]. unfold num_finite. now rewrite Ef.
Qed.

Lemma range_new_bounds_finite t tbl s r : range_new_bounds t tbl s = Ok r -> range_finite t r = true.
Proof.
  unfold range_new_bounds, range_new_bounds_g. change (parse_num_g true) with parse_num.
  destruct (split_once s_dotdot s) as [[st e]|].
  - cbv zeta.
    assert (Hstart : forall o, (if is_empty (trim st) then Ok None else rmap Some (parse_num t tbl (trim st))) = Ok o ->
                               match o with Some v => num_finite t v = true | None => True end).
    { intros o. destruct (is_empty (trim st)); [intros [= <-]; exact I|].
      destruct (parse_num t tbl (trim st)) as [v| | |] eqn:E; cbn; try discriminate.
      intros [= <-]. eapply parse_num_finite; eassumption. }
    destruct (if is_empty (trim st) then Ok None else rmap Some (parse_num t tbl (trim st))) as [o| | |];
      cbn [bind]; try discriminate.
    specialize (Hstart o eq_refl).
    assert (Hend : forall b,
      (if is_empty (trim e) then Ok Unbounded
       else match strip_prefix [c_eq] (trim e) with
            | Some e' => rmap Included (parse_num t tbl (trim_start e'))
            | None => bind (parse_num t tbl (trim e)) (fun v =>
                        match range_end_bound t v with Some b => Ok b | None => Err (InvalidBoundEnd s) end)
            end) = Ok b ->
      match b with Included x | Excluded x => num_finite t x = true | Unbounded => True end).
    { intros b. destruct (is_empty (trim e)); [intros [= <-]; exact I|].
      destruct (strip_prefix [c_eq] (trim e)) as [e'|].
      - destruct (parse_num t tbl (trim_start e')) as [v| | |] eqn:E; cbn; try discriminate.
        intros [= <-]. eapply parse_num_finite; eassumption.
      - destruct (parse_num t tbl (trim e)) as [v| | |] eqn:E; cbn [bind]; try discriminate.
        destruct (range_end_bound t v) as [b'|] eqn:Eb; [|discriminate]. intros [= <-].
        eapply range_end_bound_finite; [eapply parse_num_finite|]; eassumption. }
    match goal with |- bind ?X _ = _ -> _ => destruct X as [b| | |]; cbn [bind]; try discriminate end.
    specialize (Hend b eq_refl).
    intros H.
    assert (r = Bounds o b) as ->.
    { destruct o as [so|]; [|now injection H as <-].
      destruct b as [x|x|]; [destruct (num_ltb x so)|destruct (num_leb x so)|]; try discriminate; now injection H as <-. }
    unfold range_finite.
    destruct o as [so|], b as [x|x|]; cbn [range_nums app forallb]; rewrite ?Hstart, ?Hend; reflexivity.
  - destruct (parse_num t tbl s) as [v| | |] eqn:E; cbn; try discriminate.
    intros [= <-]. unfold range_finite. cbn. now rewrite (parse_num_finite t tbl s v E).
Qed.

Lemma range_new_piece_finite t tbl s r : range_new_piece t tbl s = Ok r -> range_finite t r = true.
Proof.
  unfold range_new_piece, range_new_piece_g. change (range_new_bounds_g true) with range_new_bounds.
  destruct (str_fallback (trim s)); [now intros [= <-]|]. apply range_new_bounds_finite.
Qed.

Lemma collect_finite {A} t (f : A -> res range) l rs :
  (forall a r, In a l -> f a = Ok r -> range_finite t r = true) -> collect f l = Ok rs ->
  forallb (range_finite t) rs = true.
Proof.
  intros Hf H. apply collect_Forall2 in H. induction H as [|a r l rs Ha _ IH]; [reflexivity|].
  cbn [forallb]. rewrite (Hf a r (or_introl eq_refl) Ha), IH; [reflexivity|].
  intros; eapply Hf; [right|]; eassumption.
Qed.

Lemma range_new_finite t tbl s r : range_new t tbl s = Ok r -> range_finite t r = true.
Proof.
  unfold range_new, range_new_g. change (range_new_bounds_g true) with range_new_bounds.
  change (range_new_piece_g true) with range_new_piece.
  destruct (str_fallback (trim s)); [now intros [= <-]|].
  destruct (existsb (N.eqb c_pipe) (trim s)); [|apply range_new_bounds_finite].
  destruct (collect (range_new_piece t tbl) (split_all c_pipe (trim s))) as [l| | |] eqn:E; cbn [bind]; try discriminate.
  intros [= <-]. apply range_finite_flatten. eapply collect_finite; [|eassumption].
  intros a x _. apply range_new_piece_finite.
Qed.

Lemma from_jnum_finite t n r : from_jnum t n = Ok r -> range_finite t r = true.
Proof.
  unfold from_jnum, from_jnum_g, range_finite. cbn [negb orb].
  destruct n as [z fv|z fv|fv]; destruct (ty_is_float t) eqn:Ef;
    try (destruct (num_finite t fv) eqn:E; [|discriminate]; intros [= <-]; cbn; now rewrite E);
    try discriminate;
    (destruct (in_ty t z); [|discriminate]; intros [= <-]; cbn; unfold num_finite; now rewrite Ef).
Qed.

Lemma parse_count_finite t tbl c : forall r, parse_count t tbl c = Ok r -> range_finite t r = true.
Proof.
  induction c as [s|n|l IH|] using jcount_ind'; intros r.
  - rewrite parse_count_str. apply range_new_finite.
  - rewrite parse_count_num. apply from_jnum_finite.
  - destruct l as [|first rest]; [now intros [= <-]|]. rewrite parse_count_arr.
    inversion IH as [|? ? Hf Hr]; subst.
    destruct (parse_count t tbl first) as [f| | |]; cbn [bind]; try discriminate.
    destruct (collect (parse_count t tbl) rest) as [rs| | |] eqn:E; cbn [bind]; try discriminate.
    assert (forallb (range_finite t) rs = true) as Hrs.
    { eapply collect_finite; [|eassumption]. intros a x Ha. rewrite Forall_forall in Hr. now apply Hr. }
    destruct rs as [|r0 rs']; intros [= <-]; [now apply Hf|].
    rewrite range_finite_Multiple. change (r0 :: rs' ++ [f]) with ((r0 :: rs') ++ [f]).
    rewrite forallb_app, Hrs. cbn [forallb]. now rewrite (Hf f eq_refl).
  - discriminate.
Qed.

Lemma parse_fields_finite t tbl fs : forall ro vo r v,
  (match ro with Some r0 => range_finite t r0 = true | None => True end) ->
  parse_fields t tbl fs ro vo = Ok (r, v) -> range_finite t r = true.
Proof.
  unfold parse_fields. induction fs as [|f fs IH]; intros ro vo r v Hro; cbn [parse_fields_g].
  - destruct vo; [|discriminate]. intros [= <- _]. destruct ro; [assumption|reflexivity].
  - destruct f as [c|jv|].
    + change (parse_count_g true t tbl c) with (parse_count t tbl c).
      destruct (parse_count t tbl c) as [x| | |] eqn:E; cbn [bind]; try discriminate.
      destruct ro; [discriminate|]. apply IH. eapply parse_count_finite; eassumption.
    + destruct (parse_value jv); cbn [bind]; try discriminate. destruct vo; [discriminate|]. now apply IH.
    + discriminate.
Qed.

Lemma parse_branch_finite t tbl b r v : parse_branch t tbl b = Ok (r, v) -> range_finite t r = true.
Proof.
  unfold parse_branch, parse_branch_g. destruct b as [jv counts| |fs|]; try discriminate.
  - destruct (parse_value jv); cbn [bind]; try discriminate.
    change (parse_count_seq_g true t tbl counts) with (parse_count t tbl (CArr counts)).
    destruct (parse_count t tbl (CArr counts)) as [x| | |] eqn:E; cbn [bind]; try discriminate.
    intros [= <- _]. eapply parse_count_finite; eassumption.
  - apply (parse_fields_finite t tbl fs None None). exact I.
Qed.

(** decomposition of an accepted declaration *)
Lemma parse_decl_with_inv chk tbl d t bs : parse_decl_with chk tbl d = Ok (t, bs) ->
  chk t bs = Ok tt /\
  ((exists s, d_first d = FirstType s /\ type_of_string s = Some t
              /\ collect (parse_branch t tbl) (d_rest d) = Ok bs)
   \/ (exists b x rest, d_first d = FirstBranch b /\ t = I32 /\ parse_branch I32 tbl b = Ok x
                        /\ collect (parse_branch I32 tbl) (d_rest d) = Ok rest /\ bs = x :: rest)).
Proof.
  unfold parse_decl_with, parse_decl_with_g. change (parse_branch_g true) with parse_branch.
  destruct (d_first d) as [|s|b|]; cbn [bind]; try discriminate.
  - destruct (type_of_string s) as [t0|] eqn:Et; cbn [bind]; try discriminate.
    destruct (collect (parse_branch t0 tbl) (d_rest d)) as [rest| | |] eqn:Ec; cbn [bind app]; try discriminate.
    destruct rest as [|r0 rest']; [discriminate|].
    destruct (chk t0 (r0 :: rest')) as [[]| | |] eqn:Ek; cbn [bind]; try discriminate.
    intros [= <- <-]. split; [assumption|]. left. eauto.
  - destruct (parse_branch I32 tbl b) as [x| | |] eqn:Eb; cbn [bind]; try discriminate.
    destruct (collect (parse_branch I32 tbl) (d_rest d)) as [rest| | |] eqn:Ec; cbn [bind app]; try discriminate.
    destruct (chk I32 (x :: rest)) as [[]| | |] eqn:Ek; cbn [bind]; try discriminate.
    intros [= <- <-]. split; [assumption|]. right. exists b, x, rest. auto.
Qed.

Lemma collect_branches_finite t tbl l bs : collect (parse_branch t tbl) l = Ok bs ->
  forallb (fun b => range_finite t (fst b)) bs = true.
Proof.
  intros H. apply collect_Forall2 in H. induction H as [|a [r v] l bs Ha _ IH]; [reflexivity|].
  cbn [forallb fst]. now rewrite (parse_branch_finite t tbl a r v Ha), IH.
Qed.

Theorem parse_decl_finite tbl d t bs : parse_decl tbl d = Ok (t, bs) ->
  forallb (fun b => range_finite t (fst b)) bs = true.
Proof.
  intros H. apply parse_decl_with_inv in H as [_ [(s & _ & _ & Hc)|(b & [r v] & rest & _ & -> & Hb & Hc & ->)]].
  - eapply collect_branches_finite; eassumption.
  - cbn [forallb fst]. rewrite (parse_branch_finite _ _ _ _ _ Hb). eapply collect_branches_finite; eassumption.
Qed.

(** C09: code generation never meets a non-finite float in a declaration the repaired parser accepted *)
Theorem codegen_never_panics tbl d t bs : parse_decl tbl d = Ok (t, bs) -> codegen t bs = Ok tt.
Proof.
  intros H. pose proof (parse_decl_finite tbl d t bs H) as Hf. unfold range_finite in Hf.
  unfold codegen. now rewrite Hf.
Qed.

Theorem parse_decl_no_nan tbl d t bs : parse_decl tbl d = Ok (t, bs) -> branches_no_nan bs = true.
Proof.
  intros H. apply parse_decl_finite in H. unfold branches_no_nan.
  induction bs as [|b bs IH]; [reflexivity|]. cbn [forallb] in *. apply andb_true_iff in H as [H1 H2].
  now rewrite (range_finite_nonan t _ H1), (IH H2).
Qed.

(** before the repair: "inf" and 1e39-as-f32 were accepted and the code generator panicked *)
Definition w_inf_tbl : ftable := [([105; 110; 102]%N, Some (Some 9218868437227405312))].
Lemma nonfinite_old_panics :
  range_new_nonfinite_old F64 w_inf_tbl [105; 110; 102]%N = Ok (Exact (Some 9218868437227405312))
  /\ range_new F64 w_inf_tbl [105; 110; 102]%N = Err (RangeParse [105; 110; 102]%N)
  /\ (let d := mk_jdecl (FirstType [102; 51; 50]%N)
                 [BSeq (VText [PLit [97%N]]) [CNum (JF (Some 2139095040))]; BSeq (VText [PLit [98%N]]) []] in
      (exists bs, parse_decl_nonfinite_old [] d = Ok (F32, bs) /\ codegen F32 bs = Panic SiteCodegenFloat)
      /\ parse_decl [] d = Err RangeNumberType).
Proof.
  split; [vm_compute; reflexivity|]. split; [vm_compute; reflexivity|]. split.
  - exists [(Exact (Some 2139095040), [PLit [97%N]]); (Fallback, [PLit [98%N]])].
    split; vm_compute; reflexivity.
  - vm_compute. reflexivity.
Qed.

(* ================================================================== meaning of parsed counts *)

Lemma range_new_sem t tbl atoms r :
  atoms <> [] -> forallb (atom_wf t tbl) atoms = true -> range_new t tbl (print_spec atoms) = Ok r ->
  forall x, pat_match r x = rsem atoms x.
Proof.
  intros Hn Hw Hr. destruct (forallb (atom_ok t) atoms) eqn:E.
  - destruct (parse_sem_ok t tbl atoms Hn Hw E) as (r' & Hr' & Hp & _). congruence.
  - destruct (parse_sem_err t tbl atoms Hn Hw E) as (e & He). congruence.
Qed.

Lemma from_jnum_val t n r : from_jnum t n = Ok r -> r = Exact (jnum_val t n).
Proof.
  unfold from_jnum, from_jnum_g, jnum_val. cbn [negb orb].
  destruct n as [z fv|z fv|fv]; destruct (ty_is_float t);
    try (destruct (num_finite t fv); [|discriminate]; now intros [= <-]);
    try discriminate; (destruct (in_ty t z); [|discriminate]; now intros [= <-]).
Qed.

Fixpoint csem_list (t : rtype) (l : list csrc) (x : num) : option bool :=
  match l with
  | [] => Some false
  | c :: r => match csem t c x, csem_list t r x with
              | Some a, Some b => Some (a || b)
              | _, _ => None
              end
  end.
Lemma csem_go t x l :
  (fix go (l : list csrc) : option bool :=
     match l with
     | [] => Some false
     | c :: r => match csem t c x, go r with
                 | Some a, Some b => Some (a || b)
                 | _, _ => None
                 end
     end) l = csem_list t l x.
Proof. induction l as [|c l IH]; [reflexivity|]. cbn [csem_list]. rewrite <- IH. reflexivity. Qed.
Lemma csem_arr t l x : l <> [] -> csem t (SArr l) x = csem_list t l x.
Proof. destruct l as [|c l]; [congruence|]. intros _. exact (csem_go t x (c :: l)). Qed.

Lemma parse_count_single t tbl c r : parse_count t tbl (CArr [c]) = Ok r -> parse_count t tbl c = Ok r.
Proof.
  rewrite parse_count_arr. destruct (parse_count t tbl c); cbn [bind collect]; try discriminate. now intros [= <-].
Qed.

Lemma csrc_sem t tbl c : sdecl_wf_count t tbl c = true ->
  forall r x b, parse_count t tbl (csrc_json c) = Ok r -> csem t c x = Some b -> pat_match r x = b.
Proof.
  induction c as [atoms|s|n|l IH] using csrc_ind'; intros Hw r x b Hr Hc.
  - cbn [sdecl_wf_count] in Hw. apply andb_true_iff in Hw as [Hn Hw].
    cbn [csrc_json] in Hr. rewrite parse_count_str in Hr. cbn [csem] in Hc. injection Hc as <-.
    apply (range_new_sem t tbl); try assumption. intros ->. discriminate.
  - discriminate.
  - cbn [csrc_json] in Hr. rewrite parse_count_num in Hr. apply from_jnum_val in Hr as ->.
    cbn [csem] in Hc. injection Hc as <-. reflexivity.
  - destruct l as [|c rest].
    + cbn in Hr, Hc. injection Hr as <-. injection Hc as <-. reflexivity.
    + rewrite csem_arr in Hc by discriminate. cbn [csem_list] in Hc.
      cbn [csrc_json map] in Hr. rewrite parse_count_arr in Hr.
      cbn [sdecl_wf_count forallb] in Hw. apply andb_true_iff in Hw as [Hwc Hwr].
      inversion IH as [|? ? IHc IHr]; subst.
      destruct (parse_count t tbl (csrc_json c)) as [f| | |] eqn:Ef; cbn [bind] in Hr; try discriminate.
      destruct (collect (parse_count t tbl) (map csrc_json rest)) as [rs| | |] eqn:Ers; cbn [bind] in Hr; try discriminate.
      destruct (csem t c x) as [a|] eqn:Ea; [|discriminate].
      destruct (csem_list t rest x) as [b'|] eqn:Eb; [|discriminate]. injection Hc as <-.
      pose proof (IHc Hwc f x a eq_refl Ea) as Hf.
      assert (existsb (fun r => pat_match r x) rs = b') as Hrs.
      { clear -IHr Hwr Ers Eb. revert rs b' Ers Eb. induction rest as [|c0 rest IH]; intros rs b' Ers Eb.
        - cbn in Ers, Eb. injection Ers as <-. injection Eb as <-. reflexivity.
        - cbn [map collect] in Ers. cbn [csem_list] in Eb. cbn [forallb] in Hwr. apply andb_true_iff in Hwr as [W1 W2].
          inversion IHr as [|? ? I1 I2]; subst.
          destruct (parse_count t tbl (csrc_json c0)) as [r0| | |] eqn:E0; cbn [bind] in Ers; try discriminate.
          destruct (collect (parse_count t tbl) (map csrc_json rest)) as [rs0| | |] eqn:E1; cbn [bind] in Ers; try discriminate.
          injection Ers as <-.
          destruct (csem t c0 x) as [a0|] eqn:Ea0; [|discriminate].
          destruct (csem_list t rest x) as [b0|] eqn:Eb0; [|discriminate]. injection Eb as <-.
          cbn [existsb]. rewrite (I1 W1 r0 x a0 eq_refl Ea0), (IH W2 I2 rs0 b0 eq_refl eq_refl). reflexivity. }
      destruct rs as [|r0 rs']; injection Hr as <-.
      * cbn in Hrs. subst b'. now rewrite orb_false_r.
      * cbn [pat_match]. change (r0 :: rs' ++ [f]) with ((r0 :: rs') ++ [f]).
        rewrite existsb_app, Hrs. cbn [existsb]. rewrite Hf, orb_false_r. apply orb_comm.
Qed.

(* ================================================================== branches and declarations *)

Definition branch_rel (t : rtype) (sb : sbranch) (rb : range * pval) : Prop :=
  snd rb = sb_value sb /\ forall x b, bsem t sb x = Some b -> pat_match (fst rb) x = b.

Definition sbranch_wf (t : rtype) (tbl : ftable) (b : sbranch) : bool :=
  match sb_count b with Some c => sdecl_wf_count t tbl c | None => true end.

Lemma parse_branch_seq t tbl ps counts r v :
  parse_branch t tbl (BSeq (VText ps) counts) = Ok (r, v) -> v = ps /\ parse_count t tbl (CArr counts) = Ok r.
Proof.
  unfold parse_branch, parse_branch_g. cbn [parse_value bind].
  change (parse_count_seq_g true t tbl counts) with (parse_count t tbl (CArr counts)).
  destruct (parse_count t tbl (CArr counts)); cbn [bind]; try discriminate. intros [= <- <-]. auto.
Qed.

Lemma branch_sem t tbl sb r v : sbranch_wf t tbl sb = true ->
  parse_branch t tbl (sbranch_json sb) = Ok (r, v) -> branch_rel t sb (r, v).
Proof.
  unfold sbranch_wf, branch_rel, bsem, sbranch_json. destruct sb as [cnt ps syn]. cbn [sb_count sb_value sb_syntax fst snd].
  intros Hw H.
  destruct syn, cnt as [c|].
  - (* SynSeq, Some c *)
    destruct c as [atoms|s|n|l].
    + apply parse_branch_seq in H as [-> H]. apply parse_count_single in H. split; [reflexivity|].
      intros x b. now apply (csrc_sem t tbl (SStr atoms)).
    + apply parse_branch_seq in H as [-> H]. split; [reflexivity|]. intros x b Hb. discriminate.
    + apply parse_branch_seq in H as [-> H]. apply parse_count_single in H. split; [reflexivity|].
      intros x b. now apply (csrc_sem t tbl (SNum n)).
    + apply parse_branch_seq in H as [-> H]. split; [reflexivity|].
      intros x b. now apply (csrc_sem t tbl (SArr l)).
  - apply parse_branch_seq in H as [-> H]. rewrite parse_count_nil in H. injection H as <-.
    split; [reflexivity|]. now intros x b [= <-].
  - (* SynSeqNested, Some c *)
    apply parse_branch_seq in H as [-> H]. apply parse_count_single in H. split; [reflexivity|].
    intros x b. now apply (csrc_sem t tbl c).
  - apply parse_branch_seq in H as [-> H]. apply parse_count_single in H. rewrite parse_count_nil in H.
    injection H as <-. split; [reflexivity|]. now intros x b [= <-].
  - (* SynMapCV, Some c *)
    unfold parse_branch, parse_branch_g in H. cbn [parse_fields_g parse_value bind] in H.
    change (parse_count_g true t tbl (csrc_json c)) with (parse_count t tbl (csrc_json c)) in H.
    destruct (parse_count t tbl (csrc_json c)) as [r0| | |] eqn:E; cbn [bind] in H; try discriminate.
    injection H as <- <-. split; [reflexivity|]. intros x b. now apply (csrc_sem t tbl c).
  - unfold parse_branch, parse_branch_g in H. cbn [parse_fields_g parse_value bind] in H.
    injection H as <- <-. split; [reflexivity|]. now intros x b [= <-].
  - (* SynMapVC, Some c *)
    unfold parse_branch, parse_branch_g in H. cbn [parse_fields_g parse_value bind] in H.
    change (parse_count_g true t tbl (csrc_json c)) with (parse_count t tbl (csrc_json c)) in H.
    destruct (parse_count t tbl (csrc_json c)) as [r0| | |] eqn:E; cbn [bind] in H; try discriminate.
    injection H as <- <-. split; [reflexivity|]. intros x b. now apply (csrc_sem t tbl c).
  - unfold parse_branch, parse_branch_g in H. cbn [parse_fields_g parse_value bind] in H.
    injection H as <- <-. split; [reflexivity|]. now intros x b [= <-].
Qed.

Lemma type_of_string_name l t r : all_ws l = true -> all_ws r = true -> type_of_string (l ++ type_name t ++ r) = Some t.
Proof.
  intros Hl Hr. unfold type_of_string. rewrite trim_pad; try assumption; destruct t; reflexivity.
Qed.

Lemma collect_branches_rel t tbl src bs :
  forallb (sbranch_wf t tbl) src = true -> collect (parse_branch t tbl) (map sbranch_json src) = Ok bs ->
  Forall2 (branch_rel t) src bs.
Proof.
  revert bs. induction src as [|sb src IH]; intros bs Hw H.
  - cbn in H. injection H as <-. constructor.
  - cbn [map collect] in H. cbn [forallb] in Hw. apply andb_true_iff in Hw as [W1 W2].
    destruct (parse_branch t tbl (sbranch_json sb)) as [[r v]| | |] eqn:E; cbn [bind] in H; try discriminate.
    destruct (collect (parse_branch t tbl) (map sbranch_json src)) as [rest| | |] eqn:Ec; cbn [bind] in H; try discriminate.
    injection H as <-. constructor; [now apply (branch_sem t tbl)|now apply IH].
Qed.

Lemma parse_decl_rel tbl d t bs : sdecl_wf tbl d = true -> parse_decl tbl (sdecl_json d) = Ok (t, bs) ->
  t = sdecl_type d /\ Forall2 (branch_rel t) (sd_branches d) bs.
Proof.
  unfold sdecl_wf. intros Hw H. apply andb_true_iff in Hw as [Hty Hbr].
  change (forallb (sbranch_wf (sdecl_type d) tbl) (sd_branches d) = true) in Hbr.
  apply parse_decl_with_inv in H as [_ H]. unfold sdecl_json, sdecl_type in *.
  destruct d as [[[[l t0] r]|] src]; cbn [sd_type sd_branches] in *.
  - apply andb_true_iff in Hty as [Hl Hr]. cbn [d_first d_rest] in H.
    destruct H as [(s & [= <-] & Ht & Hc)|(b & x & rest & Hf & _)]; [|discriminate].
    rewrite type_of_string_name in Ht by assumption. injection Ht as <-.
    split; [reflexivity|]. now apply (collect_branches_rel t0 tbl).
  - destruct src as [|sb src]; cbn [d_first d_rest] in H.
    + destruct H as [(s & Hf & _)|(b & x & rest & Hf & _)]; discriminate.
    + destruct H as [(s & Hf & _)|(b & [r v] & rest & [= <-] & -> & Hb & Hc & ->)]; [discriminate|].
      cbn [forallb] in Hbr. apply andb_true_iff in Hbr as [W1 W2]. split; [reflexivity|].
      constructor; [now apply (branch_sem I32 tbl)|now apply (collect_branches_rel I32 tbl)].
Qed.

(* ================================================================== selection *)

Lemma first_matching_sel t src bs x o :
  Forall2 (branch_rel t) src bs -> first_matching t src x = Some o ->
  gen_match bs x = o
  /\ (forall i, o = Some i -> exists sb rb, nth_error src i = Some sb /\ nth_error bs i = Some rb /\ snd rb = sb_value sb).
Proof.
  intros HF. revert o. induction HF as [|sb [r v] src bs [Hv Hs] _ IH]; intros o H; cbn [first_matching gen_match] in *.
  - injection H as <-. split; [reflexivity|discriminate].
  - cbn [fst snd] in *. destruct (bsem t sb x) as [[|]|] eqn:E; try discriminate.
    + injection H as <-. rewrite (Hs x true E). split; [reflexivity|].
      intros i [= <-]. exists sb, (r, v). auto.
    + rewrite (Hs x false E).
      destruct (first_matching t src x) as [[j|]|] eqn:Ef; try discriminate; injection H as <-;
        destruct (IH _ eq_refl) as [Hg Hn]; rewrite Hg; (split; [reflexivity|]).
      * intros i [= <-]. destruct (Hn j eq_refl) as (sb' & rb' & ? & ? & ?). exists sb', rb'. auto.
      * discriminate.
Qed.

Lemma find_index_gen_match bs x : branches_no_nan bs = true -> x <> None -> find_index bs x = gen_match bs x.
Proof.
  intros Hn Hx. rewrite find_index_first, gen_match_first. apply first_index_ext. intros b Hb.
  apply do_match_pat_match; [assumption|]. unfold branches_no_nan in Hn. rewrite forallb_forall in Hn. now apply Hn.
Qed.

(** what the check observes of the model: rendered static selection and native first match *)
Definition static_obs (t : rtype) (bs : branches) (a : count_arg) : res str :=
  match populate_with_count_arg t bs a with
  | Ok (SValue v) => Ok (render v)
  | Ok (SRanges _ _) => Unmodelled
  | Err e => Err e
  | Panic s => Panic s
  | Unmodelled => Unmodelled
  end.
Definition native_obs (t : rtype) (bs : branches) (a : count_arg) : option (option nat) :=
  match lit_value t (ca_lit a) with Some x => Some (gen_match bs x) | None => None end.

Lemma static_of_lit t bs a x : lit_value t (ca_lit a) = Some x ->
  static_obs t bs a = match find_value bs x (ca_disp a) with
                      | Ok v => Ok (render v) | Err e => Err e | Panic s => Panic s | Unmodelled => Unmodelled end.
Proof.
  unfold lit_value, static_obs, populate_with_count_arg, populate_with_count_arg_with.
  destruct (ca_lit a) as [z|z|v64 v32|name|]; cbn [count_of_lit]; try discriminate;
    match goal with |- match ?C with _ => _ end = _ -> _ => destruct C as [c| | |] eqn:E; try discriminate end;
    intros [= <-]; cbn [bind]; destruct (find_value bs c (ca_disp a)); reflexivity.
Qed.

Lemma zip4_map {A B C D} (f : A -> B) (g : A -> C) (h : A -> D) l :
  zip4 l (map f l) (map g l) (map h l) = map (fun a => (a, f a, g a, h a)) l.
Proof. induction l as [|a l IH]; [reflexivity|]. cbn [map zip4]. now rewrite IH. Qed.

Lemma rtype_eqb_refl t : rtype_eqb t t = true.
Proof. destruct t; reflexivity. Qed.
Lemma str_eqb_refl s : str_eqb s s = true.
Proof. now apply str_eqb_eq. Qed.

(** the declaration-level predicate of the check holds of the model for every source declaration *)
Theorem spec_decl_holds d tbl counts t bs :
  sdecl_wf tbl d = true -> forallb disp_ok counts = true ->
  parse_decl tbl (sdecl_json d) = Ok (t, bs) ->
  spec_C04 d counts (Ok (t, ibranches_of bs))
    (map (static_obs t bs) counts) (map (native_obs t bs) counts) (map (fun _ => None) counts) = true.
Proof.
  intros Hw Hdisp Hp.
  pose proof (parse_decl_no_nan tbl _ t bs Hp) as Hnn.
  destruct (parse_decl_rel tbl d t bs Hw Hp) as [Ht HF].
  unfold spec_C04. rewrite Ht at 1. rewrite rtype_eqb_refl. cbn [andb].
  rewrite zip4_map, forallb_forall. intros q Hq. apply in_map_iff in Hq as (a & <- & Ha).
  rewrite forallb_forall in Hdisp. specialize (Hdisp a Ha).
  unfold spec_C04_count, native_obs.
  destruct (lit_value t (ca_lit a)) as [[k|]|] eqn:El; try reflexivity.
  rewrite (static_of_lit t bs a (Some k) El).
  destruct (first_matching t (sd_branches d) (Some k)) as [[i|]|] eqn:Ef; try reflexivity.
  - destruct (first_matching_sel t _ bs (Some k) _ HF Ef) as [Hg Hn].
    destruct (Hn i eq_refl) as (sb & rb & Hsb & Hrb & Hv).
    rewrite Hsb, find_value_index, (find_index_gen_match bs (Some k) Hnn) by discriminate.
    rewrite Hg, Hrb, Hv, Hdisp. cbn [res_eqb opt_eqb andb]. now rewrite str_eqb_refl, Nat.eqb_refl.
  - destruct (first_matching_sel t _ bs (Some k) _ HF Ef) as [Hg _].
    rewrite find_value_index, (find_index_gen_match bs (Some k) Hnn) by discriminate.
    rewrite Hg. reflexivity.
Qed.
