(** Executable correspondence predicate for C05 (one level of one locale per case). *)
From Coq Require Import List NArith Bool Arith.
Import ListNotations.
From LI Require Import Base.StrOps Parser.Plurals.
Open Scope N_scope.

Record case := mk_case {
  c_path : list str;                              (* key path of the level (namespace/sub-keys above it) *)
  c_bad_bases : list str;                         (* bases for which the real Key::new returns None (harness) *)
  c_cats_card : list form;                        (* ICU4X PluralRules::categories() of the locale, cardinal *)
  c_cats_ord : list form;                         (*   .. ordinal *)
  c_keys : list (str * ival);                     (* the level as the generator wrote it, ascending by key *)
  c_tags : list (option (str * rule * form));     (* the real Locale::is_possible_plural on every key, in order *)
  c_impl : option res }.                          (* the real merge_plurals on this level; None = not observable *)

Definition tag3 (kv : str * ival) : option (str * rule * form) :=
  match tag_of kv with Some (b, r, f, _) => Some (b, r, f) | None => None end.
Definition tag3_eqb (a b : option (str * rule * form)) : bool :=
  match a, b with
  | None, None => true
  | Some (b1, r1, f1), Some (b2, r2, f2) => str_eqb b1 b2 && rule_eqb r1 r2 && form_eqb f1 f2
  | _, _ => false
  end.
Fixpoint list_eqb {A} (eqb : A -> A -> bool) (a b : list A) : bool :=
  match a, b with
  | [], [] => true
  | x :: xs, y :: ys => eqb x y && list_eqb eqb xs ys
  | _, _ => false
  end.
Definition oval_eqb (a b : oval) : bool :=
  match a, b with
  | Kept x, Kept y => ival_eqb x y
  | PluralV r o fs, PluralV r' o' fs' =>
      rule_eqb r r' && (o =? o') && list_eqb (fun x y => form_eqb (fst x) (fst y) && (snd x =? snd y)) fs fs'
  | _, _ => false
  end.
Definition res_eqb (a b : res) : bool :=
  match a, b with
  | ROk k w, ROk k' w' =>
      list_eqb (fun x y => str_eqb (fst x) (fst y) && oval_eqb (snd x) (snd y)) k k' &&
      incl_b warning_eqb w w' && incl_b warning_eqb w' w && Nat.eqb (length w) (length w')
  | RErr k p, RErr k' p' =>
      (match k, k' with EConflict, EConflict | ECollide, ECollide | EInvalid, EInvalid => true | _, _ => false end) && path_eqb p p'
  | RPanic, RPanic => true
  | _, _ => false
  end.

(** 0 agree + spec holds; 2 implementation differs from the model (spec holds); 3 spec false on the implementation's
    output (a panic included); 5 bookkeeping for the driver: the locale's panic / InvalidKey error (which carries no key
    path) does not belong to this level *)
Definition check (c : case) : N :=
  let is_key := fun b => negb (mem_str b (c_bad_bases c)) in
  let cats := fun r => match r with Cardinal => c_cats_card c | Ordinal => c_cats_ord c end in
  let model := merge_level is_key cats (c_path c) (c_keys c) in
  if negb (list_eqb tag3_eqb (map tag3 (c_keys c)) (c_tags c)) then 2 else
  match c_impl c with
  | None => 0
  | Some RPanic =>
      (* which level panicked is not observable: the level whose pre-fix model panics takes the blame *)
      match merge_level_panic_old is_key cats (c_path c) (c_keys c) with RPanic => 3 | _ => 5 end
  | Some (RErr EInvalid p) =>
      (* InvalidKey carries no key path: it may come from another level that has the same faulty base key (sub-keys are
         merged first), so this level's own first error is not compared *)
      if spec_C05 is_key cats (c_path c) (c_keys c) (RErr EInvalid p) then 0 else 5
  | Some impl =>
      if negb (spec_C05 is_key cats (c_path c) (c_keys c) impl) then 3
      else if negb (res_eqb impl model) then 2 else 0
  end.

(** the same with the algorithm before the repair, used by the check to tell which algorithm /repo runs *)
Definition check_old (c : case) : N :=
  let is_key := fun b => negb (mem_str b (c_bad_bases c)) in
  let cats := fun r => match r with Cardinal => c_cats_card c | Ordinal => c_cats_ord c end in
  match c_impl c with
  | Some impl => if res_eqb impl (merge_level_old is_key cats (c_path c) (c_keys c)) then 0 else 2
  | None => 0
  end.

(** cross-locale case: the top level of every locale of a project and the real whole-project plural merging
    (`LocalesOrNamespaces::merge_plurals`); None = it returned an error / panicked.
    0 spec_cross holds and the result is the model's; 2 differs from the model (spec holds); 3 spec_cross fails;
    4 it fails and the input is in the class [lone_other] (the defect repaired by fixes/C05-lone-other.diff) *)
Definition kmap_eqb (a b : kmap) : bool :=
  list_eqb (fun x y => str_eqb (fst x) (fst y) && oval_eqb (snd x) (snd y)) a b.
Definition check_cross (c : list (list (str * ival)) * list str * option (list kmap)) : N :=
  let '(levels, bad, impl) := c in
  let is_key := fun b => negb (mem_str b bad) in
  let model := merge_project is_key (fun _ => all_forms) levels in
  match impl with
  | Some outs =>
      if negb (spec_cross levels outs) then (if lone_other levels then 4 else 3)
      else match model with POk outs' => if list_eqb kmap_eqb outs outs' then 0 else 2 | _ => 2 end
  | None => match model with POk _ => 2 | _ => 0 end
  end.

(** parse-time selection: one plural key of one (referencing) locale and its `$t(key, {"count": N})` references.
    [s_written]: the forms written in that locale with the ids of their values (contains Other);
    [s_table]: the CLDR category of every count for THAT locale and the key's rule type (ICU4X oracle);
    [s_impl]: id of the final value of every reference key after the whole parse pipeline.
    0 agree + spec; 2 differs from the model (spec holds); 3 the value is not the form CLDR assigns for that locale *)
Record scase := mk_scase { s_written : list (form * N); s_table : list form; s_impl : list (option N) }.

Definition written_id (w : list (form * N)) (c : form) : option N :=
  match find (fun fv => form_eqb (fst fv) c) w with Some fv => Some (snd fv) | None => None end.
(** the property: the form written for the category, `_other` when it was not written *)
Definition spec_static (w : list (form * N)) (c : form) (got : N) : bool :=
  match written_id w c with
  | Some v => got =? v
  | None => match written_id w Other with Some v => got =? v | None => false end
  end.
Definition model_static (w : list (form * N)) (c : form) : option N :=
  match written_id w Other with
  | None => None
  | Some other =>
      let forms := fold_left (fun acc fv => finsert (fst fv) (snd fv) acc)
                             (filter (fun fv => negb (form_eqb (fst fv) Other)) w) [] in
      match resolve_count_ref unit form (fun _ _ c => c) tt tt Cardinal other forms (CountLit c) with
      | SForm id => Some id
      | _ => None
      end
  end.
Fixpoint static_codes (w : list (form * N)) (tbl : list form) (got : list (option N)) : N :=
  match tbl, got with
  | [], [] => 0
  | c :: tbl', Some g :: got' =>
      if negb (spec_static w c g) then 3
      else match static_codes w tbl' got' with
           | 0 => (match model_static w c with Some m => if m =? g then 0 else 2 | None => 2 end)
           | k => k
           end
  | _, _ => 3
  end.
Definition check_static (c : scase) : N := static_codes (s_written c) (s_table c) (s_impl c).

(** UnusedForm warnings of the whole-project paths: one level of one locale of a multi-locale project.
    [u_merge]: the warnings `LocalesOrNamespaces::merge_plurals` emitted for this locale and level;
    [u_pipeline]: those returned by `parse_locales` (whole pipeline).
    0 both are exactly the expected warnings (no missing, extra or repeated one) and equal the model's;
    2 differ from the model only; 3 a warning is missing, extra or repeated *)
Record ucase := mk_ucase {
  u_path : list str; u_cats_card : list form; u_cats_ord : list form; u_keys : list (str * ival);
  u_merge : list warning; u_pipeline : list warning }.
Fixpoint nodup_w (l : list warning) : bool :=
  match l with [] => true | w :: r => negb (existsb (warning_eqb w) r) && nodup_w r end.
Definition warns_exact (expected got : list warning) : bool :=
  incl_b warning_eqb got expected && incl_b warning_eqb expected got && nodup_w got.
Definition check_unused (c : ucase) : N :=
  let cats := fun r => match r with Cardinal => u_cats_card c | Ordinal => u_cats_ord c end in
  let expected := expected_warnings cats (u_path c) (u_keys c) in
  if negb (warns_exact expected (u_merge c) && warns_exact expected (u_pipeline c)) then 3
  else match project_warnings (fun _ => true) (u_path c) [(cats, u_keys c)] with
       | [ws] => if warns_exact ws (u_merge c) && warns_exact ws (u_pipeline c) then 0 else 2
       | _ => 2
       end.

(** whole trees: every level (of every locale, namespace and depth) of a project with its path, and the merged level the
    real `LocalesOrNamespaces::merge_plurals` produced for it (None = error / panic).
    0 spec_cross_tree holds and every merged level is the model's; 2 differs from the model; 3 spec_cross_tree fails *)
Definition check_cross_tree (c : list plevel * option (list kmap)) : N :=
  let '(levels, impl) := c in
  let model := merge_project_tree (fun _ => true) (fun _ => all_forms) levels in
  match impl with
  | Some outs =>
      if negb (spec_cross_tree levels outs) then 3
      else match model with Some outs' => if list_eqb kmap_eqb outs outs' then 0 else 2 | None => 2 end
  | None => match model with Some _ => 2 | None => 0 end
  end.
