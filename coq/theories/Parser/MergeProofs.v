(** Lemmas about Parser/Merge.v (properties C03 and C07). *)
From Coq Require Import List NArith Bool Arith Lia.
Import ListNotations.
From LI Require Import Parser.Merge.
Open Scope N_scope.

(** * Association lists *)
Lemma map_get_insert_same : forall m k v, map_get (map_insert k v m) k = Some v.
Proof.
  induction m as [|[k' v'] r IH]; intros k v; cbn [map_insert map_get].
  - now rewrite N.eqb_refl.
  - destruct (k <? k') eqn:Hlt; cbn [map_get].
    + now rewrite N.eqb_refl.
    + destruct (k =? k') eqn:He; cbn [map_get].
      * now rewrite N.eqb_refl.
      * rewrite He. apply IH.
Qed.

Lemma map_get_insert_other : forall m k v k', k' <> k -> map_get (map_insert k v m) k' = map_get m k'.
Proof.
  induction m as [|[k0 v0] r IH]; intros k v k' Hne; cbn [map_insert map_get].
  - apply N.eqb_neq in Hne. now rewrite Hne.
  - destruct (k <? k0) eqn:Hlt; cbn [map_get].
    + apply N.eqb_neq in Hne. now rewrite Hne.
    + destruct (k =? k0) eqn:He; cbn [map_get].
      * apply N.eqb_eq in He. subst k0. apply N.eqb_neq in Hne. now rewrite Hne.
      * destruct (k' =? k0); [reflexivity | now apply IH].
Qed.

Lemma map_insert_length : forall m k v, (length (map_insert k v m) <= S (length m))%nat.
Proof.
  induction m as [|[k0 v0] r IH]; intros k v; cbn [map_insert length]; [lia|].
  destruct (k <? k0); cbn [length]; [lia|].
  destruct (k =? k0); cbn [length]; [lia|]. specialize (IH k v). lia.
Qed.

Lemma map_get_Some_In : forall m k v, map_get m k = Some v -> In k (map fst m).
Proof.
  induction m as [|[k0 v0] r IH]; intros k v H; cbn [map_get] in H; [discriminate|].
  cbn [map fst]. destruct (k =? k0) eqn:He.
  - apply N.eqb_eq in He. now left.
  - right. eauto.
Qed.

Lemma In_map_get_Some : forall m k, In k (map fst m) -> exists v, map_get m k = Some v.
Proof.
  induction m as [|[k0 v0] r IH]; intros k H; cbn [map fst] in H; [contradiction|].
  cbn [map_get]. destruct (k =? k0) eqn:He; [eauto|].
  destruct H as [H|H]; [subst; now rewrite N.eqb_refl in He | auto].
Qed.

Lemma mem_In : forall x l, mem x l = true <-> In x l.
Proof.
  intros x l. unfold mem. rewrite existsb_exists. split.
  - intros [y [Hy He]]. apply N.eqb_eq in He. now subst.
  - intros H. exists x. split; [assumption | apply N.eqb_refl].
Qed.
Lemma mem_false : forall x l, mem x l = false <-> ~ In x l.
Proof.
  intros x l. rewrite <- mem_In. destruct (mem x l); split; congruence.
Qed.

(** * default_of_inner: the visited-set walk *)

(* n steps along the mapping *)
Fixpoint walk (m : list (loc * loc)) (n : nat) (l : loc) : option loc :=
  match n with
  | O => Some l
  | S n' => match map_get m l with Some k => walk m n' k | None => None end
  end.

(** what the walk from [l] amounts to: it leaves the mapping at [r] after at most [bound]
    steps, or it never leaves it and the answer is the default locale *)
Inductive mres (m : list (loc * loc)) (dflt : loc) (bound : nat) (l : loc) : loc -> Prop :=
| mres_stop : forall n r, (n <= bound)%nat -> walk m n l = Some r -> map_get m r = None -> mres m dflt bound l r
| mres_loop : (forall n, exists x, walk m n l = Some x /\ map_get m x <> None) -> mres m dflt bound l dflt.

Lemma doi_correct : forall d fuel visited cur,
  NoDup visited -> ~ In cur visited ->
  (forall v, In v visited -> exists k, map_get (dl_map d) v = Some k /\ In k (cur :: visited)) ->
  (length (dl_map d) <= fuel + length visited)%nat ->
  exists r, default_of_inner d fuel visited cur = Some r /\ mres (dl_map d) (dl_default d) fuel cur r.
Proof.
  intros d. induction fuel as [|f IH]; intros visited cur Hnd Hnin Hclo Hlen.
  - cbn [default_of_inner].
    destruct (map_get (dl_map d) cur) as [k|] eqn:Hget.
    + destruct (mem k (cur :: visited)) eqn:Hmem.
      * exists (dl_default d). split; [reflexivity|]. apply mres_loop.
        assert (Hclo' : forall v, In v (cur :: visited) ->
                   exists k', map_get (dl_map d) v = Some k' /\ In k' (cur :: visited)).
        { intros v [Hv|Hv]; [subst v; exists k; split; [assumption | now apply mem_In]|].
          destruct (Hclo v Hv) as [k' [H1 H2]]. eauto. }
        assert (Hall : forall n v, In v (cur :: visited) ->
                   exists x, walk (dl_map d) n v = Some x /\ In x (cur :: visited)).
        { induction n as [|n IHn]; intros v Hv; cbn [walk]; [eauto|].
          destruct (Hclo' v Hv) as [k' [H1 H2]]. rewrite H1. now apply IHn. }
        intros n. destruct (Hall n cur (or_introl eq_refl)) as [x [Hx Hin]].
        exists x. split; [assumption|]. destruct (Hclo' x Hin) as [k' [H1 _]]. congruence.
      * exfalso.
        assert (Hincl : incl (cur :: visited) (map fst (dl_map d))).
        { intros v [Hv|Hv]; [subst v; eapply map_get_Some_In; eauto|].
          destruct (Hclo v Hv) as [k' [H1 _]]. eapply map_get_Some_In; eauto. }
        assert (Hnd' : NoDup (cur :: visited)) by (constructor; assumption).
        pose proof (NoDup_incl_length Hnd' Hincl) as Hl. rewrite map_length in Hl. cbn [length] in Hl. lia.
    + exists cur. split; [reflexivity|]. apply mres_stop with (n := O); [lia | reflexivity | assumption].
  - cbn [default_of_inner].
    destruct (map_get (dl_map d) cur) as [k|] eqn:Hget.
    + destruct (mem k (cur :: visited)) eqn:Hmem.
      * exists (dl_default d). split; [reflexivity|]. apply mres_loop.
        assert (Hclo' : forall v, In v (cur :: visited) ->
                   exists k', map_get (dl_map d) v = Some k' /\ In k' (cur :: visited)).
        { intros v [Hv|Hv]; [subst v; exists k; split; [assumption | now apply mem_In]|].
          destruct (Hclo v Hv) as [k' [H1 H2]]. eauto. }
        assert (Hall : forall n v, In v (cur :: visited) ->
                   exists x, walk (dl_map d) n v = Some x /\ In x (cur :: visited)).
        { induction n as [|n IHn]; intros v Hv; cbn [walk]; [eauto|].
          destruct (Hclo' v Hv) as [k' [H1 H2]]. rewrite H1. now apply IHn. }
        intros n. destruct (Hall n cur (or_introl eq_refl)) as [x [Hx Hin]].
        exists x. split; [assumption|]. destruct (Hclo' x Hin) as [k' [H1 _]]. congruence.
      * apply mem_false in Hmem.
        destruct (IH (cur :: visited) k) as [r [Hr Hres]].
        -- constructor; assumption.
        -- assumption.
        -- intros v [Hv|Hv]; [subst v; exists k; split; [assumption | now left]|].
           destruct (Hclo v Hv) as [k' [H1 H2]]. exists k'. split; [assumption | now right].
        -- cbn [length]. lia.
        -- exists r. split; [assumption|].
           inversion Hres as [n r' Hn Hw Hg Heq | Hloop Heq].
           ++ apply mres_stop with (n := S n); [lia | cbn [walk]; now rewrite Hget | assumption].
           ++ apply mres_loop. intros [|n]; cbn [walk].
              ** exists cur. split; [reflexivity | congruence].
              ** rewrite Hget. apply Hloop.
    + exists cur. split; [reflexivity|]. apply mres_stop with (n := O); [lia | reflexivity | assumption].
Qed.

(** the fuel [S (length mapping)] always suffices: OutOfFuel is never returned *)
Lemma default_of_inner_fuel : forall d l,
  exists r, default_of_opt d l = Some r /\ mres (dl_map d) (dl_default d) (S (length (dl_map d))) l r.
Proof.
  intros d l. unfold default_of_opt. apply doi_correct.
  - constructor.
  - intros H; exact H.
  - intros v H; contradiction.
  - cbn [length]. lia.
Qed.

Lemma default_of_mres : forall d l, mres (dl_map d) (dl_default d) (S (length (dl_map d))) l (default_of d l).
Proof.
  intros d l. destruct (default_of_inner_fuel d l) as [r [H1 H2]]. unfold default_of. now rewrite H1.
Qed.

(** * The walk of default_of is the `inherits` walk of the specification *)
Lemma first_defined_present : forall inh present dflt F l,
  present l = true -> first_defined inh present dflt F l = l.
Proof. intros inh present dflt F l H. destruct F; cbn [first_defined]; now rewrite H. Qed.

Section Resolution.
  Variables (inh : loc -> option loc) (present : loc -> bool) (dflt : loc) (others : list loc).
  Variable m : list (loc * loc).
  (* the mapping holds exactly the non-default locales that do not define the key, each sent
     to the locale it inherits from, else to the default *)
  Hypothesis Hm_other : forall x, In x others ->
    map_get m x = if present x then None else Some (match inh x with Some y => y | None => dflt end).
  Hypothesis Hm_none : forall x, ~ In x others -> map_get m x = None.
  Hypothesis Hdflt : ~ In dflt others.
  Hypothesis Hpres : present dflt = true.
  Hypothesis Hinh : forall x y, inh x = Some y -> In x others /\ (y = dflt \/ In y others).

  Lemma walk_stop_first_defined : forall n l r F,
    (l = dflt \/ In l others) -> walk m n l = Some r -> map_get m r = None -> (n <= F)%nat ->
    first_defined inh present dflt F l = r.
  Proof.
    induction n as [|n IH]; intros l r F Hl Hw Hr HF; cbn [walk] in Hw.
    - injection Hw as <-. apply first_defined_present.
      destruct Hl as [->|Hl]; [assumption|].
      rewrite (Hm_other _ Hl) in Hr. destruct (present l); [reflexivity | discriminate].
    - destruct (map_get m l) as [k|] eqn:Hget; [|discriminate].
      destruct Hl as [->|Hl]; [rewrite (Hm_none _ Hdflt) in Hget; discriminate|].
      rewrite (Hm_other _ Hl) in Hget.
      destruct (present l) eqn:Hp; [discriminate|]. injection Hget as <-.
      destruct F as [|F]; [lia|]. cbn [first_defined]. rewrite Hp.
      destruct (inh l) as [y|] eqn:Hi.
      + apply IH; [exact (proj2 (Hinh _ _ Hi)) | assumption | assumption | lia].
      + destruct n as [|n]; cbn [walk] in Hw; [now injection Hw|].
        rewrite (Hm_none _ Hdflt) in Hw. discriminate.
  Qed.

  Lemma walk_loop_first_defined : forall F l,
    (forall n, exists x, walk m n l = Some x /\ map_get m x <> None) ->
    first_defined inh present dflt F l = dflt.
  Proof.
    induction F as [|F IH]; intros l Hloop.
    - destruct (Hloop O) as [x [Hx Hne]]. cbn [walk] in Hx. injection Hx as <-.
      destruct (in_dec N.eq_dec l others) as [Hl|Hl]; [|now rewrite (Hm_none _ Hl) in Hne].
      rewrite (Hm_other _ Hl) in Hne. cbn [first_defined]. destruct (present l); [congruence | reflexivity].
    - destruct (Hloop O) as [x [Hx Hne]]. cbn [walk] in Hx. injection Hx as <-.
      destruct (in_dec N.eq_dec l others) as [Hl|Hl]; [|now rewrite (Hm_none _ Hl) in Hne].
      pose proof (Hm_other _ Hl) as Hget. cbn [first_defined].
      destruct (present l) eqn:Hp; [rewrite Hget in Hne; congruence|].
      destruct (inh l) as [y|] eqn:Hi; [|reflexivity].
      apply IH. intros n. destruct (Hloop (S n)) as [x [Hx Hne']]. cbn [walk] in Hx. rewrite Hget in Hx. eauto.
  Qed.

  Lemma mres_first_defined : forall bound F l r,
    (l = dflt \/ In l others) -> (bound <= F)%nat -> mres m dflt bound l r ->
    r = first_defined inh present dflt F l.
  Proof.
    intros bound F l r Hl HF Hres. inversion Hres as [n r' Hn Hw Hg Heq | Hloop Heq].
    - symmetry. apply walk_stop_first_defined with (n := n); try assumption. lia.
    - rewrite <- Heq. symmetry. now apply walk_loop_first_defined.
  Qed.
End Resolution.

Theorem default_of_first_defined : forall d (inh : loc -> option loc) (present : loc -> bool) (others : list loc) F l,
  (forall x, In x others ->
     map_get (dl_map d) x = if present x then @None loc else Some (match inh x with Some y => y | None => dl_default d end)) ->
  (forall x, ~ In x others -> map_get (dl_map d) x = None) ->
  ~ In (dl_default d) others -> present (dl_default d) = true ->
  (forall x y, inh x = Some y -> In x others /\ (y = dl_default d \/ In y others)) ->
  (S (length (dl_map d)) <= F)%nat -> (l = dl_default d \/ In l others) ->
  default_of d l = first_defined inh present (dl_default d) F l.
Proof.
  intros d inh present others F l H1 H2 H3 H4 H5 HF Hl.
  eapply mres_first_defined; eauto. apply default_of_mres.
Qed.

(** the default locale never takes a value from another locale *)
Lemma default_of_unmapped : forall d l, map_get (dl_map d) l = None -> default_of d l = l.
Proof.
  intros d l H. unfold default_of, default_of_opt. cbn [default_of_inner]. now rewrite H.
Qed.

(** a resolved target is never itself a defaulted locale *)
Lemma default_of_target_unmapped : forall d l,
  map_get (dl_map d) (dl_default d) = None -> map_get (dl_map d) (default_of d l) = None.
Proof.
  intros d l Hd. pose proof (default_of_mres d l) as Hres.
  inversion Hres as [n r' Hn Hw Hg Heq | Hloop Heq]; assumption.
Qed.

(** * compute(): grouping of the defaulted locales by their target *)
Definition gmem (g : list (loc * list loc)) (t x : loc) : Prop := exists s, In (t, s) g /\ In x s.

Lemma set_insert_In : forall s x y, In y (set_insert x s) <-> y = x \/ In y s.
Proof.
  induction s as [|z r IH]; intros x y; cbn [set_insert].
  - cbn [In]. intuition.
  - destruct (x <? z); [cbn [In]; intuition|].
    destruct (x =? z) eqn:He.
    + apply N.eqb_eq in He. subst z. cbn [In]. intuition.
    + cbn [In]. rewrite IH. intuition.
Qed.

Lemma group_insert_gmem : forall g t x t' y,
  gmem (group_insert t x g) t' y <-> (t' = t /\ y = x) \/ gmem g t' y.
Proof.
  unfold gmem. induction g as [|[t0 s0] r IH]; intros t x t' y; cbn [group_insert].
  - split.
    + intros [s [[H|[]] Hy]]. injection H as <- <-. destruct Hy as [<-|[]]. now left.
    + intros [[-> ->]|[s [[] _]]]. exists [x]. split; now left.
  - destruct (t <? t0).
    + split.
      * intros [s [[H|H] Hy]].
        -- injection H as <- <-. destruct Hy as [<-|[]]. now left.
        -- right. exists s. now split.
      * intros [[-> ->]|[s [H Hy]]].
        -- exists [x]. split; now left.
        -- exists s. split; [now right | assumption].
    + destruct (t =? t0) eqn:He.
      * apply N.eqb_eq in He. subst t0. split.
        -- intros [s [[H|H] Hy]].
           ++ injection H as <- <-. apply set_insert_In in Hy. destruct Hy as [->|Hy]; [now left|].
              right. exists s0. split; [now left | assumption].
           ++ right. exists s. split; [now right | assumption].
        -- intros [[-> ->]|[s [[H|H] Hy]]].
           ++ exists (set_insert x s0). split; [now left | apply set_insert_In; now left].
           ++ injection H as <- <-. exists (set_insert x s0). split; [now left | apply set_insert_In; now right].
           ++ exists s. split; [now right | assumption].
      * split.
        -- intros [s [[H|H] Hy]].
           ++ right. exists s. split; [now left | assumption].
           ++ destruct (proj1 (IH t x t' y)) as [Hl|[s' [Hs' Hy']]]; [eauto | now left |].
              right. exists s'. split; [now right | assumption].
        -- intros [Hl|[s [[H|H] Hy]]].
           ++ destruct (proj2 (IH t x t' y) (or_introl Hl)) as [s' [Hs' Hy']].
              exists s'. split; [now right | assumption].
           ++ exists s. split; [now left | assumption].
           ++ destruct (proj2 (IH t x t' y)) as [s' [Hs' Hy']]; [right; eauto|].
              exists s'. split; [now right | assumption].
Qed.

Lemma fold_group_gmem : forall (f : loc -> loc) (l : list (loc * loc)) g0 t x,
  gmem (fold_left (fun g kv => group_insert (f (fst kv)) (fst kv) g) l g0) t x
  <-> gmem g0 t x \/ (In x (map fst l) /\ f x = t).
Proof.
  intros f. induction l as [|[k v] r IH]; intros g0 t x; cbn [fold_left map fst In].
  - intuition.
  - rewrite IH, group_insert_gmem. cbn [fst]. split.
    + intros [[[-> ->]|H]|[H1 H2]]; auto.
    + intros [H|[[<-|H1] H2]]; auto.
Qed.

(** every defaulted locale sits in the set of exactly its resolved target, nowhere else *)
Lemma compute_gmem : forall d t x,
  gmem (compute d) t x <-> In x (map fst (dl_map d)) /\ default_of d x = t.
Proof.
  intros d t x. unfold compute. rewrite fold_group_gmem. unfold gmem. split.
  - intros [[s [[] _]]|H]; assumption.
  - intros H. now right.
Qed.

Lemma group_insert_keys : forall g t x t', In t' (map fst (group_insert t x g)) <-> t' = t \/ In t' (map fst g).
Proof.
  induction g as [|[t0 s0] r IH]; intros t x t'; cbn [group_insert map fst In].
  - intuition.
  - destruct (t <? t0); [cbn [map fst In]; intuition|].
    destruct (t =? t0) eqn:He.
    + apply N.eqb_eq in He. subst t0. cbn [map fst In]. intuition.
    + cbn [map fst In]. rewrite IH. intuition.
Qed.

(** the targets (match arms) are resolved targets of defaulted locales *)
Lemma compute_keys : forall d t, In t (map fst (compute d)) -> exists x, In x (map fst (dl_map d)) /\ default_of d x = t.
Proof.
  intros d t. unfold compute.
  assert (H : forall (l : list (loc * loc)) g0, In t (map fst (fold_left (fun g (kv : loc * loc) => group_insert (default_of d (fst kv)) (fst kv) g) l g0)) ->
                           In t (map fst g0) \/ exists x, In x (map fst l) /\ default_of d x = t).
  { induction l as [|[k v] r IH]; intros g0 Hin; cbn [fold_left] in Hin; [now left|].
    apply IH in Hin. destruct Hin as [Hin|[x [H1 H2]]].
    - apply group_insert_keys in Hin. cbn [fst] in Hin. destruct Hin as [->|Hin]; [|now left].
      right. exists k. split; [now left | reflexivity].
    - right. exists x. split; [now right | assumption]. }
  intros Hin. destruct (H _ _ Hin) as [[]|Hx]. exact Hx.
Qed.

(** * What one merge does to the DefaultedLocales of every value path *)
Scheme bk_mut := Induction for bk Sort Prop
  with bks_mut := Induction for bks Sort Prop.
Combined Scheme bk_bks_mutind from bk_mut, bks_mut.
Scheme tree_mut := Induction for tree Sort Prop
  with forest_mut := Induction for forest Sort Prop.
Combined Scheme tree_forest_mutind from tree_mut, forest_mut.

Definition leaf_of (o : option bk) : option (N * dl) :=
  match o with Some (BValue p d) => Some (p, d) | _ => None end.
Definition bks_leaf (ks : bks) (p : list key) : option (N * dl) := leaf_of (bks_at ks p).
Definition bk_leaf (b : bk) (q : list key) : option (N * dl) :=
  match q with
  | [] => leaf_of (Some b)
  | _ => match b with BSub _ ks => bks_leaf ks q | _ => None end
  end.
Definition tree_defines (v : tree) (q : list key) : bool :=
  match q with
  | [] => match v with Leaf _ => true | _ => false end
  | _ => match v with Group g => defines g q | _ => false end
  end.
Definition upd (top : loc) (dt : default_to) (def : bool) (pd : N * dl) : N * dl :=
  (fst pd, if def then snd pd else dl_push (snd pd) top (dt_key dt)).

Lemma bks_leaf_nil : forall ks, bks_leaf ks [] = None.
Proof. intros ks. unfold bks_leaf. destruct ks; reflexivity. Qed.

Lemma bks_leaf_cons : forall k b r k0 q,
  bks_leaf (BCons k b r) (k0 :: q) = if k0 =? k then bk_leaf b q else bks_leaf r (k0 :: q).
Proof.
  intros k b r k0 q. unfold bks_leaf, bk_leaf. cbn [bks_at bks_get].
  destruct (k0 =? k); [|reflexivity].
  destruct q as [|k1 q]; [reflexivity|]. destruct b; reflexivity.
Qed.

Lemma defines_cons : forall f k q,
  defines f (k :: q) = match forest_get f k with Some t => tree_defines t q | None => false end.
Proof.
  intros f k q. unfold defines, tree_defines. cbn [forest_at].
  destruct (forest_get f k) as [t|]; [|reflexivity].
  destruct q as [|k1 q]; [reflexivity|]. destruct t; reflexivity.
Qed.

Lemma dummy_forest_get : forall ks k, forest_get (dummy_forest ks) k = None \/ forest_get (dummy_forest ks) k = Some Null.
Proof.
  induction ks as [|k0 r IH]; intros k; cbn [dummy_forest forest_get]; [now left|].
  destruct (k =? k0); [now right | apply IH].
Qed.
Lemma dummy_defines : forall ks q, defines (dummy_forest ks) q = false.
Proof.
  intros ks [|k q]; [reflexivity|]. rewrite defines_cons.
  destruct (dummy_forest_get ks k) as [H|H]; rewrite H; [reflexivity|]. destruct q; reflexivity.
Qed.

Lemma merge_leaf_mut : forall suppress top dt ns,
  (forall b v path b' ws, merge_value suppress top dt ns b v path = Ok (b', ws) ->
     forall q, bk_leaf b' q = option_map (upd top dt (tree_defines v q)) (bk_leaf b q))
  /\ (forall ks f path ks' ws, merge_keys suppress top dt ns ks f path = Ok (ks', ws) ->
     forall q, bks_leaf ks' q = option_map (upd top dt (defines f q)) (bks_leaf ks q)).
Proof.
  intros suppress top dt ns. apply bk_bks_mutind.
  - (* BValue *) intros p d v path b' ws H q. cbn [merge_value] in H.
    destruct v as [x| |g]; [| |discriminate]; injection H as <- <-; destruct q; reflexivity.
  - (* BSub *) intros fk ks IH v path b' ws H q. cbn [merge_value] in H.
    destruct v as [x| |g]; [discriminate| |].
    + unfold finish_locale in H.
      destruct (merge_keys suppress top dt ns ks (dummy_forest fk) path) as [[ks' w]| | |] eqn:Hm; try discriminate.
      injection H as <- <-. destruct q as [|k q]; [reflexivity|].
      cbn [bk_leaf tree_defines]. rewrite (IH _ _ _ _ Hm). now rewrite dummy_defines.
    + unfold finish_locale in H.
      destruct (merge_keys suppress top dt ns ks g path) as [[ks' w]| | |] eqn:Hm; try discriminate.
      injection H as <- <-. destruct q as [|k q]; [reflexivity|].
      cbn [bk_leaf tree_defines]. apply (IH _ _ _ _ Hm).
  - (* BNil *) intros f path ks' ws H q. cbn [merge_keys] in H. injection H as <- <-.
    destruct q; reflexivity.
  - (* BCons *) intros k b IHb r IHr f path ks' ws H q. cbn [merge_keys] in H.
    destruct (merge_value suppress top dt ns b
                (fst match forest_get f k with
                     | Some v => (v, [])
                     | None => (Null, if is_implicit dt then [WMissing top ns (path ++ [k])] else [])
                     end) (path ++ [k])) as [[b1 w1]| | |] eqn:Hv; try discriminate.
    destruct (merge_keys suppress top dt ns r f path) as [[r1 w2]| | |] eqn:Hr; try discriminate.
    injection H as <- <-. destruct q as [|k0 q]; [now rewrite !bks_leaf_nil|].
    rewrite !bks_leaf_cons, defines_cons. destruct (k0 =? k) eqn:He.
    + apply N.eqb_eq in He. subst k0. rewrite (IHb _ _ _ _ Hv).
      destruct (forest_get f k) as [t|]; cbn [fst]; [reflexivity|].
      destruct q; reflexivity.
    + rewrite (IHr _ _ _ _ Hr). now rewrite defines_cons.
Qed.

Lemma merge_locale_leaf : forall suppress top dt ns ks f path ks' ws,
  merge_locale suppress top dt ns ks f path = Ok (ks', ws) ->
  forall q, bks_leaf ks' q = option_map (upd top dt (defines f q)) (bks_leaf ks q).
Proof.
  intros suppress top dt ns ks f path ks' ws H. unfold merge_locale, finish_locale in H.
  destruct (merge_keys suppress top dt ns ks f path) as [[ks1 w]| | |] eqn:Hm; try discriminate.
  injection H as <- <-. exact (proj2 (merge_leaf_mut suppress top dt ns) _ _ _ _ _ Hm).
Qed.

(** * The builder keys made from the default locale *)
Definition tree_payload (t : tree) (q : list key) : option N :=
  match q with
  | [] => match t with Leaf x => Some x | _ => None end
  | _ => match t with Group g => payload_at g q | _ => None end
  end.
Lemma payload_at_cons : forall f k q,
  payload_at f (k :: q) = match forest_get f k with Some t => tree_payload t q | None => None end.
Proof.
  intros f k q. unfold payload_at, tree_payload. cbn [forest_at].
  destruct (forest_get f k) as [t|]; [|reflexivity].
  destruct q as [|k1 q]; [reflexivity|]. destruct t; reflexivity.
Qed.
Lemma payload_defines : forall f q x, payload_at f q = Some x -> defines f q = true.
Proof.
  intros f q x. unfold payload_at, defines. destruct (forest_at f q) as [[y| |g]|]; congruence.
Qed.

Lemma mk_leaf_mut : forall dflt ns,
  (forall t path b, mk_value dflt ns path t = Ok b ->
     forall q, bk_leaf b q = option_map (fun x => (x, dl_new dflt)) (tree_payload t q))
  /\ (forall f path ks, mk_keys dflt ns path f = Ok ks ->
     forall q, bks_leaf ks q = option_map (fun x => (x, dl_new dflt)) (payload_at f q)).
Proof.
  intros dflt ns. apply tree_forest_mutind.
  - intros p path b H q. cbn [mk_value] in H. injection H as <-. destruct q; reflexivity.
  - intros path b H. discriminate.
  - intros g IH path b H q. cbn [mk_value] in H.
    destruct (mk_keys dflt ns path g) as [ks| | |] eqn:Hk; try discriminate. injection H as <-.
    destruct q as [|k q]; [reflexivity|]. cbn [bk_leaf tree_payload]. apply (IH _ _ Hk).
  - intros path ks H q. cbn [mk_keys] in H. injection H as <-. destruct q; reflexivity.
  - intros k t IHt r IHr path ks H q. cbn [mk_keys] in H.
    destruct (mk_value dflt ns (path ++ [k]) t) as [b| | |] eqn:Hv; try discriminate.
    destruct (mk_keys dflt ns path r) as [bs| | |] eqn:Hr; try discriminate. injection H as <-.
    destruct q as [|k0 q]; [now rewrite bks_leaf_nil|].
    rewrite bks_leaf_cons, payload_at_cons. cbn [forest_get]. destruct (k0 =? k).
    + apply (IHt _ _ Hv).
    + rewrite (IHr _ _ Hr). now rewrite payload_at_cons.
Qed.

(** * All locales merged: the mapping of a value path *)
Definition push_if_undefined (ext : list (loc * loc)) (suppress : bool) (dflt : loc) (q : list key)
           (d : dl) (lf : loc * forest) : dl :=
  if defines (snd lf) q then d
  else dl_push d (fst lf) (dt_key (choose_default_to ext suppress dflt (fst lf))).

Lemma merge_all_leaf : forall ext suppress dflt ns locs ks ks' ws,
  merge_all ext suppress dflt ns ks locs = Ok (ks', ws) ->
  forall q, bks_leaf ks' q =
            option_map (fun pd => (fst pd, fold_left (push_if_undefined ext suppress dflt q) locs (snd pd)))
                       (bks_leaf ks q).
Proof.
  intros ext suppress dflt ns. induction locs as [|[l f] rest IH]; intros ks ks' ws H q; cbn [merge_all] in H.
  - injection H as <- <-. cbn [fold_left]. destruct (bks_leaf ks q) as [[p d]|]; reflexivity.
  - destruct (merge_locale suppress l (choose_default_to ext suppress dflt l) ns ks f []) as [[ks1 w1]| | |] eqn:Hm;
      try discriminate.
    destruct (merge_all ext suppress dflt ns ks1 rest) as [[ks2 w2]| | |] eqn:Hr; try discriminate.
    injection H as <- <-. rewrite (IH _ _ _ Hr q), (merge_locale_leaf _ _ _ _ _ _ _ _ _ Hm q).
    destruct (bks_leaf ks q) as [[p d]|]; [|reflexivity]. cbn [option_map fold_left fst snd upd].
    unfold push_if_undefined at 2. cbn [fst snd]. reflexivity.
Qed.

Lemma fold_push_default : forall ext suppress dflt q locs d,
  dl_default (fold_left (push_if_undefined ext suppress dflt q) locs d) = dl_default d.
Proof.
  intros ext suppress dflt q. induction locs as [|lf rest IH]; intros d; cbn [fold_left]; [reflexivity|].
  rewrite IH. unfold push_if_undefined. destruct (defines (snd lf) q); reflexivity.
Qed.

Lemma fold_push_length : forall ext suppress dflt q locs d,
  (length (dl_map (fold_left (push_if_undefined ext suppress dflt q) locs d)) <= length (dl_map d) + length locs)%nat.
Proof.
  intros ext suppress dflt q. induction locs as [|lf rest IH]; intros d; cbn [fold_left length]; [lia|].
  specialize (IH (push_if_undefined ext suppress dflt q d lf)).
  assert (length (dl_map (push_if_undefined ext suppress dflt q d lf)) <= S (length (dl_map d)))%nat.
  { unfold push_if_undefined. destruct (defines (snd lf) q); [lia|]. cbn [dl_push dl_map]. apply map_insert_length. }
  lia.
Qed.

Lemma find_none_names : forall (locs : list (loc * forest)) x,
  ~ In x (map fst locs) -> find (fun lf => fst lf =? x) locs = None.
Proof.
  induction locs as [|[l f] rest IH]; intros x H; cbn [find fst]; [reflexivity|].
  cbn [map fst In] in H. destruct (l =? x) eqn:He; [apply N.eqb_eq in He; tauto|]. apply IH. tauto.
Qed.

Lemma fold_push_get : forall ext suppress dflt q locs d x,
  NoDup (map fst locs) ->
  map_get (dl_map (fold_left (push_if_undefined ext suppress dflt q) locs d)) x =
  match find (fun lf => fst lf =? x) locs with
  | Some lf => if defines (snd lf) q then map_get (dl_map d) x
               else Some (dt_key (choose_default_to ext suppress dflt x))
  | None => map_get (dl_map d) x
  end.
Proof.
  intros ext suppress dflt q. induction locs as [|[l f] rest IH]; intros d x Hnd; cbn [fold_left find fst]; [reflexivity|].
  cbn [map fst] in Hnd. inversion Hnd as [|? ? Hnin Hnd']; subst.
  rewrite (IH _ x Hnd'). destruct (l =? x) eqn:He.
  - apply N.eqb_eq in He. subst x. rewrite (find_none_names _ _ Hnin).
    unfold push_if_undefined. cbn [fst snd]. destruct (defines f q); [reflexivity|].
    cbn [dl_push dl_map]. apply map_get_insert_same.
  - apply N.eqb_neq in He.
    assert (Hsame : map_get (dl_map (push_if_undefined ext suppress dflt q d (l, f))) x = map_get (dl_map d) x).
    { unfold push_if_undefined. cbn [fst snd]. destruct (defines f q); [reflexivity|].
      cbn [dl_push dl_map]. apply map_get_insert_other. congruence. }
    rewrite Hsame. reflexivity.
Qed.

Lemma find_some_names : forall (locs : list (loc * forest)) x,
  In x (map fst locs) -> exists f, find (fun lf => fst lf =? x) locs = Some (x, f).
Proof.
  induction locs as [|[l f] rest IH]; intros x H; cbn [map fst In] in H; [contradiction|].
  cbn [find fst]. destruct (l =? x) eqn:He.
  - apply N.eqb_eq in He. subst. eauto.
  - destruct H as [H|H]; [subst; now rewrite N.eqb_refl in He | auto].
Qed.

(** ** C03, end to end on the model: every locale resolves to the first locale of its
    `inherits` walk whose file defines the key, else to the default *)
Theorem check_locales_inner_resolution : forall ext suppress ns dflt df rest ks ws,
  check_locales_inner ext suppress ns ((dflt, df) :: rest) = Ok (ks, ws) ->
  NoDup (dflt :: map fst rest) ->
  (forall x y, map_get ext x = Some y -> In x (map fst rest) /\ (y = dflt \/ In y (map fst rest))) ->
  forall q pay d, bks_leaf ks q = Some (pay, d) ->
    payload_at df q = Some pay /\ dl_default d = dflt
    /\ (forall x, map_get (dl_map d) x =
          if mem x (map fst rest) && negb (defines (files_get ((dflt, df) :: rest) x) q)
          then Some (match map_get ext x with Some y => y | None => dflt end) else None)
    /\ forall l, l = dflt \/ In l (map fst rest) ->
         default_of d l =
         first_defined (map_get ext) (fun x => defines (files_get ((dflt, df) :: rest) x) q) dflt
                       (length ((dflt, df) :: rest)) l.
Proof.
  intros ext suppress ns dflt df rest ks ws H Hnd Hext q pay d Hleaf.
  cbn [check_locales_inner] in H.
  destruct (mk_keys dflt ns [] df) as [ks0| | |] eqn:Hk; try discriminate.
  rewrite (merge_all_leaf _ _ _ _ _ _ _ _ H q) in Hleaf.
  rewrite (proj2 (mk_leaf_mut dflt ns) _ _ _ Hk q) in Hleaf.
  destruct (payload_at df q) as [pay0|] eqn:Hpay; [|discriminate].
  cbn [option_map fst snd] in Hleaf. injection Hleaf as <- <-.
  inversion Hnd as [|? ? Hdnin Hnd']; subst.
  assert (Hget : forall x, map_get (dl_map (fold_left (push_if_undefined ext suppress dflt q) rest (dl_new dflt))) x =
          if mem x (map fst rest) && negb (defines (files_get ((dflt, df) :: rest) x) q)
          then Some (match map_get ext x with Some y => y | None => dflt end) else None).
  { intros x. rewrite (fold_push_get _ _ _ _ _ _ x Hnd'). cbn [dl_new dl_map map_get].
    destruct (mem x (map fst rest)) eqn:Hmem.
    - apply mem_In in Hmem. destruct (find_some_names _ _ Hmem) as [f Hf]. rewrite Hf. cbn [snd].
      assert (Hfg : files_get ((dflt, df) :: rest) x = f).
      { unfold files_get. cbn [find fst]. destruct (dflt =? x) eqn:He.
        - apply N.eqb_eq in He. subst. contradiction.
        - now rewrite Hf. }
      rewrite Hfg. destruct (defines f q); [reflexivity|]. cbn [andb negb].
      unfold choose_default_to. destruct (map_get ext x); [reflexivity|]. destruct suppress; reflexivity.
    - apply mem_false in Hmem. now rewrite (find_none_names _ _ Hmem). }
  split; [reflexivity|]. split; [apply fold_push_default|]. split; [exact Hget|].
  intros l Hl.
  set (d := fold_left (push_if_undefined ext suppress dflt q) rest (dl_new dflt)) in *.
  assert (Hdd : dl_default d = dflt) by apply fold_push_default.
  assert (Hgoal : default_of d l =
            first_defined (map_get ext) (fun x => defines (files_get ((dflt, df) :: rest) x) q) (dl_default d)
                          (length ((dflt, df) :: rest)) l).
  { apply default_of_first_defined with (others := map fst rest).
    - intros x Hx. rewrite Hget. rewrite (proj2 (mem_In _ _) Hx). cbn [andb].
      rewrite Hdd. destruct (defines (files_get ((dflt, df) :: rest) x) q); reflexivity.
    - intros x Hx. rewrite Hget. now rewrite (proj2 (mem_false _ _) Hx).
    - now rewrite Hdd.
    - rewrite Hdd. unfold files_get. cbn [find fst]. rewrite N.eqb_refl. cbn [snd].
      eapply payload_defines; eauto.
    - rewrite Hdd. exact Hext.
    - pose proof (fold_push_length ext suppress dflt q rest (dl_new dflt)) as Hlen.
      cbn [dl_new dl_map length] in Hlen. fold d in Hlen. cbn [length]. lia.
    - now rewrite Hdd. }
  now rewrite Hdd in Hgoal.
Qed.

Lemma first_defined_cases : forall inh present dflt F l,
  let r := first_defined inh present dflt F l in present r = true \/ r = dflt.
Proof.
  intros inh present dflt. induction F as [|F IH]; intros l; cbn [first_defined].
  - destruct (present l) eqn:Hp; [now left | now right].
  - destruct (present l) eqn:Hp; [now left|]. destruct (inh l) as [y|]; [apply IH | now right].
Qed.

Lemma first_defined_closed : forall (inh : loc -> option loc) present dflt (S : loc -> Prop),
  S dflt -> (forall x y, inh x = Some y -> S y) ->
  forall F l, S l -> S (first_defined inh present dflt F l).
Proof.
  intros inh present dflt S Hd Hclo. induction F as [|F IH]; intros l Hl; cbn [first_defined].
  - destruct (present l); assumption.
  - destruct (present l); [assumption|]. destruct (inh l) as [y|] eqn:Hi; [apply IH; eauto | assumption].
Qed.

(** the match arms generated from compute(): their heads define the key (or are the default),
    hence together with the defining locales' own arms the match is exhaustive and disjoint *)
Theorem check_locales_inner_targets : forall ext suppress ns dflt df rest ks ws,
  check_locales_inner ext suppress ns ((dflt, df) :: rest) = Ok (ks, ws) ->
  NoDup (dflt :: map fst rest) ->
  (forall x y, map_get ext x = Some y -> In x (map fst rest) /\ (y = dflt \/ In y (map fst rest))) ->
  forall q pay d, bks_leaf ks q = Some (pay, d) ->
  forall t, In t (map fst (compute d)) ->
    (t = dflt \/ In t (map fst rest)) /\ defines (files_get ((dflt, df) :: rest) t) q = true.
Proof.
  intros ext suppress ns dflt df rest ks ws H Hnd Hext q pay d Hleaf t Ht.
  destruct (check_locales_inner_resolution _ _ _ _ _ _ _ _ H Hnd Hext q pay d Hleaf) as [Hpay [Hdd [Hget Hres]]].
  destruct (compute_keys _ _ Ht) as [x [Hx <-]].
  destruct (In_map_get_Some _ _ Hx) as [v Hv]. rewrite Hget in Hv.
  destruct (mem x (map fst rest)) eqn:Hmem; [|discriminate]. apply mem_In in Hmem.
  rewrite (Hres x (or_intror Hmem)).
  assert (Hdef_d : defines (files_get ((dflt, df) :: rest) dflt) q = true).
  { unfold files_get. cbn [find fst]. rewrite N.eqb_refl. cbn [snd]. eapply payload_defines; eauto. }
  split.
  - apply first_defined_closed with (S := fun y => y = dflt \/ In y (map fst rest)).
    + now left.
    + intros a b Hab. exact (proj2 (Hext _ _ Hab)).
    + now right.
  - match goal with |- defines (files_get _ (first_defined ?i ?p ?d ?F ?l)) _ = true =>
      destruct (first_defined_cases i p d F l) as [Hc|Hc] end.
    + exact Hc.
    + rewrite Hc. exact Hdef_d.
Qed.

(** * Uniformity over subkey groups *)
Lemma undefined_below : forall g f q',
  g <> [] -> (forest_at f g = None \/ forest_at f g = Some Null) -> defines f (g ++ q') = false.
Proof.
  induction g as [|k g IH]; intros f q' Hne Hat; [congruence|].
  cbn [app]. rewrite defines_cons. cbn [forest_at] in Hat.
  destruct (forest_get f k) as [t|]; [|reflexivity].
  destruct g as [|k1 g].
  - destruct Hat as [Hat|Hat]; [discriminate|]. injection Hat as ->. destruct q'; reflexivity.
  - destruct t as [x| |h]; try reflexivity.
    cbn [app tree_defines]. change (k1 :: g ++ q') with ((k1 :: g) ++ q'). apply IH; [discriminate | assumption].
Qed.

Theorem merge_uniform : forall suppress top dt ns ks f path ks' ws,
  merge_locale suppress top dt ns ks f path = Ok (ks', ws) ->
  forall g, g <> [] -> (forest_at f g = None \/ forest_at f g = Some Null) ->
  forall q' pay d, bks_leaf ks (g ++ q') = Some (pay, d) ->
    bks_leaf ks' (g ++ q') = Some (pay, dl_push d top (dt_key dt)).
Proof.
  intros suppress top dt ns ks f path ks' ws H g Hne Hat q' pay d Hleaf.
  rewrite (merge_locale_leaf _ _ _ _ _ _ _ _ _ H), Hleaf. cbn [option_map upd fst snd].
  now rewrite (undefined_below _ _ _ Hne Hat).
Qed.

Theorem compute_partition : forall d,
  map_get (dl_map d) (dl_default d) = None ->
  (forall t x, gmem (compute d) t x <-> In x (map fst (dl_map d)) /\ default_of d x = t)
  /\ (forall t, In t (map fst (compute d)) -> map_get (dl_map d) t = None).
Proof.
  intros d Hd. split; [apply compute_gmem|].
  intros t Ht. destruct (compute_keys _ _ Ht) as [x [_ <-]]. now apply default_of_target_unmapped.
Qed.

(** * C07: the key set is the default locale's *)
Lemma mk_paths_mut : forall dflt ns,
  (forall t path b, mk_value dflt ns path t = Ok b -> bk_paths b path = tree_paths t path)
  /\ (forall f path ks, mk_keys dflt ns path f = Ok ks -> bks_paths ks path = forest_paths f path).
Proof.
  intros dflt ns. apply tree_forest_mutind.
  - intros p path b H. cbn [mk_value] in H. injection H as <-. reflexivity.
  - intros path b H. discriminate.
  - intros g IH path b H. cbn [mk_value] in H.
    destruct (mk_keys dflt ns path g) as [ks| | |] eqn:Hk; try discriminate. injection H as <-.
    cbn [bk_paths tree_paths]. now rewrite (IH _ _ Hk).
  - intros path ks H. cbn [mk_keys] in H. injection H as <-. reflexivity.
  - intros k t IHt r IHr path ks H. cbn [mk_keys] in H.
    destruct (mk_value dflt ns (path ++ [k]) t) as [b| | |] eqn:Hv; try discriminate.
    destruct (mk_keys dflt ns path r) as [bs| | |] eqn:Hr; try discriminate. injection H as <-.
    cbn [bks_paths forest_paths]. now rewrite (IHt _ _ Hv), (IHr _ _ Hr).
Qed.

Lemma merge_paths_mut : forall suppress top dt ns,
  (forall b v path b' ws, merge_value suppress top dt ns b v path = Ok (b', ws) ->
     forall p0, bk_paths b' p0 = bk_paths b p0)
  /\ (forall ks f path ks' ws, merge_keys suppress top dt ns ks f path = Ok (ks', ws) ->
     forall p0, bks_paths ks' p0 = bks_paths ks p0).
Proof.
  intros suppress top dt ns. apply bk_bks_mutind.
  - intros p d v path b' ws H p0. cbn [merge_value] in H.
    destruct v as [x| |g]; [| |discriminate]; injection H as <- <-; reflexivity.
  - intros fk ks IH v path b' ws H p0. cbn [merge_value] in H.
    destruct v as [x| |g]; [discriminate| |]; unfold finish_locale in H.
    + destruct (merge_keys suppress top dt ns ks (dummy_forest fk) path) as [[ks' w]| | |] eqn:Hm; try discriminate.
      injection H as <- <-. cbn [bk_paths]. now rewrite (IH _ _ _ _ Hm).
    + destruct (merge_keys suppress top dt ns ks g path) as [[ks' w]| | |] eqn:Hm; try discriminate.
      injection H as <- <-. cbn [bk_paths]. now rewrite (IH _ _ _ _ Hm).
  - intros f path ks' ws H p0. cbn [merge_keys] in H. injection H as <- <-. reflexivity.
  - intros k b IHb r IHr f path ks' ws H p0. cbn [merge_keys] in H.
    destruct (merge_value suppress top dt ns b
                (fst match forest_get f k with
                     | Some v => (v, [])
                     | None => (Null, if is_implicit dt then [WMissing top ns (path ++ [k])] else [])
                     end) (path ++ [k])) as [[b1 w1]| | |] eqn:Hv; try discriminate.
    destruct (merge_keys suppress top dt ns r f path) as [[r1 w2]| | |] eqn:Hr; try discriminate.
    injection H as <- <-. cbn [bks_paths]. now rewrite (IHb _ _ _ _ Hv), (IHr _ _ _ _ Hr).
Qed.

Lemma merge_all_paths : forall ext suppress dflt ns locs ks ks' ws,
  merge_all ext suppress dflt ns ks locs = Ok (ks', ws) -> forall p0, bks_paths ks' p0 = bks_paths ks p0.
Proof.
  intros ext suppress dflt ns. induction locs as [|[l f] rest IH]; intros ks ks' ws H p0; cbn [merge_all] in H.
  - now injection H as <- <-.
  - destruct (merge_locale suppress l (choose_default_to ext suppress dflt l) ns ks f []) as [[ks1 w1]| | |] eqn:Hm;
      try discriminate.
    destruct (merge_all ext suppress dflt ns ks1 rest) as [[ks2 w2]| | |] eqn:Hr; try discriminate.
    injection H as <- <-. rewrite (IH _ _ _ Hr). unfold merge_locale, finish_locale in Hm.
    destruct (merge_keys suppress l (choose_default_to ext suppress dflt l) ns ks f []) as [[ks3 w3]| | |] eqn:Hk;
      try discriminate.
    injection Hm as <- <-. exact (proj2 (merge_paths_mut _ _ _ _) _ _ _ _ _ Hk p0).
Qed.

(** the accessible key paths are the default file's, whatever the other locales hold *)
Theorem keyset_is_default : forall ext suppress ns dflt df rest ks ws,
  check_locales_inner ext suppress ns ((dflt, df) :: rest) = Ok (ks, ws) ->
  bks_paths ks [] = forest_paths df [].
Proof.
  intros ext suppress ns dflt df rest ks ws H. cbn [check_locales_inner] in H.
  destruct (mk_keys dflt ns [] df) as [ks0| | |] eqn:Hk; try discriminate.
  rewrite (merge_all_paths _ _ _ _ _ _ _ _ H). exact (proj2 (mk_paths_mut dflt ns) _ _ _ Hk).
Qed.

(** a null in the default locale is an error, and the only one make_builder_keys raises *)
Lemma mk_null_mut : forall dflt ns,
  (forall t path, match mk_value dflt ns path t with
                  | Ok _ => has_null t = false
                  | Err (EExplicitDefaultInDefault ns' _) => has_null t = true /\ ns' = ns
                  | _ => False end)
  /\ (forall f path, match mk_keys dflt ns path f with
                     | Ok _ => forest_has_null f = false
                     | Err (EExplicitDefaultInDefault ns' _) => forest_has_null f = true /\ ns' = ns
                     | _ => False end).
Proof.
  intros dflt ns. apply tree_forest_mutind.
  - intros p path. reflexivity.
  - intros path. cbn [mk_value has_null]. now split.
  - intros g IH path. cbn [mk_value has_null]. specialize (IH path).
    destruct (mk_keys dflt ns path g) as [ks|[l n p|n p]| |]; try contradiction; assumption.
  - intros path. reflexivity.
  - intros k t IHt r IHr path. cbn [mk_keys forest_has_null].
    specialize (IHt (path ++ [k])). specialize (IHr path).
    destruct (mk_value dflt ns (path ++ [k]) t) as [b|[l n p|n p]| |]; try contradiction.
    + rewrite IHt. cbn [orb].
      destruct (mk_keys dflt ns path r) as [bs|[l n p|n p]| |]; try contradiction; assumption.
    + destruct IHt as [-> ->]. now split.
Qed.

Theorem default_null_rejected : forall ext suppress ns dflt df rest,
  forest_has_null df = true ->
  exists p, check_locales_inner ext suppress ns ((dflt, df) :: rest) = Err (EExplicitDefaultInDefault ns p).
Proof.
  intros ext suppress ns dflt df rest Hn. cbn [check_locales_inner].
  pose proof (proj2 (mk_null_mut dflt ns) df []) as H.
  destruct (mk_keys dflt ns [] df) as [ks|[l n p|n p]| |]; try contradiction; try congruence.
  destruct H as [_ ->]. eauto.
Qed.

Theorem default_null_only : forall ext suppress ns dflt df rest ns' p,
  check_locales_inner ext suppress ns ((dflt, df) :: rest) = Err (EExplicitDefaultInDefault ns' p) ->
  forest_has_null df = true.
Proof.
  intros ext suppress ns dflt df rest ns' p H. cbn [check_locales_inner] in H.
  pose proof (proj2 (mk_null_mut dflt ns) df []) as Hm.
  destruct (mk_keys dflt ns [] df) as [ks|[l n q|n q]| |]; try contradiction; try discriminate.
  - exfalso. revert ks H. clear Hm.
    assert (Hv : forall top dt,
      (forall b v path, merge_value suppress top dt ns b v path <> Err (EExplicitDefaultInDefault ns' p))
      /\ (forall ks f path, merge_keys suppress top dt ns ks f path <> Err (EExplicitDefaultInDefault ns' p))).
    { intros top dt. apply bk_bks_mutind.
      - intros pay d v path. cbn [merge_value]. destruct v; discriminate.
      - intros fk ks IH v path. cbn [merge_value]. destruct v as [x| |g]; [discriminate| |]; unfold finish_locale.
        + specialize (IH (dummy_forest fk) path).
          destruct (merge_keys suppress top dt ns ks (dummy_forest fk) path) as [[ks' w]|e| |]; congruence.
        + specialize (IH g path).
          destruct (merge_keys suppress top dt ns ks g path) as [[ks' w]|e| |]; congruence.
      - intros f path. discriminate.
      - intros k b IHb r IHr f path. cbn [merge_keys].
        match goal with |- context [merge_value ?s ?t ?d ?n b ?v ?pp] => specialize (IHb v pp);
          destruct (merge_value s t d n b v pp) as [[b1 w1]|e| |] end; try congruence.
        specialize (IHr f path).
        destruct (merge_keys suppress top dt ns r f path) as [[r1 w2]|e| |]; congruence. }
    induction rest as [|[l f] rest IH]; intros ks H; cbn [merge_all] in H; [discriminate|].
    unfold merge_locale, finish_locale in H.
    pose proof (proj2 (Hv l (choose_default_to ext suppress dflt l)) ks f []) as Hk.
    destruct (merge_keys suppress l (choose_default_to ext suppress dflt l) ns ks f []) as [[ks1 w1]|e| |];
      try congruence.
    destruct (merge_all ext suppress dflt ns ks1 rest) as [[ks2 w2]|e| |] eqn:Hr; try discriminate.
    injection H as ->. eapply IH; eauto.
  - now destruct Hm.
Qed.

(** with suppress_key_warnings no warning at all is produced *)
Lemma merge_suppressed_mut : forall top d0 ns,
  (forall b v path b' ws, merge_value true top (Explicit d0) ns b v path = Ok (b', ws) -> ws = [])
  /\ (forall ks f path ks' ws, merge_keys true top (Explicit d0) ns ks f path = Ok (ks', ws) -> ws = []).
Proof.
  intros top d0 ns. apply bk_bks_mutind.
  - intros p d v path b' ws H. cbn [merge_value] in H.
    destruct v as [x| |g]; [| |discriminate]; now injection H as <- <-.
  - intros fk ks IH v path b' ws H. cbn [merge_value] in H.
    destruct v as [x| |g]; [discriminate| |]; unfold finish_locale in H.
    + destruct (merge_keys true top (Explicit d0) ns ks (dummy_forest fk) path) as [[ks' w]| | |] eqn:Hm; try discriminate.
      injection H as <- <-. rewrite (IH _ _ _ _ Hm). reflexivity.
    + destruct (merge_keys true top (Explicit d0) ns ks g path) as [[ks' w]| | |] eqn:Hm; try discriminate.
      injection H as <- <-. rewrite (IH _ _ _ _ Hm). reflexivity.
  - intros f path ks' ws H. cbn [merge_keys] in H. now injection H as <- <-.
  - intros k b IHb r IHr f path ks' ws H. cbn [merge_keys] in H.
    destruct (merge_value true top (Explicit d0) ns b
                (fst match forest_get f k with
                     | Some v => (v, [])
                     | None => (Null, if is_implicit (Explicit d0) then [WMissing top ns (path ++ [k])] else [])
                     end) (path ++ [k])) as [[b1 w1]| | |] eqn:Hv; try discriminate.
    destruct (merge_keys true top (Explicit d0) ns r f path) as [[r1 w2]| | |] eqn:Hr; try discriminate.
    injection H as <- <-. rewrite (IHb _ _ _ _ Hv), (IHr _ _ _ _ Hr).
    destruct (forest_get f k); reflexivity.
Qed.

Theorem suppressed_no_warnings : forall ext ns locs ks ws,
  check_locales_inner ext true ns locs = Ok (ks, ws) -> ws = [].
Proof.
  intros ext ns [|[dflt df] rest] ks ws H; cbn [check_locales_inner] in H; [discriminate|].
  destruct (mk_keys dflt ns [] df) as [ks0| | |]; try discriminate.
  revert ks0 ks ws H. induction rest as [|[l f] rest IH]; intros ks0 ks ws H; cbn [merge_all] in H.
  - now injection H as <- <-.
  - unfold merge_locale, finish_locale in H.
    assert (Hdt : exists d0, choose_default_to ext true dflt l = Explicit d0).
    { unfold choose_default_to. destruct (map_get ext l); eauto. }
    destruct Hdt as [d0 Hdt]. rewrite Hdt in H.
    destruct (merge_keys true l (Explicit d0) ns ks0 f []) as [[ks1 w1]| | |] eqn:Hk; try discriminate.
    destruct (merge_all ext true dflt ns ks1 rest) as [[ks2 w2]| | |] eqn:Hr; try discriminate.
    injection H as <- <-. rewrite (proj2 (merge_suppressed_mut _ _ _) _ _ _ _ _ Hk), (IH _ _ _ Hr). reflexivity.
Qed.

(** * C07: a successful merge means no group/value mismatch *)
Definition bk_at (b : bk) (q : list key) : option bk :=
  match q with [] => Some b | _ => match b with BSub _ ks => bks_at ks q | _ => None end end.
Definition tree_at (t : tree) (q : list key) : option tree :=
  match q with [] => Some t | _ => match t with Group g => forest_at g q | _ => None end end.
Definition bk_is_group (b : bk) : bool := match b with BSub _ _ => true | BValue _ _ => false end.
Definition kind_ok (b : bk) (t : tree) : bool :=
  match t with Leaf _ => negb (bk_is_group b) | Group _ => bk_is_group b | Null => true end.

Lemma bks_at_cons : forall k b r k0 q,
  bks_at (BCons k b r) (k0 :: q) = if k0 =? k then bk_at b q else bks_at r (k0 :: q).
Proof.
  intros k b r k0 q. unfold bk_at. cbn [bks_at bks_get]. destruct (k0 =? k); [|reflexivity].
  destruct q; [reflexivity|]. destruct b; reflexivity.
Qed.
Lemma forest_at_cons : forall f k q,
  forest_at f (k :: q) = match forest_get f k with Some t => tree_at t q | None => None end.
Proof.
  intros f k q. unfold tree_at. cbn [forest_at]. destruct (forest_get f k) as [t|]; [|reflexivity].
  destruct q; [reflexivity|]. destruct t; reflexivity.
Qed.

Lemma merge_ok_kinds_mut : forall suppress top dt ns,
  (forall b v path b' ws, merge_value suppress top dt ns b v path = Ok (b', ws) ->
     forall q b0 t, bk_at b q = Some b0 -> tree_at v q = Some t -> kind_ok b0 t = true)
  /\ (forall ks f path ks' ws, merge_keys suppress top dt ns ks f path = Ok (ks', ws) ->
     forall q b0 t, bks_at ks q = Some b0 -> forest_at f q = Some t -> kind_ok b0 t = true).
Proof.
  intros suppress top dt ns. apply bk_bks_mutind.
  - intros p d v path b' ws H q b0 t Hb Ht. cbn [merge_value] in H.
    destruct q as [|k q]; [|discriminate]. cbn [bk_at tree_at] in Hb, Ht. injection Hb as <-. injection Ht as <-.
    destruct v; [reflexivity | reflexivity | discriminate].
  - intros fk ks IH v path b' ws H q b0 t Hb Ht. cbn [merge_value] in H.
    destruct v as [x| |g]; [discriminate| |]; unfold finish_locale in H.
    + destruct q as [|k q]; [|discriminate]. cbn [bk_at tree_at] in Hb, Ht. injection Hb as <-. now injection Ht as <-.
    + destruct (merge_keys suppress top dt ns ks g path) as [[ks' w]| | |] eqn:Hm; try discriminate.
      destruct q as [|k q].
      * cbn [bk_at tree_at] in Hb, Ht. injection Hb as <-. now injection Ht as <-.
      * cbn [bk_at tree_at] in Hb, Ht. exact (IH _ _ _ _ Hm _ _ _ Hb Ht).
  - intros f path ks' ws H q b0 t Hb. destruct q; discriminate.
  - intros k b IHb r IHr f path ks' ws H q b0 t Hb Ht. cbn [merge_keys] in H.
    destruct (merge_value suppress top dt ns b
                (fst match forest_get f k with
                     | Some v => (v, [])
                     | None => (Null, if is_implicit dt then [WMissing top ns (path ++ [k])] else [])
                     end) (path ++ [k])) as [[b1 w1]| | |] eqn:Hv; try discriminate.
    destruct (merge_keys suppress top dt ns r f path) as [[r1 w2]| | |] eqn:Hr; try discriminate.
    destruct q as [|k0 q]; [discriminate|].
    rewrite bks_at_cons in Hb. rewrite forest_at_cons in Ht. destruct (k0 =? k) eqn:He.
    + apply N.eqb_eq in He. subst k0. destruct (forest_get f k) as [t'|]; [|discriminate].
      cbn [fst] in Hv. exact (IHb _ _ _ _ Hv _ _ _ Hb Ht).
    + rewrite <- forest_at_cons in Ht. exact (IHr _ _ _ _ Hr _ _ _ Hb Ht).
Qed.

(* the group/value shape of the builder keys is the default file's, and merging keeps it *)
Lemma mk_kind_mut : forall dflt ns,
  (forall t path b, mk_value dflt ns path t = Ok b ->
     forall q, option_map bk_is_group (bk_at b q)
               = option_map (fun x => match x with Group _ => true | _ => false end) (tree_at t q))
  /\ (forall f path ks, mk_keys dflt ns path f = Ok ks ->
     forall q, option_map bk_is_group (bks_at ks q)
               = option_map (fun x => match x with Group _ => true | _ => false end) (forest_at f q)).
Proof.
  intros dflt ns. apply tree_forest_mutind.
  - intros p path b H q. cbn [mk_value] in H. injection H as <-. destruct q; reflexivity.
  - intros path b H. discriminate.
  - intros g IH path b H q. cbn [mk_value] in H.
    destruct (mk_keys dflt ns path g) as [ks| | |] eqn:Hk; try discriminate. injection H as <-.
    destruct q as [|k q]; [reflexivity|]. cbn [bk_at tree_at]. apply (IH _ _ Hk).
  - intros path ks H q. cbn [mk_keys] in H. injection H as <-. destruct q; reflexivity.
  - intros k t IHt r IHr path ks H q. cbn [mk_keys] in H.
    destruct (mk_value dflt ns (path ++ [k]) t) as [b| | |] eqn:Hv; try discriminate.
    destruct (mk_keys dflt ns path r) as [bs| | |] eqn:Hr; try discriminate. injection H as <-.
    destruct q as [|k0 q]; [reflexivity|].
    rewrite bks_at_cons, forest_at_cons. cbn [forest_get]. destruct (k0 =? k).
    + apply (IHt _ _ Hv).
    + rewrite (IHr _ _ Hr). now rewrite forest_at_cons.
Qed.

Lemma merge_kind_mut : forall suppress top dt ns,
  (forall b v path b' ws, merge_value suppress top dt ns b v path = Ok (b', ws) ->
     forall q, option_map bk_is_group (bk_at b' q) = option_map bk_is_group (bk_at b q))
  /\ (forall ks f path ks' ws, merge_keys suppress top dt ns ks f path = Ok (ks', ws) ->
     forall q, option_map bk_is_group (bks_at ks' q) = option_map bk_is_group (bks_at ks q)).
Proof.
  intros suppress top dt ns. apply bk_bks_mutind.
  - intros p d v path b' ws H q. cbn [merge_value] in H.
    destruct v as [x| |g]; [| |discriminate]; injection H as <- <-; destruct q; reflexivity.
  - intros fk ks IH v path b' ws H q. cbn [merge_value] in H.
    destruct v as [x| |g]; [discriminate| |]; unfold finish_locale in H.
    + destruct (merge_keys suppress top dt ns ks (dummy_forest fk) path) as [[ks' w]| | |] eqn:Hm; try discriminate.
      injection H as <- <-. destruct q as [|k q]; [reflexivity|]. cbn [bk_at]. apply (IH _ _ _ _ Hm).
    + destruct (merge_keys suppress top dt ns ks g path) as [[ks' w]| | |] eqn:Hm; try discriminate.
      injection H as <- <-. destruct q as [|k q]; [reflexivity|]. cbn [bk_at]. apply (IH _ _ _ _ Hm).
  - intros f path ks' ws H q. cbn [merge_keys] in H. now injection H as <- <-.
  - intros k b IHb r IHr f path ks' ws H q. cbn [merge_keys] in H.
    destruct (merge_value suppress top dt ns b
                (fst match forest_get f k with
                     | Some v => (v, [])
                     | None => (Null, if is_implicit dt then [WMissing top ns (path ++ [k])] else [])
                     end) (path ++ [k])) as [[b1 w1]| | |] eqn:Hv; try discriminate.
    destruct (merge_keys suppress top dt ns r f path) as [[r1 w2]| | |] eqn:Hr; try discriminate.
    injection H as <- <-. destruct q as [|k0 q]; [reflexivity|].
    rewrite !bks_at_cons. destruct (k0 =? k); [apply (IHb _ _ _ _ Hv) | apply (IHr _ _ _ _ Hr)].
Qed.

(** if all locales merge without error, no locale holds a group where the default holds a value
    or a value where the default holds a group (at a path reachable through groups of both) *)
Theorem ok_no_mismatch : forall ext suppress ns dflt df rest ks ws,
  check_locales_inner ext suppress ns ((dflt, df) :: rest) = Ok (ks, ws) ->
  forall l f q dtree t, In (l, f) rest -> forest_at df q = Some dtree -> forest_at f q = Some t ->
    match dtree, t with Leaf _, Group _ => False | Group _, Leaf _ => False | _, _ => True end.
Proof.
  intros ext suppress ns dflt df rest ks ws H l f q dtree t Hin Hd Ht. cbn [check_locales_inner] in H.
  destruct (mk_keys dflt ns [] df) as [ks0| | |] eqn:Hk; try discriminate.
  pose proof (proj2 (mk_kind_mut dflt ns) _ _ _ Hk) as Hkind0.
  assert (Hgen : forall rest ks0 ks ws,
            (forall q, option_map bk_is_group (bks_at ks0 q)
                       = option_map (fun x => match x with Group _ => true | _ => false end) (forest_at df q)) ->
            merge_all ext suppress dflt ns ks0 rest = Ok (ks, ws) -> In (l, f) rest ->
            exists b0', kind_ok b0' t = true
                        /\ bk_is_group b0' = match dtree with Group _ => true | _ => false end).
  { clear H Hin Hk Hkind0 ks ws ks0 rest.
    intros rest0. induction rest0 as [|[l0 f0] rest0 IH]; intros ks0 ks ws Hkind Hm Hin; [contradiction|].
    cbn [merge_all] in Hm.
    destruct (merge_locale suppress l0 (choose_default_to ext suppress dflt l0) ns ks0 f0 []) as [[ks1 w1]| | |] eqn:Hl;
      try discriminate.
    destruct (merge_all ext suppress dflt ns ks1 rest0) as [[ks2 w2]| | |] eqn:Hr; try discriminate.
    unfold merge_locale, finish_locale in Hl.
    destruct (merge_keys suppress l0 (choose_default_to ext suppress dflt l0) ns ks0 f0 []) as [[ks3 w3]| | |] eqn:Hk3;
      try discriminate.
    injection Hl as <- _.
    destruct Hin as [Heq|Hin].
    - injection Heq as -> ->.
      pose proof (Hkind q) as Hq. rewrite Hd in Hq. cbn [option_map] in Hq.
      destruct (bks_at ks0 q) as [b0'|] eqn:Hb; [|discriminate]. cbn [option_map] in Hq. injection Hq as Hg.
      exists b0'. split; [|assumption].
      exact (proj2 (merge_ok_kinds_mut _ _ _ _) _ _ _ _ _ Hk3 _ _ _ Hb Ht).
    - apply (IH ks3 ks2 w2); [|assumption|assumption].
      intros q'. rewrite (proj2 (merge_kind_mut _ _ _ _) _ _ _ _ _ Hk3 q'). apply Hkind. }
  destruct (Hgen rest ks0 ks ws Hkind0 H Hin) as [b0' [Hok Hg]].
  unfold kind_ok in Hok. destruct dtree as [x| |g]; destruct t as [y| |h]; try exact I.
  - rewrite Hg in Hok. discriminate.
  - rewrite Hg in Hok. discriminate.
Qed.

(** * a value whose text is empty is still defined *)
Lemma empty_is_defined :
  (forall f p, payload_at f p = Some empty_text -> defines f p = true)
  /\ (forall suppress top dt ns pay d path,
        merge_value suppress top dt ns (BValue pay d) (Leaf empty_text) path = Ok (BValue pay d, []))
  /\ (forall dflt ns path, mk_value dflt ns path (Leaf empty_text) = Ok (BValue empty_text (dl_new dflt))).
Proof.
  split; [intros f p H; eapply payload_defines; eauto|]. split; reflexivity.
Qed.
