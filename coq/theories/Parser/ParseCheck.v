(** Executable correspondence predicates for the string-level parser (properties C01 and C09). *)
From Coq Require Import List NArith ZArith Bool Arith.
Import ListNotations.
From LI Require Import Base.StrOps Parser.Parse Parser.Json Parser.Reduce Parser.Source.
Open Scope N_scope.

Definition opt_str_eqb (a b : option str) : bool :=
  match a, b with Some x, Some y => str_eqb x y | None, None => true | _, _ => false end.
Fixpoint strs_eqb (a b : list str) : bool :=
  match a, b with [], [] => true | x :: xs, y :: ys => str_eqb x y && strs_eqb xs ys | _, _ => false end.
Definition lit_eqb (a b : lit) : bool :=
  match a, b with
  | LStr x, LStr y | LFloat x, LFloat y => str_eqb x y
  | LSigned x, LSigned y => (x =? y)%Z
  | LUnsigned x, LUnsigned y => x =? y
  | LBool x, LBool y => Bool.eqb x y
  | _, _ => false
  end.
Fixpoint pv_eqb (a b : pv) : bool :=
  match a, b with
  | PLit x, PLit y => lit_eqb x y
  | PVar k f, PVar k' f' => str_eqb k k' && fmt_eqb f f'
  | PComp k i, PComp k' i' => str_eqb k k' && pv_eqb i i'
  | PBloc l, PBloc l' =>
      (fix go (l l' : list pv) : bool :=
         match l, l' with [], [] => true | x :: r, y :: r' => pv_eqb x y && go r r' | _, _ => false end) l l'
  | PForeign ns p args, PForeign ns' p' args' =>
      opt_str_eqb ns ns' && strs_eqb p p' &&
      (fix go (l l' : list (str * pv)) : bool :=
         match l, l' with
         | [], [] => true
         | (k, x) :: r, (k', y) :: r' => str_eqb k k' && pv_eqb x y && go r r'
         | _, _ => false
         end) args args'
  | _, _ => false
  end.
Fixpoint piece_eqb (a b : piece) : bool :=
  match a, b with
  | PcText x, PcText y => str_eqb x y
  | PcVar k f, PcVar k' f' => str_eqb k k' && fmt_eqb f f'
  | PcComp k i, PcComp k' i' =>
      str_eqb k k' &&
      (fix go (l l' : list piece) : bool :=
         match l, l' with [], [] => true | x :: r, y :: r' => piece_eqb x y && go r r' | _, _ => false end) i i'
  | PcForeign ns p args, PcForeign ns' p' args' =>
      opt_str_eqb ns ns' && strs_eqb p p' &&
      (fix go (l l' : list (str * list piece)) : bool :=
         match l, l' with
         | [], [] => true
         | (k, x) :: r, (k', y) :: r' =>
             str_eqb k k' &&
             (fix go2 (l l' : list piece) : bool :=
                match l, l' with [], [] => true | x :: r, y :: r' => piece_eqb x y && go2 r r' | _, _ => false end) x y
             && go r r'
         | _, _ => false
         end) args args'
  | _, _ => false
  end.
Fixpoint pieces_eqb (a b : list piece) : bool :=
  match a, b with [], [] => true | x :: r, y :: r' => piece_eqb x y && pieces_eqb r r' | _, _ => false end.

(** the model as run by the correspondence: ASCII identifier check, the JSON sub-grammar reader, current code *)
Definition model_parse (s : str) : res pv := parse_top ident_check json_args_model true s.
Definition model_parse_old (s : str) : res pv := parse_top ident_check json_args_model false s.

Record case := mk_case {
  c_input : str;
  c_src : option (list item);      (* the source AST the string was printed from, when there is one *)
  c_impl : res pv;                 (* ParsedValue::new (Panic 0 = the implementation panicked) *)
  c_impl_reduced : option pv }.    (* reduce() of it, when it parsed and holds no foreign key *)

Definition res_class_eqb (a b : res pv) : bool :=
  match a, b with
  | Ok _, Ok _ => true | Err x, Err y => x =? y | Panic _, Panic _ => true | _, _ => false
  end.

(** C09 at parser level.  3: the implementation panicked; 2: result class differs from the model;
    1: outside the modelled domain; 0: agree *)
Definition check_C09 (c : case) : N :=
  match c_impl c with
  | Panic _ => 3
  | _ => match model_parse (c_input c) with
         | Unmodelled => 1
         | m => if res_class_eqb m (c_impl c) then 0 else 2
         end
  end.

(** C01 at parser level.  3: the pieces of the implementation's (reduced) value are not what the
    source says; 2: parse tree or reduced tree differs from the model; 1: unmodelled; 0: agree *)
Definition check_C01 (c : case) : N :=
  let spec_ok :=
    match c_src c with
    | None => true
    | Some src =>
        match c_impl_reduced c with
        | Some r => pieces_eqb (pieces r) (denote_list src)
        | None => false
        end
    end in
  if negb spec_ok then 3 else
  match model_parse (c_input c) with
  | Unmodelled => 1
  | Ok v =>
      match c_impl c with
      | Ok v' =>
          if pv_eqb v v' then
            match c_impl_reduced c, reduce v with
            | Some r', Ok r => if pv_eqb r r' then 0 else 2
            | None, Panic _ => 0
            | _, _ => 2
            end
          else 2
      | _ => 2
      end
  | m => if res_class_eqb m (c_impl c) then 0 else 2
  end.
