(** Model of leptos_i18n_parser/src/parse_locales/ranges.rs (range declarations) and of the
    selection code emitted by leptos_i18n_macro/src/load_locales/ranges.rs.  Property C04.

    Numbers.  A value of one of the ten range types is a [num = option Z]:
    - integer types: [Some z] with [ty_min ty <= z <= ty_max ty] (side conditions are explicit);
    - f32/f64: an abstract ordered carrier.  [Some k] is a non-NaN float, identified by an
      order-isomorphic integer key (the harness computes the key of every float that occurs; the order
      on keys is Rust's [PartialOrd], +0.0 and -0.0 share a key, the infinities are ordinary keys);
      [None] is NaN (every comparison with it is false).  No definition below uses IEEE arithmetic:
      parsing a float numeral, [as f32] and [Display] are oracles given as arguments / case data.

    No proofs in this file. *)
From Coq Require Import List NArith ZArith Bool.
Import ListNotations.
From LI Require Import Base.StrOps.
Open Scope Z_scope.

(* ------------------------------------------------------------------ types *)

Inductive rtype := I8 | I16 | I32 | I64 | U8 | U16 | U32 | U64 | F32 | F64.

Definition rtype_eqb (a b : rtype) : bool :=
  match a, b with
  | I8, I8 | I16, I16 | I32, I32 | I64, I64 | U8, U8 | U16, U16 | U32, U32 | U64, U64 | F32, F32 | F64, F64 => true
  | _, _ => false
  end.

Definition ty_is_float (t : rtype) : bool := match t with F32 | F64 => true | _ => false end.
Definition ty_signed (t : rtype) : bool := match t with I8 | I16 | I32 | I64 => true | _ => false end.
Definition ty_min (t : rtype) : Z :=
  match t with
  | I8 => -128 | I16 => -32768 | I32 => -2147483648 | I64 => -9223372036854775808
  | _ => 0
  end.
Definition ty_max (t : rtype) : Z :=
  match t with
  | I8 => 127 | I16 => 32767 | I32 => 2147483647 | I64 => 9223372036854775807
  | U8 => 255 | U16 => 65535 | U32 => 4294967295 | U64 => 18446744073709551615
  | F32 | F64 => 0
  end.
Definition in_ty (t : rtype) (z : Z) : bool := (ty_min t <=? z) && (z <=? ty_max t).

(** keys of the infinities (bit patterns 0x7f800000 / 0x7ff0000000000000) *)
Definition ty_inf_key (t : rtype) : Z := match t with F32 => 2139095040 | _ => 9218868437227405312 end.

Definition num := option Z.
Definition num_eqb (a b : num) : bool := match a, b with Some x, Some y => x =? y | _, _ => false end.
Definition num_ltb (a b : num) : bool := match a, b with Some x, Some y => x <? y | _, _ => false end.
Definition num_leb (a b : num) : bool := match a, b with Some x, Some y => x <=? y | _, _ => false end.
Definition num_gtb (a b : num) : bool := num_ltb b a.
Definition num_geb (a b : num) : bool := num_leb b a.
Definition num_is_nan (a : num) : bool := match a with None => true | _ => false end.
(** structural equality (derive(PartialEq) on floats is [==]; used only to compare outputs) *)
Definition num_same (a b : num) : bool :=
  match a, b with Some x, Some y => x =? y | None, None => true | _, _ => false end.
Definition num_finite (t : rtype) (a : num) : bool :=
  match a with Some k => if ty_is_float t then Z.abs k <? ty_inf_key t else true | None => false end.

(* ------------------------------------------------------------------ results *)

Inductive err :=
| RangeParse (s : str)
| InvalidBoundEnd (s : str)
| ImpossibleRange (s : str)
| RangeNumberType
| EmptyRange
| InvalidRangeType
| NestedRanges
| RangeSubkeys
| InvalidFallback
| MultipleFallbacks
| MissingFallback
| SerdeMissingField
| SerdeDuplicateField
| SerdeUnknownField
| SerdeInvalidLength
| SerdeInvalidType
| InvalidCountArg
| InvalidCountArgType (found expected : rtype)
| CountArgOutsideRange
| CountArgNoMatch.        (* repaired find_value: no branch matches a literal count *)

Inductive site := SiteFindValue | SiteCodegenFloat.

Inductive res (A : Type) :=
| Ok (a : A)
| Err (e : err)
| Panic (s : site)
| Unmodelled.
Arguments Ok {A} a.
Arguments Err {A} e.
Arguments Panic {A} s.
Arguments Unmodelled {A}.

Definition bind {A B} (r : res A) (f : A -> res B) : res B :=
  match r with Ok a => f a | Err e => Err e | Panic s => Panic s | Unmodelled => Unmodelled end.
Definition rmap {A B} (f : A -> B) (r : res A) : res B := bind r (fun a => Ok (f a)).

(** [iter.map(f).collect::<Result<Vec<_>>>()]: left to right, stops at the first non-Ok *)
Fixpoint collect {A B} (f : A -> res B) (l : list A) : res (list B) :=
  match l with
  | [] => Ok []
  | a :: t => bind (f a) (fun b => bind (collect f t) (fun bs => Ok (b :: bs)))
  end.

(* ------------------------------------------------------------------ Range<T> *)

Inductive bound := Included (e : num) | Excluded (e : num) | Unbounded.

Inductive range :=
| Exact (v : num)
| Bounds (start : option num) (e : bound)
| Multiple (l : list range)
| Fallback.

Definition is_fallback (r : range) : bool := match r with Fallback => true | _ => false end.

(** Range::do_match *)
Fixpoint do_match (r : range) (count : num) : bool :=
  match r with
  | Exact v => num_eqb v count
  | Bounds start e =>
      if match start with Some s => num_gtb s count | None => false end then false
      else match e with
           | Included e => num_geb e count
           | Excluded e => num_gtb e count
           | Unbounded => true
           end
  | Multiple l => existsb (fun r => do_match r count) l
  | Fallback => true
  end.

(** Range::flatten *)
Definition flatten (r : range) : range :=
  match r with
  | Multiple l => if existsb is_fallback l then Fallback else Multiple l
  | _ => r
  end.

(* ------------------------------------------------------------------ numerals *)

Definition is_digit (c : char) : bool := ((48 <=? c) && (c <=? 57))%N.

Fixpoint digits_val (acc : Z) (s : str) : option Z :=
  match s with
  | [] => Some acc
  | c :: r => if is_digit c then digits_val (acc * 10 + Z.of_N (c - 48)) r else None
  end.

(** <integer>::from_str: optional '+', '-' only for signed types, at least one digit, ASCII digits
    only, value inside the type (std detects overflow digit by digit; the result is the same) *)
Definition parse_int (t : rtype) (s : str) : option Z :=
  match s with
  | [] => None
  | c :: r =>
      let '(neg, ds) := if (c =? 43)%N then (false, r)
                        else if (c =? 45)%N && ty_signed t then (true, r)
                        else (false, s) in
      match ds with
      | [] => None
      | _ => match digits_val 0 ds with
             | None => None
             | Some v => let v := if neg then - v else v in
                         if in_ty t v then Some v else None
             end
      end
  end.

(** float numeral oracle: text -> Some (Some v) parsed, Some None rejected by <float>::from_str,
    None = the oracle table has no entry (outside the modelled domain) *)
Definition ftable := list (str * option num).
Fixpoint flookup (tbl : ftable) (s : str) : option (option num) :=
  match tbl with
  | [] => None
  | (k, v) :: t => if str_eqb k s then Some v else flookup t s
  end.

(** [strict]: the repaired code refuses float numbers that are not finite in the range's type (NaN, the
    infinities, 1e39 as f32): they have no literal and made code generation panic.  [strict = false] is the
    code before that repair (the [_old] instances below). *)
Section Strict.
Variable strict : bool.

(** the [parse] closure of Range::new *)
Definition parse_num_g (t : rtype) (tbl : ftable) (s : str) : res num :=
  if ty_is_float t then
    match flookup tbl s with
    | Some (Some v) => if negb strict || num_finite t v then Ok v else Err (RangeParse s)
    | Some None => Err (RangeParse s)
    | None => Unmodelled
    end
  else match parse_int t s with
       | Some z => Ok (Some z)
       | None => Err (RangeParse s)
       end.

(** RangeNumber::range_end_bound: checked_sub(1) for integers, Excluded for floats *)
Definition range_end_bound (t : rtype) (v : num) : option bound :=
  if ty_is_float t then Some (Excluded v)
  else match v with
       | Some z => if ty_min t <=? z - 1 then Some (Included (Some (z - 1))) else None
       | None => None
       end.

(* ------------------------------------------------------------------ Range::new *)

Definition s_us : str := [95%N].            (* "_" *)
Definition s_dotdot : str := [46%N; 46%N].  (* ".." *)
Definition c_pipe : char := 124%N.
Definition c_eq : char := 61%N.
Definition str_fallback (s : str) : bool := str_eqb s s_us || str_eqb s s_dotdot.
Definition is_empty (s : str) : bool := match s with [] => true | _ => false end.

(** the part of Range::new after the fallback and '|' tests; [s] is already trimmed *)
Definition range_new_bounds_g (t : rtype) (tbl : ftable) (s : str) : res range :=
  match split_once s_dotdot s with
  | Some (start, e) =>
      let start := trim start in
      bind (if is_empty start then Ok None else rmap Some (parse_num_g t tbl start)) (fun start =>
      let e := trim e in
      bind (if is_empty e then Ok Unbounded
            else match strip_prefix [c_eq] e with
                 | Some e' => rmap Included (parse_num_g t tbl (trim_start e'))
                 | None => bind (parse_num_g t tbl e) (fun v =>
                             match range_end_bound t v with
                             | Some b => Ok b
                             | None => Err (InvalidBoundEnd s)
                             end)
                 end) (fun e =>
      match start with
      | Some st =>
          match e with
          | Excluded en => if num_leb en st then Err (ImpossibleRange s) else Ok (Bounds start e)
          | Included en => if num_ltb en st then Err (ImpossibleRange s) else Ok (Bounds start e)
          | Unbounded => Ok (Bounds start e)
          end
      | None => Ok (Bounds start e)
      end))
  | None => rmap Exact (parse_num_g t tbl s)
  end.

(** Range::new on a piece produced by [split('|')] (it contains no '|') *)
Definition range_new_piece_g (t : rtype) (tbl : ftable) (s : str) : res range :=
  let s := trim s in
  if str_fallback s then Ok Fallback else range_new_bounds_g t tbl s.

(** Range::new *)
Definition range_new_g (t : rtype) (tbl : ftable) (s : str) : res range :=
  let s := trim s in
  if str_fallback s then Ok Fallback
  else if existsb (N.eqb c_pipe) s then
    bind (collect (range_new_piece_g t tbl) (split_all c_pipe s)) (fun l => Ok (flatten (Multiple l)))
  else range_new_bounds_g t tbl s.

(* ------------------------------------------------------------------ serde level *)

(** a JSON number as serde_json hands it over: visit_u64 / visit_i64 / visit_f64.
    [fv] is the value converted to the declared float type ([v as f32/f64], oracle);
    it is read only when the declared type is a float type. *)
Inductive jnum := JU (z : Z) (fv : num) | JI (z : Z) (fv : num) | JF (fv : num).

Inductive jcount :=
| CStr (s : str)
| CNum (n : jnum)
| CArr (l : list jcount)
| COther.                 (* bool / null / map: no visitor method *)

(** T::from_u64 / from_i64 / from_f64 *)
Definition from_jnum_g (t : rtype) (n : jnum) : res range :=
  match n with
  | JU z fv | JI z fv => if ty_is_float t then (if negb strict || num_finite t fv then Ok (Exact fv) else Err RangeNumberType)
                         else if in_ty t z then Ok (Exact (Some z)) else Err RangeNumberType
  | JF fv => if ty_is_float t then (if negb strict || num_finite t fv then Ok (Exact fv) else Err RangeNumberType)
             else Err RangeNumberType
  end.

(** RangeSeed<T>: visit_str / visit_{u64,i64,f64} / visit_seq.
    visit_seq: [] is the fallback, one element is itself, otherwise Multiple(rest ++ [first]). *)
Fixpoint parse_count_g (t : rtype) (tbl : ftable) (c : jcount) : res range :=
  match c with
  | CStr s => range_new_g t tbl s
  | CNum n => from_jnum_g t n
  | CArr l =>
      match l with
      | [] => Ok Fallback
      | first :: rest =>
          bind (parse_count_g t tbl first) (fun f =>
          bind ((fix go (l : list jcount) : res (list range) :=
                   match l with
                   | [] => Ok []
                   | c :: r => bind (parse_count_g t tbl c) (fun x => bind (go r) (fun xs => Ok (x :: xs)))
                   end) rest) (fun rs =>
          match rs with [] => Ok f | _ => Ok (Multiple (rs ++ [f])) end))
      end
  | COther => Err SerdeInvalidType
  end.

(** RangeSeed::visit_seq applied to the tail of a [value, count, count ...] branch *)
Definition parse_count_seq_g (t : rtype) (tbl : ftable) (l : list jcount) : res range :=
  parse_count_g t tbl (CArr l).

(** branch values: only what C04 needs of ParsedValue (text with {{ var }} interpolations) *)
Inductive piece := PLit (s : str) | PVar (name : str).
Definition pval := list piece.

Inductive jval :=
| VText (ps : pval)       (* a string; ParsedValue::new yields these pieces (C01's business) *)
| VLit (text : str)       (* number / bool literal, [text] = its Display *)
| VSeq                    (* a sequence: nested ranges *)
| VMap.                   (* a map: subkeys inside a range *)

(** ParsedValueSeed with in_range = true *)
Definition parse_value (v : jval) : res pval :=
  match v with
  | VText ps => Ok ps
  | VLit text => Ok [PLit text]
  | VSeq => Err NestedRanges
  | VMap => Err RangeSubkeys
  end.

Inductive jfield := FCount (c : jcount) | FValue (v : jval) | FUnknown.

Inductive jbranch :=
| BSeq (v : jval) (counts : list jcount)   (* [value, count ...] *)
| BSeqEmpty                                (* [] *)
| BMap (fs : list jfield)                  (* {"count": .., "value": ..} in document order *)
| BOther.                                  (* anything else *)

(** RangeStructSeed::visit_map *)
Fixpoint parse_fields_g (t : rtype) (tbl : ftable) (fs : list jfield) (r : option range) (v : option pval)
  : res (range * pval) :=
  match fs with
  | [] => match v with
          | Some v => Ok (match r with Some r => r | None => Fallback end, v)
          | None => Err SerdeMissingField
          end
  | FCount c :: fs => bind (parse_count_g t tbl c) (fun x =>
                        match r with Some _ => Err SerdeDuplicateField | None => parse_fields_g t tbl fs (Some x) v end)
  | FValue jv :: fs => bind (parse_value jv) (fun x =>
                        match v with Some _ => Err SerdeDuplicateField | None => parse_fields_g t tbl fs r (Some x) end)
  | FUnknown :: _ => Err SerdeUnknownField
  end.

(** RangeStructSeed<T> *)
Definition parse_branch_g (t : rtype) (tbl : ftable) (b : jbranch) : res (range * pval) :=
  match b with
  | BSeq v counts => bind (parse_value v) (fun v => bind (parse_count_seq_g t tbl counts) (fun r => Ok (r, v)))
  | BSeqEmpty => Err SerdeInvalidLength
  | BMap fs => parse_fields_g t tbl fs None None
  | BOther => Err SerdeInvalidType
  end.

Definition branches := list (range * pval).

(** TypeOrRange::from_string *)
Definition type_of_string (s : str) : option rtype :=
  let s := trim s in
  if str_eqb s [105; 56]%N then Some I8 else
  if str_eqb s [105; 49; 54]%N then Some I16 else
  if str_eqb s [105; 51; 50]%N then Some I32 else
  if str_eqb s [105; 54; 52]%N then Some I64 else
  if str_eqb s [117; 56]%N then Some U8 else
  if str_eqb s [117; 49; 54]%N then Some U16 else
  if str_eqb s [117; 51; 50]%N then Some U32 else
  if str_eqb s [117; 54; 52]%N then Some U64 else
  if str_eqb s [102; 51; 50]%N then Some F32 else
  if str_eqb s [102; 54; 52]%N then Some F64 else None.

Inductive jfirst :=
| FirstNone                 (* the array is empty *)
| FirstType (s : str)       (* a string *)
| FirstBranch (b : jbranch) (* a map or a sequence: an i32 branch *)
| FirstOther.

Record jdecl := mk_jdecl { d_first : jfirst; d_rest : list jbranch }.

(** does the range contain a fallback at any depth *)
Fixpoint has_fallback (r : range) : bool :=
  match r with
  | Fallback => true
  | Multiple l => existsb has_fallback l
  | _ => false
  end.
(** the test written in check_de_inner: the range itself or a direct member of a Multiple *)
Definition has_fallback_shallow (r : range) : bool :=
  match r with
  | Fallback => true
  | Multiple l => existsb is_fallback l
  | _ => false
  end.

(** Ranges::check_de_inner + the three tests of ParsedValueSeed::visit_seq.
    [deep] selects the fallback test applied to the branches before the last one:
    the repaired code looks inside nested alternatives ([has_fallback]), the original
    one only one level deep ([has_fallback_shallow]). *)
Definition check_de (deep : range -> bool) (t : rtype) (bs : branches) : res unit :=
  let invalid_fallback := existsb (fun b => deep (fst b)) (tl (rev bs)) in
  let fallback_count := length (filter (fun b => is_fallback (fst b)) bs) in
  if invalid_fallback then Err InvalidFallback
  else if (1 <? fallback_count)%nat then Err MultipleFallbacks
  else if (fallback_count =? 0)%nat && ty_is_float t then Err MissingFallback
  else Ok tt.
Definition check_deserialization := check_de has_fallback.
Definition check_deserialization_old := check_de has_fallback_shallow.

(** Ranges::from_serde_seq + deserialize_inner + validation *)
Definition parse_decl_with_g (chk : rtype -> branches -> res unit) (tbl : ftable) (d : jdecl)
  : res (rtype * branches) :=
  bind (match d_first d with
        | FirstNone => Err EmptyRange
        | FirstType s => match type_of_string s with Some t => Ok (t, []) | None => Err InvalidRangeType end
        | FirstBranch b => bind (parse_branch_g I32 tbl b) (fun x => Ok (I32, [x]))
        | FirstOther => Err SerdeInvalidType
        end) (fun '(t, first) =>
  bind (collect (parse_branch_g t tbl) (d_rest d)) (fun rest =>
  let bs := first ++ rest in
  (* a declared type and no branch at all: `["u8"]` is an empty range (checked once the branches were read) *)
  match bs with
  | [] => Err EmptyRange
  | _ => bind (chk t bs) (fun _ => Ok (t, bs))
  end)).
End Strict.

Definition parse_num := parse_num_g true.
Definition range_new_bounds := range_new_bounds_g true.
Definition range_new_piece := range_new_piece_g true.
Definition range_new := range_new_g true.
Definition from_jnum := from_jnum_g true.
Definition parse_count := parse_count_g true.
Definition parse_count_seq := parse_count_seq_g true.
Definition parse_fields := parse_fields_g true.
Definition parse_branch := parse_branch_g true.
Definition parse_decl_with := parse_decl_with_g true.
(** before the non-finite repair *)
Definition range_new_nonfinite_old := range_new_g false.
Definition parse_decl_nonfinite_old := parse_decl_with_g false check_deserialization.
Definition parse_decl := parse_decl_with check_deserialization.
Definition parse_decl_old := parse_decl_with check_deserialization_old.

(* ------------------------------------------------------------------ literal count (static selection) *)

(** the `count` argument of `$t(key, {"count": ..})` after parse_foreign_key_args_inner *)
Inductive clit :=
| LU (z : Z)                (* Literal::Unsigned *)
| LI (z : Z)                (* Literal::Signed *)
| LF (v64 v32 : num)        (* Literal::Float: the value, and the value [as f32] (oracle) *)
| LVar (name : str)         (* a single variable *)
| LOther.                   (* bool, plain string, ... *)

(** rendering of a literal by Display (oracle for floats): text that replaces {{ count }} *)
Record count_arg := mk_count_arg { ca_lit : clit; ca_disp : str }.

Definition s_count : str := [99; 111; 117; 110; 116]%N.

(** ParsedValue::populate on a branch value with args = { var_count -> literal } *)
Definition populate (disp : str) (v : pval) : pval :=
  map (fun p => match p with
                | PVar n => if str_eqb n s_count then PLit disp else p
                | _ => p
                end) v.

(** find_value (repaired: a descriptive error when no branch matches) *)
Fixpoint find_value (bs : branches) (count : num) (disp : str) : res pval :=
  match bs with
  | [] => Err CountArgNoMatch
  | (r, v) :: t => if do_match r count then Ok (populate disp v) else find_value t count disp
  end.
(** find_value as written: unreachable!() *)
Fixpoint find_value_old (bs : branches) (count : num) (disp : str) : res pval :=
  match bs with
  | [] => Panic SiteFindValue
  | (r, v) :: t => if do_match r count then Ok (populate disp v) else find_value_old t count disp
  end.

(** index of the branch find_value selects *)
Fixpoint find_index (bs : branches) (count : num) : option nat :=
  match bs with
  | [] => None
  | (r, _) :: t => if do_match r count then Some O
                   else match find_index t count with Some i => Some (S i) | None => None end
  end.

(** TryFrom between the literal's type (u64 / i64) and the range type *)
Definition try_from (t : rtype) (z : Z) : res num :=
  if in_ty t z then Ok (Some z) else Err CountArgOutsideRange.

Inductive static_result :=
| SValue (v : pval)                           (* a branch was selected and populated *)
| SRanges (key : str) (bs : branches).        (* count is a variable: the ranges are kept, keyed by it *)

(** the count the literal denotes in the range's type: the TryFrom / `as` guard of populate_with_count_arg *)
Definition count_of_lit (t : rtype) (l : clit) : res num :=
  match l with
  | LF v64 v32 => match t with
                  | F32 => Ok v32
                  | F64 => Ok v64
                  | _ => Err (InvalidCountArgType F64 t)
                  end
  | LU z => if ty_is_float t then Err (InvalidCountArgType U64 t) else try_from t z
  | LI z => if ty_is_float t then Err (InvalidCountArgType I64 t) else try_from t z
  | LVar _ => Unmodelled
  | LOther => Err InvalidCountArg
  end.

(** Ranges::populate_with_count_arg *)
Definition populate_with_count_arg_with (fv : branches -> num -> str -> res pval)
  (t : rtype) (bs : branches) (a : count_arg) : res static_result :=
  match ca_lit a with
  | LVar name => Ok (SRanges name bs)     (* populate_with_new_key; branch values keep {{ count }} unless passed *)
  | l => bind (count_of_lit t l) (fun c => rmap SValue (fv bs c (ca_disp a)))
  end.
Definition populate_with_count_arg := populate_with_count_arg_with find_value.
Definition populate_with_count_arg_old := populate_with_count_arg_with find_value_old.

(* ------------------------------------------------------------------ generated code (dynamic selection) *)

(** Rust meaning of the tokens emitted by range_to_token_stream, used as a `match` pattern on an
    integer scrutinee [n]:  v | a..=b | ..=b | a.. | a..b | _ | p1 | p2 ...  *)
Definition start_le (start : option num) (n : num) : bool :=
  match start with Some s => num_leb s n | None => true end.
Fixpoint pat_match (r : range) (n : num) : bool :=
  match r with
  | Exact v => num_eqb n v
  | Bounds start (Included e) => start_le start n && num_leb n e
  | Bounds start (Excluded e) => start_le start n && num_ltb n e
  | Bounds start Unbounded => start_le start n
  | Multiple l => existsb (fun r => pat_match r n) l
  | Fallback => true
  end.

(** to_tokens_integers: `match count { p0 => b0, p1 => b1, ... }` - first arm whose pattern matches.
    None: no arm matches (rustc rejects such a match as non-exhaustive at compile time). *)
Fixpoint gen_match (bs : branches) (n : num) : option nat :=
  match bs with
  | [] => None
  | (r, _) :: t => if pat_match r n then Some O
                   else match gen_match t n with Some i => Some (S i) | None => None end
  end.

(** range_to_condition: None = no condition (the branch is an unconditional block).
    Exact: `plural_count == v`; Bounds: `RangeBounds::contains(&(a..b), &plural_count)`;
    Multiple: the conditions of the members joined by `||`, members without condition are dropped
    (filter_map). *)
Fixpoint gen_cond (r : range) (x : num) : option bool :=
  match r with
  | Exact v => Some (num_eqb x v)
  | Bounds start (Included e) => Some (start_le start x && num_leb x e)
  | Bounds start (Excluded e) => Some (start_le start x && num_ltb x e)
  | Bounds start Unbounded => Some (start_le start x)
  | Multiple l => Some (existsb (fun r => match gen_cond r x with Some b => b | None => false end) l)
  | Fallback => None
  end.

(** to_tokens_floats: `if c0 { b0 } else if c1 { b1 } ... else { bk }` *)
Fixpoint gen_if_chain (bs : branches) (x : num) : option nat :=
  match bs with
  | [] => None
  | (r, _) :: t => match gen_cond r x with
                   | None | Some true => Some O
                   | Some false => match gen_if_chain t x with Some i => Some (S i) | None => None end
                   end
  end.

Definition gen_select (t : rtype) (bs : branches) (x : num) : option nat :=
  if ty_is_float t then gen_if_chain bs x else gen_match bs x.

(** quote!(#float) panics on non-finite values (proc_macro2 asserts is_finite) *)
Fixpoint range_nums (r : range) : list num :=
  match r with
  | Exact v => [v]
  | Bounds start e => (match start with Some s => [s] | None => [] end) ++
                      (match e with Included e | Excluded e => [e] | Unbounded => [] end)
  | Multiple l => flat_map range_nums l
  | Fallback => []
  end.
Definition codegen (t : rtype) (bs : branches) : res unit :=
  if forallb (fun b => forallb (num_finite t) (range_nums (fst b))) bs then Ok tt else Panic SiteCodegenFloat.

(* ------------------------------------------------------------------ source AST and its Rust meaning (spec side) *)

(** an integer numeral as written: sign (0 none, 1 '+', 2 '-'), leading zeros, magnitude *)
Inductive numeral :=
| NInt (sign : N) (zeros : nat) (mag : N)
| NFloat (text : str) (v : num).      (* a float numeral and the value Rust's from_str gives it (oracle) *)

Fixpoint uint_str (u : Decimal.uint) : str :=
  match u with
  | Decimal.Nil => []
  | Decimal.D0 l => 48%N :: uint_str l
  | Decimal.D1 l => 49%N :: uint_str l
  | Decimal.D2 l => 50%N :: uint_str l
  | Decimal.D3 l => 51%N :: uint_str l
  | Decimal.D4 l => 52%N :: uint_str l
  | Decimal.D5 l => 53%N :: uint_str l
  | Decimal.D6 l => 54%N :: uint_str l
  | Decimal.D7 l => 55%N :: uint_str l
  | Decimal.D8 l => 56%N :: uint_str l
  | Decimal.D9 l => 57%N :: uint_str l
  end.
Definition print_N (n : N) : str := uint_str (N.to_uint n).
Definition print_Z (z : Z) : str :=
  match z with Z0 => [48%N] | Zpos p => print_N (Npos p) | Zneg p => 45%N :: print_N (Npos p) end.

Definition numeral_text (n : numeral) : str :=
  match n with
  | NInt sign zeros mag =>
      (if (sign =? 1)%N then [43%N] else if (sign =? 2)%N then [45%N] else []) ++ repeat 48%N zeros ++ print_N mag
  | NFloat text _ => text
  end.
Definition numeral_val (n : numeral) : num :=
  match n with
  | NInt sign _ mag => Some (if (sign =? 2)%N then - Z.of_N mag else Z.of_N mag)
  | NFloat _ v => v
  end.

(** one alternative of a count specification, with its whitespace layout (every [ws] is made of
    White_Space characters only; see [atom_ws_ok]) *)
Definition ws := str.
Inductive atom :=
| AExact (l : ws) (a : numeral) (r : ws)                                 (*  l a r              *)
| ARange (l : ws) (a : numeral) (m1 m2 : ws) (b : numeral) (r : ws)      (*  l a m1 .. m2 b r   *)
| ARangeIncl (l : ws) (a : numeral) (m1 m2 m3 : ws) (b : numeral) (r : ws) (* l a m1 .. m2 = m3 b r *)
| AFrom (l : ws) (a : numeral) (m1 r : ws)                               (*  l a m1 .. r        *)
| ATo (l m2 : ws) (b : numeral) (r : ws)                                 (*  l .. m2 b r        *)
| AToIncl (l m2 m3 : ws) (b : numeral) (r : ws)                          (*  l .. m2 = m3 b r   *)
| AFull (l r : ws)                                                       (*  l .. r             *)
| AWild (l r : ws).                                                      (*  l _ r              *)

Definition print_atom (a : atom) : str :=
  match a with
  | AExact l a r => l ++ numeral_text a ++ r
  | ARange l a m1 m2 b r => l ++ numeral_text a ++ m1 ++ s_dotdot ++ m2 ++ numeral_text b ++ r
  | ARangeIncl l a m1 m2 m3 b r => l ++ numeral_text a ++ m1 ++ s_dotdot ++ m2 ++ [c_eq] ++ m3 ++ numeral_text b ++ r
  | AFrom l a m1 r => l ++ numeral_text a ++ m1 ++ s_dotdot ++ r
  | ATo l m2 b r => l ++ s_dotdot ++ m2 ++ numeral_text b ++ r
  | AToIncl l m2 m3 b r => l ++ s_dotdot ++ m2 ++ [c_eq] ++ m3 ++ numeral_text b ++ r
  | AFull l r => l ++ s_dotdot ++ r
  | AWild l r => l ++ s_us ++ r
  end.

(** a count specification string: alternatives separated by '|' *)
Fixpoint print_spec (l : list atom) : str :=
  match l with
  | [] => []
  | [a] => print_atom a
  | a :: t => print_atom a ++ c_pipe :: print_spec t
  end.

(** what the specification means in Rust: x == a, (a..b).contains(x), (a..=b).contains(x), ... *)
Definition rsem_atom (a : atom) (x : num) : bool :=
  match a with
  | AExact _ a _ => num_eqb x (numeral_val a)
  | ARange _ a _ _ b _ => num_leb (numeral_val a) x && num_ltb x (numeral_val b)
  | ARangeIncl _ a _ _ _ b _ => num_leb (numeral_val a) x && num_leb x (numeral_val b)
  | AFrom _ a _ _ => num_leb (numeral_val a) x
  | ATo _ _ b _ => num_ltb x (numeral_val b)
  | AToIncl _ _ _ b _ => num_leb x (numeral_val b)
  | AFull _ _ | AWild _ _ => true
  end.
Definition rsem (l : list atom) (x : num) : bool := existsb (fun a => rsem_atom a x) l.

(** well-formedness of the layout and of the numerals for type [t] *)
Definition all_ws (s : str) : bool := forallb is_ws s.
(** no '.' that is followed by another '.' or ends the text (so the text can precede "..") *)
Fixpoint nodd (s : str) : bool :=
  match s with
  | [] => true
  | c :: r => negb ((c =? 46)%N && match r with [] => true | d :: _ => (d =? 46)%N end) && nodd r
  end.
(** a numeral token: non-empty, no White_Space, no '|', '=', '_', and [nodd] *)
Definition text_ok (s : str) : bool :=
  negb (is_empty s)
  && forallb (fun c => negb (is_ws c) && negb (c =? c_pipe)%N && negb (c =? c_eq)%N && negb (c =? 95)%N) s
  && nodd s.
Definition numeral_ok (t : rtype) (tbl : ftable) (n : numeral) : bool :=
  match n with
  | NInt sign _ mag => negb (ty_is_float t) && (sign <=? 2)%N
  | NFloat text v => ty_is_float t && text_ok text &&
                     match flookup tbl text with Some (Some v') => num_same v v' | _ => false end
  end.
Definition atom_ws_ok (a : atom) : bool :=
  match a with
  | AExact l _ r => all_ws l && all_ws r
  | ARange l _ m1 m2 _ r => all_ws l && all_ws m1 && all_ws m2 && all_ws r
  | ARangeIncl l _ m1 m2 m3 _ r => all_ws l && all_ws m1 && all_ws m2 && all_ws m3 && all_ws r
  | AFrom l _ m1 r => all_ws l && all_ws m1 && all_ws r
  | ATo l m2 _ r => all_ws l && all_ws m2 && all_ws r
  | AToIncl l m2 m3 _ r => all_ws l && all_ws m2 && all_ws m3 && all_ws r
  | AFull l r | AWild l r => all_ws l && all_ws r
  end.
Definition atom_numerals (a : atom) : list numeral :=
  match a with
  | AExact _ a _ | AFrom _ a _ _ => [a]
  | ARange _ a _ _ b _ | ARangeIncl _ a _ _ _ b _ => [a; b]
  | ATo _ _ b _ | AToIncl _ _ _ b _ => [b]
  | AFull _ _ | AWild _ _ => []
  end.
Definition atom_wf (t : rtype) (tbl : ftable) (a : atom) : bool :=
  atom_ws_ok a && forallb (numeral_ok t tbl) (atom_numerals a).

(** the numeral denotes a value of the type (for floats: the oracle accepted it) *)
Definition numeral_in_ty (t : rtype) (n : numeral) : bool :=
  match n with
  | NInt sign _ _ => match numeral_val n with Some z => in_ty t z | None => false end
                      && (negb (sign =? 2)%N || ty_signed t)     (* "-0" is not an unsigned numeral *)
  | NFloat _ v => num_finite t v        (* NaN / the infinities are not values a range can use *)
  end.
(** the alternative is empty by construction: a..b with b <= a, a..=b with b < a, ..MIN *)
Definition atom_degenerate (t : rtype) (a : atom) : bool :=
  match a with
  | ARange _ a _ _ b _ => num_leb (numeral_val b) (numeral_val a)
                          || (negb (ty_is_float t) && num_leb (numeral_val b) (Some (ty_min t)))
  | ARangeIncl _ a _ _ _ b _ => num_ltb (numeral_val b) (numeral_val a)
  | ATo _ _ b _ => negb (ty_is_float t) && num_leb (numeral_val b) (Some (ty_min t))
  | _ => false
  end.
Definition atom_ok (t : rtype) (a : atom) : bool :=
  forallb (numeral_in_ty t) (atom_numerals a) && negb (atom_degenerate t a).

(* ------------------------------------------------------------------ source declarations (spec side) *)

(** the count of a branch as the translator wrote it *)
Inductive csrc :=
| SStr (atoms : list atom)     (* a specification string *)
| SRaw (s : str)               (* an arbitrary string (malformed stream): no independent meaning *)
| SNum (n : jnum)              (* a JSON number *)
| SArr (l : list csrc).        (* a list of alternatives; [] is the fallback *)

Definition jnum_val (t : rtype) (n : jnum) : num :=
  match n with
  | JU z fv | JI z fv => if ty_is_float t then fv else Some z
  | JF fv => fv
  end.

(** Rust meaning of a written count; None = the source has no independent meaning (SRaw) *)
Fixpoint csem (t : rtype) (c : csrc) (x : num) : option bool :=
  match c with
  | SStr atoms => Some (rsem atoms x)
  | SRaw _ => None
  | SNum n => Some (num_eqb x (jnum_val t n))
  | SArr [] => Some true
  | SArr l => (fix go (l : list csrc) : option bool :=
                 match l with
                 | [] => Some false
                 | c :: r => match csem t c x, go r with
                             | Some a, Some b => Some (a || b)
                             | _, _ => None
                             end
                 end) l
  end.

Fixpoint csrc_json (c : csrc) : jcount :=
  match c with
  | SStr atoms => CStr (print_spec atoms)
  | SRaw s => CStr s
  | SNum n => CNum n
  | SArr l => CArr (map csrc_json l)
  end.

(** a branch: its count (None: the branch has no count = fallback), its value, and the syntax used *)
Inductive bsyntax := SynSeq | SynSeqNested | SynMapCV | SynMapVC.
Record sbranch := mk_sbranch { sb_count : option csrc; sb_value : pval; sb_syntax : bsyntax }.

Definition sbranch_json (b : sbranch) : jbranch :=
  let v := VText (sb_value b) in
  match sb_syntax b, sb_count b with
  | SynSeq, None => BSeq v []
  | SynSeq, Some (SArr l) => BSeq v (map csrc_json l)          (* ["v", c1, c2, ...] *)
  | SynSeq, Some c => BSeq v [csrc_json c]                      (* ["v", c] *)
  | SynSeqNested, None => BSeq v [CArr []]                      (* ["v", []] *)
  | SynSeqNested, Some c => BSeq v [csrc_json c]                (* ["v", [c1, c2]] *)
  | SynMapCV, None | SynMapVC, None => BMap [FValue v]
  | SynMapCV, Some c => BMap [FCount (csrc_json c); FValue v]
  | SynMapVC, Some c => BMap [FValue v; FCount (csrc_json c)]
  end.

Definition type_name (t : rtype) : str :=
  match t with
  | I8 => [105; 56] | I16 => [105; 49; 54] | I32 => [105; 51; 50] | I64 => [105; 54; 52]
  | U8 => [117; 56] | U16 => [117; 49; 54] | U32 => [117; 51; 50] | U64 => [117; 54; 52]
  | F32 => [102; 51; 50] | F64 => [102; 54; 52]
  end%N.

(** a declaration: explicit type name (with surrounding whitespace) or none (i32) *)
Record sdecl := mk_sdecl { sd_type : option (ws * rtype * ws); sd_branches : list sbranch }.
Definition sdecl_type (d : sdecl) : rtype := match sd_type d with Some (_, t, _) => t | None => I32 end.
Definition sdecl_json (d : sdecl) : jdecl :=
  match sd_type d, sd_branches d with
  | Some (l, t, r), bs => mk_jdecl (FirstType (l ++ type_name t ++ r)) (map sbranch_json bs)
  | None, [] => mk_jdecl FirstNone []
  | None, b :: bs => mk_jdecl (FirstBranch (sbranch_json b)) (map sbranch_json bs)
  end.

Definition bsem (t : rtype) (b : sbranch) (x : num) : option bool :=
  match sb_count b with None => Some true | Some c => csem t c x end.

(** index of the first declared branch whose count specification contains x;
    None when no branch does, or when some earlier specification has no independent meaning *)
Fixpoint first_matching (t : rtype) (bs : list sbranch) (x : num) : option (option nat) :=
  match bs with
  | [] => Some None
  | b :: r => match bsem t b x with
              | None => None
              | Some true => Some (Some O)
              | Some false => match first_matching t r x with
                              | Some (Some i) => Some (Some (S i))
                              | o => o
                              end
              end
  end.

(* ------------------------------------------------------------------ rendering (canonical observable form) *)

Definition s_var_ : str := [118; 97; 114; 95]%N.
Definition render (v : pval) : str :=
  flat_map (fun p => match p with
                     | PLit s => s
                     | PVar n => 123%N :: s_var_ ++ n ++ [125%N]
                     end) v.
