(** Executable correspondence predicate for the `DefaultedLocales` model (property C09, pipeline part). *)
From Coq Require Import List NArith Bool.
Import ListNotations.
From LI Require Import Base.StrOps.
From LI Require Import Parser.Defaults.
Open Scope N_scope.

Record case := mk_case {
  c_default : str;
  c_mapping : mapping;                  (* entries in the order they were pushed; keys are unique *)
  c_impl : list (str * option str) }.   (* per queried locale: default_of(locale) of the implementation; None = it did not return *)

Definition res_eqb (r : dres) (i : option str) : bool :=
  match r, i with Found l, Some x => str_eqb l x | _, _ => false end.

(** 0 = agree and spec holds; 2 = implementation differs from the model (spec holds); 3 = spec false (wrong answer or no answer) *)
Definition check (c : case) : N :=
  let m := c_mapping c in
  let spec_ok := forallb (fun qi => match snd qi with
                                    | Some r => spec_default_of m (c_default c) (fst qi) r
                                    | None => false
                                    end) (c_impl c) in
  let agree := forallb (fun qi => res_eqb (default_of m (c_default c) (fst qi)) (snd qi)) (c_impl c) in
  if negb spec_ok then 3 else if negb agree then 2 else 0.
