(** Round trip of the documented value grammar, part 3: the component finder on printed sources
    (uses the closing-tag theorem of Scan.v) and the main theorem (property C01). *)
From Coq Require Import List NArith ZArith Bool Arith Lia.
Import ListNotations.
From LI Require Import Base.StrOps Base.StrLemmas Parser.Parse Parser.Reduce Parser.Source Parser.Scan
  Parser.RoundTrip1 Parser.RoundTrip2.
Open Scope N_scope.
Local Notation item := Source.item.

(** * source items as the token trees of Scan.v *)
Fixpoint conv (i : item) : Scan.item :=
  match i with
  | SText s => IText s
  | SVar w1 n w2 fm => IText (print (SVar w1 n w2 fm))
  | SComp w1 n w2 kids a b c => IComp w1 w2 a b c n (map conv kids)
  end.

Lemma flats_app a b : flats (a ++ b) = flats a ++ flats b.
Proof. unfold flats. rewrite map_app, concat_app. reflexivity. Qed.

Lemma flats_conv_list l : Forall (fun k => flats (toks (conv k)) = print k) l ->
  flats (toks_list (map conv l)) = print_list l.
Proof.
  induction 1 as [|k r Hk Hr IH]; [reflexivity|].
  cbn [map toks_list]. rewrite flats_app, Hk, IH. reflexivity.
Qed.
Lemma flats_conv : forall i, flats (toks (conv i)) = print i.
Proof.
  apply (item_ind2 (fun i => flats (toks (conv i)) = print i)).
  - intros s. cbn. apply app_nil_r.
  - intros w1 n w2 fm. cbn [conv toks]. unfold flats. cbn [map concat flat]. apply app_nil_r.
  - intros w1 n w2 kids a b c IH. cbn [conv]. rewrite toks_comp.
    change (TOpen w1 w2 n :: toks_list (map conv kids) ++ [TClose a b c n])
      with ([TOpen w1 w2 n] ++ toks_list (map conv kids) ++ [TClose a b c n]).
    rewrite !flats_app. rewrite (flats_conv_list kids IH).
    unfold flats. cbn [map concat flat print]. rewrite !app_nil_r. reflexivity.
Qed.
Lemma flats_conv_items l : flats (toks_list (map conv l)) = print_list l.
Proof. apply flats_conv_list. apply Forall_forall. intros k _. apply flats_conv. Qed.

Section RT.
Variable idc : str -> idres.
Variable json_args : str -> res (list (str * jarg)).
Notation item_wfb := (item_wfb idc).
Notation items_wfb := (items_wfb idc).
Notation name_wf := (name_wf idc).

Lemma items_wf_conv_list l : Forall (fun k => item_wfb k = true -> Scan.item_wf (conv k)) l ->
  items_wfb l = true -> Scan.items_wf (map conv l).
Proof.
  induction 1 as [|k r Hk Hr IH]; intros H; [exact I|].
  unfold RoundTrip2.items_wfb in H. cbn [forallb] in H. apply andb_true_iff in H as [H1 H2].
  cbn [map Scan.items_wf]. split; [apply Hk; exact H1 | apply IH; exact H2].
Qed.
Lemma item_wf_conv : forall i, item_wfb i = true -> Scan.item_wf (conv i).
Proof.
  apply (item_ind2 (fun i => item_wfb i = true -> Scan.item_wf (conv i))).
  - intros s H. cbn [conv Scan.item_wf]. cbn [RoundTrip2.item_wfb] in H. eapply forallb_no_char; [exact H | reflexivity].
  - intros w1 n w2 fm H. cbn [conv Scan.item_wf].
    apply (var_no_char idc); try reflexivity; try (intro E; vm_compute in E; discriminate); exact H.
  - intros w1 n w2 kids a b c IH H. cbn [conv]. apply item_wf_comp.
    cbn [RoundTrip2.item_wfb] in H. repeat (apply andb_true_iff in H as [H ?]).
    refine (conj _ (conj _ (conj _ (conj _ (conj _ (conj _ _)))))); try (apply wsb_all_ws; assumption).
    + eapply name_ok_of_wf; eassumption.
    + apply (items_wf_conv_list kids IH). assumption.
Qed.
Lemma items_wf_conv l : items_wfb l = true -> Scan.items_wf (map conv l).
Proof. apply items_wf_conv_list. apply Forall_forall. intros k _. apply item_wf_conv. Qed.

Lemma split_once_c_none c s : no_char c s -> split_once_c c s = None.
Proof. unfold split_once_c. apply split_once_no_char. Qed.

Lemma drop_bytes_0 s : drop_bytes s 0 = Some s.
Proof. destruct s; reflexivity. Qed.

Definition open_tag (w1 n w2 : str) : str := c_lt :: w1 ++ n ++ w2 ++ [c_gt].
Definition close_tag (a b n c : str) : str := c_lt :: a ++ c_slash :: b ++ n ++ c ++ [c_gt].

Lemma print_comp w1 n w2 kids a b c :
  print (SComp w1 n w2 kids a b c) = open_tag w1 n w2 ++ print_list kids ++ close_tag a b n c.
Proof. reflexivity. Qed.

(** the component finder on  pre ++ <n>kids</n> ++ rest  where [pre] holds no component *)
Lemma find_valid_component_printed pre w1 n w2 kids a b c rest fuel :
  items_wfb pre = true -> forallb (fun x => negb (is_comp x)) pre = true ->
  item_wfb (SComp w1 n w2 kids a b c) = true -> items_wfb rest = true ->
  find_valid_component idc true (S fuel) (print_list (pre ++ SComp w1 n w2 kids a b c :: rest)) 0
  = Ok (Some (s_comp_ ++ n, print_list pre, print_list kids, print_list rest)).
Proof.
  intros Hpre Hnc Hc Hrest.
  cbn [RoundTrip2.item_wfb] in Hc. repeat (apply andb_true_iff in Hc as [Hc ?]).
  match goal with Hn : name_wf _ _ = true |- _ => rename Hn into Hname end.
  pose proof (name_ok_of_wf idc _ _ Hname) as Hnok.
  assert (Hw1 : all_ws w1) by (apply wsb_all_ws; assumption).
  assert (Hw2 : all_ws w2) by (apply wsb_all_ws; assumption).
  assert (Ha : all_ws a) by (apply wsb_all_ws; assumption).
  assert (Hb : all_ws b) by (apply wsb_all_ws; assumption).
  assert (Hcw : all_ws c) by (apply wsb_all_ws; assumption).
  rewrite print_list_app, print_list_cons, print_comp.
  set (after := print_list kids ++ close_tag a b n c ++ print_list rest).
  assert (Ev : print_list pre ++ (open_tag w1 n w2 ++ print_list kids ++ close_tag a b n c) ++ print_list rest
               = print_list pre ++ c_lt :: (w1 ++ n ++ w2) ++ c_gt :: after).
  { unfold after, open_tag. cbn [app]. rewrite <- !app_assoc. cbn [app]. reflexivity. }
  rewrite Ev. cbn [find_valid_component]. rewrite drop_bytes_0.
  assert (Eo : find_opening_tag (print_list pre ++ c_lt :: (w1 ++ n ++ w2) ++ c_gt :: after)
               = Some (print_list pre, n, after, (blen (print_list pre) + blen (w1 ++ n ++ w2) + 2)%nat)).
  { unfold find_opening_tag. rewrite split_once_c_first by (apply noncomps_no_lt with (idc := idc); assumption).
    rewrite split_once_c_first.
    - rewrite trim_name_padded by assumption. reflexivity.
    - repeat apply no_char_app; first [solve [apply no_char_ws; auto] | solve [apply no_char_name; auto]]. }
  rewrite Eo.
  (* the closing tag *)
  assert (Ec : find_closing_tag idc true after n = Ok (Some (s_comp_ ++ n, print_list kids, print_list rest))).
  { unfold find_closing_tag.
    rewrite (key_new_wf idc s_comp_ n) by (try discriminate; try assumption; repeat constructor).
    cbn [bind].
    pose proof (closing_tag_found n (map conv kids) (map conv rest) a b c
                  (items_wf_conv kids ltac:(assumption)) (items_wf_conv rest Hrest) Ha Hb Hcw Hnok) as Hs.
    cbn zeta in Hs. rewrite !flats_conv_items in Hs.
    change (flat (TClose a b c n)) with (close_tag a b n c) in Hs.
    unfold after. rewrite Hs.
    rewrite take_bytes_app.
    replace (blen (print_list kids) + blen (close_tag a b n c))%nat with (blen (print_list kids ++ close_tag a b n c)) by apply blen_app.
    rewrite app_assoc. rewrite drop_bytes_app. reflexivity. }
  rewrite Ec. cbn [bind]. cbn [Nat.add]. rewrite take_bytes_app. reflexivity.
Qed.
End RT.
