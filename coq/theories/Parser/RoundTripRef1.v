(** Round trip for sources containing references `$t( ns : a . b )` and `$t(a.b, {"k": "string", "n": 3})`
    (properties C06 / C01), part 1: the source AST with references, its printer, its denotation
    (a reference denotes the [PcForeign] piece), well-formedness, character facts and string-level
    splitting lemmas. *)
From Coq Require Import List NArith ZArith Bool Arith Lia.
Import ListNotations.
From LI Require Import Base.StrOps Base.StrLemmas Parser.Parse Parser.Reduce Parser.Source Parser.Scan
  Parser.RoundTrip1 Parser.RoundTrip2 Parser.RoundTrip3 Parser.RoundTrip4 Parser.ReduceProofs.
Open Scope N_scope.
Local Notation item := Source.item.
Ltac slia := unfold str, char in *; lia.

(** a padded identifier: left whitespace, name, right whitespace (Key::new trims every path segment) *)
Definition pseg := (str * str * str)%type.
Definition pad (p : pseg) : str := let '(l, n, r) := p in l ++ n ++ r.
Definition seg_name (p : pseg) : str := let '(_, n, _) := p in n.

Fixpoint join_dot (l : list str) : str :=
  match l with
  | [] => []
  | x :: r => match r with [] => x | _ :: _ => x ++ c_dot :: join_dot r end
  end.
Definition keypath_text (ns : option pseg) (path : list pseg) : str :=
  (match ns with Some p => pad p ++ [c_colon] | None => [] end) ++ join_dot (map pad path).
Definition print_ref (ns : option pseg) (path : list pseg) : str := s_fk ++ keypath_text ns path ++ [c_rp].

(** what a string argument of a reference may hold: text, variables, components, argument-less
    references (a nested argument object would need escaped quotes inside the JSON string) *)
Inductive aitem :=
| AText (s : str)
| AVar (w1 name w2 : str) (fm : option (str * str * fmt))
| AComp (w1 name w2 : str) (kids : list aitem) (w0' w1' w2' : str)
| ARef (ns : option pseg) (path : list pseg).
(** an argument: a JSON string (parsed again as a value) or a JSON boolean / integer *)
Inductive rarg := RAStr (its : list aitem) | RALit (l : lit).

Fixpoint aprint (a : aitem) : str :=
  match a with
  | AText s => s
  | AVar w1 n w2 fm => print (SVar w1 n w2 fm)
  | AComp w1 n w2 kids a b c => open_tag w1 n w2 ++ concat (map aprint kids) ++ close_tag a b n c
  | ARef ns path => print_ref ns path
  end.
Definition aprint_list (l : list aitem) : str := concat (map aprint l).
Fixpoint adenote (a : aitem) : piece :=
  match a with
  | AText s => PcText s
  | AVar _ n _ fm => PcVar (s_var_ ++ n) (fmt_of fm)
  | AComp _ n _ kids _ _ _ => PcComp (s_comp_ ++ n) (pc_norm (map adenote kids))
  | ARef ns path => PcForeign (option_map seg_name ns) (map seg_name path) []
  end.

Section AItemInd.
Variable P : aitem -> Prop.
Hypothesis HT : forall s, P (AText s).
Hypothesis HV : forall w1 n w2 fm, P (AVar w1 n w2 fm).
Hypothesis HC : forall w1 n w2 kids a b c, Forall P kids -> P (AComp w1 n w2 kids a b c).
Hypothesis HR : forall ns path, P (ARef ns path).
Fixpoint aitem_ind2 (i : aitem) : P i :=
  match i with
  | AText s => HT s
  | AVar w1 n w2 fm => HV w1 n w2 fm
  | AComp w1 n w2 kids a b c =>
      HC w1 n w2 kids a b c
        ((fix go (l : list aitem) : Forall P l :=
            match l with [] => Forall_nil P | k :: r => Forall_cons k (aitem_ind2 k) (go r) end) kids)
  | ARef ns path => HR ns path
  end.
End AItemInd.

Inductive ritem :=
| RText (s : str)
| RVar (w1 name w2 : str) (fm : option (str * str * fmt))
| RComp (w1 name w2 : str) (kids : list ritem) (w0' w1' w2' : str)
  (* `$t(` [ns `:`] seg `.` seg ... `)`, every identifier padded *)
| RRef (ns : option pseg) (path : list pseg)
  (* `$t(` key path `, {"k": "string", "n": 3, ...})`, canonical spacing in the argument object *)
| RRefA (ns : option pseg) (path : list pseg) (args : list (str * rarg)).

Fixpoint a2r (a : aitem) : ritem :=
  match a with
  | AText s => RText s
  | AVar w1 n w2 fm => RVar w1 n w2 fm
  | AComp w1 n w2 kids a b c => RComp w1 n w2 (map a2r kids) a b c
  | ARef ns path => RRef ns path
  end.

(** the JSON object of the arguments *)
Definition c_quote : char := 34.
Definition value_text (a : rarg) : str :=
  match a with
  | RAStr its => c_quote :: aprint_list its ++ [c_quote]
  | RALit l => lit_display l
  end.
Definition member_text (ka : str * str) : str := c_quote :: fst ka ++ c_quote :: c_colon :: 32 :: snd ka.
Fixpoint members_text (l : list (str * str)) : str :=
  match l with
  | [] => []
  | x :: r => match r with [] => member_text x | _ :: _ => member_text x ++ c_comma :: 32 :: members_text r end
  end.
Definition obj_text (l : list (str * str)) : str := c_lb :: members_text l ++ [c_rb].
Definition args_text (args : list (str * rarg)) : list (str * str) :=
  map (fun ka => (fst ka, value_text (snd ka))) args.
Definition print_refa (ns : option pseg) (path : list pseg) (args : list (str * rarg)) : str :=
  s_fk ++ keypath_text ns path ++ c_comma :: 32 :: obj_text (args_text args) ++ [c_rp].

Fixpoint rprint (i : ritem) : str :=
  match i with
  | RText s => s
  | RVar w1 n w2 fm => print (SVar w1 n w2 fm)
  | RComp w1 n w2 kids a b c => open_tag w1 n w2 ++ concat (map rprint kids) ++ close_tag a b n c
  | RRef ns path => print_ref ns path
  | RRefA ns path args => print_refa ns path args
  end.
Definition rprint_list (l : list ritem) : str := concat (map rprint l).

(** the argument map as the parser builds it: a BTreeMap keyed by the JSON key (serde), then a
    BTreeMap keyed by the variable name `var_` ++ key *)
Definition sorted1 {V} (l : list (str * V)) : list (str * V) :=
  fold_left (fun m kv => map_insert (fst kv) (snd kv) m) l [].
Definition sorted2 {V} (l : list (str * V)) : list (str * V) :=
  fold_left (fun m kv => map_insert (s_var_ ++ fst kv) (snd kv) m) (sorted1 l) [].

Definition darg (a : rarg) : list piece :=
  match a with
  | RAStr its => pc_norm (map adenote its)
  | RALit l => pc_norm [PcText (lit_display l)]
  end.
Fixpoint rdenote (i : ritem) : piece :=
  match i with
  | RText s => PcText s
  | RVar _ n _ fm => PcVar (s_var_ ++ n) (fmt_of fm)
  | RComp _ n _ kids _ _ _ => PcComp (s_comp_ ++ n) (pc_norm (map rdenote kids))
  | RRef ns path => PcForeign (option_map seg_name ns) (map seg_name path) []
  | RRefA ns path args =>
      PcForeign (option_map seg_name ns) (map seg_name path) (sorted2 (map (fun ka => (fst ka, darg (snd ka))) args))
  end.
Definition rdenote_list (l : list ritem) : list piece := pc_norm (map rdenote l).

Lemma rprint_a2r : forall a, rprint (a2r a) = aprint a.
Proof.
  apply aitem_ind2; try reflexivity.
  intros w1 n w2 kids a b c IH. cbn [a2r rprint aprint]. f_equal. f_equal. rewrite map_map. f_equal.
  induction IH as [|k r Hk Hr IHr]; [reflexivity|]. cbn [map]. rewrite Hk, IHr. reflexivity.
Qed.
Lemma rdenote_a2r : forall a, rdenote (a2r a) = adenote a.
Proof.
  apply aitem_ind2; try reflexivity.
  intros w1 n w2 kids a b c IH. cbn [a2r rdenote adenote]. f_equal. f_equal. rewrite map_map.
  induction IH as [|k r Hk Hr IHr]; [reflexivity|]. cbn [map]. rewrite Hk, IHr. reflexivity.
Qed.
Lemma rprint_list_a2r l : rprint_list (map a2r l) = aprint_list l.
Proof. unfold rprint_list, aprint_list. rewrite map_map. f_equal. apply map_ext. apply rprint_a2r. Qed.
Lemma rdenote_list_a2r l : rdenote_list (map a2r l) = pc_norm (map adenote l).
Proof. unfold rdenote_list. rewrite map_map. f_equal. apply map_ext. apply rdenote_a2r. Qed.

Fixpoint has_ref (i : ritem) : bool :=
  match i with
  | RText _ | RVar _ _ _ _ => false
  | RComp _ _ _ kids _ _ _ => existsb has_ref kids
  | RRef _ _ | RRefA _ _ _ => true
  end.
Definition has_ref_list (l : list ritem) : bool := existsb has_ref l.

Section RItemInd.
Variable P : ritem -> Prop.
Hypothesis HT : forall s, P (RText s).
Hypothesis HV : forall w1 n w2 fm, P (RVar w1 n w2 fm).
Hypothesis HC : forall w1 n w2 kids a b c, Forall P kids -> P (RComp w1 n w2 kids a b c).
Hypothesis HR : forall ns path, P (RRef ns path).
Hypothesis HRA : forall ns path args, P (RRefA ns path args).
Fixpoint ritem_ind2 (i : ritem) : P i :=
  match i with
  | RText s => HT s
  | RVar w1 n w2 fm => HV w1 n w2 fm
  | RComp w1 n w2 kids a b c =>
      HC w1 n w2 kids a b c
        ((fix go (l : list ritem) : Forall P l :=
            match l with [] => Forall_nil P | k :: r => Forall_cons k (ritem_ind2 k) (go r) end) kids)
  | RRef ns path => HR ns path
  | RRefA ns path args => HRA ns path args
  end.
End RItemInd.

Definition is_rcomp (i : ritem) : bool := match i with RComp _ _ _ _ _ _ _ => true | _ => false end.
Definition is_rref (i : ritem) : bool := match i with RRef _ _ | RRefA _ _ _ => true | _ => false end.
Definition is_rvar (i : ritem) : bool := match i with RVar _ _ _ _ => true | _ => false end.
Definition is_rtext (i : ritem) : bool := match i with RText _ => true | _ => false end.
Definition is_rcr (i : ritem) : bool := is_rcomp i || is_rref i.

(** first element satisfying [p] *)
Fixpoint gsplit_first {A} (p : A -> bool) (l : list A) : option (list A * A * list A) :=
  match l with
  | [] => None
  | x :: r => if p x then Some ([], x, r)
              else match gsplit_first p r with Some (a, y, b) => Some (x :: a, y, b) | None => None end
  end.
Lemma gsplit_first_some {A} (p : A -> bool) l a y b : gsplit_first p l = Some (a, y, b) ->
  l = a ++ y :: b /\ p y = true /\ forallb (fun x => negb (p x)) a = true.
Proof.
  revert a y b; induction l as [|x r IH]; intros a y b H; cbn [gsplit_first] in H; [discriminate|].
  destruct (p x) eqn:E.
  - inversion H; subst. repeat split; assumption.
  - destruct (gsplit_first p r) as [[[a' y'] b']|]; [|discriminate]. inversion H; subst.
    destruct (IH _ _ _ eq_refl) as (-> & Hy & Ha). repeat split; [exact Hy|]. cbn [forallb]. rewrite E, Ha. reflexivity.
Qed.
Lemma gsplit_first_none {A} (p : A -> bool) l : gsplit_first p l = None -> forallb (fun x => negb (p x)) l = true.
Proof.
  induction l as [|x r IH]; intros H; [reflexivity|]. cbn [gsplit_first] in H.
  destruct (p x) eqn:E; [discriminate|]. destruct (gsplit_first p r) as [[[a y] b]|]; [discriminate|].
  cbn [forallb]. rewrite E, IH by reflexivity. reflexivity.
Qed.

Lemma rprint_list_app a b : rprint_list (a ++ b) = rprint_list a ++ rprint_list b.
Proof. unfold rprint_list. rewrite map_app, concat_app. reflexivity. Qed.
Lemma rprint_list_cons x b : rprint_list (x :: b) = rprint x ++ rprint_list b.
Proof. reflexivity. Qed.
Lemma rprint_comp w1 n w2 kids a b c :
  rprint (RComp w1 n w2 kids a b c) = open_tag w1 n w2 ++ rprint_list kids ++ close_tag a b n c.
Proof. reflexivity. Qed.

(** * string-level lemmas *)
Lemma split_once_first_pat c p a b : no_char c a -> split_once (c :: p) (a ++ (c :: p) ++ b) = Some (a, b).
Proof.
  induction a as [|x a IH]; intros H.
  - cbn [app]. cbn [split_once]. change (c :: p ++ b) with ((c :: p) ++ b). rewrite strip_prefix_app. reflexivity.
  - inversion H; subst. change ((x :: a) ++ (c :: p) ++ b) with (x :: (a ++ (c :: p) ++ b)).
    cbn [split_once]. rewrite strip_prefix_head by assumption.
    rewrite IH by assumption. reflexivity.
Qed.
Lemma split_once_prefix c p a t x y : no_char c a -> split_once (c :: p) (a ++ t) = Some (x, y) -> exists x', x = a ++ x'.
Proof.
  revert x; induction a as [|x0 a IH]; intros x Ha H.
  - exists x. reflexivity.
  - inversion Ha; subst. cbn [app split_once] in H. rewrite strip_prefix_head in H by assumption.
    destruct (split_once (c :: p) (a ++ t)) as [[x1 y1]|] eqn:E; [|discriminate]. inversion H; subst.
    destruct (IH x1 ltac:(assumption) eq_refl) as [x' ->]. exists x'. reflexivity.
Qed.
Lemma find_idx_first f a c b : Forall (fun x => f x = false) a -> f c = true -> find_idx f (a ++ c :: b) = Some (blen a).
Proof.
  intros Ha Hc. induction Ha as [|x a Hx Ha IH]; cbn [app find_idx blen].
  - rewrite Hc. reflexivity.
  - rewrite Hx, IH. reflexivity.
Qed.

Lemma split_all_nonnil c s : split_all c s <> [].
Proof.
  induction s as [|x r IH]; cbn [split_all]; [discriminate|].
  destruct (split_all c r) as [|h t]; [congruence|]. destruct (x =? c); discriminate.
Qed.
Lemma split_all_single c x : no_char c x -> split_all c x = [x].
Proof.
  induction x as [|x0 x IH]; intros H; [reflexivity|]. inversion H; subst. cbn [split_all].
  rewrite IH by assumption. destruct (x0 =? c) eqn:E; [apply N.eqb_eq in E; contradiction | reflexivity].
Qed.
Lemma split_all_cons c x y : no_char c x -> split_all c (x ++ c :: y) = x :: split_all c y.
Proof.
  induction x as [|x0 x IH]; intros H.
  - cbn [app split_all]. rewrite N.eqb_refl. pose proof (split_all_nonnil c y) as Hn.
    destruct (split_all c y) as [|h t]; [congruence | reflexivity].
  - inversion H; subst. cbn [app split_all]. rewrite IH by assumption.
    destruct (x0 =? c) eqn:E; [apply N.eqb_eq in E; contradiction | reflexivity].
Qed.
Lemma split_all_join c_ (l : list str) : c_ = c_dot -> l <> [] -> Forall (no_char c_dot) l -> split_all c_dot (join_dot l) = l.
Proof.
  intros _ Hne Hall. induction Hall as [|x r Hx Hr IH]; [congruence|].
  cbn [join_dot]. destruct r as [|y r'].
  - apply split_all_single. exact Hx.
  - rewrite split_all_cons by exact Hx. rewrite IH by discriminate. reflexivity.
Qed.

Lemma no_char_join c (l : list str) : c <> c_dot -> Forall (no_char c) l -> no_char c (join_dot l).
Proof.
  intros Hc Hall. induction Hall as [|x r Hx Hr IH]; [constructor|].
  cbn [join_dot]. destruct r as [|y r']; [exact Hx|].
  apply no_char_app; [exact Hx|]. apply no_char_cons; [intro E; apply Hc; symmetry; exact E | exact IH].
Qed.

(** * well-formed sources with references *)
Section WF.
Variable idc : str -> idres.
Notation name_wf := (name_wf idc).

Definition seg_wf (p : pseg) : bool := let '(l, n, r) := p in wsb l && wsb r && name_wf [] n.
Definition nonnil {A} (l : list A) : bool := match l with [] => false | _ :: _ => true end.

Definition kp_wf (ns : option pseg) (path : list pseg) : bool :=
  (match ns with Some p => seg_wf p | None => true end) && nonnil path && forallb seg_wf path.

(** string arguments: what JSON lets through unescaped (no quote, backslash, control character),
    and no '}' in their text (the brace scan of parse_foreign_key_args counts braces) *)
Definition jsafe (c : char) : bool := negb (c =? c_quote) && negb (c =? 92) && negb (c <? 32).
Fixpoint aitem_wfb (a : aitem) : bool :=
  match a with
  | AText s => forallb textch s && forallb (fun c => negb (c =? c_rb)) s
  | AVar w1 n w2 fm => item_wfb idc (SVar w1 n w2 fm)
  | AComp w1 n w2 kids a b c =>
      wsb w1 && wsb w2 && wsb a && wsb b && wsb c && name_wf s_comp_ n && forallb aitem_wfb kids
  | ARef ns path => kp_wf ns path
  end.
Fixpoint nodup_strs (l : list str) : bool :=
  match l with [] => true | x :: r => negb (existsb (str_eqb x) r) && nodup_strs r end.
(** literal arguments: booleans and the integers serde reads back as the same literal *)
Definition lit_ok (l : lit) : bool :=
  match l with
  | LBool _ => true
  | LUnsigned n => n <=? 18446744073709551615
  | LSigned z => (z <? 0)%Z && (Z.to_N (- z) <=? 9223372036854775808)
  | _ => false
  end.
Definition rarg_wfb (a : rarg) : bool :=
  match a with
  | RAStr its => forallb aitem_wfb its && forallb jsafe (aprint_list its)
  | RALit l => lit_ok l
  end.
Definition arg_wfb (ka : str * rarg) : bool := name_wf s_var_ (fst ka) && rarg_wfb (snd ka).
Definition args_wfb (args : list (str * rarg)) : bool :=
  nonnil args && nodup_strs (map fst args) && forallb arg_wfb args.

Fixpoint ritem_wfb (i : ritem) : bool :=
  match i with
  | RText s => forallb textch s
  | RVar w1 n w2 fm => item_wfb idc (SVar w1 n w2 fm)
  | RComp w1 n w2 kids a b c =>
      wsb w1 && wsb w2 && wsb a && wsb b && wsb c && name_wf s_comp_ n && forallb ritem_wfb kids
  | RRef ns path => kp_wf ns path
  | RRefA ns path args => kp_wf ns path && args_wfb args
  end.
Definition ritems_wfb (l : list ritem) : bool := forallb ritem_wfb l.

Lemma aitem_wfb_a2r : forall a, aitem_wfb a = true -> ritem_wfb (a2r a) = true.
Proof.
  apply (aitem_ind2 (fun a => aitem_wfb a = true -> ritem_wfb (a2r a) = true)).
  - intros s H. cbn [aitem_wfb a2r ritem_wfb] in *. apply andb_true_iff in H as [H _]. exact H.
  - intros w1 n w2 fm H. exact H.
  - intros w1 n w2 kids a b c IH H. cbn [aitem_wfb a2r ritem_wfb] in *.
    apply andb_true_iff in H as [H Hk]. rewrite H. cbn [andb].
    rewrite forallb_forall in Hk |- *. intros i Hi. apply in_map_iff in Hi as (x & <- & Hx).
    rewrite Forall_forall in IH. apply IH; [exact Hx | apply Hk; exact Hx].
  - intros ns path H. exact H.
Qed.
Lemma aitems_wfb_a2r l : forallb aitem_wfb l = true -> ritems_wfb (map a2r l) = true.
Proof.
  unfold ritems_wfb. intros H. rewrite forallb_forall in H |- *. intros i Hi.
  apply in_map_iff in Hi as (a & <- & Ha). apply aitem_wfb_a2r. apply H. exact Ha.
Qed.

Lemma ritems_wfb_split a y b : ritems_wfb (a ++ y :: b) = true ->
  ritems_wfb a = true /\ ritem_wfb y = true /\ ritems_wfb b = true.
Proof.
  unfold ritems_wfb. rewrite forallb_app. cbn [forallb]. intros H.
  apply andb_true_iff in H as [H1 H2]. apply andb_true_iff in H2 as [H2 H3]. auto.
Qed.
Lemma ritems_wfb_app a b : ritems_wfb a = true -> ritems_wfb b = true -> ritems_wfb (a ++ b) = true.
Proof. unfold ritems_wfb. rewrite forallb_app. intros -> ->. reflexivity. Qed.

Lemma seg_wf_parts p : seg_wf p = true ->
  exists l n r, p = (l, n, r) /\ wsb l = true /\ wsb r = true /\ name_wf [] n = true.
Proof.
  destruct p as [[l n] r]. cbn [seg_wf]. intros H. apply andb_true_iff in H as [H H3]. apply andb_true_iff in H as [H1 H2].
  exists l, n, r. auto.
Qed.

Lemma pad_no_char c p : seg_wf p = true -> is_ws c = false -> namech c = false -> no_char c (pad p).
Proof.
  intros H Hw Hn. destruct (seg_wf_parts p H) as (l & n & r & -> & Hl & Hr & Hname).
  destruct (name_wf_parts idc _ _ Hname) as (_ & Hnc & _). cbn [pad].
  apply no_char_app; [eapply forallb_no_char; [exact Hl | exact Hw]|].
  apply no_char_app; [eapply forallb_no_char; [exact Hnc | exact Hn] | eapply forallb_no_char; [exact Hr | exact Hw]].
Qed.
Lemma pads_no_char c path : forallb seg_wf path = true -> is_ws c = false -> namech c = false ->
  Forall (no_char c) (map pad path).
Proof.
  intros H Hw Hn. apply Forall_map. apply Forall_forall. intros p Hp. rewrite forallb_forall in H.
  apply pad_no_char; [apply H; exact Hp | exact Hw | exact Hn].
Qed.

Lemma ref_wf_parts ns path : kp_wf ns path = true ->
  (match ns with Some p => seg_wf p = true | None => True end) /\ path <> [] /\ forallb seg_wf path = true.
Proof.
  unfold kp_wf. intros H. apply andb_true_iff in H as [H H3]. apply andb_true_iff in H as [H1 H2].
  repeat split; [destruct ns; [exact H1 | exact I] | destruct path; [discriminate H2 | discriminate] | exact H3].
Qed.

Lemma keypath_no_char c ns path : kp_wf ns path = true ->
  is_ws c = false -> namech c = false -> c <> c_dot -> c <> c_colon -> no_char c (keypath_text ns path).
Proof.
  intros H Hw Hn Hd Hc. destruct (ref_wf_parts _ _ H) as (Hns & _ & Hp). unfold keypath_text.
  apply no_char_app.
  - destruct ns as [p|]; [|apply no_char_nil].
    apply no_char_app; [apply pad_no_char; assumption|]. apply no_char_cons; [intro E; apply Hc; symmetry; exact E | apply no_char_nil].
  - apply no_char_join; [exact Hd | apply pads_no_char; assumption].
Qed.
Lemma ref_no_char c ns path : kp_wf ns path = true ->
  is_ws c = false -> namech c = false -> c <> c_dot -> c <> c_colon ->
  c <> c_dollar -> c <> c_t -> c <> c_lp -> c <> c_rp -> no_char c (print_ref ns path).
Proof.
  intros H Hw Hn Hd Hc H1 H2 H3 H4. unfold print_ref, s_fk. cbn [app].
  apply no_char_cons; [intro E; apply H1; symmetry; exact E|].
  apply no_char_cons; [intro E; apply H2; symmetry; exact E|].
  apply no_char_cons; [intro E; apply H3; symmetry; exact E|].
  apply no_char_app; [apply keypath_no_char; assumption|].
  apply no_char_cons; [intro E; apply H4; symmetry; exact E | apply no_char_nil].
Qed.

Lemma arg_wf_parts ka : arg_wfb ka = true -> name_wf s_var_ (fst ka) = true /\ rarg_wfb (snd ka) = true.
Proof. unfold arg_wfb. intros H. apply andb_true_iff in H as [H1 H2]. auto. Qed.
Lemma args_wf_parts args : args_wfb args = true ->
  args <> [] /\ nodup_strs (map fst args) = true /\ forallb arg_wfb args = true.
Proof.
  unfold args_wfb. intros H. apply andb_true_iff in H as [H H3]. apply andb_true_iff in H as [H1 H2].
  repeat split; [destruct args; [discriminate H1 | discriminate] | exact H2 | exact H3].
Qed.

(** text, variables and argument-less references print without '<' *)
Definition is_tvr (i : ritem) : bool := match i with RText _ | RVar _ _ _ _ | RRef _ _ => true | _ => false end.
Lemma rnoncomp_no_lt i : ritem_wfb i = true -> is_tvr i = true -> no_char c_lt (rprint i).
Proof.
  destruct i as [s|w1 n w2 fm| |ns path|ns path args]; intros H Hc; try discriminate.
  - cbn [ritem_wfb rprint] in *. eapply forallb_no_char; [exact H | reflexivity].
  - cbn [ritem_wfb rprint] in *. apply (var_no_char idc); try reflexivity; try (intro E; vm_compute in E; discriminate); exact H.
  - cbn [rprint]. apply ref_no_char; try reflexivity; try (intro E; vm_compute in E; discriminate); exact H.
Qed.
Lemma rnoncomps_no_lt l : ritems_wfb l = true -> forallb is_tvr l = true -> no_char c_lt (rprint_list l).
Proof.
  intros H Hc. unfold rprint_list. apply no_char_concat. apply Forall_map. apply Forall_forall. intros i Hi.
  unfold ritems_wfb in H. rewrite forallb_forall in H, Hc. apply rnoncomp_no_lt; [apply H; exact Hi | apply Hc; exact Hi].
Qed.

(** text and variables print without '$' *)
Lemma rtv_no_dollar l : ritems_wfb l = true -> forallb (fun x => negb (is_rcr x)) l = true -> no_char c_dollar (rprint_list l).
Proof.
  intros H Hc. unfold rprint_list. apply no_char_concat. apply Forall_map. apply Forall_forall. intros i Hi.
  unfold ritems_wfb in H. rewrite forallb_forall in H, Hc. specialize (H i Hi). specialize (Hc i Hi).
  destruct i as [s|w1 n w2 fm| | |]; try discriminate.
  - cbn [ritem_wfb rprint] in *. eapply forallb_no_char; [exact H | reflexivity].
  - cbn [ritem_wfb rprint] in *. apply (var_no_char idc); try reflexivity; try (intro E; vm_compute in E; discriminate); exact H.
Qed.

(** a run of text items is one well-formed text *)
Lemma rtexts_textch l : ritems_wfb l = true -> forallb is_rtext l = true -> forallb textch (rprint_list l) = true.
Proof.
  induction l as [|x r IH]; intros H Ht; [reflexivity|].
  cbn [forallb] in Ht. apply andb_true_iff in Ht as [Hx Hr].
  unfold ritems_wfb in H. cbn [forallb] in H. apply andb_true_iff in H as [Wx Wr].
  destruct x as [s| | | |]; try discriminate. rewrite rprint_list_cons. cbn [rprint ritem_wfb] in *.
  rewrite forallb_app, Wx. cbn [andb]. apply IH; assumption.
Qed.

(** * the key path of a printed reference *)
Lemma key_new_pad p : seg_wf p = true -> key_new idc (pad p) = Ok (Some (seg_name p)).
Proof.
  intros H. destruct (seg_wf_parts p H) as (l & n & r & -> & Hl & Hr & Hname). cbn [pad seg_name].
  unfold key_new. rewrite trim_name_padded; [| apply wsb_all_ws; exact Hl | apply wsb_all_ws; exact Hr | eapply name_ok_of_wf; exact Hname].
  destruct (name_wf_parts idc _ _ Hname) as (_ & _ & Hid). unfold id_ok in Hid. cbn [app] in Hid.
  destruct (idc (replace_c c_minus c_us n)); try discriminate. reflexivity.
Qed.
Lemma keys_all_pads path : forallb seg_wf path = true -> keys_all idc (map pad path) = Ok (Some (map seg_name path)).
Proof.
  induction path as [|p r IH]; intros H; [reflexivity|].
  cbn [forallb] in H. apply andb_true_iff in H as [Hp Hr]. cbn [map keys_all].
  rewrite key_new_pad by exact Hp. cbn [bind]. rewrite IH by exact Hr. reflexivity.
Qed.

Lemma parse_key_path_printed ns path : kp_wf ns path = true ->
  parse_key_path idc (keypath_text ns path) = Ok (Some (option_map seg_name ns, map seg_name path)).
Proof.
  intros H. destruct (ref_wf_parts _ _ H) as (Hns & Hne & Hp).
  assert (Hsplit : split_all c_dot (join_dot (map pad path)) = map pad path).
  { apply (split_all_join c_dot); [reflexivity | destruct path; [congruence | discriminate] |].
    apply pads_no_char; [exact Hp | reflexivity | reflexivity]. }
  unfold parse_key_path, keypath_text. destruct ns as [p|].
  - rewrite <- app_assoc. cbn [app]. rewrite split_once_c_first by (apply pad_no_char; [exact Hns | reflexivity | reflexivity]).
    rewrite key_new_pad by exact Hns. cbn [bind]. rewrite Hsplit, keys_all_pads by exact Hp. reflexivity.
  - cbn [app]. rewrite split_once_c_none.
    + rewrite Hsplit, keys_all_pads by exact Hp. reflexivity.
    + apply no_char_join; [intro E; vm_compute in E; discriminate | apply pads_no_char; [exact Hp | reflexivity | reflexivity]].
Qed.
End WF.
