(** Round trip for sources containing references, part 4: the JSON reader model of Parser/Json.v reads a
    printed argument object `{"k": "string", "n": 3, "b": true, ...}` as the key-sorted map of its values,
    i.e. it satisfies the oracle hypothesis [json_ok] of the round-trip theorem (properties C06 / C01). *)
From Coq Require Import List NArith ZArith Bool Arith Lia.
Import ListNotations.
From LI Require Import Base.StrOps Base.StrLemmas Parser.Parse Parser.Json Parser.Reduce Parser.Source Parser.Scan
  Parser.RoundTrip1 Parser.RoundTrip2 Parser.RoundTrip3 Parser.RoundTrip4 Parser.ReduceProofs
  Parser.RoundTripRef1 Parser.RoundTripRef2 Parser.RoundTripRef3.
Open Scope N_scope.
Ltac slia := unfold str, char in *; lia.

Lemma read_jstring_safe k rest : forallb jsafe k = true -> read_jstring (k ++ c_quote :: rest) = Ok (k, rest).
Proof.
  induction k as [|c k IH]; intros H.
  - cbn [app read_jstring]. change (c_quote =? 34) with true. reflexivity.
  - cbn [forallb] in H. apply andb_true_iff in H as [Hc Hk]. unfold jsafe in Hc.
    apply andb_true_iff in Hc as [Hc H3]. apply andb_true_iff in Hc as [H1 H2].
    cbn [app read_jstring]. unfold c_quote in H1.
    destruct (c =? 34); [discriminate|]. destruct (c <? 32); [discriminate|]. destruct (c =? 92); [discriminate|].
    rewrite IH by exact Hk. reflexivity.
Qed.

(** * Rust's Display of an unsigned integer, read back *)
Definition dv (a : N) (ds : str) : N := fold_left (fun acc c => acc * 10 + (c - 48)) ds a.
Lemma digits_val_dv ds : digits_val ds = dv 0 ds.
Proof. reflexivity. Qed.
Lemma dv_app a x y : dv a (x ++ y) = dv (dv a x) y.
Proof. unfold dv. apply fold_left_app. Qed.
Lemma dv_one a c : dv a [c] = a * 10 + (c - 48).
Proof. reflexivity. Qed.

Definition dec_good (n : N) (ds : str) : Prop :=
  forallb is_digit ds = true /\ dv 0 ds = n /\ ds <> [] /\
  (n <> 0 -> exists c t, ds = c :: t /\ c <> 48) /\ (n = 0 -> ds = [48]) /\
  (forall k, n < 10 ^ N.of_nat k -> (0 < k)%nat -> (length ds <= k)%nat).

Lemma pow10_succ k : 10 ^ N.of_nat (S k) = 10 * 10 ^ N.of_nat k.
Proof. rewrite Nat2N.inj_succ, N.pow_succ_r'. reflexivity. Qed.

Lemma dec_aux_spec : forall fuel n acc, n < 10 ^ N.of_nat fuel -> (0 < fuel)%nat ->
  exists ds, dec_aux fuel n acc = ds ++ acc /\ dec_good n ds.
Proof.
  induction fuel as [|f IH]; intros n acc Hn Hf; [lia|].
  cbn [dec_aux]. set (d := n mod 10). set (q := n / 10).
  assert (Hd : d < 10) by (apply N.mod_upper_bound; discriminate).
  assert (En : n = 10 * q + d) by (apply N.div_mod'; discriminate).
  clearbody d q.
  assert (Hdig : is_digit (48 + d) = true).
  { unfold is_digit. apply andb_true_iff. split; apply N.leb_le; lia. }
  destruct (q =? 0) eqn:Eq.
  - apply N.eqb_eq in Eq. subst q. assert (n = d) by lia. subst d.
    exists [48 + n]. split; [reflexivity|]. unfold dec_good. cbn [forallb]. rewrite Hdig.
    repeat split.
    + rewrite dv_one. lia.
    + discriminate.
    + intros Hn0. exists (48 + n), []. split; [reflexivity | lia].
    + intros ->. reflexivity.
    + intros k _ Hk. cbn [length]. lia.
  - apply N.eqb_neq in Eq.
    assert (Hq : q < 10 ^ N.of_nat f).
    { rewrite pow10_succ in Hn. lia. }
    assert (Hf' : (0 < f)%nat).
    { destruct f; [|lia]. cbn in Hq. lia. }
    destruct (IH q ((48 + d) :: acc) Hq Hf') as (ds' & E' & G').
    destruct G' as (D1 & D2 & D3 & D4 & D5 & D6).
    exists (ds' ++ [48 + d]). split; [rewrite E', <- app_assoc; reflexivity|].
    unfold dec_good. repeat split.
    + rewrite forallb_app, D1. cbn [forallb]. rewrite Hdig. reflexivity.
    + rewrite dv_app, D2, dv_one. lia.
    + destruct ds'; discriminate.
    + intros _. destruct (D4 Eq) as (c & t & -> & Hc). exists c, (t ++ [48 + d]). split; [reflexivity | exact Hc].
    + intros Hn0. lia.
    + intros k Hk Hk0. rewrite app_length. cbn [length]. destruct k as [|k']; [lia|].
      rewrite pow10_succ in Hk. assert (Hqk : q < 10 ^ N.of_nat k') by lia.
      assert ((0 < k')%nat). { destruct k'; [|lia]. cbn in Hqk. lia. }
      specialize (D6 k' Hqk ltac:(assumption)). lia.
Qed.

Lemma dec_spec n : n < 10 ^ 40 -> dec_good n (dec n).
Proof.
  intros H. unfold dec. destruct (dec_aux_spec 40 n [] H ltac:(lia)) as (ds & E & G). rewrite E, app_nil_r. exact G.
Qed.

Lemma span_app f a rest : forallb f a = true -> (match rest with [] => True | c :: _ => f c = false end) ->
  span f (a ++ rest) = (a, rest).
Proof.
  induction a as [|c a IH]; intros Ha Hr.
  - cbn [app]. destruct rest as [|c r]; [reflexivity|]. cbn [span]. rewrite Hr. reflexivity.
  - cbn [forallb] in Ha. apply andb_true_iff in Ha as [Hc Ha]. cbn [app span]. rewrite Hc, IH by assumption. reflexivity.
Qed.
Lemma digit_numch ds : forallb is_digit ds = true -> forallb is_numch ds = true.
Proof. intros H. rewrite forallb_forall in H |- *. intros c Hc. unfold is_numch. rewrite (H c Hc). reflexivity. Qed.

Definition rest_ok (rest : str) : Prop := match rest with [] => True | c :: _ => is_numch c = false end.

Lemma read_unsigned n rest : n <= u64_max -> rest_ok rest -> read_jnumber (dec n ++ rest) = Ok (LUnsigned n, rest).
Proof.
  intros Hn Hr.
  assert (H40 : n < 10 ^ 40) by (unfold u64_max in Hn; change (10 ^ 40) with 10000000000000000000000000000000000000000; lia).
  destruct (dec_spec n H40) as (D1 & D2 & D3 & D4 & D5 & D6).
  unfold read_jnumber. rewrite (span_app is_numch (dec n) rest (digit_numch _ D1) Hr).
  destruct (dec n) as [|c t] eqn:Ed; [congruence|].
  assert (Hc : (c =? 45) = false).
  { cbn [forallb] in D1. apply andb_true_iff in D1 as [Hc _]. unfold is_digit in Hc. apply andb_true_iff in Hc as [H1 H2].
    apply N.leb_le in H1. apply N.eqb_neq. lia. }
  rewrite Hc. rewrite D1. cbn [negb].
  assert (Hz : ((c =? 48) && negb match t with [] => true | _ :: _ => false end) = false).
  { destruct (c =? 48) eqn:E48; [|reflexivity]. apply N.eqb_eq in E48. subst c.
    destruct (N.eq_dec n 0) as [->|Hn0].
    - specialize (D5 eq_refl). inversion D5; subst. reflexivity.
    - destruct (D4 Hn0) as (c' & t' & E & Hc'). inversion E; subst. congruence. }
  rewrite Hz. rewrite digits_val_dv, D2.
  assert (Hlen : (20 <? length (c :: t))%nat = false).
  { apply Nat.ltb_ge. apply (D6 20%nat); [|lia]. unfold u64_max in Hn. change (10 ^ N.of_nat 20) with 100000000000000000000. lia. }
  rewrite Hlen. assert (Hle : (n <=? u64_max) = true) by (apply N.leb_le; exact Hn). rewrite Hle. reflexivity.
Qed.

Lemma read_signed m rest : m <> 0 -> m <= i64_min_abs -> rest_ok rest ->
  read_jnumber (45 :: dec m ++ rest) = Ok (LSigned (- Z.of_N m), rest).
Proof.
  intros Hm0 Hm Hr.
  assert (H40 : m < 10 ^ 40) by (unfold i64_min_abs in Hm; change (10 ^ 40) with 10000000000000000000000000000000000000000; lia).
  destruct (dec_spec m H40) as (D1 & D2 & D3 & D4 & D5 & D6).
  unfold read_jnumber.
  assert (Esp : span is_numch (45 :: dec m ++ rest) = (45 :: dec m, rest)).
  { apply (span_app is_numch (45 :: dec m) rest); [|exact Hr]. cbn [forallb]. rewrite (digit_numch _ D1). reflexivity. }
  match goal with |- context [span is_numch ?s] => replace (span is_numch s) with (45 :: dec m, rest) by (symmetry; exact Esp) end.
  change (45 =? 45) with true. cbv iota. rewrite D1. cbn [negb].
  destruct (dec m) as [|c t] eqn:Ed; [congruence|].
  assert (Hz : ((c =? 48) && negb match t with [] => true | _ :: _ => false end) = false).
  { destruct (c =? 48) eqn:E48; [|reflexivity]. apply N.eqb_eq in E48. subst c.
    destruct (D4 Hm0) as (c' & t' & E & Hc'). inversion E; subst. congruence. }
  rewrite Hz. rewrite digits_val_dv, D2.
  assert (Hlen : (20 <? length (c :: t))%nat = false).
  { apply Nat.ltb_ge. apply (D6 20%nat); [|lia]. unfold i64_min_abs in Hm. change (10 ^ N.of_nat 20) with 100000000000000000000. lia. }
  rewrite Hlen. assert (E0 : (m =? 0) = false) by (apply N.eqb_neq; exact Hm0). rewrite E0.
  assert (Hle : (m <=? i64_min_abs) = true) by (apply N.leb_le; exact Hm). rewrite Hle. reflexivity.
Qed.

(** * one value *)
Section Model.
Variable idc : str -> idres.

Lemma read_value_printed a rest : rarg_wfb idc a = true -> rest_ok rest ->
  read_jvalue (value_text a ++ rest) = Ok (jarg_of a, rest).
Proof.
  intros Hw Hr. destruct a as [its|l]; cbn [rarg_wfb value_text jarg_of] in *.
  - apply andb_true_iff in Hw as [_ Hj]. cbn [app read_jvalue]. change (c_quote =? 34) with true. cbv iota.
    rewrite <- app_assoc. cbn [app]. rewrite read_jstring_safe by exact Hj. reflexivity.
  - destruct l as [s|z|n|d|b]; cbn [lit_ok lit_display] in *; try discriminate.
    + (* signed, negative *)
      apply andb_true_iff in Hw as [Hz Hm]. rewrite Hz. apply Z.ltb_lt in Hz. apply N.leb_le in Hm.
      set (m := Z.to_N (- z)) in *.
      assert (Hm0 : m <> 0) by (unfold m; lia).
      cbn [app read_jvalue]. change (45 =? 34) with false. cbv iota. change (is_digit 45 || (45 =? 45)) with true. cbv iota.
      match goal with |- context [read_jnumber ?s] =>
        replace (read_jnumber s) with (@Ok (lit * str) (LSigned (- Z.of_N m), rest)) by (symmetry; exact (read_signed m rest Hm0 Hm Hr)) end.
      cbn [bind]. unfold m. rewrite Z2N.id by lia. rewrite Z.opp_involutive. reflexivity.
    + (* unsigned *)
      apply N.leb_le in Hw. change 18446744073709551615 with u64_max in Hw.
      assert (H40 : n < 10 ^ 40) by (unfold u64_max in Hw; change (10 ^ 40) with 10000000000000000000000000000000000000000; lia).
      destruct (dec_spec n H40) as (D1 & _ & D3 & _).
      pose proof (read_unsigned n rest Hw Hr) as Hu.
      destruct (dec n) as [|c t] eqn:Ed; [congruence|].
      cbn [forallb] in D1. apply andb_true_iff in D1 as [Hc _].
      cbn [app read_jvalue] in *. rewrite Hc. cbn [orb].
      assert (H34 : (c =? 34) = false).
      { unfold is_digit in Hc. apply andb_true_iff in Hc as [H1 H2]. apply N.leb_le in H1. apply N.eqb_neq. lia. }
      rewrite H34.
      match goal with |- context [read_jnumber ?s] =>
        replace (read_jnumber s) with (@Ok (lit * str) (LUnsigned n, rest)) by (symmetry; exact Hu) end.
      reflexivity.
    + destruct b; reflexivity.
Qed.

Lemma litch_not_jws c : litch c = true -> is_jws c = false.
Proof.
  unfold litch, is_jws. intros Hc.
  repeat match goal with
         | H : _ || _ = true |- _ => apply orb_true_iff in H; destruct H as [H|H]
         | H : _ && _ = true |- _ => apply andb_true_iff in H; destruct H as [? ?]
         | H : (_ <=? _) = true |- _ => apply N.leb_le in H
         | H : (_ =? _) = true |- _ => apply N.eqb_eq in H
         end;
  repeat (apply orb_false_iff; split); apply N.eqb_neq; lia.
Qed.
Lemma lit_head l : lit_ok l = true -> exists c t, lit_display l = c :: t /\ is_jws c = false.
Proof.
  intros H. pose proof (lit_litch l H) as Hl.
  assert (Hne : lit_display l <> []).
  { destruct l as [s|z|n|d|b]; cbn [lit_ok lit_display] in *; try discriminate.
    - destruct (z <? 0)%Z; [discriminate | discriminate].
    - apply N.leb_le in H.
      assert (H40 : n < 10 ^ 40) by (change (10 ^ 40) with 10000000000000000000000000000000000000000; lia).
      destruct (dec_spec n H40) as (_ & _ & D3 & _). exact D3.
    - destruct b; discriminate. }
  destruct (lit_display l) as [|c t]; [congruence|]. exists c, t. split; [reflexivity|].
  cbn [forallb] in Hl. apply andb_true_iff in Hl as [Hc _]. apply litch_not_jws. exact Hc.
Qed.

Lemma read_members_skip fuel s acc : read_members fuel (32 :: s) acc = read_members fuel s acc.
Proof. destruct fuel; reflexivity. Qed.

Lemma key_jsafe k : name_wf idc s_var_ k = true -> forallb jsafe k = true.
Proof.
  intros H. destruct (name_wf_parts idc _ _ H) as (_ & Hnc & _). rewrite forallb_forall in Hnc |- *.
  intros c Hc. specialize (Hnc c Hc).
  unfold namech, is_alnum, is_alpha, jsafe, c_us, c_minus, c_quote in *.
  repeat match goal with
         | H : _ || _ = true |- _ => apply orb_true_iff in H; destruct H as [H|H]
         | H : _ && _ = true |- _ => apply andb_true_iff in H; destruct H as [? ?]
         | H : (_ <=? _) = true |- _ => apply N.leb_le in H
         | H : (_ =? _) = true |- _ => apply N.eqb_eq in H
         end;
  repeat (apply andb_true_iff; split); apply negb_true_iff;
  try (apply N.eqb_neq; lia); try (apply N.ltb_ge; lia).
Qed.

Lemma read_members_printed : forall (args : list (str * rarg)) fuel acc tail,
  args <> [] -> forallb (arg_wfb idc) args = true -> (length args <= fuel)%nat ->
  read_members fuel (members_text (args_text args) ++ c_rb :: tail) acc
  = Ok (fold_left (fun m kv => map_insert (fst kv) (jarg_of (snd kv)) m) args acc, tail).
Proof.
  induction args as [|[k a] r IH]; intros fuel acc tail Hne Hs Hf; [congruence|].
  cbn [forallb] in Hs. apply andb_true_iff in Hs as [Hx Hr]. destruct (arg_wf_parts idc _ Hx) as (Hk & Hv). cbn [fst snd] in Hk, Hv.
  pose proof (key_jsafe k Hk) as Hkj.
  destruct fuel as [|fuel']; [cbn [length] in Hf; lia|].
  (* one member, whatever follows *)
  assert (Step : forall rest2, rest_ok rest2 ->
    read_members (S fuel') (member_text (k, value_text a) ++ rest2) acc
    = match skip_jws rest2 with
      | c3 :: r3 => if c3 =? 44 then read_members fuel' r3 (map_insert k (jarg_of a) acc)
                    else if c3 =? 125 then Ok (map_insert k (jarg_of a) acc, r3) else Err 0
      | [] => Err 0
      end).
  { intros rest2 Hr2. unfold member_text. cbn [fst snd].
    cbn [app read_members skip_jws]. change (is_jws c_quote) with false. cbv iota. change (c_quote =? 34) with true. cbv iota.
    rewrite <- app_assoc. cbn [app]. rewrite read_jstring_safe by exact Hkj. cbn [bind].
    cbn [skip_jws]. change (is_jws c_colon) with false. cbv iota. change (c_colon =? 58) with true. cbv iota.
    cbn [skip_jws]. change (is_jws 32) with true. cbv iota.
    assert (Esk : skip_jws (value_text a ++ rest2) = value_text a ++ rest2).
    { destruct a as [its|l]; [reflexivity|]. cbn [value_text]. cbn [rarg_wfb] in Hv.
      destruct (lit_head l Hv) as (c & t & El & Hj). rewrite El. cbn [app skip_jws]. rewrite Hj. reflexivity. }
    rewrite Esk. rewrite (read_value_printed a rest2 Hv Hr2). cbn [bind]. reflexivity. }
  destruct r as [|y r'].
  - cbn [args_text map members_text fold_left fst snd]. rewrite Step by reflexivity.
    cbn [skip_jws]. change (is_jws c_rb) with false. cbv iota.
    change (c_rb =? 44) with false. change (c_rb =? 125) with true. reflexivity.
  - set (r := y :: r') in *. change (args_text ((k, a) :: r)) with ((k, value_text a) :: args_text r).
    rewrite members_text_cons2 by (unfold r; discriminate).
    rewrite <- app_assoc. rewrite Step by reflexivity. cbn [app skip_jws]. change (is_jws c_comma) with false. cbv iota.
    change (c_comma =? 44) with true. cbv iota. rewrite read_members_skip.
    cbn [fold_left fst snd]. apply IH; [unfold r; discriminate | exact Hr | cbn [length] in Hf; lia].
Qed.
End Model.

Lemma members_count (l : list (str * str)) : (length l <= length (members_text l))%nat.
Proof.
  induction l as [|x r IH]; [cbn; lia|]. destruct r as [|y r'].
  - cbn [members_text length]. unfold member_text. cbn [length]. lia.
  - set (r := y :: r') in *. rewrite members_text_cons2 by (unfold r; discriminate).
    rewrite app_length. cbn [length]. unfold member_text. cbn [length]. slia.
Qed.

(** the model of serde_json on the argument text satisfies the oracle hypothesis, for every
    identifier oracle *)
Theorem json_model_ok idc : json_ok idc json_args_model.
Proof.
  intros args Hwf. destruct (args_wf_parts idc args Hwf) as (Hne & _ & Hall).
  unfold json_args_model, obj_text.
  cbn [skip_jws]. change (is_jws 32) with true. cbv iota. change (is_jws c_lb) with false. cbv iota.
  change (c_lb =? 123) with true. cbv iota.
  assert (Eh : exists t, members_text (args_text args) ++ [c_rb] = c_quote :: t).
  { destruct args as [|[k a] r]; [congruence|]. destruct r; cbn [args_text map members_text]; unfold member_text; cbn [app fst]; eexists; reflexivity. }
  destruct Eh as [t Et]. rewrite Et. cbn [skip_jws]. change (is_jws c_quote) with false. cbv iota.
  change (c_quote =? 125) with false. cbv iota. rewrite <- Et.
  rewrite (read_members_printed idc args _ [] [] Hne Hall).
  - cbn [bind skip_jws]. f_equal. unfold sorted1.
    generalize (@nil (str * jarg)) as acc. generalize args as l0.
    induction l0 as [|kv l0 IH]; intros acc; [reflexivity|]. cbn [map fold_left on_snd fst snd]. apply IH.
  - pose proof (members_count (args_text args)) as Hc. unfold args_text in Hc at 1. rewrite map_length in Hc.
    cbn [length]. rewrite app_length. slia.
Qed.

(** the round trip with the JSON reader model: every well-formed source, arguments included *)
Corollary roundtrip_ref_model idc items : ritems_wfb idc items = true ->
  exists v, parse_top idc json_args_model true (rprint_list items) = Ok v /\ Rep v items.
Proof. intros H. apply roundtrip_ref_top; [right; apply json_model_ok | exact H]. Qed.
Corollary roundtrip_ref_model_pieces idc items : ritems_wfb idc items = true ->
  exists v, parse_top idc json_args_model true (rprint_list items) = Ok v
            /\ pieces v = rdenote_list items /\ no_foreign v = negb (has_ref_list items).
Proof. intros H. apply roundtrip_ref_pieces; [right; apply json_model_ok | exact H]. Qed.
