(** Soundness of foreign-key resolution against an inlining semantics on values (property C06).
    [inline]: what a value with foreign keys denotes, with NO cycle stack and no error other than
    "undefined" (missing target, group target, explicit default in the default locale, fuel):
    a foreign key denotes the substitution of its (inlined) arguments in the inlined target, the
    target being looked up with the same lookup / inherits-walk rules as the resolver, the
    arguments inlined in the locale the foreign key is written in.
    Theorems: (i) a successful [resolve] denotes [inline]; the cycle stack is unobservable in a
    successful result; (iii) the driver's successful result does not depend on the order of the
    registered (locale, key path) list. *)
From Coq Require Import List NArith ZArith Bool Arith Lia Permutation.
Import ListNotations.
From LI Require Import Base.StrOps Base.StrLemmas Parser.Parse Parser.Json Parser.Reduce Parser.Source Parser.RoundTrip1
  Parser.ReduceProofs Parser.ParseCheck Parser.Foreign Parser.ForeignProofs Parser.ForeignCheck.
Open Scope N_scope.

(** * the inlining semantics on values *)
Section Inline.
Variable vals : values.
Variable dflt : str.
Variable inherits : list (str * str).

Definition iargs (rec : str -> pv -> option (list piece)) (L : str) (args : list (str * pv)) : option (list (str * list piece)) :=
  fold_right (fun '(k, a) acc =>
    match rec L a, acc with Some d, Some r => Some ((k, pc_norm d) :: r) | _, _ => None end) (Some []) args.

Fixpoint ilook (rec : str -> pv -> option (list piece)) (n : nat) (target : keypath) (args : list (str * pv)) (A L : str)
  : option (list piece) :=
  match get_value_at vals L target with
  | None => None
  | Some NDefault =>
      if str_eqb L dflt then None
      else match n with
           | O => None
           | S n' => ilook rec n' target args A (walk vals dflt inherits (S (length inherits)) [L] L target)
           end
  | Some (NSub _) => None
  | Some (NVal T) =>
      match rec L T, iargs rec A args with
      | Some body, Some a => Some (subst_pieces a (pc_norm body))
      | _, _ => None
      end
  end.

Fixpoint inline (fuel : nat) (L : str) (v : pv) : option (list piece) :=
  match fuel with
  | O => None
  | S f =>
      match v with
      | PLit l => Some [PcText (lit_display l)]
      | PVar k fm => Some [PcVar k fm]
      | PComp k i => match inline f L i with Some d => Some [PcComp k (pc_norm d)] | None => None end
      | PBloc l =>
          fold_right (fun x acc => match inline f L x, acc with Some a, Some b => Some (a ++ b) | _, _ => None end) (Some []) l
      | PForeign ns p args => ilook (inline f) 2 (ns, p) args L L
      end
  end.

Notation resolve := (resolve vals dflt inherits).
Notation look := (look vals dflt inherits).

(** * (i) a successful resolution denotes the inlining semantics *)
Definition rec_sound (rec : list (str * keypath) -> str -> pv -> res pv) (irec : str -> pv -> option (list piece)) : Prop :=
  forall st l v r, rec st l v = Ok r -> exists d, irec l v = Some d /\ pc_norm d = pieces r.

Lemma resolve_args_iargs rec irec stack L args args' : rec_sound rec irec ->
  resolve_args rec stack L args = Ok args' -> iargs irec L args = Some (arg_pieces args').
Proof.
  intros Hs. revert args'. induction args as [|[k a] t IH]; intros args' H; cbn [resolve_args fold_right] in H.
  - inversion H; reflexivity.
  - fold (resolve_args rec stack L t) in H.
    destruct (rec stack L a) as [a'| | | |] eqn:Ea; cbn [bind] in H; try discriminate.
    destruct (resolve_args rec stack L t) as [r'| | | |] eqn:Et; cbn [bind] in H; try discriminate.
    inversion H; subst. cbn [iargs fold_right]. fold (iargs irec L t).
    destruct (Hs _ _ _ _ Ea) as (d & Ed & Pd). rewrite Ed, (IH _ eq_refl).
    cbn [arg_pieces map]. fold (arg_pieces r'). rewrite Pd. reflexivity.
Qed.

Lemma look_inline rec irec : rec_sound rec irec ->
  forall n stack target args A L r, look rec n stack target args A L = Ok r ->
  exists d, ilook irec n target args A L = Some d /\ pc_norm d = pieces r.
Proof.
  intros Hs. induction n as [|n IHn]; intros stack target args A L r H; cbn [Foreign.look] in H; cbn [ilook];
    destruct (get_value_at vals L target) as [[T| |sub]|]; try discriminate.
  - destruct (on_stack L target stack); [discriminate|].
    destruct (rec ((L, target) :: stack) L T) as [T'| | | |] eqn:ET; cbn [bind] in H; try discriminate.
    destruct (resolve_args rec stack A args) as [args'| | | |] eqn:EA; cbn [bind] in H; try discriminate.
    inversion H; subst. destruct (Hs _ _ _ _ ET) as (body & Eb & Pb).
    rewrite Eb, (resolve_args_iargs _ _ _ _ _ _ Hs EA). eexists. split; [reflexivity|].
    rewrite populate_subst, Pb. unfold subst_pieces. apply pc_norm_idem.
  - destruct (str_eqb L dflt); discriminate.
  - destruct (resolve_args rec stack A args); cbn [bind] in H; discriminate.
  - destruct (on_stack L target stack); [discriminate|].
    destruct (rec ((L, target) :: stack) L T) as [T'| | | |] eqn:ET; cbn [bind] in H; try discriminate.
    destruct (resolve_args rec stack A args) as [args'| | | |] eqn:EA; cbn [bind] in H; try discriminate.
    inversion H; subst. destruct (Hs _ _ _ _ ET) as (body & Eb & Pb).
    rewrite Eb, (resolve_args_iargs _ _ _ _ _ _ Hs EA). eexists. split; [reflexivity|].
    rewrite populate_subst, Pb. unfold subst_pieces. apply pc_norm_idem.
  - destruct (str_eqb L dflt); [discriminate|]. eapply IHn; exact H.
  - destruct (resolve_args rec stack A args); cbn [bind] in H; discriminate.
Qed.

Theorem resolve_inline : forall fuel stack L v r,
  resolve fuel stack L v = Ok r -> exists d, inline fuel L v = Some d /\ pc_norm d = pieces r.
Proof.
  induction fuel as [|f IH]; intros stack L v r H; [discriminate|].
  destruct v as [l|k fm|k i|l|ns p args]; cbn [Foreign.resolve] in H; cbn [inline].
  - inversion H; subst. eexists. split; reflexivity.
  - inversion H; subst. eexists. split; reflexivity.
  - destruct (resolve f stack L i) as [i'| | | |] eqn:E; cbn [bind] in H; try discriminate.
    inversion H; subst. destruct (IH _ _ _ _ E) as (d & Ed & Pd). rewrite Ed. eexists. split; [reflexivity|].
    unfold pieces. cbn [pieces_raw]. unfold pieces in Pd. rewrite Pd. reflexivity.
  - match type of H with bind ?X _ = _ => destruct X as [l'| | | |] eqn:E end; cbn [bind] in H; try discriminate.
    inversion H; subst. clear H. unfold pieces. cbn [pieces_raw]. revert l' E.
    induction l as [|x t IHl]; intros l' E; cbn [fold_right] in E |- *.
    + inversion E; subst. eexists. split; reflexivity.
    + destruct (resolve f stack L x) as [x'| | | |] eqn:Ex; cbn [bind] in E; try discriminate.
      match type of E with bind ?X _ = _ => destruct X as [t'| | | |] eqn:Et end; cbn [bind] in E; try discriminate.
      inversion E; subst. destruct (IH _ _ _ _ Ex) as (a & Ea & Pa). destruct (IHl _ eq_refl) as (b & Eb & Pb).
      rewrite Ea, Eb. eexists. split; [reflexivity|]. cbn [flat_map]. apply pc_norm_congr; [exact Pa | exact Pb].
  - eapply look_inline; [|exact H]. intros st l v r0 Hr. eapply IH; exact Hr.
Qed.

(** * the cycle stack is unobservable in a successful result *)
Definition sub_stack (s' s : list (str * keypath)) : Prop := forall L p, on_stack L p s' = true -> on_stack L p s = true.
Lemma sub_stack_cons e s' s : sub_stack s' s -> sub_stack (e :: s') (e :: s).
Proof.
  intros H L p. unfold on_stack. cbn [existsb]. intros Ho. apply orb_true_iff in Ho as [Ho|Ho].
  - rewrite Ho. reflexivity.
  - apply H in Ho. unfold on_stack in Ho. rewrite Ho. apply orb_true_r.
Qed.
Lemma sub_stack_nil s : sub_stack [] s.
Proof. intros L p H. discriminate. Qed.

Definition rec_weaken (rec : list (str * keypath) -> str -> pv -> res pv) : Prop :=
  forall s' s l v r, sub_stack s' s -> rec s l v = Ok r -> rec s' l v = Ok r.

Lemma resolve_args_weaken rec s' s L args r : rec_weaken rec -> sub_stack s' s ->
  resolve_args rec s L args = Ok r -> resolve_args rec s' L args = Ok r.
Proof.
  intros Hw Hs. revert r. induction args as [|[k a] t IH]; intros r H; cbn [resolve_args fold_right] in H |- *; [exact H|].
  fold (resolve_args rec s L t) in H. fold (resolve_args rec s' L t).
  destruct (rec s L a) as [a'| | | |] eqn:Ea; cbn [bind] in H; try discriminate.
  destruct (resolve_args rec s L t) as [r'| | | |] eqn:Et; cbn [bind] in H; try discriminate.
  rewrite (Hw _ _ _ _ _ Hs Ea), (IH _ eq_refl). exact H.
Qed.

Lemma look_weaken rec : rec_weaken rec -> forall n s' s target args A L r, sub_stack s' s ->
  look rec n s target args A L = Ok r -> look rec n s' target args A L = Ok r.
Proof.
  intros Hw. induction n as [|n IHn]; intros s' s target args A L r Hs H; cbn [Foreign.look] in H |- *;
    destruct (get_value_at vals L target) as [[T| |sub]|]; try discriminate.
  - destruct (on_stack L target s) eqn:Eo; [discriminate|].
    assert (Eo' : on_stack L target s' = false).
    { destruct (on_stack L target s') eqn:E; [|reflexivity]. apply Hs in E. congruence. }
    rewrite Eo'.
    destruct (rec ((L, target) :: s) L T) as [T'| | | |] eqn:ET; cbn [bind] in H; try discriminate.
    destruct (resolve_args rec s A args) as [args'| | | |] eqn:EA; cbn [bind] in H; try discriminate.
    rewrite (Hw _ _ _ _ _ (sub_stack_cons (L, target) _ _ Hs) ET). cbn [bind].
    rewrite (resolve_args_weaken _ _ _ _ _ _ Hw Hs EA). exact H.
  - destruct (str_eqb L dflt); discriminate.
  - destruct (resolve_args rec s A args); cbn [bind] in H; discriminate.
  - destruct (on_stack L target s) eqn:Eo; [discriminate|].
    assert (Eo' : on_stack L target s' = false).
    { destruct (on_stack L target s') eqn:E; [|reflexivity]. apply Hs in E. congruence. }
    rewrite Eo'.
    destruct (rec ((L, target) :: s) L T) as [T'| | | |] eqn:ET; cbn [bind] in H; try discriminate.
    destruct (resolve_args rec s A args) as [args'| | | |] eqn:EA; cbn [bind] in H; try discriminate.
    rewrite (Hw _ _ _ _ _ (sub_stack_cons (L, target) _ _ Hs) ET). cbn [bind].
    rewrite (resolve_args_weaken _ _ _ _ _ _ Hw Hs EA). exact H.
  - destruct (str_eqb L dflt); [discriminate|]. eapply IHn; [exact Hs | exact H].
  - destruct (resolve_args rec s A args); cbn [bind] in H; discriminate.
Qed.

Theorem resolve_stack_weaken : forall fuel, rec_weaken (resolve fuel).
Proof.
  induction fuel as [|f IH]; intros s' s L v r Hs H; [discriminate|].
  destruct v as [l|k fm|k i|l|ns p args]; cbn [Foreign.resolve] in H |- *.
  - exact H.
  - exact H.
  - destruct (resolve f s L i) as [i'| | | |] eqn:E; cbn [bind] in H; try discriminate.
    rewrite (IH _ _ _ _ _ Hs E). exact H.
  - match type of H with bind ?X _ = _ => destruct X as [l'| | | |] eqn:E end; cbn [bind] in H; try discriminate.
    inversion H; subst. clear H.
    match goal with |- bind ?X _ = _ => assert (E' : X = Ok l') end.
    { revert l' E. induction l as [|x t IHl]; intros l' E; cbn [fold_right] in E |- *; [exact E|].
      destruct (resolve f s L x) as [x'| | | |] eqn:Ex; cbn [bind] in E; try discriminate.
      match type of E with bind ?X _ = _ => destruct X as [t'| | | |] eqn:Et end; cbn [bind] in E; try discriminate.
      rewrite (IH _ _ _ _ _ Hs Ex). cbn [bind]. rewrite (IHl _ eq_refl). exact E. }
    rewrite E'. reflexivity.
  - eapply look_weaken; [exact IH | exact Hs | exact H].
Qed.

(** two successful resolutions of the same value under ANY two stacks give the same value *)
Corollary resolve_stack_irrelevant fuel s1 s2 L v r1 r2 :
  resolve fuel s1 L v = Ok r1 -> resolve fuel s2 L v = Ok r2 -> r1 = r2.
Proof.
  intros H1 H2.
  pose proof (resolve_stack_weaken fuel [] s1 L v r1 (sub_stack_nil s1) H1) as E1.
  pose proof (resolve_stack_weaken fuel [] s2 L v r2 (sub_stack_nil s2) H2) as E2.
  congruence.
Qed.
End Inline.

(** * (iii) the driver: order independence of the registered list *)
Definition reg_entry := (option str * str * list str * node)%type.
Definition run_of (vals : values) (dflt : str) (inherits : list (str * str)) : reg_entry -> res (option pv) :=
  fun '(ns, l, p, n) => final_value vals dflt inherits ns l p n.
Definition check_reg (run : reg_entry -> res (option pv)) (reg : list reg_entry) : res unit :=
  fold_left (fun acc e => bind acc (fun _ => bind (run e) (fun _ => Ok tt))) reg (Ok tt).
Definition collect (run : reg_entry -> res (option pv)) (lv : list reg_entry) : res (list entry) :=
  fold_right (fun '(ns, l, p, n) acc => bind (run (ns, l, p, n)) (fun v => bind acc (fun r => Ok ((ns, l, p, v) :: r)))) (Ok []) lv.
(** resolve the registered values in the order [reg], then read every leaf *)
Definition drive (run : reg_entry -> res (option pv)) (reg lv : list reg_entry) : res (list entry) :=
  bind (check_reg run reg) (fun _ => collect run lv).

(** model_project is the driver run on the sorted registered leaves *)
Lemma model_project_drive c :
  model_project c =
  bind (build_values (f_files c)) (fun vals =>
    drive (run_of vals (f_default c) (f_inherits c))
          (sort_reg (filter (fun '(_, _, _, n) => node_has_foreign n) (all_leaves vals))) (all_leaves vals)).
Proof. reflexivity. Qed.

Definition run_ok (run : reg_entry -> res (option pv)) (e : reg_entry) : Prop := exists v, run e = Ok v.

Lemma check_reg_acc run reg acc :
  fold_left (fun acc e => bind acc (fun _ => bind (run e) (fun _ => Ok tt))) reg acc = Ok tt
  <-> acc = Ok tt /\ Forall (run_ok run) reg.
Proof.
  revert acc. induction reg as [|e reg IH]; intros acc; cbn [fold_left].
  - split; [intros ->; split; [reflexivity | constructor] | intros [-> _]; reflexivity].
  - rewrite IH. split.
    + intros [H1 H2]. destruct acc as [[]| | | |]; cbn [bind] in H1; try discriminate.
      destruct (run e) as [v| | | |] eqn:E; cbn [bind] in H1; try discriminate.
      split; [reflexivity|]. constructor; [exists v; exact E | exact H2].
    + intros [-> H]. inversion H as [|? ? [v Hv] Hr]; subst. cbn [bind]. rewrite Hv. cbn [bind]. split; [reflexivity | exact Hr].
Qed.
Lemma check_reg_ok run reg : check_reg run reg = Ok tt <-> Forall (run_ok run) reg.
Proof. unfold check_reg. rewrite check_reg_acc. split; [intros [_ H]; exact H | intros H; split; [reflexivity | exact H]]. Qed.

Lemma check_reg_perm run reg reg' : Permutation reg reg' -> check_reg run reg = Ok tt -> check_reg run reg' = Ok tt.
Proof. intros Hp H. apply check_reg_ok. apply check_reg_ok in H. eapply Permutation_Forall; eassumption. Qed.

(** the successful result of the driver does not depend on the order (nor on repetitions) in which the
    registered values are visited: only which error is reported first does *)
Theorem drive_perm run reg reg' lv ents :
  Permutation reg reg' -> drive run reg lv = Ok ents -> drive run reg' lv = Ok ents.
Proof.
  intros Hp H. unfold drive in *.
  destruct (check_reg run reg) as [[]| | | |] eqn:E; cbn [bind] in H; try discriminate.
  rewrite (check_reg_perm run reg reg' Hp E). exact H.
Qed.

(** and any two visiting orders that both succeed agree, whatever the two lists are *)
Theorem drive_result_unique run reg reg' lv ents ents' :
  drive run reg lv = Ok ents -> drive run reg' lv = Ok ents' -> ents = ents'.
Proof.
  unfold drive. intros H H'.
  destruct (check_reg run reg) as [[]| | | |]; cbn [bind] in H; try discriminate.
  destruct (check_reg run reg') as [[]| | | |]; cbn [bind] in H'; try discriminate.
  congruence.
Qed.

Lemma ins_sorted_perm x l : Permutation (ins_sorted x l) (x :: l).
Proof.
  induction l as [|y r IH]; cbn [ins_sorted]; [apply Permutation_refl|].
  destruct (reg_ltb x y); [apply Permutation_refl|].
  eapply Permutation_trans; [apply perm_skip; exact IH | apply perm_swap].
Qed.
Lemma sort_reg_perm l : Permutation (sort_reg l) l.
Proof.
  induction l as [|x r IH]; cbn [sort_reg fold_right]; [constructor|].
  eapply Permutation_trans; [apply ins_sorted_perm | apply perm_skip; exact IH].
Qed.

(** the driver of model_project (sorted registered list) succeeds with the same result for every
    permutation of the registered list, sorted or not *)
Theorem drive_sorted_perm run l l' lv ents :
  Permutation l l' -> drive run (sort_reg l) lv = Ok ents ->
  drive run (sort_reg l') lv = Ok ents /\ drive run l' lv = Ok ents.
Proof.
  intros Hp H. split; eapply drive_perm; try exact H.
  - eapply Permutation_trans; [apply sort_reg_perm|]. eapply Permutation_trans; [exact Hp|]. apply Permutation_sym, sort_reg_perm.
  - eapply Permutation_trans; [apply sort_reg_perm | exact Hp].
Qed.

(** what the successful result holds: one entry per leaf, in leaf order, with its final value *)
Lemma collect_spec run lv ents : collect run lv = Ok ents ->
  Forall2 (fun (leaf : reg_entry) (e : entry) =>
             let '(ns, l, p, n) := leaf in exists v, run leaf = Ok v /\ e = (ns, l, p, v)) lv ents.
Proof.
  revert ents. induction lv as [|[[[ns l] p] n] r IH]; intros ents H; cbn [collect fold_right] in H.
  - inversion H; constructor.
  - fold (collect run r) in H.
    destruct (run (ns, l, p, n)) as [v| | | |] eqn:E; cbn [bind] in H; try discriminate.
    destruct (collect run r) as [r'| | | |] eqn:Er; cbn [bind] in H; try discriminate.
    inversion H; subst. constructor; [exists v; split; [exact E | reflexivity] | apply IH; reflexivity].
Qed.

(** every final value denotes the inlining semantics of its own value *)
Theorem final_value_inline vals dflt inherits ns L path v r' :
  final_value vals dflt inherits ns L path (NVal v) = Ok (Some r') ->
  exists d, inline vals dflt inherits 200 L v = Some d /\ pieces r' = pc_norm d.
Proof.
  cbn [final_value]. intros H.
  destruct (resolve vals dflt inherits 200 [(L, (ns, path))] L v) as [r| | | |] eqn:E; cbn [bind] in H; try discriminate.
  destruct (reduce r) as [r2| | | |] eqn:Er; cbn [bind] in H; try discriminate. inversion H; subst.
  destruct (resolve_inline _ _ _ _ _ _ _ _ E) as (d & Ed & Pd).
  destruct (resolve_then_reduce _ _ _ _ _ _ _ _ E) as (r3 & Er3 & P3).
  assert (r3 = r') by congruence. subst r3.
  exists d. split; [exact Ed|]. rewrite P3. symmetry. exact Pd.
Qed.
