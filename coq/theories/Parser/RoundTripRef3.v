(** Round trip for sources containing references, part 3: the shape of the parsed value ([Rep]) and the
    main theorem  parse (print src) = Ok v  with  Rep v src,  hence  pieces v = rdenote src  and
    no_foreign v = false exactly when a reference occurs (properties C06 / C01). *)
From Coq Require Import List NArith ZArith Bool Arith Lia.
Import ListNotations.
From LI Require Import Base.StrOps Base.StrLemmas Parser.Parse Parser.Reduce Parser.Source Parser.Scan
  Parser.RoundTrip1 Parser.RoundTrip2 Parser.RoundTrip3 Parser.RoundTrip4 Parser.ReduceProofs
  Parser.RoundTripRef1 Parser.RoundTripRef2.
Open Scope N_scope.
Local Notation item := Source.item.
Ltac slia := unfold str, char in *; lia.

(** the value ParsedValue::new builds for a source: a right-nested chain of three-element blocs
    around the first variable / component / reference, a string literal for a run of text *)
Inductive Rep : pv -> list ritem -> Prop :=
| Rep_text l : forallb is_rtext l = true -> Rep (PLit (LStr (rprint_list l))) l
| Rep_var vb va pre w1 n w2 fm rest : Rep vb pre -> Rep va rest ->
    Rep (PBloc [vb; PVar (s_var_ ++ n) (fmt_of fm); va]) (pre ++ RVar w1 n w2 fm :: rest)
| Rep_comp vb vm va pre w1 n w2 kids a b c rest : Rep vb pre -> Rep vm kids -> Rep va rest ->
    Rep (PBloc [vb; PComp (s_comp_ ++ n) vm; va]) (pre ++ RComp w1 n w2 kids a b c :: rest)
| Rep_ref vb va pre ns path rest : Rep vb pre -> Rep va rest ->
    Rep (PBloc [vb; PForeign (option_map seg_name ns) (map seg_name path) []; va]) (pre ++ RRef ns path :: rest).

Lemma all_rtext_denote l : forallb is_rtext l = true -> map rdenote l = map PcText (map rprint l).
Proof.
  induction l as [|x r IH]; intros H; [reflexivity|].
  cbn [forallb] in H. apply andb_true_iff in H as [Hx Hr]. cbn [map]. rewrite IH by assumption.
  destruct x; try discriminate. reflexivity.
Qed.
Lemma all_rtext_no_ref l : forallb is_rtext l = true -> has_ref_list l = false.
Proof.
  induction l as [|x r IH]; intros H; [reflexivity|].
  cbn [forallb] in H. apply andb_true_iff in H as [Hx Hr]. unfold has_ref_list. cbn [existsb].
  destruct x; try discriminate. cbn [has_ref orb]. apply IH. exact Hr.
Qed.

Lemma Rep_pieces v l : Rep v l -> pc_norm (pieces_raw v) = rdenote_list l.
Proof.
  induction 1 as [l Ht|vb va pre w1 n w2 fm rest _ IHb _ IHa|vb vm va pre w1 n w2 kids a b c rest _ IHb _ IHm _ IHa
                 |vb va pre ns path rest _ IHb _ IHa].
  - cbn [pieces_raw lit_display]. unfold rdenote_list. rewrite (all_rtext_denote l Ht). rewrite pc_norm_texts. reflexivity.
  - cbn [pieces_raw flat_map]. unfold rdenote_list. rewrite map_app. cbn [map rdenote].
    apply pc_norm_congr; [exact IHb|].
    change (PcVar (s_var_ ++ n) (fmt_of fm) :: map rdenote rest) with ([PcVar (s_var_ ++ n) (fmt_of fm)] ++ map rdenote rest).
    apply pc_norm_congr; [reflexivity|]. rewrite app_nil_r. exact IHa.
  - cbn [pieces_raw flat_map]. unfold rdenote_list. rewrite map_app. cbn [map rdenote].
    apply pc_norm_congr; [exact IHb|].
    change (PcComp (s_comp_ ++ n) (pc_norm (map rdenote kids)) :: map rdenote rest)
      with ([PcComp (s_comp_ ++ n) (pc_norm (map rdenote kids))] ++ map rdenote rest).
    apply pc_norm_congr.
    + rewrite IHm. reflexivity.
    + rewrite app_nil_r. exact IHa.
  - cbn [pieces_raw flat_map map]. unfold rdenote_list. rewrite map_app. cbn [map rdenote].
    apply pc_norm_congr; [exact IHb|].
    change (PcForeign (option_map seg_name ns) (map seg_name path) [] :: map rdenote rest)
      with ([PcForeign (option_map seg_name ns) (map seg_name path) []] ++ map rdenote rest).
    apply pc_norm_congr; [reflexivity|]. rewrite app_nil_r. exact IHa.
Qed.

Lemma Rep_no_foreign v l : Rep v l -> no_foreign v = negb (has_ref_list l).
Proof.
  induction 1 as [l Ht|vb va pre w1 n w2 fm rest _ IHb _ IHa|vb vm va pre w1 n w2 kids a b c rest _ IHb _ IHm _ IHa
                 |vb va pre ns path rest _ IHb _ IHa].
  - rewrite (all_rtext_no_ref l Ht). reflexivity.
  - cbn [no_foreign forallb]. unfold has_ref_list in *. rewrite existsb_app. cbn [existsb has_ref].
    rewrite IHb, IHa. destruct (existsb has_ref pre), (existsb has_ref rest); reflexivity.
  - cbn [no_foreign forallb]. unfold has_ref_list in *. rewrite existsb_app. cbn [existsb has_ref].
    rewrite IHb, IHa, IHm. destruct (existsb has_ref pre), (existsb has_ref rest), (existsb has_ref kids); reflexivity.
  - cbn [no_foreign forallb]. unfold has_ref_list in *. rewrite existsb_app. cbn [existsb has_ref].
    rewrite IHb. destruct (existsb has_ref pre); reflexivity.
Qed.

Lemma rprint_ref_split pre ns path rest :
  rprint_list (pre ++ RRef ns path :: rest)
  = rprint_list pre ++ s_fk ++ (keypath_text ns path ++ c_rp :: rprint_list rest).
Proof.
  rewrite rprint_list_app, rprint_list_cons. cbn [rprint]. unfold print_ref. rewrite <- !app_assoc. reflexivity.
Qed.
Lemma rprint_comp_split pre w1 n w2 kids a b c rest :
  rprint_list (pre ++ RComp w1 n w2 kids a b c :: rest)
  = (rprint_list pre ++ [c_lt]) ++ ((w1 ++ n ++ w2 ++ [c_gt]) ++ rprint_list kids ++ close_tag a b n c ++ rprint_list rest).
Proof.
  rewrite rprint_list_app, rprint_list_cons, rprint_comp. unfold open_tag.
  repeat (rewrite <- app_assoc; cbn [app]). reflexivity.
Qed.
Lemma rprint_var_split pre w1 n w2 fm rest :
  rprint_list (pre ++ RVar w1 n w2 fm :: rest)
  = print_list ([SText (rprint_list pre)] ++ SVar w1 n w2 fm :: [SText (rprint_list rest)]).
Proof.
  rewrite rprint_list_app, rprint_list_cons. unfold print_list. cbn [app map concat print rprint].
  rewrite !app_nil_r. reflexivity.
Qed.

Lemma negb_cr_comp (l : list ritem) : forallb (fun x => negb (is_rcr x)) l = true -> forallb (fun x => negb (is_rcomp x)) l = true.
Proof.
  intros H. rewrite forallb_forall in H |- *. intros x Hx. specialize (H x Hx). unfold is_rcr in H.
  destruct (is_rcomp x); [discriminate | reflexivity].
Qed.
Lemma all_text_of (l : list ritem) : forallb (fun x => negb (is_rcr x)) l = true -> forallb (fun x => negb (is_rvar x)) l = true ->
  forallb is_rtext l = true.
Proof.
  intros H1 H2. rewrite forallb_forall in H1, H2 |- *. intros x Hx. specialize (H1 x Hx). specialize (H2 x Hx).
  destruct x; try discriminate; reflexivity.
Qed.

Section RT.
Variable idc : str -> idres.
Variable json_args : str -> res (list (str * jarg)).
Notation ritem_wfb := (ritem_wfb idc).
Notation ritems_wfb := (ritems_wfb idc).

Theorem roundtrip_ref : forall fuel items,
  (length (rprint_list items) < fuel)%nat -> ritems_wfb items = true ->
  exists v, parse idc json_args true fuel (rprint_list items) = Ok v /\ Rep v items.
Proof.
  induction fuel as [|fuel IH]; intros items Hlen Hwf; [slia|].
  cbn [parse]. unfold parse_step.
  destruct (gsplit_first is_rcr items) as [[[pre y] rest]|] eqn:Ecr.
  - (* a first component or reference; only text and variables before it *)
    destruct (gsplit_first_some _ _ _ _ _ Ecr) as (Eit & Hy & Hpre). subst items.
    destruct (ritems_wfb_split idc _ _ _ Hwf) as (Wpre & Wy & Wrest).
    pose proof (negb_cr_comp pre Hpre) as Hpre_nc.
    pose proof (rtv_no_dollar idc pre Wpre Hpre) as Hpre_nd.
    destruct y as [|?|w1 n w2 kids a b c|ns path]; try discriminate.
    + (* component first: it is parsed first, whether or not a reference follows or is inside *)
      assert (Wkids : ritems_wfb kids = true).
      { cbn [RoundTripRef1.ritem_wfb] in Wy. apply andb_true_iff in Wy as [_ Wk]. exact Wk. }
      assert (Elen : (length (rprint_list pre) + length (rprint_list kids) + length (rprint_list rest) + 2
                      <= length (rprint_list (pre ++ RComp w1 n w2 kids a b c :: rest)))%nat).
      { rewrite rprint_comp_split. repeat (rewrite app_length; cbn [length]). slia. }
      destruct (IH pre ltac:(slia) Wpre) as (vb & Eb & Rb).
      destruct (IH kids ltac:(slia) Wkids) as (vm & Em & Rm).
      destruct (IH rest ltac:(slia) Wrest) as (va & Ea & Ra).
      assert (Hres : find_component idc true (parse idc json_args true fuel) (rprint_list (pre ++ RComp w1 n w2 kids a b c :: rest))
                     = Ok (Some (PBloc [vb; PComp (s_comp_ ++ n) vm; va]))).
      { rewrite (find_component_rprinted idc _ pre w1 n w2 kids a b c rest Wpre Hpre_nc Wy Wrest).
        rewrite Eb, Em, Ea. reflexivity. }
      unfold comp_first.
      destruct (split_once s_fk (rprint_list (pre ++ RComp w1 n w2 kids a b c :: rest))) as [[fkb fka]|] eqn:Efk.
      * rewrite (find_valid_component_rprinted idc pre w1 n w2 kids a b c rest _ Wpre Hpre_nc Wy Wrest). cbn [bind].
        assert (Hlt : (blen (rprint_list pre) <? blen fkb)%nat = true).
        { rewrite rprint_comp_split in Efk. change s_fk with (c_dollar :: [c_t; c_lp]) in Efk.
          apply split_once_prefix in Efk.
          - destruct Efk as [x' ->]. apply Nat.ltb_lt. rewrite !blen_app. change (blen [c_lt]) with 1%nat. lia.
          - apply no_char_app; [exact Hpre_nd|]. apply no_char_cons; [intro E; vm_compute in E; discriminate | apply no_char_nil]. }
        rewrite Hlt. rewrite Hres. cbn [bind].
        eexists. split; [reflexivity|]. apply Rep_comp; assumption.
      * cbn [bind]. unfold parse_chain, find_foreign_key. rewrite Efk. cbn [bind]. rewrite Hres. cbn [bind].
        eexists. split; [reflexivity|]. apply Rep_comp; assumption.
    + (* reference first: no component opens before it *)
      assert (Hcf : comp_first idc true (rprint_list (pre ++ RRef ns path :: rest)) = Ok false).
      { unfold comp_first.
        assert (Es : split_once s_fk (rprint_list (pre ++ RRef ns path :: rest))
                     = Some (rprint_list pre, keypath_text ns path ++ c_rp :: rprint_list rest)).
        { rewrite rprint_ref_split. change s_fk with (c_dollar :: [c_t; c_lp]). apply split_once_first_pat. exact Hpre_nd. }
        rewrite Es.
        destruct (gsplit_first is_rcomp rest) as [[[r1 y2] r2]|] eqn:Ec.
        - destruct (gsplit_first_some _ _ _ _ _ Ec) as (Er & Hy2 & Hr1). subst rest.
          destruct y2 as [| |w1' n' w2' kids' a' b' c'|]; try discriminate.
          destruct (ritems_wfb_split idc _ _ _ Wrest) as (Wr1 & Wy2 & Wr2).
          replace (pre ++ RRef ns path :: r1 ++ RComp w1' n' w2' kids' a' b' c' :: r2)
            with ((pre ++ RRef ns path :: r1) ++ RComp w1' n' w2' kids' a' b' c' :: r2)
            by (rewrite <- app_assoc; reflexivity).
          rewrite (find_valid_component_rprinted idc (pre ++ RRef ns path :: r1) w1' n' w2' kids' a' b' c' r2).
          + cbn [bind]. f_equal. apply Nat.ltb_ge. rewrite rprint_list_app, blen_app. lia.
          + apply ritems_wfb_app; [exact Wpre|]. unfold RoundTripRef1.ritems_wfb. cbn [forallb]. rewrite Wy. exact Wr1.
          + rewrite forallb_app. cbn [forallb]. rewrite Hpre_nc, Hr1. reflexivity.
          + exact Wy2.
          + exact Wr2.
        - pose proof (gsplit_first_none _ _ Ec) as Hnc.
          rewrite find_valid_component_none; [reflexivity|].
          apply (rnoncomps_no_lt idc); [exact Hwf|]. rewrite forallb_app. cbn [forallb]. rewrite Hpre_nc, Hnc. reflexivity. }
      rewrite Hcf. cbn [bind]. unfold parse_chain.
      rewrite (find_foreign_key_printed idc json_args _ pre ns path rest Hpre_nd Wy).
      assert (Elen : (length (rprint_list pre) + length (rprint_list rest) + 3
                      <= length (rprint_list (pre ++ RRef ns path :: rest)))%nat).
      { rewrite rprint_ref_split. unfold s_fk. repeat (rewrite app_length; cbn [length]). slia. }
      destruct (IH pre ltac:(slia) Wpre) as (vb & Eb & Rb).
      destruct (IH rest ltac:(slia) Wrest) as (va & Ea & Ra).
      rewrite Eb, Ea. cbn [bind].
      eexists. split; [reflexivity|]. apply Rep_ref; assumption.
  - (* neither a component nor a reference: the printed source holds no '$' and no '<' *)
    pose proof (gsplit_first_none _ _ Ecr) as Hncr.
    pose proof (negb_cr_comp items Hncr) as Hnc.
    pose proof (rtv_no_dollar idc items Hwf Hncr) as Hnd.
    assert (Hcf : comp_first idc true (rprint_list items) = Ok false).
    { unfold comp_first. change s_fk with (c_dollar :: [c_t; c_lp]). rewrite split_once_no_char by exact Hnd. reflexivity. }
    rewrite Hcf. cbn [bind]. unfold parse_chain.
    assert (Hfk : find_foreign_key idc json_args true (parse idc json_args true fuel) (rprint_list items) = Ok None).
    { unfold find_foreign_key. change s_fk with (c_dollar :: [c_t; c_lp]). rewrite split_once_no_char by exact Hnd. reflexivity. }
    rewrite Hfk. cbn [bind].
    assert (Hcomp : find_component idc true (parse idc json_args true fuel) (rprint_list items) = Ok None).
    { unfold find_component. rewrite find_valid_component_none; [reflexivity|]. apply (rnoncomps_no_lt idc); assumption. }
    rewrite Hcomp. cbn [bind].
    destruct (gsplit_first is_rvar items) as [[[pre y] rest]|] eqn:Esv.
    + (* a first variable: only text before it *)
      destruct (gsplit_first_some _ _ _ _ _ Esv) as (Eit & Hy & Hpre).
      destruct y as [|w1 n w2 fm| |]; try discriminate. subst items.
      destruct (ritems_wfb_split idc _ _ _ Hwf) as (Wpre & Wy & Wrest).
      assert (Hpt : forallb is_rtext pre = true).
      { apply all_text_of; [|exact Hpre]. rewrite forallb_app in Hncr. apply andb_true_iff in Hncr as [H _]. exact H. }
      rewrite rprint_var_split.
      rewrite (find_variable_printed idc _ [SText (rprint_list pre)] w1 n w2 fm [SText (rprint_list rest)]).
      2:{ unfold items_wfb. cbn [forallb item_wfb]. rewrite (rtexts_textch idc pre Wpre Hpt). reflexivity. }
      2:{ reflexivity. }
      2:{ reflexivity. }
      2:{ exact Wy. }
      unfold print_list. cbn [map concat print]. rewrite !app_nil_r.
      assert (Elen : (length (rprint_list pre) + 2 + length (rprint_list rest)
                      <= length (rprint_list (pre ++ RVar w1 n w2 fm :: rest)))%nat).
      { rewrite rprint_list_app, rprint_list_cons. cbn [rprint print]. unfold s_open_var. repeat (rewrite app_length; cbn [length]). slia. }
      destruct (IH pre ltac:(slia) Wpre) as (vb & Eb & Rb).
      destruct (IH rest ltac:(slia) Wrest) as (va & Ea & Ra).
      rewrite Eb, Ea. cbn [bind].
      eexists. split; [reflexivity|]. apply Rep_var; assumption.
    + (* only text *)
      pose proof (gsplit_first_none _ _ Esv) as Hnv.
      pose proof (all_text_of items Hncr Hnv) as Ht.
      assert (Hvar : find_variable idc (parse idc json_args true fuel) (rprint_list items) = Ok None).
      { unfold find_variable. change s_open_var with (c_lb :: [c_lb]).
        rewrite split_once_no_char; [reflexivity|].
        eapply forallb_no_char; [apply (rtexts_textch idc items Hwf Ht) | reflexivity]. }
      rewrite Hvar. cbn [bind].
      eexists. split; [reflexivity|]. apply Rep_text. exact Ht.
Qed.

(** with the top-level fuel of ParsedValue::new *)
Corollary roundtrip_ref_top items : ritems_wfb items = true ->
  exists v, parse_top idc json_args true (rprint_list items) = Ok v /\ Rep v items.
Proof. intros H. unfold parse_top. apply roundtrip_ref; [slia | exact H]. Qed.

Corollary roundtrip_ref_pieces items : ritems_wfb items = true ->
  exists v, parse_top idc json_args true (rprint_list items) = Ok v
            /\ pieces v = rdenote_list items /\ no_foreign v = negb (has_ref_list items).
Proof.
  intros H. destruct (roundtrip_ref_top items H) as (v & E & R). exists v.
  split; [exact E|]. split; [apply Rep_pieces; exact R | apply Rep_no_foreign; exact R].
Qed.
End RT.
