(** Round trip for sources containing references, part 3: the shape of the parsed value ([Rep]) and the
    main theorem  parse (print src) = Ok v  with  Rep v src,  hence  pieces v = rdenote src  and
    no_foreign v = false exactly when a reference occurs (properties C06 / C01). *)
From Coq Require Import List NArith ZArith Bool Arith Lia.
Import ListNotations.
From LI Require Import Base.StrOps Base.StrLemmas Parser.Parse Parser.Reduce Parser.Source Parser.Scan
  Parser.RoundTrip1 Parser.RoundTrip2 Parser.RoundTrip3 Parser.RoundTrip4 Parser.ReduceProofs
  Parser.RoundTripRef1 Parser.RoundTripRef2.
Open Scope N_scope.
Local Notation item := Source.item.
Ltac slia := unfold str, char in *; lia.

(** the value ParsedValue::new builds for a source: a right-nested chain of three-element blocs
    around the first variable / component / reference, a string literal for a run of text *)
Inductive Rep : pv -> list ritem -> Prop :=
| Rep_text l : forallb is_rtext l = true -> Rep (PLit (LStr (rprint_list l))) l
| Rep_var vb va pre w1 n w2 fm rest : Rep vb pre -> Rep va rest ->
    Rep (PBloc [vb; PVar (s_var_ ++ n) (fmt_of fm); va]) (pre ++ RVar w1 n w2 fm :: rest)
| Rep_comp vb vm va pre w1 n w2 kids a b c rest : Rep vb pre -> Rep vm kids -> Rep va rest ->
    Rep (PBloc [vb; PComp (s_comp_ ++ n) vm; va]) (pre ++ RComp w1 n w2 kids a b c :: rest)
| Rep_ref vb va pre ns path rest : Rep vb pre -> Rep va rest ->
    Rep (PBloc [vb; PForeign (option_map seg_name ns) (map seg_name path) []; va]) (pre ++ RRef ns path :: rest)
  (* arguments: each string argument parsed again, kept in the parser's key-sorted map *)
| Rep_refa vb va pre ns path args vs rest : Rep vb pre -> Rep va rest -> ArgVals vs args ->
    Rep (PBloc [vb; PForeign (option_map seg_name ns) (map seg_name path) (sorted2 vs); va]) (pre ++ RRefA ns path args :: rest)
with ArgVals : list (str * pv) -> list (str * rarg) -> Prop :=
| AV_nil : ArgVals [] []
| AV_str k v its vs args : Rep v (map a2r its) -> ArgVals vs args -> ArgVals ((k, v) :: vs) ((k, RAStr its) :: args)
| AV_lit k l vs args : ArgVals vs args -> ArgVals ((k, PLit l) :: vs) ((k, RALit l) :: args).
Scheme Rep_mind := Minimality for Rep Sort Prop
  with ArgVals_mind := Minimality for ArgVals Sort Prop.

Lemma all_rtext_denote l : forallb is_rtext l = true -> map rdenote l = map PcText (map rprint l).
Proof.
  induction l as [|x r IH]; intros H; [reflexivity|].
  cbn [forallb] in H. apply andb_true_iff in H as [Hx Hr]. cbn [map]. rewrite IH by assumption.
  destruct x; try discriminate. reflexivity.
Qed.
Lemma all_rtext_no_ref l : forallb is_rtext l = true -> has_ref_list l = false.
Proof.
  induction l as [|x r IH]; intros H; [reflexivity|].
  cbn [forallb] in H. apply andb_true_iff in H as [Hx Hr]. unfold has_ref_list. cbn [existsb].
  destruct x; try discriminate. cbn [has_ref orb]. apply IH. exact Hr.
Qed.

Lemma Rep_pieces v l : Rep v l -> pc_norm (pieces_raw v) = rdenote_list l.
Proof.
  revert v l.
  apply (Rep_mind (fun v l => pc_norm (pieces_raw v) = rdenote_list l)
                  (fun vs args => map (on_snd (fun v => pc_norm (pieces_raw v))) vs
                                  = map (fun ka => (fst ka, darg (snd ka))) args)).
  - intros l Ht. cbn [pieces_raw lit_display]. unfold rdenote_list. rewrite (all_rtext_denote l Ht). rewrite pc_norm_texts. reflexivity.
  - intros vb va pre w1 n w2 fm rest _ IHb _ IHa.
    cbn [pieces_raw flat_map]. unfold rdenote_list. rewrite map_app. cbn [map rdenote].
    apply pc_norm_congr; [exact IHb|].
    change (PcVar (s_var_ ++ n) (fmt_of fm) :: map rdenote rest) with ([PcVar (s_var_ ++ n) (fmt_of fm)] ++ map rdenote rest).
    apply pc_norm_congr; [reflexivity|]. rewrite app_nil_r. exact IHa.
  - intros vb vm va pre w1 n w2 kids a b c rest _ IHb _ IHm _ IHa.
    cbn [pieces_raw flat_map]. unfold rdenote_list. rewrite map_app. cbn [map rdenote].
    apply pc_norm_congr; [exact IHb|].
    change (PcComp (s_comp_ ++ n) (pc_norm (map rdenote kids)) :: map rdenote rest)
      with ([PcComp (s_comp_ ++ n) (pc_norm (map rdenote kids))] ++ map rdenote rest).
    apply pc_norm_congr.
    + rewrite IHm. reflexivity.
    + rewrite app_nil_r. exact IHa.
  - intros vb va pre ns path rest _ IHb _ IHa.
    cbn [pieces_raw flat_map map]. unfold rdenote_list. rewrite map_app. cbn [map rdenote].
    apply pc_norm_congr; [exact IHb|].
    change (PcForeign (option_map seg_name ns) (map seg_name path) [] :: map rdenote rest)
      with ([PcForeign (option_map seg_name ns) (map seg_name path) []] ++ map rdenote rest).
    apply pc_norm_congr; [reflexivity|]. rewrite app_nil_r. exact IHa.
  - intros vb va pre ns path args vs rest _ IHb _ IHa _ IHargs.
    cbn [pieces_raw flat_map]. unfold rdenote_list. rewrite map_app. cbn [map rdenote].
    apply pc_norm_congr; [exact IHb|].
    match goal with |- pc_norm (?x ++ _) = pc_norm (?y :: ?r) => change (y :: r) with ([y] ++ r) end.
    apply pc_norm_congr; [|rewrite app_nil_r; exact IHa].
    f_equal. f_equal. f_equal. rewrite <- IHargs, <- sorted2_map. apply map_ext. intros [k a]. reflexivity.
  - reflexivity.
  - intros k v its vs args _ IHv _ IHr. cbn [map fst snd]. rewrite IHr. f_equal. unfold on_snd. cbn [fst snd darg]. f_equal.
    rewrite IHv. apply rdenote_list_a2r.
  - intros k l vs args _ IHr. cbn [map fst snd]. rewrite IHr. reflexivity.
Qed.

Lemma Rep_no_foreign v l : Rep v l -> no_foreign v = negb (has_ref_list l).
Proof.
  revert v l.
  apply (Rep_mind (fun v l => no_foreign v = negb (has_ref_list l)) (fun _ _ => True)); try exact I.
  - intros l Ht. rewrite (all_rtext_no_ref l Ht). reflexivity.
  - intros vb va pre w1 n w2 fm rest _ IHb _ IHa.
    cbn [no_foreign forallb]. unfold has_ref_list in *. rewrite existsb_app. cbn [existsb has_ref].
    rewrite IHb, IHa. destruct (existsb has_ref pre), (existsb has_ref rest); reflexivity.
  - intros vb vm va pre w1 n w2 kids a b c rest _ IHb _ IHm _ IHa.
    cbn [no_foreign forallb]. unfold has_ref_list in *. rewrite existsb_app. cbn [existsb has_ref].
    rewrite IHb, IHa, IHm. destruct (existsb has_ref pre), (existsb has_ref rest), (existsb has_ref kids); reflexivity.
  - intros vb va pre ns path rest _ IHb _ IHa.
    cbn [no_foreign forallb]. unfold has_ref_list in *. rewrite existsb_app. cbn [existsb has_ref].
    rewrite IHb. destruct (existsb has_ref pre); reflexivity.
  - intros vb va pre ns path args vs rest _ IHb _ IHa _ _.
    cbn [no_foreign forallb]. unfold has_ref_list in *. rewrite existsb_app. cbn [existsb has_ref].
    rewrite IHb. destruct (existsb has_ref pre); reflexivity.
  - intros. exact I.
  - intros. exact I.
Qed.

Lemma rprint_ref_split pre ns path rest :
  rprint_list (pre ++ RRef ns path :: rest)
  = rprint_list pre ++ s_fk ++ (keypath_text ns path ++ c_rp :: rprint_list rest).
Proof.
  rewrite rprint_list_app, rprint_list_cons. cbn [rprint]. unfold print_ref. rewrite <- !app_assoc. reflexivity.
Qed.
Lemma rprint_comp_split pre w1 n w2 kids a b c rest :
  rprint_list (pre ++ RComp w1 n w2 kids a b c :: rest)
  = (rprint_list pre ++ [c_lt]) ++ ((w1 ++ n ++ w2 ++ [c_gt]) ++ rprint_list kids ++ close_tag a b n c ++ rprint_list rest).
Proof.
  rewrite rprint_list_app, rprint_list_cons, rprint_comp. unfold open_tag.
  repeat (rewrite <- app_assoc; cbn [app]). reflexivity.
Qed.
Lemma rprint_var_split pre w1 n w2 fm rest :
  rprint_list (pre ++ RVar w1 n w2 fm :: rest)
  = print_list ([SText (rprint_list pre)] ++ SVar w1 n w2 fm :: [SText (rprint_list rest)]).
Proof.
  rewrite rprint_list_app, rprint_list_cons. unfold print_list. cbn [app map concat print rprint].
  rewrite !app_nil_r. reflexivity.
Qed.

Lemma negb_cr_comp (l : list ritem) : forallb (fun x => negb (is_rcr x)) l = true -> forallb (fun x => negb (is_rcomp x)) l = true.
Proof.
  intros H. rewrite forallb_forall in H |- *. intros x Hx. specialize (H x Hx). unfold is_rcr in H.
  destruct (is_rcomp x); [discriminate | reflexivity].
Qed.
Lemma all_text_of (l : list ritem) : forallb (fun x => negb (is_rcr x)) l = true -> forallb (fun x => negb (is_rvar x)) l = true ->
  forallb is_rtext l = true.
Proof.
  intros H1 H2. rewrite forallb_forall in H1, H2 |- *. intros x Hx. specialize (H1 x Hx). specialize (H2 x Hx).
  destruct x; try discriminate; reflexivity.
Qed.

(** references with arguments anywhere (inside components too) *)
Fixpoint has_refa (i : ritem) : bool :=
  match i with
  | RComp _ _ _ kids _ _ _ => existsb has_refa kids
  | RRefA _ _ _ => true
  | _ => false
  end.
Definition has_refa_list (l : list ritem) : bool := existsb has_refa l.
Lemma has_refa_split a y b : has_refa_list (a ++ y :: b) = false ->
  has_refa_list a = false /\ has_refa y = false /\ has_refa_list b = false.
Proof.
  unfold has_refa_list. rewrite existsb_app. cbn [existsb]. intros H.
  apply orb_false_iff in H as [H1 H2]. apply orb_false_iff in H2 as [H2 H3]. auto.
Qed.
Lemma has_refa_a2r1 : forall a, has_refa (a2r a) = false.
Proof.
  apply aitem_ind2; try reflexivity.
  intros w1 n w2 kids a b c IH. cbn [a2r has_refa]. induction IH as [|k r Hk Hr IHr]; [reflexivity|].
  cbn [map existsb]. rewrite Hk, IHr. reflexivity.
Qed.
Lemma has_refa_a2r l : has_refa_list (map a2r l) = false.
Proof. induction l as [|a r IH]; [reflexivity|]. cbn [map]. unfold has_refa_list in *. cbn [existsb]. rewrite IH, has_refa_a2r1. reflexivity. Qed.

Lemma member_len x : (length (snd x) <= length (member_text x))%nat.
Proof. unfold member_text. repeat (rewrite ?app_length; cbn [length]). slia. Qed.
Lemma negb_cr_tvr (l : list ritem) : forallb (fun x => negb (is_rcr x)) l = true -> forallb is_tvr l = true.
Proof.
  intros H. rewrite forallb_forall in H |- *. intros x Hx. specialize (H x Hx). destruct x; try discriminate; reflexivity.
Qed.
Lemma members_len_in x l : In x l -> (length (snd x) <= length (members_text l))%nat.
Proof.
  induction l as [|y r IH]; intros H; [destruct H|]. cbn [members_text].
  destruct H as [->|H].
  - pose proof (member_len x). destruct r; [assumption|]. rewrite app_length. slia.
  - specialize (IH H). destruct r as [|z r']; [destruct H|]. rewrite app_length. cbn [length]. slia.
Qed.
Lemma arg_len_in k its args : In (k, RAStr its) args -> (length (aprint_list its) <= length (members_text (args_text args)))%nat.
Proof.
  intros H. assert (Hin : In (k, value_text (RAStr its)) (args_text args)).
  { unfold args_text. apply in_map_iff. exists (k, RAStr its). auto. }
  pose proof (members_len_in _ _ Hin) as Hl. cbn [snd value_text] in Hl. cbn [length] in Hl. rewrite app_length in Hl. slia.
Qed.

Section RT.
Variable idc : str -> idres.
Variable json_args : str -> res (list (str * jarg)).
Notation ritem_wfb := (ritem_wfb idc).
Notation ritems_wfb := (ritems_wfb idc).

(** a reference first: no component opens before it, the component-first test is false *)
Lemma comp_first_ref pre y rest tail :
  ritems_wfb (pre ++ y :: rest) = true -> forallb (fun x => negb (is_rcr x)) pre = true ->
  rprint y = s_fk ++ tail ->
  comp_first idc true (rprint_list (pre ++ y :: rest)) = Ok false.
Proof.
  intros Hwf Hpre Ey.
  destruct (ritems_wfb_split idc _ _ _ Hwf) as (Wpre & Wy & Wrest).
  pose proof (negb_cr_tvr pre Hpre) as Hpre_t.
  pose proof (rtv_no_dollar idc pre Wpre Hpre) as Hpre_nd.
  pose proof (rnoncomps_no_lt idc pre Wpre Hpre_t) as Hpre_lt.
  unfold comp_first.
  assert (Es : split_once s_fk (rprint_list (pre ++ y :: rest)) = Some (rprint_list pre, tail ++ rprint_list rest)).
  { rewrite rprint_list_app, rprint_list_cons, Ey, <- app_assoc. change s_fk with (c_dollar :: [c_t; c_lp]).
    apply split_once_first_pat. exact Hpre_nd. }
  rewrite Es.
  assert (Wyr : ritems_wfb (y :: rest) = true).
  { unfold RoundTripRef1.ritems_wfb. cbn [forallb]. rewrite Wy. exact Wrest. }
  destruct (rconvs_wf idc (y :: rest) Wyr) as [W T].
  rewrite rprint_list_app, <- (flats_rconv_items (y :: rest)).
  destruct (fvc_tokens idc (rconvs (y :: rest)) (rprint_list pre) (length (rprint_list pre ++ flats (toks_list (rconvs (y :: rest))))) Hpre_lt W T)
    as [E|(k & x & bb & aa & E)]; rewrite E; cbn [bind]; [reflexivity|].
  f_equal. apply Nat.ltb_ge. rewrite blen_app. lia.
Qed.

Lemma argvals_of (new : str -> res pv) args :
  (forall k its, In (k, RAStr its) args -> exists v, new (aprint_list its) = Ok v /\ Rep v (map a2r its)) ->
  ArgVals (map (on_snd (aval new)) args) args.
Proof.
  induction args as [|[k a] r IH]; intros H; [constructor|].
  cbn [map]. unfold on_snd at 1. cbn [fst snd]. destruct a as [its|l]; cbn [aval].
  - destruct (H k its (or_introl eq_refl)) as (v & Ev & Rv). unfold vnew. rewrite Ev.
    constructor; [exact Rv|]. apply IH. intros k' its' Hi. apply (H k' its'). right. exact Hi.
  - constructor. apply IH. intros k' its' Hi. apply (H k' its'). right. exact Hi.
Qed.

(** the round trip; the JSON oracle only matters when a reference carries arguments *)
Theorem roundtrip_ref : forall fuel items,
  (has_refa_list items = false \/ json_ok idc json_args) ->
  (length (rprint_list items) < fuel)%nat -> ritems_wfb items = true ->
  exists v, parse idc json_args true fuel (rprint_list items) = Ok v /\ Rep v items.
Proof.
  induction fuel as [|fuel IH]; intros items Hj Hlen Hwf; [slia|].
  cbn [parse]. unfold parse_step.
  destruct (gsplit_first is_rcr items) as [[[pre y] rest]|] eqn:Ecr.
  - (* a first component or reference; only text and variables before it *)
    destruct (gsplit_first_some _ _ _ _ _ Ecr) as (Eit & Hy & Hpre). subst items.
    destruct (ritems_wfb_split idc _ _ _ Hwf) as (Wpre & Wy & Wrest).
    pose proof (negb_cr_tvr pre Hpre) as Hpre_nc.
    pose proof (rtv_no_dollar idc pre Wpre Hpre) as Hpre_nd.
    assert (Jpre : has_refa_list pre = false \/ json_ok idc json_args).
    { destruct Hj as [Hj|Hj]; [left; apply (has_refa_split _ _ _ Hj) | right; exact Hj]. }
    assert (Jrest : has_refa_list rest = false \/ json_ok idc json_args).
    { destruct Hj as [Hj|Hj]; [left; apply (has_refa_split _ _ _ Hj) | right; exact Hj]. }
    destruct y as [|?|w1 n w2 kids a b c|ns path|ns path args]; try discriminate.
    + (* component first: it is parsed first, whether or not a reference follows or is inside *)
      assert (Wkids : ritems_wfb kids = true).
      { cbn [RoundTripRef1.ritem_wfb] in Wy. apply andb_true_iff in Wy as [_ Wk]. exact Wk. }
      assert (Jkids : has_refa_list kids = false \/ json_ok idc json_args).
      { destruct Hj as [Hj|Hj]; [left; apply (has_refa_split _ _ _ Hj) | right; exact Hj]. }
      assert (Elen : (length (rprint_list pre) + length (rprint_list kids) + length (rprint_list rest) + 2
                      <= length (rprint_list (pre ++ RComp w1 n w2 kids a b c :: rest)))%nat).
      { rewrite rprint_comp_split. repeat (rewrite app_length; cbn [length]). slia. }
      destruct (IH pre Jpre ltac:(slia) Wpre) as (vb & Eb & Rb).
      destruct (IH kids Jkids ltac:(slia) Wkids) as (vm & Em & Rm).
      destruct (IH rest Jrest ltac:(slia) Wrest) as (va & Ea & Ra).
      assert (Hres : find_component idc true (parse idc json_args true fuel) (rprint_list (pre ++ RComp w1 n w2 kids a b c :: rest))
                     = Ok (Some (PBloc [vb; PComp (s_comp_ ++ n) vm; va]))).
      { rewrite (find_component_rprinted idc _ pre w1 n w2 kids a b c rest Wpre Hpre_nc Wy Wrest).
        rewrite Eb, Em, Ea. reflexivity. }
      unfold comp_first.
      destruct (split_once s_fk (rprint_list (pre ++ RComp w1 n w2 kids a b c :: rest))) as [[fkb fka]|] eqn:Efk.
      * rewrite (find_valid_component_rprinted idc pre w1 n w2 kids a b c rest _ Wpre Hpre_nc Wy Wrest). cbn [bind].
        assert (Hlt : (blen (rprint_list pre) <? blen fkb)%nat = true).
        { rewrite rprint_comp_split in Efk. change s_fk with (c_dollar :: [c_t; c_lp]) in Efk.
          apply split_once_prefix in Efk.
          - destruct Efk as [x' ->]. apply Nat.ltb_lt. rewrite !blen_app. change (blen [c_lt]) with 1%nat. lia.
          - apply no_char_app; [exact Hpre_nd|]. apply no_char_cons; [intro E; vm_compute in E; discriminate | apply no_char_nil]. }
        rewrite Hlt. rewrite Hres. cbn [bind].
        eexists. split; [reflexivity|]. apply Rep_comp; assumption.
      * cbn [bind]. unfold parse_chain, find_foreign_key. rewrite Efk. cbn [bind]. rewrite Hres. cbn [bind].
        eexists. split; [reflexivity|]. apply Rep_comp; assumption.
    + (* reference first *)
      rewrite (comp_first_ref pre (RRef ns path) rest (keypath_text ns path ++ [c_rp]) Hwf Hpre eq_refl).
      cbn [bind]. unfold parse_chain.
      rewrite (find_foreign_key_printed idc json_args _ pre ns path rest Hpre_nd Wy).
      assert (Elen : (length (rprint_list pre) + length (rprint_list rest) + 3
                      <= length (rprint_list (pre ++ RRef ns path :: rest)))%nat).
      { rewrite rprint_ref_split. unfold s_fk. repeat (rewrite app_length; cbn [length]). slia. }
      destruct (IH pre Jpre ltac:(slia) Wpre) as (vb & Eb & Rb).
      destruct (IH rest Jrest ltac:(slia) Wrest) as (va & Ea & Ra).
      rewrite Eb, Ea. cbn [bind].
      eexists. split; [reflexivity|]. apply Rep_ref; assumption.
    + (* reference with arguments first *)
      assert (Hjson : json_ok idc json_args).
      { destruct Hj as [Hj|Hj]; [|exact Hj]. destruct (has_refa_split _ _ _ Hj) as (_ & Hy' & _). discriminate. }
      rewrite (comp_first_ref pre (RRefA ns path args) rest
                 (keypath_text ns path ++ c_comma :: 32 :: obj_text (args_text args) ++ [c_rp]) Hwf Hpre eq_refl).
      cbn [bind]. unfold parse_chain.
      assert (Elen : (length (rprint_list pre) + length (rprint_list rest) + length (members_text (args_text args)) + 3
                      <= length (rprint_list (pre ++ RRefA ns path args :: rest)))%nat).
      { rewrite rprint_refa_split. unfold s_fk, obj_text. repeat (rewrite app_length; cbn [length]). slia. }
      pose proof Wy as Wy0. cbn [RoundTripRef1.ritem_wfb] in Wy. apply andb_true_iff in Wy as [Wkp Wargs].
      destruct (args_wf_parts idc args Wargs) as (_ & _ & Wall).
      assert (Hargs : forall k its, In (k, RAStr its) args ->
                exists v, parse idc json_args true fuel (aprint_list its) = Ok v /\ Rep v (map a2r its)).
      { intros k its Hka. rewrite forallb_forall in Wall. destruct (arg_wf_parts idc _ (Wall _ Hka)) as (_ & Wv).
        cbn [snd rarg_wfb] in Wv. apply andb_true_iff in Wv as [Wi _].
        rewrite <- rprint_list_a2r. apply IH.
        - left. apply has_refa_a2r.
        - rewrite rprint_list_a2r. pose proof (arg_len_in k its args Hka) as Hl. slia.
        - apply aitems_wfb_a2r. exact Wi. }
      rewrite (find_foreign_key_args_printed idc json_args _ pre ns path args rest Hjson Hpre_nd Wy0).
      2:{ intros k its Hka. destruct (Hargs k its Hka) as (v & Ev & _). exists v. exact Ev. }
      destruct (IH pre Jpre ltac:(slia) Wpre) as (vb & Eb & Rb).
      destruct (IH rest Jrest ltac:(slia) Wrest) as (va & Ea & Ra).
      rewrite Eb, Ea. cbn [bind].
      eexists. split; [reflexivity|]. unfold pargs_of. apply Rep_refa; [assumption | assumption|].
      apply argvals_of. exact Hargs.
  - (* neither a component nor a reference: the printed source holds no '$' and no '<' *)
    pose proof (gsplit_first_none _ _ Ecr) as Hncr.
    pose proof (negb_cr_tvr items Hncr) as Hnc.
    pose proof (rtv_no_dollar idc items Hwf Hncr) as Hnd.
    assert (Hcf : comp_first idc true (rprint_list items) = Ok false).
    { unfold comp_first. change s_fk with (c_dollar :: [c_t; c_lp]). rewrite split_once_no_char by exact Hnd. reflexivity. }
    rewrite Hcf. cbn [bind]. unfold parse_chain.
    assert (Hfk : find_foreign_key idc json_args true (parse idc json_args true fuel) (rprint_list items) = Ok None).
    { unfold find_foreign_key. change s_fk with (c_dollar :: [c_t; c_lp]). rewrite split_once_no_char by exact Hnd. reflexivity. }
    rewrite Hfk. cbn [bind].
    assert (Hcomp : find_component idc true (parse idc json_args true fuel) (rprint_list items) = Ok None).
    { unfold find_component. rewrite find_valid_component_none; [reflexivity|]. apply (rnoncomps_no_lt idc); assumption. }
    rewrite Hcomp. cbn [bind].
    destruct (gsplit_first is_rvar items) as [[[pre y] rest]|] eqn:Esv.
    + (* a first variable: only text before it *)
      destruct (gsplit_first_some _ _ _ _ _ Esv) as (Eit & Hy & Hpre).
      destruct y as [|w1 n w2 fm| | |]; try discriminate. subst items.
      destruct (ritems_wfb_split idc _ _ _ Hwf) as (Wpre & Wy & Wrest).
      assert (Jpre : has_refa_list pre = false \/ json_ok idc json_args).
      { destruct Hj as [Hj|Hj]; [left; apply (has_refa_split _ _ _ Hj) | right; exact Hj]. }
      assert (Jrest : has_refa_list rest = false \/ json_ok idc json_args).
      { destruct Hj as [Hj|Hj]; [left; apply (has_refa_split _ _ _ Hj) | right; exact Hj]. }
      assert (Hpt : forallb is_rtext pre = true).
      { apply all_text_of; [|exact Hpre]. rewrite forallb_app in Hncr. apply andb_true_iff in Hncr as [H _]. exact H. }
      rewrite rprint_var_split.
      rewrite (find_variable_printed idc _ [SText (rprint_list pre)] w1 n w2 fm [SText (rprint_list rest)]).
      2:{ unfold items_wfb. cbn [forallb item_wfb]. rewrite (rtexts_textch idc pre Wpre Hpt). reflexivity. }
      2:{ reflexivity. }
      2:{ reflexivity. }
      2:{ exact Wy. }
      unfold print_list. cbn [map concat print]. rewrite !app_nil_r.
      assert (Elen : (length (rprint_list pre) + 2 + length (rprint_list rest)
                      <= length (rprint_list (pre ++ RVar w1 n w2 fm :: rest)))%nat).
      { rewrite rprint_list_app, rprint_list_cons. cbn [rprint print]. unfold s_open_var. repeat (rewrite app_length; cbn [length]). slia. }
      destruct (IH pre Jpre ltac:(slia) Wpre) as (vb & Eb & Rb).
      destruct (IH rest Jrest ltac:(slia) Wrest) as (va & Ea & Ra).
      rewrite Eb, Ea. cbn [bind].
      eexists. split; [reflexivity|]. apply Rep_var; assumption.
    + (* only text *)
      pose proof (gsplit_first_none _ _ Esv) as Hnv.
      pose proof (all_text_of items Hncr Hnv) as Ht.
      assert (Hvar : find_variable idc (parse idc json_args true fuel) (rprint_list items) = Ok None).
      { unfold find_variable. change s_open_var with (c_lb :: [c_lb]).
        rewrite split_once_no_char; [reflexivity|].
        eapply forallb_no_char; [apply (rtexts_textch idc items Hwf Ht) | reflexivity]. }
      rewrite Hvar. cbn [bind].
      eexists. split; [reflexivity|]. apply Rep_text. exact Ht.
Qed.

(** with the top-level fuel of ParsedValue::new *)
Corollary roundtrip_ref_top items : (has_refa_list items = false \/ json_ok idc json_args) -> ritems_wfb items = true ->
  exists v, parse_top idc json_args true (rprint_list items) = Ok v /\ Rep v items.
Proof. intros Hj H. unfold parse_top. apply roundtrip_ref; [exact Hj | slia | exact H]. Qed.

Corollary roundtrip_ref_pieces items : (has_refa_list items = false \/ json_ok idc json_args) -> ritems_wfb items = true ->
  exists v, parse_top idc json_args true (rprint_list items) = Ok v
            /\ pieces v = rdenote_list items /\ no_foreign v = negb (has_ref_list items).
Proof.
  intros Hj H. destruct (roundtrip_ref_top items Hj H) as (v & E & R). exists v.
  split; [exact E|]. split; [apply Rep_pieces; exact R | apply Rep_no_foreign; exact R].
Qed.
End RT.
