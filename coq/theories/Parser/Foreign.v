(** Model of foreign-key resolution (property C06): LocalesOrNamespaces::get_value_at,
    resolve_foreign_keys (driver over the registered (locale, key path) set),
    ParsedValue::resolve_foreign_key / resolve_foreign_key_inner (lookup, explicit default ->
    inherits chain -> default locale, the RefCell borrow as an explicit "in progress" stack),
    ParsedValue::populate, and the source-level inlining semantics the property states.
    Ranges and plurals are not in this fragment.  No proofs in this file. *)
From Coq Require Import List NArith ZArith Bool Arith.
Import ListNotations.
From LI Require Import Base.StrOps Parser.Parse Parser.Json Parser.Reduce.
Open Scope N_scope.

Definition E_MissingForeignKey := 10. Definition E_InvalidForeignKey := 11.
Definition E_RecursiveForeignKey := 12. Definition E_ExplicitDefaultInDefault := 13.

Definition keypath := (option str * list str)%type.
Inductive node := NVal (v : pv) | NDefault | NSub (keys : list (str * node)).
Definition kmap := list (str * node).
Inductive values :=
| VLocales (ls : list (str * kmap))
| VNamespaces (nss : list (str * list (str * kmap))).

Fixpoint assoc {V} (k : str) (m : list (str * V)) : option V :=
  match m with [] => None | (k', v) :: t => if str_eqb k k' then Some v else assoc k t end.
Definition mem_str (k : str) (l : list str) : bool := existsb (str_eqb k) l.

(** Locale::get_value_at *)
Fixpoint locale_get (m : kmap) (path : list str) : option node :=
  match path with
  | [] => None
  | k :: rest =>
      match rest with
      | [] => assoc k m
      | _ => match assoc k m with Some (NSub sub) => locale_get sub rest | _ => None end
      end
  end.
(** LocalesOrNamespaces::get_value_at *)
Definition get_value_at (vals : values) (top : str) (p : keypath) : option node :=
  match fst p, vals with
  | None, VNamespaces _ | Some _, VLocales _ => None
  | None, VLocales ls => match assoc top ls with Some m => locale_get m (snd p) | None => None end
  | Some ns, VNamespaces nss =>
      match assoc ns nss with
      | Some ls => match assoc top ls with Some m => locale_get m (snd p) | None => None end
      | None => None
      end
  end.

(** ParsedValue::populate (current code: descends into resolved foreign keys, which this
    functional model has already replaced by their value) *)
Fixpoint populate (args : list (str * pv)) (v : pv) : pv :=
  match v with
  | PLit _ => v
  | PVar k f => match assoc k args with Some a => a | None => v end
  | PComp k i => PComp k (populate args i)
  | PBloc l => PBloc (map (populate args) l)
  | PForeign _ _ _ => v
  end.

Definition opt_str_eqb' (a b : option str) : bool :=
  match a, b with Some x, Some y => str_eqb x y | None, None => true | _, _ => false end.
Fixpoint strs_eqb' (a b : list str) : bool :=
  match a, b with [], [] => true | x :: xs, y :: ys => str_eqb x y && strs_eqb' xs ys | _, _ => false end.
Definition kp_eqb (a b : keypath) : bool := opt_str_eqb' (fst a) (fst b) && strs_eqb' (snd a) (snd b).
Definition on_stack (l : str) (p : keypath) (stack : list (str * keypath)) : bool :=
  existsb (fun e => str_eqb (fst e) l && kp_eqb (snd e) p) stack.

Section Resolve.
Variable vals : values.
Variable dflt : str.
Variable inherits : list (str * str).

(** the walk along the `inherits` chain for an explicitly defaulted target *)
Fixpoint walk (fuel : nat) (visited : list str) (cur : str) (target : keypath) : str :=
  match fuel with
  | O => dflt
  | S f =>
      match assoc cur inherits with
      | Some next =>
          if mem_str next visited then dflt
          else match get_value_at vals next target with
               | Some NDefault | None => walk f (next :: visited) next target
               | Some _ => next
               end
      | None => dflt
      end
  end.

(** the arguments of a foreign key are resolved too *)
Definition resolve_args (rec : list (str * keypath) -> str -> pv -> res pv) (stack : list (str * keypath)) (L : str)
           (args : list (str * pv)) : res (list (str * pv)) :=
  fold_right (fun '(k, a) acc => bind (rec stack L a) (fun a' => bind acc (fun r => Ok ((k, a') :: r)))) (Ok []) args.

(** resolve_foreign_key_inner: lookup in [L]; an explicit default restarts once in the locale the
    inherits walk designates ([n] bounds the restarts: the walk never returns a locale whose value is
    an explicit default, except the default locale itself, which is an error).
    [A]: the locale the foreign key is written in; its arguments are resolved there, wherever the
    target value is taken from (the code before the repair resolved them in [L]: see [look_old]). *)
Fixpoint look (rec : list (str * keypath) -> str -> pv -> res pv) (n : nat) (stack : list (str * keypath))
         (target : keypath) (args : list (str * pv)) (A L : str) : res pv :=
  match get_value_at vals L target with
  | None => Err E_MissingForeignKey
  | Some NDefault =>
      if str_eqb L dflt then Err E_ExplicitDefaultInDefault
      else match n with
           | O => OutOfFuel
           | S n' => look rec n' stack target args A (walk (S (length inherits)) [L] L target)
           end
  | Some (NSub _) => bind (resolve_args rec stack A args) (fun _ => Err E_InvalidForeignKey)
  | Some (NVal T) =>
      if on_stack L target stack then Err E_RecursiveForeignKey
      else
        bind (rec ((L, target) :: stack) L T) (fun T' =>
        bind (resolve_args rec stack A args) (fun args' => Ok (populate args' T')))
  end.

(** resolve_foreign_key on a value: every foreign key replaced by the populated target value.
    [stack]: values whose traversal is in progress (a borrowed RefCell up the call stack). *)
Fixpoint resolve (fuel : nat) (stack : list (str * keypath)) (L : str) (v : pv) : res pv :=
  match fuel with
  | O => OutOfFuel
  | S f =>
      match v with
      | PLit _ | PVar _ _ => Ok v
      | PComp k i => bind (resolve f stack L i) (fun i' => Ok (PComp k i'))
      | PBloc l =>
          bind (fold_right (fun x acc => bind (resolve f stack L x) (fun x' => bind acc (fun r => Ok (x' :: r)))) (Ok []) l)
               (fun l' => Ok (PBloc l'))
      | PForeign ns p args => look (resolve f) 2 stack (ns, p) args L L
      end
  end.

(** the code before the repair: after an explicit default the arguments were resolved in the locale
    the value is inherited from *)
Fixpoint look_old (rec : list (str * keypath) -> str -> pv -> res pv) (n : nat) (stack : list (str * keypath))
         (target : keypath) (args : list (str * pv)) (L : str) : res pv :=
  match get_value_at vals L target with
  | None => Err E_MissingForeignKey
  | Some NDefault =>
      if str_eqb L dflt then Err E_ExplicitDefaultInDefault
      else match n with
           | O => OutOfFuel
           | S n' => look_old rec n' stack target args (walk (S (length inherits)) [L] L target)
           end
  | Some (NSub _) => bind (resolve_args rec stack L args) (fun _ => Err E_InvalidForeignKey)
  | Some (NVal T) =>
      if on_stack L target stack then Err E_RecursiveForeignKey
      else
        bind (rec ((L, target) :: stack) L T) (fun T' =>
        bind (resolve_args rec stack L args) (fun args' => Ok (populate args' T')))
  end.
Fixpoint resolve_old (fuel : nat) (stack : list (str * keypath)) (L : str) (v : pv) : res pv :=
  match fuel with
  | O => OutOfFuel
  | S f =>
      match v with
      | PLit _ | PVar _ _ => Ok v
      | PComp k i => bind (resolve_old f stack L i) (fun i' => Ok (PComp k i'))
      | PBloc l =>
          bind (fold_right (fun x acc => bind (resolve_old f stack L x) (fun x' => bind acc (fun r => Ok (x' :: r)))) (Ok []) l)
               (fun l' => Ok (PBloc l'))
      | PForeign ns p args => look_old (resolve_old f) 2 stack (ns, p) args L
      end
  end.
End Resolve.

(** * The whole step: parse every leaf, resolve in the driver's order, reduce *)
Inductive jnode := JStr (s : str) | JNull | JLitv (l : lit) | JObj (members : list (str * jnode)).

Fixpoint build_node (parsef : str -> res pv) (j : jnode) : res node :=
  match j with
  | JStr s => bind (parsef s) (fun v => Ok (NVal v))
  | JNull => Ok NDefault
  | JLitv l => Ok (NVal (PLit l))
  | JObj ms =>
      bind ((fix go (ms : list (str * jnode)) : res kmap :=
               match ms with
               | [] => Ok []
               | (k, j') :: r => bind (build_node parsef j') (fun n => bind (go r) (fun m => Ok (map_insert k n m)))
               end) ms)
           (fun m => Ok (NSub m))
  end.
Definition build_kmap (parsef : str -> res pv) (ms : list (str * jnode)) : res kmap :=
  bind (build_node parsef (JObj ms)) (fun n => match n with NSub m => Ok m | _ => Ok [] end).

Fixpoint has_foreign (v : pv) : bool :=
  match v with
  | PLit _ | PVar _ _ => false
  | PComp _ i => has_foreign i
  | PBloc l => existsb has_foreign l
  | PForeign _ _ _ => true
  end.

(** every (path, value) leaf of a key map, paths in the map's order *)
Fixpoint node_leaves (prefix : list str) (n : node) : list (list str * node) :=
  match n with
  | NSub m =>
      (fix go (m : list (str * node)) : list (list str * node) :=
         match m with
         | [] => []
         | (k, n') :: r => node_leaves (prefix ++ [k]) n' ++ go r
         end) m
  | _ => [(prefix, n)]
  end.
Definition leaves (m : kmap) : list (list str * node) := node_leaves [] (NSub m).

(** the final value of (locale, path): resolved then reduced; [None] for an explicit default *)
Definition final_value (vals : values) (dflt : str) (inherits : list (str * str)) (ns : option str)
           (L : str) (path : list str) (n : node) : res (option pv) :=
  match n with
  | NDefault => Ok None
  | NSub _ => Ok None
  | NVal v =>
      bind (resolve vals dflt inherits 200 [(L, (ns, path))] L v) (fun r =>
      bind (reduce r) (fun r' => Ok (Some r')))
  end.

Definition final_value_old (vals : values) (dflt : str) (inherits : list (str * str)) (ns : option str)
           (L : str) (path : list str) (n : node) : res (option pv) :=
  match n with
  | NDefault => Ok None
  | NSub _ => Ok None
  | NVal v =>
      bind (resolve_old vals dflt inherits 200 [(L, (ns, path))] L v) (fun r =>
      bind (reduce r) (fun r' => Ok (Some r')))
  end.

(** * Source-level inlining semantics (the property's own words) *)
Inductive xitem :=
| XText (s : str)
| XVar (name : str)
| XComp (name : str) (kids : list xitem)
| XRef (ns : option str) (path : list str) (args : list (str * xarg))
with xarg := XAStr (l : list xitem) | XALit (l : lit).

(** substitute argument pieces for variables, everywhere (inside components too) *)
Fixpoint subst_piece (args : list (str * list piece)) (p : piece) : list piece :=
  match p with
  | PcVar k f => match assoc k args with Some a => a | None => [p] end
  | PcComp k inner => [PcComp k (pc_norm (flat_map (subst_piece args) inner))]
  | _ => [p]
  end.
Definition subst_pieces (args : list (str * list piece)) (l : list piece) : list piece :=
  pc_norm (flat_map (subst_piece args) l).

Section XDenote.
(** the source written for (locale, keypath): [Some None] = explicit null, [None] = absent / a group *)
Variable src_of : str -> keypath -> option (option (list xitem)).
Variable dflt : str.
Variable inherits : list (str * str).

(** the locale whose text a key shows in [L]: first locale of the inherits chain defining it, else default *)
Fixpoint effective (fuel : nat) (visited : list str) (cur : str) (p : keypath) : str :=
  match fuel with
  | O => dflt
  | S f =>
      match assoc cur inherits with
      | Some next =>
          if mem_str next visited then dflt
          else match src_of next p with
               | Some (Some _) => next
               | _ => effective f (next :: visited) next p
               end
      | None => dflt
      end
  end.

Fixpoint xdenote (fuel : nat) (L : str) (items : list xitem) : option (list piece) :=
  match fuel with
  | O => None
  | S f =>
      let one (i : xitem) : option (list piece) :=
        match i with
        | XText s => Some [PcText s]
        | XVar n => Some [PcVar (s_var_ ++ n) FNone]
        | XComp n kids => match xdenote f L kids with Some k => Some [PcComp (s_comp_ ++ n) (pc_norm k)] | None => None end
        | XRef ns path args =>
            let p := (ns, path) in
            let L' := match src_of L p with
                      | Some (Some _) => L
                      | _ => effective (S (length inherits)) [L] L p
                      end in
            match src_of L' p with
            | Some (Some src) =>
                match xdenote f L' src with
                | Some body =>
                    let args' := fold_right (fun '(k, a) acc =>
                                   match acc with
                                   | None => None
                                   | Some r =>
                                       match a with
                                       | XALit l => Some ((s_var_ ++ k, [PcText (lit_display l)]) :: r)
                                       | XAStr its => match xdenote f L its with Some d => Some ((s_var_ ++ k, pc_norm d) :: r) | None => None end
                                       end
                                   end) (Some []) args in
                    match args' with Some a => Some (subst_pieces a (pc_norm body)) | None => None end
                | None => None
                end
            | _ => None
            end
        end in
      fold_right (fun i acc => match one i, acc with Some a, Some b => Some (a ++ b) | _, _ => None end) (Some []) items
  end.
End XDenote.
