(** Soundness of foreign-key resolution, part 5 (property C06): the value the parser builds for a
    printed source ([Rep], RoundTripRef3.v) has the shape [XRep] of the source's image in the source AST
    of Foreign.v; hence, for projects whose values are the parses of their printed sources ([proj_rel]),
    every final value denotes the source-level inlining semantics.  Scope: the sources of
    RoundTripRef1.v (references with string arguments holding text / variables / argument-less
    references), variables without formatter. *)
From Coq Require Import List NArith ZArith Bool Arith Lia Permutation.
Import ListNotations.
From LI Require Import Base.StrOps Base.StrLemmas Parser.Parse Parser.Json Parser.Reduce Parser.Source Parser.RoundTrip1
  Parser.RoundTrip2 Parser.RoundTrip4 Parser.ReduceProofs Parser.Foreign Parser.ForeignProofs Parser.ForeignSound Parser.ForeignSound2 Parser.ForeignFull
  Parser.ForeignSound4 Parser.RoundTripRef1 Parser.RoundTripRef2 Parser.RoundTripRef3.
Open Scope N_scope.

(** * the sorted argument map is a permutation of the arguments *)
Lemma map_insert_perm {V} k (v : V) m : ~ In k (map fst m) -> Permutation (map_insert k v m) ((k, v) :: m).
Proof.
  induction m as [|[k' v'] t IH]; intros H; cbn [map_insert]; [apply Permutation_refl|].
  cbn [map fst In] in H.
  destruct (str_eqb k k') eqn:E; [apply str_eqb_eq in E; subst; exfalso; apply H; left; reflexivity|].
  destruct (str_ltb k k'); [apply Permutation_refl|].
  eapply Permutation_trans; [apply perm_skip; apply IH; intros Hi; apply H; right; exact Hi | apply perm_swap].
Qed.

Lemma fold_ins_perm {V} (g : str -> str) : forall (l acc : list (str * V)),
  NoDup (map g (map fst l) ++ map fst acc) ->
  Permutation (fold_left (fun m kv => map_insert (g (fst kv)) (snd kv) m) l acc)
              (map (fun kv => (g (fst kv), snd kv)) l ++ acc).
Proof.
  induction l as [|[k v] r IH]; intros acc Hn; [apply Permutation_refl|].
  cbn [fold_left map fst snd app] in *.
  inversion Hn as [|? ? Hni Hn']; subst.
  assert (Hk : ~ In (g k) (map fst acc)) by (intros Hi; apply Hni; apply in_or_app; right; exact Hi).
  pose proof (map_insert_perm (g k) v acc Hk) as Pm.
  eapply Permutation_trans.
  - apply IH. eapply Permutation_NoDup; [|exact Hn].
    eapply Permutation_trans; [apply Permutation_middle|]. apply Permutation_app_head.
    apply Permutation_sym. apply (Permutation_map fst) in Pm. exact Pm.
  - eapply Permutation_trans; [apply Permutation_app_head; exact Pm|]. apply Permutation_sym, Permutation_middle.
Qed.

Lemma sorted1_perm {V} (l : list (str * V)) : NoDup (map fst l) -> Permutation (sorted1 l) l.
Proof.
  intros H. unfold sorted1. pose proof (fold_ins_perm (fun k => k) l [] ) as P.
  rewrite map_id, !app_nil_r in P. specialize (P H). eapply Permutation_trans; [exact P|].
  rewrite <- (map_id l) at 2. apply Permutation_refl' . apply map_ext. intros [k v]. reflexivity.
Qed.
Definition prefixed {V} (kv : str * V) : str * V := (s_var_ ++ fst kv, snd kv).
Lemma sorted2_perm {V} (l : list (str * V)) : NoDup (map fst l) -> Permutation (sorted2 l) (map prefixed l).
Proof.
  intros H. unfold sorted2. pose proof (sorted1_perm l H) as P1.
  pose proof (fold_ins_perm (fun k => s_var_ ++ k) (sorted1 l) []) as P. rewrite !app_nil_r in P.
  eapply Permutation_trans.
  - apply P. apply FinFun.Injective_map_NoDup; [intros x y E; apply app_inv_head in E; exact E|].
    eapply Permutation_NoDup; [|exact H]. apply Permutation_map. apply Permutation_sym. exact P1.
  - apply (Permutation_map prefixed) in P1. exact P1.
Qed.

(** Forall2 along a permutation of the left list *)
Lemma forall2_perm {A B} (R : A -> B -> Prop) l l' m : Permutation l l' -> Forall2 R l m ->
  exists m', Permutation m m' /\ Forall2 R l' m'.
Proof.
  intros Hp. revert m. induction Hp as [|x l l' Hp IH|x y l|l1 l2 l3 H1 IH1 H2 IH2]; intros m H.
  - inversion H; subst. exists []. split; constructor.
  - inversion H as [|? b ? mb Hx Hr]; subst. destruct (IH _ Hr) as (m' & Pm & Fm).
    exists (b :: m'). split; [apply perm_skip; exact Pm | constructor; assumption].
  - inversion H as [|? b1 ? mb Hy Hr]; subst. inversion Hr as [|? b2 ? mb2 Hx Hr2]; subst.
    exists (b2 :: b1 :: mb2). split; [apply perm_swap | repeat constructor; assumption].
  - destruct (IH1 _ H) as (m2 & P2 & F2). destruct (IH2 _ F2) as (m3 & P3 & F3).
    exists m3. split; [eapply Permutation_trans; eassumption | exact F3].
Qed.

Lemma nodup_strs_nodup l : nodup_strs l = true -> NoDup l.
Proof.
  induction l as [|x r IH]; intros H; [constructor|]. cbn [nodup_strs] in H. apply andb_true_iff in H as [Hx Hr].
  constructor; [|apply IH; exact Hr]. intros Hi. apply negb_true_iff in Hx.
  assert (existsb (str_eqb x) r = true) by (apply existsb_exists; exists x; split; [exact Hi | apply str_eqb_refl]). congruence.
Qed.

(** * from [Rep] to [XRep] *)
Lemma xprint_texts l : forallb is_rtext l = true -> xprint_list (map to_x l) = rprint_list l /\ forallb is_xtext (map to_x l) = true.
Proof.
  induction l as [|x r IH]; intros H; [split; reflexivity|].
  cbn [forallb] in H. apply andb_true_iff in H as [Hx Hr]. destruct x; try discriminate.
  destruct (IH Hr) as [E1 E2]. cbn [map to_x forallb is_xtext andb]. split; [|exact E2].
  unfold xprint_list, rprint_list in *. cbn [map concat xprint rprint]. rewrite E1. reflexivity.
Qed.

Definition arg_rel (kv : str * pv) (ka : str * rarg) : Prop :=
  fst kv = fst ka /\
  match snd ka with
  | RAStr its => XRep (snd kv) (map ato_x its)
  | RALit l => snd kv = PLit l
  end.
Definition parg_rel (pkv : str * pv) (xa : str * xarg) : Prop :=
  exists k, fst pkv = s_var_ ++ k /\
    ((exists its, xa = (k, XAStr its) /\ XRep (snd pkv) its) \/ (exists l, xa = (k, XALit l) /\ snd pkv = PLit l)).

Lemma argsrep_of pargs sargs : Forall2 parg_rel pargs sargs -> ArgsRep pargs sargs.
Proof.
  induction 1 as [|[pk v] xa pa sa (k & E1 & [(its & E2 & R)|(l & E2 & E3)]) Hr IH]; [constructor| |];
    cbn [fst snd] in *; subst; [apply AR_str | apply AR_lit]; assumption.
Qed.

Section RepX.
Variable idc : str -> idres.

Theorem Rep_XRep : forall v items, Rep v items ->
  ritems_wfb idc items = true -> forallb plain items = true -> XRep v (map to_x items).
Proof.
  apply (Rep_mind
    (fun v items => ritems_wfb idc items = true -> forallb plain items = true -> XRep v (map to_x items))
    (fun vs args => forallb (arg_wfb idc) args = true -> forallb (fun ka => rarg_plain (snd ka)) args = true ->
                    Forall2 arg_rel vs args)).
  - intros l Ht _ _. destruct (xprint_texts l Ht) as [E1 E2]. rewrite <- E1. apply XRep_text. exact E2.
  - intros vb va pre w1 n w2 fm rest _ IHb _ IHa W P.
    destruct (ritems_wfb_split idc _ _ _ W) as (Wb & _ & Wa). destruct (plain_split _ _ _ P) as (Pb & Py & Pa).
    rewrite map_app. cbn [map to_x]. cbn [plain] in Py. destruct fm; [discriminate|]. cbn [fmt_of].
    apply XRep_var; [apply IHb | apply IHa]; assumption.
  - intros vb vm va pre w1 n w2 kids a b c rest _ IHb _ IHm _ IHa W P.
    destruct (ritems_wfb_split idc _ _ _ W) as (Wb & Wy & Wa). destruct (plain_split _ _ _ P) as (Pb & Py & Pa).
    cbn [RoundTripRef1.ritem_wfb] in Wy. apply andb_true_iff in Wy as [_ Wk]. cbn [plain] in Py.
    rewrite map_app. cbn [map to_x]. apply XRep_comp; [apply IHb | apply IHm | apply IHa]; assumption.
  - intros vb va pre ns path rest _ IHb _ IHa W P.
    destruct (ritems_wfb_split idc _ _ _ W) as (Wb & _ & Wa). destruct (plain_split _ _ _ P) as (Pb & _ & Pa).
    rewrite map_app. cbn [map to_x].
    apply (XRep_ref vb va (map to_x pre) (option_map seg_name ns) (map seg_name path) [] [] [] (map to_x rest));
      [apply IHb; assumption | apply IHa; assumption | constructor | constructor | constructor].
  - intros vb va pre ns path args vs rest _ IHb _ IHa _ IHargs W P.
    destruct (ritems_wfb_split idc _ _ _ W) as (Wb & Wy & Wa). destruct (plain_split _ _ _ P) as (Pb & Py & Pa).
    cbn [RoundTripRef1.ritem_wfb] in Wy. apply andb_true_iff in Wy as [_ Wargs]. cbn [plain] in Py.
    destruct (args_wf_parts idc args Wargs) as (_ & Hnd & Wall).
    pose proof (IHargs Wall Py) as F.
    set (xargs := map (fun ka : str * rarg => (fst ka, xarg_of (snd ka))) args).
    assert (Ekeys : map fst vs = map fst args).
    { clear -F. induction F as [|kv ka vs args [E _] _ IH]; [reflexivity|]. cbn [map]. rewrite E, IH. reflexivity. }
    assert (Hndx : NoDup (map fst xargs)).
    { unfold xargs. rewrite map_map. cbn [fst]. apply nodup_strs_nodup. exact Hnd. }
    assert (Hndv : NoDup (map fst vs)) by (rewrite Ekeys; apply nodup_strs_nodup; exact Hnd).
    assert (F' : Forall2 parg_rel (map prefixed vs) xargs).
    { unfold xargs. clear -F. induction F as [|[k v] [k' a] vs args [E R] _ IH]; [constructor|].
      cbn [fst snd] in E, R. subst k'. cbn [map]. constructor; [|exact IH].
      exists k. unfold prefixed. cbn [fst snd]. split; [reflexivity|]. destruct a as [its|l]; cbn [xarg_of].
      - left. exists (map ato_x its). auto.
      - right. exists l. auto. }
    destruct (forall2_perm parg_rel _ _ _ (Permutation_sym (sorted2_perm vs Hndv)) F') as (sargs & Ps & Fs).
    rewrite map_app. cbn [map to_x]. fold xargs.
    apply (XRep_ref vb va (map to_x pre) _ _ (sorted2 vs) sargs xargs (map to_x rest));
      [apply IHb; assumption | apply IHa; assumption | apply argsrep_of; exact Fs | apply Permutation_sym; exact Ps | exact Hndx].
  - intros _ _. constructor.
  - intros k v its vs args _ IHv _ IHr W P. cbn [forallb] in W, P.
    apply andb_true_iff in W as [Wx Wr]. apply andb_true_iff in P as [Px Pr]. cbn [snd rarg_plain] in Px.
    destruct (arg_wf_parts idc _ Wx) as (_ & Wv). cbn [snd rarg_wfb] in Wv. apply andb_true_iff in Wv as [Wi _].
    constructor; [|apply IHr; assumption]. split; [reflexivity|]. cbn [fst snd].
    rewrite <- (map_ext _ _ to_x_a2r), <- map_map. apply IHv.
    + apply aitems_wfb_a2r. exact Wi.
    + rewrite forallb_forall in Px |- *. intros i Hi. apply in_map_iff in Hi as (a & <- & Ha). rewrite plain_a2r. apply Px. exact Ha.
  - intros k l vs args _ IHr W P. cbn [forallb] in W, P.
    apply andb_true_iff in W as [Wx Wr]. apply andb_true_iff in P as [Px Pr].
    constructor; [|apply IHr; assumption]. split; reflexivity.
Qed.
End RepX.

(** * projects whose values are the parses of their printed sources *)
Section Sound.
Variable idc : str -> idres.
Variable json_args : str -> res (list (str * jarg)).
Variable vals : values.
Variable dflt : str.
Variable inherits : list (str * str).
(** the sources written in the project: [Some None] = null, [None] = absent or a group *)
Variable src_of : str -> keypath -> option (option (list ritem)).

Definition xsrc (L : str) (p : keypath) : option (option (list xitem)) :=
  match src_of L p with
  | Some (Some its) => Some (Some (map to_x its))
  | Some None => Some None
  | None => None
  end.

Definition proj_rel : Prop := forall L p,
  match src_of L p with
  | Some (Some items) =>
      ritems_wfb idc items = true /\ forallb plain items = true /\
      exists v, parse_top idc json_args true (rprint_list items) = Ok v /\ get_value_at vals L p = Some (NVal v)
  | Some None => get_value_at vals L p = Some NDefault
  | None => get_value_at vals L p = None \/ exists sub, get_value_at vals L p = Some (NSub sub)
  end.
(** the JSON oracle only matters when some reference of the project carries arguments *)
Definition json_or_noargs : Prop :=
  (forall L p items, src_of L p = Some (Some items) -> has_refa_list items = false) \/ json_ok idc json_args.

Hypothesis HP : proj_rel.
Hypothesis HJ : json_or_noargs.

Lemma proj_xproj : xproj_rel vals xsrc.
Proof.
  intros L p. pose proof (HP L p) as Hp. unfold xsrc. destruct (src_of L p) as [[items|]|] eqn:Es; [|exact Hp|exact Hp].
  destruct Hp as (W & Pl & v & Ev & Eg). exists v. split; [exact Eg|].
  assert (Hj : has_refa_list items = false \/ json_ok idc json_args).
  { destruct HJ as [H|H]; [left; eapply H; exact Es | right; exact H]. }
  destruct (roundtrip_ref_top idc json_args items Hj W) as (v' & Ev' & R). rewrite Ev in Ev'. inversion Ev'; subst.
  apply (Rep_XRep idc); assumption.
Qed.

(** (iv) inline on the parse of a printed source = xdenote on the source *)
Theorem inline_xdenote f L v items d :
  Rep v items -> ritems_wfb idc items = true -> forallb plain items = true -> inline vals dflt inherits f L v = Some d ->
  exists d', xdenote xsrc dflt inherits f L (map to_x items) = Some d' /\ pc_norm d' = pc_norm d.
Proof.
  intros R W P H. eapply inline_xdenote_args; [exact proj_xproj | apply (Rep_XRep idc); eassumption | exact H].
Qed.

(** end to end: the final value of a key denotes the source-level inlining semantics of its source *)
Theorem final_value_xdenote ns L path items v r' :
  src_of L (ns, path) = Some (Some items) -> get_value_at vals L (ns, path) = Some (NVal v) ->
  final_value vals dflt inherits ns L path (NVal v) = Ok (Some r') ->
  (exists d, xdenote xsrc dflt inherits 200 L (map to_x items) = Some d /\ pieces r' = pc_norm d) /\
  (forall fuel d, xdenote xsrc dflt inherits fuel L (map to_x items) = Some d -> pieces r' = pc_norm d).
Proof.
  intros Es Eg Hf. eapply (final_value_xdenote_args vals dflt inherits xsrc proj_xproj); [|exact Eg | exact Hf].
  unfold xsrc. rewrite Es. reflexivity.
Qed.
End Sound.
