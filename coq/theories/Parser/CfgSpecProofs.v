(** Bridge theorem of property C19: the model of Parser/Cfg.v satisfies the executable
    specification [spec_C19] of Parser/CfgCheck.v on every case of the modelled domain. *)
From Coq Require Import List NArith Bool Arith Lia Permutation.
Import ListNotations.
From LI Require Import Base.StrOps Parser.Cfg Parser.CfgCheck Parser.CfgProofs.
Open Scope N_scope.

(** * [str_ltb] is a strict total order compatible with [str_eqb] *)
Lemma str_ltb_irrefl : forall a, str_ltb a a = false.
Proof.
  induction a as [|x xs IH]; cbn [str_ltb]; [reflexivity|].
  rewrite N.ltb_irrefl, N.eqb_refl. exact IH.
Qed.

Lemma str_ltb_trans : forall a b c, str_ltb a b = true -> str_ltb b c = true -> str_ltb a c = true.
Proof.
  induction a as [|x xs IH]; intros [|y ys] [|z zs]; cbn [str_ltb]; intros H1 H2;
    try discriminate; try reflexivity.
  revert H1 H2.
  destruct (N.ltb_spec x y) as [Hxy|Hxy]; destruct (N.eqb_spec x y) as [Exy|Exy];
  destruct (N.ltb_spec y z) as [Hyz|Hyz]; destruct (N.eqb_spec y z) as [Eyz|Eyz];
  destruct (N.ltb_spec x z) as [Hxz|Hxz]; destruct (N.eqb_spec x z) as [Exz|Exz];
  intros H1 H2; try discriminate; try reflexivity; try lia.
  eapply IH; eauto.
Qed.

Lemma str_ltb_tricho : forall a b, str_ltb a b = false -> str_eqb a b = false -> str_ltb b a = true.
Proof.
  induction a as [|x xs IH]; intros [|y ys]; cbn [str_ltb str_eqb]; intros H1 H2;
    try discriminate; try reflexivity.
  revert H1 H2.
  destruct (N.ltb_spec x y) as [Hxy|Hxy]; destruct (N.eqb_spec x y) as [Exy|Exy];
  destruct (N.ltb_spec y x) as [Hyx|Hyx]; destruct (N.eqb_spec y x) as [Eyx|Eyx];
  cbn [andb]; intros H1 H2; try discriminate; try reflexivity; try lia.
  now apply IH.
Qed.

(** strictly ascending lists (BTreeSet iteration order) *)
Fixpoint asc (l : list str) : Prop :=
  match l with
  | [] => True
  | x :: r => (forall y, In y r -> str_ltb x y = true) /\ asc r
  end.

Lemma asc_NoDup : forall s, asc s -> NoDup s.
Proof.
  induction s as [|x r IH]; intros Ha; [constructor|]. destruct Ha as [Hx Hr].
  constructor; [|now apply IH].
  intros Hin. apply Hx in Hin. rewrite str_ltb_irrefl in Hin. discriminate.
Qed.

Lemma sset_insert_In : forall x s y, In y (sset_insert x s) <-> y = x \/ In y s.
Proof.
  intros x. induction s as [|z r IH]; intros y; cbn [sset_insert].
  - cbn [In]. intuition congruence.
  - destruct (str_ltb x z).
    + cbn [In]. intuition congruence.
    + destruct (str_eqb x z) eqn:He.
      * apply str_eqb_eq in He. subst z. cbn [In]. intuition congruence.
      * cbn [In]. rewrite IH. intuition congruence.
Qed.

Lemma sset_insert_asc : forall x s, asc s -> asc (sset_insert x s).
Proof.
  intros x. induction s as [|z r IH]; intros Ha; cbn [sset_insert].
  - cbn [asc]. split; [intros y [] | exact I].
  - destruct Ha as [Hz Hr]. destruct (str_ltb x z) eqn:Hlt.
    + cbn [asc]. split; [|split; assumption].
      intros y [<-|Hy]; [assumption|]. eapply str_ltb_trans; eauto.
    + destruct (str_eqb x z) eqn:He.
      * cbn [asc]. split; assumption.
      * cbn [asc]. split; [|now apply IH]. intros y Hy. apply sset_insert_In in Hy.
        destruct Hy as [->|Hy]; [now apply str_ltb_tricho | now apply Hz].
Qed.

Lemma sset_insert_length : forall x s, ~ In x s -> length (sset_insert x s) = S (length s).
Proof.
  intros x. induction s as [|y r IH]; intros Hn; cbn [sset_insert]; [reflexivity|].
  destruct (str_ltb x y); [reflexivity|]. destruct (str_eqb x y) eqn:He.
  - apply str_eqb_eq in He. subst y. exfalso. apply Hn. now left.
  - cbn [length]. f_equal. apply IH. intros H. apply Hn. now right.
Qed.

(** * occurrence counts *)
Lemma count_s_cons : forall x k r,
  count_s x (k :: r) = if str_eqb x k then S (count_s x r) else count_s x r.
Proof. intros x k r. unfold count_s. cbn [filter]. destruct (str_eqb x k); reflexivity. Qed.

Lemma count_s_pos : forall x l, (1 <= count_s x l)%nat <-> In x l.
Proof.
  intros x. induction l as [|k r IH].
  - unfold count_s. cbn [filter length In]. split; [lia | intros []].
  - rewrite count_s_cons. destruct (str_eqb x k) eqn:He.
    + apply str_eqb_eq in He. subst k. split; [intros _; now left | intros _; lia].
    + split.
      * intros H. right. now apply IH.
      * intros [Hk|Hk]; [subst k; rewrite str_eqb_refl in He; discriminate | now apply IH].
Qed.

Lemma count_s_zero : forall x l, ~ In x l -> count_s x l = 0%nat.
Proof. intros x l H. pose proof (count_s_pos x l) as Hp. destruct (count_s x l); [reflexivity|]. exfalso. apply H, Hp. lia. Qed.

Lemma count_s_perm : forall x l l', Permutation l l' -> count_s x l = count_s x l'.
Proof.
  intros x l l' H. induction H as [|a l l' H IH|a b l|l l' l'' H1 IH1 H2 IH2].
  - reflexivity.
  - rewrite !count_s_cons, IH. reflexivity.
  - rewrite !count_s_cons. destruct (str_eqb x a), (str_eqb x b); reflexivity.
  - congruence.
Qed.

Lemma NoDup_count_le1 : forall x l, NoDup l -> (count_s x l <= 1)%nat.
Proof.
  intros x. induction l as [|k r IH]; intros Hnd.
  - unfold count_s. cbn [filter length]. lia.
  - inversion Hnd as [|? ? Hk Hnd']; subst. rewrite count_s_cons. destruct (str_eqb x k) eqn:He.
    + apply str_eqb_eq in He. subst k. rewrite (count_s_zero _ _ Hk). lia.
    + now apply IH.
Qed.

(** * contain_duplicates: the set of the keys occurring at least twice *)
Lemma dups_asc : forall l marked acc, asc acc -> asc (dups marked l acc).
Proof.
  induction l as [|k r IH]; intros marked acc Ha; cbn [dups]; [assumption|].
  destruct (smem k marked); apply IH; [now apply sset_insert_asc | assumption].
Qed.

Lemma dups_In : forall l marked acc x,
  In x (dups marked l acc) <-> In x acc \/ (In x l /\ (In x marked \/ (2 <= count_s x l)%nat)).
Proof.
  induction l as [|k r IH]; intros marked acc x; cbn [dups].
  - cbn [In]. tauto.
  - rewrite count_s_cons. destruct (smem k marked) eqn:Hm.
    + apply smem_In in Hm. rewrite IH, sset_insert_In. cbn [In].
      destruct (str_eqb x k) eqn:He.
      * apply str_eqb_eq in He. subst k. split.
        -- intros _. right. split; [now left | now left].
        -- intros _. left. now left.
      * assert (Hne : k <> x) by (intros ->; rewrite str_eqb_refl in He; discriminate).
        assert (Hne' : x <> k) by congruence. tauto.
    + apply smem_false in Hm. rewrite IH. cbn [In].
      destruct (str_eqb x k) eqn:He.
      * apply str_eqb_eq in He. subst k. pose proof (count_s_pos x r) as Hp. split.
        -- intros [H|[H1 H2]]; [now left|]. right. split; [now left|]. right. apply Hp in H1. lia.
        -- intros [H|[_ [H|H]]]; [now left | contradiction |]. right.
           assert (Hin : In x r) by (apply Hp; lia). split; [assumption|]. left. now left.
      * assert (Hne : k <> x) by (intros ->; rewrite str_eqb_refl in He; discriminate). tauto.
Qed.

Lemma dups_top_In : forall l x, In x (dups [] l []) <-> (2 <= count_s x l)%nat.
Proof.
  intros l x. rewrite dups_In. cbn [In]. pose proof (count_s_pos x l) as Hp. split.
  - intros [[]|[_ [[]|H]]]. exact H.
  - intros H. right. split; [apply Hp; lia | now right].
Qed.

Lemma duplicated_In : forall l x, In x (duplicated l) <-> (2 <= count_s x l)%nat.
Proof.
  intros l x. unfold duplicated. rewrite filter_In, Nat.ltb_lt. pose proof (count_s_pos x l) as Hp. split.
  - intros [_ H]. lia.
  - intros H. split; [apply Hp; lia | lia].
Qed.

Lemma same_set_intro : forall a b, (forall x, In x a <-> In x b) -> same_set a b = true.
Proof.
  intros a b H. unfold same_set. apply andb_true_iff.
  split; apply forallb_forall; intros x Hx; apply smem_In; apply H; exact Hx.
Qed.

(** the error set of [contain_duplicates L] against the duplicates of a list [l] with the same
    multiplicities >= 2 *)
Lemma dup_genuine_gen : forall L l s,
  (forall x, (2 <= count_s x L)%nat <-> (2 <= count_s x l)%nat) ->
  contain_duplicates L = Some s ->
  negb (nodup_s l) && same_set s (duplicated l) && nodup_s s = true.
Proof.
  intros L l s Hcnt Hc. unfold contain_duplicates in Hc.
  destruct (dups [] L []) as [|s0 sr] eqn:Hd; [discriminate|]. injection Hc as <-. rewrite <- Hd.
  assert (Hin : forall x, In x (dups [] L []) <-> In x (duplicated l)).
  { intros x. rewrite dups_top_In, duplicated_In. apply Hcnt. }
  apply andb_true_iff. split; [apply andb_true_iff; split|].
  - apply negb_true_iff. destruct (nodup_s l) eqn:Hb; [|reflexivity]. exfalso.
    apply nodup_s_NoDup in Hb.
    assert (H0 : In s0 (dups [] L [])) by (rewrite Hd; now left).
    apply dups_top_In, Hcnt in H0. pose proof (NoDup_count_le1 s0 l Hb). lia.
  - now apply same_set_intro.
  - apply nodup_s_NoDup, asc_NoDup, dups_asc. exact I.
Qed.

Lemma default_first_count2 : forall d ls x,
  (2 <= count_s x (default_first d ls))%nat <-> (2 <= count_s x ls)%nat.
Proof.
  intros d ls x. rewrite (count_s_perm x _ _ (default_first_perm d ls)).
  destruct (smem d ls) eqn:Hm; [tauto|]. apply smem_false in Hm.
  rewrite count_s_cons. destruct (str_eqb x d) eqn:He; [|tauto].
  apply str_eqb_eq in He. subst x. rewrite (count_s_zero _ _ Hm). lia.
Qed.

(** * the `inherits` map (BTreeMap built by successive inserts) *)
Lemma smap_insert_keys : forall k v m, map fst (smap_insert k v m) = sset_insert k (map fst m).
Proof.
  intros k v. induction m as [|[k' v'] r IH]; cbn [smap_insert sset_insert map fst]; [reflexivity|].
  destruct (str_ltb k k'); [reflexivity|]. destruct (str_eqb k k') eqn:He.
  - apply str_eqb_eq in He. subst k'. reflexivity.
  - cbn [map fst]. now rewrite IH.
Qed.

Lemma ins_all_cons : forall k v r m0, ins_all ((k, v) :: r) m0 = ins_all r (smap_insert k v m0).
Proof. reflexivity. Qed.

Lemma ins_all_asc : forall l m0, asc (map fst m0) -> asc (map fst (ins_all l m0)).
Proof.
  induction l as [|[k v] r IH]; intros m0 Ha; [exact Ha|].
  rewrite ins_all_cons. apply IH. rewrite smap_insert_keys. now apply sset_insert_asc.
Qed.

Lemma ins_all_length : forall l m0,
  NoDup (map fst l) -> (forall k, In k (map fst l) -> ~ In k (map fst m0)) ->
  length (ins_all l m0) = (length l + length m0)%nat.
Proof.
  induction l as [|[k v] r IH]; intros m0 Hnd Hdis; [reflexivity|].
  rewrite ins_all_cons. cbn [map fst] in Hnd, Hdis. inversion Hnd as [|? ? Hk Hnd']; subst.
  rewrite IH.
  - rewrite <- (map_length fst (smap_insert k v m0)), smap_insert_keys, sset_insert_length, map_length.
    + cbn [length]. lia.
    + apply Hdis. now left.
  - assumption.
  - intros k' Hk' Hin. rewrite smap_insert_keys in Hin. apply sset_insert_In in Hin.
    destruct Hin as [->|Hin]; [contradiction|]. apply (Hdis k'); [now right | assumption].
Qed.

Lemma asc_sorted_keys : forall m, asc (map fst m) -> sorted_keys m = true.
Proof.
  induction m as [|[k v] r IH]; intros Ha; [reflexivity|].
  destruct r as [|[k' v'] r']; [reflexivity|].
  change (sorted_keys ((k, v) :: (k', v') :: r')) with (str_ltb k k' && sorted_keys ((k', v') :: r')).
  cbn [map fst asc] in Ha. destruct Ha as [Hk Hr]. apply andb_true_iff. split.
  - apply Hk. now left.
  - apply IH. exact Hr.
Qed.

Lemma smap_get_some : forall m d v, smap_get m d = Some v -> In (d, v) m.
Proof.
  induction m as [|[k w] r IH]; intros d v H; cbn [smap_get] in H; [discriminate|].
  destruct (str_eqb d k) eqn:He.
  - apply str_eqb_eq in He. subst k. injection H as ->. now left.
  - right. now apply IH.
Qed.

Lemma check_inherits_some : forall known ext e,
  check_inherits known ext = Some e ->
  exists x kv, e = EUnknownLocale x /\ In kv ext /\ (x = fst kv \/ x = snd kv) /\ known x = false.
Proof.
  intros known. induction ext as [|[k v] r IH]; intros e H; cbn [check_inherits] in H; [discriminate|].
  destruct (known k) eqn:Hk; cbn [negb] in H.
  - destruct (known v) eqn:Hv; cbn [negb] in H.
    + destruct (IH _ H) as [x [kv [He [Hin Hr]]]]. exists x, kv.
      split; [assumption|]. split; [now right | assumption].
    + injection H as <-. exists v, (k, v). split; [reflexivity|]. split; [now left|].
      split; [now right | assumption].
  - injection H as <-. exists k, (k, v). split; [reflexivity|]. split; [now left|].
    split; [now left | assumption].
Qed.

Lemma visit_map_ext : forall known r c,
  visit_map_with known r = COk c -> cf_extensions c = ins_all (inherits_of r) [].
Proof.
  intros known r c H. unfold visit_map_with in H.
  destruct (r_default r) as [d0|]; [|discriminate]. destruct (r_locales r) as [ls0|]; [|discriminate].
  rewrite fold_key_new in H. fold (inherits_of r) in H.
  match type of H with context [check_inherits ?k ?e] => destruct (check_inherits k e); [discriminate|] end.
  match type of H with context [smap_get ?e ?d] => destruct (smap_get e d); [discriminate|] end.
  injection H as <-. reflexivity.
Qed.

(** * boolean equalities *)
Lemma list_str_eqb_refl : forall l, list_str_eqb l l = true.
Proof. induction l as [|x r IH]; cbn [list_str_eqb]; [reflexivity|]. now rewrite str_eqb_refl, IH. Qed.
Lemma pair_eqb_refl : forall kv, pair_eqb kv kv = true.
Proof. intros kv. unfold pair_eqb. now rewrite !str_eqb_refl. Qed.

Lemma same_multiset_perm : forall a b, Permutation a b -> same_multiset a b = true.
Proof.
  intros a b H. unfold same_multiset. apply andb_true_iff. split.
  - apply Nat.eqb_eq. now apply Permutation_length.
  - apply forallb_forall. intros x _. apply Nat.eqb_eq. now apply count_s_perm.
Qed.

(** * success: the accepted configuration is the normal form of the raw table *)
Lemma normal_form_holds : forall r cfg,
  nodup_s (map fst (inherits_of r)) = true -> config_new r = COk cfg -> normal_form r cfg = true.
Proof.
  intros r cfg Hkeys H. apply nodup_s_NoDup in Hkeys. unfold config_new in H.
  destruct (config_new_normal_form _ _ _ H)
    as [c0 [Hvm [Hd [Hhd [Hnd [Hperm [Hns [Hns' [Hdir [Huri Hext]]]]]]]]]].
  unfold visit_map in Hvm. pose proof (visit_map_ext _ _ _ Hvm) as Hext0.
  destruct (visit_map_fields _ _ _ Hvm) as [d0 [ls0 [Hrd [Hrl [Hcd [Hcl [Hcn [Hcdir Hcuri]]]]]]]].
  unfold normal_form. rewrite Hrd, Hrl. rewrite Hcd, Hcl in Hperm. rewrite Hcd in Hd.
  rewrite Hext, Hext0.
  assert (Hin : forall kv, In kv (ins_all (inherits_of r) []) -> In kv (inherits_of r)).
  { intros kv Hkv. destruct (ins_all_In_1 _ _ _ Hkv) as [Hkv'|[]]. exact Hkv'. }
  rewrite (same_multiset_perm _ _ Hperm).
  repeat (apply andb_true_iff; split).
  - apply str_eqb_eq. exact Hd.
  - destruct (cf_locales cfg) as [|x xs]; cbn [hd_error] in Hhd; [discriminate|].
    injection Hhd as ->. apply str_eqb_eq. exact Hd.
  - now apply nodup_s_NoDup.
  - reflexivity.
  - rewrite Hns', Hcn. destruct (r_namespaces r) as [n|]; cbn [option_map];
      [apply list_str_eqb_refl | reflexivity].
  - rewrite Hdir, Hcdir. apply str_eqb_refl.
  - rewrite Huri, Hcuri. destruct (r_translations_uri r) as [u|]; cbn [opt_str_eqb];
      [apply str_eqb_refl | reflexivity].
  - apply asc_sorted_keys, ins_all_asc. exact I.
  - apply Nat.eqb_eq. rewrite ins_all_length; [cbn [length]; lia | assumption | intros k _ []].
  - apply forallb_forall. intros kv Hkv. apply existsb_exists. exists kv.
    split; [now apply Hin | apply pair_eqb_refl].
Qed.

(** * files *)
Lemma find_file_find : forall existing cands,
  find_file existing cands = find (fun p => smem p existing) cands.
Proof.
  intros existing. induction cands as [|p r IH]; cbn [find_file find]; [reflexivity|].
  destruct (smem p existing); [reflexivity | exact IH].
Qed.

Lemma paths_ok_holds : forall fmt existing stems tracked,
  read_files fmt existing stems = COk tracked -> paths_ok fmt existing stems tracked = true.
Proof.
  intros fmt existing. induction stems as [|s r IH]; intros tracked H; cbn [read_files] in H.
  - injection H as <-. reflexivity.
  - destruct (find_file existing (map (with_ext s) (file_exts fmt))) as [p|] eqn:Hf; [|discriminate].
    destruct (read_files fmt existing r) as [t|e] eqn:Hr; [|discriminate]. injection H as <-.
    cbn [paths_ok]. unfold first_existing. rewrite <- find_file_find, Hf, str_eqb_refl.
    cbn [andb]. now apply IH.
Qed.

Lemma read_files_err_kind : forall fmt existing stems e,
  read_files fmt existing stems = CErr e -> exists tried, e = ENotFound tried.
Proof.
  intros fmt existing. induction stems as [|s r IH]; intros e H; cbn [read_files] in H; [discriminate|].
  destruct (find_file existing (map (with_ext s) (file_exts fmt))) as [p|] eqn:Hf.
  - remember (read_files fmt existing r) as rr eqn:Hr. destruct rr as [t|e']; [discriminate|].
    injection H as ->. apply IH. now symmetry.
  - injection H as <-. eauto.
Qed.

Lemma not_found_genuine_holds : forall c cfg tried,
  config_new (k_raw c) = COk cfg ->
  read_files (k_fmt c) (k_existing c) (file_stems (k_dir c) cfg) = CErr (ENotFound tried) ->
  not_found_genuine c tried = true.
Proof.
  intros c cfg tried Hcn Hrf.
  destruct (read_files_not_found _ _ _ _ Hrf) as [s [Hs [Htried Hnone]]].
  unfold config_new in Hcn.
  destruct (config_new_normal_form _ _ _ Hcn)
    as [c0 [Hvm [Hd [Hhd [Hnd [Hperm [Hns [Hns' [Hdir [Huri Hext]]]]]]]]]].
  unfold visit_map in Hvm.
  destruct (visit_map_fields _ _ _ Hvm) as [d0 [ls0 [Hrd [Hrl [Hcd [Hcl [Hcns [Hcdir Hcuri]]]]]]]].
  rewrite Hcd, Hcl in Hperm.
  assert (Hloc : forall l, In l (cf_locales cfg) -> In l (key_new d0 :: map key_new ls0)).
  { intros l Hl. apply (Permutation_in _ Hperm) in Hl.
    destruct (smem (key_new d0) (map key_new ls0)); [now right | exact Hl]. }
  unfold not_found_genuine. rewrite Hrd, Hrl. apply existsb_exists. exists s. split.
  - unfold file_stems in Hs. rewrite Hdir, Hcdir, Hns', Hcns in Hs.
    destruct (r_namespaces (k_raw c)) as [nss|]; cbn [option_map] in Hs.
    + apply in_flat_map in Hs. destruct Hs as [ns [Hns1 Hs]].
      apply in_map_iff in Hns1. destruct Hns1 as [ns0 [<- Hns0]].
      apply in_map_iff in Hs. destruct Hs as [l [<- Hl]].
      apply in_flat_map. exists ns0. split; [assumption|]. apply in_map_iff. exists l.
      split; [reflexivity | now apply Hloc].
    + apply in_map_iff in Hs. destruct Hs as [l [<- Hl]]. apply in_map_iff. exists l.
      split; [reflexivity | now apply Hloc].
  - apply andb_true_iff. split.
    + rewrite Htried. apply list_str_eqb_refl.
    + apply negb_true_iff. apply existsb_false_forall. intros p Hp. apply smem_false. now apply Hnone.
Qed.

(** * rejection: every error of ConfigFile::new names a genuine problem of the raw table *)
Lemma config_new_err_genuine : forall r e, config_new r = CErr e -> error_genuine r e = true.
Proof.
  intros r e H. unfold config_new, config_new_with, visit_map, visit_map_with in H.
  destruct (r_default r) as [d0|] eqn:Hrd.
  2:{ injection H as <-. unfold error_genuine. rewrite Hrd. reflexivity. }
  destruct (r_locales r) as [ls0|] eqn:Hrl.
  2:{ injection H as <-. unfold error_genuine. rewrite Hrl. reflexivity. }
  rewrite fold_key_new in H. fold (inherits_of r) in H.
  assert (Hin : forall kv, In kv (ins_all (inherits_of r) []) -> In kv (inherits_of r)).
  { intros kv Hkv. destruct (ins_all_In_1 _ _ _ Hkv) as [Hkv'|[]]. exact Hkv'. }
  match type of H with context [check_inherits ?k ?e] =>
    destruct (check_inherits k e) as [e'|] eqn:Hci end.
  { injection H as <-. destruct (check_inherits_some _ _ _ Hci) as [x [kv [-> [Hkv [Hx Hk]]]]].
    unfold error_genuine. rewrite Hrd, Hrl. apply andb_true_iff. split.
    - apply negb_true_iff. exact Hk.
    - apply existsb_exists. exists kv. split; [now apply Hin|].
      destruct Hx as [->| ->]; rewrite str_eqb_refl; [reflexivity | apply orb_true_r]. }
  match type of H with context [smap_get ?m ?d] => destruct (smap_get m d) as [v|] eqn:Hsg end.
  { injection H as <-. apply smap_get_some in Hsg. unfold error_genuine. rewrite Hrd.
    apply existsb_exists. exists (key_new d0, v). split; [now apply Hin | apply str_eqb_refl]. }
  cbn [cf_default cf_locales cf_namespaces cf_locales_dir cf_translations_uri cf_extensions] in H.
  destruct (contain_duplicates (default_first (key_new d0) (map key_new ls0))) as [dd|] eqn:Hc.
  { injection H as <-. unfold error_genuine. rewrite Hrl.
    eapply dup_genuine_gen; [|exact Hc]. intros x. apply default_first_count2. }
  destruct (r_namespaces r) as [n0|] eqn:Hrn; cbn [option_map] in H; [|discriminate].
  destruct (contain_duplicates (map key_new n0)) as [dd|] eqn:Hcn; [|discriminate].
  injection H as <-. unfold error_genuine. rewrite Hrn.
  eapply dup_genuine_gen; [|exact Hcn]. intros x. tauto.
Qed.

(** * the bridge theorem *)
Theorem spec_C19_holds : forall c,
  in_domain c = true -> k_malformed c = false -> spec_C19 c (model_impl c) = true.
Proof.
  intros c Hdom Hmal.
  assert (Hkeys : nodup_s (map fst (inherits_of (k_raw c))) = true).
  { unfold in_domain in Hdom. cbv zeta in Hdom.
    apply andb_true_iff in Hdom. destruct Hdom as [Hdom _].
    apply andb_true_iff in Hdom. destruct Hdom as [_ Hk]. exact Hk. }
  pose proof (config_new_reject_iff _ Hkeys) as Hrej.
  unfold spec_C19. rewrite Hmal. unfold model_impl, load, load_with.
  change (config_new_with visit_map (k_raw c)) with (config_new (k_raw c)).
  remember (config_new (k_raw c)) as cn eqn:Hcn. symmetry in Hcn. destruct cn as [cfg|e].
  - assert (Hsr : should_reject (k_raw c) = false).
    { apply not_true_is_false. intros Hs. apply Hrej in Hs. destruct Hs as [e0 He]. congruence. }
    remember (read_files (k_fmt c) (k_existing c) (file_stems (k_dir c) cfg)) as rf eqn:Hrf.
    symmetry in Hrf. destruct rf as [t|e].
    + rewrite Hsr, (normal_form_holds _ _ Hkeys Hcn). cbn [negb andb].
      change (expected_stems (k_dir c) cfg) with (file_stems (k_dir c) cfg).
      now apply paths_ok_holds.
    + destruct (read_files_err_kind _ _ _ _ Hrf) as [tried ->].
      rewrite Hsr. cbn [negb andb]. eapply not_found_genuine_holds; eauto.
  - pose proof (config_new_err_genuine _ _ Hcn) as Hg.
    assert (Hsr : should_reject (k_raw c) = true) by (apply Hrej; eauto).
    destruct e as [w|x| |s|s|tried]; try (rewrite Hsr, Hg; reflexivity).
    unfold error_genuine in Hg. cbv beta iota zeta in Hg. discriminate.
Qed.
