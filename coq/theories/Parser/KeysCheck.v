(** Executable correspondence predicate for C08 (one key of one project per case). *)
From Coq Require Import List NArith Bool.
Import ListNotations.
From LI Require Import Parser.Keys.
Open Scope N_scope.

Record case := mk_case {
  c_default : pv;                 (* value of the key in the default locale (after foreign-key substitution and reduce) *)
  c_others : list pv;             (* the other locales, in configuration order; PDefault = key absent / null *)
  c_impl : option kres }.         (* InterpolOrLit of the key from the real parse_locales; None = not observable *)

Definition subset (a b : list N) : bool := forallb (fun x => memN x b) a.
Definition same_set (a b : list N) : bool := subset a b && subset b a.
Definition opt_rop_eqb (a b : option rop) : bool :=
  match a, b with None, None => true | Some x, Some y => rop_eqb x y | _, _ => false end.
Definition vars_equiv (a b : list (key * varinfo)) : bool :=
  same_set (map fst a) (map fst b) &&
  forallb (fun kv => match vget (fst kv) b with
                     | Some vi => same_set (vi_fmts (snd kv)) (vi_fmts vi) && opt_rop_eqb (vi_count (snd kv)) (vi_count vi)
                     | None => false end) a.
Definition kres_equiv (a b : kres) : bool :=
  match a, b with
  | KOk (ILit x), KOk (ILit y) => littype_eqb x y
  | KOk (IInterpol x), KOk (IInterpol y) => same_set (ik_comps x) (ik_comps y) && vars_equiv (ik_vars x) (ik_vars y)
  | KErr EMix, KErr EMix => true
  | KErr (EMismatch a1 a2), KErr (EMismatch b1 b2) => (a1 =? b1) && (a2 =? b2)
  | KErr ESubkeys, KErr ESubkeys => true
  | _, _ => false
  end.

(** 0 agree + spec; 1 outside the domain (default locale value is null / sub-keys); 2 differs from the model; 3 spec false *)
Definition check (c : case) : N :=
  match c_default c with
  | PDefault | PSubkeys => 1
  | _ =>
      match c_impl c with
      | None => 0
      | Some impl =>
          if negb (spec_C08 (c_default c :: c_others c) impl) then 3
          else if negb (kres_equiv impl (key_signature (c_default c) (c_others c))) then 2 else 0
      end
  end.

(** final value of one key in one locale after the whole pipeline: the count keys (and kinds) of its Ranges / Plurals
    nodes against those of the resolved source description. 0 same set; 3 different *)
Definition rop_pair_eqb (a b : key * rop) : bool := (fst a =? fst b) && rop_eqb (snd a) (snd b).
Definition check_counts (c : pv * list (key * rop)) : N :=
  let '(v, impl) := c in
  let m := count_keys v in
  if forallb (fun x => existsb (rop_pair_eqb x) impl) m && forallb (fun x => existsb (rop_pair_eqb x) m) impl then 0 else 3.
