(** Proofs about Parser/Strings.v: the indexer invariant over any value tree, the nested counts,
    and the executable specification of C11 on the model. *)
From Coq Require Import List NArith Bool Arith Lia.
Import ListNotations.
From LI Require Import Base.StrOps Runtime.Escape Runtime.EscapeProofs Parser.Strings.
Open Scope N_scope.

Scheme pv_mut := Induction for pv Sort Prop
  with pvs_mut := Induction for pvs Sort Prop.
Combined Scheme pv_pvs_ind from pv_mut, pvs_mut.
Scheme entry_mut := Induction for entry Sort Prop
  with group_mut := Induction for group Sort Prop.
Combined Scheme entry_group_ind from entry_mut, group_mut.
Scheme bkeys_mut := Induction for bkeys Sort Prop
  with bval_mut := Induction for bval Sort Prop.
Combined Scheme bkeys_bval_ind from bkeys_mut, bval_mut.

(** * The indexer *)
(** `current` is the inverse of `acc`, `acc` has no repetition *)
Definition ix_wf (ix : indexer) : Prop :=
  NoDup (ix_acc ix)
  /\ (forall s i, map_get s (ix_cur ix) = Some i -> nth_error (ix_acc ix) (N.to_nat i) = Some s)
  /\ (forall s, map_get s (ix_cur ix) = None -> ~ In s (ix_acc ix)).

Lemma ix_empty_wf : ix_wf ix_empty.
Proof.
  repeat split.
  - constructor.
  - intros s i H. discriminate H.
  - intros s _ [].
Qed.

Lemma NoDup_snoc : forall (A : Type) (l : list A) x, NoDup l -> ~ In x l -> NoDup (l ++ [x]).
Proof.
  intros A l x. induction l as [| y l IH]; intros Hnd Hnin.
  - constructor; [intros [] | constructor].
  - inversion Hnd as [| ? ? Hy Hl]; subst. cbn [app]. constructor.
    + intros Hin. apply in_app_or in Hin. destruct Hin as [Hin | [Hin | []]]; [apply Hy; exact Hin |].
      subst. apply Hnin. left. reflexivity.
    + apply IH; [exact Hl |]. intros Hin. apply Hnin. right. exact Hin.
Qed.

Lemma str_eqb_false : forall a b, str_eqb a b = false -> a <> b.
Proof. intros a b H E. apply str_eqb_eq in E. rewrite E in H. discriminate H. Qed.

(** stable index: the table only grows at the end, the returned index selects the text *)
Lemma push_str_spec : forall ix s i ix',
  ix_wf ix -> push_str ix s = (i, ix') ->
  ix_wf ix' /\ (exists e, ix_acc ix' = ix_acc ix ++ e) /\ nth_error (ix_acc ix') (N.to_nat i) = Some s.
Proof.
  intros ix s i ix' (Hnd & Hget & Hnone) H. unfold push_str in H.
  destruct (map_get s (ix_cur ix)) as [j |] eqn:E.
  - inversion H; subst. split; [repeat split; assumption |]. split; [exists []; rewrite app_nil_r; reflexivity |].
    apply Hget. exact E.
  - inversion H; subst. clear H. cbn [ix_acc ix_cur].
    assert (Hlast : nth_error (ix_acc ix ++ [s]) (N.to_nat (N.of_nat (length (ix_acc ix)))) = Some s).
    { rewrite Nat2N.id. rewrite nth_error_app2 by lia. rewrite Nat.sub_diag. reflexivity. }
    split; [| split; [exists [s]; reflexivity | exact Hlast]].
    repeat split; cbn [ix_acc ix_cur].
    + apply NoDup_snoc; [exact Hnd | apply Hnone; exact E].
    + intros s' j Hj. cbn [map_get] in Hj. destruct (str_eqb s' s) eqn:Es.
      * apply str_eqb_eq in Es. subst s'. inversion Hj; subst. exact Hlast.
      * specialize (Hget s' j Hj). rewrite nth_error_app1; [exact Hget |].
        apply nth_error_Some. rewrite Hget. discriminate.
    + intros s' Hs'. cbn [map_get] in Hs'. destruct (str_eqb s' s) eqn:Es; [discriminate Hs' |].
      intros Hin. apply in_app_or in Hin. destruct Hin as [Hin | [Hin | []]].
      * exact (Hnone s' Hs' Hin).
      * apply str_eqb_false in Es. apply Es. symmetry. exact Hin.
Qed.

(** de-duplication: pushing a text that is already in the table changes nothing *)
Lemma push_str_dedup : forall ix s, ix_wf ix -> In s (ix_acc ix) -> snd (push_str ix s) = ix.
Proof.
  intros ix s (Hnd & Hget & Hnone) Hin. unfold push_str.
  destruct (map_get s (ix_cur ix)) eqn:E; [reflexivity |]. exfalso. exact (Hnone s E Hin).
Qed.

(** * Literals of a tree select their text (Prop version, monotone in the table) *)
Fixpoint LI (t : list str) (v : pv) {struct v} : Prop :=
  match v with
  | PLit s i => nth_error t (N.to_nat i) = Some s
  | PRanges vs => LIs t vs
  | PComp inner => LI t inner
  | PPlurals fs o => LIs t fs /\ LI t o
  | PBloc vs => LIs t vs
  | PDefault | PForeign | PVar | PSubV | PLitOther _ => True
  end
with LIs (t : list str) (vs : pvs) {struct vs} : Prop :=
  match vs with
  | PNil => True
  | PCons v r => LI t v /\ LIs t r
  end.

Lemma nth_error_ext : forall (A : Type) (l e : list A) n x, nth_error l n = Some x -> nth_error (l ++ e) n = Some x.
Proof.
  intros A l e n x H. rewrite nth_error_app1; [exact H |]. apply nth_error_Some. rewrite H. discriminate.
Qed.

Lemma LI_mono : forall t e,
  (forall v, LI t v -> LI (t ++ e) v) /\ (forall vs, LIs t vs -> LIs (t ++ e) vs).
Proof.
  intros t e. apply pv_pvs_ind; cbn [LI LIs]; intros; try exact I; try tauto.
  apply nth_error_ext. assumption.
Qed.

Definition ext (ix ix' : indexer) : Prop := exists e, ix_acc ix' = ix_acc ix ++ e.
Lemma ext_refl : forall ix, ext ix ix.
Proof. intros ix. exists []. rewrite app_nil_r. reflexivity. Qed.
Lemma ext_trans : forall a b c, ext a b -> ext b c -> ext a c.
Proof. intros a b c [e1 H1] [e2 H2]. exists (e1 ++ e2). rewrite H2, H1, app_assoc. reflexivity. Qed.
Lemma LI_ext : forall a b v, ext a b -> LI (ix_acc a) v -> LI (ix_acc b) v.
Proof. intros a b v [e H] Hv. rewrite H. apply (proj1 (LI_mono _ e)). exact Hv. Qed.
Lemma LIs_ext : forall a b vs, ext a b -> LIs (ix_acc a) vs -> LIs (ix_acc b) vs.
Proof. intros a b vs [e H] Hv. rewrite H. apply (proj2 (LI_mono _ e)). exact Hv. Qed.

Lemma index_pv_inv :
  (forall v ix v' ix', ix_wf ix -> index_pv v ix = (v', ix') -> ix_wf ix' /\ ext ix ix' /\ LI (ix_acc ix') v')
  /\ (forall vs ix vs' ix', ix_wf ix -> index_pvs vs ix = (vs', ix') -> ix_wf ix' /\ ext ix ix' /\ LIs (ix_acc ix') vs').
Proof.
  apply pv_pvs_ind.
  - intros ix v' ix' Hwf H. cbn [index_pv] in H. inversion H; subst. split; [exact Hwf | split; [apply ext_refl | exact I]].
  - intros ix v' ix' Hwf H. cbn [index_pv] in H. inversion H; subst. split; [exact Hwf | split; [apply ext_refl | exact I]].
  - intros ix v' ix' Hwf H. cbn [index_pv] in H. inversion H; subst. split; [exact Hwf | split; [apply ext_refl | exact I]].
  - intros ix v' ix' Hwf H. cbn [index_pv] in H. inversion H; subst. split; [exact Hwf | split; [apply ext_refl | exact I]].
  - intros t ix v' ix' Hwf H. cbn [index_pv] in H. inversion H; subst. split; [exact Hwf | split; [apply ext_refl | exact I]].
  - intros s idx ix v' ix' Hwf H. cbn [index_pv] in H.
    destruct (push_str ix s) as [i ix1] eqn:E. inversion H; subst.
    destruct (push_str_spec _ _ _ _ Hwf E) as (W & X & L). split; [exact W | split; [exact X | exact L]].
  - intros vs IH ix v' ix' Hwf H. cbn [index_pv] in H.
    destruct (index_pvs vs ix) as [vs1 ix1] eqn:E. inversion H; subst.
    destruct (IH _ _ _ Hwf E) as (W & X & L). split; [exact W | split; [exact X | exact L]].
  - intros inner IH ix v' ix' Hwf H. cbn [index_pv] in H.
    destruct (index_pv inner ix) as [v1 ix1] eqn:E. inversion H; subst.
    destruct (IH _ _ _ Hwf E) as (W & X & L). split; [exact W | split; [exact X | exact L]].
  - intros fs IHf o IHo ix v' ix' Hwf H. cbn [index_pv] in H.
    destruct (index_pvs fs ix) as [fs1 ix1] eqn:E1.
    destruct (index_pv o ix1) as [o1 ix2] eqn:E2. inversion H; subst.
    destruct (IHf _ _ _ Hwf E1) as (W1 & X1 & L1).
    destruct (IHo _ _ _ W1 E2) as (W2 & X2 & L2).
    split; [exact W2 |]. split; [exact (ext_trans _ _ _ X1 X2) |].
    cbn [LI]. split; [apply (LIs_ext ix1); assumption | exact L2].
  - intros vs IH ix v' ix' Hwf H. cbn [index_pv] in H.
    destruct (index_pvs vs ix) as [vs1 ix1] eqn:E. inversion H; subst.
    destruct (IH _ _ _ Hwf E) as (W & X & L). split; [exact W | split; [exact X | exact L]].
  - intros ix vs' ix' Hwf H. cbn [index_pvs] in H. inversion H; subst. split; [exact Hwf | split; [apply ext_refl | exact I]].
  - intros v IHv r IHr ix vs' ix' Hwf H. cbn [index_pvs] in H.
    destruct (index_pv v ix) as [v1 ix1] eqn:E1.
    destruct (index_pvs r ix1) as [r1 ix2] eqn:E2. inversion H; subst.
    destruct (IHv _ _ _ Hwf E1) as (W1 & X1 & L1).
    destruct (IHr _ _ _ W1 E2) as (W2 & X2 & L2).
    split; [exact W2 |]. split; [exact (ext_trans _ _ _ X1 X2) |].
    cbn [LIs]. split; [apply (LI_ext ix1); assumption | exact L2].
Qed.

(** * Groups *)
Fixpoint LIg (t : list str) (g : group) {struct g} : Prop :=
  match g with
  | GNil => True
  | GCons _ e r => LIe t e /\ LIg t r
  end
with LIe (t : list str) (e : entry) {struct e} : Prop :=
  match e with
  | EVal v => LI t v
  | ESub _ _ g => LIg t g
  end.

Lemma LIg_mono : forall t e',
  (forall e, LIe t e -> LIe (t ++ e') e) /\ (forall g, LIg t g -> LIg (t ++ e') g).
Proof.
  intros t e'. apply entry_group_ind; cbn [LIe LIg]; intros; try exact I.
  - apply (proj1 (LI_mono t e')). assumption.
  - apply H. assumption.
  - destruct H1 as [A B]. split; [apply H; exact A | apply H0; exact B].
Qed.
Lemma LIe_ext : forall a b e, ext a b -> LIe (ix_acc a) e -> LIe (ix_acc b) e.
Proof. intros a b e [x H] He. rewrite H. apply (proj1 (LIg_mono _ x)). exact He. Qed.

Lemma index_group_inv :
  (forall e ix e' ix', ix_wf ix -> index_entry e ix = (e', ix') -> ix_wf ix' /\ ext ix ix' /\ LIe (ix_acc ix') e')
  /\ (forall g ix g' ix', ix_wf ix -> index_group g ix = (g', ix') -> ix_wf ix' /\ ext ix ix' /\ LIg (ix_acc ix') g').
Proof.
  apply entry_group_ind.
  - intros v ix e' ix' Hwf H. cbn [index_entry] in H.
    destruct (index_pv v ix) as [v1 ix1] eqn:E. inversion H; subst.
    destruct (proj1 index_pv_inv _ _ _ _ Hwf E) as (W & X & L). split; [exact W | split; [exact X | exact L]].
  - intros c n g IH ix e' ix' Hwf H. cbn [index_entry] in H.
    destruct (index_group g ix) as [g1 ix1] eqn:E. inversion H; subst.
    destruct (IH _ _ _ Hwf E) as (W & X & L). split; [exact W | split; [exact X | exact L]].
  - intros ix g' ix' Hwf H. cbn [index_group] in H. inversion H; subst. split; [exact Hwf | split; [apply ext_refl | exact I]].
  - intros k e IHe r IHr ix g' ix' Hwf H. cbn [index_group] in H.
    destruct (index_entry e ix) as [e1 ix1] eqn:E1.
    destruct (index_group r ix1) as [r1 ix2] eqn:E2. inversion H; subst.
    destruct (IHe _ _ _ Hwf E1) as (W1 & X1 & L1).
    destruct (IHr _ _ _ W1 E2) as (W2 & X2 & L2).
    split; [exact W2 |]. split; [exact (ext_trans _ _ _ X1 X2) |].
    cbn [LIg]. split; [apply (LIe_ext ix1); assumption | exact L2].
Qed.

(** * From the Prop version to the executable check *)
Lemma read_index_exact : forall t i, read_index t (N.of_nat (length t)) i = nth_error t (N.to_nat i).
Proof.
  intros t i. unfold read_index. rewrite N.eqb_refl. cbn [andb].
  destruct (i <? N.of_nat (length t)) eqn:E; [reflexivity |].
  apply N.ltb_ge in E. symmetry. apply nth_error_None. lia.
Qed.

Lemma LI_lits_ok : forall t,
  (forall v, LI t v -> lits_ok_pv t (N.of_nat (length t)) v = true)
  /\ (forall vs, LIs t vs -> lits_ok_pvs t (N.of_nat (length t)) vs = true).
Proof.
  intros t. apply pv_pvs_ind; cbn [LI LIs lits_ok_pv lits_ok_pvs]; intros; try reflexivity; try auto.
  - rewrite read_index_exact, H. apply str_eqb_refl.
  - destruct H1 as [A B]. rewrite (H A), (H0 B). reflexivity.
  - destruct H1 as [A B]. rewrite (H A), (H0 B). reflexivity.
Qed.

Lemma LIg_set_counts : forall t c,
  (forall e, LIe t e -> LIe t (set_counts_e c e)) /\ (forall g, LIg t g -> LIg t (set_counts c g)).
Proof.
  intros t c. apply entry_group_ind; cbn [LIe LIg set_counts set_counts_e]; intros; try exact I; auto.
  destruct H1 as [A B]. split; auto.
Qed.

Lemma nloc_set_counts : forall nloc c,
  (forall e, nloc_ok_e nloc e = true -> nloc_ok_e nloc (set_counts_e c e) = true)
  /\ (forall g, nloc_ok nloc g = true -> nloc_ok nloc (set_counts c g) = true).
Proof.
  intros nloc c. apply entry_group_ind; cbn [nloc_ok nloc_ok_e set_counts set_counts_e]; intros; auto.
  - apply andb_true_iff in H0. destruct H0 as [A B]. rewrite A, (H B). reflexivity.
  - apply andb_true_iff in H1. destruct H1 as [A B]. rewrite (H A), (H0 B). reflexivity.
Qed.

Lemma index_nloc :
  (forall e ix, nloc_ok_e 0 e = nloc_ok_e 0 e -> forall nloc, nloc_ok_e nloc (fst (index_entry e ix)) = nloc_ok_e nloc e)
  /\ (forall g ix, nloc_ok 0 g = nloc_ok 0 g -> forall nloc, nloc_ok nloc (fst (index_group g ix)) = nloc_ok nloc g).
Proof.
  apply entry_group_ind.
  - intros v ix _ nloc. cbn [index_entry]. destruct (index_pv v ix). reflexivity.
  - intros c n g IH ix _ nloc. cbn [index_entry]. specialize (IH ix eq_refl nloc).
    destruct (index_group g ix) as [g1 ix1]. cbn [fst nloc_ok_e] in *. rewrite IH. reflexivity.
  - intros ix _ nloc. reflexivity.
  - intros k e IHe r IHr ix _ nloc. cbn [index_group].
    specialize (IHe ix eq_refl nloc). destruct (index_entry e ix) as [e1 ix1].
    specialize (IHr ix1 eq_refl nloc). destruct (index_group r ix1) as [r1 ix2].
    cbn [fst nloc_ok] in *. rewrite IHe, IHr. reflexivity.
Qed.

(** all nested counts are the top count after set_counts, so the executable check passes *)
Lemma lits_ok_final : forall t nloc,
  (forall e, LIe t e -> nloc_ok_e nloc e = true ->
     lits_ok_e t (N.of_nat (length t)) nloc (set_counts_e (N.of_nat (length t)) e) = true)
  /\ (forall g, LIg t g -> nloc_ok nloc g = true ->
     lits_ok t (N.of_nat (length t)) nloc (set_counts (N.of_nat (length t)) g) = true).
Proof.
  intros t nloc. apply entry_group_ind; cbn [LIe LIg nloc_ok nloc_ok_e set_counts set_counts_e lits_ok lits_ok_e].
  - intros v H _. apply (proj1 (LI_lits_ok t)). exact H.
  - intros c n g IH H Hn. apply andb_true_iff in Hn. destruct Hn as [A B].
    rewrite N.eqb_refl, A, (IH H B). reflexivity.
  - reflexivity.
  - intros k e IHe r IHr [A B] Hn. apply andb_true_iff in Hn. destruct Hn as [C D].
    rewrite (IHe A C), (IHr B D). reflexivity.
Qed.

(** * Shape: indexing and count propagation change indices and counts only *)
Fixpoint erase_pv (v : pv) {struct v} : pv :=
  match v with
  | PLit s _ => PLit s 0
  | PRanges vs => PRanges (erase_pvs vs)
  | PComp inner => PComp (erase_pv inner)
  | PPlurals fs o => PPlurals (erase_pvs fs) (erase_pv o)
  | PBloc vs => PBloc (erase_pvs vs)
  | other => other
  end
with erase_pvs (vs : pvs) {struct vs} : pvs :=
  match vs with PNil => PNil | PCons v r => PCons (erase_pv v) (erase_pvs r) end.
Fixpoint erase_g (g : group) {struct g} : group :=
  match g with GNil => GNil | GCons k e r => GCons k (erase_e e) (erase_g r) end
with erase_e (e : entry) {struct e} : entry :=
  match e with EVal v => EVal (erase_pv v) | ESub _ n g => ESub 0 n (erase_g g) end.

Lemma index_pv_erase :
  (forall v ix, erase_pv (fst (index_pv v ix)) = erase_pv v)
  /\ (forall vs ix, erase_pvs (fst (index_pvs vs ix)) = erase_pvs vs).
Proof.
  apply pv_pvs_ind.
  - intros ix. reflexivity.
  - intros ix. reflexivity.
  - intros ix. reflexivity.
  - intros ix. reflexivity.
  - intros t ix. reflexivity.
  - intros s idx ix. cbn [index_pv]. destruct (push_str ix s). reflexivity.
  - intros vs IH ix. cbn [index_pv]. specialize (IH ix). destruct (index_pvs vs ix).
    cbn [fst erase_pv] in *. rewrite IH. reflexivity.
  - intros inner IH ix. cbn [index_pv]. specialize (IH ix). destruct (index_pv inner ix).
    cbn [fst erase_pv] in *. rewrite IH. reflexivity.
  - intros fs IHf o IHo ix. cbn [index_pv]. specialize (IHf ix). destruct (index_pvs fs ix) as [fs1 ix1].
    specialize (IHo ix1). destruct (index_pv o ix1). cbn [fst erase_pv] in *. rewrite IHf, IHo. reflexivity.
  - intros vs IH ix. cbn [index_pv]. specialize (IH ix). destruct (index_pvs vs ix).
    cbn [fst erase_pv] in *. rewrite IH. reflexivity.
  - intros ix. reflexivity.
  - intros v IHv r IHr ix. cbn [index_pvs]. specialize (IHv ix). destruct (index_pv v ix) as [v1 ix1].
    specialize (IHr ix1). destruct (index_pvs r ix1). cbn [fst erase_pvs] in *. rewrite IHv, IHr. reflexivity.
Qed.

Lemma index_group_erase :
  (forall e ix, erase_e (fst (index_entry e ix)) = erase_e e)
  /\ (forall g ix, erase_g (fst (index_group g ix)) = erase_g g).
Proof.
  apply entry_group_ind.
  - intros v ix. cbn [index_entry]. pose proof (proj1 index_pv_erase v ix) as H. destruct (index_pv v ix).
    cbn [fst erase_e] in *. rewrite H. reflexivity.
  - intros c n g IH ix. cbn [index_entry]. specialize (IH ix). destruct (index_group g ix).
    cbn [fst erase_e] in *. rewrite IH. reflexivity.
  - intros ix. reflexivity.
  - intros k e IHe r IHr ix. cbn [index_group]. specialize (IHe ix). destruct (index_entry e ix) as [e1 ix1].
    specialize (IHr ix1). destruct (index_group r ix1). cbn [fst erase_g] in *. rewrite IHe, IHr. reflexivity.
Qed.

Lemma set_counts_erase : forall c,
  (forall e, erase_e (set_counts_e c e) = erase_e e) /\ (forall g, erase_g (set_counts c g) = erase_g g).
Proof.
  intros c. apply entry_group_ind.
  - intros v. reflexivity.
  - intros c0 n g IH. cbn [set_counts_e erase_e]. rewrite IH. reflexivity.
  - reflexivity.
  - intros k e IHe r IHr. cbn [set_counts erase_g]. rewrite IHe, IHr. reflexivity.
Qed.

(** lookups in trees of the same shape *)
Lemma lookup_entry_erase : forall k g g', erase_g g = erase_g g' ->
  match lookup_entry k g, lookup_entry k g' with
  | Some e, Some e' => erase_e e = erase_e e'
  | None, None => True
  | _, _ => False
  end.
Proof.
  intros k g. induction g using group_mut with (P := fun _ : entry => True); try (intros; exact I).
  - intros g' H. destruct g'; [exact I | discriminate H].
  - intros g' H. destruct g' as [| k1 e1 r1]; [discriminate H |]. cbn [erase_g] in H. inversion H; subst.
    cbn [lookup_entry]. destruct (str_eqb k k1); [assumption | apply IHg0; assumption].
Qed.

Lemma erase_pv_lit : forall v s, erase_pv v = PLit s 0 -> exists i, v = PLit s i.
Proof. intros v s H. destruct v; cbn [erase_pv] in H; try discriminate H. inversion H; subst. eexists. reflexivity. Qed.

Lemma lookup_path_erase : forall p g g' s i,
  erase_g g = erase_g g' -> lookup_path p g = Some (EVal (PLit s i)) ->
  exists i', lookup_path p g' = Some (EVal (PLit s i')).
Proof.
  induction p as [| k p IH]; intros g g' s i He H; [discriminate H |].
  pose proof (lookup_entry_erase k g g' He) as Hl.
  destruct p as [| k2 p].
  - cbn [lookup_path] in *. rewrite H in Hl. destruct (lookup_entry k g') as [e' |]; [| destruct Hl].
    cbn [erase_e erase_pv] in Hl. destruct e' as [v' | c' n' g2]; cbn [erase_e] in Hl; [| discriminate Hl].
    inversion Hl as [Hv]. symmetry in Hv. apply erase_pv_lit in Hv. destruct Hv as [i' ->]. exists i'. reflexivity.
  - change (lookup_path (k :: k2 :: p) g) with
      (match lookup_entry k g with Some (ESub _ _ g1) => lookup_path (k2 :: p) g1 | _ => None end) in H.
    change (lookup_path (k :: k2 :: p) g') with
      (match lookup_entry k g' with Some (ESub _ _ g1) => lookup_path (k2 :: p) g1 | _ => None end).
    destruct (lookup_entry k g) as [[v | c n g1] |]; try discriminate H.
    destruct (lookup_entry k g') as [e' |]; [| destruct Hl].
    cbn [erase_e] in Hl. destruct e' as [v' | c' n' g2]; cbn [erase_e] in Hl; [discriminate Hl |].
    inversion Hl as [[Hn Hg]]. apply (IH g1 g2 s i Hg H).
Qed.

Lemma LIg_lookup_entry : forall t k g e, LIg t g -> lookup_entry k g = Some e -> LIe t e.
Proof.
  intros t k g. induction g using group_mut with (P := fun _ : entry => True); try (intros; exact I).
  - intros e _ H. discriminate H.
  - intros e0 [A B] H. cbn [lookup_entry] in H. destruct (str_eqb k k0).
    + inversion H; subst. exact A.
    + apply IHg0; assumption.
Qed.

Lemma LIg_lookup_path : forall t p g e, LIg t g -> lookup_path p g = Some e -> LIe t e.
Proof.
  intros t p. induction p as [| k p IH]; intros g e Hg H; [discriminate H |].
  destruct p as [| k2 p].
  - cbn [lookup_path] in H. apply (LIg_lookup_entry t k g e Hg H).
  - change (lookup_path (k :: k2 :: p) g) with
      (match lookup_entry k g with Some (ESub _ _ g1) => lookup_path (k2 :: p) g1 | _ => None end) in H.
    destruct (lookup_entry k g) as [[v | c n g1] |] eqn:E; try discriminate H.
    pose proof (LIg_lookup_entry t k g _ Hg E) as Hs. cbn [LIe] in Hs. apply (IH g1 e Hs H).
Qed.

(** * The model of one translation unit *)
Lemma index_locale_facts : forall g,
  let o := index_locale g in
  NoDup (o_strings o)
  /\ o_count o = N.of_nat (length (o_strings o))
  /\ LIg (o_strings o) (o_tree o)
  /\ erase_g (o_tree o) = erase_g g
  /\ o_file o = format (o_strings o).
Proof.
  intros g. unfold index_locale.
  pose proof (proj2 index_group_inv g ix_empty) as H.
  pose proof (proj2 index_group_erase g ix_empty) as He.
  destruct (index_group g ix_empty) as [g1 ix1] eqn:E. cbn [fst] in He.
  destruct (H g1 ix1 ix_empty_wf eq_refl) as ((Hnd & _) & _ & L).
  cbn [o_strings o_count o_tree o_file]. repeat split.
  - exact Hnd.
  - apply (proj2 (LIg_set_counts _ _)). exact L.
  - rewrite (proj2 (set_counts_erase _)). exact He.
Qed.

Theorem spec_C11_holds : forall g nloc plain,
  nloc_ok nloc g = true -> forallb (plain_in g) plain = true ->
  spec_C11 plain nloc (index_locale g) = true.
Proof.
  intros g nloc plain Hn Hp.
  pose proof (index_locale_facts g) as F. cbv zeta in F.
  unfold index_locale in *.
  pose proof (proj2 index_group_inv g ix_empty) as H.
  pose proof (proj2 (index_nloc) g ix_empty eq_refl nloc) as Hnl.
  destruct (index_group g ix_empty) as [g1 ix1] eqn:E. cbn [fst] in Hnl.
  destruct (H g1 ix1 ix_empty_wf eq_refl) as (_ & _ & L).
  cbn [o_strings o_count o_tree o_file] in F. destruct F as (Hnd & _ & LT & Her & _).
  unfold spec_C11. cbn [o_strings o_count o_tree o_file].
  set (t := ix_acc ix1) in *.
  apply andb_true_iff. split; [apply andb_true_iff; split; [apply andb_true_iff; split |] |].
  - apply (proj2 (lits_ok_final t nloc)); [exact L | rewrite Hnl; exact Hn].
  - apply forallb_forall. intros [p txt] Hin.
    pose proof (proj1 (forallb_forall _ _) Hp _ Hin) as Hpi. unfold plain_in in Hpi. cbn [fst snd] in Hpi.
    destruct (lookup_path p g) as [[[| | | | | s i | | | |] | ] |] eqn:El; try discriminate Hpi.
    symmetry in Her.
    destruct (lookup_path_erase p g _ s i Her El) as [i' Hl'].
    unfold plain_ok_one. cbn [fst snd]. rewrite Hl'. rewrite Hpi. cbn [andb].
    pose proof (LIg_lookup_path t p _ _ LT Hl') as Hli. cbn [LIe LI] in Hli.
    rewrite read_index_exact, Hli. exact Hpi.
  - unfold cast_ok. apply N.eqb_refl.
  - apply spec_file_holds.
Qed.

(** * Counts *)
Fixpoint lens_ok (n : nat) (b : bkeys) {struct b} : Prop :=
  match b with BNil => True | BCons _ v r => lens_ok_v n v /\ lens_ok n r end
with lens_ok_v (n : nat) (v : bval) {struct v} : Prop :=
  match v with BValue => True | BSub cs ks => length cs = n /\ lens_ok n ks end.
Fixpoint counts_are (tops : list N) (b : bkeys) {struct b} : Prop :=
  match b with BNil => True | BCons _ v r => counts_are_v tops v /\ counts_are tops r end
with counts_are_v (tops : list N) (v : bval) {struct v} : Prop :=
  match v with BValue => True | BSub cs ks => cs = tops /\ counts_are tops ks end.

Lemma zip_set_full : forall cs tops, length cs = length tops -> zip_set cs tops = tops.
Proof.
  induction cs as [| c cs IH]; intros [| t tops] H; try discriminate H; [reflexivity |].
  cbn [zip_set]. rewrite IH; [reflexivity |]. inversion H. reflexivity.
Qed.

(** every nested Locale, at any depth, carries the string count of its top locale *)
Theorem propagate_counts : forall tops,
  (forall b, lens_ok (length tops) b -> counts_are tops (propagate tops b))
  /\ (forall v, lens_ok_v (length tops) v -> counts_are_v tops (propagate_v tops v)).
Proof.
  intros tops. apply bkeys_bval_ind; cbn [lens_ok lens_ok_v counts_are counts_are_v propagate propagate_v].
  - intros _. exact I.
  - intros k v IHv r IHr [A B]. split; [apply IHv; exact A | apply IHr; exact B].
  - intros _. exact I.
  - intros cs ks IH [A B]. split; [apply zip_set_full; exact A | apply IH; exact B].
Qed.

(** non-vacuity: a tree with a repeated text, a nested group and a plural *)
Example ex_tree : group :=
  GCons [97] (EVal (PLit [72; 105] 99))
  (GCons [98] (ESub 0 2 (GCons [99] (EVal (PBloc (PCons (PLit [72; 105] 7) (PCons PVar (PCons (PLit [160] 0) PNil))))) GNil))
  (GCons [100] (EVal (PPlurals (PCons (PLit [49] 0) PNil) (PLit [72; 105] 0))) GNil)).
Example ex_tree_ok :
  o_strings (index_locale ex_tree) = [[72; 105]; [160]; [49]]
  /\ spec_C11 [([[97]], [72; 105]); ([[98]; [99]], [72; 105])] 2 (index_locale ex_tree) = false
  /\ spec_C11 [([[97]], [72; 105])] 2 (index_locale ex_tree) = true.
Proof. vm_compute. repeat split. Qed.

(** * Literal kinds: what `merge` does to the per-key state never changes what is indexed *)
Lemma index_pv_other : forall t ix, index_pv (PLitOther t) ix = (PLitOther t, ix).
Proof. reflexivity. Qed.

Lemma merge_value_index : forall v iv ix,
  (fst (fst (merge_value v iv ix)), snd (merge_value v iv ix)) = index_pv v ix.
Proof.
  intros v iv ix. unfold merge_value.
  destruct v; try (destruct (index_pv _ ix) as [v' ix'] eqn:E; reflexivity); try reflexivity.
  - (* PLitOther *) cbn [index_pv lit_ty_of]. destruct iv as [t0 |]; [destruct (lit_ty_eqb t t0) |]; reflexivity.
  - (* PLit *) cbn [index_pv lit_ty_of]. destruct (push_str ix s) as [i ix'].
    destruct iv as [t0 |]; [destruct (lit_ty_eqb TString t0) |]; reflexivity.
Qed.

Lemma builder_value_index : forall v ix,
  (fst (fst (builder_value v ix)), snd (builder_value v ix)) = index_pv v ix.
Proof. intros v ix. unfold builder_value. destruct (index_pv v ix) as [v' ix']. reflexivity. Qed.

Lemma merge_group_index :
  (forall e ie ix e' ie' ix', merge_entry e ie ix = Some (e', ie', ix') -> index_entry e ix = (e', ix'))
  /\ (forall g ik ix g' ik' ix', merge_group g ik ix = Some (g', ik', ix') -> index_group g ix = (g', ix')).
Proof.
  apply entry_group_ind.
  - intros v ie ix e' ie' ix' H. destruct ie as [iv | ik]; cbn [merge_entry] in H; [| discriminate H].
    pose proof (merge_value_index v iv ix) as M. destruct (merge_value v iv ix) as [[v1 iv1] ix1].
    inversion H; subst. cbn [fst snd] in M. cbn [index_entry]. rewrite <- M. reflexivity.
  - intros c n g IH ie ix e' ie' ix' H. destruct ie as [iv | ik]; cbn [merge_entry] in H; [discriminate H |].
    destruct (merge_group g ik ix) as [[[g1 ik1] ix1] |] eqn:E; [| discriminate H]. inversion H; subst.
    cbn [index_entry]. rewrite (IH _ _ _ _ _ E). reflexivity.
  - intros ik ix g' ik' ix' H. destruct ik; cbn [merge_group] in H; [| discriminate H]. inversion H; subst. reflexivity.
  - intros k e IHe r IHr ik ix g' ik' ix' H. destruct ik as [| k0 ie ir]; cbn [merge_group] in H; [discriminate H |].
    destruct (merge_entry e ie ix) as [[[e1 ie1] ix1] |] eqn:E1; [| discriminate H].
    destruct (merge_group r ir ix1) as [[[r1 ir1] ix2] |] eqn:E2; [| discriminate H]. inversion H; subst.
    cbn [index_group]. rewrite (IHe _ _ _ _ _ E1), (IHr _ _ _ _ _ E2). reflexivity.
Qed.

Lemma builder_group_index :
  (forall e ix e' ie' ix', builder_entry e ix = Some (e', ie', ix') -> index_entry e ix = (e', ix'))
  /\ (forall g ix g' ik' ix', builder_group g ix = Some (g', ik', ix') -> index_group g ix = (g', ix')).
Proof.
  apply entry_group_ind.
  - intros v ix e' ie' ix' H.
    destruct v; cbn [builder_entry] in H; try discriminate H;
      match type of H with context [builder_value ?w ix] =>
        pose proof (builder_value_index w ix) as M; destruct (builder_value w ix) as [[v1 iv1] ix1];
        inversion H; subst; cbn [fst snd] in M; cbn [index_entry]; rewrite <- M; reflexivity
      end.
  - intros c n g IH ix e' ie' ix' H. cbn [builder_entry] in H.
    destruct (builder_group g ix) as [[[g1 ik1] ix1] |] eqn:E; [| discriminate H]. inversion H; subst.
    cbn [index_entry]. rewrite (IH _ _ _ _ E). reflexivity.
  - intros ix g' ik' ix' H. cbn [builder_group] in H. inversion H; subst. reflexivity.
  - intros k e IHe r IHr ix g' ik' ix' H. cbn [builder_group] in H.
    destruct (builder_entry e ix) as [[[e1 ie1] ix1] |] eqn:E1; [| discriminate H].
    destruct (builder_group r ix1) as [[[r1 ir1] ix2] |] eqn:E2; [| discriminate H]. inversion H; subst.
    cbn [index_group]. rewrite (IHe _ _ _ _ E1), (IHr _ _ _ _ E2). reflexivity.
Qed.

(** every string literal of a locale's final values selects its own text in that locale's table, whatever state
    (literal types of the locales merged before) the keys are in; and the result does not depend on that state *)
Theorem literal_kinds_indexed : forall g ik ix g' ik' ix',
  ix_wf ix -> merge_group g ik ix = Some (g', ik', ix') ->
  ix_wf ix' /\ ext ix ix' /\ LIg (ix_acc ix') g' /\ index_group g ix = (g', ix').
Proof.
  intros g ik ix g' ik' ix' Hwf H. pose proof (proj2 merge_group_index _ _ _ _ _ _ H) as E.
  destruct (proj2 index_group_inv g ix g' ix' Hwf E) as (W & X & L). repeat split; try assumption; apply W.
Qed.

Theorem literal_kinds_indexed_default : forall g ix g' ik' ix',
  ix_wf ix -> builder_group g ix = Some (g', ik', ix') ->
  ix_wf ix' /\ ext ix ix' /\ LIg (ix_acc ix') g' /\ index_group g ix = (g', ix').
Proof.
  intros g ix g' ik' ix' Hwf H. pose proof (proj2 builder_group_index _ _ _ _ _ H) as E.
  destruct (proj2 index_group_inv g ix g' ix' Hwf E) as (W & X & L). repeat split; try assumption; apply W.
Qed.

(** all locales of a namespace, in any configuration order: each locale's values and table are those of
    [index_group] on that locale alone *)
Definition unit_of (g : group) : group * list str :=
  (fst (index_group g ix_empty), ix_acc (snd (index_group g ix_empty))).

Lemma merge_locales_independent : forall gs ik outs ikf,
  merge_locales gs ik = Some (outs, ikf) -> outs = map unit_of gs.
Proof.
  induction gs as [| g gs IH]; intros ik outs ikf H; cbn [merge_locales] in H.
  - inversion H. reflexivity.
  - destruct (merge_group g ik ix_empty) as [[[g1 ik1] ix1] |] eqn:E; [| discriminate H].
    destruct (merge_locales gs ik1) as [[o2 ik2] |] eqn:E2; [| discriminate H]. inversion H; subst.
    cbn [map]. rewrite (IH _ _ _ E2). unfold unit_of. rewrite (proj2 merge_group_index _ _ _ _ _ _ E). reflexivity.
Qed.

Theorem locales_independent : forall gs outs ikf,
  check_locales gs = Some (outs, ikf) -> outs = map unit_of gs.
Proof.
  intros gs outs ikf H. unfold check_locales in H. destruct gs as [| d rest]; [discriminate H |].
  destruct (builder_group d ix_empty) as [[[d1 ik1] ix1] |] eqn:E; [| discriminate H].
  destruct (merge_locales rest ik1) as [[o2 ik2] |] eqn:E2; [| discriminate H]. inversion H; subst.
  cbn [map]. rewrite (merge_locales_independent _ _ _ _ E2). unfold unit_of.
  rewrite (proj2 builder_group_index _ _ _ _ _ E). reflexivity.
Qed.

(** non-vacuity, and the variant that skips indexing when the literal type differs from the state of the key
    (a string where the default locale has a boolean) leaves a literal that selects nothing *)
Definition merge_value_skip (v : pv) (iv : ivalue) (ix : indexer) : pv * ivalue * indexer :=
  match v, iv with
  | (PLit _ _ | PLitOther _), ILit t =>
      match lit_ty_of v with
      | Some t' => if lit_ty_eqb t' t then let (v', ix') := index_pv v ix in (v', ILit t, ix') else (v, IInterpol, ix)
      | None => (v, IInterpol, ix)
      end
  | _, _ => merge_value v iv ix
  end.
Example literal_kinds_example :
  let g := GCons [97] (EVal (PLit [111; 110] 18446744073709551615)) (GCons [98] (EVal (PLitOther TSigned)) GNil) in
  let ik := IKCons [97] (IEVal (ILit TBool)) (IKCons [98] (IEVal (ILit TSigned)) IKNil) in
  merge_group g ik ix_empty =
    Some (GCons [97] (EVal (PLit [111; 110] 0)) (GCons [98] (EVal (PLitOther TSigned)) GNil),
          IKCons [97] (IEVal IInterpol) (IKCons [98] (IEVal (ILit TSigned)) IKNil),
          mk_ix [([111; 110], 0)] [[111; 110]])
  /\ fst (fst (merge_value_skip (PLit [111; 110] 18446744073709551615) (ILit TBool) ix_empty))
     = PLit [111; 110] 18446744073709551615
  /\ lits_ok_pv [] 0 (PLit [111; 110] 18446744073709551615) = false.
Proof. vm_compute. repeat split. Qed.

(** * Nested blocks expect the table length of their own locale *)
Lemma push_locale_lens : forall c n,
  (forall b, lens_ok n b -> lens_ok (S n) (push_locale c b))
  /\ (forall v, lens_ok_v n v -> lens_ok_v (S n) (push_locale_v c v)).
Proof.
  intros c n. apply bkeys_bval_ind; cbn [lens_ok lens_ok_v push_locale push_locale_v].
  - intros _. exact I.
  - intros k v IHv r IHr [A B]. split; [apply IHv; exact A | apply IHr; exact B].
  - intros _. exact I.
  - intros cs ks IH [A B]. split; [rewrite app_length; cbn [length]; lia | apply IH; exact B].
Qed.

Lemma push_locales_lens : forall cs n b, lens_ok n b -> lens_ok (length cs + n) (fold_left (fun b c => push_locale c b) cs b).
Proof.
  induction cs as [| c cs IH]; intros n b H; [exact H |].
  cbn [fold_left length]. replace (S (length cs) + n)%nat with (length cs + S n)%nat by lia.
  apply IH. apply (proj1 (push_locale_lens c n)). exact H.
Qed.

(** the default locale starts every block with one nested Locale, every other locale pushes one: after
    `propagate_string_count` every nested block, at any depth, carries the string count of ITS top locale *)
Theorem nested_blocks_counts : forall b0 cs tops,
  lens_ok 1 b0 -> length tops = S (length cs) ->
  counts_are tops (propagate tops (fold_left (fun b c => push_locale c b) cs b0)).
Proof.
  intros b0 cs tops H0 Hl. apply (proj1 (propagate_counts tops)). rewrite Hl.
  replace (S (length cs)) with (length cs + 1)%nat by lia. apply push_locales_lens. exact H0.
Qed.

Lemma set_counts_ok : forall n,
  (forall e, counts_ok_e n (set_counts_e n e) = true) /\ (forall g, counts_ok n (set_counts n g) = true).
Proof.
  intros n. apply entry_group_ind; cbn [counts_ok counts_ok_e set_counts set_counts_e].
  - reflexivity.
  - intros c nl g IH. rewrite N.eqb_refl, IH. reflexivity.
  - reflexivity.
  - intros k e IHe r IHr. rewrite IHe, IHr. reflexivity.
Qed.

Theorem unit_nested_counts : forall g,
  counts_ok (N.of_nat (length (o_strings (index_locale g)))) (o_tree (index_locale g)) = true.
Proof.
  intros g. unfold index_locale. destruct (index_group g ix_empty) as [g1 ix1].
  cbn [o_strings o_tree]. apply (proj2 (set_counts_ok _)).
Qed.
