(** A reader for the JSON objects accepted as `$t(key, {args})` arguments:
    model of serde_json::from_str::<BTreeMap<String, Literal>> on a documented
    sub-grammar.  Outside the sub-grammar (\u escapes, fractions/exponents,
    integers beyond 64 bits, "-0") the answer is [Unmodelled]; a definite syntax or
    type error is [Err 0].  JSON whitespace is the four ASCII characters. *)
From Coq Require Import List NArith ZArith Bool Arith.
Import ListNotations.
From LI Require Import Base.StrOps Parser.Parse.
Open Scope N_scope.

Definition is_jws (c : char) : bool := (c =? 32) || (c =? 9) || (c =? 10) || (c =? 13).
Fixpoint skip_jws (s : str) : str := match s with c :: r => if is_jws c then skip_jws r else s | [] => [] end.

(** after the opening quote: (content, rest after the closing quote) *)
Fixpoint read_jstring (s : str) : res (str * str) :=
  match s with
  | [] => Err 0
  | c :: r =>
      if c =? 34 then Ok ([], r)
      else if c <? 32 then Err 0
      else if c =? 92 then
        match r with
        | [] => Err 0
        | e :: r' =>
            let esc (x : char) := bind (read_jstring r') (fun '(t, rest) => Ok (x :: t, rest)) in
            if e =? 34 then esc 34 else if e =? 92 then esc 92 else if e =? 47 then esc 47
            else if e =? 98 then esc 8 else if e =? 102 then esc 12 else if e =? 110 then esc 10
            else if e =? 114 then esc 13 else if e =? 116 then esc 9
            else if e =? 117 then Unmodelled else Err 0
        end
      else bind (read_jstring r) (fun '(t, rest) => Ok (c :: t, rest))
  end.

Definition is_digit (c : char) : bool := (48 <=? c) && (c <=? 57).
Definition is_numch (c : char) : bool := is_digit c || (c =? 45) || (c =? 43) || (c =? 46) || (c =? 101) || (c =? 69).
Fixpoint span (f : char -> bool) (s : str) : str * str :=
  match s with
  | c :: r => if f c then let '(a, b) := span f r in (c :: a, b) else ([], s)
  | [] => ([], [])
  end.
Definition digits_val (d : str) : N := fold_left (fun acc c => acc * 10 + (c - 48)) d 0.
Definition u64_max : N := 18446744073709551615.
Definition i64_min_abs : N := 9223372036854775808.

Definition read_jnumber (s : str) : res (lit * str) :=
  let '(tok, rest) := span is_numch s in
  let '(neg, body) := match tok with c :: b => if c =? 45 then (true, b) else (false, tok) | [] => (false, []) end in
  if negb (forallb is_digit body) then
    (* a fraction/exponent (float: Display oracle) or a malformed number *)
    Unmodelled
  else match body with
  | [] => Err 0
  | d :: ds =>
      if (d =? 48) && negb (match ds with [] => true | _ => false end) then Err 0   (* leading zero *)
      else
        let v := digits_val body in
        if (20 <? length body)%nat then Unmodelled
        else if neg then (if v =? 0 then Unmodelled else if v <=? i64_min_abs then Ok (LSigned (- Z.of_N v), rest) else Unmodelled)
        else if v <=? u64_max then Ok (LUnsigned v, rest) else Unmodelled
  end.

Definition s_true : str := [116;114;117;101]. Definition s_false : str := [102;97;108;115;101].
Definition read_jvalue (s : str) : res (jarg * str) :=
  match s with
  | [] => Err 0
  | c :: r =>
      if c =? 34 then bind (read_jstring r) (fun '(t, rest) => Ok (JString t, rest))
      else if is_digit c || (c =? 45) then bind (read_jnumber s) (fun '(l, rest) => Ok (JLit l, rest))
      else match strip_prefix s_true s, strip_prefix s_false s with
           | Some rest, _ => Ok (JLit (LBool true), rest)
           | _, Some rest => Ok (JLit (LBool false), rest)
           | None, None => Err 0
           end
  end.

(** members after '{' (and after each ','): fuel bounds the number of members *)
Fixpoint read_members (fuel : nat) (s : str) (acc : list (str * jarg)) : res (list (str * jarg) * str) :=
  match fuel with
  | O => OutOfFuel
  | S fuel' =>
      match skip_jws s with
      | c :: r =>
          if c =? 34 then
            bind (read_jstring r) (fun '(k, rest) =>
            match skip_jws rest with
            | c2 :: r2 =>
                if c2 =? 58 then
                  bind (read_jvalue (skip_jws r2)) (fun '(v, rest2) =>
                  let acc' := map_insert k v acc in
                  match skip_jws rest2 with
                  | c3 :: r3 => if c3 =? 44 then read_members fuel' r3 acc'
                                else if c3 =? 125 then Ok (acc', r3) else Err 0
                  | [] => Err 0
                  end)
                else Err 0
            | [] => Err 0
            end)
          else Err 0
      | [] => Err 0
      end
  end.

Definition json_args_model (s : str) : res (list (str * jarg)) :=
  match skip_jws s with
  | c :: r =>
      if c =? 123 then
        match skip_jws r with
        | c2 :: r2 =>
            if c2 =? 125 then (match skip_jws r2 with [] => Ok [] | _ => Err 0 end)
            else bind (read_members (S (length s)) r []) (fun '(m, rest) =>
                 match skip_jws rest with [] => Ok m | _ => Err 0 end)
        | [] => Err 0
        end
      else Err 0
  | [] => Err 0
  end.
