(** Model of the accumulated signature of a key (property C08).

    Mirrors
      leptos_i18n_parser/src/parse_locales/parsed_value.rs  ParsedValue::get_keys / get_keys_inner, the value arms of
                                                           ParsedValue::merge (literal-type degradation)
      leptos_i18n_parser/src/parse_locales/ranges.rs        Ranges::get_keys_inner
      leptos_i18n_parser/src/parse_locales/locale.rs        InterpolationKeys::{push_var, push_comp, push_count},
                                                           InterpolOrLit::get_interpol_keys_mut
      leptos_i18n_parser/src/parse_locales/mod.rs           check_locales_inner (default locale first, then every
                                                           other locale in configuration order)
      leptos_i18n_macro/src/load_locales/interpolate.rs     Interpolation::make_fields
    over an abstract value tree: the value of a key in a locale *after* foreign-key substitution and `reduce`.
    Key names and formatters are interned numbers.  No proofs in this file. *)
From Coq Require Import List NArith Bool Arith.
Import ListNotations.
Open Scope N_scope.

Definition key := N.
Definition fmt := N.                (* Formatter, interned; 0 = Formatter::None *)
Inductive littype := LString | LBool | LSigned | LUnsigned | LFloat.
(** RangeOrPlural: the numeric type of a range count (interned RangeType) or a plural count *)
Inductive rop := RRange (ty : N) | RPlural.

Inductive pv :=
| PLit (t : littype)
| PVar (k : key) (f : fmt)
| PComp (k : key) (inner : pv)
| PBloc (vs : list pv)
| PRanges (ty : N) (count : key) (branches : list pv)
| PPlural (count : key) (forms : list pv) (other : pv)
| PForeign (inner : pv)             (* ForeignKey::Set(inner): already substituted *)
| PDefault
| PSubkeys.

Definition littype_eqb (a b : littype) : bool :=
  match a, b with
  | LString, LString | LBool, LBool | LSigned, LSigned | LUnsigned, LUnsigned | LFloat, LFloat => true
  | _, _ => false
  end.
Definition rop_eqb (a b : rop) : bool :=
  match a, b with
  | RRange x, RRange y => x =? y
  | RPlural, RPlural => true
  | _, _ => false
  end.

(** * InterpolationKeys *)

Record varinfo := mk_vi { vi_fmts : list fmt; vi_count : option rop }.      (* BTreeSet<Formatter>, Option<RangeOrPlural> *)
Definition vi_default : varinfo := mk_vi [] None.
Record ikeys := mk_ik { ik_comps : list key; ik_vars : list (key * varinfo) }.  (* BTreeSet<Key>, BTreeMap<Key, VarInfo> *)
Definition ik_empty : ikeys := mk_ik [] [].
Inductive iol := ILit (t : littype) | IInterpol (k : ikeys).

(** BTreeSet::insert on a sorted list *)
Fixpoint sinsert (x : N) (l : list N) : list N :=
  match l with
  | [] => [x]
  | y :: r => if x <? y then x :: l else if x =? y then l else y :: sinsert x r
  end.
(** `map.entry(k).or_default()` followed by a modification of the entry *)
Fixpoint vmodify (k : key) (g : varinfo -> varinfo) (m : list (key * varinfo)) : list (key * varinfo) :=
  match m with
  | [] => [(k, g vi_default)]
  | (k', v) :: r =>
      if k <? k' then (k, g vi_default) :: m
      else if k =? k' then (k', g v) :: r
      else (k', v) :: vmodify k g r
  end.
Fixpoint vget (k : key) (m : list (key * varinfo)) : option varinfo :=
  match m with
  | [] => None
  | (k', v) :: r => if k =? k' then Some v else vget k r
  end.

Definition push_var (k : key) (f : fmt) (ik : ikeys) : ikeys :=
  mk_ik (ik_comps ik) (vmodify k (fun vi => mk_vi (sinsert f (vi_fmts vi)) (vi_count vi)) (ik_vars ik)).
Definition push_comp (k : key) (ik : ikeys) : ikeys := mk_ik (sinsert k (ik_comps ik)) (ik_vars ik).

Inductive kerr :=
| EMix                         (* RangeAndPluralsMix *)
| EMismatch (t1 t2 : N)        (* RangeTypeMissmatch { type1: old, type2: new } *)
| ESubkeys.                    (* SubKeyMissmatch: a value in one locale, sub-keys in another (not C08's subject) *)
Inductive kres := KOk (s : iol) | KErr (e : kerr).

(** push_count: `match (range_count.replace(ty), ty)` *)
Definition push_count (ty : rop) (k : key) (ik : ikeys) : ikeys + kerr :=
  let old := match vget k (ik_vars ik) with Some vi => vi_count vi | None => None end in
  let ik' := mk_ik (ik_comps ik) (vmodify k (fun vi => mk_vi (vi_fmts vi) (Some ty)) (ik_vars ik)) in
  match old, ty with
  | None, _ => inl ik'
  | Some RPlural, RPlural => inl ik'
  | Some (RRange a), RRange b => if a =? b then inl ik' else inr (EMismatch a b)
  | Some RPlural, RRange _ | Some (RRange _), RPlural => inr EMix
  end.

(** InterpolOrLit::get_interpol_keys_mut *)
Definition ikm (s : iol) : ikeys := match s with IInterpol k => k | ILit _ => ik_empty end.

(** * get_keys_inner as a traversal emitting events, then a fold over the events *)

Inductive event := EvVar (k : key) (f : fmt) | EvComp (k : key) | EvCount (k : key) (t : rop).

(** the pushes of get_keys_inner in the order the code performs them
    (Ranges: the branches, then the count; Plurals: the count, the forms, then `other`) *)
Fixpoint events (v : pv) : list event :=
  match v with
  | PLit _ | PDefault | PSubkeys => []
  | PVar k f => [EvVar k f]
  | PComp k inner => EvComp k :: events inner
  | PBloc vs => flat_map events vs
  | PRanges ty ck bs => flat_map events bs ++ [EvCount ck (RRange ty)]
  | PPlural ck forms other => EvCount ck RPlural :: flat_map events forms ++ events other
  | PForeign inner => events inner
  end.

Definition apply_event (e : event) (s : iol) : kres :=
  match e with
  | EvVar k f => KOk (IInterpol (push_var k f (ikm s)))
  | EvComp k => KOk (IInterpol (push_comp k (ikm s)))
  | EvCount k t => match push_count t k (ikm s) with inl ik => KOk (IInterpol ik) | inr e => KErr e end
  end.
Fixpoint run (evs : list event) (s : iol) : kres :=
  match evs with
  | [] => KOk s
  | e :: r => match apply_event e s with KOk s' => run r s' | err => err end
  end.

(** `for value in values { value.get_keys_inner(key_path, keys, false)?; }` *)
Definition fold_res (f : pv -> iol -> kres) : list pv -> iol -> kres :=
  fix go (l : list pv) (s : iol) : kres :=
    match l with
    | [] => KOk s
    | x :: r => match f x s with KOk s' => go r s' | err => err end
    end.

(** get_keys_inner, written as the code is (direct recursion); KeysProofs.gki_events shows it equals [run (events v)] *)
Fixpoint gki (v : pv) (s : iol) (is_top : bool) {struct v} : kres :=
  match v with
  | PLit t => if is_top then KOk (ILit t) else KOk s
  | PSubkeys | PDefault => KOk s
  | PVar k f => KOk (IInterpol (push_var k f (ikm s)))
  | PComp k inner => gki inner (IInterpol (push_comp k (ikm s))) false
  | PBloc vs => fold_res (fun x s => gki x s false) vs s
  | PRanges ty ck bs =>
      match fold_res (fun x s => gki x s false) bs s with
      | KOk s' => match push_count (RRange ty) ck (ikm s') with inl ik => KOk (IInterpol ik) | inr e => KErr e end
      | err => err
      end
  | PForeign inner => gki inner s false
  | PPlural ck forms other =>
      match push_count RPlural ck (ikm s) with
      | inl ik => match fold_res (fun x s => gki x s false) forms (IInterpol ik) with
                  | KOk s' => gki other s' false
                  | err => err
                  end
      | inr e => KErr e
      end
  end.

(** ParsedValue::get_keys (default locale) *)
Definition get_keys (v : pv) : kres := gki v (ILit LString) true.

(** the value arms of ParsedValue::merge (every other locale, after `reduce`) *)
Definition merge_value (v : pv) (s : iol) : kres :=
  match v with
  | PDefault => KOk s                                          (* defaults.push(..) *)
  | PSubkeys => KErr ESubkeys
  | PLit t =>
      match s with
      | IInterpol _ => KOk s
      | ILit t' => if littype_eqb t t' then KOk s else KOk (IInterpol ik_empty)   (* "make builder with 0 fields" *)
      end
  | _ => gki v s false
  end.

Fixpoint merge_all (vs : list pv) (s : iol) : kres :=
  match vs with
  | [] => KOk s
  | v :: r => match merge_value v s with KOk s' => merge_all r s' | err => err end
  end.

(** signature of a key: default locale's value first, then the other locales in configuration order *)
Definition key_signature (dflt : pv) (others : list pv) : kres :=
  match get_keys dflt with KOk s => merge_all others s | err => err end.

(** Interpolation::make_fields: one builder field per variable and per component, sorted by key *)
Fixpoint insert_sorted (x : N) (l : list N) : list N :=
  match l with [] => [x] | y :: r => if x <=? y then x :: l else y :: insert_sorted x r end.
Definition make_fields (ik : ikeys) : list key :=
  fold_right insert_sorted [] (map fst (ik_vars ik) ++ ik_comps ik).

(** * Specification: the required arguments are the union over all locales *)

Definition all_events (vs : list pv) : list event := flat_map events vs.
Definition ev_vars (evs : list event) : list (key * fmt) :=
  flat_map (fun e => match e with EvVar k f => [(k, f)] | _ => [] end) evs.
Definition ev_comps (evs : list event) : list key :=
  flat_map (fun e => match e with EvComp k => [k] | _ => [] end) evs.
Definition ev_counts (evs : list event) : list (key * rop) :=
  flat_map (fun e => match e with EvCount k t => [(k, t)] | _ => [] end) evs.
Definition memN (x : N) (l : list N) : bool := existsb (N.eqb x) l.
(** all count tags given to one name agree *)
Definition consistent (cs : list (key * rop)) : bool :=
  forallb (fun a => forallb (fun b => negb (fst a =? fst b) || rop_eqb (snd a) (snd b)) cs) cs.

Definition sig_comps (s : iol) : list key := ik_comps (ikm s).
Definition sig_vars (s : iol) : list (key * varinfo) := ik_vars (ikm s).

Definition spec_C08 (vs : list pv) (r : kres) : bool :=
  let evs := all_events vs in
  let V := ev_vars evs in let C := ev_comps evs in let K := ev_counts evs in
  match r with
  | KOk s =>
      consistent K &&
      (* components: exactly those occurring in some locale *)
      forallb (fun c => memN c C) (sig_comps s) && forallb (fun c => memN c (sig_comps s)) C &&
      (* variables: exactly the interpolated variables and the count variables of some locale *)
      forallb (fun kv => memN (fst kv) (map fst V) || memN (fst kv) (map fst K)) (sig_vars s) &&
      forallb (fun x => memN x (map fst (sig_vars s))) (map fst V ++ map fst K) &&
      (* formatters and count type of every variable *)
      forallb (fun x =>
                 match vget x (sig_vars s) with
                 | Some vi =>
                     forallb (fun f => existsb (fun vf => (fst vf =? x) && (snd vf =? f)) V) (vi_fmts vi) &&
                     forallb (fun vf => negb (fst vf =? x) || memN (snd vf) (vi_fmts vi)) V &&
                     match vi_count vi with
                     | Some t => existsb (fun kt => (fst kt =? x) && rop_eqb (snd kt) t) K
                     | None => negb (memN x (map fst K))
                     end
                 | None => false
                 end) (map fst (sig_vars s))
  | KErr EMix =>
      existsb (fun a => existsb (fun b => (fst a =? fst b) &&
                 match snd a, snd b with RRange _, RPlural | RPlural, RRange _ => true | _, _ => false end) K) K
  | KErr (EMismatch t1 t2) =>
      negb (t1 =? t2) &&
      existsb (fun a => existsb (fun b => (fst a =? fst b) && rop_eqb (snd a) (RRange t1) && rop_eqb (snd b) (RRange t2)) K) K
  | KErr ESubkeys => existsb (fun v => match v with PSubkeys => true | _ => false end) vs
  end.

(** * Foreign-key substitution with count-key threading (reference chains)

    `ParsedValue::populate(args)` as `resolve_foreign_key_inner` applies it to the (already resolved) target:
      Variable k          -> the argument named k if there is one
      Component / Bloc    -> recursively
      ForeignKey::Set(v)  -> v.populate(args): arguments reach through an already resolved reference
      Ranges / Plurals    -> `args.get("var_count")`:
                             None               => same count key, branches populated   (populate_with_new_key(self.count_key))
                             a single variable  => that variable becomes the count key  (populate_with_new_key(new))
                             a literal number   => the matching branch, populated; no count any more (populate_with_count_arg)
    Which branch a literal selects (CLDR category of the locale / range matching) is an oracle: the argument carries
    the index of the branch among `forms ++ [other]` (plural) or the branches (range). *)

Inductive parg :=
| PaVal (v : pv)                          (* the argument's value (strings are parsed, foreign keys in it resolved) *)
| PaCountLit (choice : nat) (t : littype). (* a literal number: [choice] = index of the branch it selects (oracle) *)

Definition parg_pv (a : parg) : pv := match a with PaVal v => v | PaCountLit _ t => PLit t end.
Fixpoint alookup (k : key) (args : list (key * parg)) : option parg :=
  match args with [] => None | (k', a) :: r => if k =? k' then Some a else alookup k r end.

(** [cid] = the interned name `var_count` *)
Fixpoint populate (cid : key) (args : list (key * parg)) (v : pv) {struct v} : pv :=
  match v with
  | PLit _ | PDefault | PSubkeys => v
  | PVar k f => match alookup k args with Some a => parg_pv a | None => v end
  | PComp k inner => PComp k (populate cid args inner)
  | PBloc vs => PBloc (map (populate cid args) vs)
  | PForeign inner => populate cid args inner
  | PRanges ty ck bs =>
      match alookup cid args with
      | None => PRanges ty ck (map (populate cid args) bs)
      | Some (PaVal (PVar k _)) => PRanges ty k (map (populate cid args) bs)
      | Some (PaCountLit n _) => nth n (map (populate cid args) bs) (PLit LString)
      | Some (PaVal _) => v                                     (* InvalidCountArg: outside the modelled domain *)
      end
  | PPlural ck forms other =>
      match alookup cid args with
      | None => PPlural ck (map (populate cid args) forms) (populate cid args other)
      | Some (PaVal (PVar k _)) => PPlural k (map (populate cid args) forms) (populate cid args other)
      | Some (PaCountLit n _) => nth n (map (populate cid args) forms ++ [populate cid args other]) (PLit LString)
      | Some (PaVal _) => v
      end
  end.

(** source description of a value that may contain references: the target is given by its own source description *)
Inductive src :=
| SVal (v : pv)
| SRef (target : src) (args : list (key * sarg))       (* `$t(target, {args})` *)
| SComp (k : key) (inner : src)                         (* `<k>..$t(..)..</k>` *)
| SBloc (l : list src)                                  (* text and references side by side *)
with sarg :=
| SaVal (s : src)
| SaCountLit (choice : nat) (t : littype).

Fixpoint resolve_src (cid : key) (s : src) {struct s} : pv :=
  match s with
  | SVal v => v
  | SRef target args =>
      populate cid
               (map (fun ka => (fst ka, match snd ka with
                                        | SaVal a => PaVal (resolve_src cid a)
                                        | SaCountLit n t => PaCountLit n t
                                        end)) args)
               (resolve_src cid target)
  | SComp k inner => PComp k (resolve_src cid inner)
  | SBloc l => PBloc (map (resolve_src cid) l)
  end.

(** `reduce`: a value made of literals only is one literal (several pieces are joined into a string) *)
Fixpoint lits (v : pv) : option (list littype) :=
  match v with
  | PLit t => Some [t]
  | PDefault | PSubkeys => Some []
  | PForeign i => lits i
  | PBloc vs =>
      fold_right (fun x acc => match lits x, acc with Some a, Some b => Some (a ++ b) | _, _ => None end) (Some []) vs
  | _ => None
  end.
Definition normalize (v : pv) : pv :=
  match v with
  | PBloc _ | PForeign _ =>
      match lits v with Some [t] => PLit t | Some _ => PLit LString | None => v end
  | _ => v
  end.

Definition resolve (cid : key) (s : src) : pv := normalize (resolve_src cid s).

(** the count variables a value switches on, with their kind *)
Definition count_keys (v : pv) : list (key * rop) := ev_counts (events v).

(** * Keys captured by the closure of a range / plural (code generation)

    `to_tokens_integers`, `to_tokens_floats` (leptos_i18n_macro/src/load_locales/ranges.rs) and `plurals::to_token_stream`
    collect the keys their `move ||` closure must clone first by folding `get_keys_inner(.., is_top = false)` over the
    branches, starting from `Lit(String)`; after fixes/C08-count-moved-into-range-closure.diff the count key is added. *)
Definition branch_keys (bs : list pv) : kres := fold_res (fun x s => gki x s false) bs (ILit LString).
Definition closure_keys (ck : key) (bs : list pv) : kres :=
  match branch_keys bs with
  | KOk s => KOk (IInterpol (push_var ck 0 (ikm s)))
  | e => e
  end.
(** the same fold with `is_top = true` (a seeded variant, not the repository's code): a literal-only branch resets it *)
Definition branch_keys_top (bs : list pv) : kres := fold_res (fun x s => gki x s true) bs (ILit LString).
