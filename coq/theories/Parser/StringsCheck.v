(** Executable correspondence predicate for C11: evaluated by the harness-generated case files.
    One case = one translation unit (one top locale of one namespace) of a generated project. *)
From Coq Require Import List NArith Bool.
Import ListNotations.
From LI Require Import Base.StrOps Runtime.Escape Parser.Strings.
Open Scope N_scope.

Record case := mk_case {
  c_plain : list (list str * str);   (* generator: key path -> the plain text written there *)
  c_nloc : N;                        (* generator: number of locales of the project *)
  c_tree : group;                    (* implementation: values (with indices) of the keys of the generated code *)
  c_strings : list str;              (* implementation: Locale.strings *)
  c_count : N;                       (* implementation: Locale.top_locale_string_count *)
  c_file : option str }.             (* implementation: content of the file written by write_to_dir
                                        (None: missing or not UTF-8) *)

Definition impl_out (c : case) : unit_out :=
  mk_out (c_tree c) (c_strings c) (c_count c) (match c_file c with Some f => f | None => [] end).

Definition file_ok (c : case) : bool :=
  match c_file c with Some f => spec_file (c_strings c) f | None => false end.

(** 0 = agree and spec holds; 2 = implementation differs from the model (spec holds); 3 = spec violated *)
Definition check (c : case) : N :=
  let spec_ok := match c_file c with Some _ => spec_C11 (c_plain c) (c_nloc c) (impl_out c) | None => false end in
  let m := index_locale (c_tree c) in
  let agree := group_eqb (o_tree m) (c_tree c) && strs_eqb (o_strings m) (c_strings c)
               && (o_count m =? c_count c)
               && match c_file c with Some f => str_eqb (o_file m) f | None => false end in
  if negb spec_ok then 3 else if negb agree then 2 else 0.

(** [check] plus 10 when the file part of the spec holds (compared with Python's json module) *)
Definition check_x (c : case) : N := check c + (if file_ok c then 10 else 0).

(** One namespace of a project: the value trees of its locales in merge order (default first) and the final state
    of the keys (`InterpolOrLit`: literal of one type in every locale, or a builder) as the implementation left it.
    0 = the model's fold over the locales ends in the same state; 1 = the model reports an error where the
    implementation did not (outside the modelled domain); 2 = the states differ.  (Values and tables are compared
    unit by unit by [check].) *)
Record nscase := mk_nscase {
  n_trees : list group;
  n_kinds : ikeys }.

Definition check_ns (c : nscase) : N :=
  match check_locales (n_trees c) with
  | None => 1
  | Some (_, ikf) => if ikeys_eqb ikf (n_kinds c) then 0 else 2
  end.
