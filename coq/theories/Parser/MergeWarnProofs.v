(** C07: the MissingKey / SurplusKey warnings produced by the model of Locale::merge are, as a
    multiset, exactly the ones the independent specification (MergeCheck.expected_warnings)
    calls for.  Final theorem: [warnings_exact]. *)
From Coq Require Import List NArith Bool Arith Lia Permutation.
Import ListNotations.
From LI Require Import Parser.Merge Parser.MergeCheck Parser.MergeWf Parser.MergeProofs.
Open Scope N_scope.

(** * [perm_eqb] from [Permutation] *)
Lemma mw_list_eqb_refl : forall a, list_eqb a a = true.
Proof.
  induction a as [|x a IH]; cbn [list_eqb]; [reflexivity|]. now rewrite N.eqb_refl, IH.
Qed.
Lemma mw_list_eqb_eq : forall a b, list_eqb a b = true -> a = b.
Proof.
  induction a as [|x a IH]; intros [|y b] H; cbn [list_eqb] in H; try discriminate; [reflexivity|].
  apply andb_true_iff in H. destruct H as [H1 H2]. apply N.eqb_eq in H1. subst y. f_equal. now apply IH.
Qed.
Lemma mw_opt_eqb_refl : forall a, opt_eqb a a = true.
Proof. intros [x|]; cbn [opt_eqb]; [apply N.eqb_refl | reflexivity]. Qed.
Lemma mw_opt_eqb_eq : forall a b, opt_eqb a b = true -> a = b.
Proof.
  intros [x|] [y|] H; cbn [opt_eqb] in H; try discriminate; [|reflexivity].
  apply N.eqb_eq in H. now subst.
Qed.
Lemma warning_eqb_refl : forall w, warning_eqb w w = true.
Proof.
  intros [l n p|l n p]; cbn [warning_eqb]; unfold onskey_eqb;
    now rewrite N.eqb_refl, mw_opt_eqb_refl, mw_list_eqb_refl.
Qed.
Lemma warning_eqb_eq : forall a b, warning_eqb a b = true -> a = b.
Proof.
  intros [l n p|l n p] [l' n' p'|l' n' p'] H; cbn [warning_eqb] in H; try discriminate;
    apply andb_true_iff in H; destruct H as [H H3]; apply andb_true_iff in H; destruct H as [H1 H2];
    apply N.eqb_eq in H1; apply mw_opt_eqb_eq in H2; apply mw_list_eqb_eq in H3; now subst.
Qed.

Section PermEqb.
  Variable A : Type.
  Variable eqb : A -> A -> bool.
  Hypothesis eqb_refl : forall x, eqb x x = true.
  Hypothesis eqb_eq : forall x y, eqb x y = true -> x = y.

  Lemma remove_first_perm : forall x b, In x b ->
    exists b', remove_first eqb x b = Some b' /\ Permutation b (x :: b').
  Proof.
    intros x. induction b as [|y r IH]; intros Hin; [contradiction|].
    cbn [remove_first]. destruct (eqb x y) eqn:He.
    - apply eqb_eq in He. subst y. exists r. split; [reflexivity | apply Permutation_refl].
    - destruct Hin as [Hin|Hin]; [subst y; rewrite eqb_refl in He; discriminate|].
      destruct (IH Hin) as [r' [Hr Hp]]. rewrite Hr. exists (y :: r'). split; [reflexivity|].
      eapply Permutation_trans; [apply perm_skip; exact Hp | apply perm_swap].
  Qed.

  Lemma perm_eqb_of_Permutation : forall a b, Permutation a b -> perm_eqb eqb a b = true.
  Proof.
    induction a as [|x r IH]; intros b Hp.
    - apply Permutation_nil in Hp. subst b. reflexivity.
    - cbn [perm_eqb].
      assert (Hin : In x b) by (eapply Permutation_in; [exact Hp | now left]).
      destruct (remove_first_perm x b Hin) as [b' [Hr Hb]]. rewrite Hr. apply IH.
      eapply Permutation_cons_inv. eapply Permutation_trans; [exact Hp | exact Hb].
  Qed.
End PermEqb.

(** * generic list facts *)
Lemma mw_flat_map_map : forall (X Y Z : Type) (f : Y -> list Z) (g : X -> Y) l,
  flat_map f (map g l) = flat_map (fun x => f (g x)) l.
Proof.
  intros X Y Z f g. induction l as [|x l IH]; cbn [map flat_map]; [reflexivity|]. now rewrite IH.
Qed.
Lemma mw_flat_map_ext_in : forall (X Y : Type) (f g : X -> list Y) l,
  (forall x, In x l -> f x = g x) -> flat_map f l = flat_map g l.
Proof.
  intros X Y f g. induction l as [|x l IH]; intros H; cbn [flat_map]; [reflexivity|].
  rewrite (H x (or_introl eq_refl)), IH; [reflexivity|]. intros y Hy. apply H. now right.
Qed.
Lemma mw_flat_map_nil : forall (X Y : Type) (f : X -> list Y) l,
  (forall x, In x l -> f x = []) -> flat_map f l = [].
Proof.
  intros X Y f. induction l as [|x l IH]; intros H; cbn [flat_map]; [reflexivity|].
  rewrite (H x (or_introl eq_refl)), IH; [reflexivity|]. intros y Hy. apply H. now right.
Qed.

Lemma perm_4 : forall (X : Type) (a b c d : list X),
  Permutation ((a ++ b) ++ (c ++ d)) ((a ++ c) ++ (b ++ d)).
Proof.
  intros X a b c d. rewrite <- !app_assoc. apply Permutation_app_head.
  rewrite !app_assoc. apply Permutation_app_tail. apply Permutation_app_comm.
Qed.

(** * Structural reference lists *)
Section Ref.
  Variable E : list key -> list warning.

  (* walk [A]; look every key up in [B]; emit at keys absent from [B]; descend into common groups *)
  Fixpoint ref_t (a b : tree) (path : list key) : list warning :=
    match a with
    | Group g => match b with Group h => ref_f g h path | _ => [] end
    | _ => []
    end
  with ref_f (A B : forest) (path : list key) : list warning :=
    match A with
    | FNil => []
    | FCons k t r =>
        match forest_get B k with
        | None => E (path ++ [k])
        | Some v => ref_t t v (path ++ [k])
        end ++ ref_f r B path
    end.

  (* top-level part of [ref_f f D] *)
  Fixpoint top_s (f D : forest) (path : list key) : list warning :=
    match f with
    | FNil => []
    | FCons k _ r =>
        match forest_get D k with None => E (path ++ [k]) | Some _ => [] end ++ top_s r D path
    end.
  (* nested part of [ref_f f D] *)
  Fixpoint cm_s (f D : forest) (path : list key) : list warning :=
    match f with
    | FNil => []
    | FCons k v r =>
        match forest_get D k with Some d => ref_t v d (path ++ [k]) | None => [] end ++ cm_s r D path
    end.

  (* the surplus warnings in the order the merge emits them: walk the default side [D] *)
  Fixpoint sm_t (d v : tree) (path : list key) : list warning :=
    match d with
    | Group g => match v with Group h => sm_c g h path ++ top_s h g path | _ => [] end
    | _ => []
    end
  with sm_c (D f : forest) (path : list key) : list warning :=
    match D with
    | FNil => []
    | FCons k t r =>
        match forest_get f k with Some v => sm_t t v (path ++ [k]) | None => [] end ++ sm_c r f path
    end.

  (* the specification's flat enumeration, relative to a path prefix *)
  Definition phi (B : forest) (path : list key) (p : list key) : list warning :=
    if parent_is_group B p && match forest_at B p with None => true | Some _ => false end
    then E (path ++ p) else [].
  Definition flat_ref (A B : forest) (path : list key) : list warning :=
    flat_map (fun pb : list key * bool => phi B path (fst pb)) (forest_paths A []).
End Ref.

Lemma ref_f_cons : forall E k t r B path,
  ref_f E (FCons k t r) B path
  = match forest_get B k with None => E (path ++ [k]) | Some v => ref_t E t v (path ++ [k]) end
    ++ ref_f E r B path.
Proof. reflexivity. Qed.
Lemma sm_c_cons : forall E k t r f path,
  sm_c E (FCons k t r) f path
  = match forest_get f k with Some v => sm_t E t v (path ++ [k]) | None => [] end ++ sm_c E r f path.
Proof. reflexivity. Qed.
Lemma ref_t_group : forall E g h path, ref_t E (Group g) (Group h) path = ref_f E g h path.
Proof. reflexivity. Qed.
Lemma sm_t_group : forall E g h path,
  sm_t E (Group g) (Group h) path = sm_c E g h path ++ top_s E h g path.
Proof. reflexivity. Qed.

(** * Re-rooting of path enumerations *)
Lemma paths_reroot : forall pre,
  (forall t p, tree_paths t (pre ++ p) = map (fun pb => (pre ++ fst pb, snd pb)) (tree_paths t p))
  /\ (forall f p, forest_paths f (pre ++ p) = map (fun pb => (pre ++ fst pb, snd pb)) (forest_paths f p)).
Proof.
  intros pre. apply tree_forest_mutind.
  - intros x p. reflexivity.
  - intros p. reflexivity.
  - intros g IH p. cbn [tree_paths map fst snd]. now rewrite IH.
  - intros p. reflexivity.
  - intros k t IHt r IHr p. cbn [forest_paths]. rewrite map_app, <- IHr, <- IHt, app_assoc. reflexivity.
Qed.

Lemma paths_nonempty :
  (forall t p pb, p <> [] -> In pb (tree_paths t p) -> fst pb <> [])
  /\ (forall f p pb, In pb (forest_paths f p) -> fst pb <> []).
Proof.
  apply tree_forest_mutind.
  - intros x p pb Hp [<-|[]]. exact Hp.
  - intros p pb Hp [<-|[]]. exact Hp.
  - intros g IH p pb Hp [<-|Hin]; [exact Hp | eapply IH; eauto].
  - intros p pb [].
  - intros k t IHt r IHr p pb Hin. cbn [forest_paths] in Hin. apply in_app_or in Hin.
    destruct Hin as [Hin|Hin]; [|eapply IHr; eauto].
    eapply IHt; [|exact Hin]. destruct p; discriminate.
Qed.

Lemma forest_at_cons_ne : forall B k q, q <> [] ->
  forest_at B (k :: q) = match forest_get B k with Some (Group h) => forest_at h q | _ => None end.
Proof.
  intros B k q Hq. rewrite forest_at_cons. destruct (forest_get B k) as [t|]; [|reflexivity].
  destruct q as [|x q]; [congruence|]. cbn [tree_at]. destruct t; reflexivity.
Qed.

Lemma pig_cons_ne : forall B k q, q <> [] ->
  parent_is_group B (k :: q) = match forest_get B k with Some (Group h) => parent_is_group h q | _ => false end.
Proof.
  intros B k q Hq. unfold parent_is_group. destruct q as [|x q]; [congruence|].
  change (removelast (k :: x :: q)) with (k :: removelast (x :: q)).
  destruct (removelast (x :: q)) as [|y q'] eqn:Hr.
  - cbn [forest_at]. destruct (forest_get B k) as [[z| |h]|]; reflexivity.
  - rewrite forest_at_cons_ne by discriminate. destruct (forest_get B k) as [[z| |h]|]; reflexivity.
Qed.

Lemma phi_single : forall E B path k,
  phi E B path [k] = match forest_get B k with None => E (path ++ [k]) | Some _ => [] end.
Proof.
  intros E B path k. unfold phi, parent_is_group. cbn [removelast forest_at andb].
  destruct (forest_get B k); reflexivity.
Qed.

Lemma phi_cons_ne : forall E B path k q, q <> [] ->
  phi E B path (k :: q)
  = match forest_get B k with Some (Group h) => phi E h (path ++ [k]) q | _ => [] end.
Proof.
  intros E B path k q Hq. unfold phi. rewrite pig_cons_ne, forest_at_cons_ne by assumption.
  destruct (forest_get B k) as [[z| |h]|]; try reflexivity.
  rewrite <- app_assoc. reflexivity.
Qed.

Lemma ref_flat_mut : forall E,
  (forall a k B path,
     flat_map (fun pb : list key * bool => phi E B path (fst pb)) (tree_paths a [k])
     = match forest_get B k with None => E (path ++ [k]) | Some v => ref_t E a v (path ++ [k]) end)
  /\ (forall A B path, flat_ref E A B path = ref_f E A B path).
Proof.
  intros E. apply tree_forest_mutind.
  - intros x k B path. cbn [tree_paths flat_map fst]. rewrite phi_single, app_nil_r.
    destruct (forest_get B k); reflexivity.
  - intros k B path. cbn [tree_paths flat_map fst]. rewrite phi_single, app_nil_r.
    destruct (forest_get B k); reflexivity.
  - intros g IH k B path. cbn [tree_paths flat_map fst]. rewrite phi_single.
    change (forest_paths g [k]) with (forest_paths g ([k] ++ [])).
    rewrite (proj2 (paths_reroot [k])), mw_flat_map_map.
    destruct (forest_get B k) as [[z| |h]|] eqn:Hg; cbn [app ref_t].
    + apply mw_flat_map_nil. intros pb Hin. cbn [fst].
      rewrite phi_cons_ne by (eapply (proj2 paths_nonempty); eauto). now rewrite Hg.
    + apply mw_flat_map_nil. intros pb Hin. cbn [fst].
      rewrite phi_cons_ne by (eapply (proj2 paths_nonempty); eauto). now rewrite Hg.
    + rewrite <- IH. unfold flat_ref. apply mw_flat_map_ext_in. intros pb Hin. cbn [fst].
      rewrite phi_cons_ne by (eapply (proj2 paths_nonempty); eauto). now rewrite Hg.
    + rewrite <- (app_nil_r (E (path ++ [k]))) at 2. f_equal.
      apply mw_flat_map_nil. intros pb Hin. cbn [fst].
      rewrite phi_cons_ne by (eapply (proj2 paths_nonempty); eauto). now rewrite Hg.
  - intros B path. reflexivity.
  - intros k t IHt r IHr B path. unfold flat_ref. cbn [forest_paths app ref_f].
    rewrite flat_map_app, IHt. f_equal. apply IHr.
Qed.

Lemma ref_flat : forall E A B path, ref_f E A B path = flat_ref E A B path.
Proof. intros E A B path. symmetry. apply (proj2 (ref_flat_mut E)). Qed.

(** * The builder keys carry the default file: skeleton and [first_keys] invariant *)
Fixpoint skel_b (b : bk) : tree :=
  match b with BValue p _ => Leaf p | BSub _ ks => Group (skel ks) end
with skel (ks : bks) : forest :=
  match ks with BNil => FNil | BCons k b r => FCons k (skel_b b) (skel r) end.

(* LocaleValue::Subkeys.locales[0] lists exactly the keys of the group *)
Fixpoint wfk_b (b : bk) : Prop :=
  match b with BValue _ _ => True | BSub fk ks => fk = forest_keys (skel ks) /\ wfk ks end
with wfk (ks : bks) : Prop :=
  match ks with BNil => True | BCons _ b r => wfk_b b /\ wfk r end.

Lemma mk_skel_mut : forall dflt ns,
  (forall t path b, mk_value dflt ns path t = Ok b -> skel_b b = t /\ wfk_b b)
  /\ (forall f path ks, mk_keys dflt ns path f = Ok ks -> skel ks = f /\ wfk ks).
Proof.
  intros dflt ns. apply tree_forest_mutind.
  - intros p path b H. cbn [mk_value] in H. injection H as <-. cbn [skel_b wfk_b]. now split.
  - intros path b H. discriminate.
  - intros g IH path b H. cbn [mk_value] in H.
    destruct (mk_keys dflt ns path g) as [ks| | |] eqn:Hk; try discriminate. injection H as <-.
    destruct (IH _ _ Hk) as [Hs Hw]. cbn [skel_b wfk_b]. rewrite Hs. now split.
  - intros path ks H. cbn [mk_keys] in H. injection H as <-. cbn [skel wfk]. now split.
  - intros k t IHt r IHr path ks H. cbn [mk_keys] in H.
    destruct (mk_value dflt ns (path ++ [k]) t) as [b| | |] eqn:Hv; try discriminate.
    destruct (mk_keys dflt ns path r) as [bs| | |] eqn:Hr; try discriminate. injection H as <-.
    destruct (IHt _ _ Hv) as [Hs1 Hw1]. destruct (IHr _ _ Hr) as [Hs2 Hw2].
    cbn [skel wfk]. rewrite Hs1, Hs2. now split.
Qed.

Lemma merge_skel_mut : forall suppress top dt ns,
  (forall b v path b' ws, merge_value suppress top dt ns b v path = Ok (b', ws) ->
     skel_b b' = skel_b b /\ (wfk_b b -> wfk_b b'))
  /\ (forall ks f path ks' ws, merge_keys suppress top dt ns ks f path = Ok (ks', ws) ->
     skel ks' = skel ks /\ (wfk ks -> wfk ks')).
Proof.
  intros suppress top dt ns. apply bk_bks_mutind.
  - intros p d v path b' ws H. cbn [merge_value] in H.
    destruct v as [x| |g]; [| |discriminate]; injection H as <- <-; cbn [skel_b wfk_b]; now split.
  - intros fk ks IH v path b' ws H. cbn [merge_value] in H.
    destruct v as [x| |g]; [discriminate| |]; unfold finish_locale in H.
    + destruct (merge_keys suppress top dt ns ks (dummy_forest fk) path) as [[ks' w]| | |] eqn:Hm; try discriminate.
      injection H as <- <-. destruct (IH _ _ _ _ Hm) as [Hs Hw]. cbn [skel_b wfk_b]. rewrite Hs.
      split; [reflexivity|]. intros [H1 H2]. split; [assumption | now apply Hw].
    + destruct (merge_keys suppress top dt ns ks g path) as [[ks' w]| | |] eqn:Hm; try discriminate.
      injection H as <- <-. destruct (IH _ _ _ _ Hm) as [Hs Hw]. cbn [skel_b wfk_b]. rewrite Hs.
      split; [reflexivity|]. intros [H1 H2]. split; [assumption | now apply Hw].
  - intros f path ks' ws H. cbn [merge_keys] in H. injection H as <- <-. now split.
  - intros k b IHb r IHr f path ks' ws H. cbn [merge_keys] in H.
    destruct (merge_value suppress top dt ns b
                (fst match forest_get f k with
                     | Some v => (v, [])
                     | None => (Null, if is_implicit dt then [WMissing top ns (path ++ [k])] else [])
                     end) (path ++ [k])) as [[b1 w1]| | |] eqn:Hv; try discriminate.
    destruct (merge_keys suppress top dt ns r f path) as [[r1 w2]| | |] eqn:Hr; try discriminate.
    injection H as <- <-. destruct (IHb _ _ _ _ Hv) as [Hs1 Hw1]. destruct (IHr _ _ _ _ Hr) as [Hs2 Hw2].
    cbn [skel wfk]. rewrite Hs1, Hs2. split; [reflexivity|]. intros [H1 H2]. split; auto.
Qed.

(** * The dummy locale of the Default x Subkeys arm produces no warning *)
Lemma dummy_get_in : forall l k, In k l -> forest_get (dummy_forest l) k = Some Null.
Proof.
  induction l as [|k0 l IH]; intros k Hin; [contradiction|]. cbn [dummy_forest forest_get].
  destruct (k =? k0) eqn:He; [reflexivity|]. destruct Hin as [Hin|Hin]; [|now apply IH].
  subst k0. now rewrite N.eqb_refl in He.
Qed.

Lemma forest_get_in_keys : forall D k, In k (forest_keys D) -> exists t, forest_get D k = Some t.
Proof.
  induction D as [|k0 t r IH]; intros k Hin; [contradiction|]. cbn [forest_keys] in Hin. cbn [forest_get].
  destruct (k =? k0) eqn:He; [eauto|]. destruct Hin as [Hin|Hin]; [|now apply IH].
  subst k0. now rewrite N.eqb_refl in He.
Qed.

Lemma ref_t_null : forall E a path, ref_t E a Null path = [].
Proof. intros E [x| |g] path; reflexivity. Qed.
Lemma sm_t_null : forall E a path, sm_t E a Null path = [].
Proof. intros E [x| |g] path; reflexivity. Qed.

Lemma ref_f_dummy : forall E D l path, incl (forest_keys D) l -> ref_f E D (dummy_forest l) path = [].
Proof.
  intros E. induction D as [|k t r IH]; intros l path Hincl; [reflexivity|]. rewrite ref_f_cons.
  cbn [forest_keys] in Hincl. rewrite (dummy_get_in l k) by (apply Hincl; now left).
  cbv beta iota. rewrite ref_t_null. cbn [app]. apply IH. intros x Hx. apply Hincl. now right.
Qed.

Lemma sm_c_dummy : forall E D l path, sm_c E D (dummy_forest l) path = [].
Proof.
  intros E. induction D as [|k t r IH]; intros l path; [reflexivity|]. rewrite sm_c_cons.
  destruct (dummy_forest_get l k) as [H|H]; rewrite H; cbv beta iota; [|rewrite sm_t_null]; cbn [app]; apply IH.
Qed.

Lemma top_s_dummy : forall E D l path, incl l (forest_keys D) -> top_s E (dummy_forest l) D path = [].
Proof.
  intros E D. induction l as [|k l IH]; intros path Hincl; [reflexivity|]. cbn [dummy_forest top_s].
  destruct (forest_get_in_keys D k) as [t Ht]; [apply Hincl; now left|]. rewrite Ht. cbn [app].
  apply IH. intros x Hx. apply Hincl. now right.
Qed.

(** * The reverse comparison of Locale::merge *)
Lemma bks_mem_skel : forall ks k,
  bks_mem k ks = match forest_get (skel ks) k with Some _ => true | None => false end.
Proof.
  induction ks as [|k0 b r IH]; intros k; [reflexivity|]. cbn [bks_mem skel forest_get].
  destruct (k =? k0); cbn [orb]; [reflexivity | apply IH].
Qed.

Definition Es (suppress : bool) (top : loc) (ns : option key) (p : list key) : list warning :=
  if suppress then [] else [WSurplus top ns p].
Definition Em (dt : default_to) (top : loc) (ns : option key) (p : list key) : list warning :=
  if is_implicit dt then [WMissing top ns p] else [].

Lemma surplus_top : forall (suppress : bool) top ns f ks path,
  (if suppress then @nil warning else surplus_ws f ks top ns path) = top_s (Es suppress top ns) f (skel ks) path.
Proof.
  intros suppress top ns f ks path. induction f as [|k t r IH]; [now destruct suppress|].
  cbn [top_s]. rewrite <- IH. unfold Es. destruct suppress.
  - destruct (forest_get (skel ks) k); reflexivity.
  - cbn [surplus_ws]. rewrite bks_mem_skel. destruct (forest_get (skel ks) k); reflexivity.
Qed.

(** * Core: what one merge emits, in terms of the structural reference lists *)
Lemma merge_warn_mut : forall suppress top dt ns,
  (forall b v path b' ws, wfk_b b -> merge_value suppress top dt ns b v path = Ok (b', ws) ->
     Permutation ws (ref_t (Em dt top ns) (skel_b b) v path ++ sm_t (Es suppress top ns) (skel_b b) v path))
  /\ (forall ks f path ks' ws, wfk ks -> merge_keys suppress top dt ns ks f path = Ok (ks', ws) ->
     Permutation ws (ref_f (Em dt top ns) (skel ks) f path ++ sm_c (Es suppress top ns) (skel ks) f path)).
Proof.
  intros suppress top dt ns. apply bk_bks_mutind.
  - (* BValue *) intros p d v path b' ws Hwf H. cbn [merge_value] in H.
    destruct v as [x| |g]; [| |discriminate]; injection H as <- <-; apply Permutation_refl.
  - (* BSub *) intros fk ks IH v path b' ws [Hfk Hwf] H. cbn [merge_value] in H.
    destruct v as [x| |g]; [discriminate| |]; unfold finish_locale in H.
    + destruct (merge_keys suppress top dt ns ks (dummy_forest fk) path) as [[ks' w]| | |] eqn:Hm; try discriminate.
      injection H as <- <-. specialize (IH _ _ _ _ Hwf Hm). rewrite surplus_top. subst fk.
      rewrite ref_f_dummy, sm_c_dummy in IH by apply incl_refl.
      rewrite top_s_dummy by apply incl_refl. cbn [app] in IH. apply Permutation_sym, Permutation_nil in IH. subst w. apply Permutation_refl.
    + destruct (merge_keys suppress top dt ns ks g path) as [[ks' w]| | |] eqn:Hm; try discriminate.
      injection H as <- <-. specialize (IH _ _ _ _ Hwf Hm). rewrite surplus_top.
      cbn [skel_b]. rewrite ref_t_group, sm_t_group, app_assoc. apply Permutation_app_tail. exact IH.
  - (* BNil *) intros f path ks' ws Hwf H. cbn [merge_keys] in H. injection H as <- <-. apply Permutation_refl.
  - (* BCons *) intros k b IHb r IHr f path ks' ws [Hwb Hwr] H. cbn [merge_keys] in H.
    destruct (merge_value suppress top dt ns b
                (fst match forest_get f k with
                     | Some v => (v, [])
                     | None => (Null, if is_implicit dt then [WMissing top ns (path ++ [k])] else [])
                     end) (path ++ [k])) as [[b1 w1]| | |] eqn:Hv; try discriminate.
    destruct (merge_keys suppress top dt ns r f path) as [[r1 w2]| | |] eqn:Hr; try discriminate.
    injection H as <- <-. specialize (IHb _ _ _ _ Hwb Hv). specialize (IHr _ _ _ _ Hwr Hr).
    cbn [skel]. rewrite ref_f_cons, sm_c_cons. destruct (forest_get f k) as [v|]; cbn [fst snd] in *.
    + cbn [app]. eapply Permutation_trans; [apply Permutation_app; [exact IHb | exact IHr]|]. apply perm_4.
    + rewrite ref_t_null, sm_t_null in IHb. cbn [app] in IHb. apply Permutation_sym, Permutation_nil in IHb. subst w1. cbn [app].
      fold (Em dt top ns (path ++ [k])). rewrite <- app_assoc. apply Permutation_app_head. exact IHr.
Qed.

(** * Walking the default side or the locale side gives the same surplus warnings *)
Lemma forest_get_nodup : forall f k v,
  forest_nodup f = true -> forest_get f k = Some v -> tree_nodup v = true.
Proof.
  induction f as [|k0 t r IH]; intros k v Hnd Hg; [discriminate|].
  cbn [forest_nodup] in Hnd. apply andb_true_iff in Hnd. destruct Hnd as [Hnd Hr].
  apply andb_true_iff in Hnd. destruct Hnd as [_ Ht]. cbn [forest_get] in Hg.
  destruct (k =? k0); [injection Hg as <-; exact Ht | eapply IH; eauto].
Qed.

Lemma ref_split : forall E f D path,
  Permutation (ref_f E f D path) (top_s E f D path ++ cm_s E f D path).
Proof.
  intros E. induction f as [|k v r IH]; intros D path; [apply Permutation_refl|].
  rewrite ref_f_cons. cbn [top_s cm_s]. specialize (IH D path).
  destruct (forest_get D k) as [d|].
  - cbn [app]. eapply Permutation_trans; [apply Permutation_app_head; exact IH|].
    apply Permutation_app_swap_app.
  - rewrite <- app_assoc. cbn [app]. apply Permutation_app_head. exact IH.
Qed.

Lemma cm_s_nil : forall E f path, cm_s E f FNil path = [].
Proof. intros E. induction f as [|k v r IH]; intros path; [reflexivity|]. cbn [cm_s forest_get app]. apply IH. Qed.

Lemma cm_s_peel : forall E f k t r path,
  forest_nodup f = true -> forest_get r k = None ->
  Permutation (cm_s E f (FCons k t r) path)
              (match forest_get f k with Some v => ref_t E v t (path ++ [k]) | None => [] end ++ cm_s E f r path).
Proof.
  intros E. induction f as [|k' v' r' IH]; intros k t r path Hnd Hrk; [apply Permutation_refl|].
  cbn [forest_nodup] in Hnd. apply andb_true_iff in Hnd. destruct Hnd as [Hnd Hr'].
  apply andb_true_iff in Hnd. destruct Hnd as [Hk' _].
  specialize (IH k t r path Hr' Hrk). cbn [cm_s forest_get].
  destruct (k' =? k) eqn:He.
  - apply N.eqb_eq in He. subst k'. rewrite N.eqb_refl, Hrk.
    destruct (forest_get r' k); [discriminate|]. cbn [app] in *.
    apply Permutation_app_head. exact IH.
  - rewrite N.eqb_sym, He.
    eapply Permutation_trans; [apply Permutation_app_head; exact IH|]. apply Permutation_app_swap_app.
Qed.

Lemma swap_mut : forall E,
  (forall d v path, tree_nodup d = true -> tree_nodup v = true ->
     Permutation (sm_t E d v path) (ref_t E v d path))
  /\ (forall D f path, forest_nodup D = true -> forest_nodup f = true ->
     Permutation (sm_c E D f path) (cm_s E f D path)).
Proof.
  intros E. apply tree_forest_mutind.
  - intros x v path _ _. destruct v as [y| |h]; apply Permutation_refl.
  - intros v path _ _. destruct v as [y| |h]; apply Permutation_refl.
  - intros g IH v path Hg Hv. destruct v as [y| |h]; try apply Permutation_refl.
    rewrite sm_t_group, ref_t_group. cbn [tree_nodup] in Hg, Hv.
    eapply Permutation_trans; [|apply Permutation_sym, ref_split].
    eapply Permutation_trans; [apply Permutation_app_comm|].
    apply Permutation_app_head. now apply IH.
  - intros f path _ _. rewrite cm_s_nil. apply Permutation_refl.
  - intros k t IHt r IHr f path HD Hf. rewrite sm_c_cons.
    cbn [forest_nodup] in HD. apply andb_true_iff in HD. destruct HD as [HD Hr].
    apply andb_true_iff in HD. destruct HD as [Hk Ht].
    assert (Hrk : forest_get r k = None) by (destruct (forest_get r k); [discriminate | reflexivity]).
    eapply Permutation_trans; [|apply Permutation_sym, cm_s_peel; assumption].
    apply Permutation_app; [|now apply IHr].
    destruct (forest_get f k) as [v|] eqn:Hg; [|apply Permutation_refl].
    apply IHt; [assumption | eapply forest_get_nodup; eauto].
Qed.

(** * One locale merged into the builder keys *)
Lemma merge_locale_warn : forall suppress top dt ns ks f path ks' ws,
  wfk ks -> forest_nodup (skel ks) = true -> forest_nodup f = true ->
  merge_locale suppress top dt ns ks f path = Ok (ks', ws) ->
  Permutation ws (ref_f (Em dt top ns) (skel ks) f path ++ ref_f (Es suppress top ns) f (skel ks) path)
  /\ skel ks' = skel ks /\ wfk ks'.
Proof.
  intros suppress top dt ns ks f path ks' ws Hwf HD Hf H. unfold merge_locale, finish_locale in H.
  destruct (merge_keys suppress top dt ns ks f path) as [[ks1 w]| | |] eqn:Hm; try discriminate.
  injection H as <- <-. destruct (proj2 (merge_skel_mut _ _ _ _) _ _ _ _ _ Hm) as [Hs Hw].
  split; [|split; [assumption | now apply Hw]].
  pose proof (proj2 (merge_warn_mut _ _ _ _) _ _ _ _ _ Hwf Hm) as Hp. rewrite surplus_top.
  eapply Permutation_trans; [apply Permutation_app_tail; exact Hp|]. rewrite <- app_assoc.
  apply Permutation_app_head.
  eapply Permutation_trans; [|apply Permutation_sym, ref_split].
  eapply Permutation_trans; [apply Permutation_app_comm|].
  apply Permutation_app_head. now apply (proj2 (swap_mut _)).
Qed.

(** * The reference lists are the specification's expected warnings *)
Lemma em_expected : forall c ns df dflt l f,
  ref_f (Em (choose_default_to (c_ext c) (c_suppress c) dflt l) l ns) df f []
  = expected_missing c ns df (l, f).
Proof.
  intros c ns df dflt l f. rewrite ref_flat. unfold flat_ref, expected_missing, phi, Em, choose_default_to.
  cbn [fst snd]. destruct (map_get (c_ext c) l) as [d|].
  - rewrite orb_true_r. apply mw_flat_map_nil. intros pb _. cbn [is_implicit].
    now destruct (parent_is_group f (fst pb) && match forest_at f (fst pb) with None => true | Some _ => false end).
  - rewrite orb_false_r. destruct (c_suppress c).
    + apply mw_flat_map_nil. intros pb _. cbn [is_implicit].
      now destruct (parent_is_group f (fst pb) && match forest_at f (fst pb) with None => true | Some _ => false end).
    + reflexivity.
Qed.

Lemma es_expected : forall c ns df l f,
  ref_f (Es (c_suppress c) l ns) f df [] = expected_surplus c ns df (l, f).
Proof.
  intros c ns df l f. rewrite ref_flat. unfold flat_ref, expected_surplus, phi, Es. cbn [fst snd].
  destruct (c_suppress c).
  - apply mw_flat_map_nil. intros pb _.
    now destruct (parent_is_group df (fst pb) && match forest_at df (fst pb) with None => true | Some _ => false end).
  - reflexivity.
Qed.

(** * All locales of a namespace *)
Lemma merge_all_warn : forall c dflt ns df rest ks ks' ws,
  skel ks = df -> wfk ks -> forest_nodup df = true ->
  forallb (fun lf : loc * forest => forest_nodup (snd lf)) rest = true ->
  merge_all (c_ext c) (c_suppress c) dflt ns ks rest = Ok (ks', ws) ->
  Permutation ws (flat_map (fun lf => expected_missing c ns df lf ++ expected_surplus c ns df lf) rest).
Proof.
  intros c dflt ns df. induction rest as [|[l f] rest IH]; intros ks ks' ws Hs Hwf HD Hnd H; cbn [merge_all] in H.
  - injection H as <- <-. apply Permutation_refl.
  - cbn [forallb snd] in Hnd. apply andb_true_iff in Hnd. destruct Hnd as [Hf Hrest].
    destruct (merge_locale (c_suppress c) l (choose_default_to (c_ext c) (c_suppress c) dflt l) ns ks f [])
      as [[ks1 w1]| | |] eqn:Hm; try discriminate.
    destruct (merge_all (c_ext c) (c_suppress c) dflt ns ks1 rest) as [[ks2 w2]| | |] eqn:Hr; try discriminate.
    injection H as <- <-.
    assert (HD' : forest_nodup (skel ks) = true) by now rewrite Hs.
    destruct (merge_locale_warn _ _ _ _ _ _ _ _ _ Hwf HD' Hf Hm) as [Hp [Hs1 Hw1]].
    rewrite Hs in Hp. rewrite em_expected, es_expected in Hp.
    cbn [flat_map]. apply Permutation_app; [exact Hp|].
    apply (IH ks1 ks2 w2); try assumption. now rewrite Hs1.
Qed.

Lemma inner_warn : forall c ns locs,
  forallb (fun lf : loc * forest => forest_nodup (snd lf)) locs = true ->
  match check_locales_inner (c_ext c) (c_suppress c) ns locs with
  | Ok (_, ws) => Permutation ws (expected_warnings_ns c (ns, locs))
  | _ => True
  end.
Proof.
  intros c ns [|[dflt df] rest] Hnd; cbn [check_locales_inner]; [exact I|].
  cbn [forallb snd] in Hnd. apply andb_true_iff in Hnd. destruct Hnd as [HD Hrest].
  destruct (mk_keys dflt ns [] df) as [ks0| | |] eqn:Hk; try exact I.
  destruct (proj2 (mk_skel_mut dflt ns) _ _ _ Hk) as [Hs Hwf].
  destruct (merge_all (c_ext c) (c_suppress c) dflt ns ks0 rest) as [[ks ws]| | |] eqn:Hm; try exact I.
  unfold expected_warnings_ns. cbn [fst snd].
  eapply merge_all_warn; eauto.
Qed.

Lemma check_locales_warn : forall c nss,
  forallb (fun nf : nsfiles => forallb (fun lf : loc * forest => forest_nodup (snd lf)) (snd nf)) nss = true ->
  match check_locales (c_ext c) (c_suppress c) nss with
  | Ok (_, ws) => Permutation ws (flat_map (expected_warnings_ns c) nss)
  | _ => True
  end.
Proof.
  intros c. induction nss as [|[ns locs] rest IH]; intros Hnd; cbn [check_locales].
  - apply Permutation_refl.
  - cbn [forallb snd] in Hnd. apply andb_true_iff in Hnd. destruct Hnd as [Hlocs Hrest].
    pose proof (inner_warn c ns locs Hlocs) as Hi. specialize (IH Hrest).
    destruct (check_locales_inner (c_ext c) (c_suppress c) ns locs) as [[ks w1]| | |]; try exact I.
    destruct (check_locales (c_ext c) (c_suppress c) rest) as [[out w2]| | |]; try exact I.
    cbn [flat_map]. now apply Permutation_app.
Qed.

(** Permutation form of the final theorem (only the BTreeMap invariant is needed) *)
Theorem warnings_exact_perm : forall c,
  forallb (fun nf : nsfiles => forallb (fun lf : loc * forest => forest_nodup (snd lf)) (snd nf)) (c_nss c) = true ->
  match check_locales (c_ext c) (c_suppress c) (c_nss c) with
  | Ok (_, ws) => Permutation ws (expected_warnings c)
  | _ => True
  end.
Proof. intros c H. exact (check_locales_warn c (c_nss c) H). Qed.

Theorem warnings_exact : forall c,
  wf_strict c = true ->
  match check_locales (c_ext c) (c_suppress c) (c_nss c) with
  | Ok (_, ws) => perm_eqb warning_eqb ws (expected_warnings c) = true
  | _ => True
  end.
Proof.
  intros c H. unfold wf_strict in H. apply andb_true_iff in H. destruct H as [_ H].
  pose proof (warnings_exact_perm c H) as Hp.
  destruct (check_locales (c_ext c) (c_suppress c) (c_nss c)) as [[out ws]| | |]; try exact I.
  apply perm_eqb_of_Permutation; [exact warning_eqb_refl | exact warning_eqb_eq | exact Hp].
Qed.

(** non-vacuity: a well-formed case whose merge succeeds with warnings of both kinds, nested *)
Example warnings_exact_nonvacuous :
  let df := FCons 1 (Leaf 0) (FCons 2 (Group (FCons 3 (Leaf 0) FNil)) FNil) in
  let f := FCons 2 (Group (FCons 4 (Leaf 0) FNil)) (FCons 5 (Leaf 0) FNil) in
  let c := mk_case false [] [(None, [(0, df); (1, f)])] IOther in
  wf_strict c = true
  /\ match check_locales (c_ext c) (c_suppress c) (c_nss c) with
     | Ok (_, ws) => ws = [WMissing 1 None [1]; WMissing 1 None [2; 3]; WSurplus 1 None [2; 4]; WSurplus 1 None [5]]
     | _ => False
     end
  /\ expected_warnings c = [WMissing 1 None [1]; WMissing 1 None [2; 3]; WSurplus 1 None [2; 4]; WSurplus 1 None [5]].
Proof. vm_compute. repeat split. Qed.
