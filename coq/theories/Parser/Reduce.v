(** Model of ParsedValue::reduce / reduce_into and Literal::join (parsed_value.rs), and the
    denotation of a value as a sequence of pieces (property C01).  No proofs here. *)
From Coq Require Import List NArith ZArith Bool Arith.
Import ListNotations.
From LI Require Import Base.StrOps Parser.Parse.
Open Scope N_scope.

Definition P_reduce := 3.

Definition fmt_eqb (a b : fmt) : bool :=
  match a, b with
  | FNone, FNone => true
  | FNumber x, FNumber y | FDate x, FDate y | FTime x, FTime y => x =? y
  | FDateTime a1 a2, FDateTime b1 b2 | FList a1 a2, FList b1 b2 => (a1 =? b1) && (a2 =? b2)
  | FCurrency w c, FCurrency w' c' => (w =? w') && str_eqb c c'
  | _, _ => false
  end.


(** Rust Display of integers *)
Fixpoint dec_aux (fuel : nat) (n : N) (acc : str) : str :=
  match fuel with
  | O => acc
  | S f => let d := n mod 10 in let q := n / 10 in
           if q =? 0 then (48 + d) :: acc else dec_aux f q ((48 + d) :: acc)
  end.
Definition dec (n : N) : str := dec_aux 40 n [].
Definition lit_display (l : lit) : str :=
  match l with
  | LStr s => s
  | LSigned z => if (z <? 0)%Z then 45 :: dec (Z.to_N (- z)) else dec (Z.to_N z)
  | LUnsigned n => dec n
  | LFloat d => d
  | LBool true => [116;114;117;101]
  | LBool false => [102;97;108;115;101]
  end.
(** Literal::join: the result is always a string *)
Definition lit_join (a b : lit) : lit := LStr (lit_display a ++ lit_display b).
Definition lit_is_empty_string (l : lit) : bool := match l with LStr [] => true | _ => false end.

Definition collapse (racc : list pv) : pv :=
  match racc with
  | [] => PLit (LStr [])
  | [one] => one
  | _ => PBloc (rev racc)
  end.

(** [racc] is the bloc built so far, most recent element first *)
Fixpoint reduce (v : pv) : res pv :=
  match v with
  | PLit _ | PVar _ _ => Ok v
  | PComp k i => bind (reduce i) (fun i' => Ok (PComp k i'))
  | PForeign _ _ _ => Panic P_reduce
  | PBloc l =>
      bind ((fix go (l : list pv) (racc : list pv) : res (list pv) :=
               match l with [] => Ok racc | x :: r => bind (reduce_into x racc) (go r) end) l [])
           (fun racc => Ok (collapse racc))
  end
with reduce_into (v : pv) (racc : list pv) : res (list pv) :=
  match v with
  | PLit s =>
      if lit_is_empty_string s then Ok racc
      else match racc with
           | PLit last :: t => Ok (PLit (lit_join last s) :: t)
           | _ => Ok (PLit s :: racc)
           end
  | PVar k f => Ok (PVar k f :: racc)
  | PComp k i => bind (reduce i) (fun i' => Ok (PComp k i' :: racc))
  | PForeign _ _ _ => Panic P_reduce
  | PBloc l =>
      (fix go (l : list pv) (racc : list pv) : res (list pv) :=
         match l with [] => Ok racc | x :: r => bind (reduce_into x racc) (go r) end) l racc
  end.

(** * Denotation: the sequence of pieces a value stands for *)
Inductive piece :=
| PcText (s : str)
| PcVar (k : str) (f : fmt)
| PcComp (k : str) (inner : list piece)
| PcForeign (ns : option str) (path : list str) (args : list (str * list piece)).

(** normal form of a piece sequence: empty text dropped, adjacent text merged *)
Definition pc_cons (p : piece) (l : list piece) : list piece :=
  match p with
  | PcText [] => l
  | PcText s => match l with PcText t :: r => PcText (s ++ t) :: r | _ => p :: l end
  | _ => p :: l
  end.
Definition pc_norm (l : list piece) : list piece := fold_right pc_cons [] l.

Fixpoint pieces_raw (v : pv) : list piece :=
  match v with
  | PLit l => [PcText (lit_display l)]
  | PVar k f => [PcVar k f]
  | PComp k i => [PcComp k (pc_norm (pieces_raw i))]
  | PBloc l => flat_map pieces_raw l
  | PForeign ns p args => [PcForeign ns p (map (fun '(k, a) => (k, pc_norm (pieces_raw a))) args)]
  end.
Definition pieces (v : pv) : list piece := pc_norm (pieces_raw v).
