(** Model of formatter selection — property C18.
    Mirrors, function by function:
      leptos_i18n_parser/src/utils/formatter.rs
        [from_args_helper], the [impl_from_args!] value tables, [CurrencyCode::from_args],
        [Formatter::from_name_and_args] (order of the name tests, feature gates);
      leptos_i18n_parser/src/parse_locales/parsed_value.rs
        [parse_formatter_args] (split_once('('), rsplit_once(')'), split(';'),
        filter_map(split_once(':')), trims), [parse_formatter], and the variable part
        of [find_variable] (trim, split_once(','), formatter before key).
    Strings are [list N] of code points.  No proofs in this file. *)
From Coq Require Import List NArith Bool Ascii String.
Import ListNotations.
From LI Require Import Base.StrOps.
Open Scope N_scope.

(** ASCII literals as code point lists *)
Definition lit (s : string) : str := List.map N_of_ascii (list_ascii_of_string s).

(** * Option values (enum declaration order of formatter.rs) *)
Inductive grouping := GAuto | GNever | GAlways | GMin2.
Inductive dlen := DFull | DLong | DMedium | DShort.
Inductive tlen := TFull | TLong | TMedium | TShort.
Inductive ltype := LAnd | LOr | LUnit.
Inductive lstyle := SWide | SShort | SNarrow.
Inductive cwidth := WShort | WNarrow.

Inductive formatter :=
| FNone
| FNumber (g : grouping)
| FDate (d : dlen)
| FTime (t : tlen)
| FDateTime (d : dlen) (t : tlen)
| FList (ty : ltype) (st : lstyle)
| FCurrency (w : cwidth) (code : str).

(** cargo features gating each formatter ([cfg!(feature = ..) || SKIP_ICU_CFG]) *)
Inductive feature := FeatCurrency | FeatNums | FeatDatetime | FeatList.

(** [Option<&[(S, S)]>] *)
Definition args_t := option (list (str * str)).

(** * from_args_helper: the first argument named [name] whose value [f] recognises wins *)
Fixpoint first_recognised {T} (name : str) (f : str -> option T) (l : list (str * str)) : option T :=
  match l with
  | [] => None
  | (arg_name, value) :: r =>
      if negb (str_eqb arg_name name) then first_recognised name f r
      else match f value with
           | Some v => Some v
           | None => first_recognised name f r
           end
  end.

Definition from_args_helper {T} (dflt : T) (args : args_t) (name : str) (f : str -> option T) : T :=
  match args with
  | None => dflt
  | Some l => match first_recognised name f l with Some v => v | None => dflt end
  end.

(** * impl_from_args! tables (if-chains in source order) *)
Definition dlen_value (v : str) : option dlen :=
  if str_eqb v (lit "full") then Some DFull
  else if str_eqb v (lit "long") then Some DLong
  else if str_eqb v (lit "medium") then Some DMedium
  else if str_eqb v (lit "short") then Some DShort
  else None.
Definition tlen_value (v : str) : option tlen :=
  if str_eqb v (lit "full") then Some TFull
  else if str_eqb v (lit "long") then Some TLong
  else if str_eqb v (lit "medium") then Some TMedium
  else if str_eqb v (lit "short") then Some TShort
  else None.
Definition cwidth_value (v : str) : option cwidth :=
  if str_eqb v (lit "short") then Some WShort
  else if str_eqb v (lit "narrow") then Some WNarrow
  else None.
Definition grouping_value (v : str) : option grouping :=
  if str_eqb v (lit "auto") then Some GAuto
  else if str_eqb v (lit "never") then Some GNever
  else if str_eqb v (lit "always") then Some GAlways
  else if str_eqb v (lit "min2") then Some GMin2
  else None.
Definition ltype_value (v : str) : option ltype :=
  if str_eqb v (lit "and") then Some LAnd
  else if str_eqb v (lit "or") then Some LOr
  else if str_eqb v (lit "unit") then Some LUnit
  else None.
Definition lstyle_value (v : str) : option lstyle :=
  if str_eqb v (lit "wide") then Some SWide
  else if str_eqb v (lit "short") then Some SShort
  else if str_eqb v (lit "narrow") then Some SNarrow
  else None.

(** [TinyAsciiStr::<3>::from_str]: at most 3 bytes, every byte ASCII and not NUL
    (TooLarge is tested first, NonAscii/ContainsNull after; all are [Err] = not recognised) *)
Definition ccode_value (v : str) : option str :=
  if Nat.ltb 3 (blen v) then None
  else if forallb (fun c => (1 <=? c) && (c <? 128)) v then Some v
  else None.

Definition dlen_from_args (a : args_t) : dlen := from_args_helper DMedium a (lit "date_length") dlen_value.
Definition tlen_from_args (a : args_t) : tlen := from_args_helper TShort a (lit "time_length") tlen_value.
Definition cwidth_from_args (a : args_t) : cwidth := from_args_helper WShort a (lit "width") cwidth_value.
Definition ccode_from_args (a : args_t) : str := from_args_helper (lit "USD") a (lit "currency_code") ccode_value.
Definition grouping_from_args (a : args_t) : grouping :=
  from_args_helper GAuto a (lit "grouping_strategy") grouping_value.
Definition ltype_from_args (a : args_t) : ltype := from_args_helper LUnit a (lit "list_type") ltype_value.
Definition lstyle_from_args (a : args_t) : lstyle := from_args_helper SWide a (lit "list_style") lstyle_value.

(** * Formatter::from_name_and_args : Result<Option<Formatter>, Formatter> *)
Inductive sel :=
| SelOk (f : formatter)        (* Ok(Some f) *)
| SelUnknown                   (* Ok(None)   *)
| SelDisabled (f : formatter). (* Err(f)     *)

Definition gate (en : feature -> bool) (ft : feature) (f : formatter) : sel :=
  if en ft then SelOk f else SelDisabled f.

Definition from_name_and_args (en : feature -> bool) (name : str) (args : args_t) : sel :=
  if str_eqb name (lit "currency") then
    gate en FeatCurrency (FCurrency (cwidth_from_args args) (ccode_from_args args))
  else if str_eqb name (lit "number") then
    gate en FeatNums (FNumber (grouping_from_args args))
  else if str_eqb name (lit "datetime") then
    gate en FeatDatetime (FDateTime (dlen_from_args args) (tlen_from_args args))
  else if str_eqb name (lit "date") then
    gate en FeatDatetime (FDate (dlen_from_args args))
  else if str_eqb name (lit "time") then
    gate en FeatDatetime (FTime (tlen_from_args args))
  else if str_eqb name (lit "list") then
    gate en FeatList (FList (ltype_from_args args) (lstyle_from_args args))
  else SelUnknown.

(** * parse_formatter_args *)
Definition c_lparen : char := 40.
Definition c_rparen : char := 41.
Definition c_comma : char := 44.
Definition c_colon : char := 58.
Definition c_semi : char := 59.

Fixpoint filter_map {A B} (f : A -> option B) (l : list A) : list B :=
  match l with
  | [] => []
  | x :: r => match f x with Some y => y :: filter_map f r | None => filter_map f r end
  end.

Definition parse_arg (s : str) : option (str * str) :=
  match split_once_c c_colon s with
  | Some (a, b) => Some (trim a, trim b)
  | None => None
  end.

Definition parse_formatter_args (s : str) : str * args_t :=
  match split_once_c c_lparen s with
  | None => (trim s, None)
  | Some (name, rest) =>
      match rsplit_once [c_rparen] rest with
      | None => (trim s, None)
      | Some (args, _rest) =>
          (trim name, Some (filter_map parse_arg (split_all c_semi args)))
      end
  end.

(** * parse_formatter : Result<Formatter> *)
Inductive pres :=
| POk (f : formatter)
| PUnknown (name : str)        (* Error::UnknownFormatter { name } *)
| PDisabled (f : formatter).   (* Error::DisabledFormatter { formatter } *)

Definition parse_formatter (en : feature -> bool) (s : str) : pres :=
  let '(name, args) := parse_formatter_args s in
  match from_name_and_args en name args with
  | SelOk f => POk f
  | SelUnknown => PUnknown name
  | SelDisabled f => PDisabled f
  end.

(** * the variable part of find_variable: [inner] is the text between "{{" and "}}".
    The formatter is parsed before the key is built, so its errors win.  The key
    name is returned unvalidated ([Key::new] is modelled elsewhere; the
    correspondence only uses identifiers it accepts). *)
Inductive vres :=
| VVar (key : str) (f : formatter)
| VUnknown (name : str)
| VDisabled (f : formatter).

Definition var_prefix : str := lit "var_".

Definition parse_variable (en : feature -> bool) (inner : str) : vres :=
  let ident := trim inner in
  match split_once_c c_comma ident with
  | Some (id, fmt) =>
      match parse_formatter en fmt with
      | POk f => VVar (var_prefix ++ trim id) f
      | PUnknown n => VUnknown n
      | PDisabled f => VDisabled f
      end
  | None => VVar (var_prefix ++ ident) FNone
  end.

(** * The documented table (docs/book/src/declare/08_formatters.md), independent of the code above:
    for every formatter its options; for every option its argument name, the
    accepted values and the default.  [pick] takes the first argument that has
    the option's name and one of the accepted values. *)
Definition option_doc (T : Type) := (str * list (str * T) * T)%type.

Fixpoint lookup {T} (v : str) (tbl : list (str * T)) : option T :=
  match tbl with
  | [] => None
  | (n, x) :: r => if str_eqb n v then Some x else lookup v r
  end.

Definition pick {T} (d : option_doc T) (args : list (str * str)) : T :=
  let '(name, values, dflt) := d in
  match filter_map (fun av => if str_eqb (fst av) name then lookup (snd av) values else None) args with
  | x :: _ => x
  | [] => dflt
  end.

Definition doc_grouping : option_doc grouping :=
  (lit "grouping_strategy",
   [(lit "auto", GAuto); (lit "never", GNever); (lit "always", GAlways); (lit "min2", GMin2)], GAuto).
Definition doc_date_length : option_doc dlen :=
  (lit "date_length", [(lit "full", DFull); (lit "long", DLong); (lit "medium", DMedium); (lit "short", DShort)], DMedium).
Definition doc_time_length : option_doc tlen :=
  (lit "time_length", [(lit "full", TFull); (lit "long", TLong); (lit "medium", TMedium); (lit "short", TShort)], TShort).
Definition doc_list_type : option_doc ltype :=
  (lit "list_type", [(lit "and", LAnd); (lit "or", LOr); (lit "unit", LUnit)], LUnit).
Definition doc_list_style : option_doc lstyle :=
  (lit "list_style", [(lit "wide", SWide); (lit "short", SShort); (lit "narrow", SNarrow)], SWide).
Definition doc_width : option_doc cwidth :=
  (lit "width", [(lit "short", WShort); (lit "narrow", WNarrow)], WShort).

(** a currency code is any string of at most three ASCII characters (no NUL); default USD *)
Definition is_code (v : str) : bool :=
  Nat.leb (List.length v) 3 && forallb (fun c => (0 <? c) && (c <=? 127)) v.
Definition pick_code (args : list (str * str)) : str :=
  match filter (fun av => str_eqb (fst av) (lit "currency_code") && is_code (snd av)) args with
  | (_, v) :: _ => v
  | [] => lit "USD"
  end.

Definition args_list (a : args_t) : list (str * str) := match a with Some l => l | None => [] end.

(** name -> (feature, formatter with options) *)
Definition documented (name : str) (a : args_t) : option (feature * formatter) :=
  let l := args_list a in
  if str_eqb name (lit "number") then Some (FeatNums, FNumber (pick doc_grouping l))
  else if str_eqb name (lit "currency") then Some (FeatCurrency, FCurrency (pick doc_width l) (pick_code l))
  else if str_eqb name (lit "date") then Some (FeatDatetime, FDate (pick doc_date_length l))
  else if str_eqb name (lit "time") then Some (FeatDatetime, FTime (pick doc_time_length l))
  else if str_eqb name (lit "datetime") then
    Some (FeatDatetime, FDateTime (pick doc_date_length l) (pick doc_time_length l))
  else if str_eqb name (lit "list") then Some (FeatList, FList (pick doc_list_type l) (pick doc_list_style l))
  else None.

Definition expected_sel (en : feature -> bool) (name : str) (a : args_t) : sel :=
  match documented name a with
  | None => SelUnknown
  | Some (ft, f) => if en ft then SelOk f else SelDisabled f
  end.

(** * Source-level description of a formatter text: tokens with the white space
    around them.  [render] writes it out; [unpad] forgets the white space. *)
Definition ptok := (str * str * str)%type.   (* white space, token, white space *)
Definition tok (p : ptok) : str := snd (fst p).
Definition rtok (p : ptok) : str := fst (fst p) ++ tok p ++ snd p.

Inductive item :=
| Pair (a v : ptok)     (* a : v *)
| Junk (s : str).       (* an element without ':' (dropped by the parser) *)

Record ftext := mk_ftext {
  ft_name : ptok;
  ft_args : option (list item * str) }.  (* "(" items separated by ';' ")" tail *)

Definition render_item (i : item) : str :=
  match i with
  | Pair a v => rtok a ++ c_colon :: rtok v
  | Junk s => s
  end.
Fixpoint render_items (l : list item) : str :=
  match l with
  | [] => []
  | [i] => render_item i
  | i :: r => render_item i ++ c_semi :: render_items r
  end.
Definition render (t : ftext) : str :=
  rtok (ft_name t) ++
  match ft_args t with
  | None => []
  | Some (items, tail) => c_lparen :: render_items items ++ c_rparen :: tail
  end.

Fixpoint pairs_of (l : list item) : list (str * str) :=
  match l with
  | [] => []
  | Pair a v :: r => (tok a, tok v) :: pairs_of r
  | Junk _ :: r => pairs_of r
  end.
Definition args_of (t : ftext) : args_t :=
  match ft_args t with None => None | Some (items, _) => Some (pairs_of items) end.

Definition unpad_tok (p : ptok) : ptok := ([], tok p, []).
Definition unpad_item (i : item) : item :=
  match i with Pair a v => Pair (unpad_tok a) (unpad_tok v) | Junk s => Junk s end.
Definition unpad (t : ftext) : ftext :=
  mk_ftext (unpad_tok (ft_name t))
           (match ft_args t with None => None | Some (items, tail) => Some (List.map unpad_item items, tail) end).

(** well-formedness (boolean, so the generator's output can be checked by evaluation) *)
Definition all_ws (s : str) : bool := forallb is_ws s.
Definition lacks (c : char) (s : str) : bool := forallb (fun x => negb (x =? c)) s.
Definition trimmed (s : str) : bool :=
  match s with
  | [] => true
  | c :: _ => negb (is_ws c) && negb (is_ws (last s 0))
  end.
Definition wf_tok (p : ptok) : bool := all_ws (fst (fst p)) && all_ws (snd p) && trimmed (tok p).
Definition wf_item (i : item) : bool :=
  match i with
  | Pair a v => wf_tok a && wf_tok v && lacks c_colon (tok a) && lacks c_semi (tok a) && lacks c_semi (tok v)
  | Junk s => lacks c_colon s && lacks c_semi s
  end.
Definition wf_ftext (t : ftext) : bool :=
  wf_tok (ft_name t) && lacks c_lparen (tok (ft_name t)) &&
  match ft_args t with
  | None => true
  | Some (items, tail) =>
      forallb wf_item items && lacks c_rparen tail
  end.

(** what parse_formatter must return on [render t] *)
Definition expected_pres (en : feature -> bool) (t : ftext) : pres :=
  match expected_sel en (tok (ft_name t)) (args_of t) with
  | SelOk f => POk f
  | SelUnknown => PUnknown (tok (ft_name t))
  | SelDisabled f => PDisabled f
  end.

(** * spec_C18: the property as an executable predicate on an observed result *)
Definition grouping_eqb (a b : grouping) : bool :=
  match a, b with GAuto, GAuto | GNever, GNever | GAlways, GAlways | GMin2, GMin2 => true | _, _ => false end.
Definition dlen_eqb (a b : dlen) : bool :=
  match a, b with DFull, DFull | DLong, DLong | DMedium, DMedium | DShort, DShort => true | _, _ => false end.
Definition tlen_eqb (a b : tlen) : bool :=
  match a, b with TFull, TFull | TLong, TLong | TMedium, TMedium | TShort, TShort => true | _, _ => false end.
Definition ltype_eqb (a b : ltype) : bool :=
  match a, b with LAnd, LAnd | LOr, LOr | LUnit, LUnit => true | _, _ => false end.
Definition lstyle_eqb (a b : lstyle) : bool :=
  match a, b with SWide, SWide | SShort, SShort | SNarrow, SNarrow => true | _, _ => false end.
Definition cwidth_eqb (a b : cwidth) : bool :=
  match a, b with WShort, WShort | WNarrow, WNarrow => true | _, _ => false end.
Definition formatter_eqb (a b : formatter) : bool :=
  match a, b with
  | FNone, FNone => true
  | FNumber x, FNumber y => grouping_eqb x y
  | FDate x, FDate y => dlen_eqb x y
  | FTime x, FTime y => tlen_eqb x y
  | FDateTime x1 x2, FDateTime y1 y2 => dlen_eqb x1 y1 && tlen_eqb x2 y2
  | FList x1 x2, FList y1 y2 => ltype_eqb x1 y1 && lstyle_eqb x2 y2
  | FCurrency x1 x2, FCurrency y1 y2 => cwidth_eqb x1 y1 && str_eqb x2 y2
  | _, _ => false
  end.
Definition pres_eqb (a b : pres) : bool :=
  match a, b with
  | POk x, POk y => formatter_eqb x y
  | PUnknown x, PUnknown y => str_eqb x y
  | PDisabled x, PDisabled y => formatter_eqb x y
  | _, _ => false
  end.
Definition vres_eqb (a b : vres) : bool :=
  match a, b with
  | VVar k x, VVar k' y => str_eqb k k' && formatter_eqb x y
  | VUnknown x, VUnknown y => str_eqb x y
  | VDisabled x, VDisabled y => formatter_eqb x y
  | _, _ => false
  end.

(** for the source description [t] of a formatter text, with whatever white space,
    the observed result is the documented formatter with the documented options *)
Definition spec_C18 (en : feature -> bool) (t : ftext) (observed : pres) : bool :=
  pres_eqb observed (expected_pres en t).

(** the same one level up: "{{" lw var rw "," text "}}" *)
Definition expected_vres (en : feature -> bool) (var : str) (t : ftext) : vres :=
  match expected_pres en t with
  | POk f => VVar (var_prefix ++ var) f
  | PUnknown n => VUnknown n
  | PDisabled f => VDisabled f
  end.
Definition spec_C18_var (en : feature -> bool) (var : str) (t : ftext) (observed : vres) : bool :=
  vres_eqb observed (expected_vres en var t).

Definition all_features (_ : feature) : bool := true.
