(** Executable specifications of C03 and C07 and the correspondence predicates evaluated by
    the harness-generated case files (checks/C03.py, checks/C07.py).

    The specifications are written against the *input* (configuration + parsed files as
    generated), never against the model's intermediate results. *)
From Coq Require Import List NArith Bool.
Import ListNotations.
From LI Require Import Parser.Merge.
Open Scope N_scope.

(** what the harness observed for one key path of BuildersKeys *)
Record entry := mk_entry {
  e_ns : option key;
  e_path : list key;
  e_group : bool;                          (* LocaleValue::Subkeys *)
  e_compute : list (loc * list loc);       (* DefaultedLocales::compute() *)
  e_default_of : list (loc * loc);         (* default_of(l) for every configured locale *)
  e_own : list (loc * option N) }.         (* locales[l].keys[key]: Some payload | None = Default *)

Inductive impl_result :=
| IOk (ws : list warning) (es : list entry)   (* ws: MissingKey/SurplusKey warnings only *)
| IErr (e : err)
| IOther.                                     (* any other error, or a panic *)

Record case := mk_case {
  c_suppress : bool;                  (* harness built with suppress_key_warnings *)
  c_ext : list (loc * loc);           (* `inherits`, ascending by key *)
  c_nss : list nsfiles;               (* per namespace (None = none): locales in configuration
                                         order (default first) with their parsed files *)
  c_impl : impl_result }.

(** *** small helpers *)
Definition onskey_eqb (a b : option key) : bool := opt_eqb a b.
Definition warning_eqb (a b : warning) : bool :=
  match a, b with
  | WMissing l n p, WMissing l' n' p' => (l =? l') && onskey_eqb n n' && list_eqb p p'
  | WSurplus l n p, WSurplus l' n' p' => (l =? l') && onskey_eqb n n' && list_eqb p p'
  | _, _ => false
  end.
Fixpoint remove_first {A} (eqb : A -> A -> bool) (x : A) (l : list A) : option (list A) :=
  match l with
  | [] => None
  | y :: r => if eqb x y then Some r
              else match remove_first eqb x r with Some r' => Some (y :: r') | None => None end
  end.
(* multiset equality *)
Fixpoint perm_eqb {A} (eqb : A -> A -> bool) (a b : list A) : bool :=
  match a with
  | [] => match b with [] => true | _ => false end
  | x :: r => match remove_first eqb x b with Some b' => perm_eqb eqb r b' | None => false end
  end.
Fixpoint assoc {B} (m : list (loc * B)) (k : loc) : option B :=
  match m with [] => None | (k', v) :: r => if k =? k' then Some v else assoc r k end.
Fixpoint nodupb (l : list N) : bool :=
  match l with [] => true | x :: r => negb (mem x r) && nodupb r end.
Definition count_in_sets (x : loc) (g : list (loc * list loc)) : nat :=
  length (filter (N.eqb x) (concat (map snd g))).

Definition inh_of (ext : list (loc * loc)) : loc -> option loc := map_get ext.

(** *** errors the input calls for *)
Definition kind_mismatch (d t : tree) : bool :=
  match d, t with
  | Leaf _, Group _ => true
  | Group _, Leaf _ => true
  | _, _ => false
  end.
(* locale file [f] has, at a path reachable through groups of both files, a group where the
   default has a value or vice versa *)
Definition mismatch_at (df f : forest) (p : list key) : bool :=
  match forest_at df p, forest_at f p with
  | Some d, Some t => kind_mismatch d t
  | _, _ => false
  end.
Definition file_mismatch (df f : forest) : bool :=
  existsb (fun pb => mismatch_at df f (fst pb)) (forest_paths f []).
Definition ns_calls_for_error (nf : nsfiles) : bool :=
  match snd nf with
  | [] => false
  | (_, df) :: rest => forest_has_null df || existsb (fun lf => file_mismatch df (snd lf)) rest
  end.
Definition calls_for_error (c : case) : bool := existsb ns_calls_for_error (c_nss c).

Definition ns_files_of (c : case) (ns : option key) : list (loc * forest) :=
  match find (fun nf => onskey_eqb (fst nf) ns) (c_nss c) with Some nf => snd nf | None => [] end.

(* the error named by the implementation is a genuine one *)
Definition error_genuine (c : case) (e : err) : bool :=
  match e with
  | EExplicitDefaultInDefault ns p =>
      match ns_files_of c ns with
      | (_, df) :: _ => match forest_at df p with Some Null => true | _ => false end
      | [] => false
      end
  | ESubKeyMissmatch l ns p =>
      match ns_files_of c ns with
      | (d, df) :: rest => negb (l =? d) && mem l (map fst rest) && mismatch_at df (files_get rest l) p
      | [] => false
      end
  end.

Definition find_entry (es : list entry) (ns : option key) (p : list key) : option entry :=
  find (fun e => onskey_eqb (e_ns e) ns && list_eqb (e_path e) p) es.

(** *** C03 *)
Definition resolve (ext : list (loc * loc)) (locs : list (loc * forest)) (dflt : loc)
           (p : list key) (l : loc) : loc :=
  first_defined (inh_of ext) (fun x => defines (files_get locs x) p) dflt (length locs) l.

Definition spec_C03_leaf (ext : list (loc * loc)) (locs : list (loc * forest)) (dflt : loc)
           (p : list key) (e : entry) : bool :=
  let names := map fst locs in
  negb (e_group e)
  (* every locale resolves to the first defining locale of its chain, else the default,
     and the value held by that locale is the one its file gives *)
  && forallb (fun l =>
       let t := resolve ext locs dflt p l in
       opt_eqb (assoc (e_default_of e) l) (Some t)
       && match assoc (e_own e) t with
          | Some (Some v) => opt_eqb (payload_at (files_get locs t) p) (Some v)
          | _ => false
          end) names
  (* the default never takes a value from another locale *)
  && opt_eqb (assoc (e_default_of e) dflt) (Some dflt)
  (* compute(): the non-defining locales, partitioned by their target; targets define the key *)
  && nodupb (map fst (e_compute e))
  && forallb (fun ts =>
       mem (fst ts) names && defines (files_get locs (fst ts)) p
       && forallb (fun x => mem x names && negb (defines (files_get locs x) p)
                            && (resolve ext locs dflt p x =? fst ts)) (snd ts)) (e_compute e)
  && forallb (fun l =>
       Nat.eqb (count_in_sets l (e_compute e)) (if defines (files_get locs l) p then 0%nat else 1%nat)) names.

Definition spec_C03_ns (ext : list (loc * loc)) (es : list entry) (nf : nsfiles) : bool :=
  match snd nf with
  | [] => false
  | (dflt, df) :: _ =>
      negb (forest_has_null df)
      && forallb (fun pb : list key * bool =>
           if snd pb then
             match find_entry es (fst nf) (fst pb) with
             | Some e => spec_C03_leaf ext (snd nf) dflt (fst pb) e
             | None => false
             end
           else true) (forest_paths df [])
  end.

Definition spec_C03 (c : case) (r : impl_result) : bool :=
  match r with
  | IOk _ es => negb (calls_for_error c) && forallb (spec_C03_ns (c_ext c) es) (c_nss c)
  | IErr e => calls_for_error c
  | IOther => false
  end.

(** *** C07 *)
Definition expected_missing (c : case) (ns : option key) (df : forest) (lf : loc * forest) : list warning :=
  if c_suppress c || match map_get (c_ext c) (fst lf) with Some _ => true | None => false end then []
  else flat_map (fun pb =>
         if parent_is_group (snd lf) (fst pb)
            && match forest_at (snd lf) (fst pb) with None => true | Some _ => false end
         then [WMissing (fst lf) ns (fst pb)] else []) (forest_paths df []).
Definition expected_surplus (c : case) (ns : option key) (df : forest) (lf : loc * forest) : list warning :=
  if c_suppress c then []
  else flat_map (fun pb =>
         if parent_is_group df (fst pb)
            && match forest_at df (fst pb) with None => true | Some _ => false end
         then [WSurplus (fst lf) ns (fst pb)] else []) (forest_paths (snd lf) []).
Definition expected_warnings_ns (c : case) (nf : nsfiles) : list warning :=
  match snd nf with
  | [] => []
  | (_, df) :: rest =>
      flat_map (fun lf => expected_missing c (fst nf) df lf ++ expected_surplus c (fst nf) df lf) rest
  end.
Definition expected_warnings (c : case) : list warning := flat_map (expected_warnings_ns c) (c_nss c).

Definition pb_eqb (a b : list key * bool) : bool := list_eqb (fst a) (fst b) && Bool.eqb (snd a) (snd b).
Fixpoint pbs_eqb (a b : list (list key * bool)) : bool :=
  match a, b with
  | [], [] => true
  | x :: xs, y :: ys => pb_eqb x y && pbs_eqb xs ys
  | _, _ => false
  end.
(* accessible key paths = key paths of the default locale's file, namespace by namespace *)
Definition spec_keyset_ns (es : list entry) (nf : nsfiles) : bool :=
  match snd nf with
  | [] => false
  | (_, df) :: _ =>
      pbs_eqb (map (fun e => (e_path e, negb (e_group e))) (filter (fun e => onskey_eqb (e_ns e) (fst nf)) es))
              (forest_paths df [])
  end.

Definition spec_C07 (c : case) (r : impl_result) : bool :=
  match r with
  | IOk ws es =>
      negb (calls_for_error c)
      && perm_eqb warning_eqb ws (expected_warnings c)
      && forallb (spec_keyset_ns es) (c_nss c)
      && forallb (fun e => existsb (fun nf => onskey_eqb (fst nf) (e_ns e)) (c_nss c)) es
  | IErr e => calls_for_error c && error_genuine c e
  | IOther => false
  end.

(** *** the model's answer in the shape of the harness output *)
(* the locales' own maps are not changed by the merge except for the insertion of Default at
   vacant keys: what locale l holds at a value path is what its file gives there, else Default *)
Definition own_of (locs : list (loc * forest)) (path : list key) : list (loc * option N) :=
  map (fun lf => (fst lf, payload_at (snd lf) path)) locs.
Fixpoint bk_entries (locs : list (loc * forest)) (ns : option key) (b : bk) (path : list key) : list entry :=
  match b with
  | BValue _ d =>
      [mk_entry ns path false (compute d) (map (fun lf => (fst lf, default_of d (fst lf))) locs) (own_of locs path)]
  | BSub _ ks => mk_entry ns path true [] [] [] :: bks_entries locs ns ks path
  end
with bks_entries (locs : list (loc * forest)) (ns : option key) (ks : bks) (path : list key) : list entry :=
  match ks with
  | BNil => []
  | BCons k b r => bk_entries locs ns b (path ++ [k]) ++ bks_entries locs ns r path
  end.

Definition model_entries (c : case) (out : list (option key * bks)) : list entry :=
  flat_map (fun nk => bks_entries (ns_files_of c (fst nk)) (fst nk) (snd nk) []) out.

Definition model_result (c : case) : impl_result :=
  match check_locales (c_ext c) (c_suppress c) (c_nss c) with
  | Ok (out, ws) => IOk ws (model_entries c out)
  | Err e => IErr e
  | _ => IOther
  end.

Definition pairs_eqb (a b : list (loc * loc)) : bool :=
  list_eqb (map fst a) (map fst b) && list_eqb (map snd a) (map snd b).
Fixpoint groups_eqb (a b : list (loc * list loc)) : bool :=
  match a, b with
  | [], [] => true
  | (t, s) :: xs, (t', s') :: ys => (t =? t') && list_eqb s s' && groups_eqb xs ys
  | _, _ => false
  end.
Fixpoint owns_eqb (a b : list (loc * option N)) : bool :=
  match a, b with
  | [], [] => true
  | (l, v) :: xs, (l', v') :: ys => (l =? l') && opt_eqb v v' && owns_eqb xs ys
  | _, _ => false
  end.
Definition entry_eqb (a b : entry) : bool :=
  onskey_eqb (e_ns a) (e_ns b) && list_eqb (e_path a) (e_path b) && Bool.eqb (e_group a) (e_group b)
  && groups_eqb (e_compute a) (e_compute b) && pairs_eqb (e_default_of a) (e_default_of b)
  && owns_eqb (e_own a) (e_own b).
Fixpoint entries_eqb (a b : list entry) : bool :=
  match a, b with
  | [], [] => true
  | x :: xs, y :: ys => entry_eqb x y && entries_eqb xs ys
  | _, _ => false
  end.
Definition err_eqb (a b : err) : bool :=
  match a, b with
  | ESubKeyMissmatch l n p, ESubKeyMissmatch l' n' p' => (l =? l') && onskey_eqb n n' && list_eqb p p'
  | EExplicitDefaultInDefault n p, EExplicitDefaultInDefault n' p' => onskey_eqb n n' && list_eqb p p'
  | _, _ => false
  end.
(* group entries carry no compute/default_of in the harness output either *)
Definition result_eqb (a b : impl_result) : bool :=
  match a, b with
  | IOk ws es, IOk ws' es' => perm_eqb warning_eqb ws ws' && entries_eqb es es'
  | IErr e, IErr e' => err_eqb e e'
  | IOther, IOther => true
  | _, _ => false
  end.

(** the domain of the model: every namespace lists the default first and at least it, locale
    names are distinct, `inherits` only names listed locales and never lets the default inherit
    (what ConfigFile validation guarantees, property C19), namespaces are distinct *)
Definition wf_case (c : case) : bool :=
  forallb (fun nf : nsfiles =>
    match snd nf with
    | [] => false
    | (dflt, _) :: rest =>
        nodupb (dflt :: map fst rest)
        && forallb (fun kv : loc * loc => mem (fst kv) (map fst rest) && mem (snd kv) (dflt :: map fst rest)) (c_ext c)
    end) (c_nss c)
  && nodupb (map (fun nf : nsfiles => match fst nf with Some n => n + 1 | None => 0 end) (c_nss c)).

(** 0 = agree and spec holds; 1 = outside the modelled domain; 2 = implementation differs from the model (spec holds);
    3 = the spec is false on the implementation's output *)
Definition check_with (spec : case -> impl_result -> bool) (c : case) : N :=
  if negb (wf_case c) then 1
  else if negb (spec c (c_impl c)) then 3
  else if negb (result_eqb (model_result c) (c_impl c)) then 2 else 0.
Definition check_C03 : case -> N := check_with spec_C03.
Definition check_C07 : case -> N := check_with spec_C07.
