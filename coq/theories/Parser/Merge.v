(** Model of the locale-merging step of leptos_i18n_parser — properties C03 and C07.

    Mirrors, function by function:
      parse_locales/mod.rs     check_locales, check_locales_inner (choice of DefaultTo)
      parse_locales/locale.rs  Locale::make_builder_keys, Locale::merge (vacant -> Default,
                               MissingKey iff Implicit, reverse comparison -> SurplusKey),
                               DefaultedLocales::{new, push, default_of, default_of_inner, compute}
      parse_locales/parsed_value.rs  ParsedValue::make_locale_value (ExplicitDefaultInDefault),
                               ParsedValue::merge (Default x Subkeys with the dummy locale,
                               Default x Value, Subkeys x Subkeys, value x Value, `_ => SubKeyMissmatch`)

    Abstractions (value contents are other properties' business):
      * a leaf is "defined" with an opaque payload id, or `null` (ParsedValue::Default);
        an absent key is simply not in the map;
      * keys, locale names and namespace names are [N] identifiers whose numeric order is
        the byte order of the names (BTreeMap order); the check assigns them by rank;
      * a file (BTreeMap<Key, ParsedValue>) is a [forest] listed in ascending key order,
        the state after `merge_plurals` (generated key names never carry a plural suffix);
      * the per-group `locales: Vec<Locale>` of LocaleValue::Subkeys is kept only as far as
        the merge reads it: the key list of its first (default) element.
    No proofs in this file. *)
From Coq Require Import List NArith Bool.
Import ListNotations.
Open Scope N_scope.

Definition key := N.
Definition loc := N.

(** ** Parsed locale files *)
Inductive tree :=
| Leaf (payload : N)      (* any defined value (string, interpolation, ranges, plurals...) *)
| Null                    (* explicit `null`  = ParsedValue::Default *)
| Group (kids : forest)   (* ParsedValue::Subkeys(Some(locale)) *)
with forest :=
| FNil
| FCons (k : key) (t : tree) (r : forest).

Fixpoint forest_get (f : forest) (k : key) : option tree :=
  match f with
  | FNil => None
  | FCons k' t r => if k =? k' then Some t else forest_get r k
  end.
Fixpoint forest_keys (f : forest) : list key :=
  match f with FNil => [] | FCons k _ r => k :: forest_keys r end.

(** ** Results *)
Inductive err :=
| ESubKeyMissmatch (l : loc) (ns : option key) (path : list key)
| EExplicitDefaultInDefault (ns : option key) (path : list key).

Inductive res (A : Type) :=
| Ok (a : A)
| Err (e : err)
| Panic (site : N)      (* 1 = check_locales_inner_1 (no locale at all) *)
| OutOfFuel.
Arguments Ok {A} a.
Arguments Err {A} e.
Arguments Panic {A} site.
Arguments OutOfFuel {A}.

Inductive warning :=
| WMissing (l : loc) (ns : option key) (path : list key)
| WSurplus (l : loc) (ns : option key) (path : list key).

(** ** DefaultedLocales *)
Record dl := mk_dl { dl_default : loc; dl_map : list (loc * loc) }.

(* BTreeMap::insert on an ascending association list *)
Fixpoint map_insert (k v : loc) (m : list (loc * loc)) : list (loc * loc) :=
  match m with
  | [] => [(k, v)]
  | (k', v') :: r =>
      if k <? k' then (k, v) :: m
      else if k =? k' then (k, v) :: r
      else (k', v') :: map_insert k v r
  end.
Fixpoint map_get (m : list (loc * loc)) (k : loc) : option loc :=
  match m with
  | [] => None
  | (k', v) :: r => if k =? k' then Some v else map_get r k
  end.

Definition dl_new (default_locale : loc) : dl := mk_dl default_locale [].
Definition dl_push (d : dl) (k default_to : loc) : dl :=
  mk_dl (dl_default d) (map_insert k default_to (dl_map d)).

Definition mem (x : loc) (l : list loc) : bool := existsb (N.eqb x) l.

(** [default_of_inner]: the `while let Some(key) = mapping.get(current_key)` loop with the
    visited set; one unit of fuel per iteration, [None] = fuel exhausted (excluded by
    [default_of_inner_fuel] in MergeProofs.v for fuel = S (length mapping)). *)
Fixpoint default_of_inner (d : dl) (fuel : nat) (visited : list loc) (current : loc) : option loc :=
  match map_get (dl_map d) current with
  | None => Some current
  | Some k =>
      let visited' := current :: visited in
      if mem k visited' then Some (dl_default d)
      else match fuel with
           | O => None
           | S f => default_of_inner d f visited' k
           end
  end.

Definition default_of_opt (d : dl) (l : loc) : option loc :=
  default_of_inner d (S (length (dl_map d))) [] l.
(* total version used by the observations; the [dl_default] branch is never taken *)
Definition default_of (d : dl) (l : loc) : loc :=
  match default_of_opt d l with Some r => r | None => dl_default d end.

(* BTreeMap<Key, BTreeSet<Key>>: entry(default_to).or_default().insert(key) *)
Fixpoint set_insert (x : loc) (s : list loc) : list loc :=
  match s with
  | [] => [x]
  | y :: r => if x <? y then x :: s else if x =? y then s else y :: set_insert x r
  end.
Fixpoint group_insert (t x : loc) (g : list (loc * list loc)) : list (loc * list loc) :=
  match g with
  | [] => [(t, [x])]
  | (t', s) :: r =>
      if t <? t' then (t, [x]) :: g
      else if t =? t' then (t', set_insert x s) :: r
      else (t', s) :: group_insert t x r
  end.
Definition compute (d : dl) : list (loc * list loc) :=
  fold_left (fun g kv => group_insert (default_of d (fst kv)) (fst kv) g) (dl_map d) [].

(** ** BuildersKeysInner / LocaleValue *)
Inductive bk :=
| BValue (payload : N) (defaults : dl)       (* LocaleValue::Value { value, defaults } *)
| BSub (first_keys : list key) (kids : bks)  (* LocaleValue::Subkeys { locales, keys }:
                                                first_keys = locales[0].keys.keys() *)
with bks :=
| BNil
| BCons (k : key) (b : bk) (r : bks).

Fixpoint bks_mem (k : key) (ks : bks) : bool :=
  match ks with BNil => false | BCons k' _ r => (k =? k') || bks_mem k r end.

(** Locale::make_builder_keys / ParsedValue::make_locale_value on the default locale *)
Fixpoint mk_value (dflt : loc) (ns : option key) (path : list key) (t : tree) : res bk :=
  match t with
  | Leaf p => Ok (BValue p (dl_new dflt))
  | Null => Err (EExplicitDefaultInDefault ns path)
  | Group f =>
      match mk_keys dflt ns path f with
      | Ok ks => Ok (BSub (forest_keys f) ks)
      | Err e => Err e
      | Panic s => Panic s
      | OutOfFuel => OutOfFuel
      end
  end
with mk_keys (dflt : loc) (ns : option key) (path : list key) (f : forest) : res bks :=
  match f with
  | FNil => Ok BNil
  | FCons k t r =>
      match mk_value dflt ns (path ++ [k]) t with
      | Ok b =>
          match mk_keys dflt ns path r with
          | Ok bs => Ok (BCons k b bs)
          | Err e => Err e
          | Panic s => Panic s
          | OutOfFuel => OutOfFuel
          end
      | Err e => Err e
      | Panic s => Panic s
      | OutOfFuel => OutOfFuel
      end
  end.

Inductive default_to := Explicit (l : loc) | Implicit (l : loc).
Definition dt_key (dt : default_to) : loc := match dt with Explicit l | Implicit l => l end.
Definition is_implicit (dt : default_to) : bool := match dt with Implicit _ => true | Explicit _ => false end.

(* the dummy locale of the Default x Subkeys arm: every key of the default group, all Default *)
Fixpoint dummy_forest (ks : list key) : forest :=
  match ks with [] => FNil | k :: r => FCons k Null (dummy_forest r) end.

(* reverse key comparison of Locale::merge *)
Fixpoint surplus_ws (f : forest) (ks : bks) (top : loc) (ns : option key) (path : list key) : list warning :=
  match f with
  | FNil => []
  | FCons k _ r =>
      (if bks_mem k ks then [] else [WSurplus top ns (path ++ [k])]) ++ surplus_ws r ks top ns path
  end.

Definition finish_locale (suppress : bool) (f : forest) (ks : bks) (top : loc) (ns : option key)
           (path : list key) (r : res (bks * list warning)) : res (bks * list warning) :=
  match r with
  | Ok (ks', ws) => Ok (ks', ws ++ (if suppress then [] else surplus_ws f ks top ns path))
  | other => other
  end.

(** ParsedValue::merge ([merge_value]) and the key loop of Locale::merge ([merge_keys]);
    Locale::merge = [finish_locale .. (merge_keys ..)]. *)
Fixpoint merge_value (suppress : bool) (top : loc) (dt : default_to) (ns : option key)
         (b : bk) (v : tree) (path : list key) {struct b} : res (bk * list warning) :=
  match b with
  | BValue p d =>
      match v with
      | Null => Ok (BValue p (dl_push d top (dt_key dt)), [])
      | Leaf _ => Ok (BValue p d, [])
      | Group _ => Err (ESubKeyMissmatch top ns path)
      end
  | BSub fk ks =>
      let go (f : forest) :=
        match finish_locale suppress f ks top ns path (merge_keys suppress top dt ns ks f path) with
        | Ok (ks', ws) => Ok (BSub fk ks', ws)
        | Err e => Err e
        | Panic s => Panic s
        | OutOfFuel => OutOfFuel
        end in
      match v with
      | Null => go (dummy_forest fk)
      | Group f => go f
      | Leaf _ => Err (ESubKeyMissmatch top ns path)
      end
  end
with merge_keys (suppress : bool) (top : loc) (dt : default_to) (ns : option key)
         (ks : bks) (f : forest) (path : list key) {struct ks} : res (bks * list warning) :=
  match ks with
  | BNil => Ok (BNil, [])
  | BCons k b r =>
      let path' := path ++ [k] in
      let vw := match forest_get f k with
                | Some v => (v, [])
                | None => (Null, if is_implicit dt then [WMissing top ns path'] else [])
                end in
      match merge_value suppress top dt ns b (fst vw) path' with
      | Ok (b', w1) =>
          match merge_keys suppress top dt ns r f path with
          | Ok (r', w2) => Ok (BCons k b' r', snd vw ++ w1 ++ w2)
          | Err e => Err e
          | Panic s => Panic s
          | OutOfFuel => OutOfFuel
          end
      | Err e => Err e
      | Panic s => Panic s
      | OutOfFuel => OutOfFuel
      end
  end.

Definition merge_locale (suppress : bool) (top : loc) (dt : default_to) (ns : option key)
           (ks : bks) (f : forest) (path : list key) : res (bks * list warning) :=
  finish_locale suppress f ks top ns path (merge_keys suppress top dt ns ks f path).

(** check_locales_inner: `extensions.get(&top_locale)`, else Explicit/Implicit default by feature *)
Definition choose_default_to (ext : list (loc * loc)) (suppress : bool) (dflt top : loc) : default_to :=
  match map_get ext top with
  | Some d => Explicit d
  | None => if suppress then Explicit dflt else Implicit dflt
  end.

Fixpoint merge_all (ext : list (loc * loc)) (suppress : bool) (dflt : loc) (ns : option key)
         (ks : bks) (locs : list (loc * forest)) : res (bks * list warning) :=
  match locs with
  | [] => Ok (ks, [])
  | (l, f) :: rest =>
      match merge_locale suppress l (choose_default_to ext suppress dflt l) ns ks f [] with
      | Ok (ks', w1) =>
          match merge_all ext suppress dflt ns ks' rest with
          | Ok (ks'', w2) => Ok (ks'', w1 ++ w2)
          | other => other
          end
      | other => other
      end
  end.

Definition check_locales_inner (ext : list (loc * loc)) (suppress : bool) (ns : option key)
           (locs : list (loc * forest)) : res (bks * list warning) :=
  match locs with
  | [] => Panic 1
  | (dflt, f) :: rest =>
      match mk_keys dflt ns [] f with
      | Ok ks => merge_all ext suppress dflt ns ks rest
      | Err e => Err e
      | Panic s => Panic s
      | OutOfFuel => OutOfFuel
      end
  end.

(** check_locales: one [check_locales_inner] per namespace in configuration order
    ([None] = the project has no namespaces); warnings accumulate in that order. *)
Definition nsfiles := (option key * list (loc * forest))%type.
Fixpoint check_locales (ext : list (loc * loc)) (suppress : bool) (nss : list nsfiles)
  : res (list (option key * bks) * list warning) :=
  match nss with
  | [] => Ok ([], [])
  | (ns, locs) :: rest =>
      match check_locales_inner ext suppress ns locs with
      | Ok (ks, w1) =>
          match check_locales ext suppress rest with
          | Ok (out, w2) => Ok ((ns, ks) :: out, w1 ++ w2)
          | Err e => Err e
          | Panic s => Panic s
          | OutOfFuel => OutOfFuel
          end
      | Err e => Err e
      | Panic s => Panic s
      | OutOfFuel => OutOfFuel
      end
  end.

(** ** Independent description of the input used by the specifications *)

(* what a file holds at a key path: the tree reached through groups only *)
Fixpoint forest_at (f : forest) (p : list key) : option tree :=
  match p with
  | [] => None
  | k :: q =>
      match forest_get f k with
      | None => None
      | Some t =>
          match q with
          | [] => Some t
          | _ => match t with Group g => forest_at g q | _ => None end
          end
      end
  end.
Definition defines (f : forest) (p : list key) : bool :=
  match forest_at f p with Some (Leaf _) => true | _ => false end.
Definition payload_at (f : forest) (p : list key) : option N :=
  match forest_at f p with Some (Leaf x) => Some x | _ => None end.
(* [p]'s parent is a group of the file (the root counts as a group) *)
Definition parent_is_group (f : forest) (p : list key) : bool :=
  match removelast p with
  | [] => true
  | q => match forest_at f q with Some (Group _) => true | _ => false end
  end.

(* all key paths of a file, groups included, in BTreeMap iteration order; is_leaf flag *)
Fixpoint tree_paths (t : tree) (path : list key) : list (list key * bool) :=
  match t with
  | Leaf _ => [(path, true)]
  | Null => [(path, true)]
  | Group f => (path, false) :: forest_paths f path
  end
with forest_paths (f : forest) (path : list key) : list (list key * bool) :=
  match f with
  | FNil => []
  | FCons k t r => tree_paths t (path ++ [k]) ++ forest_paths r path
  end.

Fixpoint bk_paths (b : bk) (path : list key) : list (list key * bool) :=
  match b with
  | BValue _ _ => [(path, true)]
  | BSub _ ks => (path, false) :: bks_paths ks path
  end
with bks_paths (ks : bks) (path : list key) : list (list key * bool) :=
  match ks with
  | BNil => []
  | BCons k b r => bk_paths b (path ++ [k]) ++ bks_paths r path
  end.

Fixpoint has_null (t : tree) : bool :=
  match t with Leaf _ => false | Null => true | Group f => forest_has_null f end
with forest_has_null (f : forest) : bool :=
  match f with FNil => false | FCons _ t r => has_null t || forest_has_null r end.

(** the builder-keys value at a path *)
Fixpoint bks_get (ks : bks) (k : key) : option bk :=
  match ks with BNil => None | BCons k' b r => if k =? k' then Some b else bks_get r k end.
Fixpoint bks_at (ks : bks) (p : list key) : option bk :=
  match p with
  | [] => None
  | k :: q =>
      match bks_get ks k with
      | None => None
      | Some b =>
          match q with
          | [] => Some b
          | _ => match b with BSub _ ks' => bks_at ks' q | _ => None end
          end
      end
  end.

(** ** C03: the fallback rule, stated on the configuration *)

(* walk l, inh l, inh (inh l) ... ; the first locale that defines the key; the default when the
   walk ends, or when it did not meet a defining locale within [fuel] steps (fuel = number of
   locales: a longer walk has revisited a locale) *)
Fixpoint first_defined (inh : loc -> option loc) (present : loc -> bool) (dflt : loc)
         (fuel : nat) (l : loc) : loc :=
  if present l then l
  else match fuel with
       | O => dflt
       | S f => match inh l with
                | Some m => first_defined inh present dflt f m
                | None => dflt
                end
       end.

Fixpoint list_eqb (a b : list N) : bool :=
  match a, b with
  | [], [] => true
  | x :: xs, y :: ys => (x =? y) && list_eqb xs ys
  | _, _ => false
  end.
Definition opt_eqb (a b : option N) : bool :=
  match a, b with
  | None, None => true
  | Some x, Some y => x =? y
  | _, _ => false
  end.

Definition files_get (locs : list (loc * forest)) (l : loc) : forest :=
  match find (fun lf => fst lf =? l) locs with Some lf => snd lf | None => FNil end.

(** Payload 0 is reserved for a value that is defined but whose text is empty (the string "",
    or a value made only of `$t(..)` references to such strings): it is a [Leaf] like any other
    defined value — `null` and an absent key are the only undefined forms. *)
Definition empty_text : N := 0.
