(** Model of plural merging (property C05).

    Mirrors, function by function:
      leptos_i18n_parser/src/parse_locales/locale.rs    Locale::is_possible_plural, Locale::merge_plurals
      leptos_i18n_parser/src/parse_locales/plurals.rs   PluralForm::try_from_str, Plurals::check_forms,
                                                       the form choice of Plurals::populate_with_count_arg
      leptos_i18n_macro/src/load_locales/plurals.rs     the generated `match category { form => .., _ => other }`

    One *level* of a locale (one `BTreeMap<Key, ParsedValue>`) is modelled; `merge_plurals` calls itself on the
    sub-locale of every `Subkeys` value before classifying the key, which never interacts with the level itself
    (a `Subkeys` value is never a plural form), so a sub-locale is an opaque value [SubV] here and the
    correspondence check walks the tree level by level.

    Oracles (function arguments, never axioms):
      [is_key]  : `Key::new(base).is_some()` (syn identifier check of the `quote` build)
      [cats]    : `PluralRules::categories()` of the locale, per rule type (ICU4X / CLDR data)
    No proofs in this file. *)
From Coq Require Import List NArith Bool Arith.
Import ListNotations.
From LI Require Import Base.StrOps.
Open Scope N_scope.

(** * Plural forms and rule types *)

Inductive form := Zero | One | Two | Few | Many | Other.
Inductive rule := Cardinal | Ordinal.

(* derive(PartialOrd, Ord) order of the enum = declaration order (keys of the `forms` BTreeMap) *)
Definition form_idx (f : form) : nat :=
  match f with Zero => 0 | One => 1 | Two => 2 | Few => 3 | Many => 4 | Other => 5 end%nat.
Definition form_eqb (a b : form) : bool := Nat.eqb (form_idx a) (form_idx b).
Definition form_ltb (a b : form) : bool := Nat.ltb (form_idx a) (form_idx b).
Definition rule_eqb (a b : rule) : bool :=
  match a, b with Cardinal, Cardinal | Ordinal, Ordinal => true | _, _ => false end.
Definition all_forms : list form := [Zero; One; Two; Few; Many; Other].

(* "zero" "one" "two" "few" "many" "other" "_ordinal" *)
Definition s_zero : str := [122; 101; 114; 111].
Definition s_one : str := [111; 110; 101].
Definition s_two : str := [116; 119; 111].
Definition s_few : str := [102; 101; 119].
Definition s_many : str := [109; 97; 110; 121].
Definition s_other : str := [111; 116; 104; 101; 114].
Definition s_ordinal : str := [95; 111; 114; 100; 105; 110; 97; 108].
Definition underscore : char := 95.

(** PluralForm::try_from_str *)
Definition form_of_str (s : str) : option form :=
  if str_eqb s s_zero then Some Zero else
  if str_eqb s s_one then Some One else
  if str_eqb s s_two then Some Two else
  if str_eqb s s_few then Some Few else
  if str_eqb s s_many then Some Many else
  if str_eqb s s_other then Some Other else None.

(** str::strip_suffix *)
Definition strip_suffix (suf s : str) : option str :=
  match strip_prefix (rev suf) (rev s) with Some r => Some (rev r) | None => None end.

(** * Values of one level *)

(** what the JSON gave for a key: [Leaf] = anything that is neither a range table nor a sub-object (string,
    number, bool, interpolation, null); the payload identifies the value *)
Inductive ival := Leaf (id : N) | RangesV (id : N) | SubV (id : N).
(** after merging: the value is kept, or it is a `ParsedValue::Plurals` holding the ids of its form values *)
Inductive oval := Kept (v : ival) | PluralV (r : rule) (other : N) (forms : list (form * N)).

(** Locale::is_possible_plural (plus the id of the value, which is then necessarily a [Leaf]) *)
Definition classify (k : str) (v : ival) : option (str * rule * form * N) :=
  match v with
  | RangesV _ | SubV _ => None
  | Leaf id =>
      match rsplit_once [underscore] k with
      | None => None
      | Some (base, suffix) =>
          let '(base, rt) := match strip_suffix s_ordinal base with
                             | Some b => (b, Ordinal)
                             | None => (base, Cardinal)
                             end in
          match form_of_str suffix with
          | Some f => Some (base, rt, f, id)
          | None => None
          end
      end
  end.

(** * Sorted maps (BTreeMap with byte-wise = code-point order of the key) *)

Fixpoint str_cmp (a b : str) : comparison :=
  match a, b with
  | [], [] => Eq
  | [], _ :: _ => Lt
  | _ :: _, [] => Gt
  | x :: xs, y :: ys => match N.compare x y with Eq => str_cmp xs ys | c => c end
  end.
Definition str_ltb (a b : str) : bool := match str_cmp a b with Lt => true | _ => false end.

Section Map.
  Context {A : Type}.
  Fixpoint minsert (k : str) (v : A) (m : list (str * A)) : list (str * A) :=
    match m with
    | [] => [(k, v)]
    | (k', v') :: r =>
        match str_cmp k k' with
        | Lt => (k, v) :: m
        | Eq => (k, v) :: r
        | Gt => (k', v') :: minsert k v r
        end
    end.
  Fixpoint mget (k : str) (m : list (str * A)) : option A :=
    match m with
    | [] => None
    | (k', v') :: r => if str_eqb k k' then Some v' else mget k r
    end.
  Definition mmem (k : str) (m : list (str * A)) : bool :=
    match mget k m with Some _ => true | None => false end.
End Map.

(** `forms: BTreeMap<PluralForm, ParsedValue>` *)
Fixpoint finsert (f : form) (v : N) (m : list (form * N)) : list (form * N) :=
  match m with
  | [] => [(f, v)]
  | (f', v') :: r =>
      if form_ltb f f' then (f, v) :: m
      else if form_eqb f f' then (f, v) :: r
      else (f', v') :: finsert f v r
  end.
Fixpoint fget (f : form) (m : list (form * N)) : option N :=
  match m with
  | [] => None
  | (f', v') :: r => if form_eqb f f' then Some v' else fget f r
  end.

(** * merge_plurals *)

(** a candidate form: (form, original key, rule type, id of the value) — the tuple pushed in the first loop *)
Definition member := (form * str * rule * N)%type.
Definition m_form (m : member) : form := let '(f, _, _, _) := m in f.
Definition m_key (m : member) : str := let '(_, k, _, _) := m in k.
Definition m_rule (m : member) : rule := let '(_, _, r, _) := m in r.
Definition m_id (m : member) : N := let '(_, _, _, i) := m in i.
Definition is_other (m : member) : bool := form_eqb (m_form m) Other.

Definition kmap := list (str * oval).
Definition gmap := list (str * list member).     (* possible_plurals: BTreeMap<String, Vec<..>> *)

(** `possible_plurals.entry(base).or_default().push(m)` *)
Definition gpush (b : str) (m : member) (g : gmap) : gmap :=
  minsert b (match mget b g with Some l => l ++ [m] | None => [m] end) g.

(** first loop over the keys (ascending): candidates are grouped by base key, the rest is put back *)
Definition step1 (st : kmap * gmap) (kv : str * ival) : kmap * gmap :=
  let '(keys, groups) := st in
  let '(k, v) := kv in
  match classify k v with
  | Some (b, r, f, id) => (keys, gpush b (f, k, r, id) groups)
  | None => (minsert k (Kept v) keys, groups)
  end.

(** `for (_, key, _, value) in plurals { self.keys.insert(key, value) }` *)
Definition reinsert (g : list member) (keys : kmap) : kmap :=
  fold_left (fun ks m => minsert (m_key m) (Kept (Leaf (m_id m))) ks) g keys.

(** `plurals.remove(position of the first Other)` *)
Fixpoint remove_first_other (g : list member) : option (member * list member) :=
  match g with
  | [] => None
  | m :: r =>
      if is_other m then Some (m, r)
      else match remove_first_other r with
           | Some (o, r') => Some (o, m :: r')
           | None => None
           end
  end.

Inductive errk :=
| EConflict  (* ConflictingPluralRuleType { key_path } *)
| ECollide   (* PluralsAtNormalKey { key_path } *)
| EInvalid.  (* InvalidKey(base): the error carries the base key only, modelled as the path [base] *)
Definition warning := (list str * form * rule)%type.      (* UnusedForm: key path, form, rule type *)
Inductive res :=
| ROk (keys : kmap) (warns : list warning)
| RErr (k : errk) (path : list str)
| RPanic.                                                (* a panic of the implementation; the repaired model never panics *)

Section Level.
  Variable is_key : str -> bool.
  Variable cats : rule -> list form.

  (** Plurals::check_forms: `forms.difference(&used_forms)`, ascending *)
  Definition unused (path : list str) (r : rule) (forms : list (form * N)) : list warning :=
    map (fun fv => (path, fst fv, r))
        (filter (fun fv => negb (existsb (form_eqb (fst fv)) (cats r))) forms).

  (** second loop: every group in ascending order of its base key *)
  Fixpoint loop2 (path : list str) (gs : gmap) (keys : kmap) (ws : list warning) : res :=
    match gs with
    | [] => ROk keys ws
    | (b, g) :: rest =>
        if Nat.eqb (length g) 1 || negb (existsb is_other g) then loop2 path rest (reinsert g keys) ws
        else
          match remove_first_other g with
          | None => RPanic (* unreachable: an Other exists *)
          | Some (o, others) =>
              if negb (is_key b) then RErr EInvalid [b] (* Key::try_new(&base_key)? *) else
              if existsb (fun m => negb (rule_eqb (m_rule m) (m_rule o))) others
              then RErr EConflict (path ++ [b])
              else
                let forms := fold_left (fun acc m => finsert (m_form m) (m_id m) acc) others [] in
                let ws' := ws ++ unused (path ++ [b]) (m_rule o) forms in
                if mmem b keys then RErr ECollide (path ++ [b])
                else loop2 path rest (minsert b (PluralV (m_rule o) (m_id o) forms) keys) ws'
          end
    end.

  Definition merge_level (path : list str) (ks : list (str * ival)) : res :=
    let '(keys, groups) := fold_left step1 ks ([], []) in
    loop2 path groups keys [].

  (** ** Before fixes/C09-plural-base-key-not-identifier.diff: `Key::new(base).unwrap_at("merge_plurals_1")` panicked *)
  Fixpoint loop2_panic_old (path : list str) (gs : gmap) (keys : kmap) (ws : list warning) : res :=
    match gs with
    | [] => ROk keys ws
    | (b, g) :: rest =>
        if Nat.eqb (length g) 1 || negb (existsb is_other g) then loop2_panic_old path rest (reinsert g keys) ws
        else
          match remove_first_other g with
          | None => RPanic
          | Some (o, others) =>
              if negb (is_key b) then RPanic else
              if existsb (fun m => negb (rule_eqb (m_rule m) (m_rule o))) others
              then RErr EConflict (path ++ [b])
              else
                let forms := fold_left (fun acc m => finsert (m_form m) (m_id m) acc) others [] in
                let ws' := ws ++ unused (path ++ [b]) (m_rule o) forms in
                if mmem b keys then RErr ECollide (path ++ [b])
                else loop2_panic_old path rest (minsert b (PluralV (m_rule o) (m_id o) forms) keys) ws'
          end
    end.
  Definition merge_level_panic_old (path : list str) (ks : list (str * ival)) : res :=
    let '(keys, groups) := fold_left step1 ks ([], []) in
    loop2_panic_old path groups keys [].

  (** ** The algorithm before the repair (inner map keyed by the form only): kept for the refutation lemma *)
  Definition gmap_old := list (str * list member).   (* inner list sorted by form, one entry per form *)
  Fixpoint finsert_m (m : member) (g : list member) : list member :=
    match g with
    | [] => [m]
    | m' :: r =>
        if form_ltb (m_form m) (m_form m') then m :: g
        else if form_eqb (m_form m) (m_form m') then m :: r     (* BTreeMap::insert silently replaces *)
        else m' :: finsert_m m r
    end.
  Definition gpush_old (b : str) (m : member) (g : gmap_old) : gmap_old :=
    minsert b (finsert_m m (match mget b g with Some l => l | None => [] end)) g.
  Definition step1_old (st : kmap * gmap_old) (kv : str * ival) : kmap * gmap_old :=
    let '(keys, groups) := st in
    let '(k, v) := kv in
    match classify k v with
    | Some (b, r, f, id) => (keys, gpush_old b (f, k, r, id) groups)
    | None => (minsert k (Kept v) keys, groups)
    end.
  Definition merge_level_old (path : list str) (ks : list (str * ival)) : res :=
    let '(keys, groups) := fold_left step1_old ks ([], []) in
    loop2 path groups keys [].
End Level.

(** * Selection of the rendered form *)

(** the generated `match rules.category_for(count) { form_i => v_i, .., _ => other }` and the parse-time choice of
    populate_with_count_arg: `Other => other, c => forms.get(c).unwrap_or(other)`; [c] is the CLDR category *)
Definition select_cat (other : N) (forms : list (form * N)) (c : form) : N :=
  match c with
  | Other => other
  | _ => match fget c forms with Some v => v | None => other end
  end.
(* the generated match has no special case for Other: first arm whose pattern equals the category, else `_` *)
Definition select_match (other : N) (forms : list (form * N)) (c : form) : N :=
  match fget c forms with Some v => v | None => other end.

(** * Specification (independent, filter-based description of the level) *)

Definition tag_of (kv : str * ival) := classify (fst kv) (snd kv).
Definition in_group (b : str) (kv : str * ival) : bool :=
  match tag_of kv with Some (b', _, _, _) => str_eqb b' b | None => false end.
(** the keys that differ from [b] only by an (ordinal) plural suffix *)
Definition members (ks : list (str * ival)) (b : str) : list (str * ival) := filter (in_group b) ks.
Definition tag_form (kv : str * ival) : option form :=
  match tag_of kv with Some (_, _, f, _) => Some f | None => None end.
Definition tag_rule (kv : str * ival) : option rule :=
  match tag_of kv with Some (_, r, _, _) => Some r | None => None end.
Definition tag_id (kv : str * ival) : N :=
  match tag_of kv with Some (_, _, _, i) => i | None => 0 end.
Definition has_form (f : form) (kv : str * ival) : bool :=
  match tag_form kv with Some f' => form_eqb f' f | None => false end.
Definition has_rule (r : rule) (kv : str * ival) : bool :=
  match tag_rule kv with Some r' => rule_eqb r' r | None => false end.

(** a group is merged when it has at least two keys, one of them `_other` *)
Definition mergeable (ks : list (str * ival)) (b : str) : bool :=
  Nat.leb 2 (length (members ks b)) && existsb (has_form Other) (members ks b).
Definition kv_merged (ks : list (str * ival)) (kv : str * ival) : bool :=
  match tag_of kv with Some (b, _, _, _) => mergeable ks b | None => false end.
(** keys that stay as they are *)
Definition remaining (ks : list (str * ival)) : list (str * ival) := filter (fun kv => negb (kv_merged ks kv)) ks.
(** base keys of the merged groups (with repetitions) *)
Definition merged_bases (ks : list (str * ival)) : list str :=
  flat_map (fun kv => match tag_of kv with
                      | Some (b, _, _, _) => if mergeable ks b then [b] else []
                      | None => [] end) ks.
Definition mixed (ks : list (str * ival)) (b : str) : bool :=
  existsb (has_rule Cardinal) (members ks b) && existsb (has_rule Ordinal) (members ks b).
Definition collides (ks : list (str * ival)) (b : str) : bool :=
  existsb (fun kv => str_eqb (fst kv) b) (remaining ks).
(** ids of the values written for form [f] under base [b] *)
Definition written (ks : list (str * ival)) (b : str) (f : form) : list N :=
  map tag_id (filter (has_form f) (members ks b)).

Definition mem_str (k : str) (l : list str) : bool := existsb (str_eqb k) l.
Fixpoint sorted_strict (l : list str) : bool :=
  match l with
  | a :: ((b :: _) as r) => str_ltb a b && sorted_strict r
  | _ => true
  end.
Definition ival_eqb (a b : ival) : bool :=
  match a, b with
  | Leaf x, Leaf y | RangesV x, RangesV y | SubV x, SubV y => x =? y
  | _, _ => false
  end.
Fixpoint path_eqb (a b : list str) : bool :=
  match a, b with
  | [], [] => true
  | x :: xs, y :: ys => str_eqb x y && path_eqb xs ys
  | _, _ => false
  end.
Definition warning_eqb (a b : warning) : bool :=
  let '(p, f, r) := a in let '(q, g, s) := b in path_eqb p q && form_eqb f g && rule_eqb r s.
Definition incl_b {A} (eqb : A -> A -> bool) (l1 l2 : list A) : bool :=
  forallb (fun x => existsb (eqb x) l2) l1.
Fixpoint split_last {A} (l : list A) : option (list A * A) :=
  match l with
  | [] => None
  | [x] => Some ([], x)
  | x :: r => match split_last r with Some (p, y) => Some (x :: p, y) | None => None end
  end.

Section Spec.
  Variable is_key : str -> bool.
  Variable cats : rule -> list form.

  (** the plural node stored under a merged base key is what the property describes *)
  Definition plural_ok (ks : list (str * ival)) (b : str) (o : option oval) : bool :=
    match o with
    | Some (PluralV r other forms) =>
        (* rule type of the group *)
        forallb (has_rule r) (members ks b) &&
        (* for every CLDR category c: the form written for c, else the `_other` form *)
        forallb (fun c => match written ks b c with
                          | [] => existsb (N.eqb (select_match other forms c)) (written ks b Other)
                          | ids => existsb (N.eqb (select_match other forms c)) ids
                          end) all_forms &&
        forallb (fun c => select_cat other forms c =? select_match other forms c) all_forms
    | _ => false
    end.

  (** UnusedForm(f) for base b  iff  f written (other than `_other`) and f is not a category of the locale *)
  Definition expected_warnings (path : list str) (ks : list (str * ival)) : list warning :=
    flat_map (fun kv => match tag_of kv with
                        | Some (b, r, f, _) =>
                            if mergeable ks b && negb (form_eqb f Other) && negb (existsb (form_eqb f) (cats r))
                            then [(path ++ [b], f, r)] else []
                        | None => [] end) ks.

  Definition spec_C05 (path : list str) (ks : list (str * ival)) (impl : res) : bool :=
    match impl with
    | ROk out ws =>
        (* mixing rule types or colliding with a remaining key must have been an error *)
        forallb (fun b => negb (mixed ks b) && negb (collides ks b)) (merged_bases ks) &&
        (* key set = remaining keys + merged base keys *)
        sorted_strict (map fst out) &&
        forallb (fun k => mem_str k (map fst (remaining ks)) || mem_str k (merged_bases ks)) (map fst out) &&
        forallb (fun kv => match mget (fst kv) out with Some (Kept v) => ival_eqb v (snd kv) | _ => false end)
                (remaining ks) &&
        forallb (fun b => plural_ok ks b (mget b out)) (merged_bases ks) &&
        (* warnings *)
        incl_b warning_eqb ws (expected_warnings path ks) && incl_b warning_eqb (expected_warnings path ks) ws
    | RErr EInvalid p =>
        (* the base key of a merged group is not an identifier: a descriptive error naming it *)
        match p with [b] => mergeable ks b && negb (is_key b) | _ => false end
    | RErr k p =>
        match split_last p with
        | Some (pre, b) =>
            path_eqb pre path && mergeable ks b &&
            match k with EConflict => mixed ks b | ECollide => collides ks b | EInvalid => false end
        | None => false
        end
    | RPanic => false      (* merging yields keys or a descriptive error, never a panic *)
    end.
End Spec.

(** * Cross-locale clause: a locale that writes the `_other` form of a key other locales merge has that key too *)

Definition all_merged_bases (levels : list (list (str * ival))) : list str := flat_map merged_bases levels.
Fixpoint forallb2 {A B} (f : A -> B -> bool) (a : list A) (b : list B) : bool :=
  match a, b with
  | [], [] => true
  | x :: xs, y :: ys => f x y && forallb2 f xs ys
  | _, _ => false
  end.
Definition is_plural_at (b : str) (out : kmap) : bool :=
  match mget b out with Some (PluralV _ _ _) => true | _ => false end.
Definition spec_cross (levels : list (list (str * ival))) (outs : list kmap) : bool :=
  forallb2 (fun ks out =>
              forallb (fun b => negb (existsb (has_form Other) (members ks b)) || is_plural_at b out)
                      (all_merged_bases levels))
           levels outs.
(** the failing class (known finding "lone-other"): some locale writes `_other` alone for a base merged elsewhere *)
Definition lone_other (levels : list (list (str * ival))) : bool :=
  existsb (fun ks => existsb (fun b => Nat.eqb (length (members ks b)) 1 && existsb (has_form Other) (members ks b))
                             (all_merged_bases levels)) levels.

(** * Second pass over the locales of a namespace: a lone `<key>_other` (fix C05-lone-other)

    `LocalesOrNamespaces::merge_plurals_inner`: every locale is merged ([merge_level], the key paths of the created
    plurals are recorded), then `Locale::merge_lone_plurals` turns a `<b>_other` / `<b>_ordinal_other` that was left
    alone into a plural with no other form when `b` is a plural in at least one locale.  Top level only (path []). *)

Section Lone.
  Variable is_key : str -> bool.
  Variable ext : str -> bool.                 (* plural_keys.contains(path + [b]) *)

  Definition lone_candidate (kv : str * oval) : option (str * rule * N) :=
    match snd kv with
    | Kept (Leaf id) =>
        match classify (fst kv) (Leaf id) with
        | Some (b, r, Other, _) => if is_key b && ext b then Some (b, r, id) else None
        | _ => None
        end
    | _ => None      (* range tables, sub-objects, and the plurals of the first pass *)
    end.

  Definition lone_step (st : kmap * list (str * rule * N)) (kv : str * oval) : kmap * list (str * rule * N) :=
    match lone_candidate kv with
    | Some c => (fst st, snd st ++ [c])
    | None => (minsert (fst kv) (snd kv) (fst st), snd st)
    end.

  Fixpoint lone_insert (path : list str) (lone : list (str * rule * N)) (keys : kmap) : res :=
    match lone with
    | [] => ROk keys []
    | (b, r, id) :: rest =>
        if mmem b keys then RErr ECollide (path ++ [b])
        else lone_insert path rest (minsert b (PluralV r id []) keys)
    end.

  Definition lone_pass (path : list str) (keys : kmap) : res :=
    let '(rest, lone) := fold_left lone_step keys ([], []) in lone_insert path lone rest.
End Lone.

Inductive pres := POk (outs : list kmap) | PErr (k : errk) (p : list str) | PPanic.

Definition plural_bases (out : kmap) : list str :=
  flat_map (fun kv => match snd kv with PluralV _ _ _ => [fst kv] | _ => [] end) out.

(** run [f] on every element, stop at the first error *)
Fixpoint seq_res {A} (f : A -> res) (l : list A) : pres :=
  match l with
  | [] => POk []
  | x :: r =>
      match f x with
      | ROk out _ => match seq_res f r with POk outs => POk (out :: outs) | e => e end
      | RErr k p => PErr k p
      | RPanic => PPanic
      end
  end.

Definition merge_project (is_key : str -> bool) (cats : rule -> list form) (levels : list (list (str * ival))) : pres :=
  match seq_res (merge_level is_key cats []) levels with
  | POk outs1 =>
      let ext := fun b => existsb (fun out => mem_str b (plural_bases out)) outs1 in
      if forallb (fun out => match plural_bases out with [] => true | _ => false end) outs1 then POk outs1
      else seq_res (lone_pass is_key ext []) outs1
  | e => e
  end.

