(** Soundness of foreign-key resolution, part 7 (property C06): every well-formed source of the full
    source AST of Foreign.v ([xitems_wf], ForeignFull.v) is the image of a well-formed, unpadded,
    formatter-less stage-1 source; hence the parser statement [parse_args_statement] and the full
    soundness statement [sound_statement] hold. *)
From Coq Require Import List NArith ZArith Bool Arith Lia.
Import ListNotations.
From LI Require Import Base.StrOps Base.StrLemmas Parser.Parse Parser.Json Parser.Reduce Parser.Source Parser.RoundTrip1
  Parser.RoundTrip2 Parser.RoundTrip3 Parser.RoundTrip4 Parser.ReduceProofs Parser.Foreign Parser.ForeignSound2 Parser.ForeignFull
  Parser.ForeignSound4 Parser.ForeignSound5 Parser.ForeignSound6
  Parser.RoundTripRef1 Parser.RoundTripRef2 Parser.RoundTripRef3 Parser.RoundTripRef4.
Open Scope N_scope.

Section XItemInd.
Variable P : xitem -> Prop.
Hypothesis HT : forall s, P (XText s).
Hypothesis HV : forall n, P (XVar n).
Hypothesis HC : forall n kids, Forall P kids -> P (XComp n kids).
Hypothesis HR : forall ns path args, P (XRef ns path args).
Fixpoint xitem_ind2 (i : xitem) : P i :=
  match i with
  | XText s => HT s
  | XVar n => HV n
  | XComp n kids =>
      HC n kids ((fix go (l : list xitem) : Forall P l :=
                    match l with [] => Forall_nil P | k :: r => Forall_cons k (xitem_ind2 k) (go r) end) kids)
  | XRef ns path args => HR ns path args
  end.
End XItemInd.

(** * the stage-1 source of a source of the full AST *)
Definition bare (n : str) : pseg := ([], n, []).
Fixpoint of_xa (i : xitem) : aitem :=
  match i with
  | XText s => AText s
  | XVar n => AVar [] n [] None
  | XComp n kids => AComp [] n [] (map of_xa kids) [] [] []
  | XRef ns path _ => ARef (option_map bare ns) (map bare path)
  end.
Definition of_xarg (a : xarg) : rarg := match a with XAStr its => RAStr (map of_xa its) | XALit l => RALit l end.
Fixpoint of_x (i : xitem) : ritem :=
  match i with
  | XText s => RText s
  | XVar n => RVar [] n [] None
  | XComp n kids => RComp [] n [] (map of_x kids) [] [] []
  | XRef ns path args =>
      match args with
      | [] => RRef (option_map bare ns) (map bare path)
      | _ :: _ => RRefA (option_map bare ns) (map bare path) (map (fun ka => (fst ka, of_xarg (snd ka))) args)
      end
  end.

Lemma seg_bare_names path : map seg_name (map bare path) = path.
Proof. rewrite map_map. cbn [seg_name bare]. apply map_id. Qed.
Lemma opt_bare_name ns : option_map seg_name (option_map bare ns) = ns.
Proof. destruct ns; reflexivity. Qed.
Lemma kp_bare_bare ns path : kp_bare (option_map bare ns) (map bare path) = true.
Proof.
  unfold kp_bare. apply andb_true_iff. split; [destruct ns; reflexivity|].
  rewrite forallb_forall. intros p Hp. apply in_map_iff in Hp as (n & <- & _). reflexivity.
Qed.

(** * characters *)
Lemma jsafe_app a b : forallb jsafe a = true -> forallb jsafe b = true -> forallb jsafe (a ++ b) = true.
Proof. intros Ha Hb. rewrite forallb_app, Ha, Hb. reflexivity. Qed.
Lemma namech_jsafe_str n : forallb namech n = true -> forallb jsafe n = true.
Proof.
  intros H. rewrite forallb_forall in H |- *. intros c Hc. specialize (H c Hc).
  unfold namech, is_alnum, is_alpha, jsafe, c_us, c_minus, c_quote in *.
  repeat match goal with
         | H : _ || _ = true |- _ => apply orb_true_iff in H; destruct H as [H|H]
         | H : _ && _ = true |- _ => apply andb_true_iff in H; destruct H as [? ?]
         | H : (_ <=? _) = true |- _ => apply N.leb_le in H
         | H : (_ =? _) = true |- _ => apply N.eqb_eq in H
         end;
  repeat (apply andb_true_iff; split); apply negb_true_iff;
  try (apply N.eqb_neq; lia); try (apply N.ltb_ge; lia).
Qed.
Lemma jsafe_concat (ls : list str) : Forall (fun s => forallb jsafe s = true) ls -> forallb jsafe (concat ls) = true.
Proof. induction 1 as [|s r Hs Hr IH]; [reflexivity|]. cbn [concat]. apply jsafe_app; assumption. Qed.
Lemma jsafe_join (ls : list str) : Forall (fun s => forallb jsafe s = true) ls -> forallb jsafe (join_dot ls) = true.
Proof.
  induction 1 as [|s r Hs Hr IH]; [reflexivity|]. cbn [join_dot]. destruct r as [|y r']; [exact Hs|].
  apply jsafe_app; [exact Hs|]. cbn [forallb]. rewrite IH. reflexivity.
Qed.

Section OfX.
Variable idc : str -> idres.

Lemma name_chars prefix n : name_wf idc prefix n = true -> forallb namech n = true.
Proof. intros H. destruct (name_wf_parts idc _ _ H) as (_ & Hc & _). exact Hc. Qed.

Lemma kp_of_x ns path :
  (match ns with Some n => name_wf idc [] n | None => true end) && nonnil path && forallb (name_wf idc []) path = true ->
  kp_wf idc (option_map bare ns) (map bare path) = true /\
  forallb jsafe (keypath_text (option_map bare ns) (map bare path)) = true.
Proof.
  intros H. apply andb_true_iff in H as [H H3]. apply andb_true_iff in H as [H1 H2]. split.
  - unfold kp_wf. apply andb_true_iff. split; [apply andb_true_iff; split|].
    + destruct ns as [n|]; [|reflexivity]. cbn [option_map bare seg_wf wsb forallb andb]. exact H1.
    + destruct path; [discriminate | reflexivity].
    + rewrite forallb_forall in H3 |- *. intros p Hp. apply in_map_iff in Hp as (n & <- & Hn).
      cbn [bare seg_wf wsb forallb andb]. apply H3. exact Hn.
  - unfold keypath_text. apply jsafe_app.
    + destruct ns as [n|]; [|reflexivity]. cbn [option_map bare pad app]. rewrite app_nil_r.
      apply jsafe_app; [apply namech_jsafe_str; eapply name_chars; exact H1 | reflexivity].
    + apply jsafe_join. apply Forall_map. apply Forall_map. apply Forall_forall. intros n Hn.
      cbn [bare pad app]. rewrite app_nil_r. apply namech_jsafe_str. rewrite forallb_forall in H3. eapply name_chars. apply H3. exact Hn.
Qed.

(** items inside a string argument *)
Definition a_good (i : xitem) : Prop :=
  aitem_wfb idc (of_xa i) = true /\ aplain (of_xa i) = true /\ acanonical (of_xa i) = true /\ ato_x (of_xa i) = i /\
  forallb jsafe (aprint (of_xa i)) = true.

Lemma of_xa_good : forall i, xwf idc true i = true -> a_good i.
Proof.
  apply (xitem_ind2 (fun i => xwf idc true i = true -> a_good i)).
  - intros s H. cbn [xwf] in H. unfold a_good. cbn [of_xa aitem_wfb aplain acanonical ato_x aprint].
    assert (Hall : forall c, In c s -> textch c = true /\ negb (c =? c_rb) = true /\ jsafe c = true).
    { intros c Hc. rewrite forallb_forall in H. specialize (H c Hc). unfold argch in H.
      repeat (apply andb_true_iff in H as [H ?]). unfold jsafe. repeat split; try assumption.
      all: repeat (apply andb_true_iff; split); assumption. }
    repeat split; try reflexivity.
    + apply andb_true_iff. split; rewrite forallb_forall; intros c Hc; apply (Hall c Hc).
    + rewrite forallb_forall. intros c Hc. apply (Hall c Hc).
  - intros n H. cbn [xwf] in H. unfold a_good. cbn [of_xa aitem_wfb aplain acanonical ato_x aprint].
    repeat split; try reflexivity.
    + cbn [item_wfb wsb forallb andb]. rewrite H. reflexivity.
    + pose proof (namech_jsafe_str n (name_chars _ _ H)) as Jn.
      cbn [print app]. unfold s_open_var, s_close_var. cbn [app]. repeat (rewrite ?forallb_app; cbn [forallb]). rewrite Jn. reflexivity.
  - intros n kids IH H. cbn [xwf] in H. apply andb_true_iff in H as [Hn Hk].
    assert (G : Forall a_good kids).
    { rewrite Forall_forall in IH |- *. intros k Hin. apply IH; [exact Hin|]. rewrite forallb_forall in Hk. apply Hk. exact Hin. }
    unfold a_good. cbn [of_xa aitem_wfb aplain acanonical ato_x aprint]. repeat split.
    + cbn [wsb forallb andb]. rewrite Hn. cbn [andb]. rewrite forallb_forall. intros a Ha.
      apply in_map_iff in Ha as (k & <- & Hin). rewrite Forall_forall in G. apply (G k Hin).
    + rewrite forallb_forall. intros a Ha. apply in_map_iff in Ha as (k & <- & Hin). rewrite Forall_forall in G. apply (G k Hin).
    + cbn [is_nil andb]. rewrite forallb_forall. intros a Ha. apply in_map_iff in Ha as (k & <- & Hin). rewrite Forall_forall in G. apply (G k Hin).
    + f_equal. rewrite map_map. rewrite <- (map_id kids) at 2. apply map_ext_in. intros k Hin. rewrite Forall_forall in G. apply (G k Hin).
    + pose proof (namech_jsafe_str n (name_chars _ _ Hn)) as Jn.
      assert (Jk : forallb jsafe (concat (map aprint (map of_xa kids))) = true).
      { apply jsafe_concat. apply Forall_map. apply Forall_map. rewrite Forall_forall in G |- *. intros k Hin. apply (G k Hin). }
      unfold open_tag, close_tag. cbn [app]. repeat (rewrite ?forallb_app; cbn [forallb]). rewrite Jn, Jk. reflexivity.
  - intros ns path args H. cbn [xwf] in H. repeat (apply andb_true_iff in H as [H ?]).
    destruct args as [|x r]; [|discriminate].
    assert (Hkp : (match ns with Some n => name_wf idc [] n | None => true end) && nonnil path && forallb (name_wf idc []) path = true).
    { repeat (apply andb_true_iff; split); assumption. }
    destruct (kp_of_x ns path Hkp) as [Wk Jk].
    unfold a_good. cbn [of_xa aitem_wfb aplain acanonical ato_x aprint]. repeat split; try reflexivity.
    + exact Wk.
    + apply kp_bare_bare.
    + rewrite opt_bare_name, seg_bare_names. reflexivity.
    + unfold print_ref, s_fk. cbn [app]. repeat (rewrite ?forallb_app; cbn [forallb]). rewrite Jk. reflexivity.
Qed.

Lemma of_xa_list l : forallb (xwf idc true) l = true ->
  forallb (aitem_wfb idc) (map of_xa l) = true /\ forallb aplain (map of_xa l) = true /\
  forallb acanonical (map of_xa l) = true /\ map ato_x (map of_xa l) = l /\ forallb jsafe (aprint_list (map of_xa l)) = true.
Proof.
  induction l as [|i r IH]; intros H; [repeat split; reflexivity|].
  cbn [forallb] in H. apply andb_true_iff in H as [Hi Hr]. destruct (of_xa_good i Hi) as (A1 & A2 & A3 & A4 & A5).
  destruct (IH Hr) as (B1 & B2 & B3 & B4 & B5). cbn [map forallb]. rewrite A1, A2, A3, B1, B2, B3, A4, B4.
  repeat split; try reflexivity. unfold aprint_list in *. cbn [map concat]. apply jsafe_app; assumption.
Qed.

(** top-level items *)
Definition x_good (i : xitem) : Prop :=
  ritem_wfb idc (of_x i) = true /\ plain (of_x i) = true /\ canonical (of_x i) = true /\ to_x (of_x i) = i.

Lemma of_xarg_good k a : name_wf idc s_var_ k && xwf_arg idc a = true ->
  arg_wfb idc (k, of_xarg a) = true /\ rarg_plain (of_xarg a) = true /\ rarg_canonical (of_xarg a) = true /\ xarg_of (of_xarg a) = a.
Proof.
  intros H. apply andb_true_iff in H as [Hk Ha]. unfold arg_wfb. cbn [fst snd]. rewrite Hk. cbn [andb].
  destruct a as [l|l]; cbn [xwf_arg of_xarg rarg_wfb rarg_plain rarg_canonical xarg_of] in *.
  - destruct (of_xa_list l Ha) as (B1 & B2 & B3 & B4 & B5). rewrite B1, B5, B4. auto.
  - rewrite Ha. repeat split. destruct l; try discriminate; reflexivity.
Qed.

Lemma of_x_good : forall i, xwf idc false i = true -> x_good i.
Proof.
  apply (xitem_ind2 (fun i => xwf idc false i = true -> x_good i)).
  - intros s H. cbn [xwf] in H. unfold x_good. cbn [of_x RoundTripRef1.ritem_wfb plain canonical to_x]. auto.
  - intros n H. cbn [xwf] in H. unfold x_good. cbn [of_x RoundTripRef1.ritem_wfb plain canonical to_x].
    repeat split; try reflexivity. cbn [item_wfb wsb forallb andb]. rewrite H. reflexivity.
  - intros n kids IH H. cbn [xwf] in H. apply andb_true_iff in H as [Hn Hk].
    assert (G : Forall x_good kids).
    { rewrite Forall_forall in IH |- *. intros k Hin. apply IH; [exact Hin|]. rewrite forallb_forall in Hk. apply Hk. exact Hin. }
    unfold x_good. cbn [of_x RoundTripRef1.ritem_wfb plain canonical to_x]. repeat split.
    + cbn [wsb forallb andb]. rewrite Hn. cbn [andb]. rewrite forallb_forall. intros a Ha.
      apply in_map_iff in Ha as (k & <- & Hin). rewrite Forall_forall in G. apply (G k Hin).
    + rewrite forallb_forall. intros a Ha. apply in_map_iff in Ha as (k & <- & Hin). rewrite Forall_forall in G. apply (G k Hin).
    + cbn [is_nil andb]. rewrite forallb_forall. intros a Ha. apply in_map_iff in Ha as (k & <- & Hin). rewrite Forall_forall in G. apply (G k Hin).
    + f_equal. rewrite map_map. rewrite <- (map_id kids) at 2. apply map_ext_in. intros k Hin. rewrite Forall_forall in G. apply (G k Hin).
  - intros ns path args H. cbn [xwf] in H. repeat (apply andb_true_iff in H as [H ?]).
    assert (Hkp : (match ns with Some n => name_wf idc [] n | None => true end) && nonnil path && forallb (name_wf idc []) path = true).
    { repeat (apply andb_true_iff; split); assumption. }
    destruct (kp_of_x ns path Hkp) as [Wk _].
    match goal with Ha : forallb _ args = true |- _ => rename Ha into Hargs end.
    match goal with Hn : nodup_strs (map fst args) = true |- _ => rename Hn into Hnd end.
    unfold x_good. destruct args as [|x r].
    + cbn [of_x RoundTripRef1.ritem_wfb plain canonical to_x]. repeat split; try reflexivity; try exact Wk.
      * apply kp_bare_bare.
      * rewrite opt_bare_name, seg_bare_names. reflexivity.
    + set (args := x :: r) in *.
      assert (G : forall ka, In ka args -> arg_wfb idc (fst ka, of_xarg (snd ka)) = true /\ rarg_plain (of_xarg (snd ka)) = true
                                           /\ rarg_canonical (of_xarg (snd ka)) = true /\ xarg_of (of_xarg (snd ka)) = snd ka).
      { intros ka Hin. rewrite forallb_forall in Hargs. apply of_xarg_good. apply Hargs. exact Hin. }
      change (of_x (XRef ns path args)) with (RRefA (option_map bare ns) (map bare path) (map (fun ka => (fst ka, of_xarg (snd ka))) args)).
      cbn [RoundTripRef1.ritem_wfb plain canonical to_x]. repeat split.
      * rewrite Wk. cbn [andb]. unfold args_wfb. apply andb_true_iff. split; [apply andb_true_iff; split|].
        -- reflexivity.
        -- rewrite map_map. cbn [fst]. exact Hnd.
        -- rewrite forallb_forall. intros ka' Hin'. apply in_map_iff in Hin' as (ka & <- & Hin). apply (G ka Hin).
      * rewrite forallb_forall. intros ka' Hin'. apply in_map_iff in Hin' as (ka & <- & Hin). cbn [snd]. apply (G ka Hin).
      * rewrite kp_bare_bare. cbn [andb]. apply andb_true_iff. split; [reflexivity|].
        rewrite forallb_forall. intros ka' Hin'. apply in_map_iff in Hin' as (ka & <- & Hin). cbn [snd]. apply (G ka Hin).
      * rewrite opt_bare_name, seg_bare_names. f_equal. rewrite map_map. rewrite <- (map_id args) at 2.
        apply map_ext_in. intros ka Hin. cbn [fst snd]. destruct (G ka Hin) as (_ & _ & _ & E). rewrite E. destruct ka; reflexivity.
Qed.

Lemma of_x_list items : xitems_wf idc items = true ->
  ritems_wfb idc (map of_x items) = true /\ forallb plain (map of_x items) = true /\
  forallb canonical (map of_x items) = true /\ map to_x (map of_x items) = items.
Proof.
  unfold xitems_wf. induction items as [|i r IH]; intros H; [repeat split; reflexivity|].
  cbn [forallb] in H. apply andb_true_iff in H as [Hi Hr]. destruct (of_x_good i Hi) as (A1 & A2 & A3 & A4).
  destruct (IH Hr) as (B1 & B2 & B3 & B4). unfold ritems_wfb in *. cbn [map forallb]. rewrite A1, A2, A3, B1, B2, B3, A4, B4. auto.
Qed.
End OfX.

(** * the parser statement and the full soundness statement *)
Theorem parse_args_holds : parse_args_statement.
Proof.
  intros idc items v W H. destruct (of_x_list idc items W) as (B1 & B2 & B3 & B4).
  rewrite <- B4 in H |- *. apply (parse_args_partial idc (map of_x items) v B1 B2 B3 H).
Qed.

Theorem sound_holds : sound_statement.
Proof. exact (sound_from_parse_args parse_args_holds). Qed.
