(** C03: the fallback rule as an inductive relation, and its equivalence with the function
    [first_defined] (Parser/Merge.v) used by the executable specification.

    [Resolves inh present dflt visited l r]: starting at [l], having already passed through
    [visited], the walk along `inherits` ends in [r]: the first locale that defines the key; the
    default when the walk ends at a non-defining locale that does not inherit, or when the next
    locale has already been visited. *)
From Coq Require Import List NArith Bool Arith Lia.
Import ListNotations.
From LI Require Import Parser.Merge Parser.MergeProofs.
Open Scope N_scope.

Inductive Resolves (inh : loc -> option loc) (present : loc -> bool) (dflt : loc)
  : list loc -> loc -> loc -> Prop :=
| R_here : forall visited l, present l = true -> Resolves inh present dflt visited l l
| R_end : forall visited l, present l = false -> inh l = None -> Resolves inh present dflt visited l dflt
| R_loop : forall visited l m, present l = false -> inh l = Some m -> In m (l :: visited) ->
    Resolves inh present dflt visited l dflt
| R_step : forall visited l m r, present l = false -> inh l = Some m -> ~ In m (l :: visited) ->
    Resolves inh present dflt (l :: visited) m r -> Resolves inh present dflt visited l r.

Section Equiv.
  Variables (inh : loc -> option loc) (present : loc -> bool) (dflt : loc) (U : list loc).
  Hypothesis Hclosed : forall x y, inh x = Some y -> In y U.

  (* a set of non-defining locales closed under `inherits`: the walk never leaves it *)
  Lemma closed_set_default : forall (S : list loc),
    (forall v, In v S -> present v = false /\ exists k, inh v = Some k /\ In k S) ->
    forall F l, In l S -> first_defined inh present dflt F l = dflt.
  Proof.
    intros S HS. induction F as [|F IH]; intros l Hl; cbn [first_defined];
      destruct (HS l Hl) as [Hp [k [Hk HkS]]]; rewrite Hp; [reflexivity|].
    rewrite Hk. now apply IH.
  Qed.

  Definition inv (visited : list loc) (l : loc) : Prop :=
    NoDup (l :: visited) /\ incl (l :: visited) U
    /\ forall v, In v visited -> present v = false /\ exists k, inh v = Some k /\ In k (l :: visited).

  Lemma inv_step : forall visited l m,
    inv visited l -> present l = false -> inh l = Some m -> ~ In m (l :: visited) -> inv (l :: visited) m.
  Proof.
    intros visited l m [Hnd [Hincl Hclo]] Hp Hm Hnin. split; [now constructor|]. split.
    - intros x [<-|Hx]; [eapply Hclosed; eauto | now apply Hincl].
    - intros v [<-|Hv].
      + split; [assumption|]. exists m. split; [assumption | now left].
      + destruct (Hclo v Hv) as [Hpv [k [Hk Hin]]]. split; [assumption|]. exists k. split; [assumption | now right].
  Qed.

  Lemma resolves_first_defined : forall visited l r,
    Resolves inh present dflt visited l r -> inv visited l ->
    forall F, (length U <= F + length visited)%nat -> r = first_defined inh present dflt F l.
  Proof.
    intros visited l r H. induction H as [visited l Hp | visited l Hp Hn | visited l m Hp Hm Hin | visited l m r Hp Hm Hnin Hres IH];
      intros Hinv F HF.
    - symmetry. now apply first_defined_present.
    - destruct F; cbn [first_defined]; rewrite Hp; [reflexivity | now rewrite Hn].
    - symmetry. apply closed_set_default with (S := l :: visited); [|now left].
      destruct Hinv as [_ [_ Hclo]]. intros v [<-|Hv].
      + split; [assumption|]. eauto.
      + exact (Hclo v Hv).
    - assert (Hinv' : inv (l :: visited) m) by (now apply inv_step).
      destruct F as [|F].
      + exfalso. destruct Hinv' as [Hnd' [Hincl' _]].
        pose proof (NoDup_incl_length Hnd' Hincl') as Hl. cbn [length] in Hl, HF. lia.
      + cbn [first_defined]. rewrite Hp, Hm. apply IH; [assumption|]. cbn [length]. lia.
  Qed.

  Lemma resolves_exists : forall n visited l,
    (length U <= n + length visited)%nat -> inv visited l -> exists r, Resolves inh present dflt visited l r.
  Proof.
    induction n as [|n IH]; intros visited l Hn Hinv.
    - exfalso. destruct Hinv as [Hnd [Hincl _]]. pose proof (NoDup_incl_length Hnd Hincl) as Hl.
      cbn [length] in Hl. lia.
    - destruct (present l) eqn:Hp; [exists l; now constructor|].
      destruct (inh l) as [m|] eqn:Hm; [|exists dflt; now apply R_end].
      destruct (in_dec N.eq_dec m (l :: visited)) as [Hin|Hnin]; [exists dflt; eapply R_loop; eauto|].
      destruct (IH (l :: visited) m) as [r Hr]; [cbn [length]; lia | now apply inv_step|].
      exists r. eapply R_step; eauto.
  Qed.

  (** the relation and the function agree once the fuel covers the number of locales *)
  Theorem resolves_iff : forall F l r,
    In l U -> (length U <= F)%nat ->
    (Resolves inh present dflt [] l r <-> r = first_defined inh present dflt F l).
  Proof.
    intros F l r Hl HF.
    assert (Hinv : inv [] l).
    { split; [constructor; [intros []|constructor]|]. split; [intros x [<-|[]]; assumption | intros v []]. }
    split.
    - intros H. apply (resolves_first_defined _ _ _ H Hinv). cbn [length]. lia.
    - intros ->. destruct (resolves_exists (length U) [] l) as [r' Hr']; [cbn [length]; lia | assumption|].
      rewrite <- (resolves_first_defined _ _ _ Hr' Hinv F); [assumption | cbn [length]; lia].
  Qed.
End Equiv.
