(** The cycle stack of foreign-key resolution only ever turns a result into the cycle error
    (property C06): enlarging the stack of a successful resolution either keeps the result or yields
    [E_RecursiveForeignKey], nothing else. *)
From Coq Require Import List NArith ZArith Bool Arith Lia.
Import ListNotations.
From LI Require Import Base.StrOps Base.StrLemmas Parser.Parse Parser.Json Parser.Reduce
  Parser.Foreign Parser.ForeignProofs Parser.ForeignSound.
Open Scope N_scope.

Section Stack.
Variable vals : values.
Variable dflt : str.
Variable inherits : list (str * str).
Notation resolve := (resolve vals dflt inherits).
Notation look := (look vals dflt inherits).

Definition same_or_cycle {A} (x : res A) (r : A) : Prop := x = Ok r \/ x = Err E_RecursiveForeignKey.

Definition rec_cyc (rec : list (str * keypath) -> str -> pv -> res pv) : Prop :=
  forall s' s l v r, sub_stack s' s -> rec s' l v = Ok r -> same_or_cycle (rec s l v) r.

Lemma resolve_args_cyc rec s' s L args r : rec_cyc rec -> sub_stack s' s ->
  resolve_args rec s' L args = Ok r -> same_or_cycle (resolve_args rec s L args) r.
Proof.
  intros Hc Hs. revert r. induction args as [|[k a] t IH]; intros r H; cbn [resolve_args fold_right] in H |- *; [left; exact H|].
  fold (resolve_args rec s' L t) in H. fold (resolve_args rec s L t).
  destruct (rec s' L a) as [a'| | | |] eqn:Ea; cbn [bind] in H; try discriminate.
  destruct (resolve_args rec s' L t) as [r'| | | |] eqn:Et; cbn [bind] in H; try discriminate.
  inversion H; subst.
  destruct (Hc _ _ _ _ _ Hs Ea) as [E|E]; rewrite E; cbn [bind]; [|right; reflexivity].
  destruct (IH _ eq_refl) as [E2|E2]; rewrite E2; cbn [bind]; [left | right]; reflexivity.
Qed.

Lemma look_cyc rec : rec_cyc rec -> forall n s' s target args A L r, sub_stack s' s ->
  look rec n s' target args A L = Ok r -> same_or_cycle (look rec n s target args A L) r.
Proof.
  intros Hc. induction n as [|n IHn]; intros s' s target args A L r Hs H; cbn [Foreign.look] in H |- *;
    destruct (get_value_at vals L target) as [[T| |sub]|]; try discriminate.
  - destruct (on_stack L target s') eqn:Eo'; [discriminate|].
    destruct (rec ((L, target) :: s') L T) as [T'| | | |] eqn:ET; cbn [bind] in H; try discriminate.
    destruct (resolve_args rec s' A args) as [args'| | | |] eqn:EA; cbn [bind] in H; try discriminate.
    inversion H; subst.
    destruct (on_stack L target s); [right; reflexivity|].
    destruct (Hc _ _ _ _ _ (sub_stack_cons (L, target) _ _ Hs) ET) as [E|E]; rewrite E; cbn [bind]; [|right; reflexivity].
    destruct (resolve_args_cyc _ _ _ _ _ _ Hc Hs EA) as [E2|E2]; rewrite E2; cbn [bind]; [left | right]; reflexivity.
  - destruct (str_eqb L dflt); discriminate.
  - destruct (resolve_args rec s' A args); cbn [bind] in H; discriminate.
  - destruct (on_stack L target s') eqn:Eo'; [discriminate|].
    destruct (rec ((L, target) :: s') L T) as [T'| | | |] eqn:ET; cbn [bind] in H; try discriminate.
    destruct (resolve_args rec s' A args) as [args'| | | |] eqn:EA; cbn [bind] in H; try discriminate.
    inversion H; subst.
    destruct (on_stack L target s); [right; reflexivity|].
    destruct (Hc _ _ _ _ _ (sub_stack_cons (L, target) _ _ Hs) ET) as [E|E]; rewrite E; cbn [bind]; [|right; reflexivity].
    destruct (resolve_args_cyc _ _ _ _ _ _ Hc Hs EA) as [E2|E2]; rewrite E2; cbn [bind]; [left | right]; reflexivity.
  - destruct (str_eqb L dflt); [discriminate|]. eapply IHn; [exact Hs | exact H].
  - destruct (resolve_args rec s' A args); cbn [bind] in H; discriminate.
Qed.

Theorem resolve_stack_only_cycles : forall fuel, rec_cyc (resolve fuel).
Proof.
  induction fuel as [|f IH]; intros s' s L v r Hs H; [discriminate|].
  destruct v as [l|k fm|k i|l|ns p args]; cbn [Foreign.resolve] in H |- *.
  - left. exact H.
  - left. exact H.
  - destruct (resolve f s' L i) as [i'| | | |] eqn:E; cbn [bind] in H; try discriminate. inversion H; subst.
    destruct (IH _ _ _ _ _ Hs E) as [E2|E2]; rewrite E2; cbn [bind]; [left | right]; reflexivity.
  - match type of H with bind ?X _ = _ => destruct X as [l'| | | |] eqn:E end; cbn [bind] in H; try discriminate.
    inversion H; subst. clear H.
    match goal with |- same_or_cycle (bind ?X _) _ => assert (E' : same_or_cycle X l') end.
    { revert l' E. induction l as [|x t IHl]; intros l' E; cbn [fold_right] in E |- *; [left; exact E|].
      destruct (resolve f s' L x) as [x'| | | |] eqn:Ex; cbn [bind] in E; try discriminate.
      match type of E with bind ?X _ = _ => destruct X as [t'| | | |] eqn:Et end; cbn [bind] in E; try discriminate.
      inversion E; subst.
      destruct (IH _ _ _ _ _ Hs Ex) as [E2|E2]; rewrite E2; cbn [bind]; [|right; reflexivity].
      destruct (IHl _ eq_refl) as [E3|E3]; rewrite E3; cbn [bind]; [left | right]; reflexivity. }
    destruct E' as [E'|E']; rewrite E'; cbn [bind]; [left | right]; reflexivity.
  - eapply look_cyc; [exact IH | exact Hs | exact H].
Qed.

(** with the empty stack as reference: whatever is being resolved up the call stack, a value resolves
    to the same result as on its own, or the resolution is rejected as recursive *)
Corollary resolve_stack_unobservable fuel s L v r :
  resolve fuel [] L v = Ok r -> resolve fuel s L v = Ok r \/ resolve fuel s L v = Err E_RecursiveForeignKey.
Proof. intros H. exact (resolve_stack_only_cycles fuel [] s L v r (sub_stack_nil s) H). Qed.
End Stack.
