(** Proofs about the formatter-selection model (property C18, parser part). *)
From Coq Require Import List NArith Bool Arith Lia.
From Coq Require Strings.String.
Import Strings.String.StringSyntax.
Import ListNotations.
From LI Require Import Base.StrOps Parser.Formatter.
Open Scope N_scope.

(** * string equality *)
Lemma str_eqb_eq : forall a b, str_eqb a b = true <-> a = b.
Proof.
  induction a as [|x a IH]; intros [|y b]; cbn [str_eqb]; split; intro H; try reflexivity; try discriminate.
  - apply andb_true_iff in H as [H1 H2]. apply N.eqb_eq in H1. apply IH in H2. congruence.
  - injection H as -> ->. rewrite N.eqb_refl. cbn [andb]. apply IH. reflexivity.
Qed.

Lemma str_eqb_refl : forall a, str_eqb a a = true.
Proof. intro a. apply str_eqb_eq. reflexivity. Qed.

Lemma str_eqb_sym : forall a b, str_eqb a b = str_eqb b a.
Proof.
  intros a b. destruct (str_eqb a b) eqn:E.
  - apply str_eqb_eq in E. subst. symmetry. apply str_eqb_refl.
  - destruct (str_eqb b a) eqn:E'; [|reflexivity].
    apply str_eqb_eq in E'. subst. rewrite str_eqb_refl in E. discriminate.
Qed.

(** * from_args_helper = the documented "first accepted value, else default" *)
Lemma first_recognised_filter_map : forall T name (f : str -> option T) l,
  first_recognised name f l =
  hd_error (filter_map (fun av => if str_eqb (fst av) name then f (snd av) else None) l).
Proof.
  intros T name f. induction l as [|[a v] r IH]; [reflexivity|].
  cbn [first_recognised filter_map fst snd].
  destruct (str_eqb a name); cbn [negb].
  - destruct (f v); [reflexivity | exact IH].
  - exact IH.
Qed.

Lemma helper_is_pick : forall T (dflt : T) name values f args,
  (forall v, f v = lookup v values) ->
  from_args_helper dflt args name f = pick (name, values, dflt) (args_list args).
Proof.
  intros T dflt name values f [l|] Hf; unfold from_args_helper, pick, args_list.
  - rewrite first_recognised_filter_map.
    assert (E : forall l0 : list (str * str),
      filter_map (fun av => if str_eqb (fst av) name then f (snd av) else None) l0 =
      filter_map (fun av => if str_eqb (fst av) name then lookup (snd av) values else None) l0).
    { induction l0 as [|x r IH]; [reflexivity|]. cbn [filter_map]. rewrite Hf, IH. reflexivity. }
    rewrite E. destruct (filter_map _ l); reflexivity.
  - reflexivity.
Qed.

Ltac table_tac v :=
  unfold lookup; repeat (rewrite (str_eqb_sym (lit _) v)); reflexivity.

Lemma dlen_value_lookup : forall v, dlen_value v = lookup v (snd (fst doc_date_length)).
Proof. intro v. unfold dlen_value, doc_date_length; cbn [fst snd]. table_tac v. Qed.
Lemma tlen_value_lookup : forall v, tlen_value v = lookup v (snd (fst doc_time_length)).
Proof. intro v. unfold tlen_value, doc_time_length; cbn [fst snd]. table_tac v. Qed.
Lemma cwidth_value_lookup : forall v, cwidth_value v = lookup v (snd (fst doc_width)).
Proof. intro v. unfold cwidth_value, doc_width; cbn [fst snd]. table_tac v. Qed.
Lemma grouping_value_lookup : forall v, grouping_value v = lookup v (snd (fst doc_grouping)).
Proof. intro v. unfold grouping_value, doc_grouping; cbn [fst snd]. table_tac v. Qed.
Lemma ltype_value_lookup : forall v, ltype_value v = lookup v (snd (fst doc_list_type)).
Proof. intro v. unfold ltype_value, doc_list_type; cbn [fst snd]. table_tac v. Qed.
Lemma lstyle_value_lookup : forall v, lstyle_value v = lookup v (snd (fst doc_list_style)).
Proof. intro v. unfold lstyle_value, doc_list_style; cbn [fst snd]. table_tac v. Qed.

Lemma dlen_from_args_doc : forall a, dlen_from_args a = pick doc_date_length (args_list a).
Proof. intro a. apply helper_is_pick. exact dlen_value_lookup. Qed.
Lemma tlen_from_args_doc : forall a, tlen_from_args a = pick doc_time_length (args_list a).
Proof. intro a. apply helper_is_pick. exact tlen_value_lookup. Qed.
Lemma cwidth_from_args_doc : forall a, cwidth_from_args a = pick doc_width (args_list a).
Proof. intro a. apply helper_is_pick. exact cwidth_value_lookup. Qed.
Lemma grouping_from_args_doc : forall a, grouping_from_args a = pick doc_grouping (args_list a).
Proof. intro a. apply helper_is_pick. exact grouping_value_lookup. Qed.
Lemma ltype_from_args_doc : forall a, ltype_from_args a = pick doc_list_type (args_list a).
Proof. intro a. apply helper_is_pick. exact ltype_value_lookup. Qed.
Lemma lstyle_from_args_doc : forall a, lstyle_from_args a = pick doc_list_style (args_list a).
Proof. intro a. apply helper_is_pick. exact lstyle_value_lookup. Qed.

(** currency code: TinyAsciiStr<3> acceptance = "at most three ASCII characters" *)
Lemma ascii_blen : forall v, forallb (fun c => (1 <=? c) && (c <? 128)) v = true -> blen v = length v.
Proof.
  induction v as [|c v IH]; intro H; [reflexivity|].
  cbn [forallb] in H. apply andb_true_iff in H as [Hc Hv].
  apply andb_true_iff in Hc as [_ Hc]. cbn [blen length]. unfold len_utf8. rewrite Hc.
  rewrite (IH Hv). reflexivity.
Qed.

Lemma ascii_pred_ext : forall v,
  forallb (fun c => (1 <=? c) && (c <? 128)) v = forallb (fun c => (0 <? c) && (c <=? 127)) v.
Proof.
  induction v as [|c v IH]; [reflexivity|]. cbn [forallb]. rewrite IH. f_equal.
  destruct (N.leb_spec 1 c), (N.ltb_spec c 128), (N.ltb_spec 0 c), (N.leb_spec c 127); cbn [andb]; try reflexivity; lia.
Qed.

Lemma ccode_value_is_code : forall v, ccode_value v = if is_code v then Some v else None.
Proof.
  intro v. unfold ccode_value, is_code. rewrite <- ascii_pred_ext.
  destruct (forallb (fun c => (1 <=? c) && (c <? 128)) v) eqn:E.
  - rewrite (ascii_blen v E). rewrite andb_true_r.
    repeat match goal with
    | |- context [Nat.ltb ?a ?b] => destruct (Nat.ltb_spec a b)
    | |- context [Nat.leb ?a ?b] => destruct (Nat.leb_spec a b)
    end; try reflexivity; unfold char in *; lia.
  - rewrite andb_false_r. destruct (Nat.ltb 3 (blen v)); reflexivity.
Qed.

Lemma ccode_from_args_doc : forall a, ccode_from_args a = pick_code (args_list a).
Proof.
  intros [l|]; unfold ccode_from_args, from_args_helper, pick_code, args_list; [|reflexivity].
  induction l as [|[n v] r IH]; [reflexivity|].
  cbn [first_recognised filter fst snd].
  destruct (str_eqb n (lit "currency_code")); cbn [negb andb].
  - rewrite ccode_value_is_code. destruct (is_code v); [reflexivity | exact IH].
  - exact IH.
Qed.

(** * C18_options: selection = documented table, for every name and argument list *)
Lemma gate_expected : forall en ft f, gate en ft f = if en ft then SelOk f else SelDisabled f.
Proof. reflexivity. Qed.

Theorem selection_is_documented : forall en name args,
  from_name_and_args en name args = expected_sel en name args.
Proof.
  intros en name args. unfold from_name_and_args, expected_sel, documented, gate.
  rewrite ?dlen_from_args_doc, ?tlen_from_args_doc, ?cwidth_from_args_doc, ?grouping_from_args_doc,
    ?ltype_from_args_doc, ?lstyle_from_args_doc, ?ccode_from_args_doc.
  destruct (str_eqb name (lit "currency")) eqn:E1.
  { apply str_eqb_eq in E1. subst name. reflexivity. }
  destruct (str_eqb name (lit "number")) eqn:E2.
  { reflexivity. }
  destruct (str_eqb name (lit "datetime")) eqn:E3.
  { apply str_eqb_eq in E3. subst name. reflexivity. }
  destruct (str_eqb name (lit "date")) eqn:E4.
  { reflexivity. }
  destruct (str_eqb name (lit "time")) eqn:E5.
  { reflexivity. }
  destruct (str_eqb name (lit "list")) eqn:E6; reflexivity.
Qed.

Corollary unknown_names_error : forall en name args,
  name <> lit "number" -> name <> lit "currency" -> name <> lit "date" ->
  name <> lit "time" -> name <> lit "datetime" -> name <> lit "list" ->
  from_name_and_args en name args = SelUnknown.
Proof.
  intros en name args H1 H2 H3 H4 H5 H6. rewrite selection_is_documented.
  unfold expected_sel, documented.
  repeat match goal with
  | H : name <> ?l |- context [str_eqb name ?l] =>
      let E := fresh "E" in destruct (str_eqb name l) eqn:E; [apply str_eqb_eq in E; contradiction|]
  end.
  reflexivity.
Qed.

Corollary known_names_select : forall en name args,
  from_name_and_args en name args <> SelUnknown <->
  In name [lit "number"; lit "currency"; lit "date"; lit "time"; lit "datetime"; lit "list"].
Proof.
  intros en name args. split.
  - intro H.
    destruct (str_eqb name (lit "number")) eqn:E1; [apply str_eqb_eq in E1; subst; cbn [In]; tauto|].
    destruct (str_eqb name (lit "currency")) eqn:E2; [apply str_eqb_eq in E2; subst; cbn [In]; tauto|].
    destruct (str_eqb name (lit "date")) eqn:E3; [apply str_eqb_eq in E3; subst; cbn [In]; tauto|].
    destruct (str_eqb name (lit "time")) eqn:E4; [apply str_eqb_eq in E4; subst; cbn [In]; tauto|].
    destruct (str_eqb name (lit "datetime")) eqn:E5; [apply str_eqb_eq in E5; subst; cbn [In]; tauto|].
    destruct (str_eqb name (lit "list")) eqn:E6; [apply str_eqb_eq in E6; subst; cbn [In]; tauto|].
    exfalso. apply H. rewrite selection_is_documented. unfold expected_sel, documented.
    rewrite E1, E2, E3, E4, E5, E6. reflexivity.
  - intros H. rewrite selection_is_documented. unfold expected_sel.
    cbn [In] in H. destruct H as [<-|[<-|[<-|[<-|[<-|[<-|[]]]]]]]; unfold documented;
      repeat match goal with |- context [str_eqb (lit ?a) (lit ?b)] =>
        let r := eval vm_compute in (str_eqb (lit a) (lit b)) in
        change (str_eqb (lit a) (lit b)) with r end;
      cbv beta iota;
      match goal with |- context [if en ?f then _ else _] => destruct (en f) end; discriminate.
Qed.

(** * characterising lemmas of the string operations used by parse_formatter_args *)
Lemma lacks_app : forall c a b, lacks c (a ++ b) = lacks c a && lacks c b.
Proof. intros c a b. unfold lacks. apply forallb_app. Qed.

Lemma lacks_cons : forall c x a, lacks c (x :: a) = negb (x =? c) && lacks c a.
Proof. reflexivity. Qed.

Lemma all_ws_lacks : forall c s, is_ws c = false -> all_ws s = true -> lacks c s = true.
Proof.
  intros c s Hc. induction s as [|x s IH]; intro H; [reflexivity|].
  cbn [all_ws forallb] in H. apply andb_true_iff in H as [Hx Hs].
  rewrite lacks_cons. rewrite (IH Hs), andb_true_r.
  destruct (N.eqb_spec x c) as [->|_]; [congruence | reflexivity].
Qed.

Lemma split_once_c_none : forall c a, lacks c a = true -> split_once_c c a = None.
Proof.
  intros c. unfold split_once_c. induction a as [|x a IH]; intro H; [reflexivity|].
  rewrite lacks_cons in H. apply andb_true_iff in H as [Hx Ha].
  cbn [split_once strip_prefix]. rewrite N.eqb_sym. destruct (x =? c); [discriminate|].
  rewrite (IH Ha). reflexivity.
Qed.

Lemma split_once_c_app : forall c a b, lacks c a = true -> split_once_c c (a ++ c :: b) = Some (a, b).
Proof.
  intros c a b. unfold split_once_c. induction a as [|x a IH]; intro H.
  - cbn [app split_once strip_prefix]. rewrite N.eqb_refl. destruct b; reflexivity.
  - rewrite lacks_cons in H. apply andb_true_iff in H as [Hx Ha].
    cbn [app split_once strip_prefix]. rewrite N.eqb_sym. destruct (x =? c); [discriminate|].
    rewrite (IH Ha). reflexivity.
Qed.

Lemma rsplit_once_none : forall c b, lacks c b = true -> rsplit_once [c] b = None.
Proof.
  intros c. induction b as [|x b IH]; intro H; [reflexivity|].
  rewrite lacks_cons in H. apply andb_true_iff in H as [Hx Hb].
  cbn [rsplit_once strip_prefix]. rewrite (IH Hb). rewrite N.eqb_sym. destruct (x =? c); [discriminate|reflexivity].
Qed.

Lemma rsplit_once_app : forall c a b, lacks c b = true -> rsplit_once [c] (a ++ c :: b) = Some (a, b).
Proof.
  intros c a b Hb. induction a as [|x a IH].
  - cbn [app rsplit_once strip_prefix]. rewrite (rsplit_once_none c b Hb). rewrite N.eqb_refl.
    destruct b; reflexivity.
  - cbn [app rsplit_once]. rewrite IH. reflexivity.
Qed.

Lemma split_all_ne : forall c s, split_all c s <> [].
Proof.
  intros c. induction s as [|x s IH]; [discriminate|].
  cbn [split_all]. destruct (split_all c s) as [|h t]; [congruence|]. destruct (x =? c); discriminate.
Qed.

Lemma split_all_lacks : forall c a, lacks c a = true -> split_all c a = [a].
Proof.
  intros c. induction a as [|x a IH]; intro H; [reflexivity|].
  rewrite lacks_cons in H. apply andb_true_iff in H as [Hx Ha].
  cbn [split_all]. rewrite (IH Ha). destruct (x =? c); [discriminate|reflexivity].
Qed.

Lemma split_all_app : forall c a b, lacks c a = true -> split_all c (a ++ c :: b) = a :: split_all c b.
Proof.
  intros c a b. induction a as [|x a IH]; intro H.
  - cbn [app split_all]. destruct (split_all c b) as [|h t] eqn:E; [exfalso; exact (split_all_ne c b E)|].
    rewrite N.eqb_refl. reflexivity.
  - rewrite lacks_cons in H. apply andb_true_iff in H as [Hx Ha].
    cbn [app split_all]. rewrite (IH Ha). destruct (x =? c); [discriminate|reflexivity].
Qed.

(** trim *)
Lemma trim_start_ws_app : forall l s, all_ws l = true -> trim_start (l ++ s) = trim_start s.
Proof.
  induction l as [|x l IH]; intros s H; [reflexivity|].
  cbn [all_ws forallb] in H. apply andb_true_iff in H as [Hx Hl].
  cbn [app trim_start]. rewrite Hx. apply IH. exact Hl.
Qed.

Lemma trim_start_all_ws : forall l, all_ws l = true -> trim_start l = [].
Proof.
  intros l H. rewrite <- (app_nil_r l). rewrite trim_start_ws_app by exact H. reflexivity.
Qed.

Lemma all_ws_rev : forall l, all_ws (rev l) = all_ws l.
Proof.
  induction l as [|x l IH]; [reflexivity|].
  cbn [rev]. unfold all_ws in *. rewrite forallb_app, IH. cbn [forallb].
  rewrite andb_true_r. apply andb_comm.
Qed.

Lemma rev_last : forall (s : str) d, s <> [] -> rev s = last s d :: rev (removelast s).
Proof.
  intros s d H. rewrite (app_removelast_last d H) at 1. rewrite rev_app_distr. reflexivity.
Qed.

Lemma trim_padded : forall l t r,
  all_ws l = true -> all_ws r = true -> trimmed t = true -> trim (l ++ t ++ r) = t.
Proof.
  intros l t r Hl Hr Ht. unfold trim. rewrite trim_start_ws_app by exact Hl.
  destruct t as [|c t'].
  - cbn [app]. rewrite trim_start_all_ws by exact Hr. reflexivity.
  - cbn [trimmed] in Ht. apply andb_true_iff in Ht as [Hc Hlast].
    apply negb_true_iff in Hc, Hlast.
    cbn [app trim_start]. rewrite Hc.
    change (c :: t' ++ r) with ((c :: t') ++ r).
    unfold trim_end. rewrite rev_app_distr.
    rewrite trim_start_ws_app by (rewrite all_ws_rev; exact Hr).
    rewrite (rev_last (c :: t') 0) by discriminate.
    cbn [trim_start]. rewrite Hlast.
    rewrite <- (rev_last (c :: t') 0) by discriminate. apply rev_involutive.
Qed.

Lemma trim_rtok : forall p, wf_tok p = true -> trim (rtok p) = tok p.
Proof.
  intros [[l t] r] H. unfold wf_tok, rtok, tok in *. cbn [fst snd] in *.
  apply andb_true_iff in H as [H Ht]. apply andb_true_iff in H as [Hl Hr].
  apply trim_padded; assumption.
Qed.

Lemma lacks_rtok : forall c p, is_ws c = false -> wf_tok p = true -> lacks c (rtok p) = lacks c (tok p).
Proof.
  intros c [[l t] r] Hc H. unfold wf_tok, rtok, tok in *. cbn [fst snd] in *.
  apply andb_true_iff in H as [H Ht]. apply andb_true_iff in H as [Hl Hr].
  rewrite !lacks_app, (all_ws_lacks c l Hc Hl), (all_ws_lacks c r Hc Hr), andb_true_r. reflexivity.
Qed.

(** * parse_formatter_args on a rendered source description *)
Lemma parse_arg_pair : forall a v,
  wf_tok a = true -> wf_tok v = true -> lacks c_colon (tok a) = true ->
  parse_arg (rtok a ++ c_colon :: rtok v) = Some (tok a, tok v).
Proof.
  intros a v Ha Hv Hc. unfold parse_arg.
  rewrite split_once_c_app by (rewrite lacks_rtok by (reflexivity || assumption); exact Hc).
  rewrite (trim_rtok a Ha), (trim_rtok v Hv). reflexivity.
Qed.

Lemma parse_arg_junk : forall s, lacks c_colon s = true -> parse_arg s = None.
Proof. intros s H. unfold parse_arg. rewrite (split_once_c_none _ _ H). reflexivity. Qed.

Ltac pair_hyps H :=
  let Hsv := fresh "Hsv" in let Hsa := fresh "Hsa" in let Hca := fresh "Hca" in
  let Hv := fresh "Hwv" in let Ha := fresh "Hwa" in
  apply andb_true_iff in H as [H Hsv]; apply andb_true_iff in H as [H Hsa];
  apply andb_true_iff in H as [H Hca]; apply andb_true_iff in H as [Ha Hv].

Lemma render_item_lacks_semi : forall i, wf_item i = true -> lacks c_semi (render_item i) = true.
Proof.
  intros [a v|s] H; cbn [wf_item render_item] in *.
  - pair_hyps H.
    rewrite lacks_app, lacks_cons, !lacks_rtok by (reflexivity || assumption).
    repeat (apply andb_true_iff; split); try assumption. reflexivity.
  - apply andb_true_iff in H as [_ H]. exact H.
Qed.

Lemma parse_arg_item : forall i, wf_item i = true ->
  filter_map parse_arg [render_item i] = pairs_of [i].
Proof.
  intros [a v|s] H; cbn [wf_item render_item pairs_of filter_map] in *.
  - pair_hyps H.
    rewrite parse_arg_pair by assumption. reflexivity.
  - apply andb_true_iff in H as [H _]. rewrite (parse_arg_junk s H). reflexivity.
Qed.

Lemma pairs_of_cons : forall i r, pairs_of (i :: r) = pairs_of [i] ++ pairs_of r.
Proof. intros [a v|s] r; reflexivity. Qed.

Lemma items_roundtrip : forall items, forallb wf_item items = true ->
  filter_map parse_arg (split_all c_semi (render_items items)) = pairs_of items.
Proof.
  induction items as [|i r IH]; intro H; [reflexivity|].
  cbn [forallb] in H. apply andb_true_iff in H as [Hi Hr].
  destruct r as [|j r'].
  - cbn [render_items]. rewrite split_all_lacks by (apply render_item_lacks_semi; exact Hi).
    apply parse_arg_item. exact Hi.
  - change (render_items (i :: j :: r')) with (render_item i ++ c_semi :: render_items (j :: r')).
    rewrite split_all_app by (apply render_item_lacks_semi; exact Hi).
    rewrite pairs_of_cons. rewrite <- (IH Hr).
    pose proof (parse_arg_item i Hi) as Hp. cbn [filter_map] in Hp |- *.
    destruct (parse_arg (render_item i)); rewrite <- Hp; reflexivity.
Qed.

Theorem parse_formatter_args_render : forall t, wf_ftext t = true ->
  parse_formatter_args (render t) = (tok (ft_name t), args_of t).
Proof.
  intros [name args] H. unfold wf_ftext in H. cbn [ft_name ft_args] in H.
  apply andb_true_iff in H as [H Hargs]. apply andb_true_iff in H as [Hname Hparen].
  assert (Hl : lacks c_lparen (rtok name) = true)
    by (rewrite lacks_rtok by (reflexivity || assumption); exact Hparen).
  unfold render, args_of, parse_formatter_args. cbn [ft_name ft_args].
  destruct args as [[items tail]|].
  - apply andb_true_iff in Hargs as [Hitems Htail].
    rewrite split_once_c_app by exact Hl.
    rewrite rsplit_once_app by exact Htail.
    rewrite (trim_rtok name Hname), (items_roundtrip items Hitems). reflexivity.
  - rewrite app_nil_r. rewrite split_once_c_none by exact Hl.
    rewrite (trim_rtok name Hname). reflexivity.
Qed.

(** * parse_formatter on a rendered source description = documented table *)
Theorem parse_formatter_render : forall en t, wf_ftext t = true ->
  parse_formatter en (render t) = expected_pres en t.
Proof.
  intros en t H. unfold parse_formatter, expected_pres.
  rewrite (parse_formatter_args_render t H), selection_is_documented. reflexivity.
Qed.

Theorem spec_C18_holds : forall en t, wf_ftext t = true ->
  spec_C18 en t (parse_formatter en (render t)) = true.
Proof.
  intros en t H. unfold spec_C18. rewrite (parse_formatter_render en t H).
  assert (R : forall f, formatter_eqb f f = true).
  { intros [|g|d|tl|d tl|ty st|w code]; cbn [formatter_eqb].
    - reflexivity.
    - destruct g; reflexivity.
    - destruct d; reflexivity.
    - destruct tl; reflexivity.
    - destruct d, tl; reflexivity.
    - destruct ty, st; reflexivity.
    - rewrite str_eqb_refl. destruct w; reflexivity. }
  destruct (expected_pres en t); cbn [pres_eqb]; [apply R | apply str_eqb_refl | apply R].
Qed.

(** * white-space insensitivity *)
Lemma wf_unpad_tok : forall p, wf_tok p = true -> wf_tok (unpad_tok p) = true.
Proof.
  intros [[l t] r] H. unfold wf_tok, unpad_tok, tok in *. cbn [fst snd] in *.
  apply andb_true_iff in H as [_ Ht]. exact Ht.
Qed.

Lemma wf_unpad_item : forall i, wf_item i = true -> wf_item (unpad_item i) = true.
Proof.
  intros [a v|s] H; cbn [wf_item unpad_item] in *; [|exact H].
  pair_hyps H.
  rewrite (wf_unpad_tok a Hwa), (wf_unpad_tok v Hwv). unfold unpad_tok, tok in *. cbn [fst snd] in *.
  rewrite Hca, Hsa, Hsv. reflexivity.
Qed.

Lemma pairs_of_unpad : forall items, pairs_of (map unpad_item items) = pairs_of items.
Proof.
  induction items as [|[a v|s] r IH]; cbn [map unpad_item pairs_of]; [reflexivity| |exact IH].
  rewrite IH. reflexivity.
Qed.

Lemma wf_unpad : forall t, wf_ftext t = true -> wf_ftext (unpad t) = true.
Proof.
  intros [name args] H. unfold wf_ftext, unpad in *. cbn [ft_name ft_args] in *.
  apply andb_true_iff in H as [H Hargs]. apply andb_true_iff in H as [Hname Hparen].
  rewrite (wf_unpad_tok name Hname).
  replace (tok (unpad_tok name)) with (tok name) by reflexivity. rewrite Hparen. cbn [andb].
  - destruct args as [[items tail]|]; [|reflexivity].
    apply andb_true_iff in Hargs as [Hitems Htail].
    apply andb_true_iff; split; [|exact Htail].
    rewrite forallb_forall in *. intros i Hi. apply in_map_iff in Hi as [j [<- Hj]].
    apply wf_unpad_item. apply Hitems. exact Hj.
Qed.

Lemma expected_unpad : forall en t, expected_pres en (unpad t) = expected_pres en t.
Proof.
  intros en [name args]. unfold expected_pres, unpad, args_of. cbn [ft_name ft_args].
  destruct args as [[items tail]|]; [rewrite pairs_of_unpad|]; reflexivity.
Qed.

Theorem ws_insensitive : forall en t, wf_ftext t = true ->
  parse_formatter en (render t) = parse_formatter en (render (unpad t)).
Proof.
  intros en t H.
  rewrite (parse_formatter_render en t H), (parse_formatter_render en (unpad t) (wf_unpad t H)).
  symmetry. apply expected_unpad.
Qed.

(** two texts that differ only in white space parse alike *)
Corollary ws_insensitive2 : forall en t u, wf_ftext t = true -> wf_ftext u = true -> unpad t = unpad u ->
  parse_formatter en (render t) = parse_formatter en (render u).
Proof.
  intros en t u Ht Hu E. rewrite (ws_insensitive en t Ht), (ws_insensitive en u Hu), E. reflexivity.
Qed.

(** * white space around the whole text is irrelevant — for EVERY text, well-formed or not *)
Lemma split_once_c_prefix : forall c l s, lacks c l = true ->
  split_once_c c (l ++ s) = match split_once_c c s with Some (a, b) => Some (l ++ a, b) | None => None end.
Proof.
  intros c l s. unfold split_once_c. induction l as [|x l IH]; intro H.
  - cbn [app]. destruct (split_once [c] s) as [[a b]|]; reflexivity.
  - rewrite lacks_cons in H. apply andb_true_iff in H as [Hx Hl].
    cbn [app split_once strip_prefix]. rewrite N.eqb_sym. destruct (x =? c); [discriminate|].
    rewrite (IH Hl). destruct (split_once [c] s) as [[a b]|]; reflexivity.
Qed.

Lemma split_once_c_suffix : forall c s r, lacks c r = true ->
  split_once_c c (s ++ r) = match split_once_c c s with Some (a, b) => Some (a, b ++ r) | None => None end.
Proof.
  intros c s r Hr. unfold split_once_c. induction s as [|x s IH].
  - cbn [app]. fold (split_once_c c r). rewrite (split_once_c_none c r Hr). reflexivity.
  - cbn [app split_once strip_prefix]. destruct (c =? x).
    + destruct s; reflexivity.
    + rewrite IH. destruct (split_once [c] s) as [[a b]|]; reflexivity.
Qed.

Lemma rsplit_once_suffix : forall c b r, lacks c r = true ->
  rsplit_once [c] (b ++ r) = match rsplit_once [c] b with Some (x, y) => Some (x, y ++ r) | None => None end.
Proof.
  intros c b r Hr. induction b as [|x b IH].
  - cbn [app]. rewrite (rsplit_once_none c r Hr). reflexivity.
  - cbn [app rsplit_once]. rewrite IH. destruct (rsplit_once [c] b) as [[a y]|]; [reflexivity|].
    cbn [strip_prefix]. destruct (c =? x); [|reflexivity]. destruct b; reflexivity.
Qed.

Lemma trim_ws_prefix : forall l s, all_ws l = true -> trim (l ++ s) = trim s.
Proof. intros l s H. unfold trim. rewrite trim_start_ws_app by exact H. reflexivity. Qed.

Lemma trim_end_ws_suffix : forall x r, all_ws r = true -> trim_end (x ++ r) = trim_end x.
Proof.
  intros x r H. unfold trim_end. rewrite rev_app_distr.
  rewrite trim_start_ws_app by (rewrite all_ws_rev; exact H). reflexivity.
Qed.

Lemma trim_start_app_cases : forall s r,
  trim_start (s ++ r) = if all_ws s then trim_start r else trim_start s ++ r.
Proof.
  induction s as [|x s IH]; intro r; [reflexivity|].
  cbn [app trim_start all_ws forallb]. destruct (is_ws x); cbn [andb]; [apply IH | reflexivity].
Qed.

Lemma trim_ws_suffix : forall s r, all_ws r = true -> trim (s ++ r) = trim s.
Proof.
  intros s r H. unfold trim. rewrite trim_start_app_cases.
  destruct (all_ws s) eqn:E.
  - rewrite (trim_start_all_ws r H), (trim_start_all_ws s E). reflexivity.
  - apply trim_end_ws_suffix. exact H.
Qed.

Lemma parse_formatter_args_prefix : forall l s, all_ws l = true ->
  parse_formatter_args (l ++ s) = parse_formatter_args s.
Proof.
  intros l s H. unfold parse_formatter_args.
  rewrite split_once_c_prefix by (apply all_ws_lacks; [reflexivity | exact H]).
  destruct (split_once_c c_lparen s) as [[name rest]|].
  - destruct (rsplit_once [c_rparen] rest) as [[args tl]|]; rewrite trim_ws_prefix by exact H; reflexivity.
  - rewrite trim_ws_prefix by exact H. reflexivity.
Qed.

Lemma parse_formatter_args_suffix : forall s r, all_ws r = true ->
  parse_formatter_args (s ++ r) = parse_formatter_args s.
Proof.
  intros s r H. unfold parse_formatter_args.
  rewrite split_once_c_suffix by (apply all_ws_lacks; [reflexivity | exact H]).
  destruct (split_once_c c_lparen s) as [[name rest]|].
  - rewrite rsplit_once_suffix by (apply all_ws_lacks; [reflexivity | exact H]).
    destruct (rsplit_once [c_rparen] rest) as [[args tl]|]; [reflexivity|].
    rewrite trim_ws_suffix by exact H. reflexivity.
  - rewrite trim_ws_suffix by exact H. reflexivity.
Qed.

Theorem outer_ws_irrelevant : forall en l s r, all_ws l = true -> all_ws r = true ->
  parse_formatter en (l ++ s ++ r) = parse_formatter en s.
Proof.
  intros en l s r Hl Hr. unfold parse_formatter.
  rewrite (parse_formatter_args_prefix l (s ++ r) Hl), (parse_formatter_args_suffix s r Hr). reflexivity.
Qed.

(** * the variable part of find_variable: "{{" lw var rw "," text "}}" *)
Lemma trim_start_split : forall s, exists w, all_ws w = true /\ s = w ++ trim_start s.
Proof.
  induction s as [|x s [w [Hw E]]].
  - exists []. split; reflexivity.
  - cbn [trim_start]. destruct (is_ws x) eqn:Ex.
    + exists (x :: w). split; [cbn [all_ws forallb]; rewrite Ex; exact Hw | cbn [app]; rewrite <- E; reflexivity].
    + exists []. split; reflexivity.
Qed.

Lemma trim_end_split : forall s, exists w, all_ws w = true /\ s = trim_end s ++ w.
Proof.
  intro s. destruct (trim_start_split (rev s)) as [w [Hw E]].
  exists (rev w). split; [rewrite all_ws_rev; exact Hw|].
  unfold trim_end. rewrite <- rev_app_distr, <- E, rev_involutive. reflexivity.
Qed.

Lemma parse_formatter_trim_end : forall en s, parse_formatter en (trim_end s) = parse_formatter en s.
Proof.
  intros en s. destruct (trim_end_split s) as [w [Hw E]].
  unfold parse_formatter. rewrite E at 2. rewrite (parse_formatter_args_suffix (trim_end s) w Hw). reflexivity.
Qed.

Lemma trim_end_nonws_cons : forall a c b, is_ws c = false -> trim_end (a ++ c :: b) = a ++ c :: trim_end b.
Proof.
  intros a c b Hc. unfold trim_end. rewrite rev_app_distr. cbn [rev]. rewrite <- app_assoc. cbn [app].
  rewrite trim_start_app_cases. destruct (all_ws (rev b)) eqn:E.
  - cbn [trim_start]. rewrite Hc. rewrite (trim_start_all_ws (rev b) E). cbn [rev].
    rewrite rev_involutive. reflexivity.
  - rewrite rev_app_distr. cbn [rev]. rewrite rev_involutive. rewrite <- app_assoc. reflexivity.
Qed.

Theorem parse_variable_split : forall en var s,
  wf_tok var = true -> tok var <> [] -> lacks c_comma (tok var) = true ->
  parse_variable en (rtok var ++ c_comma :: s) =
  match parse_formatter en s with
  | POk f => VVar (var_prefix ++ tok var) f
  | PUnknown n => VUnknown n
  | PDisabled f => VDisabled f
  end.
Proof.
  intros en [[l v] r] s Hwf Hne Hc. unfold rtok, tok, wf_tok in *. cbn [fst snd] in *.
  apply andb_true_iff in Hwf as [Hwf Ht]. apply andb_true_iff in Hwf as [Hl Hr].
  unfold parse_variable.
  assert (E : trim ((l ++ v ++ r) ++ c_comma :: s) = (v ++ r) ++ c_comma :: trim_end s).
  { unfold trim. rewrite <- app_assoc. rewrite trim_start_ws_app by exact Hl.
    destruct v as [|c v']; [contradiction Hne; reflexivity|].
    cbn [trimmed] in Ht. apply andb_true_iff in Ht as [Hc0 _]. apply negb_true_iff in Hc0.
    cbn [app trim_start]. rewrite Hc0.
    change (c :: (v' ++ r) ++ c_comma :: s) with (((c :: v') ++ r) ++ c_comma :: s).
    apply trim_end_nonws_cons. reflexivity. }
  rewrite E.
  rewrite split_once_c_app
    by (rewrite lacks_app, Hc; cbn [andb]; apply all_ws_lacks; [reflexivity | exact Hr]).
  rewrite parse_formatter_trim_end.
  replace (trim (v ++ r)) with v
    by (symmetry; apply (trim_padded [] v r); [reflexivity | exact Hr | exact Ht]).
  reflexivity.
Qed.

Theorem parse_variable_render : forall en var t,
  wf_tok var = true -> tok var <> [] -> lacks c_comma (tok var) = true -> wf_ftext t = true ->
  parse_variable en (rtok var ++ c_comma :: render t) = expected_vres en (tok var) t.
Proof.
  intros en var t Hv Hne Hc Ht. rewrite (parse_variable_split en var (render t) Hv Hne Hc).
  rewrite (parse_formatter_render en t Ht). reflexivity.
Qed.

Lemma vres_eqb_refl : forall v, vres_eqb v v = true.
Proof.
  assert (R : forall f, formatter_eqb f f = true).
  { intros [|g|d|tl|d tl|ty st|w code]; cbn [formatter_eqb].
    - reflexivity.
    - destruct g; reflexivity.
    - destruct d; reflexivity.
    - destruct tl; reflexivity.
    - destruct d, tl; reflexivity.
    - destruct ty, st; reflexivity.
    - rewrite str_eqb_refl. destruct w; reflexivity. }
  intros [k f|n|f]; cbn [vres_eqb]; [rewrite str_eqb_refl, R; reflexivity | apply str_eqb_refl | apply R].
Qed.

Theorem spec_C18_var_holds : forall en var t,
  wf_tok var = true -> tok var <> [] -> lacks c_comma (tok var) = true -> wf_ftext t = true ->
  spec_C18_var en (tok var) t (parse_variable en (rtok var ++ c_comma :: render t)) = true.
Proof.
  intros en var t Hv Hne Hc Ht. unfold spec_C18_var.
  rewrite (parse_variable_render en var t Hv Hne Hc Ht). apply vres_eqb_refl.
Qed.
