(** Lemmas about Parser/Cfg.v (property C19). *)
From Coq Require Import List NArith Bool Arith Lia Permutation.
Import ListNotations.
From LI Require Import Base.StrOps Parser.Cfg Parser.CfgCheck.
Open Scope N_scope.

Lemma str_eqb_eq : forall a b, str_eqb a b = true <-> a = b.
Proof.
  induction a as [|x xs IH]; intros [|y ys]; cbn [str_eqb]; split; intros H; try discriminate; try reflexivity.
  - apply andb_true_iff in H. destruct H as [H1 H2]. apply N.eqb_eq in H1. apply IH in H2. now subst.
  - injection H as -> ->. rewrite N.eqb_refl. cbn [andb]. now apply IH.
Qed.
Lemma str_eqb_refl : forall a, str_eqb a a = true.
Proof. intros a. now apply str_eqb_eq. Qed.
Lemma smem_In : forall x l, smem x l = true <-> In x l.
Proof.
  intros x l. unfold smem. rewrite existsb_exists. split.
  - intros [y [Hy He]]. apply str_eqb_eq in He. now subst.
  - intros H. exists x. split; [assumption | apply str_eqb_refl].
Qed.
Lemma smem_false : forall x l, smem x l = false <-> ~ In x l.
Proof. intros x l. rewrite <- smem_In. destruct (smem x l); split; congruence. Qed.

Lemma nodup_s_NoDup : forall l, nodup_s l = true <-> NoDup l.
Proof.
  induction l as [|x r IH]; cbn [nodup_s].
  - split; [constructor | reflexivity].
  - rewrite andb_true_iff, negb_true_iff, smem_false, IH. split.
    + intros [H1 H2]. now constructor.
    + intros H. inversion H; subst. now split.
Qed.

(** * slice::swap(0, i) *)
Lemma skipn_nth : forall A (r : list A) j y, nth_error r j = Some y -> skipn j r = y :: skipn (S j) r.
Proof.
  intros A. induction r as [|a r IH]; intros [|j] y H; cbn [nth_error] in H; try discriminate.
  - now injection H as ->.
  - cbn [skipn]. now apply IH.
Qed.

Lemma swap0_perm : forall A (l : list A) i, Permutation (swap0 l i) l.
Proof.
  intros A [|x r] [|j]; cbn [swap0]; try apply Permutation_refl.
  destruct (nth_error r j) as [y|] eqn:Hn; [|apply Permutation_refl].
  rewrite <- (firstn_skipn j r) at 3. rewrite (skipn_nth _ _ _ _ Hn).
  set (A1 := firstn j r). set (B1 := skipn (S j) r).
  apply perm_trans with (y :: x :: A1 ++ B1).
  - apply perm_skip. apply Permutation_sym. apply Permutation_middle.
  - apply perm_trans with (x :: y :: A1 ++ B1); [apply perm_swap|].
    apply perm_skip. apply Permutation_middle.
Qed.

Lemma position_nth : forall d l i, position d l = Some i -> nth_error l i = Some d.
Proof.
  intros d. induction l as [|x r IH]; intros i H; cbn [position] in H; [discriminate|].
  destruct (str_eqb x d) eqn:He.
  - injection H as <-. apply str_eqb_eq in He. now subst.
  - destruct (position d r) as [j|]; [|discriminate]. injection H as <-. cbn [nth_error]. now apply IH.
Qed.
Lemma position_none : forall d l, position d l = None -> ~ In d l.
Proof.
  intros d. induction l as [|x r IH]; intros H; cbn [position] in H; [intros []|].
  destruct (str_eqb x d) eqn:He; [discriminate|].
  destruct (position d r) as [j|] eqn:Hp; [discriminate|].
  intros [Hx|Hx]; [subst; now rewrite str_eqb_refl in He | now apply IH].
Qed.
Lemma position_some_In : forall d l i, position d l = Some i -> In d l.
Proof. intros d l i H. eapply nth_error_In. eapply position_nth; eauto. Qed.

Lemma swap0_hd : forall (l : list str) i d, nth_error l i = Some d -> hd_error (swap0 l i) = Some d.
Proof.
  intros [|x r] [|j] d H; cbn [nth_error] in H; try discriminate; cbn [swap0].
  - exact H.
  - now rewrite H.
Qed.

Lemma default_first_hd : forall d ls, hd_error (default_first d ls) = Some d.
Proof.
  intros d ls. unfold default_first. destruct (position d ls) as [i|] eqn:Hp.
  - apply swap0_hd. now apply position_nth.
  - apply swap0_hd. rewrite nth_error_app2; [|lia]. now rewrite Nat.sub_diag.
Qed.

Lemma default_first_perm : forall d ls,
  Permutation (default_first d ls) (if smem d ls then ls else d :: ls).
Proof.
  intros d ls. unfold default_first. destruct (position d ls) as [i|] eqn:Hp.
  - rewrite (proj2 (smem_In d ls) (position_some_In _ _ _ Hp)). apply swap0_perm.
  - rewrite (proj2 (smem_false d ls) (position_none _ _ Hp)).
    eapply perm_trans; [apply swap0_perm|]. apply Permutation_sym. apply Permutation_cons_append.
Qed.

(** * contain_duplicates *)
Lemma sset_insert_nonempty : forall x s, sset_insert x s <> [].
Proof. intros x [|y r]; cbn [sset_insert]; [discriminate|]. destruct (str_ltb x y); [discriminate|]. destruct (str_eqb x y); discriminate. Qed.

Lemma dups_acc_nonempty : forall l marked acc, acc <> [] -> dups marked l acc <> [].
Proof.
  induction l as [|k r IH]; intros marked acc H; cbn [dups]; [assumption|].
  destruct (smem k marked); apply IH; [apply sset_insert_nonempty | assumption].
Qed.

Lemma dups_nil_iff : forall l marked,
  dups marked l [] = [] <-> NoDup l /\ (forall x, In x l -> ~ In x marked).
Proof.
  induction l as [|k r IH]; intros marked; cbn [dups].
  - split; [intros _; split; [constructor | intros x []] | reflexivity].
  - destruct (smem k marked) eqn:Hm.
    + split.
      * intros H. exfalso. revert H. apply dups_acc_nonempty. apply sset_insert_nonempty.
      * intros [_ H]. exfalso. apply (H k); [now left | now apply smem_In].
    + apply smem_false in Hm. rewrite IH. split.
      * intros [Hnd Hdis]. split.
        -- constructor; [|assumption]. intros Hk. apply (Hdis k Hk). now left.
        -- intros x [<-|Hx]; [assumption|]. intros Hxm. apply (Hdis x Hx). now right.
      * intros [Hnd Hdis]. inversion Hnd as [|? ? Hk Hnd']; subst. split; [assumption|].
        intros x Hx [<-|Hxm]; [contradiction|]. apply (Hdis x); [now right | assumption].
Qed.

Lemma contain_duplicates_none : forall l, contain_duplicates l = None <-> NoDup l.
Proof.
  intros l. unfold contain_duplicates. destruct (dups [] l []) eqn:Hd.
  - split; [intros _ | reflexivity]. apply (proj1 (dups_nil_iff l [])) in Hd. tauto.
  - split; [discriminate|]. intros H. exfalso.
    assert (dups [] l [] = []) by (apply dups_nil_iff; split; [assumption | intros x _ []]). congruence.
Qed.

(** * ConfigFile::new: normal form of an accepted configuration *)
Theorem config_new_normal_form : forall vm r c,
  config_new_with vm r = COk c ->
  exists c0, vm r = COk c0
    /\ cf_default c = cf_default c0
    /\ hd_error (cf_locales c) = Some (cf_default c)
    /\ NoDup (cf_locales c)
    /\ Permutation (cf_locales c)
         (if smem (cf_default c0) (cf_locales c0) then cf_locales c0 else cf_default c0 :: cf_locales c0)
    /\ match cf_namespaces c with Some n => NoDup n | None => True end
    /\ cf_namespaces c = cf_namespaces c0 /\ cf_locales_dir c = cf_locales_dir c0
    /\ cf_translations_uri c = cf_translations_uri c0 /\ cf_extensions c = cf_extensions c0.
Proof.
  intros vm r c H. unfold config_new_with in H. destruct (vm r) as [c0|e]; [|discriminate].
  destruct (contain_duplicates (default_first (cf_default c0) (cf_locales c0))) as [d|] eqn:Hd; [discriminate|].
  destruct (match cf_namespaces c0 with Some n => contain_duplicates n | None => None end) as [d|] eqn:Hn; [discriminate|].
  injection H as <-. exists c0. cbn [cf_default cf_locales cf_namespaces cf_locales_dir cf_translations_uri cf_extensions].
  repeat split.
  - apply default_first_hd.
  - now apply contain_duplicates_none.
  - apply default_first_perm.
  - destruct (cf_namespaces c0) as [n|]; [now apply contain_duplicates_none | exact I].
Qed.

Lemma visit_map_fields : forall known r c,
  visit_map_with known r = COk c ->
  exists d0 ls0, r_default r = Some d0 /\ r_locales r = Some ls0
    /\ cf_default c = key_new d0 /\ cf_locales c = map key_new ls0
    /\ cf_namespaces c = option_map (map key_new) (r_namespaces r)
    /\ cf_locales_dir c = match r_locales_dir r with Some s => s | None => locales_default end
    /\ cf_translations_uri c = r_translations_uri r.
Proof.
  intros known r c H. unfold visit_map_with in H.
  destruct (r_default r) as [d0|]; [|discriminate]. destruct (r_locales r) as [ls0|]; [|discriminate].
  match type of H with context [check_inherits ?k ?e] => destruct (check_inherits k e); [discriminate|] end.
  match type of H with context [smap_get ?e ?d] => destruct (smap_get e d); [discriminate|] end.
  injection H as <-. exists d0, ls0. repeat split.
Qed.

(** * rejection, for configurations without an `inherits` table *)
Lemma config_new_reject_no_inherits : forall r,
  r_inherits r = None ->
  ((exists e, config_new r = CErr e) <-> should_reject r = true).
Proof.
  intros r Hi. unfold config_new, config_new_with, visit_map, visit_map_with, should_reject, inherits_of. rewrite Hi.
  destruct (r_default r) as [d0|]; [|split; [reflexivity | eauto]].
  destruct (r_locales r) as [ls0|]; [|split; [reflexivity | eauto]].
  cbn [fold_left check_inherits smap_get map existsb cf_default cf_locales cf_namespaces]. rewrite !orb_false_r.
  set (d := key_new d0). set (ls := map key_new ls0).
  assert (Hnd : NoDup (default_first d ls) <-> NoDup ls).
  { pose proof (default_first_perm d ls) as Hp. destruct (smem d ls) eqn:Hm.
    - split; intros H; [eapply Permutation_NoDup; eauto | eapply Permutation_NoDup; [apply Permutation_sym|]; eauto].
    - apply smem_false in Hm. split; intros H.
      + assert (H' : NoDup (d :: ls)) by (eapply Permutation_NoDup; eauto). now inversion H'.
      + eapply Permutation_NoDup; [apply Permutation_sym; eauto|]. now constructor. }
  destruct (contain_duplicates (default_first d ls)) as [dd|] eqn:Hc.
  - split; [intros _ | eauto].
    assert (Hn : ~ NoDup ls).
    { intros H. apply Hnd in H. apply contain_duplicates_none in H. congruence. }
    destruct (nodup_s ls) eqn:Hb; [apply nodup_s_NoDup in Hb; contradiction | reflexivity].
  - apply contain_duplicates_none in Hc. apply Hnd in Hc. apply nodup_s_NoDup in Hc. rewrite Hc. cbn [negb orb].
    destruct (r_namespaces r) as [n|]; cbn [option_map].
    + destruct (contain_duplicates (map key_new n)) as [dd|] eqn:Hcn.
      * split; [intros _ | eauto].
        destruct (nodup_s (map key_new n)) eqn:Hb; [|reflexivity].
        apply nodup_s_NoDup in Hb. apply contain_duplicates_none in Hb. congruence.
      * apply contain_duplicates_none in Hcn. apply nodup_s_NoDup in Hcn. rewrite Hcn.
        split; [intros [e He]; discriminate | discriminate].
    + split; [intros [e He]; discriminate | discriminate].
Qed.

(** * files *)
Lemma find_file_spec : forall existing cands p,
  find_file existing cands = Some p ->
  exists pre post, cands = pre ++ p :: post /\ In p existing /\ forall q, In q pre -> ~ In q existing.
Proof.
  intros existing. induction cands as [|c r IH]; intros p H; cbn [find_file] in H; [discriminate|].
  destruct (smem c existing) eqn:Hm.
  - injection H as <-. exists [], r. split; [reflexivity|]. split; [now apply smem_In | intros q []].
  - destruct (IH _ H) as [pre [post [-> [Hin Hpre]]]]. exists (c :: pre), post. split; [reflexivity|].
    split; [assumption|]. intros q [<-|Hq]; [now apply smem_false | auto].
Qed.

(** the tracked files: one per stem, in order, each the first existing candidate
    `stem.ext` over the format's extensions *)
Theorem read_files_spec : forall fmt existing stems tracked,
  read_files fmt existing stems = COk tracked ->
  Forall2 (fun s t => exists pre post e,
             file_exts fmt = pre ++ e :: post /\ t = with_ext s e /\ In t existing
             /\ forall e', In e' pre -> ~ In (with_ext s e') existing) stems tracked.
Proof.
  intros fmt existing. induction stems as [|s r IH]; intros tracked H; cbn [read_files] in H.
  - injection H as <-. constructor.
  - destruct (find_file existing (map (with_ext s) (file_exts fmt))) as [p|] eqn:Hf; [|discriminate].
    destruct (read_files fmt existing r) as [t|e] eqn:Hr; [|discriminate]. injection H as <-.
    constructor; [|now apply IH].
    destruct (find_file_spec _ _ _ Hf) as [pre [post [Heq [Hin Hpre]]]].
    apply map_eq_app in Heq. destruct Heq as [l1 [l2 [Hexts [Hl1 Hl2]]]].
    destruct l2 as [|e l2]; [discriminate|]. cbn [map] in Hl2. injection Hl2 as Hp Hpost.
    exists l1, l2, e. split; [assumption|]. split; [now symmetry|]. split; [now subst|].
    intros e' He'. apply Hpre. rewrite <- Hl1. now apply in_map.
Qed.

Theorem read_files_not_found : forall fmt existing stems tried,
  read_files fmt existing stems = CErr (ENotFound tried) ->
  exists s, In s stems /\ tried = map (with_ext s) (file_exts fmt) /\ forall t, In t tried -> ~ In t existing.
Proof.
  intros fmt existing. induction stems as [|s r IH]; intros tried H; cbn [read_files] in H; [discriminate|].
  destruct (find_file existing (map (with_ext s) (file_exts fmt))) as [p|] eqn:Hf.
  - destruct (read_files fmt existing r) as [t|e] eqn:Hr; [discriminate|]. injection H as ->.
    destruct (IH _ eq_refl) as [s' [Hs' Hrest]]. exists s'. split; [now right | assumption].
  - injection H as <-. exists s. split; [now left|]. split; [reflexivity|].
    clear IH. induction (map (with_ext s) (file_exts fmt)) as [|c cs IHc]; [intros t []|].
    cbn [find_file] in Hf. destruct (smem c existing) eqn:Hm; [discriminate|].
    intros t [<-|Ht]; [now apply smem_false | now apply IHc].
Qed.

(** * the code before the repair rejects a documented configuration *)
Definition w_en : str := [101; 110].
Definition w_it : str := [105; 116].
Definition w_raw : raw_cfg := mk_raw (Some w_en) (Some [w_it]) None None None (Some [(w_it, w_en)]).
Lemma old_refuted :
  should_reject w_raw = false
  /\ config_new_old w_raw = CErr (EUnknownLocale w_en)
  /\ config_new w_raw = COk (mk_config w_en [w_en; w_it] None locales_default None [(w_it, w_en)]).
Proof. vm_compute. repeat split. Qed.

(** * rejection, general case (inherits keys distinct after trimming) *)
Lemma smap_insert_In_1 : forall m k v kv, In kv (smap_insert k v m) -> kv = (k, v) \/ In kv m.
Proof.
  induction m as [|[k0 v0] r IH]; intros k v kv H; cbn [smap_insert] in H.
  - destruct H as [H|[]]. now left.
  - destruct (str_ltb k k0).
    + destruct H as [H|H]; [now left | now right].
    + destruct (str_eqb k k0).
      * destruct H as [H|H]; [now left | right; now right].
      * destruct H as [H|H]; [right; now left|]. destruct (IH _ _ _ H) as [H'|H']; [now left | right; now right].
Qed.
Lemma smap_insert_In_2 : forall m k v, In (k, v) (smap_insert k v m).
Proof.
  induction m as [|[k0 v0] r IH]; intros k v; cbn [smap_insert]; [now left|].
  destruct (str_ltb k k0); [now left|]. destruct (str_eqb k k0); [now left | right; apply IH].
Qed.
Lemma smap_insert_In_3 : forall m k v kv, In kv m -> fst kv <> k -> In kv (smap_insert k v m).
Proof.
  induction m as [|[k0 v0] r IH]; intros k v kv H Hne; [contradiction|]. cbn [smap_insert].
  destruct (str_ltb k k0); [now right|].
  destruct (str_eqb k k0) eqn:He.
  - apply str_eqb_eq in He. subst k0. destruct H as [H|H]; [subst kv; cbn [fst] in Hne; congruence | now right].
  - destruct H as [H|H]; [now left | right; now apply IH].
Qed.

Definition ins_all (l : list (str * str)) (m0 : list (str * str)) : list (str * str) :=
  fold_left (fun m kv => smap_insert (fst kv) (snd kv) m) l m0.

Lemma ins_all_In_1 : forall l m0 kv, In kv (ins_all l m0) -> In kv l \/ In kv m0.
Proof.
  induction l as [|[k v] r IH]; intros m0 kv H; cbn [ins_all fold_left] in H; [now right|].
  destruct (IH _ _ H) as [H1|H1]; [left; now right|]. cbn [fst snd] in H1.
  destruct (smap_insert_In_1 _ _ _ _ H1) as [->|H2]; [left; now left | now right].
Qed.
Lemma ins_all_keep : forall l m0 kv, In kv m0 -> ~ In (fst kv) (map fst l) -> In kv (ins_all l m0).
Proof.
  induction l as [|[k v] r IH]; intros m0 kv H Hn; cbn [ins_all fold_left]; [assumption|].
  cbn [map fst In] in Hn. apply IH; [|tauto]. cbn [fst snd]. apply smap_insert_In_3; [assumption | intros E; apply Hn; left; now symmetry].
Qed.
Lemma ins_all_In_2 : forall l m0 kv, NoDup (map fst l) -> In kv l -> In kv (ins_all l m0).
Proof.
  induction l as [|[k v] r IH]; intros m0 kv Hnd H; [contradiction|]. cbn [ins_all fold_left].
  cbn [map fst] in Hnd. inversion Hnd as [|? ? Hk Hnd']; subst. destruct H as [<-|H].
  - apply ins_all_keep; [apply smap_insert_In_2 | assumption].
  - now apply IH.
Qed.

Lemma fold_key_new : forall (l : list (str * str)) m0,
  fold_left (fun m kv => smap_insert (key_new (fst kv)) (key_new (snd kv)) m) l m0
  = ins_all (map (fun kv => (key_new (fst kv), key_new (snd kv))) l) m0.
Proof. induction l as [|kv r IH]; intros m0; cbn [fold_left map ins_all]; [reflexivity|]. apply IH. Qed.

Lemma check_inherits_none : forall known ext,
  check_inherits known ext = None <-> forall kv, In kv ext -> known (fst kv) = true /\ known (snd kv) = true.
Proof.
  intros known. induction ext as [|[k v] r IH]; cbn [check_inherits].
  - split; [intros _ kv [] | reflexivity].
  - destruct (known k) eqn:Hk; cbn [negb].
    + destruct (known v) eqn:Hv; cbn [negb].
      * rewrite IH. split.
        -- intros H kv [<-|Hin]; [now split | auto].
        -- intros H kv Hin. apply H. now right.
      * split; [discriminate|]. intros H. destruct (H (k, v) (or_introl eq_refl)) as [_ H2]. cbn [snd] in H2. congruence.
    + split; [discriminate|]. intros H. destruct (H (k, v) (or_introl eq_refl)) as [H1 _]. cbn [fst] in H1. congruence.
Qed.

Lemma smap_get_none : forall m d, smap_get m d = None <-> forall kv, In kv m -> fst kv <> d.
Proof.
  induction m as [|[k v] r IH]; intros d; cbn [smap_get].
  - split; [intros _ kv [] | reflexivity].
  - destruct (str_eqb d k) eqn:He.
    + apply str_eqb_eq in He. subst k. split; [discriminate|]. intros H. exfalso. now apply (H (d, v) (or_introl eq_refl)).
    + rewrite IH. split.
      * intros H kv [<-|Hin]; [cbn [fst]; intros ->; now rewrite str_eqb_refl in He | auto].
      * intros H kv Hin. apply H. now right.
Qed.

Lemma existsb_false_forall : forall A (f : A -> bool) l, existsb f l = false <-> forall x, In x l -> f x = false.
Proof.
  intros A f. induction l as [|a r IH]; cbn [existsb].
  - split; [intros _ x [] | reflexivity].
  - rewrite orb_false_iff, IH. split.
    + intros [H1 H2] x [<-|Hx]; auto.
    + intros H. split; [apply H; now left | intros x Hx; apply H; now right].
Qed.

Theorem config_new_reject_iff : forall r,
  nodup_s (map fst (inherits_of r)) = true ->
  ((exists e, config_new r = CErr e) <-> should_reject r = true).
Proof.
  intros r Hkeys. apply nodup_s_NoDup in Hkeys.
  unfold config_new, config_new_with, visit_map, visit_map_with, should_reject.
  destruct (r_default r) as [d0|]; [|split; [reflexivity | eauto]].
  destruct (r_locales r) as [ls0|]; [|split; [reflexivity | eauto]].
  rewrite fold_key_new. fold (inherits_of r).
  set (d := key_new d0). set (ls := map key_new ls0). set (inh := inherits_of r) in *.
  set (known := fun x => str_eqb x d || smem x ls).
  assert (Hext : forall kv, In kv (ins_all inh []) <-> In kv inh).
  { intros kv. split.
    - intros H. destruct (ins_all_In_1 _ _ _ H) as [H'|[]]. exact H'.
    - now apply ins_all_In_2. }
  assert (HC : check_inherits known (ins_all inh []) = None <->
               existsb (fun kv => negb (known (fst kv)) || negb (known (snd kv))) inh = false).
  { rewrite check_inherits_none, existsb_false_forall. split.
    - intros H kv Hin. destruct (H kv (proj2 (Hext kv) Hin)) as [H1 H2]. now rewrite H1, H2.
    - intros H kv Hin. specialize (H kv (proj1 (Hext kv) Hin)). apply orb_false_iff in H.
      destruct H as [H1 H2]. apply negb_false_iff in H1, H2. now split. }
  assert (HD : smap_get (ins_all inh []) d = None <-> existsb (fun kv => str_eqb (fst kv) d) inh = false).
  { rewrite smap_get_none, existsb_false_forall. split.
    - intros H kv Hin. specialize (H kv (proj2 (Hext kv) Hin)).
      destruct (str_eqb (fst kv) d) eqn:He; [apply str_eqb_eq in He; contradiction | reflexivity].
    - intros H kv Hin Heq. specialize (H kv (proj1 (Hext kv) Hin)). rewrite Heq, str_eqb_refl in H. discriminate. }
  fold known.
  change (existsb (fun kv : str * str => negb (str_eqb (fst kv) d || smem (fst kv) ls)
                                         || negb (str_eqb (snd kv) d || smem (snd kv) ls)) inh)
    with (existsb (fun kv : str * str => negb (known (fst kv)) || negb (known (snd kv))) inh).
  destruct (check_inherits known (ins_all inh [])) as [e|] eqn:Hci.
  - split; [intros _ | eauto].
    destruct (existsb (fun kv => negb (known (fst kv)) || negb (known (snd kv))) inh) eqn:HCb.
    + now rewrite !orb_true_r.
    + destruct HC as [_ HC']. discriminate (HC' eq_refl).
  - rewrite (proj1 HC eq_refl), orb_false_r.
    destruct (smap_get (ins_all inh []) d) as [v|] eqn:Hsg.
    + split; [intros _ | eauto].
      destruct (existsb (fun kv => str_eqb (fst kv) d) inh) eqn:HDb; [now rewrite orb_true_r|].
      destruct HD as [_ HD']. discriminate (HD' eq_refl).
    + rewrite (proj1 HD eq_refl), orb_false_r.
      cbn [cf_default cf_locales cf_namespaces].
      assert (Hnd : NoDup (default_first d ls) <-> NoDup ls).
      { pose proof (default_first_perm d ls) as Hp. destruct (smem d ls) eqn:Hm.
        - split; intros H; [eapply Permutation_NoDup; eauto | eapply Permutation_NoDup; [apply Permutation_sym|]; eauto].
        - apply smem_false in Hm. split; intros H.
          + assert (H' : NoDup (d :: ls)) by (eapply Permutation_NoDup; eauto). now inversion H'.
          + eapply Permutation_NoDup; [apply Permutation_sym; eauto|]. now constructor. }
      destruct (contain_duplicates (default_first d ls)) as [dd|] eqn:Hc.
      * split; [intros _ | eauto].
        assert (Hn : ~ NoDup ls).
        { intros H. apply Hnd in H. apply contain_duplicates_none in H. congruence. }
        destruct (nodup_s ls) eqn:Hb; [apply nodup_s_NoDup in Hb; contradiction | reflexivity].
      * apply contain_duplicates_none in Hc. apply Hnd in Hc. apply nodup_s_NoDup in Hc. rewrite Hc. cbn [negb orb].
        destruct (r_namespaces r) as [n|]; cbn [option_map].
        -- destruct (contain_duplicates (map key_new n)) as [dd|] eqn:Hcn.
           ++ split; [intros _ | eauto].
              destruct (nodup_s (map key_new n)) eqn:Hb; [|reflexivity].
              apply nodup_s_NoDup in Hb. apply contain_duplicates_none in Hb. congruence.
           ++ apply contain_duplicates_none in Hcn. apply nodup_s_NoDup in Hcn. rewrite Hcn.
              split; [intros [e He]; discriminate | discriminate].
        -- split; [intros [e He]; discriminate | discriminate].
Qed.

(** * the text before the header only contributes its line feeds *)
Lemma strip_prefix_app : forall p s, strip_prefix p (p ++ s) = Some s.
Proof.
  induction p as [|c p IH]; intros s; cbn [strip_prefix app]; [reflexivity|]. now rewrite N.eqb_refl.
Qed.

(* the current line after reading [a], starting from [line] *)
Definition cur_line (line a : str) : str := fold_left line_step a line.

(** no occurrence of the header string inside the prefix [p] starts its line (the prefix may well
    mention the header: in a comment, in a string) *)
Definition no_header_line_in (line p rest : str) : Prop :=
  forall a b, p = a ++ b -> b <> [] ->
    (exists r, strip_prefix header (b ++ rest) = Some r) -> line_start_ok (cur_line line a) = false.

Lemma scan_hit : forall line s rest,
  strip_prefix header s = Some rest -> line_start_ok line = true -> scan line s = Some ([], rest).
Proof.
  intros line s rest H Hl. destruct s as [|c r]; [discriminate|]. cbn [scan]. now rewrite H, Hl.
Qed.

Lemma scan_first : forall p line body,
  no_header_line_in line p (header ++ body) -> line_start_ok (cur_line line p) = true ->
  scan line (p ++ header ++ body) = Some (p, body).
Proof.
  induction p as [|c p IH]; intros line body H Hl.
  - cbn [app]. apply scan_hit; [apply strip_prefix_app | exact Hl].
  - assert (Hrec : scan (line_step line c) (p ++ header ++ body) = Some (p, body)).
    { apply IH; [|exact Hl]. intros a b Hab Hb Hocc.
      apply (H (c :: a) b); [now rewrite Hab | assumption | assumption]. }
    change ((c :: p) ++ header ++ body) with (c :: (p ++ header ++ body)). cbn [scan]. rewrite Hrec.
    destruct (strip_prefix header (c :: p ++ header ++ body)) as [rest|] eqn:Hs; [|reflexivity].
    assert (Hno : line_start_ok line = false).
    { apply (H [] (c :: p)); [reflexivity | discriminate | eauto]. }
    now rewrite Hno.
Qed.

Theorem section_text_prefix : forall p body,
  no_header_line_in [] p (header ++ body) -> line_start_ok (cur_line [] p) = true ->
  section_text (p ++ header ++ body) = Some (only_line_feeds p ++ body).
Proof. intros p body H Hl. unfold section_text. now rewrite (scan_first p [] body H Hl). Qed.

(** two prefixes with the same line feeds give the same text to the deserializer: carriage returns,
    a byte-order mark, comments (even mentioning the header), other tables ... are irrelevant *)
Corollary section_text_prefix_irrelevant : forall p p' body,
  no_header_line_in [] p (header ++ body) -> line_start_ok (cur_line [] p) = true ->
  no_header_line_in [] p' (header ++ body) -> line_start_ok (cur_line [] p') = true ->
  only_line_feeds p = only_line_feeds p' ->
  section_text (p ++ header ++ body) = section_text (p' ++ header ++ body).
Proof. intros p p' body H Hl H' Hl' He. now rewrite !section_text_prefix, He. Qed.

Lemma only_line_feeds_crlf : forall s, only_line_feeds (flat_map (fun c => if c =? line_feed then [13; line_feed] else [c]) s) = only_line_feeds s.
Proof.
  induction s as [|c s IH]; [reflexivity|]. cbn [flat_map]. unfold only_line_feeds in *. rewrite filter_app, IH.
  destruct (c =? line_feed) eqn:He; cbn [filter app].
  - apply N.eqb_eq in He. subst c. reflexivity.
  - now rewrite He.
Qed.

(** the code before f0237de cut the manifest at a mention of the header in a comment:
    "# see [package.metadata.leptos-i18n] below\n[package.metadata.leptos-i18n]\nx" *)
Definition w_mention : str := [35; 32; 115; 101; 101; 32] ++ header ++ [32; 98; 101; 108; 111; 119; 10] ++ header ++ [10; 120].
Lemma mention_old_refuted :
  section_text w_mention = Some [10; 10; 120]
  /\ section_text_old w_mention = Some ([32; 98; 101; 108; 111; 119; 10] ++ header ++ [10; 120]).
Proof. vm_compute. split; reflexivity. Qed.
