(** String tables of a translation unit (one locale of one namespace):

    - [push_str]       = `StringIndexer::push_str` (leptos_i18n_parser/src/parse_locales/mod.rs)
    - [index_pv]       = `ParsedValue::index_strings` / `Literal::index_strings`
                         / `Ranges::index_strings` / `Plurals::index_strings`
    - [index_group]    = the walk of `Locale::make_builder_keys` (default locale) and of
                         `Locale::merge` / `ParsedValue::merge` (other locales) over the keys the
                         generated code has, one indexer per top locale, nested subkeys included
    - [index_locale]   = the three lines of `check_locales_inner`:
                         `strings = indexer.get_strings(); top_locale_string_count = strings.len()`
    - [propagate]      = `BuildersKeysInner::propagate_string_count`
    - [read_index]     = `index_translations::<N, I>` (array of exactly N strings, element I)
    - [cast_ok]        = `StringArray::cast` on the client (`Vec -> [Box<str>; N]`, length must match)

    What is abstracted: the value tree is given after `reduce()` and after the alignment of a
    locale with the default locale's key set (absent keys are [PDefault]); keys of a locale that
    the default locale does not have are never visited by the code and are not part of the tree.
    No proofs in this file. *)
From Coq Require Import List NArith Bool Arith.
Import ListNotations.
From LI Require Import Base.StrOps Runtime.Escape.
Open Scope N_scope.

(** ** StringIndexer { current: HashMap<Rc<str>, usize>, acc: Vec<Rc<str>> } *)
Record indexer := mk_ix { ix_cur : list (str * N); ix_acc : list str }.
Definition ix_empty : indexer := mk_ix [] [].

(** HashMap::get (the map is never iterated) *)
Fixpoint map_get (k : str) (m : list (str * N)) : option N :=
  match m with
  | [] => None
  | (k', v) :: r => if str_eqb k k' then Some v else map_get k r
  end.

Definition push_str (ix : indexer) (s : str) : N * indexer :=
  match map_get s (ix_cur ix) with
  | Some i => (i, ix)
  | None =>
      let i := N.of_nat (length (ix_acc ix)) in
      (i, mk_ix ((s, i) :: ix_cur ix) (ix_acc ix ++ [s]))
  end.

(** ** Literal types (`LiteralType`): only `String` literals carry an index *)
Inductive lit_ty := TString | TBool | TSigned | TUnsigned | TFloat.
Definition lit_ty_eqb (a b : lit_ty) : bool :=
  match a, b with
  | TString, TString | TBool, TBool | TSigned, TSigned | TUnsigned, TUnsigned | TFloat, TFloat => true
  | _, _ => false
  end.

(** ** ParsedValue after reduce() *)
Inductive pv :=
| PDefault                        (* ParsedValue::Default *)
| PForeign                        (* ForeignKey (none is left after reduce) *)
| PVar                            (* Variable *)
| PSubV                           (* Subkeys seen in value position *)
| PLitOther (t : lit_ty)          (* Literal::{Signed,Unsigned,Float,Bool}: `Literal::index_strings` does nothing *)
| PLit (s : str) (idx : N)        (* Literal::String(s, idx) *)
| PRanges (vs : pvs)              (* the values of the range table, in order *)
| PComp (inner : pv)              (* Component { inner } *)
| PPlurals (forms : pvs) (other : pv)   (* forms in BTreeMap order, then other *)
| PBloc (vs : pvs)
with pvs := PNil | PCons (v : pv) (r : pvs).

Fixpoint index_pv (v : pv) (ix : indexer) {struct v} : pv * indexer :=
  match v with
  | PLit s _ => let (i, ix') := push_str ix s in (PLit s i, ix')
  | PRanges vs => let (vs', ix') := index_pvs vs ix in (PRanges vs', ix')
  | PComp inner => let (inner', ix') := index_pv inner ix in (PComp inner', ix')
  | PPlurals fs o =>
      let (fs', ix1) := index_pvs fs ix in
      let (o', ix2) := index_pv o ix1 in
      (PPlurals fs' o', ix2)
  | PBloc vs => let (vs', ix') := index_pvs vs ix in (PBloc vs', ix')
  | PDefault | PForeign | PVar | PSubV | PLitOther _ => (v, ix)
  end
with index_pvs (vs : pvs) (ix : indexer) {struct vs} : pvs * indexer :=
  match vs with
  | PNil => (PNil, ix)
  | PCons v r =>
      let (v', ix1) := index_pv v ix in
      let (r', ix2) := index_pvs r ix1 in
      (PCons v' r', ix2)
  end.

(** ** The keys of one locale as the generated code sees them.
    [ESub count nloc g]: a nested `Locale` (subkeys) with its `top_locale_string_count` and the
    number of per-locale entries of the enclosing `LocaleValue::Subkeys { locales, .. }`. *)
Inductive entry :=
| EVal (v : pv)
| ESub (count : N) (nloc : N) (g : group)
with group := GNil | GCons (k : str) (e : entry) (r : group).

Fixpoint index_group (g : group) (ix : indexer) {struct g} : group * indexer :=
  match g with
  | GNil => (GNil, ix)
  | GCons k e r =>
      let (e', ix1) := index_entry e ix in
      let (r', ix2) := index_group r ix1 in
      (GCons k e' r', ix2)
  end
with index_entry (e : entry) (ix : indexer) {struct e} : entry * indexer :=
  match e with
  | EVal v => let (v', ix') := index_pv v ix in (EVal v', ix')
  | ESub c n g => let (g', ix') := index_group g ix in (ESub c n g', ix')
  end.

(** ** The same walk with the state the code keeps per key while it merges the locales one after the other:
    `LocaleValue::Value { value: InterpolOrLit, .. }` — `Lit(type)` as long as every locale seen so far gives a
    literal of that type (the accessor is then a constant), `Interpol(..)` otherwise (a builder).  This state is
    set by the default locale (`make_locale_value` / `get_keys`) and updated by every other locale in
    configuration order (`ParsedValue::merge`).  Indexing must not depend on it. *)
Inductive ivalue := ILit (t : lit_ty) | IInterpol.
Inductive ientry := IEVal (iv : ivalue) | IESub (ik : ikeys)
with ikeys := IKNil | IKCons (k : str) (e : ientry) (r : ikeys).

Definition lit_ty_of (v : pv) : option lit_ty :=
  match v with PLit _ _ => Some TString | PLitOther t => Some t | _ => None end.

(** default locale, `make_locale_value`: `this.index_strings(strings); this.get_keys(..)` *)
Definition builder_value (v : pv) (ix : indexer) : pv * ivalue * indexer :=
  let (v', ix') := index_pv v ix in
  (v', match lit_ty_of v with Some t => ILit t | None => IInterpol end, ix').

(** other locales, `ParsedValue::merge` on `LocaleValue::Value`:
    - `(Default, Value)`: `defaults.push(..)`, nothing else;
    - `(Literal(lit), Value { value })`: `lit.index_strings(strings)` FIRST, then: a builder stays a builder, a literal
      of the same type stays that literal, a literal of another type makes a builder with 0 fields;
    - `(Bloc | Component | Ranges | Variable | Plurals | ForeignKey, Value)`: `self.index_strings(strings)`, then
      `get_keys_inner` registers a variable / component / count: a builder. *)
Definition merge_value (v : pv) (iv : ivalue) (ix : indexer) : pv * ivalue * indexer :=
  match v with
  | PDefault => (v, iv, ix)
  | PLit _ _ | PLitOther _ =>
      let (v', ix') := index_pv v ix in
      match iv, lit_ty_of v with
      | ILit t, Some t' => if lit_ty_eqb t' t then (v', ILit t, ix') else (v', IInterpol, ix')
      | _, _ => (v', IInterpol, ix')
      end
  | _ => let (v', ix') := index_pv v ix in (v', IInterpol, ix')
  end.

(** `Locale::make_builder_keys` (default locale).  `None` = `Err(ExplicitDefaultInDefault)` *)
Fixpoint builder_group (g : group) (ix : indexer) {struct g} : option (group * ikeys * indexer) :=
  match g with
  | GNil => Some (GNil, IKNil, ix)
  | GCons k e r =>
      match builder_entry e ix with
      | None => None
      | Some (e', ie, ix1) =>
          match builder_group r ix1 with
          | None => None
          | Some (r', ir, ix2) => Some (GCons k e' r', IKCons k ie ir, ix2)
          end
      end
  end
with builder_entry (e : entry) (ix : indexer) {struct e} : option (entry * ientry * indexer) :=
  match e with
  | EVal PDefault => None
  | EVal v => let '(v', iv, ix') := builder_value v ix in Some (EVal v', IEVal iv, ix')
  | ESub c n g =>
      match builder_group g ix with
      | None => None
      | Some (g', ik, ix') => Some (ESub c n g', IESub ik, ix')
      end
  end.

(** `Locale::merge` over the keys of the generated code (`keys.0`), the locale's values aligned with them.
    `None` = `Err(SubKeyMissmatch)` (a value where the default locale has subkeys, or the reverse). *)
Fixpoint merge_group (g : group) (ik : ikeys) (ix : indexer) {struct g} : option (group * ikeys * indexer) :=
  match g, ik with
  | GNil, IKNil => Some (GNil, IKNil, ix)
  | GCons k e r, IKCons _ ie ir =>
      match merge_entry e ie ix with
      | None => None
      | Some (e', ie', ix1) =>
          match merge_group r ir ix1 with
          | None => None
          | Some (r', ir', ix2) => Some (GCons k e' r', IKCons k ie' ir', ix2)
          end
      end
  | _, _ => None
  end
with merge_entry (e : entry) (ie : ientry) (ix : indexer) {struct e} : option (entry * ientry * indexer) :=
  match e, ie with
  | EVal v, IEVal iv => let '(v', iv', ix') := merge_value v iv ix in Some (EVal v', IEVal iv', ix')
  | ESub c n g, IESub ik =>
      match merge_group g ik ix with
      | None => None
      | Some (g', ik', ix') => Some (ESub c n g', IESub ik', ix')
      end
  | _, _ => None
  end.

(** `check_locales_inner`: the default locale, then every other locale in configuration order, each with its own
    indexer; returns the per-locale trees / tables and the final state of the keys *)
Fixpoint merge_locales (gs : list group) (ik : ikeys) : option (list (group * list str) * ikeys) :=
  match gs with
  | [] => Some ([], ik)
  | g :: rest =>
      match merge_group g ik ix_empty with
      | None => None
      | Some (g', ik', ix) =>
          match merge_locales rest ik' with
          | None => None
          | Some (outs, ikf) => Some ((g', ix_acc ix) :: outs, ikf)
          end
      end
  end.
Definition check_locales (gs : list group) : option (list (group * list str) * ikeys) :=
  match gs with
  | [] => None
  | d :: rest =>
      match builder_group d ix_empty with
      | None => None
      | Some (d', ik, ix) =>
          match merge_locales rest ik with
          | None => None
          | Some (outs, ikf) => Some ((d', ix_acc ix) :: outs, ikf)
          end
      end
  end.

Fixpoint ivalue_eqb (a b : ivalue) : bool :=
  match a, b with ILit t, ILit u => lit_ty_eqb t u | IInterpol, IInterpol => true | _, _ => false end.
Fixpoint ikeys_eqb (a b : ikeys) {struct a} : bool :=
  match a, b with
  | IKNil, IKNil => true
  | IKCons k e r, IKCons k' e' r' => str_eqb k k' && ientry_eqb e e' && ikeys_eqb r r'
  | _, _ => false
  end
with ientry_eqb (a b : ientry) {struct a} : bool :=
  match a, b with
  | IEVal x, IEVal y => ivalue_eqb x y
  | IESub x, IESub y => ikeys_eqb x y
  | _, _ => false
  end.

(** ** propagate_string_count: every nested Locale of top locale number li receives the
    count of top locale number li.  Seen from one top locale: all its nested counts are set. *)
Fixpoint set_counts (top : N) (g : group) {struct g} : group :=
  match g with
  | GNil => GNil
  | GCons k e r => GCons k (set_counts_e top e) (set_counts top r)
  end
with set_counts_e (top : N) (e : entry) {struct e} : entry :=
  match e with
  | EVal v => EVal v
  | ESub _ n g => ESub top n (set_counts top g)
  end.

(** the same function on the data structure the code walks: per key either a value or
    `Subkeys { locales: Vec<Locale>, keys }`; only the counts of the nested locales are kept *)
Inductive bkeys := BNil | BCons (k : str) (v : bval) (r : bkeys)
with bval := BValue | BSub (counts : list N) (keys : bkeys).
(** `for (locale, top_locale) in locales.iter_mut().zip(top_locales)` *)
Fixpoint zip_set (counts tops : list N) : list N :=
  match counts, tops with
  | _ :: cr, t :: tr => t :: zip_set cr tr
  | cs, [] => cs
  | [], _ => []
  end.
Fixpoint propagate (tops : list N) (b : bkeys) {struct b} : bkeys :=
  match b with
  | BNil => BNil
  | BCons k v r => BCons k (propagate_v tops v) (propagate tops r)
  end
with propagate_v (tops : list N) (v : bval) {struct v} : bval :=
  match v with
  | BValue => BValue
  | BSub cs ks => BSub (zip_set cs tops) (propagate tops ks)
  end.

(** how the nested `locales` vectors get their elements: `make_locale_value` starts a block with the default locale's
    nested Locale (`locales: vec![locale]`), and every other locale pushes exactly one nested Locale into every block
    it meets — its own (`(Subkeys, Subkeys)`) or an all-defaulted dummy (`(Default, Subkeys)`), recursively *)
Fixpoint push_locale (c : N) (b : bkeys) {struct b} : bkeys :=
  match b with
  | BNil => BNil
  | BCons k v r => BCons k (push_locale_v c v) (push_locale c r)
  end
with push_locale_v (c : N) (v : bval) {struct v} : bval :=
  match v with
  | BValue => BValue
  | BSub cs ks => BSub (cs ++ [c]) (push_locale c ks)
  end.

(** every nested block of a locale's final values expects [n] strings *)
Fixpoint counts_ok (n : N) (g : group) {struct g} : bool :=
  match g with
  | GNil => true
  | GCons _ e r => counts_ok_e n e && counts_ok n r
  end
with counts_ok_e (n : N) (e : entry) {struct e} : bool :=
  match e with
  | EVal _ => true
  | ESub c _ g => (c =? n) && counts_ok n g
  end.

(** ** One top locale of one namespace, as `check_locales_inner` leaves it *)
Record unit_out := mk_out {
  o_tree : group;            (* values with their indices, nested counts *)
  o_strings : list str;      (* Locale.strings: the table baked into the code and exported *)
  o_count : N;               (* Locale.top_locale_string_count: the N of `[&str; N]` *)
  o_file : str }.            (* what write_to_dir puts into <locale>.json *)

Definition index_locale (g : group) : unit_out :=
  let (g', ix) := index_group g ix_empty in
  let strings := ix_acc ix in
  let count := N.of_nat (length strings) in
  mk_out (set_counts count g') strings count (format strings).

(** ** Readers *)
(** `index_translations::<N, I>(&[&str; N])`: the table must have exactly N elements (type
    check of the generated code), the result is element I (out of bounds: compile error or panic) *)
Definition read_index (table : list str) (n i : N) : option str :=
  if (N.of_nat (length table) =? n) && (i <? n) then nth_error table (N.to_nat i) else None.
(** `StringArray::cast` for `[Box<str>; N]`: `try_into().unwrap()` *)
Definition cast_ok (received : list str) (n : N) : bool := N.of_nat (length received) =? n.

(** ** Specification (C11)
    Independent description of the input: [plain] lists, for some keys, the path of the key
    and the text the translator wrote there when that text is plain (no interpolation syntax):
    the accessor of that key must read exactly that text.  [nloc] = number of locales. *)
Fixpoint lookup_entry (k : str) (g : group) : option entry :=
  match g with
  | GNil => None
  | GCons k' e r => if str_eqb k k' then Some e else lookup_entry k r
  end.
Fixpoint lookup_path (p : list str) (g : group) {struct p} : option entry :=
  match p with
  | [] => None
  | [k] => lookup_entry k g
  | k :: p' => match lookup_entry k g with Some (ESub _ _ g') => lookup_path p' g' | _ => None end
  end.

(** every string literal the code reads: element [i] of an N-element table is its text *)
Fixpoint lits_ok_pv (table : list str) (n : N) (v : pv) {struct v} : bool :=
  match v with
  | PLit s i => match read_index table n i with Some t => str_eqb t s | None => false end
  | PRanges vs => lits_ok_pvs table n vs
  | PComp inner => lits_ok_pv table n inner
  | PPlurals fs o => lits_ok_pvs table n fs && lits_ok_pv table n o
  | PBloc vs => lits_ok_pvs table n vs
  | PDefault | PForeign | PVar | PSubV | PLitOther _ => true
  end
with lits_ok_pvs (table : list str) (n : N) (vs : pvs) {struct vs} : bool :=
  match vs with
  | PNil => true
  | PCons v r => lits_ok_pv table n v && lits_ok_pvs table n r
  end.
(** ... in every group, where nested locales must carry the top locale's N (and there is one
    nested locale per top locale) *)
Fixpoint lits_ok (table : list str) (n nloc : N) (g : group) {struct g} : bool :=
  match g with
  | GNil => true
  | GCons _ e r => lits_ok_e table n nloc e && lits_ok table n nloc r
  end
with lits_ok_e (table : list str) (n nloc : N) (e : entry) {struct e} : bool :=
  match e with
  | EVal v => lits_ok_pv table n v
  | ESub c nl g => (c =? n) && (nl =? nloc) && lits_ok table n nloc g
  end.

Definition plain_ok_one (table : list str) (n : N) (g : group) (pt : list str * str) : bool :=
  match lookup_path (fst pt) g with
  | Some (EVal (PLit s i)) =>
      str_eqb s (snd pt) && match read_index table n i with Some t => str_eqb t (snd pt) | None => false end
  | _ => false
  end.

Definition spec_C11 (plain : list (list str * str)) (nloc : N) (o : unit_out) : bool :=
  lits_ok (o_strings o) (o_count o) nloc (o_tree o)
  && forallb (plain_ok_one (o_strings o) (o_count o) (o_tree o)) plain
  && cast_ok (o_strings o) (o_count o)
  && spec_file (o_strings o) (o_file o).

(** the same plain texts, stated on the input tree (hypothesis of the theorem) *)
Definition plain_in (g : group) (pt : list str * str) : bool :=
  match lookup_path (fst pt) g with
  | Some (EVal (PLit s _)) => str_eqb s (snd pt)
  | _ => false
  end.
(** nested locales: one per top locale (established by `merge` pushing exactly one per locale) *)
Fixpoint nloc_ok (nloc : N) (g : group) {struct g} : bool :=
  match g with
  | GNil => true
  | GCons _ e r => nloc_ok_e nloc e && nloc_ok nloc r
  end
with nloc_ok_e (nloc : N) (e : entry) {struct e} : bool :=
  match e with
  | EVal _ => true
  | ESub _ nl g => (nl =? nloc) && nloc_ok nloc g
  end.

(** ** Equality of trees (for the correspondence check) *)
Fixpoint pv_eqb (a b : pv) {struct a} : bool :=
  match a, b with
  | PDefault, PDefault | PForeign, PForeign | PVar, PVar | PSubV, PSubV => true
  | PLitOther t, PLitOther u => lit_ty_eqb t u
  | PLit s i, PLit t j => str_eqb s t && (i =? j)
  | PRanges x, PRanges y => pvs_eqb x y
  | PComp x, PComp y => pv_eqb x y
  | PPlurals f o, PPlurals g p => pvs_eqb f g && pv_eqb o p
  | PBloc x, PBloc y => pvs_eqb x y
  | _, _ => false
  end
with pvs_eqb (a b : pvs) {struct a} : bool :=
  match a, b with
  | PNil, PNil => true
  | PCons x xs, PCons y ys => pv_eqb x y && pvs_eqb xs ys
  | _, _ => false
  end.
Fixpoint group_eqb (a b : group) {struct a} : bool :=
  match a, b with
  | GNil, GNil => true
  | GCons k e r, GCons k' e' r' => str_eqb k k' && entry_eqb e e' && group_eqb r r'
  | _, _ => false
  end
with entry_eqb (a b : entry) {struct a} : bool :=
  match a, b with
  | EVal x, EVal y => pv_eqb x y
  | ESub c n g, ESub c' n' g' => (c =? c') && (n =? n') && group_eqb g g'
  | _, _ => false
  end.
