(** Model of `DefaultedLocales` (leptos_i18n_parser/src/parse_locales/locale.rs) — property C09, termination of the walk the code
    generator performs for every key:
      default_of_inner  `while let Some(key) = mapping.get(current) { visited.insert(current); if visited.contains(key) { return
                         default_locale }; current = key }; current`
      default_of        the same with a fresh visited set
      compute           for every key of the mapping, the locale it defaults to (grouped by target in the code)
    [mapping] is the per-key table  locale -> locale it takes the value from  (`inherits` entry, or the default locale), an
    association list read with first-match [assoc] (the BTreeMap has unique keys; uniqueness is not needed by any result).
    The while loop is given fuel; [OutOfFuel] is what a non-terminating loop would look like.  No proofs in this file. *)
From Coq Require Import List NArith Bool.
Import ListNotations.
From LI Require Import Base.StrOps.

Definition mapping := list (str * str).

Fixpoint assoc (k : str) (m : mapping) : option str :=
  match m with
  | [] => None
  | (k', v) :: r => if str_eqb k k' then Some v else assoc k r
  end.
Definition mem (k : str) (l : list str) : bool := existsb (str_eqb k) l.

Inductive dres := Found (l : str) | OutOfFuel.

Fixpoint default_of_inner (fuel : nat) (m : mapping) (dflt : str) (visited : list str) (cur : str) : dres :=
  match fuel with
  | O => OutOfFuel
  | S f =>
      match assoc cur m with
      | None => Found cur
      | Some k =>
          let visited' := cur :: visited in
          if mem k visited' then Found dflt else default_of_inner f m dflt visited' k
      end
  end.

(** one more than the number of entries always suffices (C09_default_of_terminates) *)
Definition default_of (m : mapping) (dflt start : str) : dres := default_of_inner (S (length m)) m dflt [] start.

(** compute(): for every key of the mapping where it ends up (the code groups the keys by that target) *)
Definition compute (m : mapping) (dflt : str) : list (str * dres) := map (fun kv => (fst kv, default_of m dflt (fst kv))) m.

(** the seeded variant in which only the STARTING locale is ever recorded as visited: a chain that runs into a loop which
    does not contain its start never leaves the loop *)
Fixpoint default_of_inner_start_only (fuel : nat) (m : mapping) (dflt start cur : str) : dres :=
  match fuel with
  | O => OutOfFuel
  | S f =>
      match assoc cur m with
      | None => Found cur
      | Some k => if str_eqb k start then Found dflt else default_of_inner_start_only f m dflt start k
      end
  end.

(** * Specification, independent of the visited set: follow the table; if a locale without entry is reached that is the
    answer, if none is reached within [length m + 1] steps the walk is caught in a loop and the answer is the default locale *)
Fixpoint walk_plain (fuel : nat) (m : mapping) (cur : str) : option str :=
  match fuel with
  | O => None
  | S f => match assoc cur m with None => Some cur | Some k => walk_plain f m k end
  end.
Definition spec_default_of (m : mapping) (dflt start r : str) : bool :=
  match walk_plain (S (length m)) m start with
  | Some t => str_eqb r t
  | None => str_eqb r dflt
  end.
