(** Round trip of the documented value grammar, part 4: the variable finder on printed sources and
    the main theorem (property C01). *)
From Coq Require Import List NArith ZArith Bool Arith Lia.
Import ListNotations.
From LI Require Import Base.StrOps Base.StrLemmas Parser.Parse Parser.Reduce Parser.Source Parser.Scan
  Parser.RoundTrip1 Parser.RoundTrip2 Parser.RoundTrip3.
Open Scope N_scope.
Local Notation item := Source.item.
Ltac slia := unfold str, char in *; lia.

Section RT.
Variable idc : str -> idres.
Variable json_args : str -> res (list (str * jarg)).
Notation item_wfb := (item_wfb idc).
Notation items_wfb := (items_wfb idc).
Notation name_wf := (name_wf idc).

Definition fmt_of (fm : option (str * str * fmt)) : fmt := match fm with Some (_, _, f) => f | None => FNone end.

Lemma var_prefix_nonws : Forall (fun c => is_ws c = false) s_var_.
Proof. repeat constructor. Qed.

Lemma last_nonws_spec t : last_nonws t = true -> exists m c, t = m ++ [c] /\ is_ws c = false.
Proof.
  unfold last_nonws. destruct (rev t) as [|c r] eqn:E; [discriminate|]. intros H.
  exists (rev r), c. split.
  - rewrite <- (rev_involutive t), E. reflexivity.
  - destruct (is_ws c); [discriminate | reflexivity].
Qed.

Lemma find_variable_printed (new : str -> res pv) pre w1 n w2 fm rest :
  items_wfb pre = true ->
  forallb (fun x => negb (is_comp x)) pre = true -> forallb (fun x => negb (is_var x)) pre = true ->
  item_wfb (SVar w1 n w2 fm) = true ->
  find_variable idc new (print_list (pre ++ SVar w1 n w2 fm :: rest))
  = bind (new (print_list pre)) (fun b => bind (new (print_list rest)) (fun a =>
      Ok (Some (PBloc [b; PVar (s_var_ ++ n) (fmt_of fm); a])))).
Proof.
  intros Hpre Hnc Hnv Hv.
  pose proof Hv as Hv0. cbn [RoundTrip2.item_wfb] in Hv.
  apply andb_true_iff in Hv as [Hv Hfm]. apply andb_true_iff in Hv as [Hv Hname]. apply andb_true_iff in Hv as [Hw1 Hw2].
  pose proof (name_ok_of_wf idc _ _ Hname) as Hnok.
  destruct (name_wf_parts idc _ _ Hname) as (Hne & Hnc' & _).
  pose proof (namech_forall_nonws n Hnc') as Hnws.
  destruct (name_first_last n Hne Hnws) as [(c1 & m1 & En1 & Hc1) (m2 & c2 & En2 & Hc2)].
  assert (A1 : all_ws w1) by (apply wsb_all_ws; assumption).
  assert (A2 : all_ws w2) by (apply wsb_all_ws; assumption).
  set (fmpart := match fm with Some (t, w3, _) => c_comma :: t ++ w3 | None => [] end).
  set (body := w1 ++ n ++ w2 ++ fmpart).
  assert (Ev : print_list (pre ++ SVar w1 n w2 fm :: rest)
               = print_list pre ++ c_lb :: c_lb :: (body ++ c_rb :: c_rb :: print_list rest)).
  { rewrite print_list_app, print_list_cons. cbn [print]. fold fmpart. unfold s_open_var, s_close_var, body.
    cbn [app]. rewrite <- !app_assoc. cbn [app]. reflexivity. }
  rewrite Ev. unfold find_variable.
  change s_open_var with [c_lb; c_lb]. change s_close_var with [c_rb; c_rb].
  rewrite split_once_first2 by (apply texts_no_lb with (idc := idc); assumption).
  assert (Hbody : no_char c_rb body).
  { pose proof (var_no_char idc c_rb w1 n w2 fm) as Hx. unfold body.
    apply no_char_app; [eapply forallb_no_char; [exact Hw1 | reflexivity]|].
    apply no_char_app; [eapply forallb_no_char; [exact Hnc' | reflexivity]|].
    apply no_char_app; [eapply forallb_no_char; [exact Hw2 | reflexivity]|].
    unfold fmpart. destruct fm as [[[t w3] f]|]; [|apply no_char_nil].
    unfold fmt_wf in Hfm. apply andb_true_iff in Hfm as [Hfm _]. apply andb_true_iff in Hfm as [Hfm _].
    apply andb_true_iff in Hfm as [Ht Hw3].
    apply no_char_cons; [intro E; vm_compute in E; discriminate|].
    apply no_char_app; [eapply forallb_no_char; [exact Ht | reflexivity] | eapply forallb_no_char; [exact Hw3 | reflexivity]]. }
  rewrite split_once_first2 by exact Hbody.
  cbv zeta.
  destruct (new (print_list pre)) as [vb| | | |]; cbn [bind]; try reflexivity.
  destruct (new (print_list rest)) as [va| | | |]; cbn [bind]; try reflexivity.
  unfold body, fmpart. destruct fm as [[[t w3] f]|].
  - (* with a formatter *)
    unfold fmt_wf in Hfm. apply andb_true_iff in Hfm as [Hfm Hpf]. apply andb_true_iff in Hfm as [Hfm Hlast].
    apply andb_true_iff in Hfm as [Ht Hw3].
    destruct (last_nonws_spec t Hlast) as (mt & ct & Et & Hct).
    assert (Etrim : trim (w1 ++ n ++ w2 ++ c_comma :: t ++ w3) = n ++ w2 ++ c_comma :: t).
    { replace (w1 ++ n ++ w2 ++ c_comma :: t ++ w3) with (w1 ++ (n ++ w2 ++ c_comma :: t) ++ w3)
        by (rewrite <- ?app_assoc; cbn [app]; rewrite <- ?app_assoc; reflexivity).
      eapply trim_padded with (c := c1) (m := m1 ++ w2 ++ c_comma :: t) (m' := n ++ w2 ++ c_comma :: mt) (c' := ct).
      - exact A1.
      - apply wsb_all_ws; exact Hw3.
      - rewrite En1. reflexivity.
      - exact Hc1.
      - rewrite Et. rewrite <- ?app_assoc. cbn [app]. rewrite <- ?app_assoc. reflexivity.
      - exact Hct. }
    rewrite Etrim.
    replace (n ++ w2 ++ c_comma :: t) with ((n ++ w2) ++ c_comma :: t) by (rewrite <- app_assoc; reflexivity).
    rewrite split_once_c_first.
    2:{ apply no_char_app; [eapply forallb_no_char; [exact Hnc' | reflexivity] | eapply forallb_no_char; [exact Hw2 | reflexivity]]. }
    destruct (parse_formatter t) as [f'| | | |]; try discriminate. apply fmt_eqb_eq in Hpf. subst f'.
    cbn [bind].
    assert (Etn : trim (n ++ w2) = n).
    { pose proof (trim_name_padded [] n w2 (Forall_nil _) A2 Hnok) as T. cbn [app] in T. exact T. }
    rewrite Etn. rewrite (key_new_wf idc s_var_ n) by (try discriminate; try assumption; apply var_prefix_nonws).
    reflexivity.
  - (* no formatter *)
    rewrite app_nil_r. rewrite trim_name_padded by assumption.
    rewrite split_once_c_none by (eapply forallb_no_char; [exact Hnc' | reflexivity]).
    rewrite (key_new_wf idc s_var_ n) by (try discriminate; try assumption; apply var_prefix_nonws).
    reflexivity.
Qed.
End RT.
