(** ParsedValue::new never panics and terminates (property C09, string level):
    for every string, every identifier oracle and every JSON oracle that itself
    neither panics nor returns strings longer than its input, [parse_top] returns
    [Ok], [Err] or [Unmodelled] - never [Panic], never [OutOfFuel]. *)
From Coq Require Import List NArith ZArith Bool Arith Lia.
Import ListNotations.
From LI Require Import Base.StrOps Base.StrLemmas Parser.Parse.
Open Scope N_scope.

Ltac slia := unfold str, char in *; lia.

Definition safe {A} (r : res A) : Prop := match r with Panic _ | OutOfFuel => False | _ => True end.

Lemma safe_bind {A B} (r : res A) (f : A -> res B) :
  safe r -> (forall a, r = Ok a -> safe (f a)) -> safe (bind r f).
Proof. destruct r; cbn; intros H1 H2; try exact I; try contradiction. apply H2. reflexivity. Qed.

(** [x] is a character boundary of [whole] *)
Definition bnd (whole : str) (x : nat) : Prop := exists a b, whole = a ++ b /\ blen a = x.
Lemma bnd_take whole x : bnd whole x -> exists a, take_bytes whole x = Some a /\ (length a <= length whole)%nat.
Proof. intros (a & b & -> & <-). exists a. split; [apply take_bytes_app | rewrite app_length; slia]. Qed.
Lemma bnd_drop whole x : bnd whole x -> exists b, drop_bytes whole x = Some b /\ (length b <= length whole)%nat.
Proof. intros (a & b & -> & <-). exists b. split; [apply drop_bytes_app | rewrite app_length; slia]. Qed.

Definition best_ok (whole : str) (best : option (nat * nat)) : Prop :=
  match best with None => True | Some (st, en) => bnd whole st /\ bnd whole en end.

(** every offset the closing-tag scan records is a character boundary *)
Lemma scan_bnd key : forall s pre depth best,
  best_ok (pre ++ s) best -> best_ok (pre ++ s) (scan_gen true key s (blen pre) depth best).
Proof.
  induction s as [|c r IH]; intros pre depth best Hb; cbn [scan_gen]; [exact Hb|].
  assert (Hnext : forall d b, best_ok (pre ++ c :: r) b ->
            best_ok (pre ++ c :: r) (scan_gen true key r (blen pre + len_utf8 c) d b)).
  { intros d b Hbb. replace (pre ++ c :: r) with ((pre ++ [c]) ++ r) in * by (rewrite <- app_assoc; reflexivity).
    replace (blen pre + len_utf8 c)%nat with (blen (pre ++ [c])) by (rewrite blen_app; cbn [blen]; slia).
    apply IH. exact Hbb. }
  destruct (c =? c_lt) eqn:Ec; [|apply Hnext; exact Hb].
  destruct (split_once_c c_gt r) as [[ident_raw rest]|] eqn:Es; [|apply Hnext; exact Hb].
  destruct (strip_prefix [c_slash] (trim ident_raw)) as [cl|].
  - destruct (str_eqb (trim_start cl) key); [|apply Hnext; exact Hb].
    destruct (depth =? 0)%nat; [|apply Hnext; exact Hb].
    apply Hnext. cbn [best_ok]. apply split_once_c_spec in Es. subst r. split.
    + exists pre, (c :: ident_raw ++ c_gt :: rest). split; reflexivity.
    + exists (pre ++ c :: ident_raw ++ [c_gt]), rest. split.
      * rewrite <- app_assoc. cbn [app]. rewrite <- app_assoc. reflexivity.
      * rewrite blen_app. cbn [blen]. rewrite blen_app. cbn [blen].
        apply N.eqb_eq in Ec. subst c. cbn. slia.
  - destruct (str_eqb (trim ident_raw) key); apply Hnext; exact Hb.
Qed.

Section Total.
Variable idc : str -> idres.
Variable json_args : str -> res (list (str * jarg)).
Hypothesis json_safe : forall s, safe (json_args s).
Hypothesis json_shorter : forall s l k a, json_args s = Ok l -> In (k, JString a) l -> (length a < length s)%nat.

Notation key_new := (key_new idc).
Notation find_closing_tag := (find_closing_tag idc true).
Notation find_valid_component := (find_valid_component idc true).

Lemma key_new_safe n : safe (key_new n).
Proof. unfold Parse.key_new. destruct (idc _); exact I. Qed.
Lemma keys_all_safe l : safe (keys_all idc l).
Proof.
  induction l as [|k t IH]; cbn [keys_all]; [exact I|].
  apply safe_bind; [apply key_new_safe|]. intros [k'|] _; [|exact I].
  apply safe_bind; [exact IH|]. intros [t'|] _; exact I.
Qed.
Lemma parse_key_path_safe p : safe (parse_key_path idc p).
Proof.
  unfold parse_key_path. destruct (split_once_c c_colon p) as [[ns rest]|].
  - apply safe_bind; [apply key_new_safe|]. intros [ns'|] _; [|exact I].
    apply safe_bind; [apply keys_all_safe|]. intros [l|] _; exact I.
  - apply safe_bind; [apply keys_all_safe|]. intros [l|] _; exact I.
Qed.

(** find_closing_tag: safe, and the two slices are no longer than the text scanned *)
Lemma find_closing_tag_safe value key :
  safe (find_closing_tag value key) /\
  forall k b a, find_closing_tag value key = Ok (Some (k, b, a)) ->
    (length b <= length value)%nat /\ (length a <= length value)%nat.
Proof.
  unfold Parse.find_closing_tag. pose proof (key_new_safe (s_comp_ ++ key)) as Hk.
  destruct (key_new (s_comp_ ++ key)) as [[k|]| | | |] eqn:Ek; cbn [bind]; try (exfalso; exact Hk);
    try (split; [exact I | intros; discriminate]).
  pose proof (scan_bnd key value [] 0%nat None I) as Hs. cbn [app blen] in Hs.
  destruct (scan_gen true key value 0 0 None) as [[st en]|]; [|split; [exact I | intros; discriminate]].
  destruct Hs as [H1 H2].
  destruct (bnd_take _ _ H1) as [b [Tb Lb]]. destruct (bnd_drop _ _ H2) as [a [Da La]].
  rewrite Tb, Da. split; [exact I|]. intros k0 b0 a0 E. inversion E; subst. split; assumption.
Qed.

Lemma find_opening_tag_spec v before key after skip :
  find_opening_tag v = Some (before, key, after, skip) ->
  exists ident, v = before ++ c_lt :: ident ++ c_gt :: after /\ skip = blen (before ++ c_lt :: ident ++ [c_gt])
                /\ key = trim ident.
Proof.
  unfold find_opening_tag. destruct (split_once_c c_lt v) as [[bf rest]|] eqn:E1; [|discriminate].
  destruct (split_once_c c_gt rest) as [[ident aft]|] eqn:E2; [|discriminate].
  intros H; inversion H; subst. apply split_once_c_spec in E1, E2. subst. exists ident.
  split; [reflexivity|]. split; [|reflexivity].
  rewrite blen_app. cbn [blen]. rewrite blen_app. cbn [blen]. cbn. slia.
Qed.

Lemma find_valid_component_safe : forall fuel value pre v,
  value = pre ++ v -> (length v < fuel)%nat ->
  safe (find_valid_component fuel value (blen pre)) /\
  forall k b m a, find_valid_component fuel value (blen pre) = Ok (Some (k, b, m, a)) ->
    (length b < length value)%nat /\ (length m < length value)%nat /\ (length a < length value)%nat.
Proof.
  induction fuel as [|fuel IH]; intros value pre v Hv Hf; [slia|].
  cbn [Parse.find_valid_component]. subst value. rewrite drop_bytes_app.
  destruct (find_opening_tag v) as [[[[before key] after] skip]|] eqn:Eo; [|split; [exact I | intros; discriminate]].
  destruct (find_opening_tag_spec _ _ _ _ _ Eo) as (ident & Ev & Es & _).
  destruct (find_closing_tag_safe after key) as [Hsafe Hlen].
  destruct (find_closing_tag after key) as [[[[k between] after']|]| | | |] eqn:Ec; cbn [bind];
    try (split; [exact I | intros; discriminate]); try contradiction.
  - (* found *)
    replace (blen pre + blen before)%nat with (blen (pre ++ before)) by apply blen_app.
    assert (Ew : pre ++ v = (pre ++ before) ++ c_lt :: ident ++ c_gt :: after) by (rewrite Ev, <- app_assoc; reflexivity).
    rewrite Ew. rewrite take_bytes_app. split; [exact I|].
    intros k0 b m a E. inversion E; subst.
    destruct (Hlen _ _ _ eq_refl) as [L1 L2].
    rewrite !app_length. cbn [length]. rewrite !app_length. cbn [length]. clear - L1 L2. slia.
  - (* not closed: skip this tag *)
    subst skip.
    replace (blen pre + blen (before ++ c_lt :: ident ++ [c_gt]))%nat with (blen (pre ++ before ++ c_lt :: ident ++ [c_gt]))
      by (rewrite (blen_app pre); reflexivity).
    assert (Ew : pre ++ v = (pre ++ before ++ c_lt :: ident ++ [c_gt]) ++ after).
    { rewrite Ev. rewrite <- !app_assoc. cbn [app]. rewrite <- !app_assoc. reflexivity. }
    rewrite Ew. apply (IH _ _ after eq_refl).
    rewrite Ev in Hf. rewrite !app_length in Hf. cbn [length] in Hf. rewrite !app_length in Hf. cbn [length] in Hf. slia.
Qed.

(** brace scan: the index, when there is one, is the offset of a '}' *)
Lemma brace_scan_spec : forall s pre depth i,
  brace_scan s (blen pre) depth = Ok (Some i) ->
  exists a b, pre ++ s = a ++ c_rb :: b /\ blen a = i.
Proof.
  induction s as [|c r IH]; intros pre depth i H; cbn [brace_scan] in H; [discriminate|].
  assert (Hn : forall d, brace_scan r (blen pre + len_utf8 c) d = Ok (Some i) ->
               exists a b, pre ++ c :: r = a ++ c_rb :: b /\ blen a = i).
  { intros d Hd. replace (blen pre + len_utf8 c)%nat with (blen (pre ++ [c])) in Hd by (rewrite blen_app; cbn [blen]; slia).
    apply IH in Hd. replace (pre ++ c :: r) with ((pre ++ [c]) ++ r) by (rewrite <- app_assoc; reflexivity). exact Hd. }
  destruct (c =? c_lb); [eapply Hn; exact H|].
  destruct (c =? c_rb) eqn:Er; [|eapply Hn; exact H].
  destruct depth as [|d]; [discriminate|].
  destruct (d =? 0)%nat; [|eapply Hn; exact H].
  inversion H; subst. apply N.eqb_eq in Er. subst c. exists pre, r. split; reflexivity.
Qed.
Lemma brace_scan_safe : forall s pos depth, safe (brace_scan s pos depth).
Proof.
  induction s as [|c r IH]; intros pos depth; cbn [brace_scan]; [exact I|].
  destruct (c =? c_lb); [apply IH|]. destruct (c =? c_rb); [|apply IH].
  destruct depth as [|d]; [exact I|]. destruct (d =? 0)%nat; [exact I | apply IH].
Qed.

Section Step.
Variable new : str -> res pv.
Variable bound : nat.
Hypothesis new_safe : forall s, (length s < bound)%nat -> safe (new s).

Lemma args_inner_safe before : (length before <= bound)%nat -> safe (args_inner json_args new before).
Proof.
  intros Hb. unfold args_inner. pose proof (json_safe before) as Hj. pose proof (json_shorter before) as Hs.
  destruct (json_args before) as [l| | | |]; try exact I; try contradiction.
  assert (Hs' : forall k a, In (k, JString a) l -> (length a < length before)%nat)
    by (intros k a Hin; exact (Hs l k a eq_refl Hin)).
  clear Hj Hs.
  assert (G : forall acc, safe acc ->
     safe (fold_left (fun acc '(k, a) => bind acc (fun m =>
              bind (match a with JString s => new s | JLit l => Ok (PLit l) end) (fun v =>
              Ok (map_insert (s_var_ ++ trim k) v m)))) l acc)).
  { induction l as [|[k a] t IHl]; intros acc Ha; cbn [fold_left]; [exact Ha|].
    apply IHl.
    - intros k0 a0 Hin. apply (Hs' k0 a0). right; exact Hin.
    - apply safe_bind; [exact Ha|]. intros m _. apply safe_bind.
      + destruct a as [s|lt]; [|exact I]. apply new_safe. specialize (Hs' k s (or_introl eq_refl)). slia.
      + intros v _. exact I. }
  apply G. exact I.
Qed.

Lemma fk_args_safe s : (length s <= bound)%nat ->
  safe (fk_args json_args true new s) /\
  forall a r, fk_args json_args true new s = Ok (a, r) -> (length r < length s)%nat.
Proof.
  intros Hb. unfold fk_args.
  pose proof (brace_scan_safe s 0 0) as Hbs.
  destruct (brace_scan s 0 0) as [[i|]| | | |] eqn:Eb; cbn [bind]; try (split; [exact I | intros; discriminate]); try contradiction.
  destruct (brace_scan_spec s [] 0%nat i Eb) as (a & b & Es & Hi). cbn [app] in Es.
  replace (i + 1)%nat with (blen (a ++ [c_rb])) by (rewrite blen_app; cbn; slia).
  assert (Ew : s = (a ++ [c_rb]) ++ b) by (rewrite Es, <- app_assoc; reflexivity).
  assert (Tb : take_bytes s (blen (a ++ [c_rb])) = Some (a ++ [c_rb])) by (rewrite Ew; apply take_bytes_app).
  assert (Db : drop_bytes s (blen (a ++ [c_rb])) = Some b) by (rewrite Ew; apply drop_bytes_app).
  rewrite Tb, Db.
  destruct (strip_prefix [c_rp] (trim_start b)) as [after'|] eqn:Ep; [|split; [exact I | intros; discriminate]].
  assert (La : (length after' < length s)%nat).
  { apply strip_prefix_spec in Ep. pose proof (trim_start_length b) as Lt. rewrite Ep in Lt. cbn [app length] in Lt.
    rewrite Ew, !app_length. cbn [length]. slia. }
  assert (Hs : safe (args_inner json_args new (a ++ [c_rb]))).
  { apply args_inner_safe. rewrite Ew in Hb. rewrite app_length in Hb. slia. }
  destruct (args_inner json_args new (a ++ [c_rb])) as [m| | | |]; cbn [bind]; try (split; [exact I | intros; discriminate]); try contradiction.
  split; [exact I|]. intros a0 r E. inversion E; subst. exact La.
Qed.

Lemma find_foreign_key_safe value : (length value <= bound)%nat -> safe (find_foreign_key idc json_args true new value).
Proof.
  intros Hb. unfold find_foreign_key.
  destruct (split_once s_fk value) as [[before rest]|] eqn:E1; [|exact I].
  apply split_once_spec in E1.
  destruct (find_idx _ rest) as [ns|] eqn:E2; [|exact I].
  destruct (take_bytes rest ns) as [keypath|] eqn:E3; [|exact I].
  destruct (drop_bytes rest ns) as [[|sep after]|] eqn:E4; try exact I.
  apply drop_bytes_spec in E4 as (pa & Er & _).
  assert (Lb : (length before < length value)%nat) by (rewrite E1, !app_length; cbn; slia).
  assert (La : (length after < length value)%nat) by (rewrite E1, Er; repeat (rewrite app_length; cbn [length]); cbn; slia).
  apply safe_bind; [apply parse_key_path_safe|]. intros [[nsp path]|] _; [|exact I].
  apply safe_bind.
  - destruct (sep =? c_comma); [|exact I]. apply fk_args_safe. slia.
  - intros [args after'] Ea. apply safe_bind; [apply new_safe; slia|]. intros b _.
    apply safe_bind; [|intros; exact I]. apply new_safe.
    destruct (sep =? c_comma).
    + destruct (fk_args_safe after ltac:(slia)) as [_ Hl]. specialize (Hl _ _ Ea). slia.
    + inversion Ea; subst. slia.
Qed.

Lemma find_component_safe value : (length value <= bound)%nat -> safe (find_component idc true new value).
Proof.
  intros Hb. unfold find_component.
  destruct (find_valid_component_safe (S (length value)) value [] value eq_refl ltac:(slia)) as [Hs Hl]. cbn [blen] in Hs, Hl.
  apply safe_bind; [exact Hs|]. intros [[[[k before] between] after]|] E; [|exact I].
  destruct (Hl _ _ _ _ E) as (L1 & L2 & L3).
  apply safe_bind; [apply new_safe; slia|]. intros b _.
  apply safe_bind; [apply new_safe; slia|]. intros m _.
  apply safe_bind; [apply new_safe; slia|]. intros a _. exact I.
Qed.

Lemma parse_formatter_safe f : safe (parse_formatter f).
Proof. unfold parse_formatter. destruct (parse_formatter_args f) as [name args]. destruct (formatter_of name args); exact I. Qed.

Lemma find_variable_safe value : (length value <= bound)%nat -> safe (find_variable idc new value).
Proof.
  intros Hb. unfold find_variable.
  destruct (split_once s_open_var value) as [[before rest]|] eqn:E1; [|exact I].
  destruct (split_once s_close_var rest) as [[ident0 after]|] eqn:E2; [|exact I].
  apply split_once_spec in E1, E2.
  assert (Lb : (length before < length value)%nat) by (rewrite E1, !app_length; cbn; slia).
  assert (La : (length after < length value)%nat) by (rewrite E1, E2; repeat (rewrite app_length; cbn [length]); cbn; slia).
  apply safe_bind; [apply new_safe; slia|]. intros b _.
  apply safe_bind; [apply new_safe; slia|]. intros a _.
  destruct (split_once_c c_comma (trim ident0)) as [[id f]|].
  - apply safe_bind; [apply parse_formatter_safe|]. intros fm _.
    apply safe_bind; [apply key_new_safe|]. intros [k|] _; exact I.
  - apply safe_bind; [apply key_new_safe|]. intros [k|] _; exact I.
Qed.

Lemma parse_chain_safe value : (length value <= bound)%nat -> safe (parse_chain idc json_args true new value).
Proof.
  intros Hb. unfold parse_chain.
  apply safe_bind; [apply find_foreign_key_safe; exact Hb|]. intros [v|] _; [exact I|].
  apply safe_bind; [apply find_component_safe; exact Hb|]. intros [v|] _; [exact I|].
  apply safe_bind; [apply find_variable_safe; exact Hb|]. intros [v|] _; exact I.
Qed.

Lemma comp_first_safe value : safe (comp_first idc true value).
Proof.
  unfold comp_first. destruct (split_once s_fk value) as [[fkb rest]|]; [|exact I].
  destruct (find_valid_component_safe (S (length value)) value [] value eq_refl ltac:(slia)) as [Hs _]. cbn [blen] in Hs.
  apply safe_bind; [exact Hs|]. intros vc _. exact I.
Qed.

Lemma parse_step_safe value : (length value <= bound)%nat -> safe (parse_step idc json_args true new value).
Proof.
  intros Hb. unfold parse_step.
  apply safe_bind; [apply comp_first_safe|]. intros [|] _; [|apply parse_chain_safe; exact Hb].
  apply safe_bind; [apply find_component_safe; exact Hb|]. intros [v|] _; [exact I | apply parse_chain_safe; exact Hb].
Qed.
End Step.

Theorem parse_safe : forall fuel value, (length value < fuel)%nat -> safe (parse idc json_args true fuel value).
Proof.
  induction fuel as [|fuel IH]; intros value Hl; [slia|].
  cbn [parse]. apply (parse_step_safe (parse idc json_args true fuel) (length value)); [|slia].
  intros s Hs. apply IH. slia.
Qed.

Theorem parse_top_safe value : safe (parse_top idc json_args true value).
Proof. unfold parse_top. apply parse_safe. slia. Qed.
End Total.
