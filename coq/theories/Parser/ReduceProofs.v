(** ParsedValue::reduce preserves the denotation of a value (property C01). *)
From Coq Require Import List NArith ZArith Bool Arith Lia.
Import ListNotations.
From LI Require Import Base.StrOps Base.StrLemmas Parser.Parse Parser.Reduce Parser.Source Parser.RoundTrip1.
Open Scope N_scope.

Fixpoint no_foreign (v : pv) : bool :=
  match v with
  | PLit _ | PVar _ _ => true
  | PComp _ i => no_foreign i
  | PBloc l => forallb no_foreign l
  | PForeign _ _ _ => false
  end.

Section PvInd.
Variable P : pv -> Prop.
Hypothesis HL : forall l, P (PLit l).
Hypothesis HV : forall k f, P (PVar k f).
Hypothesis HC : forall k i, P i -> P (PComp k i).
Hypothesis HB : forall l, Forall P l -> P (PBloc l).
Hypothesis HF : forall ns p args, P (PForeign ns p args).
Fixpoint pv_ind2 (v : pv) : P v :=
  match v with
  | PLit l => HL l
  | PVar k f => HV k f
  | PComp k i => HC k i (pv_ind2 i)
  | PBloc l => HB l ((fix go (l : list pv) : Forall P l :=
                        match l with [] => Forall_nil P | x :: r => Forall_cons x (pv_ind2 x) (go r) end) l)
  | PForeign ns p args => HF ns p args
  end.
End PvInd.

Definition seq_pieces (l : list pv) : list piece := flat_map pieces_raw l.

(** what [reduce] and [reduce_into] guarantee for one value *)
Definition red_ok (v : pv) : Prop :=
  no_foreign v = true ->
  (exists r, reduce v = Ok r /\ pc_norm (pieces_raw r) = pc_norm (pieces_raw v) /\ no_foreign r = true) /\
  (forall racc, forallb no_foreign racc = true ->
     exists racc', reduce_into v racc = Ok racc'
       /\ pc_norm (seq_pieces (rev racc')) = pc_norm (seq_pieces (rev racc) ++ pieces_raw v)
       /\ forallb no_foreign racc' = true).

Definition go_into := fix go (l : list pv) (racc : list pv) : res (list pv) :=
  match l with [] => Ok racc | x :: r => bind (reduce_into x racc) (go r) end.

Lemma seq_pieces_app a b : seq_pieces (a ++ b) = seq_pieces a ++ seq_pieces b.
Proof. unfold seq_pieces. apply flat_map_app. Qed.

Lemma go_into_ok l : Forall red_ok l -> forallb no_foreign l = true ->
  forall racc, forallb no_foreign racc = true ->
  exists racc', go_into l racc = Ok racc'
    /\ pc_norm (seq_pieces (rev racc')) = pc_norm (seq_pieces (rev racc) ++ seq_pieces l)
    /\ forallb no_foreign racc' = true.
Proof.
  induction 1 as [|x r Hx Hr IH]; intros Hnf racc Hacc.
  - exists racc. cbn [go_into seq_pieces flat_map]. rewrite app_nil_r. auto.
  - cbn [forallb] in Hnf. apply andb_true_iff in Hnf as [Hnx Hnr].
    destruct (Hx Hnx) as [_ Hinto]. destruct (Hinto racc Hacc) as (r1 & E1 & P1 & N1).
    destruct (IH Hnr r1 N1) as (r2 & E2 & P2 & N2).
    exists r2. cbn [go_into]. rewrite E1. cbn [bind]. split; [exact E2|]. split; [|exact N2].
    rewrite P2. cbn [seq_pieces flat_map]. fold (seq_pieces r). rewrite app_assoc.
    apply pc_norm_congr; [exact P1 | reflexivity].
Qed.

Lemma collapse_pieces racc : pc_norm (pieces_raw (collapse racc)) = pc_norm (seq_pieces (rev racc)).
Proof.
  destruct racc as [|a [|b t]]; cbn [collapse].
  - reflexivity.
  - cbn [rev app seq_pieces flat_map]. rewrite app_nil_r. reflexivity.
  - cbn [pieces_raw]. reflexivity.
Qed.
Lemma collapse_no_foreign racc : forallb no_foreign racc = true -> no_foreign (collapse racc) = true.
Proof.
  destruct racc as [|a [|b t]]; cbn [collapse]; intros H.
  - reflexivity.
  - cbn [forallb] in H. apply andb_true_iff in H as [H _]. exact H.
  - cbn [no_foreign]. rewrite forallb_forall in H |- *. intros x Hx. apply H. apply in_rev. exact Hx.
Qed.

Theorem reduce_sound : forall v, red_ok v.
Proof.
  apply pv_ind2.
  - (* literal *)
    intros l _. split; [exists (PLit l); auto|].
    intros racc Hacc. cbn [reduce_into].
    destruct (lit_is_empty_string l) eqn:El.
    + exists racc. destruct l as [[|]| | | |]; try discriminate. split; [reflexivity|]. split; [|exact Hacc].
      cbn [pieces_raw lit_display]. rewrite pc_norm_app. cbn [pc_norm fold_right pc_cons]. fold (pc_norm []).
      cbn [pc_norm fold_right]. rewrite (fold_norm_left [] (seq_pieces (rev racc))). rewrite pc_norm_idem. reflexivity.
    + destruct racc as [|[last| | | |] t].
      * eexists. split; [reflexivity|]. split; [reflexivity | reflexivity].
      * eexists. split; [reflexivity|]. split; [|exact Hacc].
        cbn [rev]. rewrite !seq_pieces_app. cbn [seq_pieces flat_map pieces_raw]. rewrite !app_nil_r.
        rewrite <- app_assoc. apply pc_norm_congr; [reflexivity|].
        unfold lit_join. cbn [lit_display app].
        change [PcText (lit_display last); PcText (lit_display l)] with (map PcText [lit_display last; lit_display l]).
        rewrite pc_norm_texts. cbn [concat]. rewrite app_nil_r. reflexivity.
      * eexists. split; [reflexivity|]. split; [|cbn [forallb]; cbn [forallb] in Hacc; exact Hacc].
        cbn [rev]. rewrite !seq_pieces_app. cbn [seq_pieces flat_map]. rewrite !app_nil_r. reflexivity.
      * eexists. split; [reflexivity|]. split; [|cbn [forallb]; cbn [forallb] in Hacc; exact Hacc].
        cbn [rev]. rewrite !seq_pieces_app. cbn [seq_pieces flat_map]. rewrite !app_nil_r. reflexivity.
      * eexists. split; [reflexivity|]. split; [|cbn [forallb]; cbn [forallb] in Hacc; exact Hacc].
        cbn [rev]. rewrite !seq_pieces_app. cbn [seq_pieces flat_map]. rewrite !app_nil_r. reflexivity.
      * eexists. split; [reflexivity|]. split; [|cbn [forallb]; cbn [forallb] in Hacc; exact Hacc].
        cbn [rev]. rewrite !seq_pieces_app. cbn [seq_pieces flat_map]. rewrite !app_nil_r. reflexivity.
  - (* variable *)
    intros k f _. split; [exists (PVar k f); auto|].
    intros racc Hacc. eexists. split; [reflexivity|]. split; [|cbn [forallb no_foreign]; exact Hacc].
    cbn [rev]. rewrite seq_pieces_app. cbn [seq_pieces flat_map]. rewrite app_nil_r. reflexivity.
  - (* component *)
    intros k i IHi Hnf. cbn [no_foreign] in Hnf. destruct (IHi Hnf) as [(r & Er & Pr & Nr) _].
    split.
    + exists (PComp k r). cbn [reduce]. rewrite Er. cbn [bind]. split; [reflexivity|]. split; [|exact Nr].
      cbn [pieces_raw]. rewrite Pr. reflexivity.
    + intros racc Hacc. exists (PComp k r :: racc). cbn [reduce_into]. rewrite Er. cbn [bind]. split; [reflexivity|].
      split; [|cbn [forallb no_foreign]; rewrite Nr, Hacc; reflexivity].
      cbn [rev]. rewrite seq_pieces_app. cbn [seq_pieces flat_map pieces_raw]. rewrite app_nil_r, Pr. reflexivity.
  - (* bloc *)
    intros l IHl Hnf. cbn [no_foreign] in Hnf. split.
    + destruct (go_into_ok l IHl Hnf [] eq_refl) as (racc' & E & P & N).
      exists (collapse racc'). cbn [reduce]. fold go_into. rewrite E. cbn [bind]. split; [reflexivity|].
      split; [|apply collapse_no_foreign; exact N].
      rewrite collapse_pieces, P. reflexivity.
    + intros racc Hacc. destruct (go_into_ok l IHl Hnf racc Hacc) as (racc' & E & P & N).
      exists racc'. cbn [reduce_into]. fold go_into. split; [exact E|]. split; [exact P | exact N].
  - intros ns p args Hnf. discriminate.
Qed.

Corollary reduce_pieces v : no_foreign v = true -> exists r, reduce v = Ok r /\ pieces r = pieces v.
Proof. intros H. destruct (reduce_sound v H) as [(r & E & P & _) _]. exists r. split; [exact E | exact P]. Qed.
