(** The documented value grammar as a source AST, its printer (with every whitespace variant the
    grammar allows inside `{{ }}` and tags) and its direct denotation (property C01). *)
From Coq Require Import List NArith ZArith Bool Arith.
Import ListNotations.
From LI Require Import Base.StrOps Parser.Parse Parser.Reduce.
Open Scope N_scope.

Inductive item :=
| SText (s : str)
  (* `{{` w1 name w2 [`,` text w3] `}}`; fmt = the documented meaning of the formatter text *)
| SVar (w1 name w2 : str) (fm : option (str * str * fmt))
  (* `<`w1 name w2`>` kids `<`w0'`/`w1' name w2'`>` *)
| SComp (w1 name w2 : str) (kids : list item) (w0' w1' w2' : str).

Fixpoint print (i : item) : str :=
  match i with
  | SText s => s
  | SVar w1 n w2 fm =>
      s_open_var ++ w1 ++ n ++ w2 ++ (match fm with Some (t, w3, _) => c_comma :: t ++ w3 | None => [] end) ++ s_close_var
  | SComp w1 n w2 kids w0' w1' w2' =>
      (c_lt :: w1 ++ n ++ w2 ++ [c_gt]) ++ concat (map print kids) ++ (c_lt :: w0' ++ c_slash :: w1' ++ n ++ w2' ++ [c_gt])
  end.
Definition print_list (l : list item) : str := concat (map print l).

(** what the source says must be rendered *)
Fixpoint denote (i : item) : piece :=
  match i with
  | SText s => PcText s
  | SVar _ n _ fm => PcVar (s_var_ ++ n) (match fm with Some (_, _, f) => f | None => FNone end)
  | SComp _ n _ kids _ _ _ => PcComp (s_comp_ ++ n) (pc_norm (map denote kids))
  end.
Definition denote_list (l : list item) : list piece := pc_norm (map denote l).
