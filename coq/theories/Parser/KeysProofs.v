(** Lemmas about the model of key signatures (property C08). *)
From Coq Require Import List NArith Bool Arith Lia Permutation.
Import ListNotations.
From LI Require Import Parser.Keys.
Open Scope N_scope.

(** * Induction principle for the nested value tree *)
Section PvInd.
  Variable P : pv -> Prop.
  Hypothesis HLit : forall t, P (PLit t).
  Hypothesis HVar : forall k f, P (PVar k f).
  Hypothesis HComp : forall k i, P i -> P (PComp k i).
  Hypothesis HBloc : forall vs, Forall P vs -> P (PBloc vs).
  Hypothesis HRanges : forall ty ck bs, Forall P bs -> P (PRanges ty ck bs).
  Hypothesis HPlural : forall ck fs o, Forall P fs -> P o -> P (PPlural ck fs o).
  Hypothesis HForeign : forall i, P i -> P (PForeign i).
  Hypothesis HDefault : P PDefault.
  Hypothesis HSub : P PSubkeys.
  Fixpoint pv_ind' (v : pv) : P v :=
    let fix go (l : list pv) : Forall P l :=
        match l with [] => Forall_nil P | x :: r => Forall_cons x (pv_ind' x) (go r) end in
    match v with
    | PLit t => HLit t
    | PVar k f => HVar k f
    | PComp k i => HComp k i (pv_ind' i)
    | PBloc vs => HBloc vs (go vs)
    | PRanges ty ck bs => HRanges ty ck bs (go bs)
    | PPlural ck fs o => HPlural ck fs o (go fs) (pv_ind' o)
    | PForeign i => HForeign i (pv_ind' i)
    | PDefault => HDefault
    | PSubkeys => HSub
    end.
End PvInd.

(** * get_keys_inner is the fold of its pushes *)

Lemma run_app : forall a b s, run (a ++ b) s = match run a s with KOk s' => run b s' | err => err end.
Proof.
  induction a as [|e r IH]; intros b s; cbn [app run]; [reflexivity|].
  destruct (apply_event e s); [apply IH | reflexivity].
Qed.

Lemma fold_res_run : forall l s,
  Forall (fun x => forall s, gki x s false = run (events x) s) l ->
  fold_res (fun x s => gki x s false) l s = run (flat_map events l) s.
Proof.
  induction l as [|x r IH]; intros s H; cbn [fold_res flat_map]; [reflexivity|].
  inversion H as [|? ? Hx Hr]; subst. rewrite run_app, Hx. destruct (run (events x) s); [apply IH; exact Hr | reflexivity].
Qed.

Lemma gki_events : forall v s, gki v s false = run (events v) s.
Proof.
  induction v as [t|k f|k i IH|vs IH|ty ck bs IH|ck fs o IHf IHo|i IH| |] using pv_ind'; intros s; cbn [gki events run].
  - reflexivity.
  - reflexivity.
  - rewrite IH. cbn [apply_event]. reflexivity.
  - apply fold_res_run. exact IH.
  - rewrite run_app, (fold_res_run bs s IH). destruct (run (flat_map events bs) s) as [s'|e]; [|reflexivity].
    cbn [run apply_event]. destruct (push_count (RRange ty) ck (ikm s')); reflexivity.
  - cbn [apply_event]. destruct (push_count RPlural ck (ikm s)) as [ik|e]; [|reflexivity].
    rewrite run_app, (fold_res_run fs _ IHf). destruct (run (flat_map events fs) (IInterpol ik)); [apply IHo | reflexivity].
  - apply IH.
  - reflexivity.
  - reflexivity.
Qed.

(** * Sets and maps *)

Lemma memN_In : forall x l, memN x l = true <-> In x l.
Proof.
  intros x l. unfold memN. rewrite existsb_exists. split.
  - intros [y [Hin Hy]]. apply N.eqb_eq in Hy. subst. exact Hin.
  - intros H. exists x. split; [exact H | apply N.eqb_refl].
Qed.
Lemma memN_sinsert : forall x y l, memN x (sinsert y l) = (x =? y) || memN x l.
Proof.
  intros x y l. induction l as [|z r IH]; cbn [sinsert].
  - unfold memN. cbn [existsb]. reflexivity.
  - destruct (y <? z) eqn:E1; [unfold memN; cbn [existsb]; reflexivity|].
    destruct (y =? z) eqn:E2.
    + apply N.eqb_eq in E2. subst z. unfold memN. cbn [existsb]. destruct (x =? y); reflexivity.
    + unfold memN in *. cbn [existsb]. rewrite IH. destruct (x =? z), (x =? y); reflexivity.
Qed.
Lemma memN_app : forall x a b, memN x (a ++ b) = memN x a || memN x b.
Proof. intros. unfold memN. apply existsb_app. Qed.

Definition vget_d (k : key) (m : list (key * varinfo)) : varinfo := match vget k m with Some v => v | None => vi_default end.
Lemma vget_vmodify : forall x k g m,
  vget x (vmodify k g m) = if x =? k then Some (g (vget_d k m)) else vget x m.
Proof.
  intros x k g m. unfold vget_d. induction m as [|[k' v] r IH]; cbn [vmodify vget].
  - destruct (x =? k); reflexivity.
  - destruct (k <? k') eqn:E1.
    + cbn [vget]. destruct (x =? k) eqn:Ex; [|reflexivity].
      apply N.eqb_eq in Ex. subst x. apply N.ltb_lt in E1.
      destruct (k =? k') eqn:E; [apply N.eqb_eq in E; lia | reflexivity].
    + destruct (k =? k') eqn:E2; cbn [vget].
      * apply N.eqb_eq in E2. subst k'. destruct (x =? k); reflexivity.
      * rewrite IH. destruct (x =? k') eqn:Ex'; [|reflexivity].
        apply N.eqb_eq in Ex'. subst k'. destruct (x =? k) eqn:Exk; [|reflexivity].
        apply N.eqb_eq in Exk. subst k. rewrite N.eqb_refl in E2. discriminate.
Qed.
Lemma vget_mem : forall x m, memN x (map fst m) = match vget x m with Some _ => true | None => false end.
Proof.
  intros x m. induction m as [|[k v] r IH]; cbn [map vget fst]; [reflexivity|].
  unfold memN in *. cbn [existsb]. destruct (x =? k); [reflexivity | exact IH].
Qed.
