(** Lemmas about the model of key signatures (property C08). *)
From Coq Require Import List NArith Bool Arith Lia Permutation.
Import ListNotations.
From LI Require Import Parser.Keys.
Open Scope N_scope.

(** * Induction principle for the nested value tree *)
Section PvInd.
  Variable P : pv -> Prop.
  Hypothesis HLit : forall t, P (PLit t).
  Hypothesis HVar : forall k f, P (PVar k f).
  Hypothesis HComp : forall k i, P i -> P (PComp k i).
  Hypothesis HBloc : forall vs, Forall P vs -> P (PBloc vs).
  Hypothesis HRanges : forall ty ck bs, Forall P bs -> P (PRanges ty ck bs).
  Hypothesis HPlural : forall ck fs o, Forall P fs -> P o -> P (PPlural ck fs o).
  Hypothesis HForeign : forall i, P i -> P (PForeign i).
  Hypothesis HDefault : P PDefault.
  Hypothesis HSub : P PSubkeys.
  Fixpoint pv_ind' (v : pv) : P v :=
    let fix go (l : list pv) : Forall P l :=
        match l with [] => Forall_nil P | x :: r => Forall_cons x (pv_ind' x) (go r) end in
    match v with
    | PLit t => HLit t
    | PVar k f => HVar k f
    | PComp k i => HComp k i (pv_ind' i)
    | PBloc vs => HBloc vs (go vs)
    | PRanges ty ck bs => HRanges ty ck bs (go bs)
    | PPlural ck fs o => HPlural ck fs o (go fs) (pv_ind' o)
    | PForeign i => HForeign i (pv_ind' i)
    | PDefault => HDefault
    | PSubkeys => HSub
    end.
End PvInd.

(** * get_keys_inner is the fold of its pushes *)

Lemma run_app : forall a b s, run (a ++ b) s = match run a s with KOk s' => run b s' | err => err end.
Proof.
  induction a as [|e r IH]; intros b s; cbn [app run]; [reflexivity|].
  destruct (apply_event e s); [apply IH | reflexivity].
Qed.

Lemma fold_res_run : forall l s,
  Forall (fun x => forall s, gki x s false = run (events x) s) l ->
  fold_res (fun x s => gki x s false) l s = run (flat_map events l) s.
Proof.
  induction l as [|x r IH]; intros s H; cbn [fold_res flat_map]; [reflexivity|].
  inversion H as [|? ? Hx Hr]; subst. rewrite run_app, Hx. destruct (run (events x) s); [apply IH; exact Hr | reflexivity].
Qed.

Lemma gki_events : forall v s, gki v s false = run (events v) s.
Proof.
  induction v as [t|k f|k i IH|vs IH|ty ck bs IH|ck fs o IHf IHo|i IH| |] using pv_ind'; intros s; cbn [gki events run].
  - reflexivity.
  - reflexivity.
  - rewrite IH. cbn [apply_event]. reflexivity.
  - apply fold_res_run. exact IH.
  - rewrite run_app, (fold_res_run bs s IH). destruct (run (flat_map events bs) s) as [s'|e]; [|reflexivity].
    cbn [run apply_event]. destruct (push_count (RRange ty) ck (ikm s')); reflexivity.
  - cbn [apply_event]. destruct (push_count RPlural ck (ikm s)) as [ik|e]; [|reflexivity].
    rewrite run_app, (fold_res_run fs _ IHf). destruct (run (flat_map events fs) (IInterpol ik)); [apply IHo | reflexivity].
  - apply IH.
  - reflexivity.
  - reflexivity.
Qed.

(** * Sets and maps *)

Lemma memN_In : forall x l, memN x l = true <-> In x l.
Proof.
  intros x l. unfold memN. rewrite existsb_exists. split.
  - intros [y [Hin Hy]]. apply N.eqb_eq in Hy. subst. exact Hin.
  - intros H. exists x. split; [exact H | apply N.eqb_refl].
Qed.
Lemma memN_sinsert : forall x y l, memN x (sinsert y l) = (x =? y) || memN x l.
Proof.
  intros x y l. induction l as [|z r IH]; cbn [sinsert].
  - unfold memN. cbn [existsb]. reflexivity.
  - destruct (y <? z) eqn:E1; [unfold memN; cbn [existsb]; reflexivity|].
    destruct (y =? z) eqn:E2.
    + apply N.eqb_eq in E2. subst z. unfold memN. cbn [existsb]. destruct (x =? y); reflexivity.
    + unfold memN in *. cbn [existsb]. rewrite IH. destruct (x =? z), (x =? y); reflexivity.
Qed.
Lemma memN_app : forall x a b, memN x (a ++ b) = memN x a || memN x b.
Proof. intros. unfold memN. apply existsb_app. Qed.

Definition vget_d (k : key) (m : list (key * varinfo)) : varinfo := match vget k m with Some v => v | None => vi_default end.

(** BTreeMap invariant: keys strictly ascending *)
Fixpoint vsorted (m : list (key * varinfo)) : Prop :=
  match m with
  | [] => True
  | (k, _) :: r => (forall x, In x (map fst r) -> k < x) /\ vsorted r
  end.
Lemma vget_none : forall k m, (forall x, In x (map fst m) -> k <> x) -> vget k m = None.
Proof.
  intros k m. induction m as [|[k' v] r IH]; intros H; cbn [vget]; [reflexivity|].
  destruct (k =? k') eqn:E.
  - apply N.eqb_eq in E. exfalso. apply (H k'); [left; reflexivity | exact E].
  - apply IH. intros x Hx. apply H. right. exact Hx.
Qed.
Lemma keys_vmodify : forall x k g m, In x (map fst (vmodify k g m)) <-> x = k \/ In x (map fst m).
Proof.
  intros x k g m. induction m as [|[k' v] r IH]; cbn [vmodify map fst In].
  - intuition.
  - destruct (k <? k'); [cbn [map fst In]; intuition|].
    destruct (k =? k') eqn:E; cbn [map fst In].
    + apply N.eqb_eq in E. subst. intuition.
    + rewrite IH. intuition.
Qed.
Lemma vmodify_sorted : forall k g m, vsorted m -> vsorted (vmodify k g m).
Proof.
  intros k g m. induction m as [|[k' v] r IH]; intros H; cbn [vmodify].
  - cbn [vsorted map In]. split; [intros x []|exact I].
  - destruct H as [Hlb Hr]. destruct (k <? k') eqn:E1.
    + apply N.ltb_lt in E1. cbn [vsorted]. split; [|split; assumption].
      intros x [<- | Hx]; [exact E1|]. specialize (Hlb x Hx). cbn [fst]. lia.
    + apply N.ltb_ge in E1. destruct (k =? k') eqn:E2.
      * cbn [vsorted]. split; assumption.
      * apply N.eqb_neq in E2. cbn [vsorted]. split; [|apply IH; exact Hr].
        intros x Hx. apply keys_vmodify in Hx. destruct Hx as [-> | Hx]; [lia | apply Hlb; exact Hx].
Qed.
Lemma vget_vmodify : forall x k g m, vsorted m ->
  vget x (vmodify k g m) = if x =? k then Some (g (vget_d k m)) else vget x m.
Proof.
  intros x k g m. unfold vget_d. induction m as [|[k' v] r IH]; intros Hs; cbn [vmodify vget].
  - destruct (x =? k); reflexivity.
  - destruct Hs as [Hlb Hr]. destruct (k <? k') eqn:E1.
    + cbn [vget]. destruct (x =? k) eqn:Ex; [|reflexivity].
      apply N.eqb_eq in Ex. subst x. apply N.ltb_lt in E1.
      destruct (k =? k') eqn:E; [apply N.eqb_eq in E; lia |].
      rewrite (vget_none k r); [reflexivity|]. intros y Hy. specialize (Hlb y Hy). lia.
    + destruct (k =? k') eqn:E2; cbn [vget].
      * apply N.eqb_eq in E2. subst k'. destruct (x =? k); reflexivity.
      * rewrite (IH Hr). destruct (x =? k') eqn:Ex'; [|reflexivity].
        apply N.eqb_eq in Ex'. subst k'. destruct (x =? k) eqn:Exk; [|reflexivity].
        apply N.eqb_eq in Exk. subst k. rewrite N.eqb_refl in E2. discriminate.
Qed.
Lemma vget_mem : forall x m, memN x (map fst m) = match vget x m with Some _ => true | None => false end.
Proof.
  intros x m. induction m as [|[k v] r IH]; cbn [map vget fst]; [reflexivity|].
  unfold memN in *. cbn [existsb]. destruct (x =? k); [reflexivity | exact IH].
Qed.

(** * What a state denotes, and the invariant of [run] *)

Definition fm (ik : ikeys) (x : key) : list fmt := vi_fmts (vget_d x (ik_vars ik)).
Definition ct (ik : ikeys) (x : key) : option rop := vi_count (vget_d x (ik_vars ik)).
Definition isv (ik : ikeys) (x : key) : bool := match vget x (ik_vars ik) with Some _ => true | None => false end.
Definition has_vf (x : key) (f : fmt) (V : list (key * fmt)) : bool :=
  existsb (fun vf => (fst vf =? x) && (snd vf =? f)) V.

Record Inv (done : list event) (ik : ikeys) : Prop := mk_inv {
  inv_sorted : vsorted (ik_vars ik);
  inv_comps : forall x, memN x (ik_comps ik) = memN x (ev_comps done);
  inv_isv : forall x, isv ik x = memN x (map fst (ev_vars done)) || memN x (map fst (ev_counts done));
  inv_fm : forall x f, memN f (fm ik x) = has_vf x f (ev_vars done);
  inv_ct1 : forall x t, In (x, t) (ev_counts done) -> ct ik x = Some t;
  inv_ct2 : forall x t, ct ik x = Some t -> In (x, t) (ev_counts done) }.

Lemma inv_empty : Inv [] ik_empty.
Proof. constructor; cbn; try reflexivity; try tauto; intros; discriminate. Qed.

Lemma rop_eqb_eq : forall a b, rop_eqb a b = true <-> a = b.
Proof.
  intros [x|] [y|]; cbn [rop_eqb]; split; intros H; try reflexivity; try discriminate.
  - apply N.eqb_eq in H. subst. reflexivity.
  - inversion H. apply N.eqb_refl.
Qed.

Definition conflict_err (t0 t : rop) : kerr :=
  match t0, t with RRange a, RRange b => EMismatch a b | _, _ => EMix end.

Lemma push_count_cases : forall t k ik,
  let ik' := mk_ik (ik_comps ik) (vmodify k (fun vi => mk_vi (vi_fmts vi) (Some t)) (ik_vars ik)) in
  (push_count t k ik = inl ik' /\ (ct ik k = None \/ ct ik k = Some t))
  \/ (exists t0, ct ik k = Some t0 /\ t0 <> t /\ push_count t k ik = inr (conflict_err t0 t)).
Proof.
  intros t k ik ik'. unfold push_count, ct, vget_d. fold ik'.
  destruct (vget k (ik_vars ik)) as [vi|]; cbn [vi_count vi_default].
  2: { left. split; [reflexivity | left; reflexivity]. }
  destruct (vi_count vi) as [[a|]|]; destruct t as [b|]; cbn [conflict_err].
  - destruct (a =? b) eqn:E.
    + apply N.eqb_eq in E. subst. left. split; [reflexivity | right; reflexivity].
    + right. exists (RRange a). split; [reflexivity|]. split; [|reflexivity]. apply N.eqb_neq in E. congruence.
  - right. exists (RRange a). split; [reflexivity|]. split; [discriminate | reflexivity].
  - right. exists RPlural. split; [reflexivity|]. split; [discriminate | reflexivity].
  - left. split; [reflexivity | right; reflexivity].
  - left. split; [reflexivity | left; reflexivity].
  - left. split; [reflexivity | left; reflexivity].
Qed.

Lemma ev_vars_app : forall a b, ev_vars (a ++ b) = ev_vars a ++ ev_vars b.
Proof. intros. unfold ev_vars. apply flat_map_app. Qed.
Lemma ev_comps_app : forall a b, ev_comps (a ++ b) = ev_comps a ++ ev_comps b.
Proof. intros. unfold ev_comps. apply flat_map_app. Qed.
Lemma ev_counts_app : forall a b, ev_counts (a ++ b) = ev_counts a ++ ev_counts b.
Proof. intros. unfold ev_counts. apply flat_map_app. Qed.

Lemma memN_snoc : forall (B : Type) x (l : list (key * B)) k (b : B),
  memN x (map fst (l ++ [(k, b)])) = memN x (map fst l) || (x =? k).
Proof. intros. rewrite map_app, memN_app. cbn [map fst]. unfold memN at 2. cbn [existsb]. rewrite orb_false_r. reflexivity. Qed.
Lemma has_vf_snoc : forall x f' V k f, has_vf x f' (V ++ [(k, f)]) = has_vf x f' V || ((k =? x) && (f =? f')).
Proof. intros. unfold has_vf. rewrite existsb_app. cbn [existsb fst snd]. rewrite orb_false_r. reflexivity. Qed.

Lemma inv_step : forall done s e s',
  Inv done (ikm s) -> apply_event e s = KOk s' -> Inv (done ++ [e]) (ikm s').
Proof.
  intros done s e s' [Hs Hc Hv Hf H1 H2] Ha. destruct e as [k f|k|k t]; cbn [apply_event] in Ha.
  - inversion Ha; subst s'. cbn [ikm]. unfold push_var.
    constructor; cbn [ik_vars ik_comps]; rewrite ?ev_vars_app, ?ev_comps_app, ?ev_counts_app;
      cbn [ev_vars ev_comps ev_counts flat_map app]; rewrite ?app_nil_r.
    + apply vmodify_sorted. exact Hs.
    + exact Hc.
    + intros x. unfold isv in *. cbn [ik_vars]. rewrite (vget_vmodify _ _ _ _ Hs), memN_snoc.
      specialize (Hv x). destruct (x =? k).
      * rewrite orb_true_r. reflexivity.
      * rewrite orb_false_r. exact Hv.
    + intros x f'. unfold fm, vget_d in *. cbn [ik_vars]. rewrite (vget_vmodify _ _ _ _ Hs), has_vf_snoc.
      destruct (x =? k) eqn:E.
      * apply N.eqb_eq in E. subst x. cbn [vi_fmts]. rewrite memN_sinsert. specialize (Hf k f'). unfold vget_d in *.
        rewrite Hf, N.eqb_refl. cbn [andb]. rewrite (N.eqb_sym f f'). apply orb_comm.
      * rewrite (N.eqb_sym k x), E. cbn [andb]. rewrite orb_false_r. apply Hf.
    + intros x t Hin. unfold ct, vget_d in *. cbn [ik_vars]. rewrite (vget_vmodify _ _ _ _ Hs).
      specialize (H1 x t Hin). destruct (x =? k) eqn:E; [|exact H1].
      apply N.eqb_eq in E. subst x. cbn [vi_count]. exact H1.
    + intros x t. unfold ct, vget_d in *. cbn [ik_vars]. rewrite (vget_vmodify _ _ _ _ Hs).
      destruct (x =? k) eqn:E; [|apply H2]. apply N.eqb_eq in E. subst x. cbn [vi_count]. apply H2.
  - inversion Ha; subst s'. cbn [ikm]. unfold push_comp.
    constructor; cbn [ik_vars ik_comps]; rewrite ?ev_vars_app, ?ev_comps_app, ?ev_counts_app;
      cbn [ev_vars ev_comps ev_counts flat_map app]; rewrite ?app_nil_r; auto.
    intros x. rewrite memN_sinsert, memN_app, Hc. unfold memN at 3. cbn [existsb]. rewrite orb_false_r. apply orb_comm.
  - destruct (push_count_cases t k (ikm s)) as [[Hp Hold] | [t0 [_ [_ Hp]]]]; rewrite Hp in Ha; [|discriminate].
    inversion Ha; subst s'. cbn [ikm].
    constructor; cbn [ik_vars ik_comps]; rewrite ?ev_vars_app, ?ev_comps_app, ?ev_counts_app;
      cbn [ev_vars ev_comps ev_counts flat_map app]; rewrite ?app_nil_r.
    + apply vmodify_sorted. exact Hs.
    + exact Hc.
    + intros x. unfold isv in *. cbn [ik_vars]. rewrite (vget_vmodify _ _ _ _ Hs), memN_snoc.
      specialize (Hv x). destruct (x =? k).
      * rewrite !orb_true_r. reflexivity.
      * rewrite orb_false_r. exact Hv.
    + intros x f'. unfold fm, vget_d in *. cbn [ik_vars]. rewrite (vget_vmodify _ _ _ _ Hs).
      destruct (x =? k) eqn:E; [|apply Hf]. apply N.eqb_eq in E. subst x. cbn [vi_fmts]. apply Hf.
    + intros x t'. rewrite in_app_iff. cbn [In]. unfold ct, vget_d. cbn [ik_vars]. rewrite (vget_vmodify _ _ _ _ Hs).
      intros [Hin | [Heq | []]].
      * destruct (x =? k) eqn:E; [|apply H1; exact Hin]. apply N.eqb_eq in E. subst x. cbn [vi_count].
        specialize (H1 k t' Hin). destruct Hold as [Hn | Hsome]; congruence.
      * inversion Heq; subst. rewrite N.eqb_refl. reflexivity.
    + intros x t'. rewrite in_app_iff. cbn [In]. unfold ct, vget_d. cbn [ik_vars]. rewrite (vget_vmodify _ _ _ _ Hs).
      destruct (x =? k) eqn:E.
      * apply N.eqb_eq in E. subst x. cbn [vi_count]. intros Heq. inversion Heq; subst. right. left. reflexivity.
      * intros Hc'. left. apply H2. exact Hc'.
Qed.

(** an error of [apply_event] is a count used with a type different from one seen before *)
Lemma inv_err : forall done s e err,
  Inv done (ikm s) -> apply_event e s = KErr err ->
  exists k t t0, e = EvCount k t /\ In (k, t0) (ev_counts done) /\ t0 <> t /\ err = conflict_err t0 t.
Proof.
  intros done s e err Hinv Ha. destruct e as [k f|k|k t]; cbn [apply_event] in Ha; try discriminate.
  destruct (push_count_cases t k (ikm s)) as [[Hp _] | [t0 [Hct [Hne Hp]]]]; rewrite Hp in Ha; [discriminate|].
  inversion Ha; subst. exists k, t, t0. split; [reflexivity|]. split; [apply (inv_ct2 _ _ Hinv); exact Hct|]. auto.
Qed.

Inductive run_result (done evs : list event) : kres -> Prop :=
| rr_ok : forall s', Inv (done ++ evs) (ikm s') -> run_result done evs (KOk s')
| rr_err : forall pre k t t0 post,
    evs = pre ++ EvCount k t :: post -> In (k, t0) (ev_counts (done ++ pre)) -> t0 <> t ->
    run_result done evs (KErr (conflict_err t0 t)).

Lemma run_inv : forall evs done s, Inv done (ikm s) -> run_result done evs (run evs s).
Proof.
  induction evs as [|e r IH]; intros done s Hinv; cbn [run].
  - apply rr_ok. rewrite app_nil_r. exact Hinv.
  - destruct (apply_event e s) as [s1|err] eqn:Ha.
    + pose proof (inv_step _ _ _ _ Hinv Ha) as Hinv1. specialize (IH (done ++ [e]) s1 Hinv1).
      inversion IH as [s' Hs' | pre k t t0 post Hevs Hin Hne]; subst.
      * apply rr_ok. rewrite <- app_assoc in Hs'. exact Hs'.
      * apply (rr_err done (e :: pre ++ EvCount k t :: post) (e :: pre) k t t0 post); [reflexivity| |exact Hne].
        rewrite <- app_assoc in Hin. exact Hin.
    + destruct (inv_err _ _ _ _ Hinv Ha) as [k [t [t0 [-> [Hin [Hne ->]]]]]].
      apply (rr_err done (EvCount k t :: r) [] k t t0 r); [reflexivity| |exact Hne]. rewrite app_nil_r. exact Hin.
Qed.

(** * key_signature is [run] over the events of all locales (up to the literal-type bookkeeping) *)

Definition req (r1 r2 : kres) : Prop :=
  match r1, r2 with
  | KOk a, KOk b => ikm a = ikm b
  | KErr a, KErr b => a = b
  | _, _ => False
  end.
Lemma req_refl : forall r, req r r.
Proof. intros [s|e]; reflexivity. Qed.

Lemma apply_event_ikm : forall e s1 s2, ikm s1 = ikm s2 -> apply_event e s1 = apply_event e s2.
Proof. intros e s1 s2 H. destruct e; cbn [apply_event]; rewrite H; reflexivity. Qed.
Lemma run_ikm : forall evs s1 s2, ikm s1 = ikm s2 -> req (run evs s1) (run evs s2).
Proof.
  intros [|e r] s1 s2 H; cbn [run]; [exact H|]. rewrite (apply_event_ikm e s1 s2 H). apply req_refl.
Qed.

Lemma gki_top : forall v s, (forall t, v <> PLit t) -> gki v s true = gki v s false.
Proof. intros v s H. destruct v; try reflexivity. exfalso. apply (H t). reflexivity. Qed.

Lemma merge_value_run : forall v s, v <> PSubkeys -> req (merge_value v s) (run (events v) s).
Proof.
  intros v s Hns. destruct v; cbn [merge_value]; try (rewrite gki_events; apply req_refl).
  - cbn [events run]. destruct s as [t'|ik]; [|reflexivity]. destruct (littype_eqb t t'); reflexivity.
  - reflexivity.
  - contradiction.
Qed.

Lemma conflict_err_not_sub : forall a b, conflict_err a b <> ESubkeys.
Proof. intros [x|] [y|]; discriminate. Qed.

Definition tracks (r : kres) (vs : list pv) (r' : kres) : Prop :=
  match r with
  | KOk s' => req (KOk s') r'
  | KErr ESubkeys => In PSubkeys vs
  | KErr e => r' = KErr e
  end.

Lemma push_count_not_sub : forall t k ik, push_count t k ik <> inr ESubkeys.
Proof.
  intros t k ik. unfold push_count. destruct (vget k (ik_vars ik)) as [vi|]; [|discriminate].
  destruct (vi_count vi) as [[a|]|]; destruct t as [b|]; try discriminate. destruct (a =? b); discriminate.
Qed.
Lemma run_err_not_sub : forall evs s, run evs s <> KErr ESubkeys.
Proof.
  induction evs as [|e r IH]; intros s; cbn [run]; [discriminate|].
  destruct (apply_event e s) as [s1|err] eqn:Ha; [apply IH|].
  destruct e; cbn [apply_event] in Ha; try discriminate.
  destruct (push_count t k (ikm s)) eqn:Hp; [discriminate|]. inversion Ha; subst. intros Heq. inversion Heq; subst.
  apply (push_count_not_sub _ _ _ Hp).
Qed.

Lemma tracks_step : forall v r s1 s2, ikm s1 = ikm s2 -> merge_value v s1 = gki v s1 false ->
  (forall a b, ikm a = ikm b -> tracks (merge_all r a) r (run (flat_map events r) b)) ->
  tracks (merge_all (v :: r) s1) (v :: r) (run (events v ++ flat_map events r) s2).
Proof.
  intros v r s1 s2 H Hm IH. cbn [merge_all]. rewrite Hm, gki_events, run_app.
  pose proof (run_ikm (events v) s1 s2 H) as Hr. unfold req in Hr.
  destruct (run (events v) s1) as [a|ea] eqn:E1; destruct (run (events v) s2) as [b|eb] eqn:E2; try contradiction.
  - specialize (IH a b Hr). unfold tracks in *. destruct (merge_all r a) as [s'|e]; [exact IH|].
    destruct e; [exact IH | exact IH | right; exact IH].
  - subst eb. unfold tracks. destruct ea; try reflexivity. exfalso. apply (run_err_not_sub _ _ E1).
Qed.

Lemma merge_all_run : forall vs s1 s2, ikm s1 = ikm s2 ->
  tracks (merge_all vs s1) vs (run (flat_map events vs) s2).
Proof.
  induction vs as [|v r IH]; intros s1 s2 H; cbn [flat_map].
  - exact H.
  - destruct v.
    + (* PLit *)
      cbn [merge_all merge_value events app].
      assert (Hk : exists s1', (match s1 with IInterpol _ => KOk s1 | ILit t' => if littype_eqb t t' then KOk s1 else KOk (IInterpol ik_empty) end) = KOk s1' /\ ikm s1' = ikm s2).
      { destruct s1 as [t'|ik]; [destruct (littype_eqb t t')|]; eexists; split; try reflexivity; exact H. }
      destruct Hk as [s1' [-> Hk]]. specialize (IH s1' s2 Hk). unfold tracks in *.
      destruct (merge_all r s1') as [s'|e]; [exact IH|]. destruct e; [exact IH | exact IH | right; exact IH].
    + apply tracks_step; [exact H | reflexivity | exact IH].
    + apply tracks_step; [exact H | reflexivity | exact IH].
    + apply tracks_step; [exact H | reflexivity | exact IH].
    + apply tracks_step; [exact H | reflexivity | exact IH].
    + apply tracks_step; [exact H | reflexivity | exact IH].
    + apply tracks_step; [exact H | reflexivity | exact IH].
    + (* PDefault *)
      cbn [merge_all merge_value events app]. specialize (IH s1 s2 H). unfold tracks in *.
      destruct (merge_all r s1) as [s'|e]; [exact IH|]. destruct e; [exact IH | exact IH | right; exact IH].
    + (* PSubkeys *)
      cbn [merge_all merge_value tracks]. left. reflexivity.
Qed.

Lemma key_signature_run : forall d others,
  tracks (key_signature d others) others (run (all_events (d :: others)) (ILit LString)).
Proof.
  intros d others. unfold key_signature, get_keys, all_events. cbn [flat_map]. rewrite run_app.
  assert (Hd : exists s1 , gki d (ILit LString) true = (match run (events d) (ILit LString) with KOk _ => KOk s1 | err => err end)
                           /\ (forall s2, run (events d) (ILit LString) = KOk s2 -> ikm s1 = ikm s2)).
  { destruct d as [t| | | | | | | |].
    1: { exists (ILit t). split; [reflexivity|]. intros s2 Hs2. inversion Hs2. reflexivity. }
    all: rewrite gki_top by (intros t; discriminate); rewrite gki_events;
      destruct (run (events _) (ILit LString)) as [s1|e] eqn:E; [exists s1 | exists (ILit LString)];
      (split; [reflexivity|]); intros s2 Hs2; inversion Hs2; reflexivity. }
  destruct Hd as [s1 [-> Hs1]].
  destruct (run (events d) (ILit LString)) as [s2|e] eqn:E.
  - apply merge_all_run. apply Hs1. reflexivity.
  - unfold tracks. destruct e; try reflexivity. exfalso. apply (run_err_not_sub _ _ E).
Qed.

(** * The specification holds of the model *)

Lemma in_map_fst : forall (B : Type) (x : N) (b : B) l, In (x, b) l -> In x (map fst l).
Proof. intros B x b l H. apply in_map_iff. exists (x, b). split; [reflexivity | exact H]. Qed.

Lemma has_vf_In : forall x f V, has_vf x f V = true <-> In (x, f) V.
Proof.
  intros x f V. unfold has_vf. rewrite existsb_exists. split.
  - intros [[a b] [Hin H]]. cbn [fst snd] in H. apply andb_true_iff in H. destruct H as [H1 H2].
    apply N.eqb_eq in H1. apply N.eqb_eq in H2. subst. exact Hin.
  - intros H. exists (x, f). split; [exact H|]. cbn [fst snd]. rewrite !N.eqb_refl. reflexivity.
Qed.

Lemma spec_ok : forall vs s, Inv (all_events vs) (ikm s) -> spec_C08 vs (KOk s) = true.
Proof.
  intros vs s [Hs Hc Hv Hf H1 H2]. unfold spec_C08, sig_comps, sig_vars.
  set (evs := all_events vs) in *. set (ik := ikm s) in *.
  repeat (apply andb_true_iff; split).
  - (* consistent *)
    unfold consistent. apply forallb_forall. intros [x t1] Ha. apply forallb_forall. intros [y t2] Hb. cbn [fst snd].
    destruct (x =? y) eqn:E; [|reflexivity]. apply N.eqb_eq in E. subst y. cbn [negb orb].
    apply rop_eqb_eq. pose proof (H1 _ _ Ha) as Ea. pose proof (H1 _ _ Hb) as Eb. congruence.
  - apply forallb_forall. intros c Hin. rewrite <- Hc. apply memN_In. exact Hin.
  - apply forallb_forall. intros c Hin. rewrite Hc. apply memN_In. exact Hin.
  - apply forallb_forall. intros [x vi] Hin. cbn [fst]. rewrite <- Hv. unfold isv. rewrite <- vget_mem.
    apply memN_In. apply (in_map_fst _ _ _ _ Hin).
  - apply forallb_forall. intros x Hin. rewrite vget_mem. fold (isv ik x). rewrite Hv.
    apply in_app_or in Hin. destruct Hin as [Hin|Hin]; apply memN_In in Hin; rewrite Hin; [reflexivity | apply orb_true_r].
  - apply forallb_forall. intros x Hin. apply memN_In in Hin. rewrite vget_mem in Hin.
    destruct (vget x (ik_vars ik)) as [vi|] eqn:Hg; [|discriminate].
    assert (Hfm : fm ik x = vi_fmts vi) by (unfold fm, vget_d; rewrite Hg; reflexivity).
    assert (Hct : ct ik x = vi_count vi) by (unfold ct, vget_d; rewrite Hg; reflexivity).
    repeat (apply andb_true_iff; split).
    + apply forallb_forall. intros f Hfin. fold (has_vf x f (ev_vars evs)). rewrite <- Hf, Hfm. apply memN_In. exact Hfin.
    + apply forallb_forall. intros [y f] Hin'. cbn [fst snd]. destruct (y =? x) eqn:E; [|reflexivity].
      apply N.eqb_eq in E. subst y. cbn [negb orb]. rewrite <- Hfm, Hf. apply has_vf_In. exact Hin'.
    + rewrite <- Hct. destruct (ct ik x) as [t|] eqn:Hc'.
      * apply existsb_exists. exists (x, t). split; [apply H2; exact Hc'|]. cbn [fst snd]. rewrite N.eqb_refl. cbn [andb].
        apply rop_eqb_eq. reflexivity.
      * destruct (memN x (map fst (ev_counts evs))) eqn:Hm; [|reflexivity]. apply memN_In in Hm. apply in_map_iff in Hm.
        destruct Hm as [[y t] [Hy Hin']]. cbn [fst] in Hy. subst y. rewrite (H1 _ _ Hin') in Hc'. discriminate.
Qed.

Lemma spec_err : forall vs pre k t t0 post,
  all_events vs = pre ++ EvCount k t :: post -> In (k, t0) (ev_counts pre) -> t0 <> t ->
  spec_C08 vs (KErr (conflict_err t0 t)) = true.
Proof.
  intros vs pre k t t0 post Hev Hin Hne. unfold spec_C08. rewrite Hev.
  assert (Ha : In (k, t0) (ev_counts (pre ++ EvCount k t :: post))).
  { rewrite ev_counts_app. apply in_or_app. left. exact Hin. }
  assert (Hb : In (k, t) (ev_counts (pre ++ EvCount k t :: post))).
  { rewrite ev_counts_app. apply in_or_app. right. cbn. left. reflexivity. }
  destruct t0 as [a|]; destruct t as [b|]; cbn [conflict_err].
  - apply andb_true_iff. split.
    + destruct (a =? b) eqn:E; [|reflexivity]. apply N.eqb_eq in E. subst. contradiction.
    + apply existsb_exists. exists (k, RRange a). split; [exact Ha|]. apply existsb_exists. exists (k, RRange b). split; [exact Hb|].
      cbn [fst snd rop_eqb]. rewrite !N.eqb_refl. reflexivity.
  - apply existsb_exists. exists (k, RRange a). split; [exact Ha|]. apply existsb_exists. exists (k, RPlural). split; [exact Hb|].
    cbn [fst snd]. rewrite N.eqb_refl. reflexivity.
  - apply existsb_exists. exists (k, RPlural). split; [exact Ha|]. apply existsb_exists. exists (k, RRange b). split; [exact Hb|].
    cbn [fst snd]. rewrite N.eqb_refl. reflexivity.
  - contradiction.
Qed.

Lemma inv_start : Inv [] (ikm (ILit LString)).
Proof. exact inv_empty. Qed.

(** C08_spec *)
Lemma spec_C08_holds : forall d others, spec_C08 (d :: others) (key_signature d others) = true.
Proof.
  intros d others. pose proof (key_signature_run d others) as Ht.
  pose proof (run_inv (all_events (d :: others)) [] (ILit LString) inv_start) as Hr.
  remember (run (all_events (d :: others)) (ILit LString)) as R eqn:HR. clear HR.
  destruct Hr as [s' Hinv | pre k t t0 post Hev Hin Hne]; cbn [app] in *.
  - destruct (key_signature d others) as [s|e]; unfold tracks in Ht.
    + unfold req in Ht. apply spec_ok. rewrite Ht. exact Hinv.
    + destruct e; try discriminate. unfold spec_C08. apply existsb_exists. exists PSubkeys. split; [right; exact Ht | reflexivity].
  - destruct (key_signature d others) as [s|e]; unfold tracks in Ht; [contradiction|].
    destruct e as [|t1 t2|].
    + inversion Ht as [Hc]. apply (spec_err _ pre k t t0 post Hev Hin Hne).
    + inversion Ht as [Hc]. apply (spec_err _ pre k t t0 post Hev Hin Hne).
    + unfold spec_C08. apply existsb_exists. exists PSubkeys. split; [right; exact Ht | reflexivity].
Qed.

(** * Union, conflicts, independence of the locale order *)

Lemma signature_inv : forall d others s,
  key_signature d others = KOk s -> Inv (all_events (d :: others)) (ikm s).
Proof.
  intros d others s Hk. pose proof (key_signature_run d others) as Ht. rewrite Hk in Ht.
  pose proof (run_inv (all_events (d :: others)) [] (ILit LString) inv_start) as Hr.
  remember (run (all_events (d :: others)) (ILit LString)) as R eqn:HR. clear HR.
  destruct Hr as [s' Hinv | pre k t t0 post Hev Hin Hne]; cbn [app tracks req] in *; [|contradiction].
  rewrite Ht. exact Hinv.
Qed.

Definition sig_is (s : iol) (evs : list event) : Prop :=
  (forall c, In c (sig_comps s) <-> In c (ev_comps evs)) /\
  (forall x, In x (map fst (sig_vars s)) <-> In x (map fst (ev_vars evs)) \/ In x (map fst (ev_counts evs))) /\
  (forall x f, In f (fm (ikm s) x) <-> In (x, f) (ev_vars evs)) /\
  (forall x t, ct (ikm s) x = Some t <-> In (x, t) (ev_counts evs)).

Lemma inv_sig_is : forall s evs, Inv evs (ikm s) -> sig_is s evs.
Proof.
  intros s evs [Hs Hc Hv Hf H1 H2]. unfold sig_is, sig_comps, sig_vars. repeat split.
  - intros H. apply memN_In. rewrite <- Hc. apply memN_In. exact H.
  - intros H. apply memN_In. rewrite Hc. apply memN_In. exact H.
  - intros H. apply memN_In in H. rewrite vget_mem in H. fold (isv (ikm s) x) in H. rewrite Hv in H.
    apply orb_true_iff in H. destruct H as [H|H]; apply memN_In in H; auto.
  - intros H. apply memN_In. rewrite vget_mem. fold (isv (ikm s) x). rewrite Hv. apply orb_true_iff.
    destruct H as [H|H]; apply memN_In in H; auto.
  - intros H. apply has_vf_In. rewrite <- Hf. apply memN_In. exact H.
  - intros H. apply memN_In. rewrite Hf. apply has_vf_In. exact H.
  - apply H2.
  - apply H1.
Qed.

(** C08_union *)
Lemma signature_union : forall d others s,
  key_signature d others = KOk s -> sig_is s (all_events (d :: others)).
Proof. intros d others s H. apply inv_sig_is. apply signature_inv. exact H. Qed.

Lemma consistent_iff : forall K,
  consistent K = true <-> (forall x t1 t2, In (x, t1) K -> In (x, t2) K -> t1 = t2).
Proof.
  intros K. unfold consistent. split.
  - intros H x t1 t2 Ha Hb. rewrite forallb_forall in H. specialize (H _ Ha). rewrite forallb_forall in H. specialize (H _ Hb).
    cbn [fst snd] in H. rewrite N.eqb_refl in H. cbn [negb orb] in H. apply rop_eqb_eq. exact H.
  - intros H. apply forallb_forall. intros [x t1] Ha. apply forallb_forall. intros [y t2] Hb. cbn [fst snd].
    destruct (x =? y) eqn:E; [|reflexivity]. apply N.eqb_eq in E. subst y. cbn [negb orb]. apply rop_eqb_eq. apply (H x); assumption.
Qed.

(** C08_conflict: the signature is an error exactly when some count variable is used with two different types
    (range types i32/u64/.. or plural), in any locales *)
Lemma signature_conflict : forall d others, ~ In PSubkeys others ->
  ((exists e, key_signature d others = KErr e) <-> consistent (ev_counts (all_events (d :: others))) = false).
Proof.
  intros d others Hns. split.
  - intros [e He]. pose proof (key_signature_run d others) as Ht. rewrite He in Ht.
    pose proof (run_inv (all_events (d :: others)) [] (ILit LString) inv_start) as Hr.
    remember (run (all_events (d :: others)) (ILit LString)) as R eqn:HR. clear HR.
    destruct (consistent (ev_counts (all_events (d :: others)))) eqn:Hc; [|reflexivity]. exfalso.
    destruct Hr as [s' Hinv | pre k t t0 post Hev Hin Hne]; cbn [app tracks] in *.
    + destruct e; try discriminate. contradiction.
    + apply Hne. rewrite consistent_iff in Hc. apply (Hc k); rewrite Hev, ev_counts_app; apply in_or_app;
        [left; exact Hin | right; cbn; left; reflexivity].
  - intros Hc. destruct (key_signature d others) as [s|e] eqn:Hk; [|eauto]. exfalso.
    pose proof (signature_inv _ _ _ Hk) as [Hs Hco Hv Hf H1 H2].
    assert (Ht : consistent (ev_counts (all_events (d :: others))) = true).
    { apply consistent_iff. intros x t1 t2 Ha Hb. pose proof (H1 _ _ Ha) as Ea. pose proof (H1 _ _ Hb) as Eb. congruence. }
    congruence.
Qed.

Lemma perm_all_events : forall d o1 o2, Permutation o1 o2 -> Permutation (all_events (d :: o1)) (all_events (d :: o2)).
Proof.
  intros d o1 o2 H. unfold all_events. cbn [flat_map]. apply Permutation_app_head. apply Permutation_flat_map. exact H.
Qed.

Definition sig_equiv (s1 s2 : iol) : Prop :=
  (forall c, In c (sig_comps s1) <-> In c (sig_comps s2)) /\
  (forall x, In x (map fst (sig_vars s1)) <-> In x (map fst (sig_vars s2))) /\
  (forall x f, In f (fm (ikm s1) x) <-> In f (fm (ikm s2) x)) /\
  (forall x, ct (ikm s1) x = ct (ikm s2) x).

(** C08_order: the signature does not depend on the order of the non-default locales *)
Lemma signature_order : forall d o1 o2, Permutation o1 o2 -> ~ In PSubkeys o1 ->
  match key_signature d o1, key_signature d o2 with
  | KOk s1, KOk s2 => sig_equiv s1 s2
  | KErr _, KErr _ => True
  | _, _ => False
  end.
Proof.
  intros d o1 o2 Hp Hns.
  assert (Hns2 : ~ In PSubkeys o2) by (intros H; apply Hns; apply (Permutation_in _ (Permutation_sym Hp) H)).
  pose proof (perm_all_events d _ _ Hp) as Hpe.
  assert (Hin : forall (B : Type) (g : event -> list B) y,
             In y (flat_map g (all_events (d :: o1))) <-> In y (flat_map g (all_events (d :: o2)))).
  { intros B g y. split; apply Permutation_in; apply Permutation_flat_map; [exact Hpe | apply Permutation_sym; exact Hpe]. }
  assert (Hcons : consistent (ev_counts (all_events (d :: o1))) = consistent (ev_counts (all_events (d :: o2)))).
  { destruct (consistent (ev_counts (all_events (d :: o1)))) eqn:E1; destruct (consistent (ev_counts (all_events (d :: o2)))) eqn:E2;
      try reflexivity; exfalso.
    - rewrite consistent_iff in E1. assert (consistent (ev_counts (all_events (d :: o2))) = true); [|congruence].
      apply consistent_iff. intros x t1 t2 Ha Hb. apply (E1 x); apply (Hin _ _ _); assumption.
    - rewrite consistent_iff in E2. assert (consistent (ev_counts (all_events (d :: o1))) = true); [|congruence].
      apply consistent_iff. intros x t1 t2 Ha Hb. apply (E2 x); apply (Hin _ _ _); assumption. }
  destruct (key_signature d o1) as [s1|e1] eqn:K1; destruct (key_signature d o2) as [s2|e2] eqn:K2.
  - destruct (signature_union _ _ _ K1) as [A1 [B1 [C1 D1]]]. destruct (signature_union _ _ _ K2) as [A2 [B2 [C2 D2]]].
    unfold sig_equiv. repeat split.
    + intros H. apply A2. apply (Hin _ _ _). apply A1. exact H.
    + intros H. apply A1. apply (Hin _ _ _). apply A2. exact H.
    + intros H. apply B2. apply B1 in H. destruct H as [H|H]; [left|right];
        apply in_map_iff in H; destruct H as [p [Hp1 Hp2]]; apply in_map_iff; exists p; (split; [exact Hp1|]); apply (Hin _ _ _); exact Hp2.
    + intros H. apply B1. apply B2 in H. destruct H as [H|H]; [left|right];
        apply in_map_iff in H; destruct H as [p [Hp1 Hp2]]; apply in_map_iff; exists p; (split; [exact Hp1|]); apply (Hin _ _ _); exact Hp2.
    + intros H. apply C2. apply (Hin _ _ _). apply C1. exact H.
    + intros H. apply C1. apply (Hin _ _ _). apply C2. exact H.
    + intros x. destruct (ct (ikm s1) x) as [t|] eqn:E1.
      * symmetry. apply D2. apply (Hin _ _ _). apply D1. exact E1.
      * destruct (ct (ikm s2) x) as [t|] eqn:E2; [|reflexivity].
        apply D2 in E2. apply (Hin _ _ _) in E2. apply D1 in E2. congruence.
  - assert (Hf : consistent (ev_counts (all_events (d :: o2))) = false) by (apply (signature_conflict d o2 Hns2); eauto).
    rewrite <- Hcons in Hf. apply (signature_conflict d o1 Hns) in Hf. destruct Hf as [e He]. congruence.
  - assert (Hf : consistent (ev_counts (all_events (d :: o1))) = false) by (apply (signature_conflict d o1 Hns); eauto).
    rewrite Hcons in Hf. apply (signature_conflict d o2 Hns2) in Hf. destruct Hf as [e He]. congruence.
  - exact I.
Qed.

(** C08_fields: make_fields produces one builder field per variable and per component *)
Lemma insert_sorted_In : forall x y l, In x (insert_sorted y l) <-> x = y \/ In x l.
Proof.
  intros x y l. induction l as [|z r IH]; cbn [insert_sorted In]; [intuition|].
  destruct (y <=? z); cbn [In]; [intuition|]. rewrite IH. intuition.
Qed.
Lemma make_fields_In : forall ik x, In x (make_fields ik) <-> In x (map fst (ik_vars ik)) \/ In x (ik_comps ik).
Proof.
  intros ik x. unfold make_fields. rewrite <- in_app_iff. generalize (map fst (ik_vars ik) ++ ik_comps ik). intros l.
  induction l as [|y r IH]; cbn [fold_right In]; [tauto|]. rewrite insert_sorted_In, IH. intuition.
Qed.

(** * Count-key threading through reference chains *)

Lemma populate_plural : forall cid args ck fs o,
  populate cid args (PPlural ck fs o) =
  match alookup cid args with
  | None => PPlural ck (map (populate cid args) fs) (populate cid args o)
  | Some (PaVal (PVar k _)) => PPlural k (map (populate cid args) fs) (populate cid args o)
  | Some (PaCountLit n _) => nth n (map (populate cid args) fs ++ [populate cid args o]) (PLit LString)
  | Some (PaVal _) => PPlural ck fs o
  end.
Proof. intros. cbn [populate]. destruct (alookup cid args) as [[[]|]|]; reflexivity. Qed.

Lemma populate_ranges : forall cid args ty ck bs,
  populate cid args (PRanges ty ck bs) =
  match alookup cid args with
  | None => PRanges ty ck (map (populate cid args) bs)
  | Some (PaVal (PVar k _)) => PRanges ty k (map (populate cid args) bs)
  | Some (PaCountLit n _) => nth n (map (populate cid args) bs) (PLit LString)
  | Some (PaVal _) => PRanges ty ck bs
  end.
Proof. intros. cbn [populate]. destruct (alookup cid args) as [[[]|]|]; reflexivity. Qed.

(** C08_chain_count_key: populating a plural / range
      - without a `count` argument keeps its count key (whatever other arguments are passed),
      - with a single variable makes that variable the count key,
      - with a literal number yields the selected branch: the node and its count are gone;
    hence a renamed count survives any number of further hops that pass no `count` *)
Theorem chain_count_key : forall cid args,
  (alookup cid args = None ->
     (forall ck fs o, populate cid args (PPlural ck fs o) = PPlural ck (map (populate cid args) fs) (populate cid args o)) /\
     (forall ty ck bs, populate cid args (PRanges ty ck bs) = PRanges ty ck (map (populate cid args) bs))) /\
  (forall k f, alookup cid args = Some (PaVal (PVar k f)) ->
     (forall ck fs o, populate cid args (PPlural ck fs o) = PPlural k (map (populate cid args) fs) (populate cid args o)) /\
     (forall ty ck bs, populate cid args (PRanges ty ck bs) = PRanges ty k (map (populate cid args) bs))) /\
  (forall n t, alookup cid args = Some (PaCountLit n t) ->
     (forall ck fs o, populate cid args (PPlural ck fs o) = nth n (map (populate cid args) fs ++ [populate cid args o]) (PLit LString)) /\
     (forall ty ck bs, populate cid args (PRanges ty ck bs) = nth n (map (populate cid args) bs) (PLit LString))).
Proof.
  intros cid args. repeat split; intros; rewrite ?populate_plural, ?populate_ranges;
    match goal with H : alookup _ _ = _ |- _ => rewrite H end; reflexivity.
Qed.

Lemma count_keys_plural : forall k fs o, hd_error (count_keys (PPlural k fs o)) = Some (k, RPlural).
Proof. intros. unfold count_keys. cbn [events ev_counts flat_map app hd_error]. reflexivity. Qed.

(** the chain of the finding: `things = $t(items, {"count": "{{ n }}"})`, then any hops without `count` *)
Theorem chain_rename_then_plain : forall cid k f ck fs o (hops : list (list (key * parg))),
  (forall a, In a hops -> alookup cid a = None) ->
  exists fs' o',
    fold_left (fun v a => populate cid a v) hops (populate cid [(cid, PaVal (PVar k f))] (PPlural ck fs o)) = PPlural k fs' o'
    /\ hd_error (count_keys (PPlural k fs' o')) = Some (k, RPlural).
Proof.
  intros cid k f ck fs o hops. rewrite populate_plural. cbn [alookup]. rewrite N.eqb_refl.
  generalize (map (populate cid [(cid, PaVal (PVar k f))]) fs) as fs0. generalize (populate cid [(cid, PaVal (PVar k f))] o) as o0.
  induction hops as [|a r IH]; intros o0 fs0 H; cbn [fold_left].
  - exists fs0, o0. split; [reflexivity | apply count_keys_plural].
  - rewrite populate_plural, (H a (or_introl eq_refl)). apply IH. intros a' Ha'. apply H. right. exact Ha'.
Qed.

(** * The keys a range / plural closure clones = the union over its branches *)

Lemma branch_keys_run : forall bs, branch_keys bs = run (flat_map events bs) (ILit LString).
Proof.
  intros bs. unfold branch_keys. apply fold_res_run. apply Forall_forall. intros x _ s. apply gki_events.
Qed.

Lemma perm_flat_events : forall (bs bs' : list pv), Permutation bs bs' -> Permutation (flat_map events bs) (flat_map events bs').
Proof. intros bs bs' H. apply Permutation_flat_map. exact H. Qed.

(** C08_range_closure_keys_union: the collected keys are exactly the variables, components and counts occurring in some
    branch — literal-only branches contribute nothing and erase nothing — and do not depend on the order of the branches *)
Theorem range_closure_keys_union : forall bs s,
  branch_keys bs = KOk s ->
  sig_is s (flat_map events bs) /\
  (forall bs' s', Permutation bs bs' -> branch_keys bs' = KOk s' -> sig_equiv s s').
Proof.
  intros bs s H. rewrite branch_keys_run in H.
  assert (Hsig : forall l st, run (flat_map events l) (ILit LString) = KOk st -> sig_is st (flat_map events l)).
  { intros l st Hr. pose proof (run_inv (flat_map events l) [] (ILit LString) inv_start) as Hi. rewrite Hr in Hi.
    inversion Hi as [st' Hinv|]; subst. cbn [app] in Hinv. apply inv_sig_is. exact Hinv. }
  split; [apply Hsig; exact H|].
  intros bs' s' Hp H'. rewrite branch_keys_run in H'.
  destruct (Hsig _ _ H) as [A1 [B1 [C1 D1]]]. destruct (Hsig _ _ H') as [A2 [B2 [C2 D2]]].
  pose proof (perm_flat_events _ _ Hp) as Hpe.
  assert (Hin : forall (B : Type) (g : event -> list B) y,
             In y (flat_map g (flat_map events bs)) <-> In y (flat_map g (flat_map events bs'))).
  { intros B g y. split; apply Permutation_in; apply Permutation_flat_map; [exact Hpe | apply Permutation_sym; exact Hpe]. }
  unfold sig_equiv. repeat split.
  - intros Hx. apply A2. apply (Hin _ _ _). apply A1. exact Hx.
  - intros Hx. apply A1. apply (Hin _ _ _). apply A2. exact Hx.
  - intros Hx. apply B2. apply B1 in Hx. destruct Hx as [Hx|Hx]; [left|right];
      apply in_map_iff in Hx; destruct Hx as [p [Hp1 Hp2]]; apply in_map_iff; exists p; (split; [exact Hp1|]); apply (Hin _ _ _); exact Hp2.
  - intros Hx. apply B1. apply B2 in Hx. destruct Hx as [Hx|Hx]; [left|right];
      apply in_map_iff in Hx; destruct Hx as [p [Hp1 Hp2]]; apply in_map_iff; exists p; (split; [exact Hp1|]); apply (Hin _ _ _); exact Hp2.
  - intros Hx. apply C2. apply (Hin _ _ _). apply C1. exact Hx.
  - intros Hx. apply C1. apply (Hin _ _ _). apply C2. exact Hx.
  - intros x. destruct (ct (ikm s) x) as [t|] eqn:E1.
    + symmetry. apply D2. apply (Hin _ _ _). apply D1. exact E1.
    + destruct (ct (ikm s') x) as [t|] eqn:E2; [|reflexivity].
      apply D2 in E2. apply (Hin _ _ _) in E2. apply D1 in E2. congruence.
Qed.

(** with the count key added (repaired code), the closure owns a clone of the count too *)
Lemma closure_keys_count : forall ck bs s, closure_keys ck bs = KOk s -> In ck (map fst (sig_vars s)).
Proof.
  intros ck bs s H. unfold closure_keys in H. destruct (branch_keys bs) as [s0|e]; [|discriminate]. inversion H; subst.
  unfold sig_vars, push_var. cbn [ikm ik_vars]. apply keys_vmodify. left. reflexivity.
Qed.

(** the seeded variant (is_top = true) forgets the keys of the branches before a literal-only branch *)
Example branch_keys_top_loses :
  branch_keys [PVar 1 0; PLit LString] = KOk (IInterpol (mk_ik [] [(1, mk_vi [0] None)])) /\
  branch_keys_top [PVar 1 0; PLit LString] = KOk (ILit LString).
Proof. split; vm_compute; reflexivity. Qed.
