(** Executable specification of C19 and the correspondence predicate evaluated by checks/C19.py.
    The specification is written against the configuration as generated (raw table, file-system
    layout), not against the model's intermediate results. *)
From Coq Require Import List NArith Bool.
Import ListNotations.
From LI Require Import Base.StrOps Parser.Cfg.
Open Scope N_scope.

Inductive impl :=
| POk (c : config) (tracked : list str)   (* parse_locales_raw succeeded *)
| PErr (e : cfg_err)
| PDeser                                  (* any other toml / section error *)
| POther.

Record case := mk_case {
  k_fmt : N;                  (* harness build: 0 json, 1 yaml, 2 json5 *)
  k_dir : str;                (* manifest directory *)
  k_existing : list str;      (* files present under it *)
  k_raw : raw_cfg;            (* the table as generated *)
  k_malformed : bool;         (* the generator broke the TOML / a field type / left the section out *)
  k_impl : impl }.

Fixpoint nodup_s (l : list str) : bool :=
  match l with [] => true | x :: r => negb (smem x r) && nodup_s r end.
Definition count_s (x : str) (l : list str) : nat := length (filter (str_eqb x) l).
Fixpoint list_str_eqb (a b : list str) : bool :=
  match a, b with
  | [], [] => true
  | x :: xs, y :: ys => str_eqb x y && list_str_eqb xs ys
  | _, _ => false
  end.
Definition same_set (a b : list str) : bool :=
  forallb (fun x => smem x b) a && forallb (fun x => smem x a) b.
Definition same_multiset (a b : list str) : bool :=
  Nat.eqb (length a) (length b) && forallb (fun x => Nat.eqb (count_s x a) (count_s x b)) a.
Definition opt_str_eqb (a b : option str) : bool :=
  match a, b with Some x, Some y => str_eqb x y | None, None => true | _, _ => false end.
Definition pair_eqb (a b : str * str) : bool := str_eqb (fst a) (fst b) && str_eqb (snd a) (snd b).
Fixpoint pairs_eqb (a b : list (str * str)) : bool :=
  match a, b with
  | [], [] => true
  | x :: xs, y :: ys => pair_eqb x y && pairs_eqb xs ys
  | _, _ => false
  end.
Fixpoint sorted_keys (m : list (str * str)) : bool :=
  match m with
  | (k, _) :: (((k', _) :: _) as r) => str_ltb k k' && sorted_keys r
  | _ => true
  end.

Definition inherits_of (r : raw_cfg) : list (str * str) :=
  map (fun kv => (key_new (fst kv), key_new (snd kv))) (match r_inherits r with Some l => l | None => [] end).

(** the modelled domain: names (after trimming) are non-empty and contain neither '.' nor '/',
    `locales-dir` is non-empty, `inherits` keys are distinct *)
Definition plain_name (s : str) : bool :=
  negb (match s with [] => true | _ => false end) && forallb (fun c => negb (c =? dot) && negb (c =? slash)) s.
Definition in_domain (c : case) : bool :=
  let r := k_raw c in
  forallb plain_name (map key_new (match r_locales r with Some l => l | None => [] end))
  && forallb plain_name (map key_new (match r_namespaces r with Some l => l | None => [] end))
  && match r_default r with Some d => plain_name (key_new d) | None => true end
  && match r_locales_dir r with
     | Some (_ :: _) => true          (* relative or absolute (PathBuf::push replaces the path) *)
     | Some [] => false
     | None => true
     end
  && nodup_s (map fst (inherits_of r))
  && forallb (fun kv => plain_name (fst kv) && plain_name (snd kv)) (inherits_of r).

(** *** what the documentation promises *)
Definition should_reject (r : raw_cfg) : bool :=
  match r_default r, r_locales r with
  | Some d0, Some ls0 =>
      let d := key_new d0 in
      let ls := map key_new ls0 in
      let known x := str_eqb x d || smem x ls in      (* the default is always part of the list *)
      negb (nodup_s ls)
      || match r_namespaces r with Some n => negb (nodup_s (map key_new n)) | None => false end
      || existsb (fun kv => negb (known (fst kv)) || negb (known (snd kv))) (inherits_of r)
      || existsb (fun kv => str_eqb (fst kv) d) (inherits_of r)
  | _, _ => true
  end.

Definition duplicated (l : list str) : list str := filter (fun x => Nat.ltb 1 (count_s x l)) l.

Definition error_genuine (r : raw_cfg) (e : cfg_err) : bool :=
  let d := match r_default r with Some d0 => key_new d0 | None => [] end in
  let ls := map key_new (match r_locales r with Some l => l | None => [] end) in
  match e with
  | EMissingField w =>
      if w =? 0 then match r_default r with None => true | Some _ => false end
      else if w =? 1 then match r_locales r with None => true | Some _ => false end
      else false
  | EUnknownLocale x =>
      negb (str_eqb x d || smem x ls)
      && existsb (fun kv => str_eqb x (fst kv) || str_eqb x (snd kv)) (inherits_of r)
  | EDefaultInherits => existsb (fun kv => str_eqb (fst kv) d) (inherits_of r)
  | EDupLocales s => negb (nodup_s ls) && same_set s (duplicated ls) && nodup_s s
  | EDupNamespaces s =>
      let n := map key_new (match r_namespaces r with Some l => l | None => [] end) in
      negb (nodup_s n) && same_set s (duplicated n) && nodup_s s
  | ENotFound _ => false
  end.

(* success: default first, no duplicates, every listed locale kept, the other fields as written *)
Definition normal_form (r : raw_cfg) (c : config) : bool :=
  match r_default r, r_locales r with
  | Some d0, Some ls0 =>
      let d := key_new d0 in
      let ls := map key_new ls0 in
      str_eqb (cf_default c) d
      && match cf_locales c with x :: _ => str_eqb x d | [] => false end
      && nodup_s (cf_locales c)
      && same_multiset (cf_locales c) (if smem d ls then ls else d :: ls)
      && match cf_namespaces c, r_namespaces r with
         | Some a, Some b => list_str_eqb a (map key_new b)
         | None, None => true
         | _, _ => false
         end
      && str_eqb (cf_locales_dir c) (match r_locales_dir r with Some s => s | None => locales_default end)
      && opt_str_eqb (cf_translations_uri c) (r_translations_uri r)
      && sorted_keys (cf_extensions c)
      && Nat.eqb (length (cf_extensions c)) (length (inherits_of r))
      && forallb (fun kv => existsb (pair_eqb kv) (inherits_of r)) (cf_extensions c)
  | _, _ => false
  end.

(* the files read: for every namespace (outer) and locale (inner, in the configuration's order)
   `dir/locales-dir/locale[/namespace].ext` with the first extension of the format that exists *)
Definition expected_stems (dir : str) (c : config) : list str :=
  let base := push dir (cf_locales_dir c) in
  match cf_namespaces c with
  | None => map (fun l => push base l) (cf_locales c)
  | Some nss => flat_map (fun ns => map (fun l => push (push base l) ns) (cf_locales c)) nss
  end.
Definition first_existing (fmt : N) (existing : list str) (stem : str) : option str :=
  find (fun p => smem p existing) (map (with_ext stem) (file_exts fmt)).
Fixpoint paths_ok (fmt : N) (existing : list str) (stems tracked : list str) : bool :=
  match stems, tracked with
  | [], [] => true
  | s :: ss, t :: ts =>
      match first_existing fmt existing s with
      | Some p => str_eqb p t && paths_ok fmt existing ss ts
      | None => false
      end
  | _, _ => false
  end.
(* a NotFound error names all the candidates of a file of the configuration none of which exists *)
Definition not_found_genuine (c : case) (tried : list str) : bool :=
  let r := k_raw c in
  match r_default r, r_locales r with
  | Some d0, Some ls0 =>
      let d := key_new d0 in
      let ls := d :: map key_new ls0 in
      let dirn := match r_locales_dir r with Some s => s | None => locales_default end in
      let base := push (k_dir c) dirn in
      let stems := match r_namespaces r with
                   | None => map (fun l => push base l) ls
                   | Some nss => flat_map (fun ns => map (fun l => push (push base l) (key_new ns)) ls) nss
                   end in
      existsb (fun s => list_str_eqb tried (map (with_ext s) (file_exts (k_fmt c)))
                        && negb (existsb (fun p => smem p (k_existing c)) tried)) stems
  | _, _ => false
  end.

Definition spec_C19 (c : case) (i : impl) : bool :=
  if k_malformed c then match i with PDeser => true | _ => false end
  else
    match i with
    | POk cfg tracked =>
        negb (should_reject (k_raw c)) && normal_form (k_raw c) cfg
        && paths_ok (k_fmt c) (k_existing c) (expected_stems (k_dir c) cfg) tracked
    | PErr (ENotFound tried) => negb (should_reject (k_raw c)) && not_found_genuine c tried
    | PErr e => should_reject (k_raw c) && error_genuine (k_raw c) e
    | PDeser => false
    | POther => false
    end.

(** *** agreement with the model *)
Definition config_eqb (a b : config) : bool :=
  str_eqb (cf_default a) (cf_default b) && list_str_eqb (cf_locales a) (cf_locales b)
  && match cf_namespaces a, cf_namespaces b with
     | Some x, Some y => list_str_eqb x y
     | None, None => true
     | _, _ => false
     end
  && str_eqb (cf_locales_dir a) (cf_locales_dir b)
  && opt_str_eqb (cf_translations_uri a) (cf_translations_uri b)
  && pairs_eqb (cf_extensions a) (cf_extensions b).
Definition err_eqb (a b : cfg_err) : bool :=
  match a, b with
  | EMissingField x, EMissingField y => x =? y
  | EUnknownLocale x, EUnknownLocale y => str_eqb x y
  | EDefaultInherits, EDefaultInherits => true
  | EDupLocales x, EDupLocales y => list_str_eqb x y
  | EDupNamespaces x, EDupNamespaces y => list_str_eqb x y
  | ENotFound x, ENotFound y => list_str_eqb x y
  | _, _ => false
  end.
Definition model_impl (c : case) : impl :=
  match load (k_fmt c) (k_dir c) (k_existing c) (k_raw c) with
  | COk (cfg, t) => POk cfg t
  | CErr e => PErr e
  end.
Definition impl_eqb (a b : impl) : bool :=
  match a, b with
  | POk c t, POk c' t' => config_eqb c c' && list_str_eqb t t'
  | PErr e, PErr e' => err_eqb e e'
  | PDeser, PDeser => true
  | POther, POther => true
  | _, _ => false
  end.

(** 0 agree + spec; 1 outside the modelled domain; 2 differs from the model; 3 spec violated *)
Definition check (c : case) : N :=
  if negb (in_domain c) then 1
  else if negb (spec_C19 c (k_impl c)) then 3
  else if k_malformed c then 0
  else if negb (impl_eqb (model_impl c) (k_impl c)) then 2 else 0.
