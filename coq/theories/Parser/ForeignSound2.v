(** Soundness of foreign-key resolution, part 2 (property C06): (iv) the inlining semantics on the
    parsed values of printed well-formed sources coincides with the source-level inlining semantics
    [xdenote] of Foreign.v (the property's own words).  Scope: argument-less references, variables
    without formatter (the source AST [xitem] of Foreign.v has no formatter). *)
From Coq Require Import List NArith ZArith Bool Arith Lia Wf_nat.
Import ListNotations.
From LI Require Import Base.StrOps Base.StrLemmas Parser.Parse Parser.Json Parser.Reduce Parser.Source Parser.RoundTrip1
  Parser.RoundTrip4 Parser.ReduceProofs Parser.Foreign Parser.ForeignProofs Parser.ForeignSound
  Parser.RoundTripRef1 Parser.RoundTripRef2 Parser.RoundTripRef3.
Open Scope N_scope.

(** * [xdenote], unfolded one level, and its monotonicity in the fuel *)
Section X.
Variable src_of : str -> keypath -> option (option (list xitem)).
Variable dflt : str.
Variable inherits : list (str * str).
Notation xdenote := (xdenote src_of dflt inherits).

Definition xargs (rec : str -> list xitem -> option (list piece)) (L' : str) (args : list (str * xarg))
  : option (list (str * list piece)) :=
  fold_right (fun '(k, a) acc =>
     match acc with
     | None => None
     | Some r =>
         match a with
         | XALit l => Some ((s_var_ ++ k, [PcText (lit_display l)]) :: r)
         | XAStr its => match rec L' its with Some d => Some ((s_var_ ++ k, pc_norm d) :: r) | None => None end
         end
     end) (Some []) args.

Definition xone (rec : str -> list xitem -> option (list piece)) (L : str) (i : xitem) : option (list piece) :=
  match i with
  | XText s => Some [PcText s]
  | XVar n => Some [PcVar (s_var_ ++ n) FNone]
  | XComp n kids => match rec L kids with Some k => Some [PcComp (s_comp_ ++ n) (pc_norm k)] | None => None end
  | XRef ns path args =>
      let p := (ns, path) in
      let L' := match src_of L p with
                | Some (Some _) => L
                | _ => effective src_of dflt inherits (S (length inherits)) [L] L p
                end in
      match src_of L' p with
      | Some (Some src) =>
          match rec L' src with
          | Some body => match xargs rec L' args with Some a => Some (subst_pieces a (pc_norm body)) | None => None end
          | None => None
          end
      | _ => None
      end
  end.
Definition xseq (one : xitem -> option (list piece)) (items : list xitem) : option (list piece) :=
  fold_right (fun i acc => match one i, acc with Some a, Some b => Some (a ++ b) | _, _ => None end) (Some []) items.

Lemma xdenote_S f L items : xdenote (S f) L items = xseq (xone (xdenote f) L) items.
Proof. reflexivity. Qed.

Lemma xseq_cons one x r : xseq one (x :: r) = match one x, xseq one r with Some a, Some b => Some (a ++ b) | _, _ => None end.
Proof. reflexivity. Qed.
Lemma xseq_app one a b :
  xseq one (a ++ b) = match xseq one a, xseq one b with Some x, Some y => Some (x ++ y) | _, _ => None end.
Proof.
  induction a as [|i a IH]; cbn [app].
  - cbn [xseq fold_right]. fold (xseq one b). destruct (xseq one b); reflexivity.
  - rewrite !xseq_cons, IH. destruct (one i) as [di|]; [|reflexivity].
    destruct (xseq one a) as [da|]; [|reflexivity]. destruct (xseq one b) as [db|]; [|reflexivity].
    rewrite app_assoc. reflexivity.
Qed.

Definition xrec_le (r1 r2 : str -> list xitem -> option (list piece)) : Prop :=
  forall L its d, r1 L its = Some d -> r2 L its = Some d.

Lemma xargs_mono r1 r2 L args a : xrec_le r1 r2 -> xargs r1 L args = Some a -> xargs r2 L args = Some a.
Proof.
  intros Hle. revert a. induction args as [|[k x] t IH]; intros a H; cbn [xargs fold_right] in H |- *; [exact H|].
  fold (xargs r1 L t) in H. fold (xargs r2 L t).
  destruct (xargs r1 L t) as [r|]; [|discriminate]. rewrite (IH _ eq_refl).
  destruct x as [its|l]; [|exact H].
  destruct (r1 L its) as [d|] eqn:E; [|discriminate]. rewrite (Hle _ _ _ E). exact H.
Qed.
Lemma xone_mono r1 r2 L i a : xrec_le r1 r2 -> xone r1 L i = Some a -> xone r2 L i = Some a.
Proof.
  intros Hle H. destruct i as [s|n|n kids|ns path args]; cbn [xone] in H |- *; try exact H.
  - destruct (r1 L kids) as [k|] eqn:E; [|discriminate]. rewrite (Hle _ _ _ E). exact H.
  - cbv zeta in H |- *.
    match type of H with match src_of ?L' _ with _ => _ end = _ => set (L1 := L') in * end.
    destruct (src_of L1 (ns, path)) as [[src|]|]; try discriminate.
    destruct (r1 L1 src) as [body|] eqn:E; [|discriminate]. rewrite (Hle _ _ _ E).
    destruct (xargs r1 L1 args) as [a'|] eqn:Ea; [|discriminate]. rewrite (xargs_mono _ _ _ _ _ Hle Ea). exact H.
Qed.
Lemma xseq_mono (one1 one2 : xitem -> option (list piece)) items d :
  (forall i a, one1 i = Some a -> one2 i = Some a) -> xseq one1 items = Some d -> xseq one2 items = Some d.
Proof.
  intros Hle. revert d. induction items as [|i r IH]; intros d H; [exact H|].
  rewrite xseq_cons in H |- *. destruct (one1 i) as [a|] eqn:E; [|discriminate]. rewrite (Hle _ _ E).
  destruct (xseq one1 r) as [b|]; [|discriminate]. rewrite (IH _ eq_refl). exact H.
Qed.

Lemma xdenote_mono_S : forall f, xrec_le (xdenote f) (xdenote (S f)).
Proof.
  induction f as [|f IH]; intros L its d H; [discriminate|].
  rewrite xdenote_S in H. rewrite xdenote_S. eapply xseq_mono; [|exact H].
  intros i a Hi. eapply xone_mono; [exact IH | exact Hi].
Qed.
Lemma xdenote_mono f f' : (f <= f')%nat -> xrec_le (xdenote f) (xdenote f').
Proof.
  induction 1 as [|m Hle IH]; intros L its d H; [exact H|]. apply xdenote_mono_S. apply IH. exact H.
Qed.
(** the fuel does not matter once the semantics is defined *)
Lemma xdenote_fuel_irrelevant f f' L its d d' : xdenote f L its = Some d -> xdenote f' L its = Some d' -> d = d'.
Proof.
  intros H H'. destruct (Nat.le_ge_cases f f') as [Hle|Hle].
  - pose proof (xdenote_mono f f' Hle _ _ _ H). congruence.
  - pose proof (xdenote_mono f' f Hle _ _ _ H'). congruence.
Qed.
End X.

(** * inversion of [inline] *)
Section InlineInv.
Variable vals : values.
Variable dflt : str.
Variable inherits : list (str * str).
Notation inline := (inline vals dflt inherits).
Notation ilook := (ilook vals dflt inherits).
Notation walk := (walk vals dflt inherits).

Lemma inline_bloc3_inv f L a x b d : inline (S f) L (PBloc [a; x; b]) = Some d ->
  exists da dx db, inline f L a = Some da /\ inline f L x = Some dx /\ inline f L b = Some db /\ d = da ++ dx ++ db.
Proof.
  cbn [ForeignSound.inline fold_right]. intros H.
  destruct (inline f L a) as [da|]; [|discriminate].
  destruct (inline f L x) as [dx|]; [|discriminate].
  destruct (inline f L b) as [db|]; [|discriminate].
  inversion H; subst. exists da, dx, db. rewrite app_nil_r. auto.
Qed.
Lemma inline_var_inv f L k fm d : inline f L (PVar k fm) = Some d -> d = [PcVar k fm].
Proof. destruct f; cbn [ForeignSound.inline]; intros H; inversion H; reflexivity. Qed.
Lemma inline_lit_inv f L l d : inline f L (PLit l) = Some d -> d = [PcText (lit_display l)].
Proof. destruct f; cbn [ForeignSound.inline]; intros H; inversion H; reflexivity. Qed.
Lemma inline_comp_inv f L k m d : inline f L (PComp k m) = Some d ->
  exists f0 dm, f = S f0 /\ inline f0 L m = Some dm /\ d = [PcComp k (pc_norm dm)].
Proof.
  destruct f as [|f0]; cbn [ForeignSound.inline]; intros H; [discriminate|].
  destruct (inline f0 L m) as [dm|] eqn:E; [|discriminate]. inversion H; subst. exists f0, dm. auto.
Qed.
Lemma inline_foreign_inv f L ns p args d : inline f L (PForeign ns p args) = Some d ->
  exists f0, f = S f0 /\ ilook (inline f0) 2 (ns, p) args L = Some d.
Proof. destruct f as [|f0]; cbn [ForeignSound.inline]; intros H; [discriminate|]. exists f0. auto. Qed.

(** the inherits walk stops at the default locale or at a locale that defines the target *)
Lemma walk_spec target : forall fuel visited cur,
  walk fuel visited cur target = dflt \/
  exists nd, get_value_at vals (walk fuel visited cur target) target = Some nd /\ nd <> NDefault.
Proof.
  induction fuel as [|f IH]; intros visited cur; cbn [Foreign.walk]; [left; reflexivity|].
  destruct (assoc cur inherits) as [next|]; [|left; reflexivity].
  destruct (mem_str next visited); [left; reflexivity|].
  destruct (get_value_at vals next target) as [[T| |sub]|] eqn:E.
  - right. exists (NVal T). split; [exact E | discriminate].
  - apply IH.
  - right. exists (NSub sub). split; [exact E | discriminate].
  - apply IH.
Qed.

(** a defined argument-less lookup: the target value, its locale, and how the locale was chosen *)
Lemma ilook2_inv rec target L d : ilook rec 2 target [] L = Some d ->
  exists L' T body, get_value_at vals L' target = Some (NVal T) /\ rec L' T = Some body
    /\ d = subst_pieces [] (pc_norm body)
    /\ ((L' = L) \/ (get_value_at vals L target = Some NDefault /\ L' = walk (S (length inherits)) [L] L target)).
Proof.
  intros H. cbn [ForeignSound.ilook] in H.
  destruct (get_value_at vals L target) as [[T| |sub]|] eqn:E0; try discriminate.
  - destruct (rec L T) as [body|] eqn:Er; [|discriminate]. cbn [iargs fold_right] in H. inversion H; subst.
    exists L, T, body. repeat split; auto.
  - destruct (str_eqb L dflt); [discriminate|].
    set (L1 := walk (S (length inherits)) [L] L target) in *.
    destruct (get_value_at vals L1 target) as [[T| |sub]|] eqn:E1; try discriminate.
    + destruct (rec L1 T) as [body|] eqn:Er; [|discriminate]. cbn [iargs fold_right] in H. inversion H; subst.
      exists L1, T, body. repeat split; auto.
    + destruct (str_eqb L1 dflt) eqn:Ed; [discriminate|]. exfalso.
      destruct (walk_spec target (S (length inherits)) [L] L) as [Hw|(nd & Hn & Hd)]; fold L1 in Hw || fold L1 in Hn.
      * rewrite Hw, str_eqb_refl in Ed. discriminate.
      * rewrite E1 in Hn. inversion Hn; subst. congruence.
Qed.
End InlineInv.

(** * source items of the scope, as the source AST of Foreign.v *)
Fixpoint to_x (i : ritem) : xitem :=
  match i with
  | RText s => XText s
  | RVar _ n _ _ => XVar n
  | RComp _ n _ kids _ _ _ => XComp n (map to_x kids)
  | RRef ns path => XRef (option_map seg_name ns) (map seg_name path) []
  end.
(** no formatter anywhere *)
Fixpoint plain (i : ritem) : bool :=
  match i with
  | RText _ | RRef _ _ => true
  | RVar _ _ _ fm => match fm with None => true | Some _ => false end
  | RComp _ _ _ kids _ _ _ => forallb plain kids
  end.

Lemma plain_split a y b : forallb plain (a ++ y :: b) = true -> forallb plain a = true /\ plain y = true /\ forallb plain b = true.
Proof.
  rewrite forallb_app. cbn [forallb]. intros H. apply andb_true_iff in H as [H1 H2]. apply andb_true_iff in H2 as [H2 H3]. auto.
Qed.

Section Sound.
Variable idc : str -> idres.
Variable json_args : str -> res (list (str * jarg)).
Variable vals : values.
Variable dflt : str.
Variable inherits : list (str * str).
(** the sources written in the project: [Some None] = null, [None] = absent or a group *)
Variable src_of : str -> keypath -> option (option (list ritem)).

Definition xsrc (L : str) (p : keypath) : option (option (list xitem)) :=
  match src_of L p with
  | Some (Some its) => Some (Some (map to_x its))
  | Some None => Some None
  | None => None
  end.

(** the project's values are the parses of its printed sources *)
Definition proj_rel : Prop := forall L p,
  match src_of L p with
  | Some (Some items) =>
      ritems_wfb idc items = true /\ forallb plain items = true /\
      exists v, parse_top idc json_args true (rprint_list items) = Ok v /\ get_value_at vals L p = Some (NVal v)
  | Some None => get_value_at vals L p = Some NDefault
  | None => get_value_at vals L p = None \/ exists sub, get_value_at vals L p = Some (NSub sub)
  end.

Hypothesis HP : proj_rel.

Lemma gv_val L p T : get_value_at vals L p = Some (NVal T) ->
  exists items, src_of L p = Some (Some items) /\ ritems_wfb idc items = true /\ forallb plain items = true /\ Rep T items.
Proof.
  intros H. pose proof (HP L p) as Hp. destruct (src_of L p) as [[items|]|].
  - destruct Hp as (W & Pl & v & Ev & Eg). rewrite Eg in H. inversion H; subst.
    destruct (roundtrip_ref_top idc json_args items W) as (v' & Ev' & R). rewrite Ev in Ev'. inversion Ev'; subst.
    exists items. auto.
  - rewrite Hp in H. discriminate.
  - destruct Hp as [Hp|[sub Hp]]; rewrite Hp in H; discriminate.
Qed.
Lemma gv_default L p : get_value_at vals L p = Some NDefault -> src_of L p = Some None.
Proof.
  intros H. pose proof (HP L p) as Hp. destruct (src_of L p) as [[items|]|]; [| reflexivity |].
  - destruct Hp as (_ & _ & v & _ & Eg). rewrite Eg in H. discriminate.
  - destruct Hp as [Hp|[sub Hp]]; rewrite Hp in H; discriminate.
Qed.
Lemma gv_absent L p : (get_value_at vals L p = None \/ exists sub, get_value_at vals L p = Some (NSub sub)) -> src_of L p = None.
Proof.
  intros H. pose proof (HP L p) as Hp. destruct (src_of L p) as [[items|]|]; [| | reflexivity].
  - destruct Hp as (_ & _ & v & _ & Eg). rewrite Eg in H. destruct H as [H|[sub H]]; discriminate.
  - rewrite Hp in H. destruct H as [H|[sub H]]; discriminate.
Qed.

(** the locale chosen by the resolver's walk is the one the source semantics designates *)
Lemma walk_effective target : forall fuel visited cur T,
  get_value_at vals (walk vals dflt inherits fuel visited cur target) target = Some (NVal T) ->
  effective xsrc dflt inherits fuel visited cur target = walk vals dflt inherits fuel visited cur target.
Proof.
  induction fuel as [|f IH]; intros visited cur T H; cbn [Foreign.walk effective] in *; [reflexivity|].
  destruct (assoc cur inherits) as [next|]; [|reflexivity].
  destruct (mem_str next visited); [reflexivity|].
  destruct (get_value_at vals next target) as [[T'| |sub]|] eqn:E.
  - destruct (gv_val _ _ _ E) as (items & Es & _). unfold xsrc. rewrite Es. reflexivity.
  - unfold xsrc at 1. rewrite (gv_default _ _ E). eapply IH; exact H.
  - rewrite E in H. discriminate.
  - unfold xsrc at 1. rewrite (gv_absent next target (or_introl E)). eapply IH; exact H.
Qed.

Lemma xseq_texts one l : (forall s, one (XText s) = Some [PcText s]) -> forallb is_rtext l = true ->
  xseq one (map to_x l) = Some (map PcText (map rprint l)).
Proof.
  intros Ho. induction l as [|x r IH]; intros H; [reflexivity|].
  cbn [forallb] in H. apply andb_true_iff in H as [Hx Hr]. destruct x; try discriminate.
  cbn [map to_x rprint]. rewrite xseq_cons, Ho, IH by exact Hr. reflexivity.
Qed.

Notation xden := (xdenote xsrc dflt inherits).
Notation inl := (inline vals dflt inherits).

(** (iv) inline on the parse of a printed source = xdenote on the source *)
Theorem inline_xdenote : forall f L v items d,
  Rep v items -> forallb plain items = true -> inl f L v = Some d ->
  exists d', xden f L (map to_x items) = Some d' /\ pc_norm d' = pc_norm d.
Proof.
  induction f as [f IH] using lt_wf_ind. intros L v items d HR.
  destruct f as [|f]; [intros _ H; discriminate|].
  assert (IHm : forall L v items d, Rep v items -> forallb plain items = true -> inl f L v = Some d ->
                exists d', xseq (xone xsrc dflt inherits (xden f) L) (map to_x items) = Some d' /\ pc_norm d' = pc_norm d).
  { intros L0 v0 items0 d0 R0 P0 I0. destruct (IH f (Nat.lt_succ_diag_r f) _ _ _ _ R0 P0 I0) as (d' & E' & N').
    exists d'. split; [|exact N']. rewrite <- xdenote_S. apply (xdenote_mono_S xsrc dflt inherits f). exact E'. }
  destruct HR as [l Ht|vb va pre w1 n w2 fm rest Rb Ra|vb vm va pre w1 n w2 kids a b c rest Rb Rm Ra|vb va pre ns path rest Rb Ra];
    intros Hpl Hin.
  - (* a run of text *)
    apply inline_lit_inv in Hin. subst d. rewrite xdenote_S.
    rewrite (xseq_texts _ l (fun s => eq_refl) Ht). eexists. split; [reflexivity|].
    cbn [lit_display]. apply pc_norm_texts.
  - (* variable *)
    destruct (plain_split _ _ _ Hpl) as (Pb & Py & Pa).
    destruct (inline_bloc3_inv _ _ _ _ _ _ _ _ _ Hin) as (db & dx & da & Eb & Ex & Ea & ->).
    apply inline_var_inv in Ex. subst dx.
    destruct (IHm _ _ _ _ Rb Pb Eb) as (db' & Eb' & Nb). destruct (IHm _ _ _ _ Ra Pa Ea) as (da' & Ea' & Na).
    rewrite xdenote_S, map_app, xseq_app. cbn [map]. rewrite xseq_cons, Eb', Ea'.
    cbn [to_x xone]. eexists. split; [reflexivity|].
    cbn [plain] in Py. destruct fm; [discriminate|]. cbn [fmt_of].
    apply pc_norm_congr; [exact Nb|]. apply pc_norm_congr; [reflexivity | exact Na].
  - (* component *)
    destruct (plain_split _ _ _ Hpl) as (Pb & Py & Pa). cbn [plain] in Py.
    destruct (inline_bloc3_inv _ _ _ _ _ _ _ _ _ Hin) as (db & dx & da & Eb & Ex & Ea & ->).
    destruct (inline_comp_inv _ _ _ _ _ _ _ _ Ex) as (f0 & dm & -> & Em & ->).
    destruct (IHm _ _ _ _ Rb Pb Eb) as (db' & Eb' & Nb). destruct (IHm _ _ _ _ Ra Pa Ea) as (da' & Ea' & Na).
    destruct (IH f0 ltac:(lia) _ _ _ _ Rm Py Em) as (dm' & Em' & Nm).
    apply (xdenote_mono_S xsrc dflt inherits f0) in Em'.
    rewrite xdenote_S, map_app, xseq_app. cbn [map]. rewrite xseq_cons, Eb', Ea'.
    cbn [to_x xone]. rewrite Em'. eexists. split; [reflexivity|].
    apply pc_norm_congr; [exact Nb|]. apply pc_norm_congr; [rewrite Nm; reflexivity | exact Na].
  - (* reference *)
    destruct (plain_split _ _ _ Hpl) as (Pb & _ & Pa).
    destruct (inline_bloc3_inv _ _ _ _ _ _ _ _ _ Hin) as (db & dx & da & Eb & Ex & Ea & ->).
    destruct (inline_foreign_inv _ _ _ _ _ _ _ _ _ Ex) as (f0 & -> & El).
    destruct (IHm _ _ _ _ Rb Pb Eb) as (db' & Eb' & Nb). destruct (IHm _ _ _ _ Ra Pa Ea) as (da' & Ea' & Na).
    destruct (ilook2_inv _ _ _ _ _ _ _ El) as (L' & T & body & Eg & Er & -> & HL).
    destruct (gv_val _ _ _ Eg) as (items' & Es & W' & P' & R').
    destruct (IH f0 ltac:(lia) _ _ _ _ R' P' Er) as (body' & Ebody & Nbody).
    apply (xdenote_mono_S xsrc dflt inherits f0) in Ebody.
    set (tgt := (option_map seg_name ns, map seg_name path)) in *.
    assert (EL : match xsrc L tgt with
                 | Some (Some _) => L
                 | _ => effective xsrc dflt inherits (S (length inherits)) [L] L tgt
                 end = L').
    { destruct HL as [->|[E0 ->]].
      - unfold xsrc at 1. rewrite Es. reflexivity.
      - unfold xsrc at 1. rewrite (gv_default _ _ E0). eapply walk_effective. exact Eg. }
    rewrite xdenote_S, map_app, xseq_app. cbn [map]. rewrite xseq_cons, Eb', Ea'.
    cbn [to_x xone]. fold tgt. cbv zeta. rewrite EL. unfold xsrc at 1. rewrite Es. rewrite Ebody.
    cbn [xargs fold_right]. eexists. split; [reflexivity|].
    apply pc_norm_congr; [exact Nb|]. apply pc_norm_congr; [rewrite Nbody; reflexivity | exact Na].
Qed.

(** * end to end: the final value of a key denotes the source-level inlining semantics of its source *)
Theorem final_value_xdenote ns L path items v r' :
  src_of L (ns, path) = Some (Some items) -> get_value_at vals L (ns, path) = Some (NVal v) ->
  final_value vals dflt inherits ns L path (NVal v) = Ok (Some r') ->
  (exists d, xden 200 L (map to_x items) = Some d /\ pieces r' = pc_norm d) /\
  (forall fuel d, xden fuel L (map to_x items) = Some d -> pieces r' = pc_norm d).
Proof.
  intros Es Eg Hf.
  destruct (gv_val _ _ _ Eg) as (items' & Es' & W & Pl & R). rewrite Es in Es'. inversion Es'; subst items'.
  destruct (final_value_inline _ _ _ _ _ _ _ _ Hf) as (di & Ei & Pi).
  destruct (inline_xdenote _ _ _ _ _ R Pl Ei) as (d' & Ed' & Nd').
  assert (P' : pieces r' = pc_norm d') by (rewrite Pi, Nd'; reflexivity).
  split; [exists d'; split; [exact Ed' | exact P']|].
  intros fuel d Hd. rewrite (xdenote_fuel_irrelevant _ _ _ _ _ _ _ _ _ Hd Ed'). exact P'.
Qed.
End Sound.
