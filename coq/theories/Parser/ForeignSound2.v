(** Soundness of foreign-key resolution, part 2 (property C06): (iv) the inlining semantics on the
    parsed values of printed well-formed sources coincides with the source-level inlining semantics
    [xdenote] of Foreign.v (the property's own words).  Scope: argument-less references, variables
    without formatter (the source AST [xitem] of Foreign.v has no formatter). *)
From Coq Require Import List NArith ZArith Bool Arith Lia Wf_nat.
Import ListNotations.
From LI Require Import Base.StrOps Base.StrLemmas Parser.Parse Parser.Json Parser.Reduce Parser.Source Parser.RoundTrip1
  Parser.RoundTrip4 Parser.ReduceProofs Parser.Foreign Parser.ForeignProofs Parser.ForeignSound
  Parser.RoundTripRef1 Parser.RoundTripRef2 Parser.RoundTripRef3.
Open Scope N_scope.

(** * [xdenote], unfolded one level, and its monotonicity in the fuel *)
Section X.
Variable src_of : str -> keypath -> option (option (list xitem)).
Variable dflt : str.
Variable inherits : list (str * str).
Notation xdenote := (xdenote src_of dflt inherits).

Definition xargs (rec : str -> list xitem -> option (list piece)) (L' : str) (args : list (str * xarg))
  : option (list (str * list piece)) :=
  fold_right (fun '(k, a) acc =>
     match acc with
     | None => None
     | Some r =>
         match a with
         | XALit l => Some ((s_var_ ++ k, [PcText (lit_display l)]) :: r)
         | XAStr its => match rec L' its with Some d => Some ((s_var_ ++ k, pc_norm d) :: r) | None => None end
         end
     end) (Some []) args.

Definition xone (rec : str -> list xitem -> option (list piece)) (L : str) (i : xitem) : option (list piece) :=
  match i with
  | XText s => Some [PcText s]
  | XVar n => Some [PcVar (s_var_ ++ n) FNone]
  | XComp n kids => match rec L kids with Some k => Some [PcComp (s_comp_ ++ n) (pc_norm k)] | None => None end
  | XRef ns path args =>
      let p := (ns, path) in
      let L' := match src_of L p with
                | Some (Some _) => L
                | _ => effective src_of dflt inherits (S (length inherits)) [L] L p
                end in
      match src_of L' p with
      | Some (Some src) =>
          match rec L' src with
          | Some body => match xargs rec L args with Some a => Some (subst_pieces a (pc_norm body)) | None => None end
          | None => None
          end
      | _ => None
      end
  end.
Definition xseq (one : xitem -> option (list piece)) (items : list xitem) : option (list piece) :=
  fold_right (fun i acc => match one i, acc with Some a, Some b => Some (a ++ b) | _, _ => None end) (Some []) items.

Lemma xdenote_S f L items : xdenote (S f) L items = xseq (xone (xdenote f) L) items.
Proof. reflexivity. Qed.

Lemma xseq_cons one x r : xseq one (x :: r) = match one x, xseq one r with Some a, Some b => Some (a ++ b) | _, _ => None end.
Proof. reflexivity. Qed.
Lemma xseq_app one a b :
  xseq one (a ++ b) = match xseq one a, xseq one b with Some x, Some y => Some (x ++ y) | _, _ => None end.
Proof.
  induction a as [|i a IH]; cbn [app].
  - cbn [xseq fold_right]. fold (xseq one b). destruct (xseq one b); reflexivity.
  - rewrite !xseq_cons, IH. destruct (one i) as [di|]; [|reflexivity].
    destruct (xseq one a) as [da|]; [|reflexivity]. destruct (xseq one b) as [db|]; [|reflexivity].
    rewrite app_assoc. reflexivity.
Qed.

Definition xrec_le (r1 r2 : str -> list xitem -> option (list piece)) : Prop :=
  forall L its d, r1 L its = Some d -> r2 L its = Some d.

Lemma xargs_mono r1 r2 L args a : xrec_le r1 r2 -> xargs r1 L args = Some a -> xargs r2 L args = Some a.
Proof.
  intros Hle. revert a. induction args as [|[k x] t IH]; intros a H; cbn [xargs fold_right] in H |- *; [exact H|].
  fold (xargs r1 L t) in H. fold (xargs r2 L t).
  destruct (xargs r1 L t) as [r|]; [|discriminate]. rewrite (IH _ eq_refl).
  destruct x as [its|l]; [|exact H].
  destruct (r1 L its) as [d|] eqn:E; [|discriminate]. rewrite (Hle _ _ _ E). exact H.
Qed.
Lemma xone_mono r1 r2 L i a : xrec_le r1 r2 -> xone r1 L i = Some a -> xone r2 L i = Some a.
Proof.
  intros Hle H. destruct i as [s|n|n kids|ns path args]; cbn [xone] in H |- *; try exact H.
  - destruct (r1 L kids) as [k|] eqn:E; [|discriminate]. rewrite (Hle _ _ _ E). exact H.
  - cbv zeta in H |- *.
    match type of H with match src_of ?L' _ with _ => _ end = _ => set (L1 := L') in * end.
    destruct (src_of L1 (ns, path)) as [[src|]|]; try discriminate.
    destruct (r1 L1 src) as [body|] eqn:E; [|discriminate]. rewrite (Hle _ _ _ E).
    destruct (xargs r1 L args) as [a'|] eqn:Ea; [|discriminate]. rewrite (xargs_mono _ _ _ _ _ Hle Ea). exact H.
Qed.
Lemma xseq_mono (one1 one2 : xitem -> option (list piece)) items d :
  (forall i a, one1 i = Some a -> one2 i = Some a) -> xseq one1 items = Some d -> xseq one2 items = Some d.
Proof.
  intros Hle. revert d. induction items as [|i r IH]; intros d H; [exact H|].
  rewrite xseq_cons in H |- *. destruct (one1 i) as [a|] eqn:E; [|discriminate]. rewrite (Hle _ _ E).
  destruct (xseq one1 r) as [b|]; [|discriminate]. rewrite (IH _ eq_refl). exact H.
Qed.

Lemma xdenote_mono_S : forall f, xrec_le (xdenote f) (xdenote (S f)).
Proof.
  induction f as [|f IH]; intros L its d H; [discriminate|].
  rewrite xdenote_S in H. rewrite xdenote_S. eapply xseq_mono; [|exact H].
  intros i a Hi. eapply xone_mono; [exact IH | exact Hi].
Qed.
Lemma xdenote_mono f f' : (f <= f')%nat -> xrec_le (xdenote f) (xdenote f').
Proof.
  induction 1 as [|m Hle IH]; intros L its d H; [exact H|]. apply xdenote_mono_S. apply IH. exact H.
Qed.
(** the fuel does not matter once the semantics is defined *)
Lemma xdenote_fuel_irrelevant f f' L its d d' : xdenote f L its = Some d -> xdenote f' L its = Some d' -> d = d'.
Proof.
  intros H H'. destruct (Nat.le_ge_cases f f') as [Hle|Hle].
  - pose proof (xdenote_mono f f' Hle _ _ _ H). congruence.
  - pose proof (xdenote_mono f' f Hle _ _ _ H'). congruence.
Qed.
End X.

(** * inversion of [inline] *)
Section InlineInv.
Variable vals : values.
Variable dflt : str.
Variable inherits : list (str * str).
Notation inline := (inline vals dflt inherits).
Notation ilook := (ilook vals dflt inherits).
Notation walk := (walk vals dflt inherits).

Lemma inline_bloc3_inv f L a x b d : inline (S f) L (PBloc [a; x; b]) = Some d ->
  exists da dx db, inline f L a = Some da /\ inline f L x = Some dx /\ inline f L b = Some db /\ d = da ++ dx ++ db.
Proof.
  cbn [ForeignSound.inline fold_right]. intros H.
  destruct (inline f L a) as [da|]; [|discriminate].
  destruct (inline f L x) as [dx|]; [|discriminate].
  destruct (inline f L b) as [db|]; [|discriminate].
  inversion H; subst. exists da, dx, db. rewrite app_nil_r. auto.
Qed.
Lemma inline_var_inv f L k fm d : inline f L (PVar k fm) = Some d -> d = [PcVar k fm].
Proof. destruct f; cbn [ForeignSound.inline]; intros H; inversion H; reflexivity. Qed.
Lemma inline_lit_inv f L l d : inline f L (PLit l) = Some d -> d = [PcText (lit_display l)].
Proof. destruct f; cbn [ForeignSound.inline]; intros H; inversion H; reflexivity. Qed.
Lemma inline_comp_inv f L k m d : inline f L (PComp k m) = Some d ->
  exists f0 dm, f = S f0 /\ inline f0 L m = Some dm /\ d = [PcComp k (pc_norm dm)].
Proof.
  destruct f as [|f0]; cbn [ForeignSound.inline]; intros H; [discriminate|].
  destruct (inline f0 L m) as [dm|] eqn:E; [|discriminate]. inversion H; subst. exists f0, dm. auto.
Qed.
Lemma inline_foreign_inv f L ns p args d : inline f L (PForeign ns p args) = Some d ->
  exists f0, f = S f0 /\ ilook (inline f0) 2 (ns, p) args L L = Some d.
Proof. destruct f as [|f0]; cbn [ForeignSound.inline]; intros H; [discriminate|]. exists f0. auto. Qed.

(** the inherits walk stops at the default locale or at a locale that defines the target *)
Lemma walk_spec target : forall fuel visited cur,
  walk fuel visited cur target = dflt \/
  exists nd, get_value_at vals (walk fuel visited cur target) target = Some nd /\ nd <> NDefault.
Proof.
  induction fuel as [|f IH]; intros visited cur; cbn [Foreign.walk]; [left; reflexivity|].
  destruct (assoc cur inherits) as [next|]; [|left; reflexivity].
  destruct (mem_str next visited); [left; reflexivity|].
  destruct (get_value_at vals next target) as [[T| |sub]|] eqn:E.
  - right. exists (NVal T). split; [exact E | discriminate].
  - apply IH.
  - right. exists (NSub sub). split; [exact E | discriminate].
  - apply IH.
Qed.

(** a defined argument-less lookup: the target value, its locale, and how the locale was chosen *)
Lemma ilook2_inv rec target A L d : ilook rec 2 target [] A L = Some d ->
  exists L' T body, get_value_at vals L' target = Some (NVal T) /\ rec L' T = Some body
    /\ d = subst_pieces [] (pc_norm body)
    /\ ((L' = L) \/ (get_value_at vals L target = Some NDefault /\ L' = walk (S (length inherits)) [L] L target)).
Proof.
  intros H. cbn [ForeignSound.ilook] in H.
  destruct (get_value_at vals L target) as [[T| |sub]|] eqn:E0; try discriminate.
  - destruct (rec L T) as [body|] eqn:Er; [|discriminate]. cbn [iargs fold_right] in H. inversion H; subst.
    exists L, T, body. repeat split; auto.
  - destruct (str_eqb L dflt); [discriminate|].
    set (L1 := walk (S (length inherits)) [L] L target) in *.
    destruct (get_value_at vals L1 target) as [[T| |sub]|] eqn:E1; try discriminate.
    + destruct (rec L1 T) as [body|] eqn:Er; [|discriminate]. cbn [iargs fold_right] in H. inversion H; subst.
      exists L1, T, body. repeat split; auto.
    + destruct (str_eqb L1 dflt) eqn:Ed; [discriminate|]. exfalso.
      destruct (walk_spec target (S (length inherits)) [L] L) as [Hw|(nd & Hn & Hd)]; fold L1 in Hw || fold L1 in Hn.
      * rewrite Hw, str_eqb_refl in Ed. discriminate.
      * rewrite E1 in Hn. inversion Hn; subst. congruence.
Qed.
End InlineInv.

(** * source items of the scope, as the source AST of Foreign.v *)
Fixpoint ato_x (a : aitem) : xitem :=
  match a with
  | AText s => XText s
  | AVar _ n _ _ => XVar n
  | AComp _ n _ kids _ _ _ => XComp n (map ato_x kids)
  | ARef ns path => XRef (option_map seg_name ns) (map seg_name path) []
  end.
Definition xarg_of (a : rarg) : xarg := match a with RAStr its => XAStr (map ato_x its) | RALit l => XALit l end.
Fixpoint to_x (i : ritem) : xitem :=
  match i with
  | RText s => XText s
  | RVar _ n _ _ => XVar n
  | RComp _ n _ kids _ _ _ => XComp n (map to_x kids)
  | RRef ns path => XRef (option_map seg_name ns) (map seg_name path) []
  | RRefA ns path args =>
      XRef (option_map seg_name ns) (map seg_name path) (map (fun ka => (fst ka, xarg_of (snd ka))) args)
  end.
(** no formatter anywhere (the source AST [xitem] has none) *)
Fixpoint aplain (a : aitem) : bool :=
  match a with
  | AVar _ _ _ (Some _) => false
  | AComp _ _ _ kids _ _ _ => forallb aplain kids
  | _ => true
  end.
Definition rarg_plain (a : rarg) : bool := match a with RAStr its => forallb aplain its | RALit _ => true end.
Fixpoint plain (i : ritem) : bool :=
  match i with
  | RText _ | RRef _ _ => true
  | RVar _ _ _ fm => match fm with None => true | Some _ => false end
  | RComp _ _ _ kids _ _ _ => forallb plain kids
  | RRefA _ _ args => forallb (fun ka => rarg_plain (snd ka)) args
  end.

Lemma to_x_a2r : forall a, to_x (a2r a) = ato_x a.
Proof.
  apply aitem_ind2; try reflexivity.
  intros w1 n w2 kids a b c IH. cbn [a2r to_x ato_x]. f_equal. rewrite map_map.
  induction IH as [|k r Hk Hr IHr]; [reflexivity|]. cbn [map]. rewrite Hk, IHr. reflexivity.
Qed.
Lemma plain_a2r : forall a, plain (a2r a) = aplain a.
Proof.
  apply aitem_ind2; try reflexivity.
  intros w1 n w2 kids a b c IH. cbn [a2r plain aplain].
    induction IH as [|k r Hk Hr IHr]; [reflexivity|]. cbn [map forallb]. rewrite Hk, IHr. reflexivity.
Qed.

Lemma plain_split a y b : forallb plain (a ++ y :: b) = true -> forallb plain a = true /\ plain y = true /\ forallb plain b = true.
Proof.
  rewrite forallb_app. cbn [forallb]. intros H. apply andb_true_iff in H as [H1 H2]. apply andb_true_iff in H2 as [H2 H3]. auto.
Qed.
