(** Bridge between the project files of a correspondence case and the model (property C06), part 3:
    [fcase_wfb]: the case's files are the printed sources of its source table; for such a case the
    executable predicate [spec_C06] holds of the model's output ([spec_of_model]).
    Rejections: every error of the resolver is one of the four foreign-key kinds, the driver reports
    the first failing registered value in its order, planted defects give the expected kind. *)
From Coq Require Import List NArith ZArith Bool Arith Lia.
Import ListNotations.
From LI Require Import Base.StrOps Base.StrLemmas Parser.Parse Parser.Json Parser.Reduce Parser.Source Parser.ParseCheck
  Parser.RoundTrip2 Parser.ReduceProofs Parser.Foreign Parser.ForeignProofs Parser.ForeignCheck Parser.ForeignSound
  Parser.RoundTripRef1 Parser.ForeignFull Parser.ForeignSound4 Parser.ForeignSound7 Parser.ForeignBridge1 Parser.ForeignBridge2.
Open Scope N_scope.

(** * the well-formedness of a case: its files are its source table, printed *)
Definition src_entry := (option str * str * list str * option (list xitem))%type.
Definition src_key (e : src_entry) : option str * str * list str := let '(ns, l, p, _) := e in (ns, l, p).

(** keys unique per object, no literal leaf (a literal leaf has no source in the table) *)
Fixpoint jnode_ok (j : jnode) : bool :=
  match j with
  | JStr _ | JNull => true
  | JLitv _ => false
  | JObj ms =>
      nodup_strs (map fst ms) &&
      (fix go (ms : list (str * jnode)) : bool := match ms with [] => true | (_, j') :: r => jnode_ok j' && go r end) ms
  end.
Fixpoint nodup_keys (l : list src_entry) : bool :=
  match l with
  | [] => true
  | e :: r => negb (existsb (fun e' => entry_key_eqb (src_key e) (src_key e')) r) && nodup_keys r
  end.
Fixpoint files_nodup (l : list jfile) : bool :=
  match l with
  | [] => true
  | (ns, lo, _) :: r => negb (existsb (file_is ns lo) r) && files_nodup r
  end.
(** a leaf of the files against an entry of the table: the printed source, or null *)
Definition jleaf_matches (j : jnode) (s : option (list xitem)) : bool :=
  match j, s with
  | JStr t, Some items => str_eqb t (xprint_list items)
  | JNull, None => true
  | _, _ => false
  end.

Definition fcase_wfb (c : fcase) : bool :=
  (* the case is expected to load *)
  (match f_expect c with None => true | Some _ => false end)
  (* one file per (namespace, locale); keys unique per object *)
  && files_nodup (f_files c)
  && forallb (fun f : jfile => let '(_, _, ms) := f in jnode_ok (JObj ms)) (f_files c)
  (* the table lists a key once; every source is well formed; at every listed key the files hold
     the printed source (null for [None]) *)
  && nodup_keys (f_src c)
  && forallb (fun e : src_entry => let '(ns, l, p, s) := e in
        (match s with Some items => xitems_wf ident_check items | None => true end)
        && match jget (f_files c) l (ns, p) with Some j => jleaf_matches j s | None => false end) (f_src c)
  (* every leaf of the files is listed *)
  && forallb (fun lf : jleaf_entry => let '(ns, l, q, _) := lf in
        existsb (fun e => entry_key_eqb (ns, l, q) (src_key e)) (f_src c)) (all_jleaves (f_files c)).

(** * the table as a function *)
Fixpoint src_find (l : list src_entry) (k : option str * str * list str) : option (option (list xitem)) :=
  match l with
  | [] => None
  | (n, lo, pa, s) :: r => if entry_key_eqb k (n, lo, pa) then Some s else src_find r k
  end.
Lemma src_lookup_find srcs L p : src_lookup srcs L p = src_find srcs (fst p, L, snd p).
Proof.
  induction srcs as [|[[[n lo] pa] s] r IH]; [reflexivity|].
  change (src_lookup ((n, lo, pa, s) :: r) L p) with (if entry_key_eqb (fst p, L, snd p) (n, lo, pa) then Some s else src_lookup r L p).
  rewrite IH. reflexivity.
Qed.
Lemma src_find_some l k s : src_find l k = Some s -> In (fst (fst k), snd (fst k), snd k, s) l.
Proof.
  induction l as [|[[[n lo] pa] s'] r IH]; [discriminate|]. cbn [src_find]. destruct (entry_key_eqb k (n, lo, pa)) eqn:E; intros H.
  - inversion H; subst. apply entry_key_eqb_eq in E. subst k. left. reflexivity.
  - right. apply IH. exact H.
Qed.
Lemma src_find_none l k : src_find l k = None -> forall e, In e l -> entry_key_eqb k (src_key e) = false.
Proof.
  induction l as [|[[[n lo] pa] s'] r IH]; intros H e Hin; [destruct Hin|]. cbn [src_find] in H.
  destruct (entry_key_eqb k (n, lo, pa)) eqn:E; [discriminate|]. destruct Hin as [<-|Hin]; [exact E | apply IH; assumption].
Qed.
Lemma src_find_in l ns lo p s : nodup_keys l = true -> In (ns, lo, p, s) l -> src_find l (ns, lo, p) = Some s.
Proof.
  induction l as [|[[[n' lo'] pa'] s'] r IH]; intros Hn Hin; [destruct Hin|].
  cbn [nodup_keys] in Hn. apply andb_true_iff in Hn as [Hx Hr]. cbn [src_find]. destruct Hin as [E|Hin].
  - inversion E; subst. assert (Ek : entry_key_eqb (ns, lo, p) (ns, lo, p) = true) by (apply entry_key_eqb_eq; reflexivity).
    rewrite Ek. reflexivity.
  - destruct (entry_key_eqb (ns, lo, p) (n', lo', pa')) eqn:E.
    + exfalso. apply entry_key_eqb_eq in E. inversion E; subst. apply negb_true_iff in Hx.
      assert (Hex : existsb (fun e' => entry_key_eqb (src_key (n', lo', pa', s')) (src_key e')) r = true).
      { apply existsb_exists. exists (n', lo', pa', s). split; [exact Hin|]. apply entry_key_eqb_eq. reflexivity. }
      congruence.
    + apply IH; assumption.
Qed.

Lemma build_leaf_inv j n : build_node model_parse j = Ok n -> nis_leaf n = true -> jis_leaf j = true.
Proof.
  destruct j as [s| |l|ms]; try reflexivity. rewrite build_node_obj. destruct (build_members model_parse ms); cbn [bind]; try discriminate.
  intros H. inversion H; subst. discriminate.
Qed.

Lemma final_value_nval_some vals d i ns l p v val :
  final_value vals d i ns l p (NVal v) = Ok val -> exists r', val = Some r'.
Proof.
  cbn [final_value]. intros Erun. destruct (resolve vals d i 200 [(l, (ns, p))] l v); cbn [bind] in Erun; try discriminate.
  match type of Erun with bind ?X _ = _ => destruct X end; cbn [bind] in Erun; try discriminate. inversion Erun. eexists. reflexivity.
Qed.

(** * the executable predicate holds of the model's output *)
Lemma run_of_eq vals d i ns l p n : run_of vals d i (ns, l, p, n) = final_value vals d i ns l p n.
Proof. reflexivity. Qed.
Lemma model_parse_eq s : model_parse s = parse_top ident_check json_args_model true s.
Proof. reflexivity. Qed.

Section Spec.
Variable files : list jfile.
Variable srcs : list src_entry.
Variable vals : values.
Hypothesis Eb : build_values files = Ok vals.
Hypothesis Wnd : nodup_keys srcs = true.
Hypothesis Wsrc : forall e, In e srcs -> (let '(ns, l, p, s) := e in
        (match s with Some items => xitems_wf ident_check items | None => true end)
        && match jget files l (ns, p) with Some j => jleaf_matches j s | None => false end) = true.
Hypothesis Wleaves : forall lf, In lf (all_jleaves files) -> (let '(ns, l, q, _) := lf in
        existsb (fun e => entry_key_eqb (ns, l, q) (src_key e)) srcs) = true.

(** what a listed key holds *)
Lemma wf_entry ns l p s : In (ns, l, p, s) srcs ->
  match s with
  | Some items => xitems_wf ident_check items = true /\
                  exists v, parse_top ident_check json_args_model true (xprint_list items) = Ok v /\ get_value_at vals l (ns, p) = Some (NVal v)
  | None => get_value_at vals l (ns, p) = Some NDefault
  end.
Proof.
  intros Hin. pose proof (Wsrc _ Hin) as We. cbn beta iota in We. apply andb_true_iff in We as [Wx Wj].
  pose proof (build_values_lookup files vals l (ns, p) Eb) as Hr. destruct (jget files l (ns, p)) as [j|]; [|discriminate]. cbn [node_rel] in Hr.
  destruct Hr as (n & Eg & En). destruct j as [t| |lit|ms], s as [items|]; cbn [jleaf_matches] in Wj; try discriminate.
  - apply str_eqb_eq in Wj. subst t. cbn [build_node] in En.
    destruct (model_parse (xprint_list items)) as [v| | | |] eqn:Ev; cbn [bind] in En; try discriminate. inversion En; subst n.
    rewrite model_parse_eq in Ev. split; [exact Wx|]. exists v. auto.
  - inversion En; subst n. exact Eg.
Qed.

(** the hypothesis of the soundness theorem *)
Lemma wf_src_hyp : forall L p, match src_lookup srcs L p with
               | Some (Some items) =>
                   xitems_wf ident_check items = true /\
                   exists v, parse_top ident_check json_args_model true (xprint_list items) = Ok v /\ get_value_at vals L p = Some (NVal v)
               | Some None => get_value_at vals L p = Some NDefault
               | None => get_value_at vals L p = None \/ exists sub, get_value_at vals L p = Some (NSub sub)
               end.
Proof.
  intros L [nsq pq]. rewrite src_lookup_find. cbn [fst snd].
  destruct (src_find srcs (nsq, L, pq)) as [s|] eqn:Es.
  - apply src_find_some in Es. cbn [fst snd] in Es. apply (wf_entry _ _ _ _ Es).
  - destruct (get_value_at vals L (nsq, pq)) as [n|] eqn:Eg; [|left; reflexivity].
    destruct (nis_leaf n) eqn:El; [|destruct n; try discriminate; right; eexists; reflexivity].
    exfalso. pose proof (build_values_lookup files vals L (nsq, pq) Eb) as Hr.
    destruct (jget files L (nsq, pq)) as [j|] eqn:Ej; cbn [node_rel] in Hr.
    + destruct Hr as (n' & En' & Eb'). rewrite Eg in En'. inversion En'; subst n'.
      pose proof (build_leaf_inv j n Eb' El) as Hjl.
      pose proof (jget_leaf_in files L nsq pq j Ej Hjl) as Hin.
      pose proof (Wleaves _ Hin) as Hex. cbn beta iota in Hex. apply existsb_exists in Hex as (e & He & Hk).
      rewrite (src_find_none srcs _ Es e He) in Hk. discriminate.
    + rewrite Eg in Hr. discriminate.
Qed.

(** one listed source against the collected entries *)
Lemma wf_clause dflt inherits ents ns l p items :
  collect (run_of vals dflt inherits) (all_leaves vals) = Ok ents -> In (ns, l, p, Some items) srcs ->
  match xdenote (src_lookup srcs) dflt inherits 40 l items, find_entry (ns, l, p) ents with
  | Some d, Some (Some v) => pieces_eqb (pieces v) (pc_norm d)
  | None, _ => true
  | _, _ => false
  end = true.
Proof.
  intros H Hin. destruct (wf_entry _ _ _ _ Hin) as (Wx & v & Ev & Eg).
  pose proof (get_value_at_lfind vals l ns p (NVal v) Eg eq_refl) as Hf.
  destruct (collect_find _ _ _ _ _ H Hf) as (val & Erun & Efind). rewrite Efind.
  rewrite run_of_eq in Erun.
  destruct (final_value_nval_some _ _ _ _ _ _ _ _ Erun) as (r' & ->).
  destruct (xdenote (src_lookup srcs) dflt inherits 40 l items) as [d|] eqn:Ed; [|reflexivity].
  assert (Es : src_lookup srcs l (ns, p) = Some (Some items)).
  { rewrite src_lookup_find. cbn [fst snd]. apply src_find_in; assumption. }
  rewrite (sound_holds ident_check vals dflt inherits (src_lookup srcs) wf_src_hyp ns l p items v r' Es Eg Erun 40%nat d Ed).
  apply pieces_eqb_refl.
Qed.
End Spec.

Theorem spec_of_model c ents : fcase_wfb c = true -> model_project c = Ok ents ->
  spec_C06 (mk_fcase (f_default c) (f_inherits c) (f_files c) (f_src c) None (Ok ents)) = true.
Proof.
  intros W H. rewrite model_project_drive in H.
  destruct (build_values (f_files c)) as [vals| | | |] eqn:Eb; cbn [bind] in H; try discriminate.
  unfold drive in H.
  match type of H with bind ?X _ = _ => destruct X as [[]| | | |] end; cbn [bind] in H; try discriminate.
  unfold fcase_wfb in W. repeat (apply andb_true_iff in W as [W ?]).
  match goal with Hx : forallb _ (all_jleaves _) = true |- _ => rename Hx into Wleaves end.
  match goal with Hx : forallb _ (f_src c) = true |- _ => rename Hx into Wsrc end.
  match goal with Hx : nodup_keys _ = true |- _ => rename Hx into Wnd end.
  rewrite forallb_forall in Wsrc, Wleaves.
  unfold spec_C06. cbn [f_expect f_impl f_src f_default f_inherits].
  apply forallb_forall. intros [[[ns l] p] s] Hin. destruct s as [items|]; [|reflexivity].
  exact (wf_clause (f_files c) (f_src c) vals Eb Wnd Wsrc Wleaves (f_default c) (f_inherits c) ents ns l p items H Hin).
Qed.

(** * rejections *)
Definition fk_kind (k : N) : Prop :=
  k = E_MissingForeignKey \/ k = E_InvalidForeignKey \/ k = E_RecursiveForeignKey \/ k = E_ExplicitDefaultInDefault.

Section Errors.
Variable vals : values.
Variable dflt : str.
Variable inherits : list (str * str).

Definition rec_kinds (rec : list (str * keypath) -> str -> pv -> res pv) : Prop :=
  forall st l v k, rec st l v = Err k -> fk_kind k.

Lemma resolve_args_kinds rec stack L args k : rec_kinds rec -> resolve_args rec stack L args = Err k -> fk_kind k.
Proof.
  intros Hr. induction args as [|[ka a] t IH]; cbn [resolve_args fold_right]; [discriminate|].
  fold (resolve_args rec stack L t). intros H.
  destruct (rec stack L a) as [a'| | | |] eqn:Ea; cbn [bind] in H; try discriminate.
  - destruct (resolve_args rec stack L t) as [r'| | | |]; cbn [bind] in H; try discriminate. apply IH. exact H.
  - inversion H; subst. eapply Hr. exact Ea.
Qed.
Lemma look_kinds rec : rec_kinds rec -> forall n stack target args A L k,
  look vals dflt inherits rec n stack target args A L = Err k -> fk_kind k.
Proof.
  intros Hr. induction n as [|n IHn]; intros stack target args A L k H; cbn [Foreign.look] in H;
    destruct (get_value_at vals L target) as [[T| |sub]|].
  - destruct (on_stack L target stack); [inversion H; subst; unfold fk_kind; auto|].
    destruct (rec ((L, target) :: stack) L T) as [T'| | | |] eqn:ET; cbn [bind] in H; try discriminate.
    + destruct (resolve_args rec stack A args) as [args'| | | |] eqn:EA; cbn [bind] in H; try discriminate.
      inversion H; subst. eapply resolve_args_kinds; eassumption.
    + inversion H; subst. eapply Hr. exact ET.
  - destruct (str_eqb L dflt); [inversion H; subst; unfold fk_kind; auto | discriminate].
  - destruct (resolve_args rec stack A args) as [args'| | | |] eqn:EA; cbn [bind] in H; try discriminate.
    + inversion H; subst. unfold fk_kind. auto.
    + inversion H; subst. eapply resolve_args_kinds; eassumption.
  - inversion H; subst. unfold fk_kind. auto.
  - destruct (on_stack L target stack); [inversion H; subst; unfold fk_kind; auto|].
    destruct (rec ((L, target) :: stack) L T) as [T'| | | |] eqn:ET; cbn [bind] in H; try discriminate.
    + destruct (resolve_args rec stack A args) as [args'| | | |] eqn:EA; cbn [bind] in H; try discriminate.
      inversion H; subst. eapply resolve_args_kinds; eassumption.
    + inversion H; subst. eapply Hr. exact ET.
  - destruct (str_eqb L dflt); [inversion H; subst; unfold fk_kind; auto | eapply IHn; exact H].
  - destruct (resolve_args rec stack A args) as [args'| | | |] eqn:EA; cbn [bind] in H; try discriminate.
    + inversion H; subst. unfold fk_kind. auto.
    + inversion H; subst. eapply resolve_args_kinds; eassumption.
  - inversion H; subst. unfold fk_kind. auto.
Qed.

(** every error of the resolver is a foreign-key error: missing / group / recursive / explicit default *)
Theorem resolve_err_kinds : forall fuel, rec_kinds (resolve vals dflt inherits fuel).
Proof.
  induction fuel as [|f IH]; intros stack L v k H; [discriminate|].
  destruct v as [l|kk fm|kk i|l|ns p args]; cbn [Foreign.resolve] in H; try discriminate.
  - destruct (resolve vals dflt inherits f stack L i) as [i'| | | |] eqn:E; cbn [bind] in H; try discriminate.
    inversion H; subst. eapply IH. exact E.
  - match type of H with bind ?X _ = _ => destruct X as [l'| | | |] eqn:E end; cbn [bind] in H; try discriminate.
    inversion H; subst. clear H. revert k E. induction l as [|x t IHl]; intros k E; cbn [fold_right] in E; [discriminate|].
    destruct (resolve vals dflt inherits f stack L x) as [x'| | | |] eqn:Ex; cbn [bind] in E; try discriminate.
    + match type of E with bind ?X _ = _ => destruct X as [t'| | | |] eqn:Et end; cbn [bind] in E; try discriminate.
      inversion E; subst. apply IHl. reflexivity.
    + inversion E; subst. eapply IH. exact Ex.
  - eapply look_kinds; [exact IH | exact H].
Qed.

Theorem final_value_err_kinds ns L path n k : final_value vals dflt inherits ns L path n = Err k -> fk_kind k.
Proof.
  destruct n as [v| |sub]; cbn [final_value]; try discriminate. intros H.
  destruct (resolve vals dflt inherits 200 [(L, (ns, path))] L v) as [r| | | |] eqn:E; cbn [bind] in H; try discriminate.
  - destruct (resolve_then_reduce _ _ _ _ _ _ _ _ E) as (r' & Er & _). rewrite Er in H. discriminate.
  - inversion H; subst. eapply resolve_err_kinds. exact E.
Qed.

(** a reference in second position of a bloc whose first element resolves *)
Lemma resolve_bloc3_err f stack L b F a b' k :
  resolve vals dflt inherits f stack L b = Ok b' -> resolve vals dflt inherits f stack L F = Err k ->
  resolve vals dflt inherits (S f) stack L (PBloc [b; F; a]) = Err k.
Proof. intros Hb HF. cbn [Foreign.resolve fold_right]. rewrite Hb. cbn [bind]. rewrite HF. reflexivity. Qed.

Lemma kp_eqb_refl p : kp_eqb p p = true.
Proof.
  destruct p as [ns path]. unfold kp_eqb. cbn [fst snd]. apply andb_true_iff. split.
  - destruct ns; cbn [opt_str_eqb']; [apply str_eqb_refl | reflexivity].
  - induction path as [|x r IH]; [reflexivity|]. cbn [strs_eqb']. rewrite str_eqb_refl. exact IH.
Qed.

(** planted defects: the value printed as `$t(target …)` (possibly followed by more) *)
Theorem final_value_missing ns L path lit tns tp args a :
  get_value_at vals L (tns, tp) = None ->
  final_value vals dflt inherits ns L path (NVal (PBloc [PLit lit; PForeign tns tp args; a])) = Err E_MissingForeignKey.
Proof.
  intros H. cbn [final_value]. change 200%nat with (S (S 198)).
  rewrite (resolve_bloc3_err (S 198) _ L (PLit lit) (PForeign tns tp args) a (PLit lit) E_MissingForeignKey eq_refl); [reflexivity|].
  apply resolve_missing. exact H.
Qed.
Theorem final_value_group ns L path lit tns tp a sub :
  get_value_at vals L (tns, tp) = Some (NSub sub) ->
  final_value vals dflt inherits ns L path (NVal (PBloc [PLit lit; PForeign tns tp []; a])) = Err E_InvalidForeignKey.
Proof.
  intros H. cbn [final_value]. change 200%nat with (S (S 198)).
  rewrite (resolve_bloc3_err (S 198) _ L (PLit lit) (PForeign tns tp []) a (PLit lit) E_InvalidForeignKey eq_refl); [reflexivity|].
  eapply resolve_group. exact H.
Qed.
(** a value that refers to itself *)
Theorem final_value_self_cycle ns L path lit args a T :
  get_value_at vals L (ns, path) = Some (NVal T) ->
  final_value vals dflt inherits ns L path (NVal (PBloc [PLit lit; PForeign ns path args; a])) = Err E_RecursiveForeignKey.
Proof.
  intros H. cbn [final_value]. change 200%nat with (S (S 198)).
  rewrite (resolve_bloc3_err (S 198) _ L (PLit lit) (PForeign ns path args) a (PLit lit) E_RecursiveForeignKey eq_refl); [reflexivity|].
  eapply resolve_cycle; [exact H|]. unfold on_stack. cbn [existsb fst snd]. rewrite str_eqb_refl, kp_eqb_refl. reflexivity.
Qed.
End Errors.

(** the driver reports the error of the first failing registered value, in its order *)
Lemma check_reg_first run pre e post k : Forall (run_ok run) pre -> run e = Err k -> check_reg run (pre ++ e :: post) = Err k.
Proof.
  intros Hpre He. unfold check_reg. rewrite fold_left_app.
  assert (E : fold_left (fun acc e0 => bind acc (fun _ => bind (run e0) (fun _ => Ok tt))) pre (Ok tt) = Ok tt).
  { apply check_reg_acc. split; [reflexivity | exact Hpre]. }
  rewrite E. cbn [fold_left bind]. rewrite He. cbn [bind].
  induction post as [|x r IH]; [reflexivity|]. cbn [fold_left bind]. exact IH.
Qed.
Theorem model_project_first_error c vals pre e post k :
  build_values (f_files c) = Ok vals ->
  sort_reg (filter (fun '(_, _, _, n) => node_has_foreign n) (all_leaves vals)) = pre ++ e :: post ->
  Forall (run_ok (run_of vals (f_default c) (f_inherits c))) pre ->
  run_of vals (f_default c) (f_inherits c) e = Err k ->
  model_project c = Err k.
Proof.
  intros Eb Es Hpre He. rewrite model_project_drive, Eb. cbn [bind]. unfold drive. rewrite Es.
  match goal with |- context [check_reg ?r ?l] =>
    replace (check_reg r l) with (@Err unit k) by (symmetry; apply check_reg_first; assumption) end.
  reflexivity.
Qed.

Lemma fold_err_acc (run : reg_entry -> res (option pv)) reg k :
  fold_left (fun acc e => bind acc (fun _ => bind (run e) (fun _ => Ok tt))) reg (Err k) = Err k.
Proof. induction reg as [|x r IH]; [reflexivity|]. cbn [fold_left bind]. exact IH. Qed.
Lemma check_reg_err run reg k : check_reg run reg = Err k -> exists e, In e reg /\ run e = Err k.
Proof.
  unfold check_reg. induction reg as [|x r IH]; intros H; [discriminate|].
  cbn [fold_left bind] in H. destruct (run x) as [v| | | |] eqn:E; cbn [bind] in H.
  - destruct (IH H) as (e & Hin & He). exists e. split; [right; exact Hin | exact He].
  - rewrite fold_err_acc in H. inversion H; subst. exists x. split; [left; reflexivity | exact E].
  - exfalso. clear -H. induction r as [|y r IHr]; [discriminate|]. cbn [fold_left bind] in H. apply IHr. exact H.
  - exfalso. clear -H. induction r as [|y r IHr]; [discriminate|]. cbn [fold_left bind] in H. apply IHr. exact H.
  - exfalso. clear -H. induction r as [|y r IHr]; [discriminate|]. cbn [fold_left bind] in H. apply IHr. exact H.
Qed.
Lemma collect_err run lv k : collect run lv = Err k -> exists e, In e lv /\ run e = Err k.
Proof.
  induction lv as [|[[[ns l] p] n] r IH]; intros H; [discriminate|]. cbn [collect fold_right] in H. fold (collect run r) in H.
  destruct (run (ns, l, p, n)) as [v| | | |] eqn:E; cbn [bind] in H; try discriminate.
  - destruct (collect run r) as [r'| | | |] eqn:Er; cbn [bind] in H; try discriminate.
    inversion H; subst. destruct (IH eq_refl) as (e & Hin & He). exists e. split; [right; exact Hin | exact He].
  - inversion H; subst. exists (ns, l, p, n). split; [left; reflexivity | exact E].
Qed.

(** a rejection of the model is a load error of some file or a foreign-key error of some value *)
Theorem model_project_err c k : model_project c = Err k ->
  build_values (f_files c) = Err k \/ (exists vals, build_values (f_files c) = Ok vals /\ fk_kind k).
Proof.
  rewrite model_project_drive. destruct (build_values (f_files c)) as [vals| | | |] eqn:Eb; cbn [bind]; try discriminate.
  - intros H. right. exists vals. split; [reflexivity|]. unfold drive in H.
    destruct (check_reg (run_of vals (f_default c) (f_inherits c)) _) as [[]| | | |] eqn:Ec; cbn [bind] in H; try discriminate.
    + apply collect_err in H as ([[[ns l] p] n] & _ & He). eapply final_value_err_kinds. exact He.
    + inversion H; subst. apply check_reg_err in Ec as ([[[ns l] p] n] & _ & He). eapply final_value_err_kinds. exact He.
  - intros H. left. inversion H; subst. reflexivity.
Qed.

(** the predicate on a rejected case: the model's error kind is the expected one *)
Theorem spec_of_model_reject c k : f_expect c = Some k -> model_project c = Err k ->
  spec_C06 (mk_fcase (f_default c) (f_inherits c) (f_files c) (f_src c) (Some k) (model_project c)) = true.
Proof. intros _ H. unfold spec_C06. cbn [f_expect f_impl]. rewrite H. apply N.eqb_refl. Qed.
