(** Round trip of the documented value grammar: main theorem (property C01).
    For every well-formed source (text / {{var[, formatter]}} / <comp>…</comp> nested to any depth,
    same-name nesting included, any whitespace padding the grammar allows), parsing the printed source
    succeeds and the value denotes exactly the pieces the source says. *)
From Coq Require Import List NArith ZArith Bool Arith Lia.
Import ListNotations.
From LI Require Import Base.StrOps Base.StrLemmas Parser.Parse Parser.Reduce Parser.Source Parser.Scan
  Parser.RoundTrip1 Parser.RoundTrip2 Parser.RoundTrip3 Parser.RoundTrip4 Parser.ReduceProofs.
Open Scope N_scope.
Local Notation item := Source.item.
Ltac slia := unfold str, char in *; lia.

Section RT.
Variable idc : str -> idres.
Variable json_args : str -> res (list (str * jarg)).
Notation item_wfb := (item_wfb idc).
Notation items_wfb := (items_wfb idc).

Lemma items_wfb_split a y b : items_wfb (a ++ y :: b) = true ->
  items_wfb a = true /\ item_wfb y = true /\ items_wfb b = true.
Proof.
  unfold RoundTrip2.items_wfb. rewrite forallb_app. cbn [forallb]. intros H.
  apply andb_true_iff in H as [H1 H2]. apply andb_true_iff in H2 as [H2 H3]. auto.
Qed.

Lemma all_text_denote l :
  forallb (fun x => negb (is_comp x)) l = true -> forallb (fun x => negb (is_var x)) l = true ->
  map denote l = map PcText (map print l).
Proof.
  induction l as [|x r IH]; intros Hc Hv; [reflexivity|].
  cbn [forallb] in Hc, Hv. apply andb_true_iff in Hc as [Hc1 Hc2]. apply andb_true_iff in Hv as [Hv1 Hv2].
  cbn [map]. rewrite IH by assumption. destruct x; try discriminate. reflexivity.
Qed.

Lemma forallb_app_l {A} (f : A -> bool) a b : forallb f (a ++ b) = true -> forallb f a = true.
Proof. rewrite forallb_app. intros H. apply andb_true_iff in H as [H _]. exact H. Qed.
Lemma forallb_app_r {A} (f : A -> bool) a y b : forallb f (a ++ y :: b) = true -> forallb f b = true.
Proof. rewrite forallb_app. cbn [forallb]. intros H. apply andb_true_iff in H as [_ H]. apply andb_true_iff in H as [_ H]. exact H. Qed.

Theorem roundtrip : forall fuel items,
  (length (print_list items) < fuel)%nat -> items_wfb items = true ->
  exists v, parse idc json_args true fuel (print_list items) = Ok v
            /\ pc_norm (pieces_raw v) = denote_list items /\ no_foreign v = true.
Proof.
  induction fuel as [|fuel IH]; intros items Hlen Hwf; [slia|].
  cbn [parse]. unfold parse_step.
  (* no `$` at all: the component-first test is false *)
  assert (Hcf : comp_first idc true (print_list items) = Ok false).
  { unfold comp_first. change s_fk with (c_dollar :: [c_t; c_lp]).
    rewrite split_once_no_char by (apply items_no_dollar with (idc := idc); exact Hwf). reflexivity. }
  rewrite Hcf. cbn [bind]. unfold parse_chain.
  (* no foreign key *)
  assert (Hfk : find_foreign_key idc json_args true (parse idc json_args true fuel) (print_list items) = Ok None).
  { unfold find_foreign_key. change s_fk with (c_dollar :: [c_t; c_lp]).
    rewrite split_once_no_char by (apply items_no_dollar with (idc := idc); exact Hwf). reflexivity. }
  rewrite Hfk. cbn [bind].
  destruct (split_first is_comp items) as [[[pre y] rest]|] eqn:Esc.
  - (* a first component *)
    destruct (split_first_some _ _ _ _ _ Esc) as (Eit & Hy & Hpre).
    destruct y as [|?|w1 n w2 kids a b c]; try discriminate.
    subst items. destruct (items_wfb_split _ _ _ Hwf) as (Wpre & Wy & Wrest).
    unfold find_component.
    rewrite (find_valid_component_printed idc pre w1 n w2 kids a b c rest _ Wpre Hpre Wy Wrest).
    cbn [bind].
    assert (Wkids : items_wfb kids = true).
    { cbn [RoundTrip2.item_wfb] in Wy. apply andb_true_iff in Wy as [_ Wk]. exact Wk. }
    assert (Elen : (length (print_list pre) + length (print_list kids) + length (print_list rest) + 2
                    <= length (print_list (pre ++ SComp w1 n w2 kids a b c :: rest)))%nat).
    { rewrite print_list_app, print_list_cons, print_comp. unfold open_tag. repeat (rewrite app_length; cbn [length]). slia. }
    destruct (IH pre ltac:(slia) Wpre) as (vb & Eb & Pb & Nb).
    destruct (IH kids ltac:(slia) Wkids) as (vm & Em & Pm & Nm).
    destruct (IH rest ltac:(slia) Wrest) as (va & Ea & Pa & Na).
    rewrite Eb, Em, Ea. cbn [bind].
    eexists. split; [reflexivity|]. split; [|cbn [no_foreign forallb]; rewrite Nb, Nm, Na; reflexivity].
    cbn [pieces_raw flat_map]. unfold denote_list. rewrite map_app. cbn [map denote].
    apply pc_norm_congr; [exact Pb|].
    change (PcComp (s_comp_ ++ n) (pc_norm (map denote kids)) :: map denote rest)
      with ([PcComp (s_comp_ ++ n) (pc_norm (map denote kids))] ++ map denote rest).
    apply pc_norm_congr.
    + rewrite Pm. reflexivity.
    + rewrite app_nil_r. exact Pa.
  - (* no component at all *)
    pose proof (split_first_none _ _ Esc) as Hnc.
    assert (Hcomp : find_component idc true (parse idc json_args true fuel) (print_list items) = Ok None).
    { unfold find_component. cbn [find_valid_component]. rewrite drop_bytes_0.
      unfold find_opening_tag. rewrite split_once_c_none by (apply noncomps_no_lt with (idc := idc); assumption). reflexivity. }
    rewrite Hcomp. cbn [bind].
    destruct (split_first is_var items) as [[[pre y] rest]|] eqn:Esv.
    + (* a first variable *)
      destruct (split_first_some _ _ _ _ _ Esv) as (Eit & Hy & Hpre).
      destruct y as [|w1 n w2 fm|]; try discriminate.
      subst items. destruct (items_wfb_split _ _ _ Hwf) as (Wpre & Wy & Wrest).
      rewrite (find_variable_printed idc _ pre w1 n w2 fm rest Wpre (forallb_app_l _ _ _ Hnc) Hpre Wy).
      assert (Elen : (length (print_list pre) + 2 + length (print_list rest)
                      <= length (print_list (pre ++ SVar w1 n w2 fm :: rest)))%nat).
      { rewrite print_list_app, print_list_cons. cbn [print]. unfold s_open_var. repeat (rewrite app_length; cbn [length]). slia. }
      destruct (IH pre ltac:(slia) Wpre) as (vb & Eb & Pb & Nb).
      destruct (IH rest ltac:(slia) Wrest) as (va & Ea & Pa & Na).
      rewrite Eb, Ea. cbn [bind].
      eexists. split; [reflexivity|]. split; [|cbn [no_foreign forallb]; rewrite Nb, Na; reflexivity].
      cbn [pieces_raw flat_map]. unfold denote_list. rewrite map_app. cbn [map denote].
      apply pc_norm_congr; [exact Pb|].
      change (PcVar (s_var_ ++ n) match fm with Some (_, _, f) => f | None => FNone end :: map denote rest)
        with ([PcVar (s_var_ ++ n) (fmt_of fm)] ++ map denote rest).
      apply pc_norm_congr; [reflexivity|]. rewrite app_nil_r. exact Pa.
    + (* only text *)
      pose proof (split_first_none _ _ Esv) as Hnv.
      assert (Hvar : find_variable idc (parse idc json_args true fuel) (print_list items) = Ok None).
      { unfold find_variable. change s_open_var with (c_lb :: [c_lb]).
        rewrite split_once_no_char by (apply texts_no_lb with (idc := idc); assumption). reflexivity. }
      rewrite Hvar. cbn [bind].
      eexists. split; [reflexivity|]. split; [|reflexivity].
      cbn [pieces_raw lit_display]. unfold denote_list. rewrite (all_text_denote items Hnc Hnv).
      rewrite pc_norm_texts. reflexivity.
Qed.

(** with the top-level fuel of ParsedValue::new *)
Corollary roundtrip_top items : items_wfb items = true ->
  exists v, parse_top idc json_args true (print_list items) = Ok v /\ pieces v = denote_list items /\ no_foreign v = true.
Proof. intros H. unfold parse_top, pieces. apply roundtrip; [slia | exact H]. Qed.

(** ... and after ParsedValue::reduce, which is what the code generator consumes *)
Corollary roundtrip_reduced items : items_wfb items = true ->
  exists v r, parse_top idc json_args true (print_list items) = Ok v /\ reduce v = Ok r
              /\ pieces r = denote_list items.
Proof.
  intros H. destruct (roundtrip_top items H) as (v & E & P & N).
  destruct (reduce_pieces v N) as (r & Er & Pr). exists v, r. repeat split; [exact E | exact Er | rewrite Pr; exact P].
Qed.
End RT.
