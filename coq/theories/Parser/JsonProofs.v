(** The JSON argument reader used by the correspondence satisfies the hypotheses of the totality
    theorem: it never panics, never runs out of fuel, and every string it returns is strictly
    shorter than its input.  Hence [model_parse] itself — the exact function the correspondence
    runs — is covered by a closed theorem (property C09). *)
From Coq Require Import List NArith ZArith Bool Arith Lia.
Import ListNotations.
From LI Require Import Base.StrOps Base.StrLemmas Parser.Parse Parser.Json Parser.ParseTotal Parser.ParseCheck.
Open Scope N_scope.

Ltac slia := unfold str, char in *; lia.

Lemma skip_jws_length s : (length (skip_jws s) <= length s)%nat.
Proof. induction s as [|c r IH]; cbn [skip_jws length]; [slia|]. destruct (is_jws c); cbn [length]; slia. Qed.

Definition jstring_ok (s : str) : Prop :=
  safe (read_jstring s) /\
  forall t rest, read_jstring s = Ok (t, rest) -> (length rest < length s)%nat /\ (length t < length s)%nat.

Lemma read_jstring_spec_n : forall n s, (length s <= n)%nat -> jstring_ok s.
Proof.
  induction n as [|n IH]; intros s Hl.
  - destruct s; [|cbn in Hl; slia]. split; [exact I | intros; discriminate].
  - destruct s as [|c r]; [split; [exact I | intros; discriminate]|].
    cbn [length] in Hl. unfold jstring_ok. cbn [read_jstring].
    destruct (c =? 34); [split; [exact I|]; intros t rest H; inversion H; subst; cbn [length]; slia|].
    destruct (c <? 32); [split; [exact I | intros; discriminate]|].
    assert (K : forall (x : char) (r0 : str), (length r0 <= length r)%nat ->
              safe (bind (read_jstring r0) (fun '(t, rest) => Ok (x :: t, rest))) /\
              forall t rest, bind (read_jstring r0) (fun '(t, rest) => Ok (x :: t, rest)) = Ok (t, rest) ->
                (length rest < S (length r))%nat /\ (length t <= length r0)%nat).
    { intros x r0 Hr0. destruct (IH r0 ltac:(slia)) as [Hs Hlen].
      destruct (read_jstring r0) as [[t0 rest0]| | | |] eqn:E; cbn [bind]; try (split; [exact I | intros; discriminate]); try contradiction.
      split; [exact I|]. intros t rest H. inversion H; subst. destruct (Hlen _ _ eq_refl) as [L1 L2]. cbn [length]. slia. }
    destruct (c =? 92).
    + destruct r as [|e r']; [split; [exact I | intros; discriminate]|].
      cbn [length] in *.
      assert (K' : forall x, safe (bind (read_jstring r') (fun '(t, rest) => Ok (x :: t, rest))) /\
                forall t rest, bind (read_jstring r') (fun '(t, rest) => Ok (x :: t, rest)) = Ok (t, rest) ->
                  (length rest < S (S (length r')))%nat /\ (length t < S (S (length r')))%nat).
      { intros x. destruct (K x r' ltac:(cbn [length]; slia)) as [A B]. split; [exact A|].
        intros t rest H. destruct (B t rest H) as [B1 B2]. cbn [length] in B1. clear - B1 B2. split; [exact B1 | slia]. }
      repeat match goal with |- context [if ?b then _ else _] => destruct b end;
        try apply K'; try (split; [exact I | intros; discriminate]).
    + destruct (K c r (le_n _)) as [A B]. split; [exact A|].
      intros t rest H. destruct (B t rest H) as [B1 B2]. cbn [length]. slia.
Qed.
Lemma read_jstring_spec s : jstring_ok s.
Proof. apply (read_jstring_spec_n (length s)). slia. Qed.

Lemma span_length f s a b : span f s = (a, b) -> (length b <= length s)%nat.
Proof.
  revert a b; induction s as [|c r IH]; intros a b H; cbn [span] in H; [inversion H; cbn; slia|].
  destruct (f c); [|inversion H; subst; cbn [length]; slia].
  destruct (span f r) as [a' b'] eqn:E. inversion H; subst. specialize (IH _ _ eq_refl). cbn [length]. slia.
Qed.

Lemma read_jnumber_spec s : safe (read_jnumber s) /\
  forall l rest, read_jnumber s = Ok (l, rest) -> (length rest <= length s)%nat.
Proof.
  unfold read_jnumber. destruct (span is_numch s) as [tok rest] eqn:Es. apply span_length in Es.
  destruct (match tok with [] => (false, []) | c :: b => if c =? 45 then (true, b) else (false, tok) end) as [neg body].
  destruct (negb (forallb is_digit body)); [split; [exact I | intros; discriminate]|].
  destruct body as [|d ds]; [split; [exact I | intros; discriminate]|].
  destruct ((d =? 48) && negb match ds with [] => true | _ => false end); [split; [exact I | intros; discriminate]|].
  destruct (20 <? length (d :: ds))%nat; [split; [exact I | intros; discriminate]|].
  destruct neg.
  - destruct (digits_val (d :: ds) =? 0); [split; [exact I | intros; discriminate]|].
    destruct (digits_val (d :: ds) <=? i64_min_abs); [|split; [exact I | intros; discriminate]].
    split; [exact I|]. intros l r H. inversion H; subst. exact Es.
  - destruct (digits_val (d :: ds) <=? u64_max); [|split; [exact I | intros; discriminate]].
    split; [exact I|]. intros l r H. inversion H; subst. exact Es.
Qed.

Lemma read_jvalue_spec s : safe (read_jvalue s) /\
  forall v rest, read_jvalue s = Ok (v, rest) ->
    (length rest <= length s)%nat /\ match v with JString t => (length t < length s)%nat | JLit _ => True end.
Proof.
  unfold read_jvalue. destruct s as [|c r]; [split; [exact I | intros; discriminate]|].
  destruct (c =? 34).
  - destruct (read_jstring_spec r) as [A B].
    destruct (read_jstring r) as [[t rest]| | | |] eqn:E; cbn [bind]; try (split; [exact I | intros; discriminate]); try contradiction.
    split; [exact I|]. intros v rest0 H. inversion H; subst. destruct (B _ _ eq_refl) as [B1 B2]. cbn [length]. split; slia.
  - destruct (is_digit c || (c =? 45)).
    + destruct (read_jnumber_spec (c :: r)) as [A B].
      destruct (read_jnumber (c :: r)) as [[l rest]| | | |] eqn:E; cbn [bind]; try (split; [exact I | intros; discriminate]); try contradiction.
      split; [exact I|]. intros v rest0 H. inversion H; subst. split; [apply (B _ _ eq_refl) | exact I].
    + destruct (strip_prefix s_true (c :: r)) as [rest|] eqn:E1.
      * split; [exact I|]. intros v rest0 H. inversion H; subst. apply strip_prefix_spec in E1.
        split; [rewrite E1, app_length; slia | exact I].
      * destruct (strip_prefix s_false (c :: r)) as [rest|] eqn:E2; [|split; [exact I | intros; discriminate]].
        split; [exact I|]. intros v rest0 H. inversion H; subst. apply strip_prefix_spec in E2.
        split; [rewrite E2, app_length; slia | exact I].
Qed.

Definition short_args (bound : nat) (m : list (str * jarg)) : Prop :=
  forall k a, In (k, JString a) m -> (length a < bound)%nat.

Lemma map_insert_short {V} (P : V -> Prop) k (v : V) m :
  P v -> (forall k' v', In (k', v') m -> P v') -> forall k' v', In (k', v') (map_insert k v m) -> P v'.
Proof.
  intros Hv. induction m as [|[k0 v0] t IH]; intros Hm k' v' Hin; cbn [map_insert] in Hin.
  - destruct Hin as [E|[]]. inversion E; subst. exact Hv.
  - destruct (str_eqb k k0).
    + destruct Hin as [E|Hin]; [inversion E; subst; exact Hv | apply (Hm k' v'); right; exact Hin].
    + destruct (str_ltb k k0).
      * destruct Hin as [E|Hin]; [inversion E; subst; exact Hv | apply (Hm k' v'); exact Hin].
      * destruct Hin as [E|Hin].
        -- inversion E; subst. apply (Hm k' v'). left; reflexivity.
        -- apply (IH (fun a b H => Hm a b (or_intror H)) k' v' Hin).
Qed.

Lemma read_members_spec bound : forall fuel s acc,
  (length s < fuel)%nat -> (length s <= bound)%nat -> short_args bound acc ->
  safe (read_members fuel s acc) /\
  forall m rest, read_members fuel s acc = Ok (m, rest) -> short_args bound m.
Proof.
  induction fuel as [|fuel IH]; intros s acc Hf Hb Hacc; [slia|].
  cbn [read_members]. pose proof (skip_jws_length s) as Ls.
  destruct (skip_jws s) as [|c r] eqn:Es; [split; [exact I | intros; discriminate]|].
  cbn [length] in Ls.
  destruct (c =? 34); [|split; [exact I | intros; discriminate]].
  destruct (read_jstring_spec r) as [A B].
  destruct (read_jstring r) as [[k rest]| | | |] eqn:Ek; cbn [bind]; try (split; [exact I | intros; discriminate]); try contradiction.
  destruct (B _ _ eq_refl) as [B1 _].
  pose proof (skip_jws_length rest) as L2.
  destruct (skip_jws rest) as [|c2 r2] eqn:E2; [split; [exact I | intros; discriminate]|].
  cbn [length] in L2.
  destruct (c2 =? 58); [|split; [exact I | intros; discriminate]].
  pose proof (skip_jws_length r2) as L3.
  destruct (read_jvalue_spec (skip_jws r2)) as [C D].
  destruct (read_jvalue (skip_jws r2)) as [[v rest2]| | | |] eqn:Ev; cbn [bind]; try (split; [exact I | intros; discriminate]); try contradiction.
  destruct (D _ _ eq_refl) as [D1 D2].
  assert (Hacc' : short_args bound (map_insert k v acc)).
  { unfold short_args. intros k' a Hin.
    refine (map_insert_short (fun x => match x with JString t => (length t < bound)%nat | JLit _ => True end) k v acc _ _ k' (JString a) Hin).
    - destruct v as [t|l]; [slia | exact I].
    - intros k0 v0 H0. destruct v0 as [t|l]; [apply (Hacc k0 t H0) | exact I]. }
  pose proof (skip_jws_length rest2) as L4.
  destruct (skip_jws rest2) as [|c3 r3] eqn:E3; [split; [exact I | intros; discriminate]|].
  cbn [length] in L4.
  destruct (c3 =? 44).
  - apply IH; [slia | slia | exact Hacc'].
  - destruct (c3 =? 125); [|split; [exact I | intros; discriminate]].
    split; [exact I|]. intros m rest0 H. inversion H; subst. exact Hacc'.
Qed.

Theorem json_args_model_safe s : safe (json_args_model s).
Proof.
  unfold json_args_model. pose proof (skip_jws_length s) as Ls.
  destruct (skip_jws s) as [|c r] eqn:Es; [exact I|]. cbn [length] in Ls.
  destruct (c =? 123); [|exact I].
  destruct (skip_jws r) as [|c2 r2]; [exact I|].
  destruct (c2 =? 125); [destruct (skip_jws r2); exact I|].
  destruct (read_members_spec (length s) (S (length s)) r [] ltac:(slia) ltac:(slia) ltac:(intros k a [])) as [A _].
  apply safe_bind; [exact A|]. intros [m rest] _. destruct (skip_jws rest); exact I.
Qed.

Theorem json_args_model_shorter s l k a :
  json_args_model s = Ok l -> In (k, JString a) l -> (length a < length s)%nat.
Proof.
  unfold json_args_model. pose proof (skip_jws_length s) as Ls.
  destruct (skip_jws s) as [|c r] eqn:Es; [discriminate|]. cbn [length] in Ls.
  destruct (c =? 123); [|discriminate].
  destruct (skip_jws r) as [|c2 r2]; [discriminate|].
  destruct (c2 =? 125).
  - destruct (skip_jws r2); [intros H; inversion H; subst; intros []|discriminate].
  - destruct (read_members_spec (length s) (S (length s)) r [] ltac:(slia) ltac:(slia) ltac:(intros k0 a0 [])) as [_ B].
    destruct (read_members (S (length s)) r []) as [[m rest]| | | |] eqn:E; cbn [bind]; try discriminate.
    destruct (skip_jws rest); [|discriminate]. intros H; inversion H; subst. intros Hin. exact (B _ _ eq_refl k a Hin).
Qed.

(** the exact function the correspondence evaluates never panics and never runs out of fuel *)
Theorem model_parse_safe s : safe (model_parse s).
Proof. unfold model_parse. apply parse_top_safe; [exact json_args_model_safe | exact json_args_model_shorter]. Qed.
