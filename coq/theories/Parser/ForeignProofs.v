(** Proofs about foreign-key resolution (property C06). *)
From Coq Require Import List NArith ZArith Bool Arith Lia.
Import ListNotations.
From LI Require Import Base.StrOps Base.StrLemmas Parser.Parse Parser.Reduce Parser.Source Parser.RoundTrip1
  Parser.ReduceProofs Parser.Foreign.
Open Scope N_scope.

(** * substitution commutes with normalisation *)
Lemma subst_norm_cons args x l :
  pc_norm (flat_map (subst_piece args) (pc_cons x l)) = pc_norm (subst_piece args x ++ flat_map (subst_piece args) l).
Proof.
  destruct x as [s|k f|k inner|ns p a]; try reflexivity.
  destruct s as [|c s].
  - cbn [pc_cons subst_piece app]. unfold pc_norm at 2. cbn [fold_right pc_cons]. reflexivity.
  - destruct l as [|[t|k f|k inner|ns p a] r]; try reflexivity.
    cbn [pc_cons flat_map subst_piece app].
    change (PcText (c :: s ++ t) :: flat_map (subst_piece args) r) with ([PcText ((c :: s) ++ t)] ++ flat_map (subst_piece args) r).
    change (PcText (c :: s) :: PcText t :: flat_map (subst_piece args) r)
      with ([PcText (c :: s)] ++ [PcText t] ++ flat_map (subst_piece args) r).
    rewrite !pc_norm_app. cbn [fold_right]. rewrite pc_cons_text_text by discriminate. reflexivity.
Qed.

Lemma subst_norm args l :
  pc_norm (flat_map (subst_piece args) (pc_norm l)) = pc_norm (flat_map (subst_piece args) l).
Proof.
  induction l as [|x l IH]; [reflexivity|].
  unfold pc_norm at 2. cbn [fold_right]. fold (pc_norm l).
  rewrite subst_norm_cons. cbn [flat_map].
  apply pc_norm_congr; [reflexivity | exact IH].
Qed.

Definition arg_pieces (args : list (str * pv)) : list (str * list piece) := map (fun '(k, a) => (k, pieces a)) args.
Lemma assoc_arg_pieces k args : assoc k (arg_pieces args) = option_map pieces (assoc k args).
Proof.
  induction args as [|[k' a] r IH]; [reflexivity|]. cbn [arg_pieces map assoc]. fold (arg_pieces r).
  destruct (str_eqb k k'); [reflexivity | exact IH].
Qed.

(** populate is substitution on the denotation, at every depth (inside components too) *)
Lemma populate_raw args : forall v,
  pc_norm (pieces_raw (populate args v)) = pc_norm (flat_map (subst_piece (arg_pieces args)) (pieces_raw v)).
Proof.
  apply pv_ind2.
  - intros l. reflexivity.
  - intros k f. cbn [populate pieces_raw flat_map subst_piece]. rewrite assoc_arg_pieces.
    destruct (assoc k args) as [a|]; cbn [option_map]; [|reflexivity].
    rewrite app_nil_r. unfold pieces. rewrite pc_norm_idem. reflexivity.
  - intros k i IH. cbn [populate pieces_raw flat_map subst_piece app]. rewrite IH, subst_norm. reflexivity.
  - intros l IH. cbn [populate pieces_raw]. rewrite flat_map_concat_map, map_map, <- flat_map_concat_map.
    induction IH as [|x r Hx Hr IHr]; [reflexivity|].
    cbn [flat_map]. rewrite flat_map_app. apply pc_norm_congr; [exact Hx | exact IHr].
  - intros ns p a. cbn [populate pieces_raw flat_map subst_piece app]. reflexivity.
Qed.

Theorem populate_subst args v : pieces (populate args v) = subst_pieces (arg_pieces args) (pieces v).
Proof. unfold pieces, subst_pieces. rewrite subst_norm. apply populate_raw. Qed.

(** * resolution removes every foreign key *)
Lemma populate_no_foreign args v :
  forallb (fun '(_, a) => no_foreign a) args = true -> no_foreign v = true -> no_foreign (populate args v) = true.
Proof.
  intros Ha. revert v. apply (pv_ind2 (fun v => no_foreign v = true -> no_foreign (populate args v) = true)).
  - intros l _. reflexivity.
  - intros k f _. cbn [populate]. destruct (assoc k args) as [a|] eqn:E; [|reflexivity].
    clear -Ha E. induction args as [|[k' a'] r IH]; [discriminate|].
    cbn [assoc] in E. cbn [forallb] in Ha. apply andb_true_iff in Ha as [H1 H2].
    destruct (str_eqb k k'); [inversion E; subst; exact H1 | apply IH; assumption].
  - intros k i IH H. cbn [populate no_foreign] in *. apply IH. exact H.
  - intros l IH H. cbn [populate no_foreign] in *. rewrite forallb_forall in H. rewrite forallb_forall.
    intros x Hx. apply in_map_iff in Hx as (y & <- & Hy). rewrite Forall_forall in IH. apply IH; [exact Hy | apply H; exact Hy].
  - intros ns p a H. discriminate.
Qed.

Section ResolveProofs.
Variable vals : values.
Variable dflt : str.
Variable inherits : list (str * str).
Notation resolve := (resolve vals dflt inherits).

Lemma resolve_args_no_foreign rec stack L args r :
  (forall st l v r, rec st l v = Ok r -> no_foreign r = true) ->
  resolve_args rec stack L args = Ok r -> forallb (fun '(_, a) => no_foreign a) r = true.
Proof.
  intros IH. revert r. induction args as [|[k a] t IHa]; intros r H; cbn [resolve_args fold_right] in H.
  - inversion H; reflexivity.
  - fold (resolve_args rec stack L t) in H.
    destruct (rec stack L a) as [a'| | | |] eqn:Ea; cbn [bind] in H; try discriminate.
    destruct (resolve_args rec stack L t) as [r'| | | |] eqn:Et; cbn [bind] in H; try discriminate.
    inversion H; subst. cbn [forallb]. rewrite (IH _ _ _ _ Ea), (IHa _ eq_refl). reflexivity.
Qed.

Lemma look_no_foreign rec :
  (forall st l v r, rec st l v = Ok r -> no_foreign r = true) ->
  forall n stack target args A L r, look vals dflt inherits rec n stack target args A L = Ok r -> no_foreign r = true.
Proof.
  intros IH. induction n as [|n IHn]; intros stack target args A L r H; cbn [look] in H;
    destruct (get_value_at vals L target) as [[T| |sub]|]; try discriminate.
  - destruct (on_stack L target stack); [discriminate|].
    destruct (rec ((L, target) :: stack) L T) as [T'| | | |] eqn:ET; cbn [bind] in H; try discriminate.
    destruct (resolve_args rec stack A args) as [args'| | | |] eqn:EA; cbn [bind] in H; try discriminate.
    inversion H; subst. apply populate_no_foreign; [eapply resolve_args_no_foreign; eassumption | eapply IH; exact ET].
  - destruct (str_eqb L dflt); discriminate.
  - destruct (resolve_args rec stack A args); cbn [bind] in H; discriminate.
  - destruct (on_stack L target stack); [discriminate|].
    destruct (rec ((L, target) :: stack) L T) as [T'| | | |] eqn:ET; cbn [bind] in H; try discriminate.
    destruct (resolve_args rec stack A args) as [args'| | | |] eqn:EA; cbn [bind] in H; try discriminate.
    inversion H; subst. apply populate_no_foreign; [eapply resolve_args_no_foreign; eassumption | eapply IH; exact ET].
  - destruct (str_eqb L dflt); [discriminate|]. eapply IHn; exact H.
  - destruct (resolve_args rec stack A args); cbn [bind] in H; discriminate.
Qed.

(** every foreign key is gone after resolution: reduce never meets an unresolved one *)
Theorem resolve_no_foreign : forall fuel stack L v r, resolve fuel stack L v = Ok r -> no_foreign r = true.
Proof.
  induction fuel as [|f IH]; intros stack L v r H; [discriminate|].
  destruct v as [l|k fm|k i|l|ns p args]; cbn [Foreign.resolve] in H.
  - inversion H; reflexivity.
  - inversion H; reflexivity.
  - destruct (resolve f stack L i) as [i'| | | |] eqn:E; cbn [bind] in H; try discriminate.
    inversion H; subst. cbn [no_foreign]. eapply IH; exact E.
  - match type of H with bind ?X _ = _ => destruct X as [l'| | | |] eqn:E end; cbn [bind] in H; try discriminate.
    inversion H; subst. cbn [no_foreign]. clear H. revert l' E.
    induction l as [|x t IHl]; intros l' E; cbn [fold_right] in E.
    + inversion E; reflexivity.
    + destruct (resolve f stack L x) as [x'| | | |] eqn:Ex; cbn [bind] in E; try discriminate.
      match type of E with bind ?X _ = _ => destruct X as [t'| | | |] eqn:Et end; cbn [bind] in E; try discriminate.
      inversion E; subst. cbn [forallb]. rewrite (IH _ _ _ _ Ex), (IHl _ eq_refl). reflexivity.
  - eapply look_no_foreign; [exact IH | exact H].
Qed.

(** and therefore the reducer never panics on a resolved value *)
Corollary resolve_then_reduce fuel stack L v r :
  resolve fuel stack L v = Ok r -> exists r', reduce r = Ok r' /\ pieces r' = pieces r.
Proof. intros H. apply reduce_pieces. eapply resolve_no_foreign; exact H. Qed.

(** rejections: a missing target, a group target, a value already being resolved (cycle) *)
Lemma resolve_missing f stack L ns p args :
  get_value_at vals L (ns, p) = None -> resolve (S f) stack L (PForeign ns p args) = Err E_MissingForeignKey.
Proof. intros H. cbn [Foreign.resolve look]. rewrite H. reflexivity. Qed.
Lemma resolve_cycle f stack L ns p args T :
  get_value_at vals L (ns, p) = Some (NVal T) -> on_stack L (ns, p) stack = true ->
  resolve (S f) stack L (PForeign ns p args) = Err E_RecursiveForeignKey.
Proof. intros H Hs. cbn [Foreign.resolve look]. rewrite H, Hs. reflexivity. Qed.
Lemma resolve_group f stack L ns p sub :
  get_value_at vals L (ns, p) = Some (NSub sub) -> resolve (S f) stack L (PForeign ns p []) = Err E_InvalidForeignKey.
Proof. intros H. cbn [Foreign.resolve look]. rewrite H. reflexivity. Qed.
End ResolveProofs.
