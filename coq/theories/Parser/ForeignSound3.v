(** Soundness of foreign-key resolution, part 3 (property C06): projects given as trees of SOURCES
    (the shape of [values], leaves = source ASTs or null).  Compiling a source tree (every leaf parsed
    from its printed form) yields [values] that satisfy [proj_rel] by construction, so the end-to-end
    theorem applies to every compiled project. *)
From Coq Require Import List NArith ZArith Bool Arith Lia.
Import ListNotations.
From LI Require Import Base.StrOps Base.StrLemmas Parser.Parse Parser.Json Parser.Reduce Parser.Source
  Parser.Foreign Parser.ForeignProofs Parser.ForeignSound
  Parser.RoundTripRef1 Parser.RoundTripRef2 Parser.RoundTripRef3 Parser.RoundTripRef4
  Parser.ForeignSound2 Parser.ForeignFull Parser.ForeignSound4 Parser.ForeignSound5.
Open Scope N_scope.

Inductive snode := SVal (items : list ritem) | SNull | SSub (keys : list (str * snode)).
Definition skmap := list (str * snode).
Inductive svalues :=
| SVLocales (ls : list (str * skmap))
| SVNamespaces (nss : list (str * list (str * skmap))).

(** map a partial function over the values of an association list *)
Section CMap.
Context {A B : Type} (f : A -> option B).
Fixpoint cmap (l : list (str * A)) : option (list (str * B)) :=
  match l with
  | [] => Some []
  | (k, a) :: r => match f a, cmap r with Some b, Some m => Some ((k, b) :: m) | _, _ => None end
  end.
Lemma assoc_cmap l m k : cmap l = Some m ->
  match assoc k l with
  | Some a => exists b, assoc k m = Some b /\ f a = Some b
  | None => assoc k m = None
  end.
Proof.
  revert m. induction l as [|[k' a] r IH]; intros m H; cbn [cmap] in H.
  - inversion H; subst. reflexivity.
  - destruct (f a) as [b|] eqn:Ea; [|discriminate]. destruct (cmap r) as [m'|] eqn:Er; [|discriminate].
    inversion H; subst. cbn [assoc]. destruct (str_eqb k k').
    + exists b. auto.
    + apply IH. reflexivity.
Qed.
End CMap.

(** source lookups: the same rules as Locale::get_value_at on the source tree *)
Fixpoint slocale_get (m : skmap) (path : list str) : option snode :=
  match path with
  | [] => None
  | k :: rest =>
      match rest with
      | [] => assoc k m
      | _ => match assoc k m with Some (SSub sub) => slocale_get sub rest | _ => None end
      end
  end.
Definition sget_value_at (sv : svalues) (top : str) (p : keypath) : option snode :=
  match fst p, sv with
  | None, SVNamespaces _ | Some _, SVLocales _ => None
  | None, SVLocales ls => match assoc top ls with Some m => slocale_get m (snd p) | None => None end
  | Some ns, SVNamespaces nss =>
      match assoc ns nss with
      | Some ls => match assoc top ls with Some m => slocale_get m (snd p) | None => None end
      | None => None
      end
  end.
Definition src_of_tree (sv : svalues) (L : str) (p : keypath) : option (option (list ritem)) :=
  match sget_value_at sv L p with
  | Some (SVal items) => Some (Some items)
  | Some SNull => Some None
  | _ => None
  end.

Section Compile.
Variable idc : str -> idres.
Variable json_args : str -> res (list (str * jarg)).

(** a leaf: a well-formed source of the scope, parsed from its printed form *)
Definition compile_leaf (items : list ritem) : option pv :=
  if ritems_wfb idc items && forallb plain items
  then match parse_top idc json_args true (rprint_list items) with Ok v => Some v | _ => None end
  else None.
Fixpoint compile_node (s : snode) : option node :=
  match s with
  | SVal items => option_map NVal (compile_leaf items)
  | SNull => Some NDefault
  | SSub keys => option_map NSub (cmap compile_node keys)
  end.
Definition compile (sv : svalues) : option values :=
  match sv with
  | SVLocales ls => option_map VLocales (cmap (cmap compile_node) ls)
  | SVNamespaces nss => option_map VNamespaces (cmap (cmap (cmap compile_node)) nss)
  end.

Definition node_of (os : option snode) (on : option node) : Prop :=
  match os with
  | Some s => exists n, on = Some n /\ compile_node s = Some n
  | None => on = None
  end.

Lemma locale_get_compile : forall path sm m, cmap compile_node sm = Some m ->
  node_of (slocale_get sm path) (locale_get m path).
Proof.
  induction path as [|k rest IH]; intros sm m H; [reflexivity|].
  cbn [slocale_get locale_get]. pose proof (assoc_cmap compile_node sm m k H) as Ha.
  destruct rest as [|k2 rest'].
  - unfold node_of. destruct (assoc k sm) as [s|]; [|exact Ha]. destruct Ha as (n & E1 & E2). exists n. auto.
  - destruct (assoc k sm) as [s|].
    + destruct Ha as (n & E1 & E2). rewrite E1. destruct s as [items| |keys]; cbn [compile_node] in E2.
      * destruct (compile_leaf items); [|discriminate]. inversion E2; subst. reflexivity.
      * inversion E2; subst. reflexivity.
      * destruct (cmap compile_node keys) as [sub|] eqn:Ek; [|discriminate]. inversion E2; subst.
        apply IH. exact Ek.
    + rewrite Ha. reflexivity.
Qed.

Lemma get_value_at_compile sv vals L p : compile sv = Some vals ->
  node_of (sget_value_at sv L p) (get_value_at vals L p).
Proof.
  intros H. destruct p as [ns path]. unfold sget_value_at, get_value_at. cbn [fst snd]. unfold kmap, skmap in *.
  destruct sv as [ls|nss]; cbn [compile] in H.
  - destruct (cmap (cmap compile_node) ls) as [cls|] eqn:El; [|discriminate]. inversion H; subst. unfold kmap, skmap in *.
    destruct ns as [n|]; [reflexivity|]. cbn beta iota.
    pose proof (assoc_cmap _ ls cls L El) as Ha. destruct (assoc L ls) as [sm|].
    + destruct Ha as (m & E1 & E2). rewrite E1. apply locale_get_compile. exact E2.
    + rewrite Ha. reflexivity.
  - destruct (cmap (cmap (cmap compile_node)) nss) as [cns|] eqn:En; [|discriminate]. inversion H; subst. unfold kmap, skmap in *.
    destruct ns as [n|]; [|reflexivity]. cbn beta iota.
    pose proof (assoc_cmap _ nss cns n En) as Hn. destruct (assoc n nss) as [ls|].
    + destruct Hn as (cls & E0 & El). rewrite E0.
      pose proof (assoc_cmap _ ls cls L El) as Ha. destruct (assoc L ls) as [sm|].
      * destruct Ha as (m & E1 & E2). rewrite E1. apply locale_get_compile. exact E2.
      * rewrite Ha. reflexivity.
    + rewrite Hn. reflexivity.
Qed.

(** a compiled project's values are the parses of its printed sources *)
Theorem compile_proj_rel sv vals : compile sv = Some vals -> proj_rel idc json_args vals (src_of_tree sv).
Proof.
  intros H L p. pose proof (get_value_at_compile sv vals L p H) as Hn. unfold src_of_tree.
  destruct (sget_value_at sv L p) as [[items| |keys]|]; cbn [node_of] in Hn.
  - destruct Hn as (n & En & Ec). cbn [compile_node] in Ec. unfold compile_leaf in Ec.
    destruct (ritems_wfb idc items && forallb plain items) eqn:Ew; [|discriminate].
    apply andb_true_iff in Ew as [W Pl].
    destruct (parse_top idc json_args true (rprint_list items)) as [v| | | |] eqn:Ev; try discriminate.
    inversion Ec; subst. repeat split; [exact W | exact Pl|]. exists v. split; [reflexivity | exact En].
  - destruct Hn as (n & En & Ec). inversion Ec; subst. exact En.
  - destruct Hn as (n & En & Ec). cbn [compile_node] in Ec. destruct (cmap compile_node keys) as [sub|]; [|discriminate].
    inversion Ec; subst. right. exists sub. exact En.
  - left. exact Hn.
Qed.

(** end to end, for every compiled project: the final value of every key that holds a source denotes
    the source-level inlining semantics of that source.  The JSON oracle must read printed argument
    objects correctly ([json_ok]) unless no reference of the project carries arguments. *)
Theorem compiled_final_value_sound sv vals dflt inherits ns L path items :
  json_or_noargs idc json_args (src_of_tree sv) ->
  compile sv = Some vals -> sget_value_at sv L (ns, path) = Some (SVal items) ->
  exists v, parse_top idc json_args true (rprint_list items) = Ok v /\ get_value_at vals L (ns, path) = Some (NVal v) /\
    forall r', final_value vals dflt inherits ns L path (NVal v) = Ok (Some r') ->
      (exists d, xdenote (xsrc (src_of_tree sv)) dflt inherits 200 L (map to_x items) = Some d /\ pieces r' = pc_norm d) /\
      (forall fuel d, xdenote (xsrc (src_of_tree sv)) dflt inherits fuel L (map to_x items) = Some d -> pieces r' = pc_norm d).
Proof.
  intros HJ Hc Hs. pose proof (compile_proj_rel sv vals Hc) as HP.
  pose proof (HP L (ns, path)) as Hp. unfold src_of_tree in Hp at 1. rewrite Hs in Hp.
  destruct Hp as (W & Pl & v & Ev & Eg). exists v. split; [exact Ev|]. split; [exact Eg|].
  intros r' Hf. eapply final_value_xdenote; try eassumption.
  unfold src_of_tree. rewrite Hs. reflexivity.
Qed.
End Compile.

(** with the JSON reader model of Parser/Json.v: no hypothesis on the oracle is left *)
Corollary compiled_final_value_sound_model idc sv vals dflt inherits ns L path items :
  compile idc json_args_model sv = Some vals -> sget_value_at sv L (ns, path) = Some (SVal items) ->
  exists v, parse_top idc json_args_model true (rprint_list items) = Ok v /\ get_value_at vals L (ns, path) = Some (NVal v) /\
    forall r', final_value vals dflt inherits ns L path (NVal v) = Ok (Some r') ->
      (exists d, xdenote (xsrc (src_of_tree sv)) dflt inherits 200 L (map to_x items) = Some d /\ pieces r' = pc_norm d) /\
      (forall fuel d, xdenote (xsrc (src_of_tree sv)) dflt inherits fuel L (map to_x items) = Some d -> pieces r' = pc_norm d).
Proof. apply compiled_final_value_sound. right. apply json_model_ok. Qed.
