(** Range::new parses every printed count specification to a structure with the Rust meaning of the
    specification (C04_parse_sem): string-level lemmas (trim, split, numerals) and the main theorem. *)
From Coq Require Import List NArith ZArith Bool Lia DecimalN DecimalPos.
Import ListNotations.
From LI Require Import Base.StrOps Parser.Ranges Parser.RangesProofs.
Open Scope Z_scope.

(* ================================================================== strings *)

Lemma str_eqb_eq a b : str_eqb a b = true <-> a = b.
Proof.
  revert b; induction a as [|x a IH]; intros [|y b]; cbn [str_eqb]; split; try congruence; try discriminate.
  - intros H. apply andb_true_iff in H as [H1 H2]. apply N.eqb_eq in H1. apply IH in H2. congruence.
  - intros [= -> ->]. rewrite N.eqb_refl. cbn [andb]. now apply IH.
Qed.
Lemma str_eqb_neq a b : a <> b -> str_eqb a b = false.
Proof. intros H. destruct (str_eqb a b) eqn:E; [|reflexivity]. apply str_eqb_eq in E. contradiction. Qed.

Definition hd_ok (s : str) : bool := match s with [] => true | c :: _ => negb (is_ws c) end.

Lemma forallb_rev {A} (f : A -> bool) l : forallb f (rev l) = forallb f l.
Proof.
  induction l as [|a l IH]; [reflexivity|]. cbn [rev forallb]. rewrite forallb_app, IH. cbn [forallb].
  rewrite andb_true_r. apply andb_comm.
Qed.

Lemma trim_start_ws l s : all_ws l = true -> trim_start (l ++ s) = trim_start s.
Proof.
  unfold all_ws. induction l as [|c l IH]; cbn [forallb app trim_start]; intros H; [reflexivity|].
  apply andb_true_iff in H as [H1 H2]. rewrite H1. auto.
Qed.
Lemma trim_start_all_ws l : all_ws l = true -> trim_start l = [].
Proof. intros H. rewrite <- (app_nil_r l). now rewrite trim_start_ws. Qed.
Lemma trim_start_hd s : hd_ok s = true -> trim_start s = s.
Proof. destruct s as [|c s]; cbn [hd_ok trim_start]; [reflexivity|]. intros H. apply negb_true_iff in H. now rewrite H. Qed.
Lemma trim_end_ws s r : all_ws r = true -> trim_end (s ++ r) = trim_end s.
Proof.
  intros H. unfold trim_end. rewrite rev_app_distr, trim_start_ws; [reflexivity|].
  unfold all_ws in *. now rewrite forallb_rev.
Qed.
Lemma trim_end_hd s : hd_ok (rev s) = true -> trim_end s = s.
Proof. intros H. unfold trim_end. rewrite trim_start_hd by assumption. apply rev_involutive. Qed.

Lemma hd_ok_app c s : c <> [] -> hd_ok (c ++ s) = hd_ok c.
Proof. destruct c; [congruence|reflexivity]. Qed.

(** trimming a padded tight core gives the core *)
Lemma trim_pad l c r :
  all_ws l = true -> all_ws r = true -> hd_ok c = true -> hd_ok (rev c) = true -> trim (l ++ c ++ r) = c.
Proof.
  intros Hl Hr Hc Hrc. unfold trim. rewrite trim_start_ws by assumption.
  destruct c as [|x c'].
  - cbn [app]. rewrite trim_start_all_ws by assumption. reflexivity.
  - rewrite trim_start_hd by (rewrite hd_ok_app; [assumption|discriminate]).
    rewrite trim_end_ws by assumption. now apply trim_end_hd.
Qed.
Lemma trim_pad_r c r : all_ws r = true -> hd_ok c = true -> hd_ok (rev c) = true -> trim (c ++ r) = c.
Proof. intros. now apply (trim_pad [] c r). Qed.
Lemma trim_pad_l l c : all_ws l = true -> hd_ok c = true -> hd_ok (rev c) = true -> trim (l ++ c) = c.
Proof. intros. rewrite <- (app_nil_r c) at 1. now apply trim_pad. Qed.
Lemma trim_tight c : hd_ok c = true -> hd_ok (rev c) = true -> trim c = c.
Proof. intros. now apply (trim_pad_l [] c). Qed.
Lemma trim_all_ws l : all_ws l = true -> trim l = [].
Proof. intros H. unfold trim. now rewrite trim_start_all_ws. Qed.

Lemma trim_start_app_hd c s : c <> [] -> hd_ok c = true -> trim_start (c ++ s) = c ++ s.
Proof. intros Hn H. apply trim_start_hd. now rewrite hd_ok_app. Qed.
Lemma trim_start_pad l c s : all_ws l = true -> c <> [] -> hd_ok c = true -> trim_start (l ++ c ++ s) = c ++ s.
Proof. intros. rewrite trim_start_ws by assumption. now apply trim_start_app_hd. Qed.

Lemma trim_start_app_nonnil a b : trim_start a <> [] -> trim_start (a ++ b) = trim_start a ++ b.
Proof.
  induction a as [|c a IH]; cbn [trim_start app]; [congruence|].
  destruct (is_ws c); [exact IH|reflexivity].
Qed.
Lemma trim_end_app_nonnil a b : trim_end b <> [] -> trim_end (a ++ b) = a ++ trim_end b.
Proof.
  intros H. unfold trim_end in *. rewrite rev_app_distr, trim_start_app_nonnil.
  - now rewrite rev_app_distr, rev_involutive.
  - intros E. rewrite E in H. now apply H.
Qed.
Lemma trim_end_pad p c r : all_ws r = true -> c <> [] -> hd_ok (rev c) = true -> trim_end (p ++ c ++ r) = p ++ c.
Proof.
  intros Hr Hn Hc. rewrite app_assoc, trim_end_ws by assumption.
  rewrite trim_end_app_nonnil; rewrite trim_end_hd by assumption; [reflexivity|assumption].
Qed.

(* ---------------------------------------------------------------- characters *)

Lemma is_ws_not c : is_ws c = true -> c <> 46%N /\ c <> c_pipe /\ c <> c_eq /\ c <> 95%N.
Proof.
  intros H. repeat split; intros ->; vm_compute in H; discriminate.
Qed.

Definition nochar (c : char) (s : str) : bool := forallb (fun x => negb (x =? c)%N) s.
Lemma nochar_app c a b : nochar c (a ++ b) = nochar c a && nochar c b.
Proof. apply forallb_app. Qed.
Lemma nochar_ws c s : is_ws c = false -> all_ws s = true -> nochar c s = true.
Proof.
  intros Hc. unfold all_ws, nochar. induction s as [|x s IH]; cbn [forallb]; [reflexivity|].
  intros H. apply andb_true_iff in H as [H1 H2]. rewrite IH by assumption.
  destruct (N.eqb_spec x c) as [->|]; [congruence|reflexivity].
Qed.
Lemma existsb_nochar c s : existsb (N.eqb c) s = negb (nochar c s).
Proof.
  unfold nochar. induction s as [|x s IH]; cbn [existsb forallb]; [reflexivity|].
  rewrite IH, negb_andb, negb_involutive. now rewrite (N.eqb_sym c x).
Qed.

(* ---------------------------------------------------------------- split_once "..", split_all '|' *)

Lemma nodd_no_split s : nodd s = true -> split_once s_dotdot s = None.
Proof.
  induction s as [|c s IH]; [reflexivity|].
  intros H. cbn [nodd] in H. apply andb_true_iff in H as [H1 H2].
  cbn [split_once]. rewrite IH by assumption.
  unfold s_dotdot. cbn [strip_prefix].
  destruct (N.eqb_spec 46%N c) as [<-|]; [|reflexivity].
  destruct s as [|d s]; [reflexivity|]. cbn in H1.
  destruct (N.eqb_spec 46%N d) as [<-|]; [discriminate|reflexivity].
Qed.

Lemma split_once_dd a b : nodd a = true -> split_once s_dotdot (a ++ s_dotdot ++ b) = Some (a, b).
Proof.
  induction a as [|c a IH]; intros H.
  - cbn [app]. unfold s_dotdot. cbn. reflexivity.
  - cbn [nodd] in H. apply andb_true_iff in H as [H1 H2].
    cbn [app split_once]. rewrite IH by assumption.
    unfold s_dotdot at 1. cbn [strip_prefix].
    destruct (N.eqb_spec 46%N c) as [<-|]; [|reflexivity].
    destruct a as [|d a]; [cbn in H1; discriminate|].
    cbn [app]. cbn in H1. destruct (N.eqb_spec 46%N d) as [<-|]; [discriminate|reflexivity].
Qed.

Lemma nochar_nodd m : nochar 46%N m = true -> nodd m = true.
Proof.
  unfold nochar. induction m as [|x m IH]; [reflexivity|]. cbn [forallb nodd]. intros H.
  apply andb_true_iff in H as [Hx Hm]. apply negb_true_iff in Hx. rewrite Hx, (IH Hm). reflexivity.
Qed.

Lemma nodd_app a m : nodd a = true -> a <> [] -> nochar 46%N m = true -> nodd (a ++ m) = true.
Proof.
  induction a as [|c a IH]; intros H Hn Hm; [congruence|].
  cbn [nodd] in H. apply andb_true_iff in H as [H1 H2].
  destruct a as [|d a].
  - cbn [app nodd]. rewrite andb_true_r in H1. apply negb_true_iff in H1. rewrite H1. cbn [andb negb].
    now apply nochar_nodd.
  - cbn [app nodd]. rewrite H1. cbn [andb]. exact (IH H2 ltac:(discriminate) Hm).
Qed.

Lemma split_all_nochar c s : nochar c s = true -> split_all c s = [s].
Proof.
  unfold nochar. induction s as [|x s IH]; cbn [forallb split_all]; [reflexivity|].
  intros H. apply andb_true_iff in H as [H1 H2]. rewrite IH by assumption.
  apply negb_true_iff in H1. now rewrite H1.
Qed.
Lemma split_all_nonnil c q : split_all c q <> [].
Proof.
  induction q as [|x q IH]; cbn [split_all]; [discriminate|].
  destruct (split_all c q); [congruence|]. destruct (x =? c)%N; discriminate.
Qed.
Lemma split_all_sep c p q : nochar c p = true -> split_all c (p ++ c :: q) = p :: split_all c q.
Proof.
  unfold nochar. induction p as [|x p IH]; cbn [forallb app split_all]; intros H.
  - rewrite N.eqb_refl. pose proof (split_all_nonnil c q). destruct (split_all c q); [congruence|reflexivity].
  - apply andb_true_iff in H as [H1 H2]. rewrite IH by assumption.
    apply negb_true_iff in H1. now rewrite H1.
Qed.

(* ================================================================== numerals *)

Lemma uint_str_digits u : forallb is_digit (uint_str u) = true.
Proof. induction u; cbn [uint_str forallb]; try rewrite IHu; reflexivity. Qed.

Lemma digits_val_acc u : forall acc, digits_val (Z.pos acc) (uint_str u) = Some (Z.pos (Pos.of_uint_acc u acc)).
Proof.
  induction u; intros acc; cbn [uint_str digits_val Pos.of_uint_acc]; [reflexivity|..];
    change (is_digit _) with true; cbn iota; rewrite <- IHu; f_equal; simpl (Z.of_N _); lia.
Qed.
Lemma digits_val_uint u : digits_val 0 (uint_str u) = Some (Z.of_N (Pos.of_uint u)).
Proof.
  induction u; cbn [uint_str digits_val Pos.of_uint]; [reflexivity|..];
    change (is_digit _) with true; cbn iota.
  - exact IHu.
  - apply (digits_val_acc u 1%positive).
  - apply (digits_val_acc u 2%positive).
  - apply (digits_val_acc u 3%positive).
  - apply (digits_val_acc u 4%positive).
  - apply (digits_val_acc u 5%positive).
  - apply (digits_val_acc u 6%positive).
  - apply (digits_val_acc u 7%positive).
  - apply (digits_val_acc u 8%positive).
  - apply (digits_val_acc u 9%positive).
Qed.
Lemma digits_val_print_N n : digits_val 0 (print_N n) = Some (Z.of_N n).
Proof.
  unfold print_N. rewrite digits_val_uint. f_equal. f_equal.
  change (Pos.of_uint (N.to_uint n)) with (N.of_uint (N.to_uint n)). apply DecimalN.Unsigned.of_to.
Qed.
Lemma digits_val_zeros k s : digits_val 0 (repeat 48%N k ++ s) = digits_val 0 s.
Proof. induction k; cbn [repeat app digits_val]; [reflexivity|]. change (is_digit 48%N) with true. cbn iota. exact IHk. Qed.

Lemma print_N_nonnil n : print_N n <> [].
Proof.
  unfold print_N. destruct n as [|p]; [discriminate|]. cbn [N.to_uint].
  pose proof (Unsigned.to_uint_nonnil p) as H. destruct (Pos.to_uint p); [congruence|discriminate..].
Qed.

(** the digit string of an integer numeral (without sign) *)
Definition int_digits (zeros : nat) (mag : N) : str := repeat 48%N zeros ++ print_N mag.
Lemma int_digits_digits z m : forallb is_digit (int_digits z m) = true.
Proof.
  unfold int_digits, print_N. rewrite forallb_app, uint_str_digits, andb_true_r.
  induction z; [reflexivity|]. cbn [repeat forallb]. now rewrite IHz.
Qed.
Lemma int_digits_nonnil z m : int_digits z m <> [].
Proof. unfold int_digits. pose proof (print_N_nonnil m). destruct (repeat 48%N z), (print_N m); cbn; congruence. Qed.
Lemma int_digits_val z m : digits_val 0 (int_digits z m) = Some (Z.of_N m).
Proof. unfold int_digits. rewrite digits_val_zeros. apply digits_val_print_N. Qed.

(** plain characters: digits and signs *)
Definition plain (c : char) : bool := is_digit c || (c =? 43)%N || (c =? 45)%N.
Lemma plain_facts c : plain c = true ->
  is_ws c = false /\ (c =? c_pipe)%N = false /\ (c =? c_eq)%N = false /\ (c =? 95)%N = false /\ (c =? 46)%N = false.
Proof.
  unfold plain, is_digit. intros H.
  assert (c = 43 \/ c = 45 \/ (48 <= c <= 57))%N as Hc.
  { apply orb_true_iff in H as [H|H]; [apply orb_true_iff in H as [H|H]|].
    - apply andb_true_iff in H as [H1 H2]. apply N.leb_le in H1, H2. right; right; lia.
    - apply N.eqb_eq in H; auto.
    - apply N.eqb_eq in H; auto. }
  assert (c = 43 \/ c = 45 \/ c = 48 \/ c = 49 \/ c = 50 \/ c = 51 \/ c = 52 \/ c = 53 \/ c = 54 \/ c = 55
          \/ c = 56 \/ c = 57)%N as Hd by lia.
  clear H Hc. repeat (destruct Hd as [->|Hd]); try subst c; repeat split; reflexivity.
Qed.

Lemma plain_text_ok s : s <> [] -> forallb plain s = true -> text_ok s = true.
Proof.
  intros Hn Hp. unfold text_ok.
  assert (forallb (fun c => negb (is_ws c) && negb (c =? c_pipe)%N && negb (c =? c_eq)%N && negb (c =? 95)%N) s = true
          /\ nochar 46%N s = true) as [H1 H2].
  { unfold nochar. induction s as [|c s IH]; [split; reflexivity|]. cbn [forallb] in *.
    apply andb_true_iff in Hp as [Hc Hp].
    destruct (plain_facts c Hc) as (W & P & E & U & D). rewrite W, P, E, U, D. cbn [negb andb].
    destruct s as [|d s]; [split; reflexivity|]. apply IH; [discriminate|assumption]. }
  rewrite H1, (nochar_nodd s H2). destruct s; [congruence|]. reflexivity.
Qed.

Definition sign_str (sign : N) : str := if (sign =? 1)%N then [43%N] else if (sign =? 2)%N then [45%N] else [].
Lemma numeral_text_int sign zeros mag : numeral_text (NInt sign zeros mag) = sign_str sign ++ int_digits zeros mag.
Proof. reflexivity. Qed.

Lemma digits_plain l : forallb is_digit l = true -> forallb plain l = true.
Proof.
  induction l as [|c l IH]; [reflexivity|]. cbn [forallb]. intros H. apply andb_true_iff in H as [Hc Hl].
  unfold plain at 1. rewrite Hc, (IH Hl). reflexivity.
Qed.

Lemma numeral_text_ok t tbl n : numeral_ok t tbl n = true -> text_ok (numeral_text n) = true.
Proof.
  destruct n as [sign zeros mag|text v]; intros H.
  - rewrite numeral_text_int. apply plain_text_ok.
    + pose proof (int_digits_nonnil zeros mag). destruct (sign_str sign), (int_digits zeros mag); cbn; congruence.
    + rewrite forallb_app, (digits_plain _ (int_digits_digits zeros mag)), andb_true_r.
      unfold sign_str. destruct (sign =? 1)%N; [reflexivity|]. destruct (sign =? 2)%N; reflexivity.
  - cbn [numeral_ok numeral_text] in *. apply andb_true_iff in H as [H _]. apply andb_true_iff in H as [_ H]. exact H.
Qed.

(** consequences of text_ok *)
Lemma text_ok_facts s : text_ok s = true ->
  s <> [] /\ hd_ok s = true /\ hd_ok (rev s) = true /\ nochar c_pipe s = true /\ nodd s = true
  /\ strip_prefix [c_eq] s = None /\ str_fallback s = false /\ all_ws s = false.
Proof.
  unfold text_ok. intros H. apply andb_true_iff in H as [H Hd]. apply andb_true_iff in H as [He Hc].
  assert (forall l, forallb (fun c => negb (is_ws c) && negb (c =? c_pipe)%N && negb (c =? c_eq)%N && negb (c =? 95)%N) l = true ->
          forallb (fun c => negb (is_ws c)) l = true /\ nochar c_pipe l = true /\ nochar c_eq l = true /\ nochar 95%N l = true)
    as Hsplit.
  { unfold nochar. induction l as [|c l IH]; [repeat split; reflexivity|]. cbn [forallb]. intros X.
    apply andb_true_iff in X as [X Xl]. repeat (apply andb_true_iff in X as [X ?]).
    destruct (IH Xl) as (A & B & C & D). rewrite A, B, C, D. repeat split; rewrite ?andb_true_r; assumption. }
  destruct (Hsplit s Hc) as (W & P & E & U).
  destruct s as [|c s]; [discriminate|].
  repeat split; try assumption; try discriminate.
  - cbn [forallb] in W. apply andb_true_iff in W as [W _]. exact W.
  - rewrite <- forallb_rev in W. destruct (rev (c :: s)); [reflexivity|]. cbn [forallb] in W.
    apply andb_true_iff in W as [W _]. exact W.
  - unfold nochar in E. cbn [forallb] in E. apply andb_true_iff in E as [E _]. apply negb_true_iff in E.
    cbn [strip_prefix]. unfold c_eq in *. rewrite N.eqb_sym, E. reflexivity.
  - unfold str_fallback. apply orb_false_iff. split; apply str_eqb_neq.
    + intros [= -> ->]. unfold nochar in U. cbn in U. discriminate.
    + intros [= -> ->]. cbn in Hd. discriminate.
  - cbn [all_ws forallb] in *. apply andb_true_iff in W as [W _]. apply negb_true_iff in W.
    unfold all_ws. cbn [forallb]. now rewrite W.
Qed.

Lemma num_same_eq a b : num_same a b = true -> a = b.
Proof. destruct a, b; cbn; intros H; try discriminate; [apply Z.eqb_eq in H; congruence|reflexivity]. Qed.

Lemma in_ty_bounds t z : in_ty t z = true <-> ty_min t <= z <= ty_max t.
Proof. unfold in_ty. rewrite andb_true_iff, !Z.leb_le. tauto. Qed.

(** result of the [parse] closure on a numeral of the source *)
Definition pnum (t : rtype) (n : numeral) : res num :=
  if numeral_in_ty t n then Ok (numeral_val n) else Err (RangeParse (numeral_text n)).

Lemma parse_int_digits t s : s <> [] -> forallb is_digit s = true ->
  parse_int t s = match digits_val 0 s with
                  | Some v => if in_ty t v then Some v else None
                  | None => None
                  end.
Proof.
  intros Hn Hd. destruct s as [|c r]; [congruence|]. cbn [forallb] in Hd. apply andb_true_iff in Hd as [Hc _].
  unfold parse_int.
  assert ((c =? 43)%N = false /\ (c =? 45)%N = false) as [E1 E2].
  { unfold is_digit in Hc. apply andb_true_iff in Hc as [H1 _]. apply N.leb_le in H1.
    split; apply N.eqb_neq; lia. }
  rewrite E1, E2. cbn [andb]. destruct (digits_val 0 (c :: r)); reflexivity.
Qed.

Lemma parse_num_numeral t tbl n : numeral_ok t tbl n = true ->
  parse_num t tbl (numeral_text n) = pnum t n.
Proof.
  destruct n as [sign zeros mag|text v]; cbn [numeral_ok]; intros H.
  - apply andb_true_iff in H as [Hf Hs]. apply negb_true_iff in Hf. apply N.leb_le in Hs.
    unfold parse_num, parse_num_g, pnum. rewrite Hf, numeral_text_int. cbn [numeral_in_ty numeral_val]. unfold sign_str.
    pose proof (int_digits_nonnil zeros mag) as Hnn. pose proof (int_digits_digits zeros mag) as Hdd.
    pose proof (int_digits_val zeros mag) as Hv.
    assert (sign = 0 \/ sign = 1 \/ sign = 2)%N as Hs3 by lia.
    destruct Hs3 as [Hs3|[Hs3|Hs3]]; subst sign; cbn [N.eqb Pos.eqb negb orb app].
    + rewrite parse_int_digits, Hv by assumption. rewrite andb_true_r.
      destruct (in_ty t (Z.of_N mag)); reflexivity.
    + unfold parse_int. cbn [N.eqb Pos.eqb].
      destruct (int_digits zeros mag) eqn:E; [congruence|]. rewrite Hv. rewrite andb_true_r.
      destruct (in_ty t (Z.of_N mag)); reflexivity.
    + unfold parse_int. cbn [N.eqb Pos.eqb andb].
      destruct (ty_signed t) eqn:Es.
      * destruct (int_digits zeros mag) eqn:E; [congruence|]. rewrite Hv. rewrite andb_true_r.
        destruct (in_ty t (- Z.of_N mag)); reflexivity.
      * rewrite andb_false_r. cbn [digits_val]. change (is_digit 45%N) with false. cbn iota. reflexivity.
  - apply andb_true_iff in H as [H Hl]. apply andb_true_iff in H as [Hf _].
    unfold parse_num, parse_num_g, pnum. rewrite Hf. cbn [numeral_text numeral_in_ty numeral_val negb orb].
    destruct (flookup tbl text) as [[v'|]|]; try discriminate. apply num_same_eq in Hl. now subst.
Qed.

(* ================================================================== atoms *)

Definition atom_l (a : atom) : ws :=
  match a with
  | AExact l _ _ | ARange l _ _ _ _ _ | ARangeIncl l _ _ _ _ _ _ | AFrom l _ _ _
  | ATo l _ _ _ | AToIncl l _ _ _ _ | AFull l _ | AWild l _ => l
  end.
Definition atom_r (a : atom) : ws :=
  match a with
  | AExact _ _ r | ARange _ _ _ _ _ r | ARangeIncl _ _ _ _ _ _ r | AFrom _ _ _ r
  | ATo _ _ _ r | AToIncl _ _ _ _ r | AFull _ r | AWild _ r => r
  end.
Definition atom_core (a : atom) : str :=
  match a with
  | AExact _ a _ => numeral_text a
  | ARange _ a m1 m2 b _ => numeral_text a ++ m1 ++ s_dotdot ++ m2 ++ numeral_text b
  | ARangeIncl _ a m1 m2 m3 b _ => numeral_text a ++ m1 ++ s_dotdot ++ m2 ++ [c_eq] ++ m3 ++ numeral_text b
  | AFrom _ a m1 _ => numeral_text a ++ m1 ++ s_dotdot
  | ATo _ m2 b _ => s_dotdot ++ m2 ++ numeral_text b
  | AToIncl _ m2 m3 b _ => s_dotdot ++ m2 ++ [c_eq] ++ m3 ++ numeral_text b
  | AFull _ _ => s_dotdot
  | AWild _ _ => s_us
  end.
Definition atom_is_fb (a : atom) : bool := match a with AFull _ _ | AWild _ _ => true | _ => false end.

Lemma print_atom_decomp a : print_atom a = atom_l a ++ atom_core a ++ atom_r a.
Proof. destruct a; cbn [print_atom atom_l atom_core atom_r]; repeat rewrite <- app_assoc; reflexivity. Qed.

Definition end_excl (t : rtype) (s : str) (v : num) : res bound :=
  match range_end_bound t v with Some b => Ok b | None => Err (InvalidBoundEnd s) end.
Definition finish (s : str) (start : option num) (e : bound) : res range :=
  match start with
  | Some st =>
      match e with
      | Excluded en => if num_leb en st then Err (ImpossibleRange s) else Ok (Bounds start e)
      | Included en => if num_ltb en st then Err (ImpossibleRange s) else Ok (Bounds start e)
      | Unbounded => Ok (Bounds start e)
      end
  | None => Ok (Bounds start e)
  end.

(** what Range::new makes of one alternative, with the string operations resolved *)
Definition atom_range (t : rtype) (a : atom) : res range :=
  let s := atom_core a in
  match a with
  | AExact _ n _ => rmap Exact (pnum t n)
  | ARange _ a _ _ b _ => bind (rmap Some (pnum t a)) (fun st => bind (bind (pnum t b) (end_excl t s)) (finish s st))
  | ARangeIncl _ a _ _ _ b _ => bind (rmap Some (pnum t a)) (fun st => bind (rmap Included (pnum t b)) (finish s st))
  | AFrom _ a _ _ => bind (rmap Some (pnum t a)) (fun st => finish s st Unbounded)
  | ATo _ _ b _ => bind (bind (pnum t b) (end_excl t s)) (finish s None)
  | AToIncl _ _ _ b _ => bind (rmap Included (pnum t b)) (finish s None)
  | AFull _ _ | AWild _ _ => Ok Fallback
  end.

Lemma hd_ok_rev_app x y : y <> [] -> hd_ok (rev (x ++ y)) = hd_ok (rev y).
Proof.
  intros H. rewrite rev_app_distr. apply hd_ok_app. intros E. apply (f_equal (@rev _)) in E.
  rewrite rev_involutive in E. cbn in E. congruence.
Qed.

Lemma all_ws_nochar m : all_ws m = true ->
  nochar 46%N m = true /\ nochar c_pipe m = true.
Proof. intros H. split; apply nochar_ws; try assumption; reflexivity. Qed.

Ltac tok_facts H :=
  let Hn := fresh "Hnn" in let Hh := fresh "Hhd" in let Hr := fresh "Hrv" in let Hp := fresh "Hnp" in
  let Hd := fresh "Hdd" in let He := fresh "Hse" in let Hf := fresh "Hsf" in let Hw := fresh "Hnw" in
  destruct (text_ok_facts _ H) as (Hn & Hh & Hr & Hp & Hd & He & Hf & Hw).

Lemma len_pos {A} (s : list A) : s <> [] -> (1 <= length s)%nat.
Proof. destruct s; [congruence|cbn; lia]. Qed.
Lemma str_fallback_long s : (3 <= length s)%nat -> str_fallback s = false.
Proof.
  intros H. unfold str_fallback. apply orb_false_iff. split; apply str_eqb_neq; intros ->; cbn in H; lia.
Qed.

Section Atom.
  Variable t : rtype.
  Variable tbl : ftable.

  Lemma wf_numerals a : atom_wf t tbl a = true ->
    atom_ws_ok a = true /\ forall n, In n (atom_numerals a) -> text_ok (numeral_text n) = true /\ parse_num t tbl (numeral_text n) = pnum t n.
  Proof.
    unfold atom_wf. intros H. apply andb_true_iff in H as [Hw Hn]. split; [assumption|].
    intros n Hin. rewrite forallb_forall in Hn. specialize (Hn n Hin).
    split; [eapply numeral_text_ok; eassumption|now apply parse_num_numeral].
  Qed.

  (** the core of a well-formed alternative is tight, non-empty and free of '|' *)
  Lemma core_facts a : atom_wf t tbl a = true ->
    atom_core a <> [] /\ hd_ok (atom_core a) = true /\ hd_ok (rev (atom_core a)) = true
    /\ nochar c_pipe (atom_core a) = true /\ all_ws (atom_l a) = true /\ all_ws (atom_r a) = true
    /\ str_fallback (atom_core a) = atom_is_fb a.
  Proof.
    intros Hwf. destruct (wf_numerals a Hwf) as [Hws Hnum].
    destruct a as [l a r|l a m1 m2 b r|l a m1 m2 m3 b r|l a m1 r|l m2 b r|l m2 m3 b r|l r|l r];
      cbn [atom_ws_ok atom_numerals atom_core atom_l atom_r atom_is_fb] in *;
      repeat (apply andb_true_iff in Hws as [Hws ?]);
      try (destruct (Hnum a (or_introl eq_refl)) as [Ha _]; tok_facts Ha);
      try (destruct (Hnum b (or_intror (or_introl eq_refl))) as [Hb _]; tok_facts Hb);
      try (destruct (Hnum b (or_introl eq_refl)) as [Hb _]; tok_facts Hb);
      repeat match goal with H : all_ws ?m = true |- _ =>
               lazymatch goal with
               | _ : nochar c_pipe m = true |- _ => fail
               | _ => destruct (all_ws_nochar m H)
               end end.
    - repeat split; assumption.
    - repeat split; try assumption.
      + destruct (numeral_text a); [congruence|discriminate].
      + now rewrite hd_ok_app.
      + rewrite !app_assoc. now rewrite hd_ok_rev_app.
      + rewrite !nochar_app. now repeat (apply andb_true_iff; split).
      + apply str_fallback_long. rewrite !app_length. pose proof (len_pos _ Hnn). pose proof (len_pos _ Hnn0).
        cbn [length s_dotdot]. lia.
    - repeat split; try assumption.
      + destruct (numeral_text a); [congruence|discriminate].
      + now rewrite hd_ok_app.
      + rewrite !app_assoc. now rewrite hd_ok_rev_app.
      + rewrite !nochar_app. now repeat (apply andb_true_iff; split).
      + apply str_fallback_long. rewrite !app_length. pose proof (len_pos _ Hnn). pose proof (len_pos _ Hnn0).
        cbn [length s_dotdot]. lia.
    - repeat split; try assumption.
      + destruct (numeral_text a); [congruence|discriminate].
      + now rewrite hd_ok_app.
      + rewrite !app_assoc. rewrite hd_ok_rev_app; [reflexivity|discriminate].
      + rewrite !nochar_app. now repeat (apply andb_true_iff; split).
      + apply str_fallback_long. rewrite !app_length. pose proof (len_pos _ Hnn).
        cbn [length s_dotdot]. lia.
    - repeat split; try assumption.
      + discriminate.
      + rewrite !app_assoc. now rewrite hd_ok_rev_app.
      + rewrite !nochar_app. now repeat (apply andb_true_iff; split).
      + apply str_fallback_long. rewrite !app_length. pose proof (len_pos _ Hnn).
        cbn [length s_dotdot]. lia.
    - repeat split; try assumption.
      + discriminate.
      + rewrite !app_assoc. now rewrite hd_ok_rev_app.
      + rewrite !nochar_app. now repeat (apply andb_true_iff; split).
      + apply str_fallback_long. rewrite !app_length. pose proof (len_pos _ Hnn).
        cbn [length s_dotdot]. lia.
    - repeat split; try assumption; discriminate.
    - repeat split; try assumption; discriminate.
  Qed.
End Atom.

Section AtomParse.
  Variable t : rtype.
  Variable tbl : ftable.

  Lemma is_empty_nonnil (s : str) : s <> [] -> is_empty s = false.
  Proof. destruct s; [congruence|reflexivity]. Qed.

  Lemma trim_nil : trim [] = [].
  Proof. reflexivity. Qed.

  (** Range::new on the (already trimmed) core of an alternative *)
  Lemma range_new_bounds_core a : atom_wf t tbl a = true -> atom_is_fb a = false ->
    range_new_bounds t tbl (atom_core a) = atom_range t a.
  Proof.
    intros Hwf Hfb. destruct (wf_numerals t tbl a Hwf) as [Hws Hnum].
    destruct a as [l a r|l a m1 m2 b r|l a m1 m2 m3 b r|l a m1 r|l m2 b r|l m2 m3 b r|l r|l r];
      try discriminate;
      cbn [atom_ws_ok atom_numerals atom_core atom_range] in *;
      repeat (apply andb_true_iff in Hws as [Hws ?]);
      try (destruct (Hnum a (or_introl eq_refl)) as [Ha Pa]; tok_facts Ha);
      try (destruct (Hnum b (or_intror (or_introl eq_refl))) as [Hb Pb]; tok_facts Hb);
      try (destruct (Hnum b (or_introl eq_refl)) as [Hb Pb]; tok_facts Hb);
      repeat match goal with H : all_ws ?m = true |- _ =>
               lazymatch goal with
               | _ : nochar c_pipe m = true |- _ => fail
               | _ => destruct (all_ws_nochar m H)
               end end;
      unfold range_new_bounds, range_new_bounds_g; change (parse_num_g true) with parse_num.
    - (* exact *)
      rewrite nodd_no_split by assumption. now rewrite Pa.
    - (* a..b *)
      rewrite (app_assoc (numeral_text a) m1), split_once_dd by (apply nodd_app; assumption).
      cbv zeta. rewrite trim_pad_r, trim_pad_l by assumption.
      rewrite !is_empty_nonnil by assumption. rewrite Hse0, Pa, Pb.
      rewrite <- (app_assoc (numeral_text a) m1). reflexivity.
    - (* a..=b *)
      rewrite (app_assoc (numeral_text a) m1), split_once_dd by (apply nodd_app; assumption).
      cbv zeta. rewrite trim_pad_r by assumption.
      rewrite (trim_pad_l m2 ([c_eq] ++ m3 ++ numeral_text b)); try assumption; try reflexivity.
      2:{ rewrite !app_assoc. now rewrite hd_ok_rev_app. }
      rewrite !is_empty_nonnil by (assumption || discriminate).
      cbn [app strip_prefix]. rewrite N.eqb_refl.
      rewrite trim_start_ws, trim_start_hd by assumption. rewrite Pa, Pb.
      rewrite <- (app_assoc (numeral_text a) m1). reflexivity.
    - (* a.. *)
      rewrite (app_assoc (numeral_text a) m1), <- (app_nil_r s_dotdot), split_once_dd by (apply nodd_app; assumption).
      cbv zeta. rewrite trim_pad_r by assumption. rewrite trim_nil.
      rewrite is_empty_nonnil by assumption. cbn [is_empty]. rewrite Pa.
      rewrite app_nil_r, <- (app_assoc (numeral_text a) m1). reflexivity.
    - (* ..b *)
      change (s_dotdot ++ m2 ++ numeral_text b) with ([] ++ s_dotdot ++ m2 ++ numeral_text b) at 1.
      rewrite (split_once_dd [] (m2 ++ numeral_text b)) by reflexivity.
      cbv zeta. rewrite trim_nil, trim_pad_l by assumption. cbn [is_empty].
      rewrite is_empty_nonnil by assumption. rewrite Hse, Pb. reflexivity.
    - (* ..=b *)
      change (s_dotdot ++ m2 ++ [c_eq] ++ m3 ++ numeral_text b)
        with ([] ++ s_dotdot ++ m2 ++ [c_eq] ++ m3 ++ numeral_text b) at 1.
      rewrite (split_once_dd [] (m2 ++ [c_eq] ++ m3 ++ numeral_text b)) by reflexivity.
      cbv zeta. rewrite trim_nil.
      rewrite (trim_pad_l m2 ([c_eq] ++ m3 ++ numeral_text b)); try assumption; try reflexivity.
      2:{ rewrite !app_assoc. now rewrite hd_ok_rev_app. }
      cbn [is_empty]. rewrite is_empty_nonnil by discriminate.
      cbn [app strip_prefix]. rewrite N.eqb_refl.
      rewrite trim_start_ws, trim_start_hd by assumption. rewrite Pb. reflexivity.
  Qed.

  (** ... and on the alternative as printed, with its padding *)
  Lemma range_new_piece_atom a : atom_wf t tbl a = true ->
    range_new_piece t tbl (print_atom a) = atom_range t a.
  Proof.
    intros Hwf. destruct (core_facts t tbl a Hwf) as (Hnn & Hh & Hr & Hp & Hl & Hrr & Hfb).
    unfold range_new_piece, range_new_piece_g. change (range_new_bounds_g true) with range_new_bounds.
    rewrite print_atom_decomp, trim_pad by assumption. rewrite Hfb.
    destruct (atom_is_fb a) eqn:E.
    - destruct a; try discriminate; reflexivity.
    - now apply range_new_bounds_core.
  Qed.
End AtomParse.

(* ================================================================== meaning of the parsed alternative *)

Definition atom_nonan (a : atom) : bool := forallb (fun n => negb (num_is_nan (numeral_val n))) (atom_numerals a).

Lemma numeral_val_int t tbl n : numeral_ok t tbl n = true -> ty_is_float t = false -> exists z, numeral_val n = Some z.
Proof.
  destruct n; cbn [numeral_ok numeral_val]; intros H Hf; [eexists; reflexivity|]. rewrite Hf in H. discriminate.
Qed.
Lemma numeral_in_ty_val t n z : numeral_in_ty t n = true -> numeral_val n = Some z -> ty_is_float t = false ->
  forall tbl, numeral_ok t tbl n = true -> in_ty t z = true.
Proof.
  destruct n; cbn [numeral_in_ty numeral_ok]; intros H Hv Hf tbl Hok.
  - rewrite Hv in H. apply andb_true_iff in H as [H _]. exact H.
  - rewrite Hf in Hok. discriminate.
Qed.

Ltac zcmp :=
  repeat match goal with
         | |- context [Z.leb ?a ?b] => destruct (Z.leb_spec a b)
         | |- context [Z.ltb ?a ?b] => destruct (Z.ltb_spec a b)
         | H : context [Z.leb ?a ?b] |- _ => destruct (Z.leb_spec a b)
         | H : context [Z.ltb ?a ?b] |- _ => destruct (Z.ltb_spec a b)
         end; cbn [andb orb negb] in *; try reflexivity; try discriminate; try lia.

Lemma pat_incl_excl (s : option num) zb x :
  pat_match (Bounds s (Included (Some (zb - 1)))) x = start_le s x && num_ltb x (Some zb).
Proof. cbn [pat_match]. f_equal. destruct x as [n|]; cbn; [|reflexivity]. zcmp. Qed.

Section AtomSem.
  Variable t : rtype.
  Variable tbl : ftable.

  Lemma end_excl_float v s : ty_is_float t = true -> end_excl t s v = Ok (Excluded v).
  Proof. intros Hf. unfold end_excl, range_end_bound. now rewrite Hf. Qed.
  Lemma end_excl_int z s : ty_is_float t = false ->
    end_excl t s (Some z) = if ty_min t <=? z - 1 then Ok (Included (Some (z - 1))) else Err (InvalidBoundEnd s).
  Proof. intros Hf. unfold end_excl, range_end_bound. rewrite Hf. destruct (ty_min t <=? z - 1); reflexivity. Qed.

  Lemma atom_range_ok a : atom_wf t tbl a = true -> atom_ok t a = true ->
    exists r, atom_range t a = Ok r
              /\ (forall x, pat_match r x = rsem_atom a x)
              /\ has_fallback r = atom_is_fb a
              /\ (atom_nonan a = true -> range_no_nan r = true).
  Proof.
    intros Hwf Hok. unfold atom_wf in Hwf. apply andb_true_iff in Hwf as [_ Hnum].
    unfold atom_ok in Hok. apply andb_true_iff in Hok as [Hin Hdeg]. apply negb_true_iff in Hdeg.
    unfold atom_nonan, range_no_nan.
    destruct a as [l a r|l a m1 m2 b r|l a m1 m2 m3 b r|l a m1 r|l m2 b r|l m2 m3 b r|l r|l r];
      cbn [atom_numerals forallb atom_range atom_is_fb rsem_atom atom_degenerate] in *;
      repeat match goal with H : _ && _ = true |- _ => apply andb_true_iff in H as [? ?] end;
      unfold pnum;
      repeat match goal with H : numeral_in_ty t _ = true |- _ => rewrite H end;
      cbn [rmap bind].
    - eexists; repeat split; try reflexivity. intros Hnan. cbn. now rewrite andb_true_r in *.
    - (* a..b *)
      destruct (ty_is_float t) eqn:Ef.
      + rewrite end_excl_float by assumption. cbn [bind finish].
        cbn [negb andb] in Hdeg. rewrite orb_false_r in Hdeg. rewrite Hdeg.
        eexists; repeat split; try reflexivity. intros Hnan. cbn. rewrite !andb_true_r in *.
        apply andb_true_iff in Hnan as [Hn1 Hn2]. rewrite Hn1, Hn2. reflexivity.
      + destruct (numeral_val_int t tbl a) as [za Ea]; try assumption.
        destruct (numeral_val_int t tbl b) as [zb Eb]; try assumption.
        rewrite Ea, Eb in *. rewrite end_excl_int by assumption.
        cbn [negb andb num_leb] in Hdeg. apply orb_false_iff in Hdeg as [D1 D2].
        assert (ty_min t <=? zb - 1 = true) as -> by zcmp.
        cbn [bind finish num_ltb]. assert (zb - 1 <? za = false) as -> by zcmp.
        eexists; repeat split; try reflexivity. intros x. apply pat_incl_excl.
    - (* a..=b *)
      cbn [bind finish]. rewrite Hdeg.
      eexists; repeat split; try reflexivity. intros Hnan. cbn. rewrite !andb_true_r in *.
      apply andb_true_iff in Hnan as [Hn1 Hn2]. rewrite Hn1, Hn2. reflexivity.
    - (* a.. *)
      cbn [bind finish]. eexists; repeat split; try reflexivity. intros Hnan. cbn. now rewrite !andb_true_r in *.
    - (* ..b *)
      destruct (ty_is_float t) eqn:Ef.
      + rewrite end_excl_float by assumption. cbn [bind finish].
        eexists; repeat split; try reflexivity. intros Hnan. cbn. now rewrite !andb_true_r in *.
      + destruct (numeral_val_int t tbl b) as [zb Eb]; try assumption.
        rewrite Eb in *. rewrite end_excl_int by assumption.
        cbn [negb andb num_leb] in Hdeg. assert (ty_min t <=? zb - 1 = true) as -> by zcmp.
        cbn [bind finish]. eexists; repeat split; try reflexivity. intros x. apply pat_incl_excl.
    - (* ..=b *)
      cbn [bind finish]. eexists; repeat split; try reflexivity. intros Hnan. cbn. now rewrite !andb_true_r in *.
    - eexists; repeat split; reflexivity.
    - eexists; repeat split; reflexivity.
  Qed.

  Lemma atom_range_err a : atom_wf t tbl a = true -> atom_ok t a = false -> exists e, atom_range t a = Err e.
  Proof.
    intros Hwf Hok. unfold atom_wf in Hwf. apply andb_true_iff in Hwf as [_ Hnum].
    unfold atom_ok in Hok.
    destruct a as [l a r|l a m1 m2 b r|l a m1 m2 m3 b r|l a m1 r|l m2 b r|l m2 m3 b r|l r|l r];
      cbn [atom_numerals forallb atom_range atom_degenerate] in *;
      repeat match goal with H : _ && _ = true |- _ => apply andb_true_iff in H as [? ?] end;
      unfold pnum; try discriminate.
    - destruct (numeral_in_ty t a); [discriminate|]. eexists; reflexivity.
    - destruct (numeral_in_ty t a) eqn:Ia; [|eexists; reflexivity].
      destruct (numeral_in_ty t b) eqn:Ib; [|eexists; reflexivity].
      cbn [andb negb rmap bind] in *. apply negb_false_iff in Hok.
      destruct (ty_is_float t) eqn:Ef.
      + rewrite end_excl_float by assumption. cbn [bind finish negb andb] in *. rewrite orb_false_r in Hok.
        rewrite Hok. eexists; reflexivity.
      + destruct (numeral_val_int t tbl a) as [za Ea]; try assumption.
        destruct (numeral_val_int t tbl b) as [zb Eb]; try assumption.
        rewrite Ea, Eb in *. rewrite end_excl_int by assumption.
        destruct (ty_min t <=? zb - 1) eqn:Em; [|eexists; reflexivity].
        cbn [bind finish num_ltb negb andb num_leb] in *.
        assert (zb - 1 <? za = true) as ->.
        { apply orb_true_iff in Hok as [Hk|Hk]; zcmp. }
        eexists; reflexivity.
    - destruct (numeral_in_ty t a) eqn:Ia; [|eexists; reflexivity].
      destruct (numeral_in_ty t b) eqn:Ib; [|eexists; reflexivity].
      cbn [andb negb rmap bind finish] in *. apply negb_false_iff in Hok. rewrite Hok. eexists; reflexivity.
    - destruct (numeral_in_ty t a); [discriminate|]. eexists; reflexivity.
    - destruct (numeral_in_ty t b) eqn:Ib; [|eexists; reflexivity].
      cbn [andb negb rmap bind] in *. apply negb_false_iff in Hok.
      destruct (ty_is_float t) eqn:Ef; [discriminate|].
      destruct (numeral_val_int t tbl b) as [zb Eb]; try assumption.
      rewrite Eb in *. rewrite end_excl_int by assumption. cbn [negb andb num_leb] in Hok.
      assert (ty_min t <=? zb - 1 = false) as -> by zcmp. eexists; reflexivity.
    - destruct (numeral_in_ty t b); [discriminate|]. eexists; reflexivity.
  Qed.
End AtomSem.

(* ================================================================== whole specifications *)

Definition set_l (a : atom) (l' : ws) : atom :=
  match a with
  | AExact _ n r => AExact l' n r
  | ARange _ a m1 m2 b r => ARange l' a m1 m2 b r
  | ARangeIncl _ a m1 m2 m3 b r => ARangeIncl l' a m1 m2 m3 b r
  | AFrom _ a m1 r => AFrom l' a m1 r
  | ATo _ m2 b r => ATo l' m2 b r
  | AToIncl _ m2 m3 b r => AToIncl l' m2 m3 b r
  | AFull _ r => AFull l' r
  | AWild _ r => AWild l' r
  end.
Definition set_r (a : atom) (r' : ws) : atom :=
  match a with
  | AExact l n _ => AExact l n r'
  | ARange l a m1 m2 b _ => ARange l a m1 m2 b r'
  | ARangeIncl l a m1 m2 m3 b _ => ARangeIncl l a m1 m2 m3 b r'
  | AFrom l a m1 _ => AFrom l a m1 r'
  | ATo l m2 b _ => ATo l m2 b r'
  | AToIncl l m2 m3 b _ => AToIncl l m2 m3 b r'
  | AFull l _ => AFull l r'
  | AWild l _ => AWild l r'
  end.
Fixpoint strip_last (l : list atom) : list atom :=
  match l with
  | [] => []
  | [a] => [set_r a []]
  | a :: t => a :: strip_last t
  end.

Lemma set_l_facts t tbl a : atom_wf t tbl a = true ->
  atom_wf t tbl (set_l a []) = true /\ atom_range t (set_l a []) = atom_range t a
  /\ print_atom (set_l a []) = atom_core a ++ atom_r a.
Proof.
  intros H. repeat split.
  - unfold atom_wf in *. destruct a; cbn [set_l atom_ws_ok atom_numerals] in *;
      repeat rewrite <- andb_assoc in *; apply andb_true_iff in H as [_ H]; exact H.
  - destruct a; reflexivity.
  - rewrite print_atom_decomp. destruct a; reflexivity.
Qed.
Lemma set_r_facts t tbl a : atom_wf t tbl a = true ->
  atom_wf t tbl (set_r a []) = true /\ atom_range t (set_r a []) = atom_range t a
  /\ print_atom (set_r a []) = atom_l a ++ atom_core a.
Proof.
  intros H. repeat split.
  - unfold atom_wf in *. apply andb_true_iff in H as [Hw Hn]. apply andb_true_iff. split; [|destruct a; exact Hn].
    destruct a; cbn [set_r atom_ws_ok] in *;
      repeat match goal with H : _ && _ = true |- _ => apply andb_true_iff in H as [? ?] end;
      repeat (apply andb_true_iff; split); try assumption; reflexivity.
  - destruct a; reflexivity.
  - rewrite print_atom_decomp. destruct a; cbn [set_r atom_l atom_core atom_r]; now rewrite app_nil_r.
Qed.

Lemma collect_ext {A B} (f g : A -> res B) l : (forall x, In x l -> f x = g x) -> collect f l = collect g l.
Proof.
  induction l as [|a l IH]; intros H; [reflexivity|]. cbn [collect].
  rewrite (H a (or_introl eq_refl)), IH; [reflexivity|]. intros; apply H; now right.
Qed.
Lemma collect_map {A B C} (f : B -> res C) (g : A -> B) l : collect f (map g l) = collect (fun x => f (g x)) l.
Proof. induction l as [|a l IH]; [reflexivity|]. cbn [map collect]. now rewrite IH. Qed.

Section Spec.
  Variable t : rtype.
  Variable tbl : ftable.
  Notation wf := (forallb (atom_wf t tbl)).

  Lemma print_atom_nochar a : atom_wf t tbl a = true -> nochar c_pipe (print_atom a) = true.
  Proof.
    intros H. destruct (core_facts t tbl a H) as (_ & _ & _ & Hp & Hl & Hr & _).
    rewrite print_atom_decomp, !nochar_app, Hp.
    destruct (all_ws_nochar _ Hl) as [_ ->]. destruct (all_ws_nochar _ Hr) as [_ ->]. reflexivity.
  Qed.

  Lemma split_all_spec l : l <> [] -> wf l = true -> split_all c_pipe (print_spec l) = map print_atom l.
  Proof.
    induction l as [|a l IH]; intros Hn Hw; [congruence|].
    cbn [forallb] in Hw. apply andb_true_iff in Hw as [Ha Hl].
    destruct l as [|b l].
    - cbn [print_spec map]. apply split_all_nochar. now apply print_atom_nochar.
    - change (print_spec (a :: b :: l)) with (print_atom a ++ c_pipe :: print_spec (b :: l)).
      rewrite split_all_sep by now apply print_atom_nochar. rewrite IH; [reflexivity|discriminate|assumption].
  Qed.

  Lemma strip_last_facts l : l <> [] -> wf l = true ->
    wf (strip_last l) = true /\ strip_last l <> []
    /\ collect (atom_range t) (strip_last l) = collect (atom_range t) l
    /\ forall pre, trim_end (pre ++ print_spec l) = pre ++ print_spec (strip_last l).
  Proof.
    induction l as [|a l IH]; intros Hn Hw; [congruence|].
    cbn [forallb] in Hw. apply andb_true_iff in Hw as [Ha Hl].
    destruct l as [|b l].
    - destruct (set_r_facts t tbl a Ha) as (W & R & P).
      destruct (core_facts t tbl a Ha) as (Hnn & _ & Hr & _ & _ & Hrr & _).
      cbn [strip_last forallb collect print_spec]. rewrite W, R. repeat split; try discriminate.
      intros pre. rewrite P, print_atom_decomp.
      rewrite (app_assoc pre (atom_l a)), trim_end_pad by assumption. now rewrite app_assoc.
    - destruct IH as (W & N & C & T); [discriminate|assumption|].
      change (strip_last (a :: b :: l)) with (a :: strip_last (b :: l)).
      cbn [forallb collect]. rewrite Ha, W, C. repeat split; try discriminate.
      intros pre. change (print_spec (a :: b :: l)) with (print_atom a ++ c_pipe :: print_spec (b :: l)).
      replace (pre ++ print_atom a ++ c_pipe :: print_spec (b :: l))
        with ((pre ++ print_atom a ++ [c_pipe]) ++ print_spec (b :: l))
        by (rewrite <- !app_assoc; reflexivity).
      rewrite T. destruct (strip_last (b :: l)) as [|x y] eqn:E; [congruence|].
      change (print_spec (a :: x :: y)) with (print_atom a ++ c_pipe :: print_spec (x :: y)).
      rewrite <- !app_assoc. reflexivity.
  Qed.

  (** Range::new on a printed specification, with every string operation resolved *)
  Lemma range_new_spec l : l <> [] -> wf l = true ->
    range_new t tbl (print_spec l) =
    match l with
    | [a] => atom_range t a
    | _ => bind (collect (atom_range t) l) (fun rs => Ok (flatten (Multiple rs)))
    end.
  Proof.
    intros Hn Hw. destruct l as [|a l]; [congruence|].
    pose proof Hw as Hw'. cbn [forallb] in Hw'. apply andb_true_iff in Hw' as [Ha Hl].
    destruct (core_facts t tbl a Ha) as (Hnn & Hh & Hr & Hp & Hla & Hra & Hfb).
    destruct l as [|b l].
    - (* one alternative *)
      cbn [print_spec]. unfold range_new, range_new_g. change (range_new_bounds_g true) with range_new_bounds.
      rewrite print_atom_decomp, trim_pad by assumption.
      rewrite Hfb. destruct (atom_is_fb a) eqn:E.
      + destruct a; try discriminate; reflexivity.
      + rewrite existsb_nochar, Hp. cbn [negb]. now apply range_new_bounds_core.
    - (* several *)
      destruct (strip_last_facts (b :: l)) as (W & N & C & T); [discriminate|assumption|].
      destruct (set_l_facts t tbl a Ha) as (Wa & Ra & Pa).
      assert (trim (print_spec (a :: b :: l)) = print_spec (set_l a [] :: strip_last (b :: l))) as Htrim.
      { change (print_spec (a :: b :: l)) with (print_atom a ++ c_pipe :: print_spec (b :: l)).
        unfold trim. rewrite print_atom_decomp, <- !app_assoc, trim_start_pad by assumption.
        replace (atom_core a ++ atom_r a ++ c_pipe :: print_spec (b :: l))
          with ((atom_core a ++ atom_r a ++ [c_pipe]) ++ print_spec (b :: l))
          by (rewrite <- !app_assoc; reflexivity).
        rewrite T. destruct (strip_last (b :: l)) as [|x y] eqn:E; [congruence|].
        change (print_spec (set_l a [] :: x :: y)) with (print_atom (set_l a []) ++ c_pipe :: print_spec (x :: y)).
        rewrite Pa, <- !app_assoc. reflexivity. }
      unfold range_new, range_new_g. change (range_new_piece_g true) with range_new_piece. rewrite Htrim.
      assert (wf (set_l a [] :: strip_last (b :: l)) = true) as Hw2 by (cbn [forallb]; now rewrite Wa, W).
      assert (existsb (N.eqb c_pipe) (print_spec (set_l a [] :: strip_last (b :: l))) = true) as Hpipe.
      { destruct (strip_last (b :: l)) as [|x y]; [congruence|].
        change (print_spec (set_l a [] :: x :: y)) with (print_atom (set_l a []) ++ c_pipe :: print_spec (x :: y)).
        rewrite existsb_app. cbn [existsb]. rewrite N.eqb_refl. cbn [orb]. apply orb_true_r. }
      assert (str_fallback (print_spec (set_l a [] :: strip_last (b :: l))) = false) as ->.
      { unfold str_fallback. apply orb_false_iff. split; apply str_eqb_neq; intros E; rewrite E in Hpipe; discriminate. }
      rewrite Hpipe, split_all_spec by (assumption || discriminate).
      rewrite collect_map.
      rewrite (collect_ext _ (atom_range t)).
      2:{ intros x Hx. apply range_new_piece_atom. rewrite forallb_forall in Hw2. now apply Hw2. }
      cbn [collect]. rewrite Ra, C. reflexivity.
  Qed.
End Spec.

(* ================================================================== the parse theorem *)

Lemma collect_ok {A B} (f : A -> res B) (P : A -> B -> Prop) l :
  (forall a, In a l -> exists r, f a = Ok r /\ P a r) -> exists rs, collect f l = Ok rs /\ Forall2 P l rs.
Proof.
  induction l as [|a l IH]; intros H.
  - exists []. split; [reflexivity|constructor].
  - destruct (H a (or_introl eq_refl)) as (r & Hr & Pr).
    destruct IH as (rs & Hrs & Prs); [intros; apply H; now right|].
    exists (r :: rs). cbn [collect]. rewrite Hr, Hrs. split; [reflexivity|now constructor].
Qed.
Lemma collect_err {A B} (f : A -> res B) l :
  (forall a, In a l -> (exists r, f a = Ok r) \/ (exists e, f a = Err e)) ->
  (exists a, In a l /\ exists e, f a = Err e) -> exists e, collect f l = Err e.
Proof.
  induction l as [|a l IH]; intros H (b & Hb & e & He); [destruct Hb|].
  cbn [collect]. destruct (H a (or_introl eq_refl)) as [(r & Hr)|(e' & He')].
  - rewrite Hr. cbn [bind]. destruct Hb as [->|Hb]; [congruence|].
    destruct IH as (e2 & He2); [intros; apply H; now right|eauto|]. rewrite He2. eexists; reflexivity.
  - rewrite He'. eexists; reflexivity.
Qed.
Lemma forallb_false_ex {A} (f : A -> bool) l : forallb f l = false -> exists a, In a l /\ f a = false.
Proof.
  induction l as [|a l IH]; cbn [forallb]; [discriminate|]. intros H.
  destruct (f a) eqn:E; [|exists a; split; [now left|assumption]].
  destruct (IH H) as (b & Hb & Fb). exists b. split; [now right|assumption].
Qed.

Lemma pat_flatten rs x : pat_match (flatten (Multiple rs)) x = existsb (fun r => pat_match r x) rs.
Proof.
  cbn [flatten]. destruct (existsb is_fallback rs) eqn:E; [|reflexivity].
  cbn [pat_match]. symmetry. apply existsb_exists in E as (r & Hr & Fr). apply existsb_exists.
  exists r. split; [assumption|]. destruct r; try discriminate. reflexivity.
Qed.
Lemma nonan_flatten rs : forallb range_no_nan rs = true -> range_no_nan (flatten (Multiple rs)) = true.
Proof.
  intros H. cbn [flatten]. destruct (existsb is_fallback rs); [reflexivity|]. now rewrite range_no_nan_Multiple.
Qed.

Section ParseSem.
  Variable t : rtype.
  Variable tbl : ftable.

  (** a well-formed specification whose alternatives are all satisfiable in the type is accepted, and
      the parsed structure means what the source means in Rust *)
  Theorem parse_sem_ok l : l <> [] -> forallb (atom_wf t tbl) l = true -> forallb (atom_ok t) l = true ->
    exists r, range_new t tbl (print_spec l) = Ok r
              /\ (forall x, pat_match r x = rsem l x)
              /\ (forallb atom_nonan l = true -> forall x, x <> None -> do_match r x = rsem l x).
  Proof.
    intros Hn Hw Hok. rewrite range_new_spec by assumption.
    rewrite forallb_forall in Hw, Hok.
    assert (Hall : forall a, In a l -> exists r, atom_range t a = Ok r /\
              ((forall x, pat_match r x = rsem_atom a x) /\ (atom_nonan a = true -> range_no_nan r = true))).
    { intros a Ha. destruct (atom_range_ok t tbl a (Hw a Ha) (Hok a Ha)) as (r & Hr & Hp & _ & Hnn). eauto. }
    destruct l as [|a [|b l]]; [congruence| |].
    - destruct (Hall a (or_introl eq_refl)) as (r & Hr & Hp & Hnn).
      exists r. split; [assumption|]. unfold rsem. cbn [existsb forallb]. split.
      + intros x. now rewrite orb_false_r.
      + intros Hna x Hx. rewrite andb_true_r in Hna. rewrite do_match_pat_match by auto. now rewrite orb_false_r.
    - destruct (collect_ok (atom_range t) _ _ Hall) as (rs & Hrs & HF).
      rewrite Hrs. cbn [bind]. eexists. split; [reflexivity|].
      assert (Hpat : forall x, existsb (fun r => pat_match r x) rs = rsem (a :: b :: l) x).
      { intros x. unfold rsem. clear -HF. induction HF as [|a0 r0 l0 rs0 [Hp _] _ IH]; [reflexivity|].
        cbn [existsb]. now rewrite Hp, IH. }
      split.
      + intros x. now rewrite pat_flatten.
      + intros Hna x Hx. rewrite do_match_pat_match; [now rewrite pat_flatten|assumption|].
        apply nonan_flatten. clear -HF Hna. induction HF as [|a0 r0 l0 rs0 [_ Hn] _ IH]; [reflexivity|].
        cbn [forallb] in *. apply andb_true_iff in Hna as [H1 H2]. now rewrite (Hn H1), (IH H2).
  Qed.

  (** one with a numeral outside the type or an alternative that is empty by construction is rejected *)
  Theorem parse_sem_err l : l <> [] -> forallb (atom_wf t tbl) l = true -> forallb (atom_ok t) l = false ->
    exists e, range_new t tbl (print_spec l) = Err e.
  Proof.
    intros Hn Hw Hok. rewrite range_new_spec by assumption.
    rewrite forallb_forall in Hw. apply forallb_false_ex in Hok as (bad & Hbad & Fbad).
    assert (Hall : forall a, In a l -> (exists r, atom_range t a = Ok r) \/ (exists e, atom_range t a = Err e)).
    { intros a Ha. destruct (atom_ok t a) eqn:E.
      - destruct (atom_range_ok t tbl a (Hw a Ha) E) as (r & Hr & _). eauto.
      - right. exact (atom_range_err t tbl a (Hw a Ha) E). }
    assert (Hex : exists a, In a l /\ exists e, atom_range t a = Err e).
    { exists bad. split; [assumption|]. exact (atom_range_err t tbl bad (Hw bad Hbad) Fbad). }
    destruct l as [|a [|b l]]; [congruence| |].
    - destruct Hex as (x & [<-|[]] & He). exact He.
    - destruct (collect_err _ _ Hall Hex) as (e & He). rewrite He. eexists; reflexivity.
  Qed.

  (** the alternatives rejected as empty by construction are indeed empty on the type *)
  Theorem degenerate_empty a : atom_wf t tbl a = true -> forallb (numeral_in_ty t) (atom_numerals a) = true ->
    atom_degenerate t a = true ->
    forall x, (ty_is_float t = false -> exists z, x = Some z /\ in_ty t z = true) -> rsem_atom a x = false.
  Proof.
    intros Hwf Hin Hdeg x Hx. unfold atom_wf in Hwf. apply andb_true_iff in Hwf as [_ Hnum].
    destruct a as [l a r|l a m1 m2 b r|l a m1 m2 m3 b r|l a m1 r|l m2 b r|l m2 m3 b r|l r|l r];
      cbn [atom_numerals forallb atom_degenerate rsem_atom] in *; try discriminate;
      repeat match goal with H : _ && _ = true |- _ => apply andb_true_iff in H as [? ?] end.
    - destruct (ty_is_float t) eqn:Ef.
      + cbn [negb andb] in Hdeg. rewrite orb_false_r in Hdeg.
        destruct (numeral_val a) as [za|], (numeral_val b) as [zb|], x as [n|]; cbn in *; try discriminate; try reflexivity;
          try (now rewrite ?andb_false_r). zcmp.
      + destruct (Hx eq_refl) as (n & -> & Hn). apply in_ty_bounds in Hn.
        destruct (numeral_val_int t tbl a) as [za Ea]; try assumption.
        destruct (numeral_val_int t tbl b) as [zb Eb]; try assumption.
        rewrite Ea, Eb in *. cbn [negb andb num_leb num_ltb] in *.
        apply orb_true_iff in Hdeg as [Hd|Hd]; zcmp.
    - destruct (numeral_val a) as [za|], (numeral_val b) as [zb|], x as [n|]; cbn in *; try discriminate; try reflexivity;
        try (now rewrite ?andb_false_r). zcmp.
    - destruct (ty_is_float t) eqn:Ef; [discriminate|].
      destruct (Hx eq_refl) as (n & -> & Hn). apply in_ty_bounds in Hn.
      destruct (numeral_val_int t tbl b) as [zb Eb]; try assumption.
      rewrite Eb in *. cbn [negb andb num_leb num_ltb] in *. zcmp.
  Qed.
End ParseSem.

(* ================================================================== the executable spec holds of the model *)

From LI Require Import Parser.RangesCheck.

Lemma list_eqb_map_ext {A} (f g : A -> bool) l : (forall x, f x = g x) -> list_eqb Bool.eqb (map f l) (map g l) = true.
Proof.
  intros H. induction l as [|a l IH]; [reflexivity|]. cbn [map list_eqb]. rewrite H, IH. now rewrite eqb_reflx.
Qed.
Lemma list_eqb_filter_ext (f g : num -> bool) counts : (forall x, x <> None -> f x = g x) ->
  list_eqb Bool.eqb
    (map snd (filter (fun p => negb (num_is_nan (fst p))) (combine counts (map f counts))))
    (map g (filter (fun x => negb (num_is_nan x)) counts)) = true.
Proof.
  intros H. induction counts as [|x cs IH]; [reflexivity|].
  cbn [map combine filter fst]. destruct x as [k|]; cbn [num_is_nan negb]; [|exact IH].
  cbn [map snd list_eqb]. rewrite H by discriminate. now rewrite eqb_reflx, IH.
Qed.
Lemma atoms_have_nan_false atoms : atoms_have_nan atoms = false -> forallb atom_nonan atoms = true.
Proof.
  unfold atoms_have_nan, atom_nonan. induction atoms as [|a l IH]; [reflexivity|].
  cbn [existsb forallb]. intros H. apply orb_false_iff in H as [H1 H2]. rewrite (IH H2), andb_true_r.
  clear -H1. induction (atom_numerals a) as [|n ns IHn]; [reflexivity|]. cbn [existsb forallb] in *.
  apply orb_false_iff in H1 as [-> H1]. now rewrite (IHn H1).
Qed.

Theorem spec_parse_holds t tbl atoms counts :
  atoms <> [] -> forallb (atom_wf t tbl) atoms = true ->
  let m := range_new t tbl (print_spec atoms) in
  spec_C04_parse t atoms counts m
    (match m with Ok r => map (pat_match r) counts | _ => [] end)
    (match m with Ok r => map (do_match r) counts | _ => [] end) = true.
Proof.
  intros Hn Hw m. unfold spec_C04_parse. destruct (forallb (atom_ok t) atoms) eqn:E.
  - destruct (parse_sem_ok t tbl atoms Hn Hw E) as (r & Hr & Hp & Hd). subst m. rewrite Hr. cbn [is_ok andb].
    rewrite (list_eqb_map_ext _ _ counts Hp). cbn [andb].
    destruct (atoms_have_nan atoms) eqn:En; [reflexivity|]. cbn [orb].
    apply list_eqb_filter_ext. apply Hd. now apply atoms_have_nan_false.
  - destruct (parse_sem_err t tbl atoms Hn Hw E) as (e & He). subst m. rewrite He. reflexivity.
Qed.
