(** The closing-tag scan of find_closing_tag finds exactly the closing tag of a component, for
    balanced children and siblings of any depth, including same-name nesting (property C01).
    Token view: text without '<' / opening tag / closing tag, each with arbitrary whitespace padding. *)
From Coq Require Import List NArith Bool Arith Lia.
Import ListNotations.
From LI Require Import Base.StrOps Base.StrLemmas Parser.Parse.
Open Scope N_scope.

(* scanning text without '<' is a no-op *)
Lemma scan_text key t : no_char c_lt t -> forall tail pos d best,
  scan_gen true key (t ++ tail) pos d best = scan_gen true key tail (pos + blen t)%nat d best.
Proof.
  induction t as [|c t IH]; intros H tail pos d best; simpl.
  - f_equal; lia.
  - inversion H; subst. destruct (c =? c_lt) eqn:E; [apply N.eqb_eq in E; contradiction|].
    rewrite (IH H3). f_equal; lia.
Qed.

(* ------------------------------------------------------------------ *)
(* whitespace / names *)
Definition name_ok (n : str) : Prop :=
  n <> [] /\ Forall (fun c => is_ws c = false /\ c <> c_lt /\ c <> c_gt /\ c <> c_slash) n.

Lemma ws_not_special c : is_ws c = true -> c <> c_lt /\ c <> c_gt /\ c <> c_slash.
Proof.
  intros H. repeat split; intros ->; vm_compute in H; discriminate.
Qed.




Lemma name_last n : name_ok n -> exists m c, n = m ++ [c] /\ is_ws c = false.
Proof.
  intros [Hne Hall]. destruct (exists_last Hne) as [m [c E]]. exists m, c. split; [exact E|].
  subst n. apply Forall_app in Hall. destruct Hall as [_ Hc]. inversion Hc; subst. tauto.
Qed.
Lemma name_first n : name_ok n -> exists c m, n = c :: m /\ is_ws c = false.
Proof.
  intros [Hne Hall]. destruct n as [|c m]; [congruence|]. exists c, m. split; [reflexivity|]. inversion Hall; tauto.
Qed.

Lemma trim_name_padded w1 n w2 : all_ws w1 -> all_ws w2 -> name_ok n -> trim (w1 ++ n ++ w2) = n.
Proof.
  intros H1 H2 Hn. unfold trim. rewrite trim_start_ws_app by exact H1.
  destruct (name_first n Hn) as [c [m [E Hc]]]. subst n.
  change ((c :: m) ++ w2) with (c :: (m ++ w2)). rewrite trim_start_nonws by exact Hc.
  change (c :: m ++ w2) with ((c :: m) ++ w2). rewrite trim_end_app_ws by exact H2.
  destruct (name_last (c :: m) Hn) as [m' [c' [E' Hc']]]. rewrite E'. apply trim_end_last_nonws. exact Hc'.
Qed.

(* ------------------------------------------------------------------ *)
(* tokens *)
Inductive tok :=
| TText (s : str)
| TOpen (w1 w2 n : str)
| TClose (w0 w1 w2 n : str).

Definition flat (t : tok) : str :=
  match t with
  | TText s => s
  | TOpen w1 w2 n => c_lt :: w1 ++ n ++ w2 ++ [c_gt]
  | TClose w0 w1 w2 n => c_lt :: w0 ++ c_slash :: w1 ++ n ++ w2 ++ [c_gt]
  end.

Definition tok_wf (t : tok) : Prop :=
  match t with
  | TText s => no_char c_lt s
  | TOpen w1 w2 n => all_ws w1 /\ all_ws w2 /\ name_ok n
  | TClose w0 w1 w2 n => all_ws w0 /\ all_ws w1 /\ all_ws w2 /\ name_ok n
  end.

(* abstract effect of one token on (depth, best) *)
Definition effect (key : str) (t : tok) (pos : nat) (st : nat * option (nat * nat)) : nat * option (nat * nat) :=
  let '(d, best) := st in
  match t with
  | TText _ => (d, best)
  | TOpen _ _ n => if str_eqb n key then (S d, best) else (d, best)
  | TClose _ _ _ n =>
      if str_eqb n key then
        (if (d =? 0)%nat then (d, Some (pos, (pos + blen (flat t))%nat)) else ((d - 1)%nat, best))
      else (d, best)
  end.

Lemma no_char_ws c w : all_ws w -> (c = c_lt \/ c = c_gt \/ c = c_slash) -> no_char c w.
Proof.
  intros H Hc. unfold no_char, all_ws in *. eapply Forall_impl; [|exact H].
  intros x Hx. destruct (ws_not_special x Hx) as [A [B C]]. destruct Hc as [->|[->| ->]]; assumption.
Qed.
Lemma no_char_name c n : name_ok n -> (c = c_lt \/ c = c_gt \/ c = c_slash) -> no_char c n.
Proof.
  intros [_ H] Hc. unfold no_char. eapply Forall_impl; [|exact H]. intros x [_ [A [B C]]].
  destruct Hc as [->|[->| ->]]; assumption.
Qed.
Lemma no_char_app c a b : no_char c a -> no_char c b -> no_char c (a ++ b).
Proof. unfold no_char. intros; apply Forall_app; split; assumption. Qed.

Lemma name_not_slash_prefix n : name_ok n -> strip_prefix [c_slash] n = None.
Proof.
  intros Hn. destruct (name_first n Hn) as [c [m [E _]]]. subst n. destruct Hn as [_ H]. inversion H; subst.
  destruct H2 as [_ [_ [_ Hs]]]. cbn [strip_prefix]. destruct (c_slash =? c) eqn:E; [apply N.eqb_eq in E; congruence|reflexivity].
Qed.

Lemma scan_tok key t : tok_wf t -> forall tail pos d best,
  scan_gen true key (flat t ++ tail) pos d best =
  let '(d', best') := effect key t pos (d, best) in
  scan_gen true key tail (pos + blen (flat t))%nat d' best'.
Proof.
  destruct t as [s|w1 w2 n|w0 w1 w2 n]; intros Hwf tail pos d best.
  - simpl in *. apply scan_text. exact Hwf.
  - destruct Hwf as [H1 [H2 Hn]].
    assert (Hbody : no_char c_lt (w1 ++ n ++ w2 ++ [c_gt])).
    { repeat apply no_char_app; try solve [apply no_char_ws; auto]; try solve [apply no_char_name; auto].
      constructor; [intro C; vm_compute in C; discriminate|constructor]. }
    assert (Hsplit : split_once_c c_gt ((w1 ++ n ++ w2 ++ [c_gt]) ++ tail) = Some (w1 ++ n ++ w2, tail)).
    { replace ((w1 ++ n ++ w2 ++ [c_gt]) ++ tail) with ((w1 ++ n ++ w2) ++ c_gt :: tail) by (repeat rewrite <- app_assoc; reflexivity).
      apply split_once_c_first. repeat apply no_char_app; try solve [apply no_char_ws; auto]; try solve [apply no_char_name; auto]. }
    cbn [flat app scan_gen]. rewrite N.eqb_refl.
    change ((w1 ++ n ++ w2 ++ [c_gt]) ++ tail) with ((w1 ++ n ++ w2 ++ [c_gt]) ++ tail) in *.
    rewrite Hsplit. rewrite trim_name_padded by assumption. rewrite name_not_slash_prefix by assumption.
    cbn [effect]. destruct (str_eqb n key); rewrite scan_text by exact Hbody; f_equal; cbn [blen len_utf8]; rewrite ?blen_app; cbn; lia.
  - destruct Hwf as [H0 [H1 [H2 Hn]]].
    set (body := w0 ++ c_slash :: w1 ++ n ++ w2 ++ [c_gt]).
    assert (Hbody : no_char c_lt body).
    { unfold body. apply no_char_app; [apply no_char_ws; auto|]. constructor; [intro C; vm_compute in C; discriminate|].
      repeat apply no_char_app; try solve [apply no_char_ws; auto]; try solve [apply no_char_name; auto].
      constructor; [intro C; vm_compute in C; discriminate|constructor]. }
    assert (Hsplit : split_once_c c_gt (body ++ tail) = Some (w0 ++ c_slash :: w1 ++ n ++ w2, tail)).
    { unfold body. replace ((w0 ++ c_slash :: w1 ++ n ++ w2 ++ [c_gt]) ++ tail) with ((w0 ++ c_slash :: w1 ++ n ++ w2) ++ c_gt :: tail).
      2:{ repeat (rewrite <- app_assoc; cbn [app]). reflexivity. }
      apply split_once_c_first. apply no_char_app; [apply no_char_ws; auto|]. constructor; [intro C; vm_compute in C; discriminate|].
      repeat apply no_char_app; try solve [apply no_char_ws; auto]; try solve [apply no_char_name; auto]. }
    cbn [flat app scan_gen]. fold body. rewrite N.eqb_refl. rewrite Hsplit.
    (* trim (w0 ++ "/" ++ w1 ++ n ++ w2) = "/" ++ w1 ++ n *)
    assert (Htrim : trim (w0 ++ c_slash :: w1 ++ n ++ w2) = c_slash :: w1 ++ n).
    { unfold trim. rewrite trim_start_ws_app by exact H0. rewrite trim_start_nonws by (vm_compute; reflexivity).
      rewrite (app_assoc w1 n w2), app_comm_cons.
      rewrite trim_end_app_ws by exact H2.
      destruct (name_last n Hn) as [m [c [E Hc]]]. subst n.
      rewrite (app_assoc w1 m [c]), app_comm_cons.
      apply trim_end_last_nonws. exact Hc. }
    rewrite Htrim. cbn [strip_prefix]. rewrite N.eqb_refl.
    rewrite trim_start_ws_app by exact H1.
    destruct (name_first n Hn) as [c [m [E Hc]]]. rewrite E at 1. rewrite trim_start_nonws by exact Hc. rewrite <- E.
    cbn [effect]. destruct (str_eqb n key).
    + destruct (d =? 0)%nat; rewrite scan_text by exact Hbody; f_equal; try (cbn [flat blen len_utf8]; fold body; rewrite ?blen_app; cbn; lia).
      f_equal. f_equal. cbn [flat blen]. fold body. unfold body. rewrite !blen_app. cbn [blen len_utf8]. rewrite !blen_app. cbn. lia.
    + rewrite scan_text by exact Hbody. f_equal. cbn [flat blen len_utf8]. fold body. lia.
Qed.

(* ------------------------------------------------------------------ *)
(* token lists *)
Definition flats (ts : list tok) : str := concat (map flat ts).
Fixpoint effects (key : str) (ts : list tok) (pos : nat) (st : nat * option (nat * nat)) : nat * option (nat * nat) :=
  match ts with
  | [] => st
  | t :: r => effects key r (pos + blen (flat t))%nat (effect key t pos st)
  end.

Lemma scan_toks key ts : Forall tok_wf ts -> forall tail pos d best,
  scan_gen true key (flats ts ++ tail) pos d best =
  let '(d', best') := effects key ts pos (d, best) in
  scan_gen true key tail (pos + blen (flats ts))%nat d' best'.
Proof.
  induction ts as [|t ts IH]; intros Hwf tail pos d best.
  - cbn. f_equal. lia.
  - inversion Hwf; subst. unfold flats; cbn [map concat]. fold (flats ts).
    rewrite <- app_assoc. rewrite scan_tok by assumption.
    cbn [effects]. destruct (effect key t pos (d, best)) as [d1 b1].
    rewrite IH by assumption. destruct (effects key ts (pos + blen (flat t)) (d1, b1)) as [d2 b2].
    f_equal. rewrite blen_app. lia.
Qed.

Lemma effects_app key a b pos st :
  effects key (a ++ b) pos st = effects key b (pos + blen (flats a))%nat (effects key a pos st).
Proof.
  revert pos st; induction a as [|t a IH]; intros pos st; cbn [app effects].
  - cbn. f_equal. lia.
  - rewrite IH. f_equal. unfold flats; cbn [map concat]. rewrite blen_app. lia.
Qed.

(* ------------------------------------------------------------------ *)
(* source items: text and components (variables are text without '<' for this lemma) *)
Inductive item :=
| IText (s : str)
| IComp (w1 w2 w0' w1' w2' n : str) (kids : list item).

Fixpoint toks (i : item) : list tok :=
  match i with
  | IText s => [TText s]
  | IComp w1 w2 w0' w1' w2' n kids =>
      TOpen w1 w2 n :: (fix go (l : list item) := match l with [] => [] | k :: r => toks k ++ go r end) kids
                    ++ [TClose w0' w1' w2' n]
  end.
Fixpoint toks_list (l : list item) : list tok := match l with [] => [] | k :: r => toks k ++ toks_list r end.
Lemma toks_comp w1 w2 w0' w1' w2' n kids :
  toks (IComp w1 w2 w0' w1' w2' n kids) = TOpen w1 w2 n :: toks_list kids ++ [TClose w0' w1' w2' n].
Proof. cbn [toks]. f_equal. Qed.

Fixpoint item_wf (i : item) : Prop :=
  match i with
  | IText s => no_char c_lt s
  | IComp w1 w2 w0' w1' w2' n kids =>
      all_ws w1 /\ all_ws w2 /\ all_ws w0' /\ all_ws w1' /\ all_ws w2' /\ name_ok n /\
      (fix go (l : list item) := match l with [] => True | k :: r => item_wf k /\ go r end) kids
  end.
Fixpoint items_wf (l : list item) : Prop := match l with [] => True | k :: r => item_wf k /\ items_wf r end.
Lemma item_wf_comp w1 w2 w0' w1' w2' n kids :
  item_wf (IComp w1 w2 w0' w1' w2' n kids) <->
  all_ws w1 /\ all_ws w2 /\ all_ws w0' /\ all_ws w1' /\ all_ws w2' /\ name_ok n /\ items_wf kids.
Proof.
  cbn [item_wf]. assert (E : (fix go (l : list item) := match l with [] => True | k :: r => item_wf k /\ go r end) kids = items_wf kids).
  { reflexivity. }
  rewrite E. tauto.
Qed.

(* size for nested induction *)
Fixpoint isize (i : item) : nat :=
  match i with
  | IText _ => 1%nat
  | IComp _ _ _ _ _ _ kids => S ((fix go (l : list item) := match l with [] => 0%nat | k :: r => (isize k + go r)%nat end) kids)
  end.
Fixpoint lsize (l : list item) : nat := match l with [] => 0%nat | k :: r => (isize k + lsize r)%nat end.
Lemma isize_comp w1 w2 a b c n kids : isize (IComp w1 w2 a b c n kids) = S (lsize kids).
Proof. reflexivity. Qed.
Lemma isize_pos i : (0 < isize i)%nat. Proof. destruct i; cbn; lia. Qed.

Lemma toks_wf_neutral key : forall sz,
  (forall i, (isize i <= sz)%nat -> item_wf i ->
     Forall tok_wf (toks i) /\ forall pos st, effects key (toks i) pos st = st) /\
  (forall l, (lsize l <= sz)%nat -> items_wf l ->
     Forall tok_wf (toks_list l) /\ forall pos st, effects key (toks_list l) pos st = st).
Proof.
  induction sz as [|sz [IHi IHl]].
  - split.
    + intros i Hs. pose proof (isize_pos i). lia.
    + intros l Hs Hwf. destruct l as [|k r]; [split; [constructor|reflexivity]|].
      cbn [lsize] in Hs. pose proof (isize_pos k). lia.
  - assert (Hi : forall i, (isize i <= S sz)%nat -> item_wf i ->
       Forall tok_wf (toks i) /\ forall pos st, effects key (toks i) pos st = st).
    { intros i Hs Hwf. destruct i as [s|w1 w2 w0' w1' w2' n kids].
      - cbn [isize item_wf toks] in *. split; [apply Forall_cons; [exact Hwf | apply Forall_nil] | intros pos [d0 b0]; reflexivity].
      - rewrite isize_comp in Hs. apply item_wf_comp in Hwf.
        destruct Hwf as [A1 [A2 [A3 [A4 [A5 [An Hk]]]]]].
        destruct (IHl kids ltac:(lia) Hk) as [Hkw Hke].
        rewrite toks_comp. split.
        + constructor; [cbn; tauto|]. apply Forall_app; split; [exact Hkw|]. constructor; [cbn; tauto|constructor].
        + intros pos [d best]. cbn [effects effect].
          destruct (str_eqb n key) eqn:E.
          * rewrite effects_app, Hke. cbn [effects effect]. rewrite E. cbn [Nat.eqb]. f_equal. lia.
          * rewrite effects_app, Hke. cbn [effects effect]. rewrite E. reflexivity. }
    split; [exact Hi|].
    intros l Hs Hwf. destruct l as [|k r]; [split; [constructor|reflexivity]|].
    cbn [lsize] in Hs. cbn [items_wf] in Hwf. destruct Hwf as [Hk Hr].
    pose proof (isize_pos k).
    destruct (Hi k ltac:(lia) Hk) as [Hkw Hke].
    destruct (IHl r ltac:(lia) Hr) as [Hrw Hre].
    cbn [toks_list]. split; [apply Forall_app; split; assumption|].
    intros pos st. rewrite effects_app, Hke, Hre. reflexivity.
Qed.

(* the closing tag of a component is found exactly, whatever follows it among its siblings *)
Theorem closing_tag_found key kids rest w0 w1 w2 :
  items_wf kids -> items_wf rest -> all_ws w0 -> all_ws w1 -> all_ws w2 -> name_ok key ->
  let inner := flats (toks_list kids) in
  let close := flat (TClose w0 w1 w2 key) in
  scan_gen true key (inner ++ close ++ flats (toks_list rest)) 0 0 None
  = Some (blen inner, (blen inner + blen close)%nat).
Proof.
  intros Hk Hr H0 H1 H2 Hn inner close.
  destruct (proj2 (toks_wf_neutral key (lsize kids)) kids (le_n _) Hk) as [Hkw Hke].
  destruct (proj2 (toks_wf_neutral key (lsize rest)) rest (le_n _) Hr) as [Hrw Hre].
  unfold inner. rewrite scan_toks by exact Hkw. rewrite Hke.
  change (close ++ flats (toks_list rest)) with (flat (TClose w0 w1 w2 key) ++ flats (toks_list rest)).
  rewrite scan_tok by (cbn; tauto).
  cbn [effect]. rewrite str_eqb_refl. cbn [Nat.eqb].
  replace (flats (toks_list rest)) with (flats (toks_list rest) ++ []) by apply app_nil_r.
  rewrite scan_toks by exact Hrw. rewrite Hre. cbn [scan_gen]. reflexivity.
Qed.

