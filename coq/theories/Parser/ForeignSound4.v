(** Soundness of foreign-key resolution, part 4 (property C06): references WITH arguments.
    [XRep v items]: the shape of the value ParsedValue::new builds for a source of the full AST
    [xitem] of Foreign.v (arguments kept in a key-sorted map, each string argument parsed again).
    Theorem: on every value of that shape [inline] is the source-level semantics [xdenote] — argument
    maps in BTreeMap order against arguments in source order, arguments inlined in the locale the reference
    is written in (the target in its effective locale), substitution through chains.  That the parser produces that shape for printed
    sources ([parse_args_statement]) is proved in ForeignSound7.v from the round trip of
    RoundTripRef1-4.v; here full soundness is reduced to it ([sound_from_parse_args]). *)
From Coq Require Import List NArith ZArith Bool Arith Lia Wf_nat Permutation.
Import ListNotations.
From LI Require Import Base.StrOps Base.StrLemmas Parser.Parse Parser.Json Parser.Reduce Parser.Source Parser.RoundTrip1
  Parser.ReduceProofs Parser.Foreign Parser.ForeignProofs Parser.ForeignSound Parser.ForeignSound2 Parser.ForeignFull.
Open Scope N_scope.

Definition is_xtext (i : xitem) : bool := match i with XText _ => true | _ => false end.

Inductive XRep : pv -> list xitem -> Prop :=
| XRep_text l : forallb is_xtext l = true -> XRep (PLit (LStr (xprint_list l))) l
| XRep_var vb va pre n rest : XRep vb pre -> XRep va rest ->
    XRep (PBloc [vb; PVar (s_var_ ++ n) FNone; va]) (pre ++ XVar n :: rest)
| XRep_comp vb vm va pre n kids rest : XRep vb pre -> XRep vm kids -> XRep va rest ->
    XRep (PBloc [vb; PComp (s_comp_ ++ n) vm; va]) (pre ++ XComp n kids :: rest)
  (* [sargs]: the source arguments in the order of the parsed map *)
| XRep_ref vb va pre ns path pargs sargs xargs rest : XRep vb pre -> XRep va rest ->
    ArgsRep pargs sargs -> Permutation sargs xargs -> NoDup (map fst xargs) ->
    XRep (PBloc [vb; PForeign ns path pargs; va]) (pre ++ XRef ns path xargs :: rest)
with ArgsRep : list (str * pv) -> list (str * xarg) -> Prop :=
| AR_nil : ArgsRep [] []
| AR_str k v its pa xa : XRep v its -> ArgsRep pa xa -> ArgsRep ((s_var_ ++ k, v) :: pa) ((k, XAStr its) :: xa)
| AR_lit k l pa xa : ArgsRep pa xa -> ArgsRep ((s_var_ ++ k, PLit l) :: pa) ((k, XALit l) :: xa).

(** * substitution only depends on the argument map up to lookup and normalisation *)
Section PieceInd.
Variable P : piece -> Prop.
Hypothesis HT : forall s, P (PcText s).
Hypothesis HV : forall k f, P (PcVar k f).
Hypothesis HC : forall k inner, Forall P inner -> P (PcComp k inner).
Hypothesis HF : forall ns p args, P (PcForeign ns p args).
Fixpoint piece_ind2 (p : piece) : P p :=
  match p with
  | PcText s => HT s
  | PcVar k f => HV k f
  | PcComp k inner =>
      HC k inner ((fix go (l : list piece) : Forall P l :=
                     match l with [] => Forall_nil P | x :: r => Forall_cons x (piece_ind2 x) (go r) end) inner)
  | PcForeign ns p args => HF ns p args
  end.
End PieceInd.

Definition args_equiv (a b : list (str * list piece)) : Prop :=
  forall k, option_map pc_norm (assoc k a) = option_map pc_norm (assoc k b).

Lemma subst_flat_equiv a b l : Forall (fun p => pc_norm (subst_piece a p) = pc_norm (subst_piece b p)) l ->
  pc_norm (flat_map (subst_piece a) l) = pc_norm (flat_map (subst_piece b) l).
Proof.
  induction 1 as [|p r Hp Hr IH]; [reflexivity|]. cbn [flat_map]. apply pc_norm_congr; [exact Hp | exact IH].
Qed.
Lemma subst_piece_equiv a b : args_equiv a b -> forall p, pc_norm (subst_piece a p) = pc_norm (subst_piece b p).
Proof.
  intros He. apply piece_ind2.
  - reflexivity.
  - intros k f. cbn [subst_piece]. specialize (He k).
    destruct (assoc k a) as [x|], (assoc k b) as [y|]; cbn [option_map] in He; try discriminate; [|reflexivity].
    injection He as He'. exact He'.
  - intros k inner IH. cbn [subst_piece]. rewrite (subst_flat_equiv a b inner IH). reflexivity.
  - reflexivity.
Qed.
Lemma subst_pieces_equiv a b l : args_equiv a b -> subst_pieces a l = subst_pieces b l.
Proof.
  intros He. unfold subst_pieces. apply subst_flat_equiv. apply Forall_forall. intros p _. apply subst_piece_equiv. exact He.
Qed.

(** lookups in association lists with distinct keys do not depend on the order *)
Lemma assoc_not_in {V} k (m : list (str * V)) : ~ In k (map fst m) -> assoc k m = None.
Proof.
  induction m as [|[k' v] r IH]; intros H; [reflexivity|]. cbn [assoc]. cbn [map fst In] in H.
  destruct (str_eqb k k') eqn:E; [apply str_eqb_eq in E; subst; exfalso; apply H; left; reflexivity|].
  apply IH. intros Hi. apply H. right. exact Hi.
Qed.
Lemma assoc_perm {V} (a b : list (str * V)) k : Permutation a b -> NoDup (map fst a) -> assoc k a = assoc k b.
Proof.
  induction 1 as [|[k1 v1] a b Hp IH|[k1 v1] [k2 v2] a|a b c H1 IH1 H2 IH2]; intros Hn.
  - reflexivity.
  - cbn [assoc]. cbn [map fst] in Hn. inversion Hn; subst. rewrite IH by assumption. reflexivity.
  - cbn [assoc]. cbn [map fst] in Hn. inversion Hn as [|? ? Hni Hn']; subst.
    destruct (str_eqb k k1) eqn:E1, (str_eqb k k2) eqn:E2; try reflexivity.
    apply str_eqb_eq in E1. apply str_eqb_eq in E2. subst. exfalso. apply Hni. left. reflexivity.
  - rewrite IH1 by exact Hn. apply IH2. eapply Permutation_NoDup; [|exact Hn]. apply Permutation_map. exact H1.
Qed.

(** * the argument lists of [xdenote] *)
Section XArgs.
Variable rec : str -> list xitem -> option (list piece).
Variable L : str.
Definition xarg1 (ka : str * xarg) : option (str * list piece) :=
  match snd ka with
  | XALit l => Some (s_var_ ++ fst ka, [PcText (lit_display l)])
  | XAStr its => match rec L its with Some d => Some (s_var_ ++ fst ka, pc_norm d) | None => None end
  end.
Lemma xargs_cons ka r :
  xargs rec L (ka :: r) = match xargs rec L r, xarg1 ka with Some r', Some e => Some (e :: r') | _, _ => None end.
Proof.
  destruct ka as [k a]. cbn [xargs fold_right]. fold (xargs rec L r). unfold xarg1. cbn [fst snd].
  destruct (xargs rec L r) as [r'|]; [|reflexivity]. destruct a as [its|l]; [|reflexivity].
  destruct (rec L its); reflexivity.
Qed.
Lemma xargs_perm xs ys a : Permutation xs ys -> xargs rec L xs = Some a ->
  exists a', xargs rec L ys = Some a' /\ Permutation a a'.
Proof.
  intros Hp. revert a. induction Hp as [|x xs ys Hp IH|x y xs|xs ys zs H1 IH1 H2 IH2]; intros a H.
  - exists a. split; [exact H | apply Permutation_refl].
  - rewrite xargs_cons in H |- *. destruct (xargs rec L xs) as [r|]; [|discriminate].
    destruct (IH _ eq_refl) as (r' & Er & Pr). rewrite Er. destruct (xarg1 x) as [e|]; [|discriminate].
    inversion H; subst. exists (e :: r'). split; [reflexivity | apply perm_skip; exact Pr].
  - rewrite !xargs_cons in H |- *. destruct (xargs rec L xs) as [r|]; [|discriminate].
    destruct (xarg1 x) as [ex|]; [|discriminate]. destruct (xarg1 y) as [ey|]; [|discriminate].
    inversion H; subst. exists (ex :: ey :: r). split; [reflexivity | apply perm_swap].
  - destruct (IH1 _ H) as (a1 & E1 & P1). destruct (IH2 _ E1) as (a2 & E2 & P2).
    exists a2. split; [exact E2 | eapply Permutation_trans; eassumption].
Qed.
Lemma xargs_keys xs a : xargs rec L xs = Some a -> map fst a = map (fun ka => s_var_ ++ fst ka) xs.
Proof.
  revert a. induction xs as [|x xs IH]; intros a H.
  - cbn in H. inversion H; reflexivity.
  - rewrite xargs_cons in H. destruct (xargs rec L xs) as [r|]; [|discriminate].
    destruct (xarg1 x) as [e|] eqn:Ee; [|discriminate]. inversion H; subst. cbn [map]. rewrite (IH _ eq_refl). f_equal.
    unfold xarg1 in Ee. destruct (snd x) as [its|l]; [destruct (rec L its); [|discriminate]|]; inversion Ee; reflexivity.
Qed.
End XArgs.

Lemma nodup_prefixed (xs : list (str * xarg)) : NoDup (map fst xs) -> NoDup (map (fun ka => s_var_ ++ fst ka) xs).
Proof.
  intros H. rewrite <- (map_map fst (fun k => s_var_ ++ k)). apply FinFun.Injective_map_NoDup; [|exact H].
  intros x y E. apply app_inv_head in E. exact E.
Qed.

(** pointwise relation between the argument pieces of [inline] and of [xdenote] *)
Definition arg_eq (x y : str * list piece) : Prop := fst x = fst y /\ pc_norm (snd x) = pc_norm (snd y).
Lemma args_equiv_forall2 a b : Forall2 arg_eq a b -> args_equiv a b.
Proof.
  intros H k. induction H as [|[k1 x] [k2 y] a b [E1 E2] Hr IH]; [reflexivity|].
  cbn [fst snd] in E1, E2. subst k2. cbn [assoc]. destruct (str_eqb k k1); [cbn [option_map]; rewrite E2; reflexivity | exact IH].
Qed.

Section Sound.
Variable vals : values.
Variable dflt : str.
Variable inherits : list (str * str).
Variable src : str -> keypath -> option (option (list xitem)).
Notation inl := (inline vals dflt inherits).
Notation xden := (xdenote src dflt inherits).

(** every value of the project has the shape of its source *)
Definition xproj_rel : Prop := forall L p,
  match src L p with
  | Some (Some items) => exists v, get_value_at vals L p = Some (NVal v) /\ XRep v items
  | Some None => get_value_at vals L p = Some NDefault
  | None => get_value_at vals L p = None \/ exists sub, get_value_at vals L p = Some (NSub sub)
  end.
Hypothesis HP : xproj_rel.

Lemma xgv_val L p T : get_value_at vals L p = Some (NVal T) -> exists items, src L p = Some (Some items) /\ XRep T items.
Proof.
  intros H. pose proof (HP L p) as Hp. destruct (src L p) as [[items|]|].
  - destruct Hp as (v & Eg & R). rewrite Eg in H. inversion H; subst. exists items. auto.
  - rewrite Hp in H. discriminate.
  - destruct Hp as [Hp|[sub Hp]]; rewrite Hp in H; discriminate.
Qed.
Lemma xgv_default L p : get_value_at vals L p = Some NDefault -> src L p = Some None.
Proof.
  intros H. pose proof (HP L p) as Hp. destruct (src L p) as [[items|]|]; [| reflexivity |].
  - destruct Hp as (v & Eg & _). rewrite Eg in H. discriminate.
  - destruct Hp as [Hp|[sub Hp]]; rewrite Hp in H; discriminate.
Qed.
Lemma xgv_absent L p : (get_value_at vals L p = None \/ exists sub, get_value_at vals L p = Some (NSub sub)) -> src L p = None.
Proof.
  intros H. pose proof (HP L p) as Hp. destruct (src L p) as [[items|]|]; [| | reflexivity].
  - destruct Hp as (v & Eg & _). rewrite Eg in H. destruct H as [H|[sub H]]; discriminate.
  - rewrite Hp in H. destruct H as [H|[sub H]]; discriminate.
Qed.

Lemma xwalk_effective target : forall fuel visited cur T,
  get_value_at vals (walk vals dflt inherits fuel visited cur target) target = Some (NVal T) ->
  effective src dflt inherits fuel visited cur target = walk vals dflt inherits fuel visited cur target.
Proof.
  induction fuel as [|f IH]; intros visited cur T H; cbn [Foreign.walk effective] in *; [reflexivity|].
  destruct (assoc cur inherits) as [next|]; [|reflexivity].
  destruct (mem_str next visited); [reflexivity|].
  destruct (get_value_at vals next target) as [[T'| |sub]|] eqn:E.
  - destruct (xgv_val _ _ _ E) as (items & Es & _). rewrite Es. reflexivity.
  - rewrite (xgv_default _ _ E). eapply IH; exact H.
  - rewrite E in H. discriminate.
  - rewrite (xgv_absent next target (or_introl E)). eapply IH; exact H.
Qed.

Lemma ilook2_inv_args rec target args A L d : ilook vals dflt inherits rec 2 target args A L = Some d ->
  exists L' T body a, get_value_at vals L' target = Some (NVal T) /\ rec L' T = Some body
    /\ iargs rec A args = Some a /\ d = subst_pieces a (pc_norm body)
    /\ ((L' = L) \/ (get_value_at vals L target = Some NDefault /\ L' = walk vals dflt inherits (S (length inherits)) [L] L target)).
Proof.
  intros H. cbn [ForeignSound.ilook] in H.
  destruct (get_value_at vals L target) as [[T| |sub]|] eqn:E0; try discriminate.
  - destruct (rec L T) as [body|] eqn:Er; [|discriminate]. destruct (iargs rec A args) as [a|] eqn:Ea; [|discriminate].
    inversion H; subst. exists L, T, body, a. repeat split; auto.
  - destruct (str_eqb L dflt); [discriminate|].
    set (L1 := walk vals dflt inherits (S (length inherits)) [L] L target) in *.
    destruct (get_value_at vals L1 target) as [[T| |sub]|] eqn:E1; try discriminate.
    + destruct (rec L1 T) as [body|] eqn:Er; [|discriminate]. destruct (iargs rec A args) as [a|] eqn:Ea; [|discriminate].
      inversion H; subst. exists L1, T, body, a. repeat split; auto.
    + destruct (str_eqb L1 dflt) eqn:Ed; [discriminate|]. exfalso.
      destruct (walk_spec vals dflt inherits target (S (length inherits)) [L] L) as [Hw|(nd & Hn & Hd)]; fold L1 in Hw || fold L1 in Hn.
      * rewrite Hw, str_eqb_refl in Ed. discriminate.
      * rewrite E1 in Hn. inversion Hn; subst. congruence.
Qed.

Lemma xseq_xtexts one l : (forall s, one (XText s) = Some [PcText s]) -> forallb is_xtext l = true ->
  xseq one l = Some (map PcText (map xprint l)).
Proof.
  intros Ho. induction l as [|x r IH]; intros H; [reflexivity|].
  cbn [forallb] in H. apply andb_true_iff in H as [Hx Hr]. destruct x; try discriminate.
  cbn [map xprint]. rewrite xseq_cons, Ho, IH by exact Hr. reflexivity.
Qed.

(** the arguments: [inline]'s map (parsed order) against [xdenote]'s list (same order) *)
Lemma iargs_xargs f0 L' :
  (forall L v items d, XRep v items -> inl f0 L v = Some d -> exists d', xden f0 L items = Some d' /\ pc_norm d' = pc_norm d) ->
  forall pargs sargs, ArgsRep pargs sargs -> forall a, iargs (inl f0) L' pargs = Some a ->
  exists a', xargs (xden f0) L' sargs = Some a' /\ Forall2 arg_eq a a'.
Proof.
  intros IH pargs sargs HR. induction HR as [|k v its pa xa Rv Ra IHa|k l pa xa Ra IHa]; intros a H.
  - cbn in H. inversion H; subst. exists []. split; [reflexivity | constructor].
  - cbn [iargs fold_right] in H. fold (iargs (inl f0) L' pa) in H.
    destruct (inl f0 L' v) as [d|] eqn:Ev; [|discriminate]. destruct (iargs (inl f0) L' pa) as [r|]; [|discriminate].
    inversion H; subst. destruct (IHa _ eq_refl) as (r' & Er & Fr). destruct (IH _ _ _ _ Rv Ev) as (d' & Ed & Nd).
    rewrite xargs_cons, Er. unfold xarg1. cbn [fst snd]. rewrite Ed.
    eexists. split; [reflexivity|]. constructor; [|exact Fr]. split; cbn [fst snd]; [reflexivity|].
    rewrite !pc_norm_idem. symmetry. exact Nd.
  - cbn [iargs fold_right] in H. fold (iargs (inl f0) L' pa) in H.
    destruct (inl f0 L' (PLit l)) as [d|] eqn:Ev; [|discriminate]. destruct (iargs (inl f0) L' pa) as [r|]; [|discriminate].
    inversion H; subst. destruct (IHa _ eq_refl) as (r' & Er & Fr). apply inline_lit_inv in Ev. subst d.
    rewrite xargs_cons, Er. unfold xarg1. cbn [fst snd].
    eexists. split; [reflexivity|]. constructor; [|exact Fr]. split; cbn [fst snd]; [reflexivity|].
    apply pc_norm_idem.
Qed.

(** (iv), references with arguments included: inline on a value of the source's shape = xdenote *)
Theorem inline_xdenote_args : forall f L v items d,
  XRep v items -> inl f L v = Some d ->
  exists d', xden f L items = Some d' /\ pc_norm d' = pc_norm d.
Proof.
  induction f as [f IH] using lt_wf_ind. intros L v items d HR.
  destruct f as [|f]; [intros H; discriminate|].
  assert (IHm : forall L v items d, XRep v items -> inl f L v = Some d ->
                exists d', xseq (xone src dflt inherits (xden f) L) items = Some d' /\ pc_norm d' = pc_norm d).
  { intros L0 v0 items0 d0 R0 I0. destruct (IH f (Nat.lt_succ_diag_r f) _ _ _ _ R0 I0) as (d' & E' & N').
    exists d'. split; [|exact N']. rewrite <- xdenote_S. apply (xdenote_mono_S src dflt inherits f). exact E'. }
  destruct HR as [l Ht|vb va pre n rest Rb Ra|vb vm va pre n kids rest Rb Rm Ra
                 |vb va pre ns path pargs sargs xargs rest Rb Ra RA Hperm Hnd]; intros Hin.
  - apply inline_lit_inv in Hin. subst d. rewrite xdenote_S.
    rewrite (xseq_xtexts _ l (fun s => eq_refl) Ht). eexists. split; [reflexivity|].
    cbn [lit_display]. apply pc_norm_texts.
  - destruct (inline_bloc3_inv _ _ _ _ _ _ _ _ _ Hin) as (db & dx & da & Eb & Ex & Ea & ->).
    apply inline_var_inv in Ex. subst dx.
    destruct (IHm _ _ _ _ Rb Eb) as (db' & Eb' & Nb). destruct (IHm _ _ _ _ Ra Ea) as (da' & Ea' & Na).
    rewrite xdenote_S, xseq_app, xseq_cons, Eb', Ea'. cbn [xone]. eexists. split; [reflexivity|].
    apply pc_norm_congr; [exact Nb|]. apply pc_norm_congr; [reflexivity | exact Na].
  - destruct (inline_bloc3_inv _ _ _ _ _ _ _ _ _ Hin) as (db & dx & da & Eb & Ex & Ea & ->).
    destruct (inline_comp_inv _ _ _ _ _ _ _ _ Ex) as (f0 & dm & -> & Em & ->).
    destruct (IHm _ _ _ _ Rb Eb) as (db' & Eb' & Nb). destruct (IHm _ _ _ _ Ra Ea) as (da' & Ea' & Na).
    destruct (IH f0 ltac:(lia) _ _ _ _ Rm Em) as (dm' & Em' & Nm).
    apply (xdenote_mono_S src dflt inherits f0) in Em'.
    rewrite xdenote_S, xseq_app, xseq_cons, Eb', Ea'. cbn [xone]. rewrite Em'. eexists. split; [reflexivity|].
    apply pc_norm_congr; [exact Nb|]. apply pc_norm_congr; [rewrite Nm; reflexivity | exact Na].
  - destruct (inline_bloc3_inv _ _ _ _ _ _ _ _ _ Hin) as (db & dx & da & Eb & Ex & Ea & ->).
    destruct (inline_foreign_inv _ _ _ _ _ _ _ _ _ Ex) as (f0 & -> & El).
    destruct (IHm _ _ _ _ Rb Eb) as (db' & Eb' & Nb). destruct (IHm _ _ _ _ Ra Ea) as (da' & Ea' & Na).
    destruct (ilook2_inv_args _ _ _ _ _ _ El) as (L' & T & body & a & Eg & Er & Eia & -> & HL).
    destruct (xgv_val _ _ _ Eg) as (items' & Es & R').
    destruct (IH f0 ltac:(lia) _ _ _ _ R' Er) as (body' & Ebody & Nbody).
    apply (xdenote_mono_S src dflt inherits f0) in Ebody.
    (* arguments *)
    destruct (iargs_xargs f0 L (IH f0 ltac:(lia)) pargs sargs RA a Eia) as (a1 & Ea1 & F1).
    apply (xargs_mono _ _ L sargs a1 (xdenote_mono_S src dflt inherits f0)) in Ea1.
    destruct (xargs_perm _ _ _ _ _ Hperm Ea1) as (a2 & Ea2 & P2).
    assert (Heq : args_equiv a a2).
    { intros k. rewrite (args_equiv_forall2 a a1 F1 k). f_equal. apply assoc_perm; [exact P2|].
      eapply Permutation_NoDup; [apply Permutation_map; apply Permutation_sym; exact P2|].
      rewrite (xargs_keys _ _ _ _ Ea2). apply nodup_prefixed. exact Hnd. }
    set (tgt := (ns, path)) in *.
    assert (EL : match src L tgt with
                 | Some (Some _) => L
                 | _ => effective src dflt inherits (S (length inherits)) [L] L tgt
                 end = L').
    { destruct HL as [->|[E0 ->]].
      - rewrite Es. reflexivity.
      - rewrite (xgv_default _ _ E0). eapply xwalk_effective. exact Eg. }
    rewrite xdenote_S, xseq_app, xseq_cons, Eb', Ea'. cbn [xone]. fold tgt. cbv zeta. rewrite EL, Es, Ebody, Ea2.
    eexists. split; [reflexivity|].
    apply pc_norm_congr; [exact Nb|]. apply pc_norm_congr; [|exact Na].
    rewrite Nbody. rewrite (subst_pieces_equiv a a2 _ Heq). reflexivity.
Qed.

(** end to end on such a project *)
Theorem final_value_xdenote_args ns L path items v r' :
  src L (ns, path) = Some (Some items) -> get_value_at vals L (ns, path) = Some (NVal v) ->
  final_value vals dflt inherits ns L path (NVal v) = Ok (Some r') ->
  (exists d, xden 200 L items = Some d /\ pieces r' = pc_norm d) /\
  (forall fuel d, xden fuel L items = Some d -> pieces r' = pc_norm d).
Proof.
  intros Es Eg Hf.
  destruct (xgv_val _ _ _ Eg) as (items' & Es' & R). rewrite Es in Es'. inversion Es'; subst items'.
  destruct (final_value_inline _ _ _ _ _ _ _ _ Hf) as (di & Ei & Pi).
  destruct (inline_xdenote_args _ _ _ _ _ R Ei) as (d' & Ed' & Nd').
  assert (P' : pieces r' = pc_norm d') by (rewrite Pi, Nd'; reflexivity).
  split; [exists d'; split; [exact Ed' | exact P']|].
  intros fuel d Hd. rewrite (xdenote_fuel_irrelevant _ _ _ _ _ _ _ _ _ Hd Ed'). exact P'.
Qed.
End Sound.

(** * the parser statement (proved in ForeignSound7.v): the parser builds the shape [XRep] for printed sources *)
Definition parse_args_statement : Prop :=
  forall idc items v, xitems_wf idc items = true ->
  parse_top idc json_args_model true (xprint_list items) = Ok v -> XRep v items.

(** the full soundness statement (kept in Props/C06b.v as C06b_sound_statement) *)
Definition sound_statement : Prop :=
  forall idc vals dflt inherits (src : str -> keypath -> option (option (list xitem))),
  (forall L p, match src L p with
               | Some (Some items) =>
                   xitems_wf idc items = true /\
                   exists v, parse_top idc json_args_model true (xprint_list items) = Ok v /\ get_value_at vals L p = Some (NVal v)
               | Some None => get_value_at vals L p = Some NDefault
               | None => get_value_at vals L p = None \/ exists sub, get_value_at vals L p = Some (NSub sub)
               end) ->
  forall ns L path items v r', src L (ns, path) = Some (Some items) -> get_value_at vals L (ns, path) = Some (NVal v) ->
  final_value vals dflt inherits ns L path (NVal v) = Ok (Some r') ->
  forall fuel d, xdenote src dflt inherits fuel L items = Some d -> pieces r' = pc_norm d.

(** full soundness is reduced to the parser statement *)
Theorem sound_from_parse_args : parse_args_statement -> sound_statement.
Proof.
  intros HPA idc vals dflt inherits src Hsrc ns L path items v r' Es Eg Hf fuel d Hd.
  assert (HP : xproj_rel vals src).
  { intros L0 p0. pose proof (Hsrc L0 p0) as H0. destruct (src L0 p0) as [[its|]|]; [|exact H0|exact H0].
    destruct H0 as (W & v0 & Ev0 & Eg0). exists v0. split; [exact Eg0 | eapply HPA; eassumption]. }
  destruct (final_value_xdenote_args vals dflt inherits src HP ns L path items v r' Es Eg Hf) as [_ H]. eapply H. exact Hd.
Qed.
