(** Bridge for C07: [spec_C07] holds of the model's answer on every well-formed case. *)
From Coq Require Import List NArith Bool Arith Lia.
Import ListNotations.
From LI Require Import Parser.Merge Parser.MergeCheck Parser.MergeWf Parser.MergeProofs Parser.MergeSpecProofs.
From LI Require Parser.MergeWarnProofs.
Open Scope N_scope.

Lemma pbs_eqb_refl : forall a, pbs_eqb a a = true.
Proof.
  induction a as [|[p b] r IH]; cbn [pbs_eqb]; [reflexivity|].
  unfold pb_eqb. cbn [fst snd]. rewrite list_eqb_refl, Bool.eqb_reflx, IH. reflexivity.
Qed.

Lemma entries_paths_mut : forall locs ns,
  (forall b pfx, map (fun e => (e_path e, negb (e_group e))) (bk_entries locs ns b pfx) = bk_paths b pfx)
  /\ (forall ks pfx, map (fun e => (e_path e, negb (e_group e))) (bks_entries locs ns ks pfx) = bks_paths ks pfx).
Proof.
  intros locs ns. apply bk_bks_mutind.
  - intros p d pfx. reflexivity.
  - intros fk ks IH pfx. cbn [bk_entries bk_paths map e_path e_group negb]. now rewrite IH.
  - intros pfx. reflexivity.
  - intros k b IHb r IHr pfx. cbn [bks_entries bks_paths]. now rewrite map_app, IHb, IHr.
Qed.

Lemma filter_all : forall A (f : A -> bool) l, (forall x, In x l -> f x = true) -> filter f l = l.
Proof.
  intros A f. induction l as [|x r IH]; intros H; cbn [filter]; [reflexivity|].
  rewrite (H x (or_introl eq_refl)), IH; [reflexivity|]. intros y Hy. apply H. now right.
Qed.
Lemma filter_none : forall A (f : A -> bool) l, (forall x, In x l -> f x = false) -> filter f l = [].
Proof.
  intros A f. induction l as [|x r IH]; intros H; cbn [filter]; [reflexivity|].
  rewrite (H x (or_introl eq_refl)). apply IH. intros y Hy. apply H. now right.
Qed.

Lemma check_locales_ok_fst : forall ext suppress nss out ws,
  check_locales ext suppress nss = Ok (out, ws) -> map fst out = map fst nss.
Proof.
  intros ext suppress. induction nss as [|[ns0 locs0] r IH]; intros out ws H; cbn [check_locales] in H.
  - now injection H as <- <-.
  - destruct (check_locales_inner ext suppress ns0 locs0) as [[ks0 w1]| | |]; try discriminate.
    destruct (check_locales ext suppress r) as [[out' w2]| | |] eqn:Hr; try discriminate. injection H as <- <-.
    cbn [map fst]. now rewrite (IH _ _ eq_refl).
Qed.

Lemma flat_entries_ns : forall G out e,
  In e (flat_map (entries_of G) out) -> In (e_ns e) (map fst out).
Proof.
  intros G out e H. apply in_flat_map in H. destruct H as [nk [Hnk He]].
  destruct (proj2 (entries_prefix_mut _ _) _ _ _ He) as [Hns _]. rewrite Hns. now apply in_map.
Qed.

Lemma check_locales_ok_filter : forall ext suppress G nss out ws,
  check_locales ext suppress nss = Ok (out, ws) ->
  NoDup (map (fun nf : nsfiles => encns (fst nf)) nss) ->
  forall nf, In nf nss ->
  exists ks w, check_locales_inner ext suppress (fst nf) (snd nf) = Ok (ks, w)
    /\ filter (fun e => onskey_eqb (e_ns e) (fst nf)) (flat_map (entries_of G) out)
       = bks_entries (G (fst nf)) (fst nf) ks [].
Proof.
  intros ext suppress G. induction nss as [|[ns0 locs0] r IH]; intros out ws H Hnd nf Hin; [contradiction|].
  cbn [check_locales] in H.
  destruct (check_locales_inner ext suppress ns0 locs0) as [[ks0 w1]| | |] eqn:Hi; try discriminate.
  destruct (check_locales ext suppress r) as [[out' w2]| | |] eqn:Hr; try discriminate. injection H as <- <-.
  cbn [map] in Hnd. apply NoDup_cons_iff in Hnd. destruct Hnd as [Hn0 Hnd]. cbn [flat_map]. rewrite filter_app.
  pose proof (check_locales_ok_fst _ _ _ _ _ Hr) as Hfst.
  destruct Hin as [<-|Hin].
  - exists ks0, w1. cbn [fst snd]. split; [assumption|].
    rewrite filter_all, filter_none; [apply app_nil_r | |].
    + intros e He. apply flat_entries_ns in He. rewrite Hfst in He. apply onskey_neq. intros Heq. apply Hn0.
      apply in_map_iff in He. destruct He as [nf' [Hf' Hin']]. apply in_map_iff. exists nf'. cbn [fst].
      split; [now rewrite Hf', Heq | assumption].
    + intros e He. unfold entries_of in He. cbn [fst snd] in He.
      destruct (proj2 (entries_prefix_mut _ _) _ _ _ He) as [Hns _]. rewrite Hns. unfold onskey_eqb. apply opt_eqb_refl.
  - destruct (IH _ _ eq_refl Hnd nf Hin) as [ks [w [Hk Hf]]]. exists ks, w. split; [assumption|].
    rewrite filter_none; [exact Hf|].
    intros e He. unfold entries_of in He. cbn [fst snd] in He.
    destruct (proj2 (entries_prefix_mut _ _) _ _ _ He) as [Hns _]. rewrite Hns. apply onskey_neq.
    intros Heq. apply Hn0. apply in_map_iff. exists nf. cbn [fst]. split; [now rewrite Heq | assumption].
Qed.

Lemma files_get_In : forall (locs : list (loc * forest)) l f,
  NoDup (map fst locs) -> In (l, f) locs -> files_get locs l = f.
Proof.
  unfold files_get. induction locs as [|[l0 f0] r IH]; intros l f Hnd Hin; [contradiction|].
  cbn [map fst] in Hnd. apply NoDup_cons_iff in Hnd. destruct Hnd as [Hn0 Hnd]. cbn [find fst].
  destruct Hin as [Heq|Hin].
  - injection Heq as -> ->. now rewrite N.eqb_refl.
  - destruct (l0 =? l) eqn:He; [|now apply IH].
    apply N.eqb_eq in He. subst l0. exfalso. apply Hn0. apply in_map_iff. exists (l, f). now split.
Qed.

Theorem spec_C07_holds : forall c, wf_strict c = true -> spec_C07 c (model_result c) = true.
Proof.
  intros c Hwf. pose proof (spec_C03_holds c Hwf) as H03. pose proof (MergeWarnProofs.warnings_exact c Hwf) as Hw.
  unfold model_result in *.
  pose proof (wf_ns_nodup c Hwf) as Hnsnd.
  destruct (check_locales (c_ext c) (c_suppress c) (c_nss c)) as [[out ws]|e| |] eqn:Hc; try discriminate.
  - cbn [spec_C03 spec_C07] in *. apply andb_true_iff in H03. destruct H03 as [Hcalls _]. rewrite Hcalls, Hw. cbn [andb].
    apply andb_true_iff. split.
    + apply forallb_forall. intros nf Hin.
      destruct (check_locales_ok_filter _ _ (ns_files_of c) _ _ _ Hc Hnsnd nf Hin) as [ks [w [Hk Hf]]].
      destruct (wf_ns c nf Hwf Hin) as [dflt [df [rest [Hs _]]]].
      unfold spec_keyset_ns. rewrite Hs. rewrite Hs in Hk.
      change (model_entries c out) with (flat_map (entries_of (ns_files_of c)) out). rewrite Hf.
      rewrite (proj2 (entries_paths_mut _ _) ks []), (keyset_is_default _ _ _ _ _ _ _ _ Hk). apply pbs_eqb_refl.
    + apply forallb_forall. intros e He.
      change (model_entries c out) with (flat_map (entries_of (ns_files_of c)) out) in He.
      apply flat_entries_ns in He. rewrite (check_locales_ok_fst _ _ _ _ _ Hc) in He.
      apply in_map_iff in He. destruct He as [nf [Hf Hin]]. apply existsb_exists. exists nf. split; [assumption|].
      rewrite Hf. unfold onskey_eqb. apply opt_eqb_refl.
  - cbn [spec_C03 spec_C07] in *. rewrite H03. cbn [andb].
    destruct (check_locales_err _ _ _ _ Hc) as [[ns locs] [Hin Hk]].
    destruct (wf_ns c _ Hwf Hin) as [dflt [df [rest [Hs [Hnd [Hext Hfn]]]]]]. cbn [fst snd] in *. subst locs.
    assert (Hdfn : forest_nodup df = true) by (apply (Hfn (dflt, df)); now left).
    pose proof (inner_err_genuine _ _ _ _ _ _ _ Hk Hdfn) as Hg.
    pose proof (ns_files_of_In c _ Hnsnd Hin) as Hfiles. cbn [fst snd] in Hfiles.
    unfold error_genuine. destruct e as [l ns' p|ns' p]; cbn [inner_err_ok] in Hg.
    + destruct Hg as [-> [f [Hinf Hm]]]. rewrite Hfiles.
      apply NoDup_cons_iff in Hnd. destruct Hnd as [Hd Hnd].
      assert (Hl : In l (map fst rest)) by (apply in_map_iff; exists (l, f); now split).
      rewrite (proj2 (mem_In _ _) Hl), (files_get_In rest l f Hnd Hinf), Hm.
      destruct (l =? dflt) eqn:He; [apply N.eqb_eq in He; subst; contradiction | reflexivity].
    + destruct Hg as [-> Hat]. rewrite Hfiles. now rewrite Hat.
Qed.
