(** Model of the configuration step of leptos_i18n_parser — property C19.

    Mirrors parse_locales/cfg_file.rs:
      CfgFileVisitor::visit_map  ([visit_map]: required fields, `inherits` checks, default must
                                  not inherit) on the decoded `[package.metadata.leptos-i18n]` table,
      ConfigFile::new            ([config_new]: default moved / added to index 0 by `swap`,
                                  duplicate detection for locales and namespaces),
    and parse_locales/locale.rs:
      find_file, Namespace::new, LocalesOrNamespaces::new ([read_files]: which paths are tried
      and tracked, per file format).

    Not modelled (exercised by the harness only): the `toml` crate, the textual split at the
    section header, type errors inside the table,
    set_extension on names containing '.', Key::new's identifier check (the `quote` feature).
    Names are [Key]s: the string as written, trimmed (Key::new).

    [visit_map] is the code after the repair of fixes/C19-inherits-default.diff (the default
    locale counts as a known locale in `inherits`); [visit_map_old] is the code before it.
    No proofs in this file. *)
From Coq Require Import List NArith Bool.
Import ListNotations.
From LI Require Import Base.StrOps.
Open Scope N_scope.

Definition key_new (s : str) : str := trim s.

Fixpoint str_ltb (a b : str) : bool :=
  match a, b with
  | [], [] => false
  | [], _ :: _ => true
  | _ :: _, [] => false
  | x :: xs, y :: ys => if x <? y then true else if x =? y then str_ltb xs ys else false
  end.
Definition smem (x : str) (l : list str) : bool := existsb (str_eqb x) l.

(* BTreeSet<Key> / BTreeMap<Key, Key> on ascending lists *)
Fixpoint sset_insert (x : str) (s : list str) : list str :=
  match s with
  | [] => [x]
  | y :: r => if str_ltb x y then x :: s else if str_eqb x y then s else y :: sset_insert x r
  end.
Fixpoint smap_insert (k v : str) (m : list (str * str)) : list (str * str) :=
  match m with
  | [] => [(k, v)]
  | (k', v') :: r =>
      if str_ltb k k' then (k, v) :: m
      else if str_eqb k k' then (k, v) :: r
      else (k', v') :: smap_insert k v r
  end.
Fixpoint smap_get (m : list (str * str)) (k : str) : option str :=
  match m with
  | [] => None
  | (k', v) :: r => if str_eqb k k' then Some v else smap_get r k
  end.

(** the decoded table: fields as written (strings not yet trimmed), `inherits` entries in
    document order *)
Record raw_cfg := mk_raw {
  r_default : option str;
  r_locales : option (list str);
  r_namespaces : option (list str);
  r_locales_dir : option str;
  r_translations_uri : option str;
  r_inherits : option (list (str * str)) }.

Record config := mk_config {
  cf_default : str;
  cf_locales : list str;
  cf_namespaces : option (list str);
  cf_locales_dir : str;
  cf_translations_uri : option str;
  cf_extensions : list (str * str) }.

Inductive cfg_err :=
| EMissingField (which : N)          (* 0 = "default", 1 = "locales" *)
| EUnknownLocale (name : str)        (* custom("unknown locale {:?}") *)
| EDefaultInherits                   (* custom("default locale can't inherit") *)
| EDupLocales (names : list str)     (* DuplicateLocalesInConfig(BTreeSet) *)
| EDupNamespaces (names : list str)  (* DuplicateNamespacesInConfig(BTreeSet) *)
| ENotFound (tried : list str).      (* LocaleFileNotFound: every path tried for one file *)

Inductive cres (A : Type) := COk (a : A) | CErr (e : cfg_err).
Arguments COk {A} a.
Arguments CErr {A} e.

Definition locales_default : str := [108; 111; 99; 97; 108; 101; 115].   (* "locales" *)

(* `for (k, v) in &extensions { if !known(k) .. ; if !known(v) .. }` in BTreeMap order *)
Fixpoint check_inherits (known : str -> bool) (ext : list (str * str)) : option cfg_err :=
  match ext with
  | [] => None
  | (k, v) :: r =>
      if negb (known k) then Some (EUnknownLocale k)
      else if negb (known v) then Some (EUnknownLocale v)
      else check_inherits known r
  end.

Definition visit_map_with (known : str -> list str -> str -> bool) (r : raw_cfg) : cres config :=
  match r_default r with
  | None => CErr (EMissingField 0)
  | Some d0 =>
      match r_locales r with
      | None => CErr (EMissingField 1)
      | Some ls0 =>
          let d := key_new d0 in
          let ls := map key_new ls0 in
          let dir := match r_locales_dir r with Some s => s | None => locales_default end in
          let ext := fold_left (fun m kv => smap_insert (key_new (fst kv)) (key_new (snd kv)) m)
                               (match r_inherits r with Some l => l | None => [] end) [] in
          match check_inherits (known d ls) ext with
          | Some e => CErr e
          | None =>
              match smap_get ext d with
              | Some _ => CErr EDefaultInherits
              | None => COk (mk_config d ls (option_map (map key_new) (r_namespaces r)) dir
                                       (r_translations_uri r) ext)
              end
          end
      end
  end.

(* repaired: the default locale is always a known locale *)
Definition visit_map : raw_cfg -> cres config :=
  visit_map_with (fun d ls x => str_eqb x d || smem x ls).
(* before the repair: only the *listed* locales were known *)
Definition visit_map_old : raw_cfg -> cres config :=
  visit_map_with (fun d ls x => smem x ls).

Fixpoint position (d : str) (l : list str) : option nat :=
  match l with
  | [] => None
  | x :: r => if str_eqb x d then Some O else option_map S (position d r)
  end.

(* slice::swap(0, i), i in bounds *)
Definition swap0 {A} (l : list A) (i : nat) : list A :=
  match l, i with
  | x :: r, S j =>
      match nth_error r j with
      | Some y => y :: firstn j r ++ x :: skipn (S j) r
      | None => l
      end
  | _, _ => l
  end.

Definition default_first (d : str) (ls : list str) : list str :=
  match position d ls with
  | Some i => swap0 ls i
  | None => swap0 (ls ++ [d]) (length ls)
  end.

(* contain_duplicates: `marked` set, BTreeSet of the keys seen twice *)
Fixpoint dups (marked : list str) (l : list str) (acc : list str) : list str :=
  match l with
  | [] => acc
  | k :: r => if smem k marked then dups marked r (sset_insert k acc) else dups (k :: marked) r acc
  end.
Definition contain_duplicates (l : list str) : option (list str) :=
  match dups [] l [] with [] => None | d => Some d end.

Definition config_new_with (vm : raw_cfg -> cres config) (r : raw_cfg) : cres config :=
  match vm r with
  | CErr e => CErr e
  | COk c =>
      let ls := default_first (cf_default c) (cf_locales c) in
      match contain_duplicates ls with
      | Some d => CErr (EDupLocales d)
      | None =>
          match match cf_namespaces c with Some n => contain_duplicates n | None => None end with
          | Some d => CErr (EDupNamespaces d)
          | None => COk (mk_config (cf_default c) ls (cf_namespaces c) (cf_locales_dir c)
                                   (cf_translations_uri c) (cf_extensions c))
          end
      end
  end.
Definition config_new := config_new_with visit_map.
Definition config_new_old := config_new_with visit_map_old.

(** ** Files *)
Definition slash : N := 47.
Definition dot : N := 46.
(* PathBuf::push: an absolute component replaces the path, a relative one is appended
   (with a separator unless the path already ends with one) *)
Definition push (base comp : str) : str :=
  match comp with
  | c0 :: _ =>
      if c0 =? slash then comp
      else match rev base with
           | c :: _ => if c =? slash then base ++ comp else base ++ slash :: comp
           | [] => comp
           end
  | [] =>
      match rev base with
      | c :: _ => if c =? slash then base else base ++ [slash]
      | [] => []
      end
  end.
(* PathBuf::set_extension on a file name without '.' *)
Definition with_ext (p ext : str) : str := p ++ dot :: ext.

(* get_files_exts: 0 = json_files, 1 = yaml_files, 2 = json5_files *)
Definition file_exts (fmt : N) : list str :=
  if fmt =? 0 then [[106; 115; 111; 110]]
  else if fmt =? 1 then [[121; 97; 109; 108]; [121; 109; 108]]
  else if fmt =? 2 then [[106; 115; 111; 110; 53]]
  else [].

(* the extension-less path of every file to read, in reading order:
   LocalesOrNamespaces::new / Namespace::new *)
Definition file_stems (manifest_dir : str) (c : config) : list str :=
  let base := push manifest_dir (cf_locales_dir c) in
  match cf_namespaces c with
  | None => map (fun l => push base l) (cf_locales c)
  | Some nss => flat_map (fun ns => map (fun l => push (push base l) ns) (cf_locales c)) nss
  end.

(* find_file: first extension whose file opens *)
Fixpoint find_file (existing : list str) (cands : list str) : option str :=
  match cands with
  | [] => None
  | p :: r => if smem p existing then Some p else find_file existing r
  end.

Fixpoint read_files (fmt : N) (existing : list str) (stems : list str) : cres (list str) :=
  match stems with
  | [] => COk []
  | s :: r =>
      let cands := map (with_ext s) (file_exts fmt) in
      match find_file existing cands with
      | None => CErr (ENotFound cands)
      | Some p =>
          match read_files fmt existing r with
          | COk t => COk (p :: t)
          | CErr e => CErr e
          end
      end
  end.

(* parse_locales_raw up to the tracked files *)
Definition load_with (vm : raw_cfg -> cres config) (fmt : N) (manifest_dir : str) (existing : list str)
           (r : raw_cfg) : cres (config * list str) :=
  match config_new_with vm r with
  | CErr e => CErr e
  | COk c =>
      match read_files fmt existing (file_stems manifest_dir c) with
      | COk t => COk (c, t)
      | CErr e => CErr e
      end
  end.
Definition load := load_with visit_map.
Definition load_old := load_with visit_map_old.

(** ** The text of the manifest: where the section is cut (ConfigFile::new)

    Since f0237de: the header is the FIRST occurrence of "[package.metadata.leptos-i18n]" that starts
    its line, i.e. the text between the last line feed (or the start of the file) and the occurrence
    is, after stripping leading U+FEFF characters, only white space (Rust's `str::trim`: the
    White_Space code points, [is_ws] — of which the manifest writer produces space, tab and '\r').
    `match_indices` enumerates non-overlapping occurrences; the header string has no border (its
    first character '[' occurs nowhere else in it), so this is every occurrence, and the model
    examines every position.  What precedes the header is replaced by its line feeds only (TOML error
    positions keep their line numbers) and chained with what follows it; [None] = ConfigNotPresent.

    [section_text_old] is the code before f0237de: the first occurrence wherever it stands
    (`split_once`), so a mention of the header in a comment or a string cut the manifest there. *)
Definition header : str :=
  [91; 112; 97; 99; 107; 97; 103; 101; 46; 109; 101; 116; 97; 100; 97; 116; 97; 46;
   108; 101; 112; 116; 111; 115; 45; 105; 49; 56; 110; 93].
Definition line_feed : N := 10.
Definition bom : N := 65279.
Definition only_line_feeds (s : str) : str := filter (fun c => c =? line_feed) s.

Fixpoint drop_boms (l : str) : str :=
  match l with c :: r => if c =? bom then drop_boms r else l | [] => [] end.
(* `line[..].trim_start_matches('\u{feff}').trim().is_empty()` *)
Definition line_start_ok (line : str) : bool := forallb is_ws (drop_boms line).
(* the text of the current line so far, after reading one more character *)
Definition line_step (line : str) (c : N) : str := if c =? line_feed then [] else line ++ [c].

(* [scan line s]: [s] is what remains to be read, [line] the part of the current line already read;
   returns (what is read before the header, what follows the header) *)
Fixpoint scan (line : str) (s : str) {struct s} : option (str * str) :=
  match s with
  | [] => None
  | c :: r =>
      let continue :=
        match scan (line_step line c) r with
        | Some (a, b) => Some (c :: a, b)
        | None => None
        end in
      match strip_prefix header s with
      | Some rest => if line_start_ok line then Some ([], rest) else continue
      | None => continue
      end
  end.

Definition section_text (manifest : str) : option str :=
  match scan [] manifest with
  | Some (before, body) => Some (only_line_feeds before ++ body)
  | None => None
  end.

Definition section_text_old (manifest : str) : option str :=
  match split_once header manifest with
  | Some (before, body) => Some (only_line_feeds before ++ body)
  | None => None
  end.
